(* Parse/WireNested.v -- facts ABOUT the accepted views of the reference decoder
   (Parse/WireSpec.v), for every byte string and all four entry points:

   `wire_nested`: the windows of an accepted view are nested the way the formats say.
   Walking the view from the outside in, `cur` is the window of the data available to
   the next layer (already cut by every outer length field):
     - link: the Ethernet II / SLL / ether-payload window is the whole input; the data
       behind the 14 / 16 byte header is `cur` for the first extension;
     - 802.1Q tag: its window IS `cur`, its payload starts 4 bytes later, same end;
     - MACsec: SecTAG at the start of `cur`, length from the TCI octet; the payload starts
       behind it and ends at the end of `cur` (short length 0) or exactly where the short
       length says (never past the end of `cur`);
     - IPv4: header at the start of `cur` with IHL*4 bytes, the packet ends at
       pos + total_length (inside `cur`), [AH directly behind the header with its own
       length,] the payload window runs from there to pos + total_length;
     - IPv6: 40 byte header, extension window directly behind, payload behind that,
       ending at pos + 40 + payload_length, or at the end of `cur` when the field is 0;
     - ARP: 8 + 2*hlen + 2*plen bytes at the start of `cur`;
     - UDP: starts where the IP payload starts, length = UDP length field (never more
       than the IP payload), or the IP payload's length when the field is 0;
     - TCP / ICMPv4 / ICMPv6: exactly the IP payload window (TCP: data offset*4 inside).
   `nested_inside`: hence every window lies inside [0, len bs).

   Audit round 1 (C03 "Payloads are cut to the innermost applicable length field ... and
   never extend past it"): this clause was true by inspection of WireSpec.v only. *)
From EP Require Import Base.Bytes Parse.Types Parse.View Parse.WireSpec Parse.WireSpecFacts.
From Coq Require Import ZArith Lia ZifyN ZifyBool.

Local Open Scope N_scope.

Definition wend (w : window) : N := fst w + snd w.

Section Nested.
  Variable bs : bytes.
  Local Notation B := (B bs).
  Local Notation W := (W bs).
  Local Notation n := (len bs).

  (* ---- link ------------------------------------------------------------------ *)
  Definition link_ok (l : option vlink) : Prop :=
    match l with
    | None => True
    | Some (VEthernet2 w) => w = (0, n) /\ 14 <= n
    | Some (VLinuxSll h w) => h = (0, 16) /\ w = (0, n) /\ 16 <= n
    | Some (VEtherPayload e) => vep_win e = (0, n) /\ vep_src e = LsSlice
    end.

  (* the data behind the link header (the whole input without one) *)
  Definition link_payload (l : option vlink) : window :=
    match l with
    | None => (0, n)
    | Some (VEthernet2 w) => (fst w + 14, snd w - 14)
    | Some (VLinuxSll h w) => (fst w + snd h, snd w - snd h)
    | Some (VEtherPayload e) => vep_win e
    end.

  (* ---- link extensions ------------------------------------------------------- *)
  Definition macsec_payload_win (p : vmacsec_payload) : window :=
    match p with
    | VMpUnmodified e => vep_win e
    | VMpModified w => w
    end.

  Definition ext_ok (cur : window) (x : vlink_ext) : Prop :=
    match x with
    | VVlan w => w = cur /\ 4 <= snd w
    | VMacsec h p =>
        let tci := B (fst h) in
        let sl := B (fst h + 1) mod 64 in
        let pw := macsec_payload_win p in
        fst h = fst cur /\ snd h = macsec_hl tci /\
        fst pw = wend h /\ wend pw <= wend cur /\
        (sl = 0 -> wend pw = wend cur) /\
        (0 < sl -> wend pw = wend h + macsec_body tci sl) /\
        match p with
        | VMpUnmodified e =>
            (tci / 4) mod 4 = 0 /\ vep_type e = W (wend h - 2) /\
            vep_src e = (if sl =? 0 then LsSlice else LsMacsecShortLength)
        | VMpModified _ => (tci / 4) mod 4 <> 0
        end
    end.

  Definition ext_payload (x : vlink_ext) : window :=
    match x with
    | VVlan w => (fst w + 4, snd w - 4)
    | VMacsec h p => macsec_payload_win p
    end.

  Fixpoint exts_nested (cur : window) (xs : list vlink_ext) : Prop :=
    match xs with
    | [] => True
    | x :: r => ext_ok cur x /\ exts_nested (ext_payload x) r
    end.

  (* the data available behind the last extension *)
  Fixpoint exts_final (cur : window) (xs : list vlink_ext) : window :=
    match xs with
    | [] => cur
    | x :: r => exts_final (ext_payload x) r
    end.

  (* ---- network layer --------------------------------------------------------- *)
  Definition net_ok (cur : window) (nn : vnet) : Prop :=
    match nn with
    | VArp w =>
        fst w = fst cur /\ snd w = 8 + B (fst w + 4) * 2 + B (fst w + 5) * 2 /\ wend w <= wend cur
    | VIpv4 h auth p =>
        let pos := fst h in
        let tl := W (pos + 2) in
        fst h = fst cur /\ snd h = (B pos mod 16) * 4 /\ 20 <= snd h /\
        pos + tl <= wend cur /\
        match auth with
        | None => fst (vip_win p) = wend h
        | Some a => fst a = wend h /\ snd a = (B (fst a + 1) + 2) * 4 /\ fst (vip_win p) = wend a
        end /\
        wend (vip_win p) = pos + tl /\ vip_src p = LsIpv4HeaderTotalLen
    | VIpv6 h first frag x p =>
        let pos := fst h in
        let pl := W (pos + 4) in
        fst h = fst cur /\ snd h = 40 /\ fst x = wend h /\ fst (vip_win p) = wend x /\
        wend (vip_win p) <= wend cur /\
        (pl = 0 -> wend (vip_win p) = wend cur) /\
        (0 < pl -> wend (vip_win p) = pos + 40 + pl /\ vip_src p = LsIpv6HeaderPayloadLen)
    end.

  Definition net_payload (nn : option vnet) : option vip_payload :=
    match nn with
    | Some (VIpv4 _ _ p) => Some p
    | Some (VIpv6 _ _ _ _ p) => Some p
    | _ => None
    end.

  (* ---- transport layer ------------------------------------------------------- *)
  Definition tr_ok (ipw : window) (t : vtransport) : Prop :=
    match t with
    | VUdp w =>
        let l := W (fst w + 4) in
        fst w = fst ipw /\ 8 <= snd w /\ snd w <= snd ipw /\
        (l = 0 -> snd w = snd ipw) /\ (0 < l -> snd w = l)
    | VTcp hl w => w = ipw /\ hl = (B (fst w + 12) / 16) * 4 /\ 20 <= hl /\ hl <= snd w
    | VIcmpv4 w => w = ipw /\ 8 <= snd w
    | VIcmpv6 w => w = ipw /\ 8 <= snd w /\ snd w <= 4294967295
    end.

  (* a transport layer only exists behind an unfragmented IP payload *)
  Definition tr_nested (nn : option vnet) (t : option vtransport) : Prop :=
    match t with
    | None => True
    | Some t =>
        match net_payload nn with
        | Some p => vip_frag p = false /\ tr_ok (vip_win p) t
        | None => False
        end
    end.

  (* ---- the whole view --------------------------------------------------------- *)
  Definition nested (v : vpacket) : Prop :=
    link_ok (v_link v) /\
    exts_nested (link_payload (v_link v)) (v_exts v) /\
    match v_net v with
    | None => True
    | Some nn => net_ok (exts_final (link_payload (v_link v)) (v_exts v)) nn
    end /\
    tr_nested (v_net v) (v_transport v).

  (* every window the view mentions *)
  Definition link_windows (l : option vlink) : list window :=
    match l with
    | None => []
    | Some (VEthernet2 w) => [w]
    | Some (VLinuxSll h w) => [h; w]
    | Some (VEtherPayload e) => [vep_win e]
    end.
  Definition ext_windows (x : vlink_ext) : list window :=
    match x with
    | VVlan w => [w]
    | VMacsec h p => [h; macsec_payload_win p]
    end.
  Definition net_windows (nn : option vnet) : list window :=
    match nn with
    | None => []
    | Some (VArp w) => [w]
    | Some (VIpv4 h auth p) => h :: match auth with Some a => [a] | None => [] end ++ [vip_win p]
    | Some (VIpv6 h _ _ x p) => [h; x; vip_win p]
    end.
  Definition tr_windows (t : option vtransport) : list window :=
    match t with
    | None => []
    | Some (VUdp w) | Some (VTcp _ w) | Some (VIcmpv4 w) | Some (VIcmpv6 w) => [w]
    end.
  Definition vwindows (v : vpacket) : list window :=
    link_windows (v_link v) ++ flat_map ext_windows (v_exts v) ++
    net_windows (v_net v) ++ tr_windows (v_transport v).

  Definition inside (w : window) : Prop := wend w <= n.

  (* ---- proofs: nested views lie inside the input -------------------------------- *)
  Lemma ext_payload_end cur x : ext_ok cur x -> wend (ext_payload x) <= wend cur.
  Proof.
    destruct x as [w|h p]; cbn [ext_ok ext_payload].
    - intros (-> & H). unfold wend in *. cbn [fst snd]. lia.
    - cbv zeta. intros (_ & _ & _ & H & _). exact H.
  Qed.

  Lemma exts_inside : forall xs cur,
    wend cur <= n -> exts_nested cur xs ->
    Forall inside (flat_map ext_windows xs) /\ wend (exts_final cur xs) <= n.
  Proof.
    induction xs as [|x r IH]; intros cur Hc; cbn [exts_nested exts_final flat_map].
    - intros _. split; [constructor|exact Hc].
    - intros (Hx & Hr).
      pose proof (ext_payload_end cur x Hx) as Hp.
      destruct (IH (ext_payload x)) as (Ha & Hb); [lia|exact Hr|].
      split; [|exact Hb].
      apply Forall_app. split; [|exact Ha].
      destruct x as [w|h p]; cbn [ext_ok ext_windows ext_payload] in *.
      + destruct Hx as (-> & _). repeat constructor. exact Hc.
      + cbv zeta in Hx. destruct Hx as (_ & _ & H3 & H4 & _).
        repeat constructor; unfold inside; [|lia].
        unfold wend in *. lia.
  Qed.

  Theorem nested_inside v : nested v -> Forall inside (vwindows v).
  Proof.
    intros (Hl & Hx & Hn & Ht). unfold vwindows.
    assert (Hlp : wend (link_payload (v_link v)) <= n).
    { destruct (v_link v) as [[w|h w|e]|]; cbn [link_ok link_payload] in *; unfold wend.
      - destruct Hl as (-> & H). cbn [fst snd]. lia.
      - destruct Hl as (-> & -> & H). cbn [fst snd]. lia.
      - destruct Hl as (-> & _). cbn [fst snd]. lia.
      - cbn [fst snd]. lia. }
    destruct (exts_inside _ _ Hlp Hx) as (Hxa & Hfin).
    set (cur := exts_final (link_payload (v_link v)) (v_exts v)) in *.
    apply Forall_app. split.
    { destruct (v_link v) as [[w|h w|e]|]; cbn [link_ok link_windows] in *; unfold inside, wend.
      - destruct Hl as (-> & H). repeat constructor; cbn [fst snd]; lia.
      - destruct Hl as (-> & -> & H). repeat constructor; cbn [fst snd]; lia.
      - destruct Hl as (-> & _). repeat constructor; cbn [fst snd]; lia.
      - constructor. }
    apply Forall_app. split; [exact Hxa|].
    unfold tr_nested in Ht.
    assert (Hnet : Forall inside (net_windows (v_net v)) /\
                   match net_payload (v_net v) with Some p => wend (vip_win p) <= n | None => True end).
    { destruct (v_net v) as [[h auth p|h first frag x p|w]|]; cbn [net_ok net_windows net_payload] in *.
      - cbv zeta in Hn. destruct Hn as (H1 & H2 & H3 & H4 & H5 & H6 & H7).
        assert (Hp : wend (vip_win p) <= n) by lia.
        split; [|exact Hp].
        constructor.
        + unfold inside. destruct auth as [a|].
          * destruct H5 as (Ha & Hb & Hc). unfold wend in *. lia.
          * unfold wend in *. lia.
        + apply Forall_app. split; [|repeat constructor; exact Hp].
          destruct auth as [a|]; [|constructor].
          destruct H5 as (Ha & Hb & Hc). repeat constructor. unfold inside, wend in *. lia.
      - cbv zeta in Hn. destruct Hn as (H1 & H2 & H3 & H4 & H5 & _).
        assert (Hp : wend (vip_win p) <= n) by lia.
        split; [|exact Hp].
        repeat constructor; unfold inside; unfold wend in *; lia.
      - destruct Hn as (H1 & H2 & H3). split; [|exact I]. repeat constructor. unfold inside. lia.
      - split; [constructor|exact I]. }
    destruct Hnet as (Hna & Hpl).
    apply Forall_app. split; [exact Hna|].
    destruct (v_transport v) as [t|]; [|constructor].
    destruct (net_payload (v_net v)) as [p|]; [|contradiction].
    destruct Ht as (_ & Ht).
    destruct t as [w|hl w|w|w]; cbn [tr_ok tr_windows] in *.
    - cbv zeta in Ht. destruct Ht as (H1 & H2 & H3 & _). repeat constructor.
      unfold inside, wend in *. lia.
    - destruct Ht as (-> & _). repeat constructor. exact Hpl.
    - destruct Ht as (-> & _). repeat constructor. exact Hpl.
    - destruct Ht as (-> & _). repeat constructor. exact Hpl.
  Qed.

  (* ---- proofs: the reference decoder only produces nested views ------------------ *)
  (* state of the walk in front of the network layer: p holds link and extensions, the
     data available is [pos, lim) *)
  Definition pre (p : vpacket) (pos lim : N) : Prop :=
    pos <= lim /\ link_ok (v_link p) /\
    exts_nested (link_payload (v_link p)) (v_exts p) /\
    exts_final (link_payload (v_link p)) (v_exts p) = (pos, lim - pos) /\
    v_net p = None /\ v_transport p = None.

  Lemma nested_of_pre p pos lim : pre p pos lim -> nested p.
  Proof.
    intros (_ & Hl & Hx & _ & Hn & Ht). unfold nested. rewrite Hn, Ht.
    repeat split; auto.
  Qed.

  Lemma nested_with_net p pos lim nn ot :
    pre p pos lim -> net_ok (pos, lim - pos) nn -> tr_nested (Some nn) ot ->
    nested (mkVPacket (v_link p) (v_exts p) (Some nn) ot).
  Proof.
    intros (_ & Hl & Hx & Hc & _ & _) Hn Ht. unfold nested.
    cbn [v_link v_exts v_net v_transport]. rewrite Hc. repeat split; auto.
  Qed.

  Lemma exts_nested_app : forall xs cur x,
    exts_nested cur xs -> ext_ok (exts_final cur xs) x ->
    exts_nested cur (xs ++ [x]) /\ exts_final cur (xs ++ [x]) = ext_payload x.
  Proof.
    induction xs as [|y r IH]; intros cur x; cbn [exts_nested exts_final app].
    - intros _ H. repeat split; auto.
    - intros (Hy & Hr) Hx. destruct (IH _ _ Hr Hx) as (Ha & Hb). repeat split; auto.
  Qed.

  Lemma pre_with_ext p pos lim x pos' lim' :
    pre p pos lim -> ext_ok (pos, lim - pos) x -> ext_payload x = (pos', lim' - pos') -> pos' <= lim' ->
    pre (with_ext p x) pos' lim'.
  Proof.
    intros (Hle & Hl & Hx & Hc & Hn & Ht) Ho Hp Hle'. unfold pre, with_ext.
    cbn [v_link v_exts v_net v_transport].
    rewrite <- Hc in Ho. destruct (exts_nested_app _ _ _ Hx Ho) as (Ha & Hb).
    rewrite Hb, Hp. repeat split; auto.
  Qed.

  (* transport *)
  Lemma wire_transport_shape p ipn frag src pos lim v :
    pos <= lim -> wire_transport bs p ipn frag src pos lim = VOk v ->
    v = p \/ exists t, v = with_tr p t /\ frag = false /\ tr_ok (pos, lim - pos) t.
  Proof.
    intros Hle. unfold wire_transport.
    destruct frag. { intros H. injection H as <-. now left. }
    destruct (ipn =? 1).
    { unfold wire_icmp4. cbv zeta.
      destruct (lim - pos <? 8) eqn:E1; [discriminate|].
      destruct ((B pos =? 13) && (B (pos + 1) =? 0) && negb (lim - pos =? 20)); [discriminate|].
      destruct ((B pos =? 14) && (B (pos + 1) =? 0) && negb (lim - pos =? 20)); [discriminate|].
      intros H. injection H as <-. right. eexists. repeat split. cbn [fst snd]. lia. }
    destruct (ipn =? 17).
    { unfold wire_udp. cbv zeta.
      destruct (lim - pos <? 8) eqn:E1; [discriminate|].
      destruct (lim - pos <? W (pos + 4)) eqn:E2; [discriminate|].
      destruct (W (pos + 4) =? 0) eqn:E3.
      { intros H. injection H as <-. right. eexists. split; [reflexivity|]. split; [reflexivity|].
        cbn [tr_ok fst snd]. cbv zeta. repeat split; lia. }
      destruct (W (pos + 4) <? 8) eqn:E4; [discriminate|].
      intros H. injection H as <-. right. eexists. split; [reflexivity|]. split; [reflexivity|].
      cbn [tr_ok fst snd]. cbv zeta. repeat split; lia. }
    destruct (ipn =? 6).
    { unfold wire_tcp. cbv zeta.
      destruct (lim - pos <? 20) eqn:E1; [discriminate|].
      destruct (B (pos + 12) / 16 <? 5) eqn:E2; [discriminate|].
      destruct (lim - pos <? B (pos + 12) / 16 * 4) eqn:E3; [discriminate|].
      intros H. injection H as <-. right. eexists. split; [reflexivity|]. split; [reflexivity|].
      cbn [tr_ok fst snd]. repeat split; lia. }
    destruct (ipn =? 58).
    { unfold wire_icmp6. cbv zeta.
      destruct (lim - pos <? 8) eqn:E1; [discriminate|].
      destruct (4294967295 <? lim - pos) eqn:E2; [discriminate|].
      intros H. injection H as <-. right. eexists. split; [reflexivity|]. split; [reflexivity|].
      cbn [tr_ok fst snd]. repeat split; lia. }
    intros H. injection H as <-. now left.
  Qed.

  (* IP payload in p's network layer + transport = nested *)
  Lemma nested_ip_transport p pos lim nn ip ipn src tpos tlim v :
    pre p pos lim ->
    wire_transport bs (with_net p nn) ipn (vip_frag ip) src tpos tlim = VOk v ->
    net_payload (Some nn) = Some ip -> vip_win ip = (tpos, tlim - tpos) -> tpos <= tlim ->
    net_ok (pos, lim - pos) nn -> nested v.
  Proof.
    intros Hp Hw Hip Hwin Hle Hn.
    assert (Htr : v_transport p = None) by (destruct Hp as (_ & _ & _ & _ & _ & H); exact H).
    destruct (wire_transport_shape _ _ _ _ _ _ _ Hle Hw) as [->|(t & -> & Hf & Ht)].
    - unfold with_net. rewrite Htr. apply (nested_with_net p pos lim nn None Hp Hn). exact I.
    - unfold with_tr, with_net. cbn [v_link v_exts v_net].
      apply (nested_with_net p pos lim nn (Some t) Hp Hn).
      unfold tr_nested. rewrite Hip, Hwin. split; [exact Hf|exact Ht].
  Qed.

  Lemma wire_ah_ok zero src pos lim l next :
    wire_ah bs zero src pos lim = AhOk l next ->
    l = (B (pos + 1) + 2) * 4 /\ l <= lim - pos /\ 12 <= l.
  Proof.
    unfold wire_ah. cbv zeta.
    destruct (lim - pos <? 12) eqn:E1; [discriminate|].
    destruct (B (pos + 1) =? 0) eqn:E2; [discriminate|].
    destruct (lim - pos <? (B (pos + 1) + 2) * 4) eqn:E3; [discriminate|].
    intros H. injection H as <- _. repeat split; lia.
  Qed.

  Lemma wire_ah_err zero src pos lim r :
    wire_ah bs zero src pos lim = AhErr r -> forall v, r <> VOk v.
  Proof.
    unfold wire_ah, cut, bad. cbv zeta.
    destruct (lim - pos <? 12); [intros H; injection H as <-; discriminate|].
    destruct (B (pos + 1) =? 0); [intros H; injection H as <-; discriminate|].
    destruct (lim - pos <? (B (pos + 1) + 2) * 4); [intros H; injection H as <-; discriminate|discriminate].
  Qed.

  Lemma wire_ipv4_body_nested p src pos lim hl v :
    pre p pos lim -> hl = (B pos mod 16) * 4 -> 20 <= hl ->
    wire_ipv4_body bs p src pos lim hl = VOk v -> nested v.
  Proof.
    intros Hp Hhl H20. pose proof Hp as (Hle & _).
    unfold wire_ipv4_body. cbv zeta.
    destruct (W (pos + 2) <? hl) eqn:E1; [discriminate|].
    destruct (lim - pos <? W (pos + 2)) eqn:E2; [discriminate|].
    unfold wire_ipv4_tail. cbv zeta.
    destruct (B (pos + 9) =? 51).
    - destruct (wire_ah bs CeAuthZeroPayloadLen LsIpv4HeaderTotalLen (pos + hl) (pos + W (pos + 2)))
        as [ahl next|r] eqn:Ea; [|intros ->; exfalso; exact (wire_ah_err _ _ _ _ _ Ea v eq_refl)].
      destruct (wire_ah_ok _ _ _ _ _ _ Ea) as (Hl & Hl2 & Hl3).
      intros Hw.
      match type of Hw with
      | wire_transport _ (with_net _ (VIpv4 ?h ?a ?ip)) _ _ _ _ _ = _ =>
          apply (nested_ip_transport p pos lim (VIpv4 h a ip) ip _ _ _ _ v Hp Hw)
      end; [reflexivity|reflexivity|lia|].
      cbn [net_ok fst snd vip_win vip_src]. cbv zeta. unfold wend. cbn [fst snd].
      repeat split; lia.
    - intros Hw.
      match type of Hw with
      | wire_transport _ (with_net _ (VIpv4 ?h ?a ?ip)) _ _ _ _ _ = _ =>
          apply (nested_ip_transport p pos lim (VIpv4 h a ip) ip _ _ _ _ v Hp Hw)
      end; [reflexivity|reflexivity|lia|].
      cbn [net_ok fst snd vip_win vip_src]. cbv zeta. unfold wend. cbn [fst snd].
      repeat split; lia.
  Qed.

  Lemma wire_ipv4_nested p src pos lim v :
    pre p pos lim -> wire_ipv4 bs p src pos lim = VOk v -> nested v.
  Proof.
    intros Hp. unfold wire_ipv4. cbv zeta.
    destruct (lim - pos <? 20); [discriminate|].
    destruct (negb (B pos / 16 =? 4)); [discriminate|].
    destruct (B pos mod 16 <? 5) eqn:E; [discriminate|].
    destruct (lim - pos <? B pos mod 16 * 4); [discriminate|].
    apply (wire_ipv4_body_nested p src pos lim _ v Hp); [reflexivity|lia].
  Qed.

  (* the extension chain ends between its start and the limit *)
  Lemma wire_chain_bounds : forall fuel src pos lim nh frag e next fr,
    pos <= lim -> wire_chain bs fuel src pos lim nh frag = ChOk e next fr -> pos <= e /\ e <= lim.
  Proof.
    induction fuel as [|f IH]; intros src pos lim nh frag e next fr Hle; cbn [wire_chain]; cbv zeta;
      [discriminate|].
    destruct (nh =? 0); [discriminate|].
    destruct ((nh =? 60) || (nh =? 43)).
    { destruct (lim - pos <? 8) eqn:E1; [discriminate|].
      destruct (lim - pos <? (B (pos + 1) + 1) * 8) eqn:E2; [discriminate|].
      intros H. apply IH in H; lia. }
    destruct (nh =? 44).
    { destruct (lim - pos <? 8) eqn:E1; [discriminate|].
      intros H. apply IH in H; lia. }
    destruct (nh =? 51).
    { destruct (wire_ah bs CeIpv6AuthZeroPayloadLen src pos lim) as [l nx|r] eqn:Ea; [|discriminate].
      destruct (wire_ah_ok _ _ _ _ _ _ Ea) as (Hl & Hl2 & Hl3).
      intros H. apply IH in H; lia. }
    intros H. injection H as <- _ _. lia.
  Qed.

  Lemma wire_exts_bounds fuel src pos lim nh e next fr :
    pos <= lim -> wire_exts bs fuel src pos lim nh = ChOk e next fr -> pos <= e /\ e <= lim.
  Proof.
    intros Hle. unfold wire_exts. cbv zeta.
    destruct (nh =? 0); [|now apply wire_chain_bounds].
    destruct (lim - pos <? 8) eqn:E1; [discriminate|].
    destruct (lim - pos <? (B (pos + 1) + 1) * 8) eqn:E2; [discriminate|].
    intros H. apply wire_chain_bounds in H; lia.
  Qed.

  Lemma wire_chain_err : forall fuel src pos lim nh frag r,
    wire_chain bs fuel src pos lim nh frag = ChErr r -> forall v, r <> VOk v.
  Proof.
    induction fuel as [|f IH]; intros src pos lim nh frag r; cbn [wire_chain]; cbv zeta; unfold cut, bad.
    { intros H. injection H as <-. discriminate. }
    destruct (nh =? 0). { intros H. injection H as <-. discriminate. }
    destruct ((nh =? 60) || (nh =? 43)).
    { destruct (lim - pos <? 8). { intros H. injection H as <-. discriminate. }
      destruct (lim - pos <? (B (pos + 1) + 1) * 8). { intros H. injection H as <-. discriminate. }
      apply IH. }
    destruct (nh =? 44).
    { destruct (lim - pos <? 8). { intros H. injection H as <-. discriminate. }
      apply IH. }
    destruct (nh =? 51).
    { destruct (wire_ah bs CeIpv6AuthZeroPayloadLen src pos lim) as [l nx|r'] eqn:Ea.
      - apply IH.
      - intros H. injection H as <-. exact (wire_ah_err _ _ _ _ _ Ea). }
    discriminate.
  Qed.

  Lemma wire_exts_err fuel src pos lim nh r :
    wire_exts bs fuel src pos lim nh = ChErr r -> forall v, r <> VOk v.
  Proof.
    unfold wire_exts, cut. cbv zeta. destruct (nh =? 0); [|apply wire_chain_err].
    destruct (lim - pos <? 8). { intros H. injection H as <-. discriminate. }
    destruct (lim - pos <? (B (pos + 1) + 1) * 8). { intros H. injection H as <-. discriminate. }
    apply wire_chain_err.
  Qed.

  Lemma wire_ipv6_tail_nested p esrc psrc pos lim lim' v :
    pre p pos lim -> pos + 40 <= lim' -> lim' <= lim ->
    (W (pos + 4) = 0 -> lim' = lim) ->
    (0 < W (pos + 4) -> lim' = pos + 40 + W (pos + 4) /\ psrc = LsIpv6HeaderPayloadLen) ->
    wire_ipv6_tail bs p esrc psrc pos lim' = VOk v -> nested v.
  Proof.
    intros Hp H40 Hlim Hz Hnz. pose proof Hp as (Hle & _).
    unfold wire_ipv6_tail.
    destruct (wire_exts bs _ esrc (pos + 40) lim' (B (pos + 6))) as [e next frag|r] eqn:Ec;
      [|intros ->; exfalso; exact (wire_exts_err _ _ _ _ _ _ Ec v eq_refl)].
    destruct (wire_exts_bounds _ _ _ _ _ _ _ _ H40 Ec) as (He1 & He2).
    intros Hw.
    match type of Hw with
    | wire_transport _ (with_net _ (VIpv6 ?h ?f ?fr ?x ?ip)) _ _ _ _ _ = _ =>
        apply (nested_ip_transport p pos lim (VIpv6 h f fr x ip) ip _ _ _ _ v Hp Hw)
    end; [reflexivity|reflexivity|lia|].
    cbn [net_ok fst snd vip_win vip_src]. cbv zeta. unfold wend. cbn [fst snd].
    split; [reflexivity|]. split; [reflexivity|]. split; [reflexivity|].
    split; [lia|]. split; [lia|]. split.
    - intros H0. specialize (Hz H0). lia.
    - intros H0. destruct (Hnz H0) as (Ha & Hb). split; [lia|exact Hb].
  Qed.

  Lemma wire_ipv6_body_nested p src pos lim v :
    pre p pos lim -> 40 <= lim - pos ->
    wire_ipv6_body bs p src pos lim = VOk v -> nested v.
  Proof.
    intros Hp H40. pose proof Hp as (Hle & _).
    unfold wire_ipv6_body. cbv zeta.
    destruct ((W (pos + 4) =? 0) && (40 <? lim - pos)) eqn:E1.
    - apply (wire_ipv6_tail_nested p src LsSlice pos lim lim v Hp); try lia.
    - destruct (lim - pos <? 40 + W (pos + 4)) eqn:E2; [discriminate|].
      apply (wire_ipv6_tail_nested p _ _ pos lim _ v Hp); try lia.
      intros H0. split; [reflexivity|reflexivity].
  Qed.

  Lemma wire_ipv6_nested p src pos lim v :
    pre p pos lim -> wire_ipv6 bs p src pos lim = VOk v -> nested v.
  Proof.
    intros Hp. unfold wire_ipv6. cbv zeta.
    destruct (lim - pos <? 40) eqn:E1; [discriminate|].
    destruct (negb (B pos / 16 =? 6)); [discriminate|].
    apply (wire_ipv6_body_nested p src pos lim v Hp). lia.
  Qed.

  Lemma wire_ip_nested p src pos lim v :
    pre p pos lim -> wire_ip bs p src pos lim = VOk v -> nested v.
  Proof.
    intros Hp. unfold wire_ip. cbv zeta.
    destruct (lim - pos =? 0); [discriminate|].
    destruct (B pos / 16 =? 4).
    { destruct (B pos mod 16 <? 5) eqn:E; [discriminate|].
      destruct (lim - pos <? B pos mod 16 * 4); [discriminate|].
      apply (wire_ipv4_body_nested p src pos lim _ v Hp); [reflexivity|lia]. }
    destruct (B pos / 16 =? 6); [|discriminate].
    destruct (lim - pos <? 40) eqn:E1; [discriminate|].
    apply (wire_ipv6_body_nested p src pos lim v Hp). lia.
  Qed.

  Lemma wire_arp_nested p src pos lim v :
    pre p pos lim -> wire_arp bs p src pos lim = VOk v -> nested v.
  Proof.
    intros Hp. pose proof Hp as (Hle & _). unfold wire_arp. cbv zeta.
    destruct (lim - pos <? 8) eqn:E1; [discriminate|].
    destruct (lim - pos <? 8 + B (pos + 4) * 2 + B (pos + 5) * 2) eqn:E2; [discriminate|].
    intros H. injection H as <-.
    assert (Htr : v_transport p = None) by (destruct Hp as (_ & _ & _ & _ & _ & H); exact H).
    unfold with_net. rewrite Htr.
    apply (nested_with_net p pos lim _ None Hp); [|exact I].
    cbn [net_ok fst snd]. unfold wend. cbn [fst snd]. repeat split; lia.
  Qed.

  Lemma wire_net_nested p et src pos lim v :
    pre p pos lim -> wire_net bs p et src pos lim = VOk v -> nested v.
  Proof.
    intros Hp. unfold wire_net.
    destruct (et =? 2054); [now apply wire_arp_nested|].
    destruct (et =? 2048); [now apply wire_ipv4_nested|].
    destruct (et =? 34525); [now apply wire_ipv6_nested|].
    intros H. injection H as <-. exact (nested_of_pre _ _ _ Hp).
  Qed.

  Lemma wire_ether_nested : forall cap p et src pos lim v,
    pre p pos lim -> wire_ether bs cap p et src pos lim = VOk v -> nested v.
  Proof.
    induction cap as [|c IH]; intros p et src pos lim v Hp; cbn [wire_ether]; cbv zeta.
    { destruct (is_vlan et). { intros H. injection H as <-. exact (nested_of_pre _ _ _ Hp). }
      destruct (et =? 35045). { intros H. injection H as <-. exact (nested_of_pre _ _ _ Hp). }
      now apply wire_net_nested. }
    pose proof Hp as (Hle & _).
    destruct (is_vlan et).
    { destruct (lim - pos <? 4) eqn:E1; [discriminate|].
      apply IH. apply (pre_with_ext p pos lim _ (pos + 4) lim Hp).
      - cbn [ext_ok snd]. split; [reflexivity|lia].
      - cbn [ext_payload fst snd]. f_equal. lia.
      - lia. }
    destruct (et =? 35045); [|now apply wire_net_nested].
    destruct (lim - pos <? 6) eqn:E1; [discriminate|].
    destruct (128 <=? B pos); [discriminate|].
    destruct (((B pos / 4) mod 4 =? 0) && (B (pos + 1) mod 64 =? 1)) eqn:E3; [discriminate|].
    fold (macsec_hl (B pos)).
    destruct (lim - pos <? macsec_hl (B pos)) eqn:E4; [discriminate|].
    fold (macsec_body (B pos) (B (pos + 1) mod 64)).
    destruct ((0 <? B (pos + 1) mod 64) &&
              (lim - pos <? macsec_hl (B pos) + macsec_body (B pos) (B (pos + 1) mod 64))) eqn:E5;
      [discriminate|].
    set (hl := macsec_hl (B pos)) in *.
    set (sl := B (pos + 1) mod 64) in *.
    set (body := macsec_body (B pos) sl) in *.
    set (lim' := if 0 <? sl then pos + hl + body else lim).
    assert (Hl1 : pos + hl <= lim') by (unfold lim'; destruct (0 <? sl); lia).
    assert (Hl2 : lim' <= lim) by (unfold lim'; destruct (0 <? sl) eqn:E; lia).
    assert (Hl3 : sl = 0 -> lim' = lim) by (intros H0; unfold lim'; rewrite H0; reflexivity).
    assert (Hl4 : 0 < sl -> lim' = pos + hl + body).
    { intros H0. unfold lim'. destruct (0 <? sl) eqn:E; [reflexivity|lia]. }
    destruct ((B pos / 4) mod 4 =? 0) eqn:Eu.
    - apply IH. apply (pre_with_ext p pos lim _ (pos + hl) lim' Hp).
      + cbn [ext_ok fst snd macsec_payload_win vep_win vep_type vep_src]. cbv zeta.
        unfold wend. cbn [fst snd]. fold sl. fold hl. fold body.
        split; [reflexivity|]. split; [reflexivity|]. split; [reflexivity|].
        split; [lia|]. split; [intros H0; specialize (Hl3 H0); lia|].
        split; [intros H0; specialize (Hl4 H0); lia|].
        split; [lia|]. split; [reflexivity|].
        destruct sl; reflexivity.
      + reflexivity.
      + exact Hl1.
    - intros H. injection H as <-.
      apply nested_of_pre with (pos := pos + hl) (lim := lim').
      apply (pre_with_ext p pos lim _ (pos + hl) lim' Hp).
      + cbn [ext_ok fst snd macsec_payload_win]. cbv zeta.
        unfold wend. cbn [fst snd]. fold sl. fold hl. fold body.
        split; [reflexivity|]. split; [reflexivity|]. split; [reflexivity|].
        split; [lia|]. split; [intros H0; specialize (Hl3 H0); lia|].
        split; [intros H0; specialize (Hl4 H0); lia|]. lia.
      + reflexivity.
      + exact Hl1.
  Qed.

  (* ---- entry points --------------------------------------------------------------- *)
  Theorem wire_ethernet_nested v : wire_ethernet bs = VOk v -> nested v.
  Proof.
    unfold wire_ethernet, n_bs. destruct (n <? 14) eqn:E; [discriminate|].
    apply wire_ether_nested. unfold pre. cbn [v_link v_exts v_net v_transport link_ok link_payload
      exts_nested exts_final fst snd].
    repeat split; try lia.
  Qed.

  Theorem wire_linux_sll_nested v : wire_linux_sll bs = VOk v -> nested v.
  Proof.
    unfold wire_linux_sll, n_bs. cbv zeta. destruct (n <? 16) eqn:E; [discriminate|].
    destruct (7 <? W 0); [discriminate|].
    destruct (negb (sll_hw_supported (W 2))); [discriminate|].
    assert (Hp : pre (mkVPacket (Some (VLinuxSll (0, 16) (0, n))) [] None None) 16 n).
    { unfold pre. cbn [v_link v_exts v_net v_transport link_ok link_payload exts_nested exts_final fst snd].
      repeat split; try lia. }
    destruct ((W 2 =? 1) && negb (sll_nonstandard (W 14))).
    - now apply wire_ether_nested.
    - intros H. injection H as <-. exact (nested_of_pre _ _ _ Hp).
  Qed.

  Theorem wire_ether_type_nested et v : wire_ether_type bs et = VOk v -> nested v.
  Proof.
    unfold wire_ether_type, n_bs. apply wire_ether_nested. unfold pre.
    cbn [v_link v_exts v_net v_transport link_ok link_payload exts_nested exts_final vep_win vep_src].
    repeat split; try lia. f_equal. lia.
  Qed.

  Theorem wire_from_ip_nested v : wire_from_ip bs = VOk v -> nested v.
  Proof.
    unfold wire_from_ip, n_bs, empty_packet. apply wire_ip_nested. unfold pre.
    cbn [v_link v_exts v_net v_transport link_ok link_payload exts_nested exts_final].
    repeat split; try lia. f_equal. lia.
  Qed.
End Nested.

Theorem wire_nested bs et v :
  (wire_ethernet bs = VOk v -> nested bs v) /\
  (wire_linux_sll bs = VOk v -> nested bs v) /\
  (wire_ether_type bs et = VOk v -> nested bs v) /\
  (wire_from_ip bs = VOk v -> nested bs v).
Proof.
  split; [|split; [|split]];
    [apply wire_ethernet_nested|apply wire_linux_sll_nested|apply wire_ether_type_nested
    |apply wire_from_ip_nested].
Qed.
