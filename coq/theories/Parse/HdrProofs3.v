(* Parse/HdrProofs3.v -- assembly of the per-layer agreement lemmas of
   HdrProofs.v / HdrProofs2.v over whole packets: the VLAN / MACsec link
   extension loop (induction on the remaining capacity of the ArrayVec, as in
   StrictProofs.ether_rel), ARP, the IpHeaders::from_slice dispatch of the bare
   IP entry point and the three entry points of PacketHeaders. *)
From Coq Require Import ZArith Lia ZifyN ZifyBool.
From EP Require Import Base.Bytes Parse.Types Parse.Slices Parse.Cursor Parse.View
  Parse.WireSpec Parse.Repr Parse.StrictProofs Parse.HdrModel Parse.HdrView Parse.HdrCut
  Parse.HdrProofs Parse.HdrProofs2.
Import SlicedPacketCursor.

Local Open Scope N_scope.

(* ---- small facts ------------------------------------------------------------ *)
Lemma repr_bytes_ok bs s pos lim : bytes_ok bs -> repr bs s pos lim -> bytes_ok (snd s).
Proof. intros H (-> & _). cbn [snd]. apply bytes_ok_take. now apply bytes_ok_drop. Qed.

Lemma shift_add l a b k : a + k = b -> ELen (le_add_offset l b) = shift k (ELen (le_add_offset l a)).
Proof. intros <-. unfold shift, le_add_offset. cbn. f_equal. f_equal. lia. Qed.

Lemma shift_add0 l b k : k = b -> ELen (le_add_offset l b) = shift k (ELen l).
Proof. intros <-. reflexivity. Qed.

Lemma shift_0 e : shift 0 e = e.
Proof. destruct e as [[r l s y o]|c]; [|reflexivity]. unfold shift, le_add_offset. cbn. now rewrite N.add_0_r. Qed.

Lemma map_eq_len {A B C} (f : A -> C) (g : B -> C) l l' : map f l = map g l' -> len l = len l'.
Proof.
  intros H. unfold len. f_equal. rewrite <- (map_length f l), <- (map_length g l'). now rewrite H.
Qed.

Lemma exts_src_snoc_vlan l s acc : exts_src (l ++ [LeVlan s]) acc = exts_src l acc.
Proof.
  revert acc. induction l as [|x l IH]; intros acc; [reflexivity|].
  cbn [app exts_src]. destruct x as [v|m]; [apply IH|].
  destruct (Macsec.short_len (ms_header m)); cbn [bind]; try reflexivity. apply IH.
Qed.

Lemma exts_src_snoc_macsec l m acc :
  exts_src (l ++ [LeMacsec m]) acc =
  (let* a := exts_src l acc in
   let* sl := Macsec.short_len (ms_header m) in
   Ok (if 0 <? sl then LsMacsecShortLength else a)).
Proof.
  revert acc. induction l as [|x l IH]; intros acc.
  - cbn [app exts_src bind]. destruct (Macsec.short_len (ms_header m)); reflexivity.
  - cbn [app exts_src]. destruct x as [v|m']; [apply IH|].
    destruct (Macsec.short_len (ms_header m')); cbn [bind]; try reflexivity. apply IH.
Qed.

Lemma vlan_not_net et : is_vlan_type et = true ->
  (et =? ET_MACSEC) = false /\ (et =? ET_IPV4) = false /\ (et =? ET_IPV6) = false /\ (et =? ET_ARP) = false.
Proof.
  unfold is_vlan_type, ET_VLAN, ET_QINQ, ET_VLAN_DOUBLE, ET_MACSEC, ET_IPV4, ET_IPV6, ET_ARP. lia.
Qed.

Lemma macsec_not_net et : (et =? ET_MACSEC) = true ->
  (et =? ET_IPV4) = false /\ (et =? ET_IPV6) = false /\ (et =? ET_ARP) = false.
Proof. unfold ET_MACSEC, ET_IPV4, ET_IPV6, ET_ARP. lia. Qed.

(* ---- what MacsecSlice::from_slice returns ------------------------------------ *)
Lemma macsec_shape bs s pos lim : bytes_ok bs -> repr bs s pos lim ->
  match Macsec.from_slice s with
  | Ok m =>
      exists hl sl,
        Macsec.header_len (ms_header m) = Ok hl /\ Macsec.short_len (ms_header m) = Ok sl /\
        win_of (ms_header m) = (pos, hl) /\
        match ms_payload m with
        | MpUnmodified e =>
            exists lim', repr bs (ep_slice e) (pos + hl) lim' /\
              ep_src e = (if 0 <? sl then LsMacsecShortLength else LsSlice)
        | MpModified _ => True
        end
  | Err _ => True
  | Bug _ => False
  end.
Proof.
  intros Hok R. rewrite (macsec_from_slice_eq bs s pos lim Hok R).
  destruct (lim - pos <? 6) eqn:E6; [exact I|].
  destruct (128 <=? B bs pos) eqn:Ever; [exact I|].
  set (tci := B bs pos) in *.
  set (sl := B bs (pos + 1) mod 64) in *.
  set (unmod := (tci / 4) mod 4 =? 0) in *.
  set (sc := negb ((tci / 32) mod 2 =? 0)) in *.
  destruct (unmod && (sl =? 1)) eqn:Eu; [exact I|].
  set (hl := 6 + (if unmod then 2 else 0) + (if sc then 8 else 0)) in *.
  destruct (lim - pos <? hl) eqn:Eh; [exact I|].
  set (body := if unmod then sl - 2 else sl) in *.
  destruct ((0 <? sl) && (lim - pos <? hl + body)) eqn:Eb; [exact I|].
  cbn zeta.
  set (plen := if 0 <? sl then body else lim - pos - hl) in *.
  set (psrc := if 0 <? sl then LsMacsecShortLength else LsSlice) in *.
  assert (Hhl : hl <= lim - pos) by lia.
  assert (Hhl6 : 6 <= hl) by (subst hl; lia).
  pose proof (repr_sub bs s pos lim 0 hl R ltac:(lia)) as Rh.
  rewrite N.add_0_r, drop0 in Rh.
  set (header := (pos, take hl (snd s))) in *.
  assert (Hplen : hl + plen <= lim - pos).
  { subst plen. destruct (0 <? sl); cbn [andb] in Eb; lia. }
  pose proof (repr_sub bs s pos lim hl plen R Hplen) as Rp.
  set (payload := (pos + hl, take plen (drop hl (snd s)))) in *.
  pose proof (B_lt bs pos Hok) as Ht. fold tci in Ht.
  exists hl, sl. cbn [ms_header ms_payload].
  split.
  { unfold Macsec.header_len, Macsec.sci_present, Macsec.is_unmodified, Macsec.tci_an_raw.
    rd8 Rh 0. rewrite N.add_0_r. fold tci.
    rewrite (bit32 tci Ht), (land12 tci Ht). fold sc unmod. subst hl. f_equal. lia. }
  split.
  { unfold Macsec.short_len. rd8 Rh 1. now rewrite land63_mod. }
  split.
  { rewrite (repr_win _ _ _ _ Rh). f_equal. lia. }
  destruct unmod; [|exact I]. cbn [ms_payload ep_slice ep_src].
  exists (pos + hl + plen). split; [exact Rp|reflexivity].
Qed.

Lemma arp_shape s :
  match ArpPacketSlice.from_slice s with
  | Ok a => s_off a = s_off s
  | Err _ => True
  | Bug _ => False
  end.
Proof.
  unfold ArpPacketSlice.from_slice.
  destruct (s_len s <? 8) eqn:E8; [exact I|].
  rdok s 4. rdok s 5.
  destruct (s_len s <? 8 + v * 2 + v0 * 2) eqn:El; [exact I|].
  rewrite subU_eq by lia. unfold s_off. cbn [fst]. lia.
Qed.

(* ---- the result relation ----------------------------------------------------- *)
Definition strip (v : hview) : hview := mkHv None (hv_exts v) (hv_net v) (hv_tr v) (hv_payload v).

(* struct result without its link header against a slicing result whose link is lk;
   struct side errors still lack the offset k of the caller's buffer *)
Definition pk_rel (k : N) (lk : option link_slice) (h : res hpacket) (s : res sliced_packet) : Prop :=
  match h, s with
  | Ok p, Ok sp =>
      h_link p = None /\ sp_link sp = lk /\
      exists v v', hview_of p = Ok v /\ conv sp = Ok v' /\ v = strip v'
  | Err eh, Err es => es = shift k eh
  | _, _ => False
  end.

Definition np (n : net_slice) : option ip_payload :=
  match n with
  | NtIpv4 v => Some (v4_payload v)
  | NtIpv6 v => Some (v6_payload v)
  | NtArp _ => None
  end.

(* behind the IP headers: read_transport against the cursor's transport dispatch *)
Lemma ip_tail k slice c s (exts : list hlink_ext) ih p n :
  s_off slice <= s_off s -> s_off s <= s_off (ipp_slice p) ->
  c_offset c = k + (s_off s - s_off slice) ->
  map hview_ext exts = map conv_ext (sp_exts (c_result c)) ->
  sp_transport (c_result c) = None ->
  hview_net (HnIp ih) = Ok (conv_net n) -> np n = Some p ->
  pk_rel k (sp_link (c_result c))
    (match read_transport p with
     | Err (ELen e) => PacketHeaders.add_offset slice (ipp_slice p) e
     | Err e => Err e
     | Bug b => Bug b
     | Ok (transport, payload) => Ok (mkH None exts (Some (HnIp ih)) transport payload)
     end)
    (let* d := ptr_diff (ipp_slice p) s in
     transport_dispatch (set_net c (c_offset c + d) (ipp_src p) n) p).
Proof.
  intros L1 L2 Hoff Hx Htr Hnet Hnp.
  unfold ptr_diff. rewrite subN_ok by lia. cbn [bind].
  set (c' := set_net c (c_offset c + (s_off (ipp_slice p) - s_off s)) (ipp_src p) n).
  pose proof (transport_agree c' p eq_refl Htr) as T.
  unfold tr_rel in T.
  destruct (read_transport p) as [[t pl]|[l|ce]|b];
    destruct (transport_dispatch c' p) as [sp|es|b']; try contradiction.
  - destruct T as (T1 & T2 & T3 & T4). unfold pk_rel. cbn [h_link].
    split; [reflexivity|]. split; [exact T1|].
    unfold hview_of. cbn [h_link h_exts h_net h_transport h_payload]. rewrite Hnet. cbn [bind].
    unfold conv. rewrite T2, T3. subst c'. cbn [set_net c_result sp_exts sp_net option_map].
    destruct (sp_transport sp) as [ts|].
    + destruct T4 as (t' & -> & Ec). rewrite Ec. cbn [bind fst snd option_map].
      eexists. eexists. split; [reflexivity|]. split; [reflexivity|].
      unfold strip. cbn [hv_exts hv_net hv_tr hv_payload]. now rewrite Hx.
    + destruct T4 as (-> & ->).
      destruct n as [v|v|a]; cbn [np] in Hnp; try discriminate; injection Hnp as <-; cbn [bind fst snd option_map];
        (eexists; eexists; split; [reflexivity|]; split; [reflexivity|];
         unfold strip; cbn [hv_exts hv_net hv_tr hv_payload hview_payload]; now rewrite Hx).
  - unfold PacketHeaders.add_offset, ptr_off. rewrite subN_ok by lia. cbn [bind]. unfold pk_rel.
    rewrite T. subst c'. cbn [set_net c_offset]. unfold shift at 1. apply shift_add. lia.
  - unfold pk_rel. rewrite T. reflexivity.
Qed.

(* ---- the part behind the loop ------------------------------------------------- *)
Record loop_inv (bs : bytes) (k : N) (slice : Types.slice) (st : hstate) (c : cursor)
  (ep : ether_payload) (pos lim : N) : Prop := mkLoopInv {
  li_et : ep_ether_type ep = hs_et st;
  li_slice : ep_slice ep = hs_rest st;
  li_repr : repr bs (hs_rest st) pos lim;
  li_base : s_off slice <= pos;
  li_off : c_offset c = k + (pos - s_off slice);
  li_exts : map hview_ext (hs_exts st) = map conv_ext (sp_exts (c_result c));
  li_net : sp_net (c_result c) = None;
  li_tr : sp_transport (c_result c) = None;
  li_src : exts_src (sp_exts (c_result c)) LsSlice = Ok (hs_src st);
  li_payload : conv_ether_payload (c_result c) = Ok (hview_payload (hs_payload st)) }.

Lemma net_else bs k slice st c ep pos lim :
  loop_inv bs k slice st c ep pos lim ->
  pk_rel k (sp_link (c_result c)) (Ok (mkH None (hs_exts st) None None (hs_payload st))) (Ok (c_result c)).
Proof.
  intros [I1 I2 I3 I4 I5 I6 I7 I8 I9 I10]. unfold pk_rel. cbn [h_link].
  split; [reflexivity|]. split; [reflexivity|].
  unfold hview_of, conv. cbn [h_link h_exts h_net h_transport h_payload bind option_map].
  rewrite I7, I8, I10. cbn [bind fst snd option_map].
  eexists. eexists. split; [reflexivity|]. split; [reflexivity|].
  unfold strip. cbn [hv_exts hv_net hv_tr hv_payload]. now rewrite I6.
Qed.

Lemma net_agree bs (Hok : bytes_ok bs) k slice st c ep pos lim :
  loop_inv bs k slice st c ep pos lim ->
  pk_rel k (sp_link (c_result c)) (PacketHeaders.net_part slice st)
    (if ep_ether_type ep =? ET_ARP then slice_arp c (ep_slice ep)
     else if ep_ether_type ep =? ET_IPV4 then slice_ipv4 c (ep_slice ep)
     else if ep_ether_type ep =? ET_IPV6 then Cut.slice_ipv6 true c (ep_slice ep)
     else Ok (c_result c)).
Proof.
  intros Inv. pose proof Inv as [I1 I2 I3 I4 I5 I6 I7 I8 I9 I10].
  rewrite I1, I2. unfold PacketHeaders.net_part.
  set (rest := hs_rest st) in *.
  pose proof (repr_off _ _ _ _ I3) as Ro.
  pose proof (repr_bytes_ok _ _ _ _ Hok I3) as Rok.
  destruct (hs_et st =? ET_IPV4) eqn:E4.
  { assert (Ea : (hs_et st =? ET_ARP) = false) by (unfold ET_IPV4, ET_ARP in *; lia). rewrite Ea.
    unfold slice_ipv4.
    pose proof (v4_agree rest Rok) as A. unfold ip4_rel in A.
    destruct (IpHeaders.from_ipv4_slice rest) as [[ih p]|[l|ce]|b];
      destruct (Ipv4Slice.from_slice rest) as [v|e'|b']; try contradiction; cbn [map_len_err bind].
    - destruct A as (-> & -> & A3).
      apply (ip_tail k slice c rest (hs_exts st) _ (v4_payload v) (NtIpv4 v)); auto; try lia.
    - subst e'. cbn [map_len_err bind]. unfold PacketHeaders.add_offset, ptr_off.
      rewrite subN_ok by lia. cbn [bind]. unfold pk_rel. apply shift_add. lia.
    - subst e'. reflexivity. }
  destruct (hs_et st =? ET_IPV6) eqn:E6.
  { assert (Ea : (hs_et st =? ET_ARP) = false) by (unfold ET_IPV6, ET_ARP in *; lia). rewrite Ea.
    unfold Cut.slice_ipv6.
    pose proof (v6_agree rest Rok) as A. unfold ip6_rel in A.
    destruct (IpHeaders.from_ipv6_slice rest) as [[ih p]|[l|ce]|b];
      destruct (Cut.v6_from_slice true rest) as [v|e'|b']; try contradiction; cbn [map_len_err bind].
    - destruct A as (-> & A2 & A3).
      apply (ip_tail k slice c rest (hs_exts st) ih (v6_payload v) (NtIpv6 v)); auto; try lia.
    - subst e'. cbn [map_len_err bind]. unfold PacketHeaders.add_offset, ptr_off.
      rewrite subN_ok by lia. cbn [bind]. unfold pk_rel. apply shift_add. lia.
    - subst e'. reflexivity. }
  destruct (hs_et st =? ET_ARP) eqn:Ea; [|now apply (net_else bs k slice st c ep pos lim)].
  unfold slice_arp. pose proof (arp_shape rest) as Sh.
  destruct (ArpPacketSlice.from_slice rest) as [a|[l|ce]|b]; try contradiction; cbn [map_len_err bind].
  - unfold pk_rel. cbn [h_link set_net c_result sp_link]. split; [reflexivity|]. split; [reflexivity|].
    unfold hview_of, conv.
    cbn [h_link h_exts h_net h_transport h_payload hview_net bind option_map sp_transport sp_net sp_exts sp_link].
    rewrite I8. cbn [bind fst snd option_map conv_net].
    eexists. eexists. split; [reflexivity|]. split; [reflexivity|].
    unfold strip. cbn [hv_exts hv_net hv_tr hv_payload hview_payload]. now rewrite I6.
  - unfold PacketHeaders.add_offset, ptr_off.
    rewrite subN_ok by lia. cbn [bind]. unfold pk_rel. apply shift_add. lia.
  - reflexivity.
Qed.

(* ---- the link extension loop --------------------------------------------------- *)
Definition h_run (fuel : nat) (slice : Types.slice) (st : hstate) : res hpacket :=
  let* o := PacketHeaders.link_loop fuel slice st in
  match o with
  | LDone p => Ok p
  | LBreak st' => PacketHeaders.net_part slice st'
  end.

Lemma h_run_S f slice st :
  h_run (S f) slice st =
  if is_vlan_type (hs_et st) then
    if LINK_EXTS_CAP <=? len (hs_exts st) then PacketHeaders.net_part slice st
    else
      match SingleVlanHeader.from_slice (hs_rest st) with
      | Err (ELen e) => PacketHeaders.add_offset slice (hs_rest st) e
      | Err e => Err e
      | Bug b => Bug b
      | Ok (vlan, vlan_rest) =>
          let* et' := SingleVlanHeader.ether_type vlan in
          let* exts' := PacketHeaders.push (hs_exts st) (HxVlan vlan) in
          h_run f slice
            (mkHs exts' (HpEther (mkEtherPayload et' (hs_src st) vlan_rest)) vlan_rest et' (hs_src st))
      end
  else if hs_et st =? ET_MACSEC then
    if LINK_EXTS_CAP <=? len (hs_exts st) then PacketHeaders.net_part slice st
    else
      match Macsec.from_slice (hs_rest st) with
      | Err (ELen e) => PacketHeaders.add_offset slice (hs_rest st) e
      | Err e => Err e
      | Bug b => Bug b
      | Ok macsec =>
          let* exts' := PacketHeaders.push (hs_exts st) (HxMacsec (ms_header macsec)) in
          match ms_payload macsec with
          | MpUnmodified e =>
              let src := match ep_src e with LsSlice => hs_src st | s => s end in
              h_run f slice
                (mkHs exts' (HpEther (mkEtherPayload (ep_ether_type e) src (ep_slice e)))
                      (ep_slice e) (ep_ether_type e) src)
          | MpModified m => Ok (mkH None exts' None None (HpMacsecMod m))
          end
      end
  else PacketHeaders.net_part slice st.
Proof.
  unfold h_run. cbn [PacketHeaders.link_loop].
  destruct (is_vlan_type (hs_et st)).
  { destruct (LINK_EXTS_CAP <=? len (hs_exts st)); [reflexivity|].
    destruct (SingleVlanHeader.from_slice (hs_rest st)) as [[vlan vr]|[l|ce]|b]; try reflexivity.
    - destruct (SingleVlanHeader.ether_type vlan); cbn [bind]; try reflexivity.
      destruct (PacketHeaders.push _ _); reflexivity.
    - unfold PacketHeaders.add_offset. destruct (ptr_off _ _); reflexivity. }
  destruct (hs_et st =? ET_MACSEC); [|reflexivity].
  destruct (LINK_EXTS_CAP <=? len (hs_exts st)); [reflexivity|].
  destruct (Macsec.from_slice (hs_rest st)) as [m|[l|ce]|b]; try reflexivity.
  - destruct (PacketHeaders.push _ _); cbn [bind]; try reflexivity.
    destruct (ms_payload m); reflexivity.
  - unfold PacketHeaders.add_offset. destruct (ptr_off _ _); reflexivity.
Qed.

Lemma loop_agree bs (Hok : bytes_ok bs) k slice cap :
  forall fuel st c ep pos lim,
    (cap < fuel)%nat -> N.of_nat cap + len (sp_exts (c_result c)) = 3 ->
    loop_inv bs k slice st c ep pos lim ->
    pk_rel k (sp_link (c_result c)) (h_run fuel slice st) (Cut.slice_ether_type_loop true fuel c ep).
Proof.
  induction cap as [|cap IH]; intros fuel st c ep pos lim Hf Hcap Inv;
    (destruct fuel as [|f]; [lia|]); pose proof Inv as [I1 I2 I3 I4 I5 I6 I7 I8 I9 I10];
    pose proof (map_eq_len _ _ _ _ I6) as Hlen;
    rewrite h_run_S; cbn [Cut.slice_ether_type_loop]; rewrite I1, Hlen; unfold LINK_EXTS_CAP.
  - (* link_exts is full *)
    destruct (is_vlan_type (hs_et st)) eqn:Ev.
    { destruct (3 <=? len (sp_exts (c_result c))) eqn:E3; [|lia].
      destruct (vlan_not_net _ Ev) as (_ & N4 & N6 & Na).
      unfold PacketHeaders.net_part. rewrite N4, N6, Na. now apply (net_else bs k slice st c ep pos lim). }
    destruct (hs_et st =? ET_MACSEC) eqn:Em.
    { destruct (3 <=? len (sp_exts (c_result c))) eqn:E3; [|lia].
      destruct (macsec_not_net _ Em) as (N4 & N6 & Na).
      unfold PacketHeaders.net_part. rewrite N4, N6, Na. now apply (net_else bs k slice st c ep pos lim). }
    rewrite <- I1. now apply (net_agree bs Hok k slice st c ep pos lim).
  - set (rest := hs_rest st) in *.
    pose proof (repr_off _ _ _ _ I3) as Ro. pose proof (repr_len _ _ _ _ I3) as Rl.
    destruct (is_vlan_type (hs_et st)) eqn:Ev.
    { (* VLAN tag *)
      destruct (3 <=? len (sp_exts (c_result c))) eqn:E3; [lia|].
      rewrite I2. fold rest.
      unfold SingleVlanHeader.from_slice, SingleVlanSlice.from_slice.
      destruct (s_len rest <? 4) eqn:E4.
      { unfold lerr. cbn [map_len_err bind]. unfold PacketHeaders.add_offset, ptr_off.
        rewrite subN_ok by lia. cbn [bind]. unfold pk_rel. apply shift_add. lia. }
      rewrite subU_eq by lia. cbn [bind]. rewrite idx_from_eq by lia. cbn [bind map_len_err].
      unfold SingleVlanHeader.ether_type, SingleVlanSlice.payload, SingleVlanSlice.ether_type,
        SingleVlanSlice.payload_slice.
      rewrite rd16_prefix by lia.
      destruct (rd16_ok rest 2) as (et' & Eet); [lia|]. rewrite Eet. cbn [bind].
      rewrite subN_ok by lia. cbn [bind]. rewrite subU_rest by lia. cbn [bind].
      unfold PacketHeaders.push, push_ext, LINK_EXTS_CAP. rewrite Hlen.
      destruct (len (sp_exts (c_result c)) <? 3) eqn:E3'; [|lia]. cbn [bind].
      set (vlan := (fst rest + 0, take 4 (drop 0 (snd rest)))).
      set (vrest := (fst rest + 4, drop 4 (snd rest))).
      assert (Rv : repr bs vrest (pos + 4) lim).
      { destruct (repr_rest bs rest pos lim 4 I3 ltac:(lia)) as (s' & Es' & Rs').
        rewrite <- Rl in Es'. rewrite subU_rest in Es' by lia. injection Es' as <-. exact Rs'. }
      match goal with |- pk_rel _ _ _ (Cut.slice_ether_type_loop _ _ ?c' _) =>
        apply (IH f _ c' _ (pos + 4) lim) end;
        [lia|cbn [c_result sp_exts]; rewrite len_app; cbn; lia|].
      constructor; cbn [ep_ether_type ep_slice hs_et hs_rest hs_exts hs_src hs_payload c_offset c_result
                         sp_exts sp_net sp_transport sp_link]; auto; try lia.
      - unfold SingleVlanSlice.header_len. lia.
      - rewrite !map_app, I6. cbn [map hview_ext conv_ext]. do 2 f_equal. subst vlan.
        rewrite win_sub by lia. unfold s_off. now rewrite N.add_0_r.
      - now rewrite exts_src_snoc_vlan.
      - unfold conv_ether_payload. cbn [sp_exts]. rewrite (map_app (@Some link_ext_slice)). cbn [map]. rewrite last_last.
        rewrite exts_src_snoc_vlan, I9. cbn [bind].
        unfold SingleVlanSlice.payload, SingleVlanSlice.ether_type, SingleVlanSlice.payload_slice.
        rewrite Eet. cbn [bind]. rewrite subN_ok by lia. cbn [bind]. rewrite subU_rest by lia. cbn [bind].
        reflexivity. }
    destruct (hs_et st =? ET_MACSEC) eqn:Em;
      [|rewrite <- I1; now apply (net_agree bs Hok k slice st c ep pos lim)].
    (* MACsec *)
    destruct (3 <=? len (sp_exts (c_result c))) eqn:E3; [lia|].
    rewrite I2. fold rest.
    pose proof (macsec_shape bs rest pos lim Hok I3) as Sh.
    destruct (Macsec.from_slice rest) as [m|[l|ce]|b]; try contradiction; cbn [map_len_err bind].
    + destruct Sh as (hl & sl & Ehl & Esl & Wh & Shp).
      rewrite Ehl, Esl. cbn [bind].
      unfold PacketHeaders.push, push_ext, LINK_EXTS_CAP. rewrite Hlen.
      destruct (len (sp_exts (c_result c)) <? 3) eqn:E3'; [|lia]. cbn [bind].
      assert (Hx : map hview_ext (hs_exts st ++ [HxMacsec (ms_header m)]) =
                   map conv_ext (sp_exts (c_result c) ++ [LeMacsec m])).
      { rewrite !map_app, I6. reflexivity. }
      destruct (ms_payload m) as [e|mp] eqn:Emp.
      * destruct Shp as (lim' & Re & Esrc).
        pose proof (repr_off _ _ _ _ Re) as Reo.
        match goal with |- pk_rel _ _ _ (Cut.slice_ether_type_loop _ _ ?c' _) =>
          apply (IH f _ c' _ (pos + hl) lim') end;
          [lia|cbn [c_result sp_exts]; rewrite len_app; cbn; lia|].
        constructor; cbn [ep_ether_type ep_slice hs_et hs_rest hs_exts hs_src hs_payload c_offset c_result
                           sp_exts sp_net sp_transport sp_link]; auto; try lia.
        -- rewrite exts_src_snoc_macsec, I9. cbn [bind]. rewrite Esl. cbn [bind]. rewrite Esrc.
           destruct (0 <? sl); reflexivity.
        -- unfold conv_ether_payload. cbn [sp_exts]. rewrite (map_app (@Some link_ext_slice)). cbn [map]. rewrite last_last.
           rewrite Emp. rewrite exts_src_snoc_macsec, I9. cbn [bind]. rewrite Esl. cbn [bind]. rewrite Esrc.
           destruct (0 <? sl); reflexivity.
      * unfold pk_rel. cbn [h_link c_result sp_link]. split; [reflexivity|]. split; [reflexivity|].
        unfold hview_of, conv.
        cbn [h_link h_exts h_net h_transport h_payload bind option_map sp_transport sp_net sp_exts sp_link].
        rewrite I7, I8. unfold conv_ether_payload. cbn [sp_exts]. rewrite (map_app (@Some link_ext_slice)). cbn [map]. rewrite last_last.
        rewrite Emp. cbn [bind fst snd option_map].
        eexists. eexists. split; [reflexivity|]. split; [reflexivity|].
        unfold strip. cbn [hv_exts hv_net hv_tr hv_payload hview_payload]. now rewrite Hx.
    + unfold PacketHeaders.add_offset, ptr_off.
      rewrite subN_ok by lia. cbn [bind]. unfold pk_rel. apply shift_add. lia.
    + reflexivity.
Qed.

(* ---- from the relation to `hagree` --------------------------------------------- *)
Lemma conv_link_field sp v : conv sp = Ok v ->
  hv_link v = match sp_link sp with Some l => conv_link l | None => None end.
Proof.
  unfold conv.
  destruct (match sp_transport sp with Some t => _ | None => _ end); cbn [bind]; try discriminate.
  intros H. injection H as <-. reflexivity.
Qed.

Lemma hview_of_link p v eth : hview_of p = Ok v ->
  hview_of (mkH eth (h_exts p) (h_net p) (h_transport p) (h_payload p)) =
  Ok (mkHv (option_map win_of eth) (hv_exts v) (hv_net v) (hv_tr v) (hv_payload v)).
Proof.
  unfold hview_of. cbn [h_link h_exts h_net h_transport h_payload].
  destruct (match h_net p with Some n => _ | None => _ end); cbn [bind]; try discriminate.
  intros H. injection H as <-. reflexivity.
Qed.

Lemma pk_rel_hagree k lk eth h s :
  pk_rel k lk h s ->
  option_map win_of eth = match lk with Some l => conv_link l | None => None end ->
  hagree (match h with
          | Ok r => Ok (mkH eth (h_exts r) (h_net r) (h_transport r) (h_payload r))
          | Err (ELen e) => Err (ELen (le_add_offset e k))
          | Err (EContent c) => Err (EContent c)
          | Bug b => Bug b
          end) s.
Proof.
  unfold pk_rel, hagree. destruct h as [p|e|b]; destruct s as [sp|es|b']; try contradiction.
  - intros (Hl & Hlk & v & v' & Hv & Hc & ->) Heth. cbn [hvres_of_h hvres_of_s].
    rewrite (hview_of_link _ _ eth Hv), Hc. split; [|discriminate]. f_equal.
    pose proof (conv_link_field _ _ Hc) as F. rewrite Hlk in F.
    destruct v' as [vl vx vn vt vp]. cbn [strip hv_link hv_exts hv_net hv_tr hv_payload] in *.
    now rewrite Heth, F.
  - intros -> _. destruct e as [l|c]; cbn [shift hvres_of_h hvres_of_s]; split; try discriminate; reflexivity.
Qed.

Lemma pk_rel_hagree0 lk h s :
  pk_rel 0 lk h s -> match lk with Some l => conv_link l | None => None end = None -> hagree h s.
Proof.
  intros P Hl. pose proof (pk_rel_hagree 0 lk None h s P) as A. cbn [option_map] in A.
  rewrite Hl in A. specialize (A eq_refl).
  destruct h as [p|[l|c]|b]; try exact A.
  - destruct s as [sp|es|b']; try contradiction. destruct P as (Hn & _).
    destruct p as [pl px pn pt pp]. cbn [h_link] in Hn. subst pl. exact A.
  - pose proof (shift_0 (ELen l)) as Z. cbn [shift] in Z. injection Z as Z. now rewrite Z in A.
Qed.

(* ---- entry points: from_ether_type, from_ethernet_slice ---------------------------- *)
Theorem hdr_agree_ether_type et bs : bytes_ok bs ->
  hagree (PacketHeaders.from_ether_type et bs) (Cut.from_ether_type true et bs).
Proof.
  intros Hok.
  unfold PacketHeaders.from_ether_type, PacketHeaders.from_ether_type_slice, Cut.from_ether_type,
    Cut.slice_ether_type.
  set (ep := mkEtherPayload et LsSlice (mk_slice bs)).
  set (c := set_link new 0 (LkEtherPayload ep)).
  set (st := mkHs [] (HpEther (mkEtherPayload et LsSlice (mk_slice bs))) (mk_slice bs) et LsSlice).
  apply (pk_rel_hagree0 (sp_link (c_result c))); [|reflexivity].
  apply (loop_agree bs Hok 0 (mk_slice bs) 3 5 st c ep 0 (len bs)); [lia|reflexivity|].
  constructor; try reflexivity; try apply repr_whole.
  all: unfold s_off, mk_slice; cbn [fst]; lia.
Qed.

Theorem hdr_agree_ethernet bs : bytes_ok bs ->
  hagree (PacketHeaders.from_ethernet_slice bs) (Cut.from_ethernet true bs).
Proof.
  intros Hok.
  unfold PacketHeaders.from_ethernet_slice, Cut.from_ethernet, Cut.slice_ethernet2, Cut.slice_ether_type,
    Ethernet2Header.from_slice, Ethernet2Slice.from_slice_without_fcs.
  set (s := mk_slice bs).
  pose proof (repr_whole bs) as R. fold s in R.
  pose proof (repr_len _ _ _ _ R) as Rl. rewrite N.sub_0_r in Rl.
  destruct (s_len s <? 14) eqn:E14.
  { unfold lerr, hagree. cbn [bind map_len_err hvres_of_h hvres_of_s]. split; [reflexivity|discriminate]. }
  rewrite subU_eq by lia. cbn [bind map_len_err]. rewrite idx_from_eq by lia. cbn [bind].
  unfold Ethernet2Header.ether_type, Ethernet2Slice.payload, Ethernet2Slice.ether_type,
    Ethernet2Slice.payload_slice.
  rewrite rd16_prefix by lia.
  destruct (rd16_ok s 12) as (et & Eet); [lia|]. rewrite Eet. cbn [bind].
  rewrite subN_ok by lia. cbn [bind]. rewrite subU_rest by lia. cbn [bind].
  set (eth := (fst s + 0, take 14 (drop 0 (snd s)))).
  set (rest := (fst s + 14, drop 14 (snd s))).
  set (ep := mkEtherPayload et LsSlice rest).
  set (c := set_link new (c_offset new + Ethernet2Slice.header_len) (LkEthernet2 s)).
  assert (Rr : repr bs rest 14 (len bs)).
  { destruct (repr_rest bs s 0 (len bs) 14 R ltac:(lia)) as (s' & Es' & Rs').
    rewrite N.sub_0_r, <- Rl in Es'. rewrite subU_rest in Es' by lia. injection Es' as <-. exact Rs'. }
  unfold PacketHeaders.from_ether_type_slice.
  set (st := mkHs [] (HpEther (mkEtherPayload et LsSlice rest)) rest et LsSlice).
  apply (pk_rel_hagree 14 (sp_link (c_result c)) (Some eth)).
  - apply (loop_agree bs Hok 14 rest 3 5 st c ep 14 (len bs)); [lia|reflexivity|].
    constructor; try reflexivity; try exact Rr; try (unfold s_off, rest; cbn [fst]; lia).
    unfold conv_ether_payload. cbn [c set_link c_result sp_exts map last sp_link].
      unfold Ethernet2Slice.payload, Ethernet2Slice.ether_type, Ethernet2Slice.payload_slice.
      rewrite Eet. cbn [bind]. rewrite subN_ok by lia. cbn [bind]. rewrite subU_rest by lia. cbn [bind].
      reflexivity.
  - cbn [c set_link c_result sp_link conv_link option_map]. unfold eth. rewrite win_sub by lia.
    unfold s_off. now rewrite N.add_0_r.
Qed.

(* ---- IpHeaders::from_slice against (cut) IpSlice::from_slice ------------------------- *)
Definition ip_net (i : ip_slice) : net_slice :=
  match i with IpV4 v => NtIpv4 v | IpV6 v => NtIpv6 v end.

Definition ipd_rel (s : slice) (h : res (ip_headers * ip_payload)) (r : res ip_slice) : Prop :=
  match h, r with
  | Ok (ih, p), Ok i =>
      np (ip_net i) = Some p /\ s_off s <= s_off (ipp_slice p) /\
      hview_net (HnIp ih) = Ok (conv_net (ip_net i))
  | Err e, Err e' => e = e'
  | _, _ => False
  end.

Lemma v4_tail_ipd s header hp :
  bytes_ok (snd hp) -> 20 <= s_len header -> s_off s <= s_off hp ->
  ipd_rel s (IpHeaders.v4_exts header hp) (let* v := Ipv4Slice.finish header hp in Ok (IpV4 v)).
Proof.
  intros Hok H20 Hs. pose proof (v4_exts_agree header hp Hok H20) as A. unfold ip4_rel in A.
  destruct (IpHeaders.v4_exts header hp) as [[ih p]|e|b];
    destruct (Ipv4Slice.finish header hp) as [v|e'|b']; try contradiction; cbn [bind].
  - destruct A as (-> & -> & A3). unfold ipd_rel. cbn [ip_net np]. split; [reflexivity|]. split; [lia|].
    reflexivity.
  - exact A.
Qed.

Lemma v6_tail_ipd s header hp src :
  bytes_ok (snd hp) -> s_len header = 40 -> s_off hp = s_off header + 40 -> s_off s <= s_off hp ->
  ipd_rel s (IpHeaders.v6_exts header hp src) (let* v := cut_v6_tail header hp src in Ok (IpV6 v)).
Proof.
  intros Hok H40 Hoff Hs. pose proof (v6_tail_agree s header hp src Hok H40 Hoff Hs) as A.
  unfold ip6_rel in A.
  destruct (IpHeaders.v6_exts header hp src) as [[ih p]|e|b];
    destruct (cut_v6_tail header hp src) as [v|e'|b']; try contradiction; cbn [bind].
  - destruct A as (-> & A2 & A3). unfold ipd_rel. cbn [ip_net np]. split; [reflexivity|]. split; [lia|].
    exact A3.
  - exact A.
Qed.

Lemma ip_agree s :
  bytes_ok (snd s) ->
  (forall b0, rd (snd s) 0 = Some b0 -> N.shiftr b0 4 = 4 -> 20 <= s_len s) ->
  ipd_rel s (IpHeaders.from_slice s) (Cut.ip_from_slice true s).
Proof.
  intros Hok Hf. unfold IpHeaders.from_slice, Cut.ip_from_slice.
  destruct (s_len s =? 0) eqn:E0; [reflexivity|].
  unfold rdU. destruct (rd_lt_Some (snd s) 0) as (b0 & Eb); [unfold s_len in *; lia|].
  rewrite Eb. cbn [bind].
  destruct (N.shiftr b0 4 =? 4) eqn:V4.
  { assert (H20 : 20 <= s_len s) by (apply (Hf b0); [exact Eb|lia]).
    destruct (s_len s <? 20) eqn:E20; [lia|].
    destruct (N.land b0 15 <? 5) eqn:Ei; [reflexivity|].
    set (hl := N.land b0 15 * 4) in *.
    destruct (s_len s <? hl) eqn:El; [reflexivity|].
    rewrite subU_eq by lia. cbn [bind].
    set (header := (fst s + 0, take hl (drop 0 (snd s)))).
    assert (Hh : s_len header = hl) by (apply s_len_sub; lia).
    assert (Hh20 : 20 <= s_len header) by lia.
    destruct (v4_accessors header Hh20) as (_ & _ & (tl & Etl)). rewrite Etl. cbn [bind].
    destruct (tl <? hl) eqn:Et; [reflexivity|].
    destruct (s_len s <? tl) eqn:Es; [reflexivity|].
    rewrite subN_ok by lia. cbn [bind]. rewrite subU_eq by lia. cbn [bind].
    apply v4_tail_ipd; [|exact Hh20|unfold s_off; cbn [fst]; lia].
    cbn [snd]. apply bytes_ok_take. now apply bytes_ok_drop. }
  destruct (N.shiftr b0 4 =? 6) eqn:V6; [|reflexivity].
  destruct (s_len s <? 40) eqn:E40; [reflexivity|].
  rewrite subU_eq by lia. cbn [bind].
  set (header := (fst s + 0, take 40 (drop 0 (snd s)))).
  assert (Hh : s_len header = 40) by (apply s_len_sub; lia).
  rewrite cut_v6_finish_eq. unfold Ipv6HeaderSlice.payload_length.
  destruct (rd16_ok header 4) as (pl & Epl); [lia|]. rewrite Epl. cbn [bind].
  destruct ((0 =? pl) && (40 <? s_len s)) eqn:Ez.
  - rewrite subN_ok by lia. cbn [bind]. rewrite subU_eq by lia. cbn [bind fst snd].
    apply v6_tail_ipd; auto.
    + cbn [snd]. apply bytes_ok_take. now apply bytes_ok_drop.
    + unfold s_off, header. cbn [fst]. lia.
    + unfold s_off. cbn [fst]. lia.
  - cbn zeta. destruct (s_len s <? 40 + pl) eqn:El; [reflexivity|].
    rewrite subU_eq by lia. cbn [bind fst snd].
    apply v6_tail_ipd; auto.
    + cbn [snd]. apply bytes_ok_take. now apply bytes_ok_drop.
    + unfold s_off, header. cbn [fst]. lia.
    + unfold s_off. cbn [fst]. lia.
Qed.

(* ---- entry point: from_ip_slice --------------------------------------------------- *)
(* known finding F11: a first header announcing IPv4 in a buffer shorter than 20 bytes
   is rejected by both families with different error records *)
Definition F11 (bs : bytes) : bool :=
  match bs with
  | b0 :: _ => (N.shiftr b0 4 =? 4) && (len bs <? 20)
  | [] => false
  end.

Theorem hdr_agree_ip bs : bytes_ok bs -> F11 bs = false ->
  hagree (PacketHeaders.from_ip_slice bs) (Cut.from_ip true bs).
Proof.
  intros Hok Hf. unfold PacketHeaders.from_ip_slice, Cut.from_ip, Cut.slice_ip.
  set (s := mk_slice bs).
  assert (Hf' : forall b0, rd (snd s) 0 = Some b0 -> N.shiftr b0 4 = 4 -> 20 <= s_len s).
  { intros b0 Eb V. unfold s, mk_slice, s_len in *. cbn [snd] in *.
    destruct bs as [|x r]; [discriminate|]. unfold rd in Eb. cbn in Eb. injection Eb as ->.
    unfold F11 in Hf. rewrite V in Hf. cbn [andb] in Hf. change (4 =? 4) with true in Hf. cbn [andb] in Hf. lia. }
  pose proof (ip_agree s Hok Hf') as A. unfold ipd_rel in A.
  destruct (IpHeaders.from_slice s) as [[ih p]|e|b];
    destruct (Cut.ip_from_slice true s) as [i|e'|b']; try contradiction; cbn [map_len_err bind].
  - destruct A as (A1 & A2 & A3).
    assert (Ep : IpSlice.payload i = p) by (destruct i; cbn in A1; now injection A1).
    rewrite Ep.
    apply (pk_rel_hagree0 (sp_link (c_result new))); [|reflexivity].
    replace (match i with IpV4 v => NtIpv4 v | IpV6 v => NtIpv6 v end) with (ip_net i) by reflexivity.
    apply (ip_tail 0 s new s [] ih p (ip_net i)); auto; try lia; try (cbn; lia).
  - subst e'. unfold hagree.
    destruct e as [l|c]; cbn [map_len_err bind hvres_of_h hvres_of_s]; (split; [|discriminate]); [|reflexivity].
    pose proof (shift_0 (ELen l)) as Z. cbn [shift] in Z. cbn [new c_offset]. now rewrite Z.
Qed.

Theorem hdr_f11_both_err bs : F11 bs = true ->
  (exists e, PacketHeaders.from_ip_slice bs = Err e) /\
  (forall cut, exists e, Cut.from_ip cut bs = Err e).
Proof.
  intros Hf. destruct bs as [|b0 r]; [discriminate|]. unfold F11 in Hf.
  apply andb_prop in Hf. destruct Hf as (V4 & L20).
  set (s := mk_slice (b0 :: r)).
  assert (Hl : s_len s = len (b0 :: r)) by reflexivity.
  assert (E0 : (s_len s =? 0) = false) by (rewrite Hl, len_cons; lia).
  assert (Eb : rd (snd s) 0 = Some b0) by reflexivity.
  split.
  - unfold PacketHeaders.from_ip_slice, IpHeaders.from_slice. fold s. rewrite E0, Eb. cbn [bind].
    rewrite V4. rewrite Hl, L20. unfold lerr. cbn [bind]. eauto.
  - intros cut. unfold Cut.from_ip, Cut.slice_ip, Cut.ip_from_slice. fold s. rewrite E0.
    unfold rdU. rewrite Eb. cbn [bind]. rewrite V4.
    destruct (N.land b0 15 <? 5) eqn:Ei; [cbn [map_len_err bind]; eauto|].
    destruct (s_len s <? N.land b0 15 * 4) eqn:El; [unfold lerr; cbn [map_len_err bind]; eauto|].
    rewrite Hl in El. lia.
Qed.

(* ---- the property ----------------------------------------------------------------- *)
Lemma hagree_or_exception h c s :
  hagree h c -> (stopped_at_ext c = false -> (forall b, c <> Bug b) -> c = s) ->
  hagree h s \/ (stopped_at_ext c = true /\ hagree h c).
Proof.
  intros A Hc. destruct (stopped_at_ext c) eqn:E; [right; auto|left].
  rewrite <- Hc; auto. intros b ->. destruct A as (A1 & A2). apply (A2 b). now rewrite A1.
Qed.

Theorem hdr_eq_slices bs et : bytes_ok bs ->
  hagree (PacketHeaders.from_ethernet_slice bs) (Cut.from_ethernet true bs) /\
  hagree (PacketHeaders.from_ether_type et bs) (Cut.from_ether_type true et bs) /\
  (F11 bs = false -> hagree (PacketHeaders.from_ip_slice bs) (Cut.from_ip true bs)) /\
  (F11 bs = true ->
     (exists e, PacketHeaders.from_ip_slice bs = Err e) /\ (exists e, Cut.from_ip true bs = Err e) /\
     (exists e, SlicedPacket.from_ip bs = Err e)).
Proof.
  intros Hok. split; [now apply hdr_agree_ethernet|]. split; [now apply hdr_agree_ether_type|].
  split; [now apply hdr_agree_ip|].
  intros Hf. destruct (hdr_f11_both_err bs Hf) as (A & B).
  split; [exact A|]. split; [apply B|]. rewrite <- cut_false_from_ip. apply B.
Qed.

Theorem hdr_eq_slices_or_exception bs et : bytes_ok bs ->
  (hagree (PacketHeaders.from_ethernet_slice bs) (SlicedPacket.from_ethernet bs) \/
   (stopped_at_ext (Cut.from_ethernet true bs) = true /\
    hagree (PacketHeaders.from_ethernet_slice bs) (Cut.from_ethernet true bs))) /\
  (hagree (PacketHeaders.from_ether_type et bs) (SlicedPacket.from_ether_type et bs) \/
   (stopped_at_ext (Cut.from_ether_type true et bs) = true /\
    hagree (PacketHeaders.from_ether_type et bs) (Cut.from_ether_type true et bs))) /\
  (F11 bs = false ->
   hagree (PacketHeaders.from_ip_slice bs) (SlicedPacket.from_ip bs) \/
   (stopped_at_ext (Cut.from_ip true bs) = true /\
    hagree (PacketHeaders.from_ip_slice bs) (Cut.from_ip true bs))).
Proof.
  intros Hok. split; [|split].
  - apply hagree_or_exception; [now apply hdr_agree_ethernet|apply cut_only_when_stopped_ethernet].
  - apply hagree_or_exception; [now apply hdr_agree_ether_type|apply cut_only_when_stopped_ether_type].
  - intros Hf. apply hagree_or_exception; [now apply hdr_agree_ip|apply cut_only_when_stopped_ip].
Qed.

(* the struct decoders never reach an unwrap / push on a full ArrayVec / pointer
   subtraction underflow / out-of-range index; nor do the views *)
Theorem hdr_never_bug bs et b : bytes_ok bs ->
  hvres_of_h (PacketHeaders.from_ethernet_slice bs) <> HBug b /\
  hvres_of_h (PacketHeaders.from_ether_type et bs) <> HBug b /\
  hvres_of_h (PacketHeaders.from_ip_slice bs) <> HBug b.
Proof.
  intros Hok. split; [apply (hdr_agree_ethernet bs Hok)|]. split; [apply (hdr_agree_ether_type et bs Hok)|].
  destruct (F11 bs) eqn:Hf.
  - destruct (hdr_f11_both_err bs Hf) as ((e & ->) & _). discriminate.
  - apply (hdr_agree_ip bs Hok Hf).
Qed.

Lemma hvres_bug r b : r = Bug b -> hvres_of_h r = HBug b.
Proof. now intros ->. Qed.

Theorem hdr_never_bug_raw bs et b : bytes_ok bs ->
  PacketHeaders.from_ethernet_slice bs <> Bug b /\
  PacketHeaders.from_ether_type et bs <> Bug b /\
  PacketHeaders.from_ip_slice bs <> Bug b.
Proof.
  intros Hok. destruct (hdr_never_bug bs et b Hok) as (A & B & C).
  repeat split; intros E; [apply A|apply B|apply C]; now apply hvres_bug.
Qed.
