(* Parse/LaxHdrPrefixNet.v -- C05 clause (b) for LaxPacketHeaders, faults INSIDE the network layer
   (audit round 2, open item "LaxPacketHeaders (b) for faults inside the network layer: only the link
   extensions and the stop error are proved").

   Composition, no new model:
     C05_lax_prefix_net             strict slicing fails  ->  pwire2 (strict reference decoder instrumented
                                    with the network layer as far as it decodes) / lax slicing
                                    (Parse/LaxPrefixNet.v, `net_outcome`)
     C04_lax_headers_eq_slices      lax slicing cut at a refilled extension header = LaxPacketHeaders
                                    (`lhagree true`, Parse/HdrLaxProofs3.v)
     C04_lax_cut_is_slicing_*       the cut lax slicing IS lax slicing unless `lax_stopped_at_ext`
     C04_lax_ipv6_slots_in_order    the struct's filled slots = the extension headers the lax slicing
                                    result iterates to (Parse/HdrLaxSlots2.v)

   Result (`hdr_prefix_net_ok`): when strict slicing fails, LaxPacketHeaders returns Ok p with view v and
     - pwire2 = P2RejNet _ n tag e_ref (fault at an authentication / extension header behind a good IP
       header): v has exactly the network HEADER windows of n (IP header; IPv4: no authentication header;
       IPv6: first next-header, fragmentation flag, window of the extension headers decoded in front of the
       faulty one), no transport header, the payload is the IP payload descriptor of n (incomplete flag, ip
       number that announced the faulty header, fragmentation flag, length source, window from the faulty
       header on), the stop error sits on the layer tag `tag` and its record is e_ref -- or e_ref with the
       length source replaced by Slice (`stop_same`; observation (C) of notes/C04.md reaches into the
       network layer: witness lax_hdr_stop_src_refuted below);
     - pwire2 = P2Fb _ _ inc resumed (IPv4 total length / IPv6 payload length fallback): v has the network
       header windows of the network layer n of the resumed strict decoding, the payload of v is flagged
       incomplete exactly as `inc` says, and if the resumed decoding fails inside the network layer the
       previous item holds for it; if it fails behind the network layer, `hdr_outcome` of HdrLaxC05.v;
     - for an IPv6 network layer the struct's slots hold exactly the extension headers the lax slicing
       result iterates to (`lax_slots_in_order` against the UNCUT LaxSlicedPacket result), i.e. the
       headers decoded in front of the fault, whose window is the extension window of n.
   Stated outside the documented struct-decoding exception (`lax_stopped_at_ext (LaxCut.from_* true bs) =
   false`).  The F11 clause of `stop_rel` cannot fire here: every P2RejNet of pwire2, nested ones included,
   carries an error with `in_net_layer = true` (`nested_class`), an F11 pair never does. *)
From Coq Require Import ZArith Lia ZifyN ZifyBool.
From EP Require Import Base.Bytes Parse.Types Parse.Slices Parse.Cursor Parse.View
  Parse.WireSpec Parse.Repr Parse.StrictProofs Parse.LaxSlices Parse.LaxCursor Parse.LaxView
  Parse.LaxProofs Parse.LaxFacts Parse.LaxWire Parse.LaxWireProofs Parse.LaxWireFacts Parse.LaxPrefix
  Parse.LaxHdrFacts Parse.LaxWire2 Parse.LaxPrefixNet
  Parse.HdrModel Parse.HdrView Parse.HdrCut Parse.HdrProofs Parse.HdrProofs2 Parse.HdrProofs3 Parse.HdrLaxModel Parse.HdrLaxView Parse.HdrLaxProofs Parse.HdrLaxCut
  Parse.HdrLaxCutProofs Parse.HdrLaxProofs2 Parse.HdrLaxProofs3 Parse.HdrLaxC05
  Parse.Access Parse.HdrSlots Parse.HdrLaxSlots Parse.HdrLaxSlots2.
Local Open Scope N_scope.

(* ---- every P2RejNet of pwire2 (nested in a fallback or not) names a place inside the network layer --- *)
Fixpoint nested_class (pw : pres2) : Prop :=
  match pw with
  | P2RejNet _ _ _ e => in_net_layer e = true
  | P2Fb _ _ _ r => nested_class r
  | _ => True
  end.

Lemma nc_of p r : nested_class (pres2_of p r).
Proof. destruct r; exact I. Qed.

Lemma nc_ipv4_tail bs p esrc psrc inc pos hl lim' :
  nested_class (pwire2_ipv4_tail bs p esrc psrc inc pos hl lim').
Proof.
  unfold pwire2_ipv4_tail. cbv zeta.
  destruct (B bs (pos + 9) =? 51); [|apply nc_of].
  pose proof (wire_ah_err_class bs CeAuthZeroPayloadLen esrc (pos + hl) lim' (or_introl eq_refl)) as A.
  destruct (wire_ah bs CeAuthZeroPayloadLen esrc (pos + hl) lim'); [apply nc_of|].
  destruct A as (e & -> & A). exact A.
Qed.

Lemma nc_ipv6_tail bs p esrc psrc inc pos lim' :
  nested_class (pwire2_ipv6_tail bs p esrc psrc inc pos lim').
Proof.
  unfold pwire2_ipv6_tail. cbv zeta.
  pose proof (exts2_err_class bs esrc (S (N.to_nat (lim' - (pos + 40)))) (pos + 40) lim' (B bs (pos + 6))) as A.
  destruct (wire_exts2 bs _ esrc (pos + 40) lim' (B bs (pos + 6))) as [e nx fr|e nh fr tag r];
    [apply nc_of|].
  destruct r; cbn [pres2_net nested_class]; try exact I. exact A.
Qed.

Lemma nc_ipv4_body bs p src pos lim hl : nested_class (pwire2_ipv4_body bs p src pos lim hl).
Proof.
  unfold pwire2_ipv4_body.
  destruct (W bs (pos + 2) <? hl); [apply nc_ipv4_tail|].
  destruct (lim - pos <? W bs (pos + 2)); apply nc_ipv4_tail.
Qed.

Lemma nc_ipv6_body bs p src pos lim : nested_class (pwire2_ipv6_body bs p src pos lim).
Proof.
  unfold pwire2_ipv6_body.
  destruct ((W bs (pos + 4) =? 0) && (40 <? lim - pos)); [apply nc_ipv6_tail|].
  destruct (lim - pos <? 40 + W bs (pos + 4)); apply nc_ipv6_tail.
Qed.

Lemma nc_net_step bs p et src pos lim : nested_class (pwire2_net bs p et src pos lim).
Proof.
  unfold pwire2_net.
  destruct (et =? 2054); [apply nc_of|].
  destruct (et =? 2048).
  { unfold pwire2_ipv4.
    repeat match goal with |- context[if ?c then P2Rej _ _ else _] => destruct c; [exact I|] end.
    apply nc_ipv4_body. }
  destruct (et =? 34525); [|exact I].
  unfold pwire2_ipv6.
  repeat match goal with |- context[if ?c then P2Rej _ _ else _] => destruct c; [exact I|] end.
  apply nc_ipv6_body.
Qed.

Lemma nc_ip bs p src pos lim : nested_class (pwire2_ip bs p src pos lim).
Proof.
  unfold pwire2_ip.
  destruct (lim - pos =? 0); [exact I|].
  destruct (B bs pos / 16 =? 4).
  { destruct (B bs pos mod 16 <? 5); [exact I|].
    destruct (lim - pos <? B bs pos mod 16 * 4); [exact I|apply nc_ipv4_body]. }
  destruct (B bs pos / 16 =? 6); [|exact I].
  destruct (lim - pos <? 40); [exact I|apply nc_ipv6_body].
Qed.

Lemma nc_ether bs cap : forall p et src pos lim, nested_class (pwire2_ether bs cap p et src pos lim).
Proof.
  induction cap as [|cap IH]; intros p et src pos lim; cbn [pwire2_ether].
  - destruct (is_vlan et); [exact I|]. destruct (et =? 35045); [exact I|]. apply nc_net_step.
  - destruct (is_vlan et).
    { destruct (lim - pos <? 4); [exact I|apply IH]. }
    destruct (et =? 35045); [|apply nc_net_step].
    destruct (lim - pos <? 6); [exact I|].
    destruct (128 <=? B bs pos); [exact I|].
    destruct (((B bs pos / 4) mod 4 =? 0) && (B bs (pos + 1) mod 64 =? 1)); [exact I|].
    destruct (lim - pos <? _); [exact I|].
    destruct ((0 <? B bs (pos + 1) mod 64) && _); [exact I|].
    destruct ((B bs pos / 4) mod 4 =? 0); [apply IH|exact I].
Qed.

Theorem pwire2_nested_class bs et :
  nested_class (pwire2_ethernet bs) /\ nested_class (pwire2_ether_type bs et) /\
  nested_class (pwire2_from_ip bs).
Proof.
  split; [|split].
  - unfold pwire2_ethernet. destruct (n_bs bs <? 14); [exact I|apply nc_ether].
  - apply nc_ether.
  - apply nc_ip.
Qed.

(* ---- what the LaxPacketHeaders view must look like, given the verdict of pwire2 --------------------- *)
(* header windows of a network layer as pwire2 / lwire hand it back; its payload descriptor *)
Definition lnet_hdr (n : lvnet) : hvnet := net_hdr (strictify_net n).
Definition lnet_payload (n : lvnet) : lhvpayload :=
  match n with
  | LVIpv4 _ _ p | LVIpv6 _ _ _ _ p => LHvpIp p
  | LVArp _ => LHvpEmpty
  end.

(* the stop error record of the struct family against the one of the reference decoder: equal, or
   equal up to the struct family naming Slice as length source (lerr_rel of Parse/HdrLaxCut.v) *)
Definition stop_same (eh es : slice_error) : Prop :=
  match eh, es with
  | ELen lh, ELen ls => lerr_rel lh ls
  | EContent c, EContent c' => c = c'
  | _, _ => False
  end.

Definition hdr_stopped_in_net (v : lhview) (n : lvnet) (tag : layer) (e : slice_error) : Prop :=
  lhv_net v = Some (lnet_hdr n) /\ lhv_tr v = None /\ lhv_payload v = lnet_payload n /\
  exists e', lhv_stop v = Some (e', tag) /\ stop_same e' e.

Definition hdr_net_outcome (pw : pres2) (v : lhview) : Prop :=
  match pw with
  | P2RejNet _ n tag e => hdr_stopped_in_net v n tag e
  | P2Fb _ _ inc resumed =>
      exists n, lhv_net v = Some (lnet_hdr n) /\ net_flags n = Some (inc, LsSlice) /\
        payload_inc (lhv_payload v) = inc /\
        match resumed with
        | P2RejNet _ n' tag e' => n' = n /\ hdr_stopped_in_net v n tag e'
        | P2Acc q' => v_net q' = Some (strictify_net n)
        | P2Rej q' e' => v_net q' = Some (strictify_net n) /\ hdr_outcome e' v
        | _ => False
        end
  | _ => True
  end.

Definition hdr_prefix_net_ok (strict : res sliced_packet) (pw : pres2)
  (laxcut lax : res lax_sliced_packet) (lh : res lhpacket) : Prop :=
  forall e, strict = Err e -> lax_stopped_at_ext laxcut = false ->
  exists e_ref r' p v,
    rej2 pw = Some e_ref /\ res_rel (VErr e) (VErr e_ref) /\ is_net_rej pw = in_net_layer e /\
    lax = Ok r' /\ net_outcome lax_outcome pw (lview r') /\
    lh = Ok p /\ lhview_of p = Ok v /\ hdr_net_outcome pw v /\
    lax_slots_in_order (Ok p) (Ok r').

(* ---- from the lax slicing result to the struct view ------------------------------------------------ *)
Lemma lconv_net_is sp v' n : lconv sp = Ok v' -> lv_net (lview sp) = Some n ->
  lhv_net v' = Some (lnet_hdr n).
Proof.
  intros Hc Hn. destruct (lconv_fields sp v' Hc) as (_ & F2 & _ & _). rewrite F2.
  unfold lview in Hn. cbn [lv_net] in Hn.
  destruct (lsp_net sp) as [ns|]; cbn [option_map] in *; [|discriminate]. injection Hn as <-.
  now rewrite lconv_net_hdr.
Qed.

Lemma lconv_no_transport sp v' n : lconv sp = Ok v' -> lv_net (lview sp) = Some n ->
  lv_transport (lview sp) = None -> lhv_tr v' = None /\ lhv_payload v' = lnet_payload n.
Proof.
  unfold lview. cbn [lv_net lv_transport]. unfold lconv. intros Hc Hn Ht.
  destruct (lsp_transport sp) as [t|]; [discriminate|].
  destruct (lsp_net sp) as [[w|w|a]|]; cbn [option_map] in Hn; try discriminate;
    injection Hn as <-; cbn [bind fst snd] in Hc; injection Hc as <-; split; reflexivity.
Qed.

Lemma lconv_payload_inc sp v' n fl : lconv sp = Ok v' -> lv_net (lview sp) = Some n ->
  net_flags n = Some fl -> payload_inc (lhv_payload v') = fst fl.
Proof.
  unfold lview. cbn [lv_net]. unfold lconv. intros Hc Hn Hf.
  destruct (lsp_net sp) as [[w|w|a]|]; cbn [option_map] in Hn; try discriminate; injection Hn as <-;
    cbn [lview_net net_flags] in Hf; try discriminate.
  - unfold lview_v4 in Hf. cbn [net_flags] in Hf. injection Hf as <-. cbn [fst lnp] in *.
    destruct (lsp_transport sp) as [[s|hl s|s|s]|]; cbn [lconv_tr bind fst snd] in Hc.
    + injection Hc as <-. reflexivity.
    + injection Hc as <-. reflexivity.
    + destruct (Icmpv4Acc.header_len s); cbn [bind fst snd] in Hc; try discriminate. injection Hc as <-. reflexivity.
    + injection Hc as <-. reflexivity.
    + injection Hc as <-. reflexivity.
  - unfold lview_v6 in Hf. cbn [net_flags] in Hf. injection Hf as <-. cbn [fst lnp] in *.
    destruct (lsp_transport sp) as [[s|hl s|s|s]|]; cbn [lconv_tr bind fst snd] in Hc.
    + injection Hc as <-. reflexivity.
    + injection Hc as <-. reflexivity.
    + destruct (Icmpv4Acc.header_len s); cbn [bind fst snd] in Hc; try discriminate. injection Hc as <-. reflexivity.
    + injection Hc as <-. reflexivity.
    + injection Hc as <-. reflexivity.
Qed.

Lemma f11_pair_not_net eh es : f11_pair eh es -> in_net_layer es = true -> False.
Proof.
  intros (n & off & _ & _ & [(i & _ & ->)|(hl & src & _ & ->)]); cbn; discriminate.
Qed.

Lemma hdr_stopped_of sp v v' n tag e :
  stopped_in_net (lview sp) n tag e -> in_net_layer e = true ->
  lconv sp = Ok v' -> lhv_rel true sp v v' -> hdr_stopped_in_net v n tag e.
Proof.
  intros (Hn & Hs & Ht) Hc Hv (R1 & R2 & R3 & R4 & R5 & R6).
  destruct (lconv_no_transport sp v' n Hv Hn Ht) as (T1 & T2).
  destruct (lconv_fields sp v' Hv) as (_ & _ & _ & F4).
  split; [rewrite R3; now apply (lconv_net_is sp)|]. split; [now rewrite R4|].
  split.
  { rewrite R5, T2. destruct n; reflexivity. }
  unfold lview in Hs. cbn [lv_stop] in Hs. rewrite F4, Hs in R6. unfold stop_rel in R6.
  destruct (lhv_stop v) as [[eh ly]|]; [|contradiction].
  destruct R6 as (-> & [R|(_ & _ & R)]).
  - exists eh. split; [reflexivity|exact R].
  - exfalso. exact (f11_pair_not_net _ _ R Hc).
Qed.

Lemma hdr_net_outcome_of pw sp v v' :
  nested_class pw -> (forall e, rej2 pw = Some e -> is_net_rej pw = in_net_layer e) ->
  net_outcome lax_outcome pw (lview sp) -> lconv sp = Ok v' -> lhv_rel true sp v v' ->
  hdr_net_outcome pw v.
Proof.
  intros NC CL O Hv R. destruct pw as [pa|q e|q n tag e|q e inc r|s]; cbn [net_outcome hdr_net_outcome] in *; auto.
  - apply (hdr_stopped_of sp v v' n tag e O); auto.
  - destruct O as (n & Hn & Hf & O). exists n.
    pose proof R as (R1 & R2 & R3 & R4 & R5 & R6).
    split; [rewrite R3; now apply (lconv_net_is sp)|]. split; [exact Hf|].
    split.
    { rewrite R5, payload_inc_carry. now rewrite (lconv_payload_inc sp v' n _ Hv Hn Hf). }
    destruct r as [pa|q' e'|q' n' tag e'|q' e' inc' r'|s]; auto.
    + destruct O as (O1 & O2). split; [exact O1|]. now apply (hdr_outcome_of e' sp v v').
    + destruct O as (-> & O). split; [reflexivity|]. apply (hdr_stopped_of sp v v' n tag e' O); auto.
Qed.

Lemma hdr_prefix_net_core strict pw (cl ll : res lax_sliced_packet) lh :
  nested_class pw -> prefix_net_ok strict pw ll -> lhagree true lh cl ->
  (lax_stopped_at_ext cl = false -> cl = ll) -> lax_slots_in_order lh cl ->
  hdr_prefix_net_ok strict pw cl ll lh.
Proof.
  intros NC P L Hcut SL e He Hs. rewrite (Hcut Hs) in L, SL.
  destruct (P e He) as (e_ref & r' & Pw & Rr & Cl & -> & O).
  unfold lhagree in L. destruct lh as [p|e0|b]; try contradiction.
  destruct L as (v & v' & Hv & Hc & R).
  exists e_ref, r', p, v. repeat (split; [assumption || reflexivity|]).
  split; [|exact SL].
  apply (hdr_net_outcome_of pw r' v v'); auto.
  intros e1 E1. rewrite Pw in E1. injection E1 as <-. rewrite Cl. now apply in_net_layer_rel.
Qed.

(* (b), network layer, for LaxPacketHeaders *)
Theorem hdr_lax_prefix_net bs et : bytes_ok bs ->
  (14 <= len bs ->
   hdr_prefix_net_ok (SlicedPacket.from_ethernet bs) (pwire2_ethernet bs)
     (LaxCut.from_ethernet true bs) (LaxSlicedPacket.from_ethernet bs) (LaxPacketHeaders.from_ethernet bs)) /\
  hdr_prefix_net_ok (SlicedPacket.from_ether_type et bs) (pwire2_ether_type bs et)
    (LaxCut.from_ether_type true et bs) (LaxSlicedPacket.from_ether_type et bs)
    (LaxPacketHeaders.from_ether_type et bs) /\
  (ip_header_fault bs = None ->
   hdr_prefix_net_ok (SlicedPacket.from_ip bs) (pwire2_from_ip bs)
     (LaxCut.from_ip true bs) (LaxSlicedPacket.from_ip bs) (LaxPacketHeaders.from_ip bs)).
Proof.
  intros Hok. destruct (lax_prefix_net_packet bs et Hok) as (P1 & P2 & P3).
  destruct (pwire2_nested_class bs et) as (N1 & N2 & N3).
  destruct (lax_hdr_slots_in_order bs et Hok) as (S1 & S2 & S3). split; [|split].
  - intros H14. pose proof (lax_hdr_agree_ethernet bs Hok) as L.
    apply (hdr_prefix_net_core _ _ _ (LaxSlicedPacket.from_ethernet bs) _ N1 (P1 H14) L); [|exact S1].
    intros S. apply lcut_only_when_stopped_ethernet; [exact S|]. intros b. now apply (lhagree_nobug_s _ _ _ b L).
  - pose proof (lax_hdr_agree_ether_type et bs Hok) as L.
    apply (hdr_prefix_net_core _ _ _ (LaxSlicedPacket.from_ether_type et bs) _ N2 P2 L); [|exact S2].
    intros S. apply lcut_only_when_stopped_ether_type; [exact S|]. intros b. now apply (lhagree_nobug_s _ _ _ b L).
  - intros Hnf.
    assert (Hf : F11 bs = false).
    { destruct (F11 bs) eqn:Hf; [|reflexivity].
      destruct (lax_hdr_f11_both_err bs Hf) as (e & e' & _ & _ & E & _).
      apply lax_from_ip_err_iff in E. congruence. }
    pose proof (lax_hdr_agree_ip bs Hok Hf) as L.
    apply (hdr_prefix_net_core _ _ _ (LaxSlicedPacket.from_ip bs) _ N3 (P3 Hnf) L); [|exact S3].
    intros S. apply lcut_only_when_stopped_ip; [exact S|]. intros b. now apply (lhagree_nobug_s _ _ _ b L).
Qed.

(* ---- the length source of the stop error record: `stop_same` cannot be replaced by equality ------------ *)
(* Ethernet II / MACsec with short length 62 (8 byte header, 60 byte body) / IPv6 announcing a payload of 200
   bytes (fallback: 20 are there) / destination options (complete) / routing header announcing 16 bytes
   with 12 present.  The resumed strict reference decoding and LaxSlicedPacket name the MACsec short
   length as the source of the limit in the stop error record; LaxPacketHeaders names Slice.  Everything
   else agrees (network header windows, payload descriptor incl. its own length source Slice, layer tag). *)
Definition ex_macsec_v6_fb : bytes :=
  [1;2;3;4;5;6; 7;8;9;10;11;12; 136;229;
   0;62; 0;0;0;1; 134;221;
   96;0;0;0; 0;200; 60;64] ++ repeat 0 32 ++ [43;0;0;0;0;0;0;0] ++ [17;1;0;0;0;0;0;0;0;0;0;0].

Theorem lax_hdr_stop_src_refuted :
  exists bs q q' e n l,
    bytes_ok bs /\ 14 <= len bs /\ lax_stopped_at_ext (LaxCut.from_ethernet true bs) = false /\
    pwire2_ethernet bs = P2Fb q e true (P2RejNet q' n LyIpv6RouteHeader (ELen l)) /\
    le_src l = LsMacsecShortLength /\
    (exists r', LaxSlicedPacket.from_ethernet bs = Ok r' /\
                lsp_stop_err r' = Some (ELen l, LyIpv6RouteHeader)) /\
    exists p v, LaxPacketHeaders.from_ethernet bs = Ok p /\ lhview_of p = Ok v /\
                lhv_net v = Some (lnet_hdr n) /\ lhv_payload v = lnet_payload n /\
                lhv_stop v = Some (ELen (le_set_src l LsSlice), LyIpv6RouteHeader) /\
                ELen (le_set_src l LsSlice) <> ELen l.
Proof.
  exists ex_macsec_v6_fb. do 5 eexists.
  split; [apply bytes_okb_spec; vm_compute; reflexivity|].
  split; [vm_compute; discriminate|]. split; [vm_compute; reflexivity|].
  split; [vm_compute; reflexivity|]. split; [reflexivity|].
  split; [eexists; split; vm_compute; reflexivity|].
  eexists. eexists. split; [vm_compute; reflexivity|]. split; [vm_compute; reflexivity|].
  split; [reflexivity|]. split; [reflexivity|]. split; [reflexivity|]. discriminate.
Qed.
