(* Parse/PacketAccessProofs.v -- round 3 (C01 / C02): the packet-level accessors of a STRICT
   SlicedPacket (Parse/PacketAccess.v) never reach Bug and hand back windows of the input,
   for every result of the four strict entry points.

   Ingredients: provenance of every stored component (`sliced_wf`, Parse/AccessProofs.v) and
   the capacity fact `len (sp_exts p) <= 3` of Defrag/PacketStepProofs.v (`exts_cap_entry`):
   `vlan_ids` pushes at most once per link extension, so `push_unchecked` never meets a full
   ArrayVec<VlanId, 3>.  No `bytes_ok` hypothesis is needed for the packet-level accessors. *)
From EP Require Import Base.Bytes Parse.Types Parse.Slices Parse.Cursor Parse.Repr Parse.Access
  Parse.AccessProofs Parse.PacketAccess.
From EP Require Defrag.PacketStep Defrag.PacketStepProofs.
From Coq Require Import ZArith Lia ZifyN ZifyBool List.
Import ListNotations.

Local Open Scope N_scope.

Section PA.
  Variable bs : bytes.
  Import SlicedPacketPA.

  (* ---- vlan_ids: push_unchecked into ArrayVec<VlanId, 3> ------------------------------------ *)
  Lemma vlan_ids_loop_ok exts :
    Forall (ext_prov bs) exts ->
    forall acc, len acc + len exts <= LINK_EXTS_CAP ->
      exists l, PacketStep.vlan_ids_loop exts acc = Ok l /\ len l <= len acc + len exts.
  Proof.
    induction 1 as [|x l Px Pl IH]; intros acc L; cbn [PacketStep.vlan_ids_loop].
    - exists acc. split; [reflexivity|]. rewrite len_nil. lia.
    - rewrite len_cons in L |- *. destruct x as [s|m].
      + destruct Px as (src & I & E). apply vlan_wf in E. destruct E as (-> & W). unfold wf_vlan in W.
        unfold SingleVlanA.vlan_identifier.
        destruct (rdU_ok src 0) as (a & Ea); [lia|]. destruct (rdU_ok src 1) as (b & Eb); [lia|].
        rewrite Ea. cbn [bind]. rewrite Eb. cbn [bind].
        destruct (len acc <? LINK_EXTS_CAP) eqn:C; [|exfalso; lia].
        destruct (IH (acc ++ [be16 (N.land a 15) b])) as (l' & E' & L').
        { rewrite len_app, len_cons, len_nil. lia. }
        exists l'. split; [exact E'|]. rewrite len_app, len_cons, len_nil in L'. lia.
      + destruct (IH acc) as (l' & E' & L'); [lia|]. exists l'. split; [exact E'|lia].
  Qed.

  (* ---- the len_source scan of ether_payload ------------------------------------------------- *)
  Lemma scan_ok exts : Forall (ext_prov bs) exts -> forall src, okr (len_source_scan exts src).
  Proof.
    induction 1 as [|x l Px Pl IH]; intros src; cbn [len_source_scan]; [apply okr_Ok|].
    destruct x as [s|m]; [apply IH|].
    destruct Px as (src0 & I & E). apply macsec_wf in E. destruct E as ((t & Et & Lh) & _ & _).
    assert (L6 : 6 <= s_len (ms_header m)) by (rewrite Lh; lia).
    unfold MacsecHeaderA.short_len.
    destruct (rdU_ok (ms_header m) 1) as (b & Eb); [lia|]. rewrite Eb. cbn [bind]. apply IH.
  Qed.

  Lemma last_ext_in l x : last_ext l = Some x -> In x l.
  Proof.
    unfold last_ext. destruct (rev l) as [|y r] eqn:E; [discriminate|]. intros X. injection X as ->.
    apply in_rev. rewrite E. now left.
  Qed.

  Definition ep_in_buf (o : option Slices.ether_payload) : Prop :=
    match o with Some e => in_buf bs (ep_slice e) | None => True end.

  (* ---- ether_payload -------------------------------------------------------------------------- *)
  Lemma ether_payload_ok p : sliced_wf bs p -> exists o, ether_payload p = Ok o /\ ep_in_buf o.
  Proof.
    intros (A & B & _). unfold ether_payload.
    destruct (last_ext (sp_exts p)) as [x|] eqn:El.
    - apply last_ext_in in El. destruct (scan_ok _ B LsSlice) as (sc & ->). cbn [bind].
      rewrite Forall_forall in B. pose proof (B x El) as Px. destruct x as [v|m].
      + destruct Px as (src & I & E). apply vlan_wf in E. destruct E as (-> & W).
        pose proof (vlan_windows_ok _ W) as F. unfold SingleVlanA.windows in F.
        inversion F as [|? ? _ F2]; subst. inversion F2 as [|? ? (w & Ew & Sw) _]; subst.
        unfold SingleVlanA.payload, SingleVlanA.ether_type. unfold wf_vlan in W.
        destruct (rd16_ok src 2) as (et & ->); [lia|]. cbn [bind]. rewrite Ew. cbn [bind].
        eexists. split; [reflexivity|]. cbn. eapply sub_of_in_buf; [exact I|exact Sw].
      + destruct Px as (src & I & E). apply macsec_wf in E. destruct E as (_ & _ & Sp).
        unfold MacsecA.ether_payload, macsec_payload_slice in *.
        destruct (ms_payload m) as [e|ps]; cbn [bind].
        * eexists. split; [reflexivity|]. cbn. eapply sub_of_in_buf; [exact I|exact Sp].
        * eexists. split; [reflexivity|]. exact Logic.I.
    - destruct (sp_link p) as [[s|h w|e]|]; cbn [optP link_prov] in A.
      + destruct A as (src & I & E). apply eth2_plain_wf in E. destruct E as (-> & W).
        pose proof (eth2_windows_ok _ W) as F. unfold Ethernet2A.windows in F. cbn [e2_slice] in F.
        inversion F as [|? ? _ F2]; subst. inversion F2 as [|? ? (w & Ew & Sw) _]; subst.
        unfold Ethernet2A.payload, Ethernet2A.ether_type. destruct W as (_ & L). cbn [e2_slice e2_fcs_len] in *.
        destruct (rd16_ok src 12) as (et & ->); [lia|]. cbn [bind]. rewrite Ew. cbn [bind].
        eexists. split; [reflexivity|]. cbn. eapply sub_of_in_buf; [exact I|exact Sw].
      + destruct A as (src & I & E). apply sll_wf in E. destruct E as (W & Ew & Sh). cbn [fst snd] in *. subst w.
        pose proof (sll_windows_ok (h, src) W) as F. unfold LinuxSllA.windows in F.
        inversion F as [|? ? (pw & Epw & Spw) _]; subst. cbn [snd] in Spw.
        destruct W as ((L & pt & hw & pr & v & E0 & Ept & E2 & E14 & Ev) & L16). cbn [fst snd] in *.
        assert (Ep : LinuxSllHeaderA.protocol_type h = Ok v).
        { unfold LinuxSllHeaderA.protocol_type, LinuxSllHeaderA.arp_hardware_type.
          rewrite E2. cbn [bind]. rewrite E14. cbn [bind]. now rewrite Ev. }
        rewrite Ep. cbn [bind].
        destruct v; try (eexists; split; [reflexivity|exact Logic.I]).
        unfold LinuxSllA.payload. cbn [fst]. rewrite Ep. cbn [bind]. rewrite Epw. cbn [bind fst snd].
        eexists. split; [reflexivity|]. cbn. eapply sub_of_in_buf; [exact I|exact Spw].
      + eexists. split; [reflexivity|]. cbn. exact A.
      + eexists. split; [reflexivity|]. exact Logic.I.
  Qed.

  (* ---- payload_ether_type --------------------------------------------------------------------- *)
  Lemma payload_ether_type_ok p : sliced_wf bs p -> okr (payload_ether_type p).
  Proof.
    intros (A & B & _). unfold payload_ether_type.
    destruct (sp_net p); [apply okr_Ok|]. destruct (sp_transport p); [apply okr_Ok|].
    destruct (last_ext (sp_exts p)) as [x|] eqn:El.
    - apply last_ext_in in El. rewrite Forall_forall in B. pose proof (B x El) as Px. destruct x as [v|m].
      + destruct Px as (src & I & E). apply vlan_wf in E. destruct E as (-> & W). unfold wf_vlan in W.
        unfold SingleVlanA.ether_type. destruct (rd16_ok src 2) as (et & ->); [lia|]. apply okr_Ok.
      + destruct Px as (src & I & E). apply macsec_wf in E. destruct E as (W & _ & _).
        unfold MacsecA.next_ether_type.
        destruct W as (t & Et & Lh). unf_macsech. rewrite Et. cbn [bind].
        destruct (N.land t 12 =? 0) eqn:C1; cbn [negb]; [|apply okr_Ok].
        cbn [bind].
        destruct (bitset t 32) eqn:C2.
        * destruct (rdU_ok (ms_header m) 14) as (a & Ea); [lia|].
          destruct (rdU_ok (ms_header m) 15) as (b & Eb); [lia|].
          rewrite Ea. cbn [bind]. rewrite Eb. apply okr_Ok.
        * destruct (rdU_ok (ms_header m) 6) as (a & Ea); [lia|].
          destruct (rdU_ok (ms_header m) 7) as (b & Eb); [lia|].
          rewrite Ea. cbn [bind]. rewrite Eb. apply okr_Ok.
    - destruct (sp_link p) as [[s|h w|e]|]; cbn [optP link_prov] in A; try apply okr_Ok.
      + destruct A as (src & I & E). apply eth2_plain_wf in E. destruct E as (-> & (_ & L)).
        cbn [e2_slice e2_fcs_len] in L. unfold Ethernet2A.ether_type. cbn [e2_slice].
        destruct (rd16_ok src 12) as (et & ->); [lia|]. apply okr_Ok.
      + destruct A as (src & I & E). apply sll_wf in E. destruct E as (W & _ & _).
        destruct W as ((L & pt & hw & pr & v & E0 & Ept & E2 & E14 & Ev) & L16). cbn [fst snd] in *.
        unfold LinuxSllHeaderA.protocol_type, LinuxSllHeaderA.arp_hardware_type.
        rewrite E2. cbn [bind]. rewrite E14. cbn [bind]. rewrite Ev. cbn [bind].
        destruct v; apply okr_Ok.
  Qed.

  (* ---- ip_payload / is_ip_payload_fragmented --------------------------------------------------- *)
  Lemma net_v4_facts v : net_prov bs (NtIpv4 v) -> exists src, in_buf bs src /\ wf_ipv4 v /\ ipv4_in v src.
  Proof.
    intros (src & I & [E|E]); exists src; (split; [exact I|]).
    - now apply ipv4_wf.
    - exact (ip_wf _ _ E).
  Qed.
  Lemma net_v6_facts v : net_prov bs (NtIpv6 v) -> exists src, in_buf bs src /\ wf_ipv6 v /\ ipv6_in v src.
  Proof.
    intros (src & I & [E|E]); exists src; (split; [exact I|]).
    - now apply ipv6_wf.
    - exact (ip_wf _ _ E).
  Qed.

  Definition ipp_in_buf (o : option Slices.ip_payload) : Prop :=
    match o with Some i => in_buf bs (ipp_slice i) | None => True end.

  Lemma ip_payload_ok p : sliced_wf bs p -> exists o, ip_payload p = Ok o /\ ipp_in_buf o.
  Proof.
    intros (_ & _ & C & _). unfold ip_payload.
    destruct (sp_net p) as [[v|v|a]|]; cbn [optP] in C;
      try (eexists; split; [reflexivity|exact Logic.I]).
    - destruct (net_v4_facts v C) as (src & I & _ & (_ & _ & Sp)).
      eexists. split; [reflexivity|]. cbn. eapply sub_of_in_buf; [exact I|exact Sp].
    - destruct (net_v6_facts v C) as (src & I & _ & (_ & _ & Sp)).
      eexists. split; [reflexivity|]. cbn. eapply sub_of_in_buf; [exact I|exact Sp].
  Qed.

  Lemma is_ip_payload_fragmented_ok p : sliced_wf bs p -> okr (is_ip_payload_fragmented p).
  Proof.
    intros (_ & _ & C & _). unfold is_ip_payload_fragmented.
    destruct (sp_net p) as [[v|v|a]|]; cbn [optP] in C; try apply okr_Ok.
    destruct (net_v4_facts v C) as (src & I & ((L1 & L2) & _) & _).
    unfold Ipv4SliceA.is_payload_fragmented. unf_ipv4h. oksolve.
  Qed.

  (* ---- vlan ------------------------------------------------------------------------------------ *)
  Definition vlan_in_buf (o : option (slice * option slice)) : Prop :=
    match o with
    | Some (a, b) => in_buf bs a /\ match b with Some i => in_buf bs i | None => True end
    | None => True
    end.

  Lemma vlan_loop_ok exts : Forall (ext_prov bs) exts ->
    forall r, match r with Some s => in_buf bs s | None => True end -> vlan_in_buf (vlan_loop exts r).
  Proof.
    induction 1 as [|x l Px Pl IH]; intros r R; cbn [vlan_loop].
    - destruct r; cbn; auto.
    - destruct x as [s|m]; [|now apply IH].
      destruct Px as (src & I & E). apply vlan_wf in E. destruct E as (-> & _).
      destruct r as [outer|]; [cbn; auto|]. now apply IH.
  Qed.

  (* ---- summaries over a well-formed packet with at most 3 link extensions ----------------------- *)
  Lemma packet_accessors_ok p :
    sliced_wf bs p -> len (sp_exts p) <= LINK_EXTS_CAP -> Forall nobug (packet_accessors p).
  Proof.
    intros W L. unfold packet_accessors.
    constructor; [apply nobug_run, okr_nobug; now apply payload_ether_type_ok|].
    constructor.
    { apply nobug_run, okr_nobug. destruct (ether_payload_ok p W) as (o & -> & _). apply okr_Ok. }
    constructor.
    { apply nobug_run, okr_nobug. destruct (ip_payload_ok p W) as (o & -> & _). apply okr_Ok. }
    constructor; [apply nobug_run, okr_nobug; now apply is_ip_payload_fragmented_ok|].
    constructor; [intros b; discriminate|].
    constructor; [|constructor].
    apply nobug_run, okr_nobug. unfold vlan_ids, PacketStep.vlan_ids. destruct W as (_ & B & _).
    destruct (vlan_ids_loop_ok _ B []) as (l & -> & _); [rewrite len_nil; lia|]. apply okr_Ok.
  Qed.

  Lemma packet_windows_ok p : sliced_wf bs p -> Forall (buf_ok bs) (packet_windows p).
  Proof.
    intros W. unfold packet_windows. repeat (apply Forall_app; split).
    - destruct (ether_payload_ok p W) as (o & -> & P). destruct o as [e|]; cbn [lift_opt]; [|constructor].
      constructor; [|constructor]. now apply buf_ok_Ok.
    - destruct (ip_payload_ok p W) as (o & -> & P). destruct o as [i|]; cbn [lift_opt]; [|constructor].
      constructor; [|constructor]. now apply buf_ok_Ok.
    - unfold vlan. cbn [lift_opt]. destruct W as (_ & B & _).
      pose proof (vlan_loop_ok _ B None Logic.I) as V.
      destruct (vlan_loop (sp_exts p) None) as [(a, b)|]; [|constructor]. cbn [vlan_in_buf fst snd] in *.
      destruct V as (Va & Vb). constructor; [now apply buf_ok_Ok|].
      destruct b as [i|]; [|constructor]. constructor; [|constructor]. now apply buf_ok_Ok.
  Qed.

  Lemma vlan_ids_bound p :
    sliced_wf bs p -> len (sp_exts p) <= LINK_EXTS_CAP ->
    exists l, vlan_ids p = Ok l /\ len l <= len (sp_exts p).
  Proof.
    intros (_ & B & _) L. unfold vlan_ids, PacketStep.vlan_ids.
    destruct (vlan_ids_loop_ok _ B []) as (l & E & Ll); [rewrite len_nil; lia|].
    exists l. split; [exact E|]. rewrite len_nil in Ll. lia.
  Qed.
End PA.

(* ================================================================================================= *)
(* summary statements used by Props/C01.v and Props/C02.v                                            *)
(* ================================================================================================= *)

(* a strict result holds at most LINK_EXTS_CAP = 3 link extensions (the guard of the cursor loop) *)
Lemma entry_exts_cap bs et p : entry bs et p -> len (sp_exts p) <= LINK_EXTS_CAP.
Proof.
  unfold LINK_EXTS_CAP. intros [H|[H|[H|H]]].
  - exact (PacketStepProofs.exts_cap_entry PacketStep.EEthernet bs p H).
  - exact (PacketStepProofs.exts_cap_entry PacketStep.ELinuxSll bs p H).
  - exact (PacketStepProofs.exts_cap_entry (PacketStep.EEtherType et) bs p H).
  - exact (PacketStepProofs.exts_cap_entry PacketStep.EIp bs p H).
Qed.

(* C01: none of payload_ether_type / ether_payload / ip_payload / is_ip_payload_fragmented /
   vlan / vlan_ids (push_unchecked) reaches a failing unchecked primitive on a strict result;
   vlan_ids returns at most as many ids as there are link extensions, hence at most 3 *)
Theorem strict_packet_accessors_no_bug bs et p :
  entry bs et p ->
  len (sp_exts p) <= LINK_EXTS_CAP /\
  (forall r, In r (SlicedPacketPA.packet_accessors p) -> forall b, r <> Bug b) /\
  (exists l, SlicedPacketPA.vlan_ids p = Ok l /\ len l <= len (sp_exts p) /\ len l <= LINK_EXTS_CAP).
Proof.
  intros E. pose proof (sliced_wf_entry bs et p E) as W. pose proof (entry_exts_cap bs et p E) as L.
  split; [exact L|]. split.
  - pose proof (packet_accessors_ok bs p W L) as F. rewrite Forall_forall in F. exact F.
  - destruct (vlan_ids_bound bs p W L) as (l & El & Ll). exists l. split; [exact El|]. split; [exact Ll|lia].
Qed.

(* C02 reading: every run returns normally, and in fact with Ok *)
Theorem strict_packet_accessors_total bs et p :
  entry bs et p -> forall r, In r (SlicedPacketPA.packet_accessors p) -> r = Ok tt.
Proof.
  intros E r Hr. pose proof (sliced_wf_entry bs et p E) as W. pose proof (entry_exts_cap bs et p E) as L.
  unfold SlicedPacketPA.packet_accessors in Hr. cbn [In] in Hr.
  assert (K : forall A (x : res A), okr x -> run x = Ok tt) by (intros A x (y & ->); reflexivity).
  destruct Hr as [<-|[<-|[<-|[<-|[<-|[<-|[]]]]]]]; apply K.
  - now apply (payload_ether_type_ok bs).
  - destruct (ether_payload_ok bs p W) as (o & -> & _). apply okr_Ok.
  - destruct (ip_payload_ok bs p W) as (o & -> & _). apply okr_Ok.
  - now apply (is_ip_payload_fragmented_ok bs).
  - apply okr_Ok.
  - destruct (vlan_ids_bound bs p W L) as (l & -> & _). apply okr_Ok.
Qed.

(* C01: every sub-slice handed back by a packet-level accessor (ether payload, IP payload, the
   outer / inner VLAN slice) lies inside the input and holds the input's bytes *)
Theorem strict_packet_windows_inside bs et p :
  entry bs et p ->
  forall r, In r (SlicedPacketPA.packet_windows p) ->
    exists w, r = Ok w /\ s_off w + s_len w <= len bs /\
              snd w = take (s_len w) (drop (s_off w) bs).
Proof.
  intros E r Hr. pose proof (sliced_wf_entry bs et p E) as W.
  pose proof (packet_windows_ok bs p W) as F. rewrite Forall_forall in F.
  destruct (F r Hr) as (w & -> & I). exists w. split; [reflexivity|].
  split; [now apply in_buf_bounds|].
  destruct I as (pos & lim & R). rewrite (repr_off _ _ _ _ R), (repr_len _ _ _ _ R).
  destruct R as (-> & _). reflexivity.
Qed.

(* the whole strict result: component accessors of Parse/Access.v + packet-level accessors *)
Theorem strict_all_accessors_no_bug bs et p :
  bytes_ok bs -> entry bs et p ->
  forall r, In r (SlicedPacketPA.accessors p) -> forall b, r <> Bug b.
Proof.
  intros Hok E r Hr. unfold SlicedPacketPA.accessors in Hr. apply in_app_or in Hr. destruct Hr as [Hr|Hr].
  - destruct (packet_accessors_no_bug bs et p Hok E) as (_ & F). now apply F.
  - destruct (strict_packet_accessors_no_bug bs et p E) as (_ & F & _). now apply F.
Qed.

Theorem strict_all_windows_inside bs et p :
  bytes_ok bs -> entry bs et p ->
  forall r, In r (SlicedPacketPA.windows p) ->
    exists w, r = Ok w /\ s_off w + s_len w <= len bs /\
              snd w = take (s_len w) (drop (s_off w) bs).
Proof.
  intros Hok E r Hr. unfold SlicedPacketPA.windows in Hr. apply in_app_or in Hr. destruct Hr as [Hr|Hr].
  - now apply (packet_windows_inside bs et p Hok E).
  - now apply (strict_packet_windows_inside bs et p E).
Qed.
