(* Parse/Fields.v -- C03, decoded HEADER FIELD VALUES of a strict slicing result.

   Spec  (`spec_fields bs v`): for every layer of the observer's view `v`
          (Parse/View.v: windows = absolute positions in the caller's buffer) the
          list of (field tag, value) that the published formats prescribe for the
          bytes at the layer's position: IEEE 802.3 / 802.1Q / 802.1AE,
          LINKTYPE_LINUX_SLL, RFC 826, 791 (+2474/3168), 4302, 8200, 768, 9293
          (+3168/3540 flag bits), 792, 4443.  Written over the absolute readers
          `B bs i` / `W bs i` of Parse/WireSpec.v; sub-octet fields are bit ranges
          of the big-endian bit string in the RFC's numbering (bit 0 = most
          significant bit of the first octet; `BitFields/Spec.v`: `field`,
          `bits_of`) -- no shifts, no masks, no slices.
   Model (`fields_of_packet p`): the same list obtained through the ACCESSOR
          models of Parse/Access.v (transliterations of the crate's slice
          accessors) applied to the slices stored in the strict result `p`.
   No proofs here (Parse/FieldsProofs.v). *)
From EP Require BitFields.Spec.
From EP Require Import Base.Bytes Parse.Types Parse.Slices Parse.Cursor Parse.View
  Parse.WireSpec Parse.Access.

Local Open Scope N_scope.

(* ---- tags and values (what runner and harness print) ------------------------ *)
Inductive ltag :=
| LEth | LSll | LVlan | LMacsec | LArp | LIpv4 | LAuth | LIpv6
| LHopByHop | LRouting | LDestOpts | LFragment | LUdp | LTcp | LIcmp4 | LIcmp6.

Inductive ftag :=
| Fdst | Fsrc | Fether_type
| Fpacket_type | Fhw_type | Faddr_len | Faddr | Fprotocol
| Fpcp | Fdei | Fvid
| Fv | Fes | Fsc | Fscb | Fe | Fc | Fan | Fsl | Fpn | Fsci
| Fproto_type | Fhw_size | Fproto_size | Foperation
| Fsender_hw | Fsender_proto | Ftarget_hw | Ftarget_proto
| Fversion | Fihl | Fdscp | Fecn | Ftotal_len | Fident | Fdf | Fmf | Ffrag_off | Fttl
| Fchecksum | Foptions
| Fnext_header | Fpayload_len | Fspi | Fseq | Ficv
| Ftraffic_class | Fflow_label | Fhop_limit
| Flen_byte | Fpayload
| Fsrc_port | Fdst_port | Flength
| Fack_nr | Fdata_offset | Fns | Fcwr | Fece | Furg | Fack | Fpsh | Frst | Fsyn | Ffin
| Fwindow | Furgent
| Ftype | Fcode | Fbytes4to8.

Inductive fval :=
| FvN (n : N)            (* a number *)
| FvB (b : bool)         (* a one bit flag *)
| FvBytes (l : bytes).   (* a run of octets *)

Definition fl := list (ftag * fval).
Definition layers := list (ltag * fl).

(* value of an octet string read as a big-endian number *)
Definition be_num (l : bytes) : N := fold_left (fun a b => a * 256 + b) l 0.

(* ============================================================================
   SPECIFICATION
   ============================================================================ *)
Section FieldSpec.
  Variable bs : bytes.
  Local Notation B := (WireSpec.B bs).
  Local Notation W := (WireSpec.W bs).

  (* the n octets at position p *)
  Fixpoint bytes_at (p : N) (n : nat) : bytes :=
    match n with
    | O => []
    | S m => B p :: bytes_at (p + 1) m
    end.
  Definition bytes_n (p n : N) : bytes := bytes_at p (N.to_nat n).
  (* the n-octet big-endian number at position p *)
  Definition num_at (p : N) (n : nat) : N := be_num (bytes_at p n).
  (* bits [off, off+w) of the n octets at position p, as a number *)
  Definition bits (p : N) (n : nat) (off w : nat) : N :=
    BitFields.Spec.field (BitFields.Spec.bits_of (bytes_at p n)) off w.
  (* bit k of the n octets at position p *)
  Definition flag (p : N) (n : nat) (k : nat) : bool := bits p n k 1 =? 1.

  (* Ethernet II (IEEE 802.3): destination 6, source 6, ether type 2 *)
  Definition eth_spec (p : N) : fl :=
    [(Fdst, FvN (num_at p 6)); (Fsrc, FvN (num_at (p + 6) 6)); (Fether_type, FvN (W (p + 12)))].

  (* LINKTYPE_LINUX_SLL: packet type 2, ARPHRD 2, address length 2, address 8, protocol 2 *)
  Definition sll_spec (p : N) : fl :=
    [(Fpacket_type, FvN (W p)); (Fhw_type, FvN (W (p + 2))); (Faddr_len, FvN (W (p + 4)));
     (Faddr, FvBytes (bytes_at (p + 6) 8)); (Fprotocol, FvN (W (p + 14)))].

  (* IEEE 802.1Q: TCI = PCP 3, DEI 1, VID 12; ether type 2 *)
  Definition vlan_spec (p : N) : fl :=
    [(Fpcp, FvN (bits p 2 0 3)); (Fdei, FvB (flag p 2 3)); (Fvid, FvN (bits p 2 4 12));
     (Fether_type, FvN (W (p + 2)))].

  (* IEEE 802.1AE SecTAG behind the MACsec ether type: TCI = V ES SC SCB E C, AN 2;
     2 zero bits, SL 6; PN 32; SCI 64 iff SC *)
  Definition macsec_spec (p : N) : fl :=
    [(Fv, FvB (flag p 1 0)); (Fes, FvB (flag p 1 1)); (Fsc, FvB (flag p 1 2));
     (Fscb, FvB (flag p 1 3)); (Fe, FvB (flag p 1 4)); (Fc, FvB (flag p 1 5));
     (Fan, FvN (bits p 1 6 2)); (Fsl, FvN (bits (p + 1) 1 2 6)); (Fpn, FvN (num_at (p + 2) 4))]
    ++ (if flag p 1 2 then [(Fsci, FvN (num_at (p + 6) 8))] else []).

  (* RFC 826: hrd 2, pro 2, hln 1, pln 1, op 2, sha hln, spa pln, tha hln, tpa pln *)
  Definition arp_spec (p : N) : fl :=
    let hln := B (p + 4) in
    let pln := B (p + 5) in
    [(Fhw_type, FvN (W p)); (Fproto_type, FvN (W (p + 2))); (Fhw_size, FvN hln);
     (Fproto_size, FvN pln); (Foperation, FvN (W (p + 6)));
     (Fsender_hw, FvBytes (bytes_n (p + 8) hln));
     (Fsender_proto, FvBytes (bytes_n (p + 8 + hln) pln));
     (Ftarget_hw, FvBytes (bytes_n (p + 8 + hln + pln) hln));
     (Ftarget_proto, FvBytes (bytes_n (p + 8 + hln + pln + hln) pln))].

  (* RFC 791 (+ RFC 2474 DSCP, RFC 3168 ECN): version 4, IHL 4, DSCP 6, ECN 2, total
     length 16, identification 16, flags (reserved, DF, MF), fragment offset 13, TTL 8,
     protocol 8, header checksum 16, source 32, destination 32, options up to IHL*4 *)
  Definition ipv4_spec (p hl : N) : fl :=
    [(Fversion, FvN (bits p 1 0 4)); (Fihl, FvN (bits p 1 4 4));
     (Fdscp, FvN (bits (p + 1) 1 0 6)); (Fecn, FvN (bits (p + 1) 1 6 2));
     (Ftotal_len, FvN (W (p + 2))); (Fident, FvN (W (p + 4)));
     (Fdf, FvB (flag (p + 6) 2 1)); (Fmf, FvB (flag (p + 6) 2 2));
     (Ffrag_off, FvN (bits (p + 6) 2 3 13));
     (Fttl, FvN (B (p + 8))); (Fprotocol, FvN (B (p + 9))); (Fchecksum, FvN (W (p + 10)));
     (Fsrc, FvN (num_at (p + 12) 4)); (Fdst, FvN (num_at (p + 16) 4));
     (Foptions, FvBytes (bytes_n (p + 20) (hl - 20)))].

  (* RFC 4302: next header 8, payload len 8, reserved 16, SPI 32, sequence 32, ICV *)
  Definition ah_spec (p l : N) : fl :=
    [(Fnext_header, FvN (B p)); (Fpayload_len, FvN (B (p + 1))); (Fspi, FvN (num_at (p + 4) 4));
     (Fseq, FvN (num_at (p + 8) 4)); (Ficv, FvBytes (bytes_n (p + 12) (l - 12)))].

  (* RFC 8200: version 4, traffic class 8, flow label 20, payload length 16, next
     header 8, hop limit 8, source 128, destination 128 *)
  Definition ipv6_spec (p : N) : fl :=
    [(Fversion, FvN (bits p 1 0 4)); (Ftraffic_class, FvN (bits p 2 4 8));
     (Fflow_label, FvN (bits p 4 12 20)); (Fpayload_len, FvN (W (p + 4)));
     (Fnext_header, FvN (B (p + 6))); (Fhop_limit, FvN (B (p + 7)));
     (Fsrc, FvBytes (bytes_at (p + 8) 16)); (Fdst, FvBytes (bytes_at (p + 24) 16))].

  (* RFC 8200 4.3 / 4.4 / 4.6: next header 8, hdr ext len 8, (len+1)*8 - 2 octets *)
  Definition raw_ext_spec (p l : N) : fl :=
    [(Fnext_header, FvN (B p)); (Flen_byte, FvN (B (p + 1))); (Fpayload, FvBytes (bytes_n (p + 2) (l - 2)))].

  (* RFC 8200 4.5: next header 8, reserved 8, fragment offset 13, res 2, M 1, identification 32 *)
  Definition frag_spec (p : N) : fl :=
    [(Fnext_header, FvN (B p)); (Ffrag_off, FvN (bits (p + 2) 2 0 13)); (Fmf, FvB (flag (p + 2) 2 15));
     (Fident, FvN (num_at (p + 4) 4))].

  (* the extension headers inside the window [pos, lim) behind an IPv6 header whose
     next header field is nh: each header names the kind of the one behind it *)
  Fixpoint chain_spec (fuel : nat) (nh pos lim : N) : layers :=
    match fuel with
    | O => []
    | S f =>
        if lim <=? pos then []
        else if nh =? 0 then
          let l := (B (pos + 1) + 1) * 8 in
          (LHopByHop, raw_ext_spec pos l) :: chain_spec f (B pos) (pos + l) lim
        else if nh =? 43 then
          let l := (B (pos + 1) + 1) * 8 in
          (LRouting, raw_ext_spec pos l) :: chain_spec f (B pos) (pos + l) lim
        else if nh =? 60 then
          let l := (B (pos + 1) + 1) * 8 in
          (LDestOpts, raw_ext_spec pos l) :: chain_spec f (B pos) (pos + l) lim
        else if nh =? 44 then
          (LFragment, frag_spec pos) :: chain_spec f (B pos) (pos + 8) lim
        else if nh =? 51 then
          let l := (B (pos + 1) + 2) * 4 in
          (LAuth, ah_spec pos l) :: chain_spec f (B pos) (pos + l) lim
        else []
    end.

  (* RFC 768 *)
  Definition udp_spec (p : N) : fl :=
    [(Fsrc_port, FvN (W p)); (Fdst_port, FvN (W (p + 2))); (Flength, FvN (W (p + 4)));
     (Fchecksum, FvN (W (p + 6)))].

  (* RFC 9293 (+ RFC 3168 CWR/ECE, RFC 3540 NS): ports, sequence 32, acknowledgment 32,
     data offset 4, reserved 3, NS, CWR ECE URG ACK PSH RST SYN FIN, window 16,
     checksum 16, urgent pointer 16, options up to data offset * 4 *)
  Definition tcp_spec (p hl : N) : fl :=
    [(Fsrc_port, FvN (W p)); (Fdst_port, FvN (W (p + 2))); (Fseq, FvN (num_at (p + 4) 4));
     (Fack_nr, FvN (num_at (p + 8) 4)); (Fdata_offset, FvN (bits (p + 12) 1 0 4));
     (Fns, FvB (flag (p + 12) 1 7)); (Fcwr, FvB (flag (p + 13) 1 0)); (Fece, FvB (flag (p + 13) 1 1));
     (Furg, FvB (flag (p + 13) 1 2)); (Fack, FvB (flag (p + 13) 1 3)); (Fpsh, FvB (flag (p + 13) 1 4));
     (Frst, FvB (flag (p + 13) 1 5)); (Fsyn, FvB (flag (p + 13) 1 6)); (Ffin, FvB (flag (p + 13) 1 7));
     (Fwindow, FvN (W (p + 14))); (Fchecksum, FvN (W (p + 16))); (Furgent, FvN (W (p + 18)));
     (Foptions, FvBytes (bytes_n (p + 20) (hl - 20)))].

  (* RFC 792 / RFC 4443: type 8, code 8, checksum 16, rest of header 32 *)
  Definition icmp_spec (p : N) : fl :=
    [(Ftype, FvN (B p)); (Fcode, FvN (B (p + 1))); (Fchecksum, FvN (W (p + 2)));
     (Fbytes4to8, FvBytes (bytes_at (p + 4) 4))].

  (* ---- a whole view ---------------------------------------------------------- *)
  Definition spec_link (l : vlink) : layers :=
    match l with
    | VEthernet2 w => [(LEth, eth_spec (fst w))]
    | VLinuxSll h _ => [(LSll, sll_spec (fst h))]
    | VEtherPayload _ => []
    end.
  Definition spec_ext (x : vlink_ext) : ltag * fl :=
    match x with
    | VVlan w => (LVlan, vlan_spec (fst w))
    | VMacsec h _ => (LMacsec, macsec_spec (fst h))
    end.
  Definition spec_net (n : vnet) : layers :=
    match n with
    | VIpv4 h a _ =>
        (LIpv4, ipv4_spec (fst h) (snd h)) ::
        match a with Some w => [(LAuth, ah_spec (fst w) (snd w))] | None => [] end
    | VIpv6 h _ _ x _ =>
        (LIpv6, ipv6_spec (fst h)) ::
        chain_spec (S (N.to_nat (snd x))) (B (fst h + 6)) (fst x) (fst x + snd x)
    | VArp w => [(LArp, arp_spec (fst w))]
    end.
  Definition spec_tr (t : vtransport) : layers :=
    match t with
    | VUdp w => [(LUdp, udp_spec (fst w))]
    | VTcp hl w => [(LTcp, tcp_spec (fst w) hl)]
    | VIcmpv4 w => [(LIcmp4, icmp_spec (fst w))]
    | VIcmpv6 w => [(LIcmp6, icmp_spec (fst w))]
    end.
  Definition sopt {A} (f : A -> layers) (o : option A) : layers :=
    match o with Some a => f a | None => [] end.
  Definition spec_fields (v : vpacket) : layers :=
    sopt spec_link (v_link v) ++ map spec_ext (v_exts v) ++ sopt spec_net (v_net v)
    ++ sopt spec_tr (v_transport v).
End FieldSpec.

(* ============================================================================
   MODEL: the accessors of Parse/Access.v on the stored slices
   ============================================================================ *)
Fixpoint mapM {A C} (f : A -> res C) (l : list A) : res (list C) :=
  match l with
  | [] => Ok []
  | x :: r => let* y := f x in let* ys := mapM f r in Ok (y :: ys)
  end.

(* Ethernet2Slice: destination(), source(), ether_type() *)
Definition eth_fields (s : slice) : res fl :=
  let e := mkEth2 0 s in
  let* d := Ethernet2A.destination e in
  let* sr := Ethernet2A.source e in
  let* et := Ethernet2A.ether_type e in
  Ok [(Fdst, FvN (be_num d)); (Fsrc, FvN (be_num sr)); (Fether_type, FvN et)].

Definition sll_proto_raw (p : sll_protocol_type) : N :=
  match p with
  | SllIgnored v | SllNetlink v | SllGre v | SllEtherType v | SllNonstandard v => v
  end.

(* LinuxSllSlice (delegates to LinuxSllHeaderSlice): packet_type(), arp_hardware_type(),
   sender_address_valid_length(), sender_address_full(), protocol_type() as u16 *)
Definition sll_fields (h : slice) : res fl :=
  let* pt := LinuxSllHeaderA.packet_type h in
  let* hw := LinuxSllHeaderA.arp_hardware_type h in
  let* vl := LinuxSllHeaderA.sender_address_valid_length h in
  let* sa := LinuxSllHeaderA.sender_address_full h in
  let* pr := LinuxSllHeaderA.protocol_type h in
  Ok [(Fpacket_type, FvN pt); (Fhw_type, FvN hw); (Faddr_len, FvN vl); (Faddr, FvBytes sa);
      (Fprotocol, FvN (sll_proto_raw pr))].

Definition vlan_fields (s : slice) : res fl :=
  let* pcp := SingleVlanA.priority_code_point s in
  let* dei := SingleVlanA.drop_eligible_indicator s in
  let* vid := SingleVlanA.vlan_identifier s in
  let* et := SingleVlanA.ether_type s in
  Ok [(Fpcp, FvN pcp); (Fdei, FvB dei); (Fvid, FvN vid); (Fether_type, FvN et)].

(* MacsecHeaderSlice; there is no version accessor: V is bit 0x80 of tci_an_raw() *)
Definition macsec_fields (h : slice) : res fl :=
  let* t := MacsecHeaderA.tci_an_raw h in
  let* es := MacsecHeaderA.endstation_id h in
  let* sc := MacsecHeaderA.sci_present h in
  let* scb := MacsecHeaderA.tci_scb h in
  let* e := MacsecHeaderA.encrypted h in
  let* c := MacsecHeaderA.userdata_changed h in
  let* a := MacsecHeaderA.an h in
  let* sl := MacsecHeaderA.short_len h in
  let* pn := MacsecHeaderA.packet_nr h in
  let* sci := MacsecHeaderA.sci h in
  Ok ([(Fv, FvB (bitset t 128)); (Fes, FvB es); (Fsc, FvB sc); (Fscb, FvB scb); (Fe, FvB e);
       (Fc, FvB c); (Fan, FvN a); (Fsl, FvN sl); (Fpn, FvN pn)]
      ++ match sci with Some l => [(Fsci, FvN (be_num l))] | None => [] end).

Definition arp_fields (a : slice) : res fl :=
  let* ht := ArpPacketA.hw_addr_type a in
  let* pt := ArpPacketA.proto_addr_type a in
  let* hs := ArpPacketA.hw_addr_size a in
  let* ps := ArpPacketA.proto_addr_size a in
  let* op := ArpPacketA.operation a in
  let* sh := ArpPacketA.sender_hw_addr a in
  let* sp := ArpPacketA.sender_protocol_addr a in
  let* th := ArpPacketA.target_hw_addr a in
  let* tp := ArpPacketA.target_protocol_addr a in
  Ok [(Fhw_type, FvN ht); (Fproto_type, FvN pt); (Fhw_size, FvN hs); (Fproto_size, FvN ps);
      (Foperation, FvN op); (Fsender_hw, FvBytes (snd sh)); (Fsender_proto, FvBytes (snd sp));
      (Ftarget_hw, FvBytes (snd th)); (Ftarget_proto, FvBytes (snd tp))].

Definition ipv4_fields (h : slice) : res fl :=
  let* v := Ipv4HeaderA.version h in
  let* ihl := Ipv4HeaderA.ihl h in
  let* d := Ipv4HeaderA.dcp h in
  let* e := Ipv4HeaderA.ecn h in
  let* tl := Ipv4HeaderA.total_len h in
  let* id := Ipv4HeaderA.identification h in
  let* df := Ipv4HeaderA.dont_fragment h in
  let* mf := Ipv4HeaderA.more_fragments h in
  let* fo := Ipv4HeaderA.fragments_offset h in
  let* ttl := Ipv4HeaderA.ttl h in
  let* pr := Ipv4HeaderA.protocol h in
  let* ck := Ipv4HeaderA.header_checksum h in
  let* sr := Ipv4HeaderA.source h in
  let* ds := Ipv4HeaderA.destination h in
  let* o := Ipv4HeaderA.options h in
  Ok [(Fversion, FvN v); (Fihl, FvN ihl); (Fdscp, FvN d); (Fecn, FvN e); (Ftotal_len, FvN tl);
      (Fident, FvN id); (Fdf, FvB df); (Fmf, FvB mf); (Ffrag_off, FvN fo); (Fttl, FvN ttl);
      (Fprotocol, FvN pr); (Fchecksum, FvN ck); (Fsrc, FvN (be_num sr)); (Fdst, FvN (be_num ds));
      (Foptions, FvBytes (snd o))].

(* IpAuthHeaderSlice has no payload-length accessor: to_header() stores the ICV
   length in 4-octet words (= payload len - 1) *)
Definition ah_fields (h : slice) : res fl :=
  let* nh := IpAuthHeaderA.next_header h in
  let* hd := IpAuthHeaderA.to_header h in
  let '(_, _, _, icv_words, _) := hd in
  let* sp := IpAuthHeaderA.spi h in
  let* sq := IpAuthHeaderA.sequence_number h in
  let* icv := IpAuthHeaderA.raw_icv h in
  Ok [(Fnext_header, FvN nh); (Fpayload_len, FvN (icv_words + 1)); (Fspi, FvN sp); (Fseq, FvN sq);
      (Ficv, FvBytes (snd icv))].

Definition ipv6_fields (h : slice) : res fl :=
  let* v := Ipv6HeaderA.version h in
  let* tc := Ipv6HeaderA.traffic_class h in
  let* f := Ipv6HeaderA.flow_label h in
  let* pl := Ipv6HeaderA.payload_length h in
  let* nh := Ipv6HeaderA.next_header h in
  let* hl := Ipv6HeaderA.hop_limit h in
  let* sr := Ipv6HeaderA.source h in
  let* ds := Ipv6HeaderA.destination h in
  Ok [(Fversion, FvN v); (Ftraffic_class, FvN tc); (Fflow_label, FvN f); (Fpayload_len, FvN pl);
      (Fnext_header, FvN nh); (Fhop_limit, FvN hl); (Fsrc, FvBytes sr); (Fdst, FvBytes ds)].

(* Ipv6RawExtHeaderSlice: next_header(), payload(); the length byte is
   to_header().header_ext_len *)
Definition raw_ext_fields (h : slice) : res fl :=
  let* nh := Ipv6RawExtHeaderA.next_header h in
  let* hd := Ipv6RawExtHeaderA.to_header h in
  let '(_, ext_len, _) := hd in
  let* p := Ipv6RawExtHeaderA.payload h in
  Ok [(Fnext_header, FvN nh); (Flen_byte, FvN ext_len); (Fpayload, FvBytes (snd p))].

Definition frag_fields (h : slice) : res fl :=
  let* nh := Ipv6FragmentHeaderA.next_header h in
  let* fo := Ipv6FragmentHeaderA.fragment_offset h in
  let* mf := Ipv6FragmentHeaderA.more_fragments h in
  let* id := Ipv6FragmentHeaderA.identification h in
  Ok [(Fnext_header, FvN nh); (Ffrag_off, FvN fo); (Fmf, FvB mf); (Fident, FvN id)].

Definition item_fields (x : ext_item) : res (ltag * fl) :=
  match x with
  | XHopByHop s => let* f := raw_ext_fields s in Ok (LHopByHop, f)
  | XRouting s => let* f := raw_ext_fields s in Ok (LRouting, f)
  | XDestinationOptions s => let* f := raw_ext_fields s in Ok (LDestOpts, f)
  | XFragment s => let* f := frag_fields s in Ok (LFragment, f)
  | XAuthentication s => let* f := ah_fields s in Ok (LAuth, f)
  end.

Definition udp_fields (s : slice) : res fl :=
  let* a := UdpA.source_port s in
  let* b := UdpA.destination_port s in
  let* c := UdpA.length s in
  let* d := UdpA.checksum s in
  Ok [(Fsrc_port, FvN a); (Fdst_port, FvN b); (Flength, FvN c); (Fchecksum, FvN d)].

Definition tcp_fields (x : N * slice) : res fl :=
  let s := snd x in
  let* sp := TcpFieldsA.source_port s in
  let* dp := TcpFieldsA.destination_port s in
  let* sq := TcpFieldsA.sequence_number s in
  let* ak := TcpFieldsA.acknowledgment_number s in
  let* d := TcpFieldsA.data_offset s in
  let* ns := TcpFieldsA.ns s in
  let* cwr := TcpFieldsA.cwr s in
  let* ece := TcpFieldsA.ece s in
  let* urg := TcpFieldsA.urg s in
  let* ack := TcpFieldsA.ack s in
  let* psh := TcpFieldsA.psh s in
  let* rst := TcpFieldsA.rst s in
  let* syn := TcpFieldsA.syn s in
  let* fin := TcpFieldsA.fin s in
  let* w := TcpFieldsA.window_size s in
  let* ck := TcpFieldsA.checksum s in
  let* up := TcpFieldsA.urgent_pointer s in
  let* o := TcpSliceA.options x in
  Ok [(Fsrc_port, FvN sp); (Fdst_port, FvN dp); (Fseq, FvN sq); (Fack_nr, FvN ak);
      (Fdata_offset, FvN d); (Fns, FvB ns); (Fcwr, FvB cwr); (Fece, FvB ece); (Furg, FvB urg);
      (Fack, FvB ack); (Fpsh, FvB psh); (Frst, FvB rst); (Fsyn, FvB syn); (Ffin, FvB fin);
      (Fwindow, FvN w); (Fchecksum, FvN ck); (Furgent, FvN up); (Foptions, FvBytes (snd o))].

Definition icmp4_fields (s : slice) : res fl :=
  let* t := Icmpv4A.type_u8 s in
  let* c := Icmpv4A.code_u8 s in
  let* k := Icmpv4A.checksum s in
  let* b := Icmpv4A.bytes5to8 s in
  Ok [(Ftype, FvN t); (Fcode, FvN c); (Fchecksum, FvN k); (Fbytes4to8, FvBytes b)].

Definition icmp6_fields (s : slice) : res fl :=
  let* t := Icmpv6A.type_u8 s in
  let* c := Icmpv6A.code_u8 s in
  let* k := Icmpv6A.checksum s in
  let* b := Icmpv6A.bytes5to8 s in
  Ok [(Ftype, FvN t); (Fcode, FvN c); (Fchecksum, FvN k); (Fbytes4to8, FvBytes b)].

(* ---- a whole SlicedPacket ------------------------------------------------------ *)
Definition link_fields (l : link_slice) : res layers :=
  match l with
  | LkEthernet2 s => let* f := eth_fields s in Ok [(LEth, f)]
  | LkLinuxSll h _ => let* f := sll_fields h in Ok [(LSll, f)]
  | LkEtherPayload _ => Ok []
  end.
Definition ext_fields (x : link_ext_slice) : res (ltag * fl) :=
  match x with
  | LeVlan s => let* f := vlan_fields s in Ok (LVlan, f)
  | LeMacsec m => let* f := macsec_fields (ms_header m) in Ok (LMacsec, f)
  end.
Definition net_fields (n : net_slice) : res layers :=
  match n with
  | NtIpv4 v =>
      let* f := ipv4_fields (v4_header v) in
      let* a := match v4_auth v with
                | Some a => let* g := ah_fields a in Ok [(LAuth, g)]
                | None => Ok []
                end in
      Ok ((LIpv4, f) :: a)
  | NtIpv6 v =>
      let* f := ipv6_fields (v6_header v) in
      let* items := Ipv6ExtIterA.items (v6_exts v) in
      let* xs := mapM item_fields items in
      Ok ((LIpv6, f) :: xs)
  | NtArp a => let* f := arp_fields a in Ok [(LArp, f)]
  end.
Definition transport_fields (t : transport_slice) : res layers :=
  match t with
  | TrUdp s => let* f := udp_fields s in Ok [(LUdp, f)]
  | TrTcp hl s => let* f := tcp_fields (hl, s) in Ok [(LTcp, f)]
  | TrIcmpv4 s => let* f := icmp4_fields s in Ok [(LIcmp4, f)]
  | TrIcmpv6 s => let* f := icmp6_fields s in Ok [(LIcmp6, f)]
  end.
Definition ropt {A} (f : A -> res layers) (o : option A) : res layers :=
  match o with Some a => f a | None => Ok [] end.

Definition fields_of_packet (p : sliced_packet) : res layers :=
  let* l := ropt link_fields (sp_link p) in
  let* x := mapM ext_fields (sp_exts p) in
  let* n := ropt net_fields (sp_net p) in
  let* t := ropt transport_fields (sp_transport p) in
  Ok (l ++ x ++ n ++ t).
