(* Parse/HdrProofs.v -- struct decoding (HdrModel.v) agrees with strict slicing
   cut at the first refilled IPv6 extension header (HdrCut.v), for every byte
   string; the cut variant is the strict slicing model unless it stopped. *)
From EP Require Import Base.Bytes Parse.Types Parse.Slices Parse.Cursor Parse.View
  Parse.WireSpec Parse.Repr Parse.StrictProofs Parse.HdrModel Parse.HdrView Parse.HdrCut.
From Coq Require Import ZArith Lia ZifyN ZifyBool.
Import SlicedPacketCursor.

Local Open Scope N_scope.

(* ====================================================================== *)
(* Part 1: with cut = false the Cut functions are the strict slicing model *)
(* ====================================================================== *)
Lemma cut_false_walk fuel : forall start_len rest nh fr f,
  Cut.walk false fuel start_len rest nh fr f = Ipv6ExtensionsSlice.walk fuel start_len rest nh fr.
Proof.
  induction fuel as [|fu IH]; intros; [reflexivity|].
  cbn [Cut.walk Ipv6ExtensionsSlice.walk andb].
  destruct (nh =? IPN_HOP_BY_HOP); [reflexivity|].
  destruct ((nh =? IPN_DEST_OPTIONS) || (nh =? IPN_ROUTE)).
  { destruct (subN start_len (s_len rest)); cbn [bind]; try reflexivity.
    destruct (map_len_err _ _); cbn [bind]; try reflexivity.
    destruct (subN _ _); cbn [bind]; try reflexivity.
    destruct (subU _ _ _); cbn [bind]; try reflexivity.
    destruct (Ipv6RawExtHeaderSlice.next_header _); cbn [bind]; try reflexivity. apply IH. }
  destruct (nh =? IPN_FRAG).
  { destruct (subN start_len (s_len rest)); cbn [bind]; try reflexivity.
    destruct (map_len_err _ _); cbn [bind]; try reflexivity.
    destruct (subN _ _); cbn [bind]; try reflexivity.
    destruct (subU _ _ _); cbn [bind]; try reflexivity.
    destruct (Ipv6FragmentHeaderSlice.next_header _); cbn [bind]; try reflexivity.
    destruct (Ipv6FragmentHeaderSlice.is_fragmenting_payload _); cbn [bind]; try reflexivity. apply IH. }
  destruct (nh =? IPN_AUTH); [|reflexivity].
  destruct (subN start_len (s_len rest)); cbn [bind]; try reflexivity.
  destruct (match IpAuthHeaderSlice.from_slice rest with Err (ELen e) => _ | Err (EContent _) => _ | r => r end);
    cbn [bind]; try reflexivity.
  destruct (subN _ _); cbn [bind]; try reflexivity.
  destruct (subU _ _ _); cbn [bind]; try reflexivity.
  destruct (IpAuthHeaderSlice.next_header _); cbn [bind]; try reflexivity. apply IH.
Qed.

Lemma cut_false_exts nh s : Cut.exts_from_slice false nh s = Ipv6ExtensionsSlice.from_slice nh s.
Proof.
  unfold Cut.exts_from_slice, Ipv6ExtensionsSlice.from_slice.
  destruct (if IPN_HOP_BY_HOP =? nh then _ else _) as [[r0 n0]|e|b]; cbn [bind]; try reflexivity.
  now rewrite cut_false_walk.
Qed.

Lemma cut_false_v6_finish s h : Cut.v6_finish false s h = Ipv6Slice.finish s h.
Proof.
  unfold Cut.v6_finish, Ipv6Slice.finish.
  destruct (Ipv6HeaderSlice.payload_length h); cbn [bind]; try reflexivity.
  destruct (if (0 =? a) && (40 <? s_len s) then _ else _) as [[hp src]|e|b]; cbn [bind]; try reflexivity.
  destruct (Ipv6HeaderSlice.next_header h); cbn [bind]; try reflexivity.
  now rewrite cut_false_exts.
Qed.

Lemma cut_false_v6 s : Cut.v6_from_slice false s = Ipv6Slice.from_slice s.
Proof.
  unfold Cut.v6_from_slice, Ipv6Slice.from_slice.
  destruct (Ipv6HeaderSlice.from_slice s); cbn [bind]; try reflexivity. apply cut_false_v6_finish.
Qed.

Lemma cut_false_ip s : Cut.ip_from_slice false s = IpSlice.from_slice s.
Proof.
  unfold Cut.ip_from_slice, IpSlice.from_slice.
  destruct (s_len s =? 0); [reflexivity|].
  destruct (rdU s 0); cbn [bind]; try reflexivity.
  destruct (N.shiftr a 4 =? 4); [reflexivity|].
  destruct (N.shiftr a 4 =? 6); [|reflexivity].
  destruct (s_len s <? 40); [reflexivity|].
  destruct (subU s 0 40); cbn [bind]; try reflexivity.
  now rewrite cut_false_v6_finish.
Qed.

Lemma cut_false_slice_ip c s : Cut.slice_ip false c s = slice_ip c s.
Proof. unfold Cut.slice_ip, slice_ip. now rewrite cut_false_ip. Qed.

Lemma cut_false_slice_ipv6 c s : Cut.slice_ipv6 false c s = slice_ipv6 c s.
Proof. unfold Cut.slice_ipv6, slice_ipv6. now rewrite cut_false_v6. Qed.

Lemma cut_false_loop fuel : forall c ep,
  Cut.slice_ether_type_loop false fuel c ep = slice_ether_type_loop fuel c ep.
Proof.
  induction fuel as [|f IH]; intros; [reflexivity|].
  cbn [Cut.slice_ether_type_loop slice_ether_type_loop].
  destruct (is_vlan_type (ep_ether_type ep)).
  { destruct (LINK_EXTS_CAP <=? _); [reflexivity|].
    destruct (map_len_err _ _); cbn [bind]; try reflexivity.
    destruct (SingleVlanSlice.payload _); cbn [bind]; try reflexivity.
    destruct (push_ext _ _ _ _); cbn [bind]; try reflexivity. apply IH. }
  destruct (ep_ether_type ep =? ET_MACSEC).
  { destruct (LINK_EXTS_CAP <=? _); [reflexivity|].
    destruct (map_len_err _ _); cbn [bind]; try reflexivity.
    destruct (Macsec.header_len _); cbn [bind]; try reflexivity.
    destruct (Macsec.short_len _); cbn [bind]; try reflexivity.
    destruct (push_ext _ _ _ _); cbn [bind]; try reflexivity.
    destruct (ms_payload a); [apply IH|reflexivity]. }
  destruct (ep_ether_type ep =? ET_ARP); [reflexivity|].
  destruct (ep_ether_type ep =? ET_IPV4); [reflexivity|].
  destruct (ep_ether_type ep =? ET_IPV6); [apply cut_false_slice_ipv6|reflexivity].
Qed.

Theorem cut_false_from_ethernet bs : Cut.from_ethernet false bs = SlicedPacket.from_ethernet bs.
Proof.
  unfold Cut.from_ethernet, SlicedPacket.from_ethernet, Cut.slice_ethernet2, slice_ethernet2,
    Cut.slice_ether_type, slice_ether_type.
  destruct (map_len_err _ _); cbn [bind]; try reflexivity.
  destruct (Ethernet2Slice.payload _); cbn [bind]; try reflexivity. apply cut_false_loop.
Qed.

Theorem cut_false_from_ether_type et bs :
  Cut.from_ether_type false et bs = SlicedPacket.from_ether_type et bs.
Proof. unfold Cut.from_ether_type, SlicedPacket.from_ether_type, Cut.slice_ether_type, slice_ether_type. apply cut_false_loop. Qed.

Theorem cut_false_from_ip bs : Cut.from_ip false bs = SlicedPacket.from_ip bs.
Proof. apply cut_false_slice_ip. Qed.

(* ====================================================================== *)
(* Part 2: the cut variant differs from the strict slicing model only by   *)
(* having stopped in front of a refilled extension header                  *)
(* ====================================================================== *)
Definition dich {A} (P : A -> Prop) (x y : res A) : Prop :=
  x = y \/ (exists v, x = Ok v /\ P v) \/ (exists b, x = Bug b).

Lemma refilled_ext f k : refilled f k = true -> is_ext_number k = true.
Proof.
  unfold refilled, is_ext_number.
  destruct (k =? IPN_DEST_OPTIONS); [reflexivity|].
  destruct (k =? IPN_ROUTE); [reflexivity|].
  destruct (k =? IPN_FRAG); [reflexivity|].
  destruct (k =? IPN_AUTH); [reflexivity|discriminate].
Qed.

Lemma dich_walk fuel : forall start rest nh fr f,
  dich (fun w => is_ext_number (snd (fst w)) = true)
       (Cut.walk true fuel start rest nh fr f) (Cut.walk false fuel start rest nh fr f).
Proof.
  induction fuel as [|fu IH]; intros; [now left|].
  cbn [Cut.walk andb].
  destruct (refilled f nh) eqn:Er.
  { right. left. eexists. split; [reflexivity|]. cbn. now apply (refilled_ext f). }
  destruct (nh =? IPN_HOP_BY_HOP); [now left|].
  destruct ((nh =? IPN_DEST_OPTIONS) || (nh =? IPN_ROUTE)).
  { destruct (subN start (s_len rest)); cbn [bind]; try (now left).
    destruct (map_len_err _ _); cbn [bind]; try (now left).
    destruct (subN _ _); cbn [bind]; try (now left).
    destruct (subU _ _ _); cbn [bind]; try (now left).
    destruct (Ipv6RawExtHeaderSlice.next_header _); cbn [bind]; try (now left). apply IH. }
  destruct (nh =? IPN_FRAG).
  { destruct (subN start (s_len rest)); cbn [bind]; try (now left).
    destruct (map_len_err _ _); cbn [bind]; try (now left).
    destruct (subN _ _); cbn [bind]; try (now left).
    destruct (subU _ _ _); cbn [bind]; try (now left).
    destruct (Ipv6FragmentHeaderSlice.next_header _); cbn [bind]; try (now left).
    destruct (Ipv6FragmentHeaderSlice.is_fragmenting_payload _); cbn [bind]; try (now left). apply IH. }
  destruct (nh =? IPN_AUTH); [|now left].
  destruct (subN start (s_len rest)); cbn [bind]; try (now left).
  destruct (match IpAuthHeaderSlice.from_slice rest with Err (ELen e) => _ | Err (EContent _) => _ | r => r end);
    cbn [bind]; try (now left).
  destruct (subN _ _); cbn [bind]; try (now left).
  destruct (subU _ _ _); cbn [bind]; try (now left).
  destruct (IpAuthHeaderSlice.next_header _); cbn [bind]; try (now left). apply IH.
Qed.

Lemma subN_cases a b : (exists v, subN a b = Ok v) \/ subN a b = Bug SITE_SUBTRACT.
Proof. unfold subN. destruct (b <=? a); eauto. Qed.

Lemma dich_exts nh s :
  dich (fun x => is_ext_number (snd (fst x)) = true)
       (Cut.exts_from_slice true nh s) (Cut.exts_from_slice false nh s).
Proof.
  unfold Cut.exts_from_slice.
  destruct (if IPN_HOP_BY_HOP =? nh then _ else _) as [[r0 n0]|e|b]; cbn [bind]; try (now left).
  destruct (dich_walk (S (length (snd s))) (s_len s) r0 n0 false fill_none) as [E|[(w & E & P)|(b & E)]].
  - left. now rewrite E.
  - rewrite E. cbn [bind]. destruct w as [[r k] fr]. cbn in P.
    destruct (subN_cases (s_len s) (s_len r)) as [(a & ->)| ->]; cbn [bind].
    + destruct (a <=? s_len s); cbn [bind].
      * right. left. eexists. split; [reflexivity|]. exact P.
      * right. right. eexists. reflexivity.
    + right. right. eexists. reflexivity.
  - rewrite E. right. right. eexists. reflexivity.
Qed.

Definition v6_ext (v : ipv6_slice) : Prop := is_ext_number (ipp_number (v6_payload v)) = true.

Lemma dich_v6_finish s h :
  dich v6_ext (Cut.v6_finish true s h) (Cut.v6_finish false s h).
Proof.
  unfold Cut.v6_finish.
  destruct (Ipv6HeaderSlice.payload_length h); cbn [bind]; try (now left).
  destruct (if (0 =? a) && (40 <? s_len s) then _ else _) as [[hp src]|e|b]; cbn [bind]; try (now left).
  destruct (Ipv6HeaderSlice.next_header h) as [nh|e|b]; cbn [bind]; try (now left).
  destruct (dich_exts nh hp) as [E|[(w & E & P)|(b & E)]].
  - left. now rewrite E.
  - rewrite E. destruct w as [[x k] r]. cbn in P. cbn [bind]. right. left. eexists. split; [reflexivity|exact P].
  - rewrite E. right. right. eexists. reflexivity.
Qed.

Lemma dich_v6 s : dich v6_ext (Cut.v6_from_slice true s) (Cut.v6_from_slice false s).
Proof.
  unfold Cut.v6_from_slice.
  destruct (Ipv6HeaderSlice.from_slice s); cbn [bind]; try (now left). apply dich_v6_finish.
Qed.

Lemma dich_ip s :
  dich (fun i => exists v, i = IpV6 v /\ v6_ext v) (Cut.ip_from_slice true s) (Cut.ip_from_slice false s).
Proof.
  unfold Cut.ip_from_slice.
  destruct (s_len s =? 0); [now left|].
  destruct (rdU s 0); cbn [bind]; try (now left).
  destruct (N.shiftr a 4 =? 4); [now left|].
  destruct (N.shiftr a 4 =? 6); [|now left].
  destruct (s_len s <? 40); [now left|].
  destruct (subU s 0 40) as [h|e|b]; cbn [bind]; try (now left).
  destruct (dich_v6_finish s h) as [E|[(w & E & P)|(b & E)]].
  - left. now rewrite E.
  - rewrite E. cbn [bind]. right. left. eexists. split; [reflexivity|]. eauto.
  - rewrite E. right. right. eexists. reflexivity.
Qed.

Lemma transport_dispatch_ext c p :
  is_ext_number (ipp_number p) = true -> transport_dispatch c p = Ok (c_result c).
Proof.
  unfold is_ext_number, transport_dispatch. intros H.
  destruct (ipp_fragmented p); [reflexivity|].
  destruct (ipp_number p =? IPN_ICMP) eqn:E1; [apply N.eqb_eq in E1; rewrite E1 in H; discriminate H|].
  destruct (ipp_number p =? IPN_UDP) eqn:E2; [apply N.eqb_eq in E2; rewrite E2 in H; discriminate H|].
  destruct (ipp_number p =? IPN_TCP) eqn:E3; [apply N.eqb_eq in E3; rewrite E3 in H; discriminate H|].
  destruct (ipp_number p =? IPN_ICMPV6) eqn:E4; [apply N.eqb_eq in E4; rewrite E4 in H; discriminate H|].
  reflexivity.
Qed.

Definition sp_stopped (sp : sliced_packet) : Prop := stopped_at_ext (Ok sp) = true.

Lemma dich_slice_ipv6 c s :
  dich sp_stopped (Cut.slice_ipv6 true c s) (Cut.slice_ipv6 false c s).
Proof.
  unfold Cut.slice_ipv6.
  destruct (dich_v6 s) as [E|[(v & E & P)|(b & E)]].
  - left. now rewrite E.
  - rewrite E. cbn [map_len_err bind]. unfold ptr_diff.
    destruct (subN_cases (s_off (ipp_slice (v6_payload v))) (s_off s)) as [(d & ->)| ->]; cbn [bind].
    + rewrite transport_dispatch_ext by exact P. right. left. eexists. split; [reflexivity|].
      unfold sp_stopped, stopped_at_ext. cbn. exact P.
    + right. right. eexists. reflexivity.
  - rewrite E. right. right. eexists. reflexivity.
Qed.

Lemma dich_slice_ip c s :
  dich sp_stopped (Cut.slice_ip true c s) (Cut.slice_ip false c s).
Proof.
  unfold Cut.slice_ip.
  destruct (dich_ip s) as [E|[(i & E & (v & -> & P))|(b & E)]].
  - left. now rewrite E.
  - rewrite E. cbn [map_len_err bind IpSlice.payload]. unfold ptr_diff.
    destruct (subN_cases (s_off (ipp_slice (v6_payload v))) (s_off s)) as [(d & ->)| ->]; cbn [bind].
    + rewrite transport_dispatch_ext by exact P. right. left. eexists. split; [reflexivity|].
      unfold sp_stopped, stopped_at_ext. cbn. exact P.
    + right. right. eexists. reflexivity.
  - rewrite E. right. right. eexists. reflexivity.
Qed.

Lemma dich_loop fuel : forall c ep,
  dich sp_stopped (Cut.slice_ether_type_loop true fuel c ep) (Cut.slice_ether_type_loop false fuel c ep).
Proof.
  induction fuel as [|f IH]; intros; [now left|].
  cbn [Cut.slice_ether_type_loop].
  destruct (is_vlan_type (ep_ether_type ep)).
  { destruct (LINK_EXTS_CAP <=? _); [now left|].
    destruct (map_len_err _ _); cbn [bind]; try (now left).
    destruct (SingleVlanSlice.payload _); cbn [bind]; try (now left).
    destruct (push_ext _ _ _ _); cbn [bind]; try (now left). apply IH. }
  destruct (ep_ether_type ep =? ET_MACSEC).
  { destruct (LINK_EXTS_CAP <=? _); [now left|].
    destruct (map_len_err _ _); cbn [bind]; try (now left).
    destruct (Macsec.header_len _); cbn [bind]; try (now left).
    destruct (Macsec.short_len _); cbn [bind]; try (now left).
    destruct (push_ext _ _ _ _); cbn [bind]; try (now left).
    destruct (ms_payload a); [apply IH|now left]. }
  destruct (ep_ether_type ep =? ET_ARP); [now left|].
  destruct (ep_ether_type ep =? ET_IPV4); [now left|].
  destruct (ep_ether_type ep =? ET_IPV6); [apply dich_slice_ipv6|now left].
Qed.

Lemma dich_done (x y : res sliced_packet) :
  dich sp_stopped x y -> stopped_at_ext x = false -> (forall b, x <> Bug b) -> x = y.
Proof.
  intros [E|[(v & E & P)|(b & E)]] Hs Hb; [exact E| |].
  - rewrite E in Hs. unfold sp_stopped in P. congruence.
  - now destruct (Hb b).
Qed.

Theorem cut_only_when_stopped_ethernet bs :
  stopped_at_ext (Cut.from_ethernet true bs) = false -> (forall b, Cut.from_ethernet true bs <> Bug b) ->
  Cut.from_ethernet true bs = SlicedPacket.from_ethernet bs.
Proof.
  intros Hs Hb. rewrite <- cut_false_from_ethernet. apply dich_done; auto.
  unfold Cut.from_ethernet, Cut.slice_ethernet2, Cut.slice_ether_type.
  destruct (map_len_err _ _); cbn [bind]; try (now left).
  destruct (Ethernet2Slice.payload _); cbn [bind]; try (now left). apply dich_loop.
Qed.

Theorem cut_only_when_stopped_ether_type et bs :
  stopped_at_ext (Cut.from_ether_type true et bs) = false -> (forall b, Cut.from_ether_type true et bs <> Bug b) ->
  Cut.from_ether_type true et bs = SlicedPacket.from_ether_type et bs.
Proof.
  intros Hs Hb. rewrite <- cut_false_from_ether_type. apply dich_done; auto. apply dich_loop.
Qed.

Theorem cut_only_when_stopped_ip bs :
  stopped_at_ext (Cut.from_ip true bs) = false -> (forall b, Cut.from_ip true bs <> Bug b) ->
  Cut.from_ip true bs = SlicedPacket.from_ip bs.
Proof.
  intros Hs Hb. rewrite <- cut_false_from_ip. apply dich_done; auto. apply dich_slice_ip.
Qed.

(* ====================================================================== *)
(* Part 3: struct decoding = cut slicing, layer by layer                   *)
(* ====================================================================== *)

(* ---- slices -------------------------------------------------------------- *)
Lemma take_all {A} n (l : list A) : len l <= n -> take n l = l.
Proof. intros H. unfold take. apply firstn_all2. unfold len in H. lia. Qed.

Lemma idx_from_eq s k : k <= s_len s -> idx_from s k = Ok (fst s + k, drop k (snd s)).
Proof. intros H. unfold idx_from. destruct (k <=? s_len s) eqn:E; [reflexivity|lia]. Qed.

Lemma subU_rest s k : k <= s_len s -> subU s k (s_len s - k) = Ok (fst s + k, drop k (snd s)).
Proof.
  intros H. rewrite subU_eq by lia. f_equal. f_equal.
  apply take_all. rewrite len_drop. unfold s_len. lia.
Qed.

Lemma s_len_sub o s k n : k + n <= s_len s -> s_len (o, take n (drop k (snd s))) = n.
Proof. intros H. unfold s_len in *. cbn [snd]. rewrite len_take, len_drop. lia. Qed.

Lemma s_len_drop o s k : s_len (o, drop k (snd s)) = s_len s - k.
Proof. unfold s_len. cbn [snd]. apply len_drop. Qed.

Lemma subU_inv s k n h :
  subU s k n = Ok h -> k + n <= s_len s /\ h = (fst s + k, take n (drop k (snd s))).
Proof.
  unfold subU. destruct (k + n <=? s_len s) eqn:E; [|discriminate].
  intros H. injection H as <-. split; [lia|reflexivity].
Qed.

Lemma subU_len s k n h : subU s k n = Ok h -> s_len h = n /\ s_off h = s_off s + k /\ k + n <= s_len s.
Proof.
  intros H. apply subU_inv in H. destruct H as (L & ->). split; [now apply s_len_sub|]. split; [reflexivity|exact L].
Qed.

Lemma rdU_ok s i : i < s_len s -> exists v, rdU s i = Ok v.
Proof.
  intros H. unfold rdU. destruct (rd_lt_Some (snd s) i H) as (v & ->). eauto.
Qed.

Lemma rdU_byte s i v : bytes_ok (snd s) -> rdU s i = Ok v -> v < 256.
Proof.
  unfold rdU. intros Hok. destruct (rd (snd s) i) eqn:E; [|discriminate].
  intros H. injection H as <-. eapply rd_ok; eauto.
Qed.

Lemma rd16_ok s i : i + 1 < s_len s -> exists v, rd16 s i = Ok v.
Proof.
  intros H. unfold rd16.
  destruct (rdU_ok s i) as (a & ->); [lia|]. destruct (rdU_ok s (i + 1)) as (b & ->); [lia|].
  cbn. eauto.
Qed.

(* reading inside a prefix is reading the slice *)
Lemma rd_prefix (l : bytes) n i : i < n -> rd (take n l) i = rd l i.
Proof. intros H. unfold rd, take. apply nth_error_firstn_lt. lia. Qed.

Lemma rd16_prefix o s n i :
  i + 1 < n -> rd16 (o, take n (drop 0 (snd s))) i = rd16 s i.
Proof.
  intros H. unfold rd16, rdU. cbn [snd]. rewrite drop0.
  rewrite !rd_prefix by lia. reflexivity.
Qed.

Lemma bytes_ok_sub s k n h : bytes_ok (snd s) -> subU s k n = Ok h -> bytes_ok (snd h).
Proof.
  intros Hok H. apply subU_inv in H. destruct H as (_ & ->). cbn [snd].
  apply bytes_ok_take. now apply bytes_ok_drop.
Qed.

Ltac rdok s i :=
  let v := fresh "v" in let E := fresh "E" in
  destruct (rdU_ok s i) as (v & E); [lia|]; rewrite E; cbn [bind].

(* ---- what the shared single-layer slicers return --------------------------- *)
Lemma v4hdr_shape s :
  match Ipv4HeaderSlice.from_slice s with
  | Ok h => 20 <= s_len h /\ s_len h <= s_len s /\ s_off h = s_off s /\ subU s 0 (s_len h) = Ok h
  | Err _ => True
  | Bug _ => False
  end.
Proof.
  unfold Ipv4HeaderSlice.from_slice.
  destruct (s_len s <? 20) eqn:E20; [exact I|].
  rdok s 0.
  destruct (negb (N.shiftr v 4 =? 4)); [exact I|].
  destruct (N.land v 15 <? 5) eqn:Ei; [exact I|].
  destruct (s_len s <? N.land v 15 * 4) eqn:El; [exact I|].
  rewrite subU_eq by lia.
  rewrite s_len_sub by lia. rewrite subU_eq by lia.
  repeat split; try lia. unfold s_off; cbn [fst]; lia.
Qed.

Lemma v6hdr_shape s :
  match Ipv6HeaderSlice.from_slice s with
  | Ok h => s_len h = 40 /\ 40 <= s_len s /\ s_off h = s_off s /\ subU s 0 40 = Ok h
  | Err _ => True
  | Bug _ => False
  end.
Proof.
  unfold Ipv6HeaderSlice.from_slice.
  destruct (s_len s <? 40) eqn:E; [exact I|].
  rdok s 0.
  destruct (negb (N.shiftr v 4 =? 6)); [exact I|].
  rewrite subU_eq by lia. rewrite s_len_sub by lia.
  repeat split; try lia. unfold s_off; cbn [fst]; lia.
Qed.

Lemma auth_shape s : bytes_ok (snd s) ->
  match IpAuthHeaderSlice.from_slice s with
  | Ok a => 12 <= s_len a /\ s_len a <= s_len s /\ s_off a = s_off s /\ auth_to_header a = Ok a
            /\ bytes_ok (snd a)
  | Err _ => True
  | Bug _ => False
  end.
Proof.
  intros Hok. unfold IpAuthHeaderSlice.from_slice.
  destruct (s_len s <? 12) eqn:E; [exact I|].
  rdok s 1. pose proof (rdU_byte s 1 v Hok E0) as Hv.
  destruct (v <? 1) eqn:E1; [exact I|].
  destruct (s_len s <? (v + 2) * 4) eqn:El; [exact I|].
  pose proof (subU_eq s 0 ((v + 2) * 4) ltac:(lia)) as Es. rewrite Es.
  rewrite s_len_sub by lia.
  split; [lia|]. split; [lia|]. split; [unfold s_off; cbn [fst]; lia|]. split.
  - unfold auth_to_header. rewrite s_len_sub by lia. rewrite subN_ok by lia. cbn [bind].
    replace ((v + 2) * 4 - 12) with ((v - 1) * 4) by lia.
    rewrite N.mod_mul by lia.
    destruct (1016 <? (v - 1) * 4) eqn:Eb; [lia|]. reflexivity.
  - eapply bytes_ok_sub; eauto.
Qed.

Lemma raw_shape s : bytes_ok (snd s) ->
  match Ipv6RawExtHeaderSlice.from_slice s with
  | Ok x => 8 <= s_len x /\ s_len x <= s_len s /\ s_off x = s_off s /\ raw_ext_to_header x = Ok x
  | Err _ => True
  | Bug _ => False
  end.
Proof.
  intros Hok. unfold Ipv6RawExtHeaderSlice.from_slice.
  destruct (s_len s <? 8) eqn:E; [exact I|].
  destruct (rd_lt_Some (snd s) 1) as (v & Ev); [unfold s_len in E; lia|]. rewrite Ev. cbn [bind].
  pose proof (rd_ok (snd s) 1 v Hok Ev) as Hv.
  destruct (s_len s <? (v + 1) * 8) eqn:El; [exact I|].
  rewrite subU_eq by lia. rewrite s_len_sub by lia.
  split; [lia|]. split; [lia|]. split; [unfold s_off; cbn [fst]; lia|].
  unfold raw_ext_to_header. rewrite s_len_sub by lia. rewrite subN_ok by lia. cbn [bind].
  replace ((v + 1) * 8 - 2 + 2) with ((v + 1) * 8) by lia.
  rewrite N.mod_mul by lia.
  destruct ((v + 1) * 8 - 2 <? 6) eqn:E6; [lia|].
  destruct (2046 <? (v + 1) * 8 - 2) eqn:E7; [lia|]. reflexivity.
Qed.

Lemma frag_shape s :
  match Ipv6FragmentHeaderSlice.from_slice s with
  | Ok x => s_len x = 8 /\ 8 <= s_len s /\ s_off x = s_off s
  | Err _ => True
  | Bug _ => False
  end.
Proof.
  unfold Ipv6FragmentHeaderSlice.from_slice.
  destruct (s_len s <? 8) eqn:E; [exact I|].
  rewrite subU_eq by lia. rewrite s_len_sub by lia. repeat split; try lia. unfold s_off; cbn [fst]; lia.
Qed.

Lemma frag_is_fragmenting_ok x : s_len x = 8 ->
  exists b, Ipv6FragmentHeaderSlice.is_fragmenting_payload x = Ok b.
Proof.
  intros H. unfold Ipv6FragmentHeaderSlice.is_fragmenting_payload,
    Ipv6FragmentHeaderSlice.more_fragments, Ipv6FragmentHeaderSlice.fragment_offset.
  rdok x 3. rdok x 2. eauto.
Qed.

(* ---- windows --------------------------------------------------------------- *)
Lemma win_sub o s k n : k + n <= s_len s -> win_of (o, take n (drop k (snd s))) = (o, n).
Proof. intros H. unfold win_of. rewrite (s_len_sub o s k n H). reflexivity. Qed.

Lemma win_take o s n : n <= s_len s -> win_of (o, take n (snd s)) = (o, n).
Proof. intros H. change (snd s) with (drop 0 (snd s)). apply win_sub. lia. Qed.

Lemma win_drop o s k : win_of (o, drop k (snd s)) = (o, s_len s - k).
Proof. unfold win_of. now rewrite s_len_drop. Qed.

(* ---- transport -------------------------------------------------------------- *)
Definition shift (o : N) (e : slice_error) : slice_error :=
  match e with ELen l => ELen (le_add_offset l o) | c => c end.

Lemma tr_fix_eq c p e : c_src c = ipp_src p ->
  tr_fix c e = le_add_offset (add_len_source p e) (c_offset c).
Proof.
  intros H. unfold tr_fix, add_len_source. destruct e as [r l sr ly o]. cbn.
  destruct sr; cbn; rewrite ?H; reflexivity.
Qed.

Lemma icmp4_shape s :
  match Icmpv4Slice.from_slice s with
  | Ok r => r = s /\ exists hl, Icmpv4Acc.header_len s = Ok hl /\ 8 <= hl /\ hl <= s_len s
  | Err _ => True
  | Bug _ => False
  end.
Proof.
  unfold Icmpv4Slice.from_slice, Icmpv4Acc.header_len.
  destruct (s_len s <? 8) eqn:E8; [exact I|].
  rdok s 0. rdok s 1.
  destruct (v =? 13) eqn:A; destruct (v =? 14) eqn:B; destruct (0 =? v0) eqn:C;
    destruct (20 =? s_len s) eqn:D; cbn; try exact I;
    (split; [reflexivity|]; eexists; split; [reflexivity|]; lia).
Qed.

Definition tr_rel (c : cursor) (p : ip_payload)
  (h : res (option htransport * hpayload)) (s : res sliced_packet) : Prop :=
  match h, s with
  | Ok (t, pl), Ok sp =>
      sp_link sp = sp_link (c_result c) /\ sp_exts sp = sp_exts (c_result c) /\
      sp_net sp = sp_net (c_result c) /\
      match sp_transport sp with
      | Some ts => exists t', t = Some t' /\ conv_tr ts = Ok (hview_tr t', hview_payload pl)
      | None => t = None /\ pl = HpIp p
      end
  | Err eh, Err es => es = shift (c_offset c) eh
  | _, _ => False
  end.

Ltac tr_ok :=
  unfold tr_rel, set_transport; cbn [sp_link sp_exts sp_net sp_transport map_len_err bind fst snd];
  repeat split; eexists; (split; [reflexivity|]); cbn [conv_tr hview_tr hview_payload].

Ltac tr_err Hsrc :=
  unfold lerr, tr_rel; cbn [map_len_err bind shift]; rewrite (tr_fix_eq _ _ _ Hsrc); reflexivity.

Lemma transport_agree c p :
  c_src c = ipp_src p -> sp_transport (c_result c) = None ->
  tr_rel c p (read_transport p) (transport_dispatch c p).
Proof.
  intros Hsrc Hnone. unfold read_transport, transport_dispatch.
  destruct (ipp_fragmented p).
  { cbn. rewrite Hnone. repeat split. }
  destruct (ipp_number p =? IPN_ICMP) eqn:E1.
  { unfold slice_icmp4. pose proof (icmp4_shape (ipp_slice p)) as Sh.
    destruct (Icmpv4Slice.from_slice (ipp_slice p)) as [r|[l|ce]|b]; cbn [map_len_err bind]; try contradiction.
    - destruct Sh as (-> & hl & Ehl & H8 & Hl).
      unfold Icmpv4Acc.header, Icmpv4Acc.payload. rewrite Ehl. cbn [bind].
      rewrite subU_eq by lia. rewrite subN_ok by lia. cbn [bind]. rewrite subU_eq by lia. cbn [bind].
      tr_ok. rewrite Ehl. cbn [bind].
      rewrite ?win_take by lia. rewrite ?win_sub by lia.
      unfold s_off. rewrite N.add_0_r. reflexivity.
    - unfold tr_rel; cbn [shift]. now rewrite (tr_fix_eq c p l Hsrc).
    - reflexivity. }
  assert (N1 : forall X Y : res sliced_packet, (if ipp_number p =? IPN_ICMP then X else Y) = Y) by (now rewrite E1).
  destruct (ipp_number p =? IPN_ICMPV6) eqn:E4.
  { assert (E2 : (ipp_number p =? IPN_UDP) = false).
    { apply N.eqb_eq in E4. rewrite E4. reflexivity. }
    assert (E3 : (ipp_number p =? IPN_TCP) = false).
    { apply N.eqb_eq in E4. rewrite E4. reflexivity. }
    rewrite E2, E3. unfold slice_icmp6, Icmpv6Slice.from_slice, Icmpv6Slice.MAX_LEN.
    destruct (s_len (ipp_slice p) <? 8) eqn:E8.
    { tr_err Hsrc. }
    destruct (4294967295 <? s_len (ipp_slice p)) eqn:Em.
    { tr_err Hsrc. }
    cbn [map_len_err bind]. unfold Icmpv6Acc.header, Icmpv6Acc.payload.
    rewrite subU_eq by lia. rewrite subN_ok by lia. cbn [bind]. rewrite subU_eq by lia. cbn [bind].
    tr_ok.
    rewrite ?win_take by lia. rewrite ?win_sub by lia.
    unfold s_off. rewrite N.add_0_r. reflexivity. }
  destruct (ipp_number p =? IPN_UDP) eqn:E2.
  { unfold slice_udp.
    assert (Sh : match UdpSlice.from_slice (ipp_slice p) with
                 | Ok u => 8 <= s_len u | Err _ => True | Bug _ => False end).
    { unfold UdpSlice.from_slice, UdpSlice.header_from_slice, UdpSlice.length.
      destruct (s_len (ipp_slice p) <? 8) eqn:E8; [exact I|].
      rewrite subU_eq by lia. cbn [bind].
      destruct (rd16_ok (fst (ipp_slice p) + 0, take 8 (drop 0 (snd (ipp_slice p)))) 4) as (l & El).
      { rewrite s_len_sub by lia. lia. }
      rewrite El. cbn [bind].
      destruct (s_len (ipp_slice p) <? l) eqn:E9; [exact I|].
      destruct (l =? 0) eqn:E0; [lia|].
      destruct (l <? 8) eqn:E7; [exact I|].
      rewrite subU_eq by lia. rewrite s_len_sub by lia. lia. }
    destruct (UdpSlice.from_slice (ipp_slice p)) as [u|[l|ce]|b]; cbn [map_len_err bind]; try contradiction.
    - unfold UdpAcc.to_header, UdpAcc.payload.
      rewrite subU_eq by lia. rewrite subN_ok by lia. cbn [bind]. rewrite subU_eq by lia. cbn [bind].
      tr_ok.
      rewrite ?win_take by lia. rewrite ?win_sub by lia.
      unfold s_off. rewrite N.add_0_r. reflexivity.
    - unfold tr_rel; cbn [shift]. now rewrite (tr_fix_eq c p l Hsrc).
    - reflexivity. }
  destruct (ipp_number p =? IPN_TCP) eqn:E3; [|cbn; rewrite Hnone; repeat split].
  unfold slice_tcp, TcpHeader.from_slice, TcpHeaderSlice.from_slice, TcpSlice.from_slice.
  set (s := ipp_slice p).
  destruct (s_len s <? 20) eqn:E20.
  { tr_err Hsrc. }
  rdok s 12.
  set (hl := N.shiftr (N.land v 240) 2).
  destruct (hl <? 20) eqn:Eh; [reflexivity|].
  destruct (s_len s <? hl) eqn:El.
  { tr_err Hsrc. }
  rewrite subU_eq by lia. cbn [bind map_len_err].
  rewrite s_len_sub by lia. rewrite idx_from_eq by lia. cbn [bind map_len_err fst snd].
  tr_ok.
  rewrite ?win_take by lia. rewrite ?win_sub by lia. rewrite win_drop.
  unfold s_off. rewrite N.add_0_r. reflexivity.
Qed.

(* ---- IPv4 ------------------------------------------------------------------- *)
Lemma v4_accessors h : 20 <= s_len h ->
  (exists fr, Ipv4HeaderSlice.is_fragmenting_payload h = Ok fr) /\
  (exists pr, Ipv4HeaderSlice.protocol h = Ok pr) /\
  (exists tl, Ipv4HeaderSlice.total_len h = Ok tl).
Proof.
  intros H. split; [|split].
  - unfold Ipv4HeaderSlice.is_fragmenting_payload, Ipv4HeaderSlice.more_fragments,
      Ipv4HeaderSlice.fragments_offset.
    rdok h 6. rdok h 7. eauto.
  - unfold Ipv4HeaderSlice.protocol. rdok h 9. eauto.
  - unfold Ipv4HeaderSlice.total_len. apply rd16_ok. lia.
Qed.

Definition ip4_rel (s : slice) (h : res (ip_headers * ip_payload)) (r : res ipv4_slice) : Prop :=
  match h, r with
  | Ok (ih, p), Ok v =>
      ih = IhV4 (v4_header v) (v4_auth v) /\ p = v4_payload v /\ s_off s <= s_off (ipp_slice p)
  | Err e, Err e' => e = e'
  | _, _ => False
  end.

Lemma v4_exts_agree header hp :
  bytes_ok (snd hp) -> 20 <= s_len header ->
  ip4_rel hp (IpHeaders.v4_exts header hp) (Ipv4Slice.finish header hp).
Proof.
  intros Hok H20. unfold IpHeaders.v4_exts, Ipv4Slice.finish, Ipv4Extensions.from_slice.
  destruct (v4_accessors header H20) as ((fr & Efr) & (pr & Epr) & _).
  rewrite Efr, Epr. cbn [bind]. rewrite (N.eqb_sym IPN_AUTH pr).
  destruct (pr =? IPN_AUTH).
  - pose proof (auth_shape hp Hok) as Sh.
    destruct (IpAuthHeaderSlice.from_slice hp) as [a|[l|ce]|b]; cbn [bind]; try contradiction.
    + destruct Sh as (A12 & Ale & Aoff & Ath & _).
      rewrite idx_from_eq by lia. rewrite subN_ok by lia. cbn [bind].
      rewrite subU_rest by lia. cbn [bind].
      unfold IpAuthHeaderSlice.next_header. rdok a 0. rewrite Ath. cbn [bind]. rewrite ?Efr. cbn [bind].
      unfold ip4_rel. cbn [v4_header v4_auth v4_payload ipp_slice]. repeat split.
      unfold s_off. cbn [fst]. lia.
    + reflexivity.
    + reflexivity.
  - cbn [bind]. rewrite ?Efr. cbn [bind]. unfold ip4_rel. cbn [v4_header v4_auth v4_payload ipp_slice].
    repeat split. lia.
Qed.

Lemma drop_drop0 {A} (l : list A) k : drop 0 (drop k l) = drop k l.
Proof. reflexivity. Qed.

Lemma ip4_rel_mono s s' h r : s_off s <= s_off s' -> ip4_rel s' h r -> ip4_rel s h r.
Proof.
  unfold ip4_rel. intros L. destruct h as [[ih p]|e|b]; destruct r as [v|e'|b']; auto.
  intros (A & B & C). repeat split; auto. lia.
Qed.

Lemma v4_agree s : bytes_ok (snd s) ->
  ip4_rel s (IpHeaders.from_ipv4_slice s) (Ipv4Slice.from_slice s).
Proof.
  intros Hok. unfold IpHeaders.from_ipv4_slice, Ipv4Slice.from_slice, Ipv4Header.from_slice.
  pose proof (v4hdr_shape s) as Sh.
  destruct (Ipv4HeaderSlice.from_slice s) as [h|e|b]; cbn [bind]; try contradiction; [|reflexivity].
  destruct Sh as (H20 & Hle & Hoff & Hsub).
  rewrite idx_from_eq by lia. cbn [bind].
  destruct (v4_accessors h H20) as (_ & _ & (tl & Etl)). rewrite Etl. cbn [bind].
  destruct (tl <? s_len h) eqn:E1.
  { destruct (s_len h <=? tl) eqn:E1'; [lia|]. reflexivity. }
  destruct (s_len h <=? tl) eqn:E1'; [|lia].
  rewrite subN_ok by lia. cbn [bind]. rewrite s_len_drop.
  destruct (s_len s <? tl) eqn:E2.
  { destruct (s_len s - s_len h <? tl - s_len h) eqn:E2'; [|lia]. reflexivity. }
  destruct (s_len s - s_len h <? tl - s_len h) eqn:E2'; [lia|].
  rewrite (subU_eq (fst s + s_len h, drop (s_len h) (snd s)) 0 (tl - s_len h))
    by (rewrite s_len_drop; lia).
  rewrite subU_eq by lia. cbn [bind fst snd]. rewrite drop_drop0, N.add_0_r.
  eapply ip4_rel_mono; [|apply v4_exts_agree; auto].
  - unfold s_off. cbn [fst]. lia.
  - cbn [snd]. apply bytes_ok_take. now apply bytes_ok_drop.
Qed.

(* ---- IPv6 extension chain ----------------------------------------------------- *)
Definition inv6 (base : slice) (x : exts6) (fl : fill) (fr : bool) (rest : slice) : Prop :=
  f_dest fl = is_some (x_dest x) /\ f_route fl = is_some (x_route x) /\
  f_fdest fl = is_some (x_fdest x) /\ f_frag fl = is_some (x_frag x) /\
  f_auth fl = is_some (x_auth x) /\
  Ipv6Extensions.is_fragmenting_payload x = Ok fr /\
  exts6_len x + s_len rest = s_len base /\
  exts6_any x = (0 <? exts6_len x) /\
  s_off rest = s_off base + exts6_len x /\
  (x_route x = None -> x_fdest x = None).

Definition walk_rel (base : slice) (h : res (exts6 * N * slice)) (s : res (slice * N * bool)) : Prop :=
  match h, s with
  | Ok (x', nh', r'), Ok (r'', nh'', fr'') =>
      r'' = r' /\ nh'' = nh' /\ (exists fl', inv6 base x' fl' fr'' r') /\ bytes_ok (snd r')
  | Err e, Err e' => e = e'
  | _, _ => False
  end.

Lemma bytes_ok_rest (o : N) (s : slice) k : bytes_ok (snd s) -> bytes_ok (@snd N bytes (o, drop k (snd s))).
Proof. intros H. cbn [snd]. now apply bytes_ok_drop. Qed.

(* `lia` is slow (20 s per call) when the context holds the boolean equations between the
   fill flags and the struct's slots (ZifyBool case-splits on them): they never matter for
   the arithmetic goals below, so they are cleared first (locally to the goal `lia` sees) *)
Ltac clear_slots :=
  repeat match goal with
         | H : f_dest _ = _ |- _ => clear H
         | H : f_route _ = _ |- _ => clear H
         | H : f_fdest _ = _ |- _ => clear H
         | H : f_frag _ = _ |- _ => clear H
         | H : f_auth _ = _ |- _ => clear H
         end.
Ltac qlia := clear_slots; lia.
Ltac rdokq s i :=
  let v := fresh "v" in let E := fresh "E" in
  destruct (rdU_ok s i) as (v & E); [qlia|]; rewrite E; cbn [bind].

Lemma walk_agree fuel : forall base x rest nh fl fr,
  inv6 base x fl fr rest -> bytes_ok (snd rest) -> (N.to_nat (s_len rest) < fuel)%nat ->
  walk_rel base (Ipv6Extensions.loop fuel base x rest nh)
                (Cut.walk true fuel (s_len base) rest nh fr fl).
Proof.
  induction fuel as [|f IH]; intros base x rest nh fl fr Hinv Hok Hfuel; [qlia|].
  pose proof Hinv as (I1 & I2 & I3 & I4 & I5 & I6 & I7 & I8 & I9 & I10).
  assert (Stop : walk_rel base (Ok (x, nh, rest)) (Ok (rest, nh, fr))).
  { unfold walk_rel. split; [reflexivity|]. split; [reflexivity|]. split; [now exists fl|assumption]. }
  assert (Hle : s_len rest <= s_len base) by qlia.
  clear Hinv.
  cbn [Ipv6Extensions.loop Cut.walk andb].
  destruct (nh =? IPN_HOP_BY_HOP) eqn:E0.
  { assert (R : refilled fl nh = false) by (apply N.eqb_eq in E0; subst nh; reflexivity).
    rewrite R. reflexivity. }
  unfold refilled.
  destruct (nh =? IPN_DEST_OPTIONS) eqn:E60.
  { cbn [orb]. rewrite I2.
    destruct (x_route x) as [rt|] eqn:Ert; cbn [is_some].
    - rewrite I3. destruct (x_fdest x) as [fd|] eqn:Efd; cbn [is_some]; [exact Stop|].
      unfold Ipv6Extensions.raw_step.
      rewrite (subN_ok _ _ Hle). cbn [bind].
      pose proof (raw_shape rest Hok) as Sh.
      destruct (Ipv6RawExtHeaderSlice.from_slice rest) as [sl|[l|ce]|b]; cbn [map_len_err bind];
        try contradiction; [|reflexivity|reflexivity].
      destruct Sh as (S8 & Sle & Soff & Sth).
      rewrite (idx_from_eq _ _ Sle). rewrite (subN_ok _ _ Sle). cbn [bind]. rewrite (subU_rest _ _ Sle). cbn [bind].
      unfold Ipv6RawExtHeaderSlice.next_header. rdokq sl 0. rewrite Sth. cbn [bind].
      apply IH; [|now apply bytes_ok_rest|rewrite s_len_drop; qlia].
      unfold inv6, fill_add, exts6_len, exts6_any, Ipv6Extensions.is_fragmenting_payload in *.
      rewrite E60, I2. cbn [is_some].
      cbn [f_dest f_route f_fdest f_frag f_auth x_hbh x_dest x_route x_fdest x_frag x_auth is_some olen] in *.
      rewrite Ert, Efd in *. cbn [is_some olen orb] in *. rewrite s_len_drop.
      repeat split; auto; try qlia.
      all: try (intros; discriminate). all: try (unfold s_off in *; cbn [fst]; qlia).
      all: try (rewrite ?Bool.orb_true_r; cbn [orb]; destruct (0 <? _) eqn:Z; [reflexivity|qlia]).
    - rewrite I1. destruct (x_dest x) as [d|] eqn:Ed; cbn [is_some]; [exact Stop|].
      unfold Ipv6Extensions.raw_step.
      rewrite (subN_ok _ _ Hle). cbn [bind].
      pose proof (raw_shape rest Hok) as Sh.
      destruct (Ipv6RawExtHeaderSlice.from_slice rest) as [sl|[l|ce]|b]; cbn [map_len_err bind];
        try contradiction; [|reflexivity|reflexivity].
      destruct Sh as (S8 & Sle & Soff & Sth).
      rewrite (idx_from_eq _ _ Sle). rewrite (subN_ok _ _ Sle). cbn [bind]. rewrite (subU_rest _ _ Sle). cbn [bind].
      unfold Ipv6RawExtHeaderSlice.next_header. rdokq sl 0. rewrite Sth. cbn [bind].
      apply IH; [|now apply bytes_ok_rest|rewrite s_len_drop; qlia].
      unfold inv6, fill_add, exts6_len, exts6_any, Ipv6Extensions.is_fragmenting_payload in *.
      rewrite E60, I2. cbn [is_some].
      cbn [f_dest f_route f_fdest f_frag f_auth x_hbh x_dest x_route x_fdest x_frag x_auth is_some olen] in *.
      rewrite Ert, Ed in *. cbn [is_some olen orb] in *. rewrite s_len_drop.
      repeat split; auto; try qlia.
      all: try (intros; discriminate). all: try (unfold s_off in *; cbn [fst]; qlia).
      all: try (rewrite ?Bool.orb_true_r; cbn [orb]; destruct (0 <? _) eqn:Z; [reflexivity|qlia]). }
  destruct (nh =? IPN_ROUTE) eqn:E43.
  { cbn [orb]. rewrite I2.
    destruct (x_route x) as [rt|] eqn:Ert; cbn [is_some]; [exact Stop|].
    unfold Ipv6Extensions.raw_step.
      rewrite (subN_ok _ _ Hle). cbn [bind].
      pose proof (raw_shape rest Hok) as Sh.
      destruct (Ipv6RawExtHeaderSlice.from_slice rest) as [sl|[l|ce]|b]; cbn [map_len_err bind];
        try contradiction; [|reflexivity|reflexivity].
      destruct Sh as (S8 & Sle & Soff & Sth).
      rewrite (idx_from_eq _ _ Sle). rewrite (subN_ok _ _ Sle). cbn [bind]. rewrite (subU_rest _ _ Sle). cbn [bind].
      unfold Ipv6RawExtHeaderSlice.next_header. rdokq sl 0. rewrite Sth. cbn [bind].
      apply IH; [|now apply bytes_ok_rest|rewrite s_len_drop; qlia].
    unfold inv6, fill_add, exts6_len, exts6_any, Ipv6Extensions.is_fragmenting_payload in *.
    rewrite E60, E43.
    cbn [f_dest f_route f_fdest f_frag f_auth x_hbh x_dest x_route x_fdest x_frag x_auth is_some olen] in *.
    rewrite Ert in *. cbn [is_some olen orb] in *. rewrite s_len_drop.
    assert (Fd : x_fdest x = None) by (apply I10; reflexivity).
    rewrite Fd in *. cbn [is_some olen orb] in *.
    repeat split; auto; try qlia.
    all: try (intros; discriminate). all: try (unfold s_off in *; cbn [fst]; qlia).
    all: try (rewrite ?Bool.orb_true_r; cbn [orb]; destruct (0 <? _) eqn:Z; [reflexivity|qlia]). }
  cbn [orb].
  destruct (nh =? IPN_FRAG) eqn:E44.
  { rewrite I4. destruct (x_frag x) as [fg|] eqn:Efg; cbn [is_some]; [exact Stop|].
    rewrite (subN_ok _ _ Hle). cbn [bind].
    pose proof (frag_shape rest) as Sh.
    destruct (Ipv6FragmentHeaderSlice.from_slice rest) as [sl|[l|ce]|b]; cbn [map_len_err bind];
      try contradiction; [|reflexivity|reflexivity].
    destruct Sh as (S8 & Sle & Soff).
    rewrite S8. rewrite (idx_from_eq _ _ Sle). rewrite (subN_ok _ _ Sle). cbn [bind]. rewrite (subU_rest _ _ Sle). cbn [bind].
    unfold Ipv6FragmentHeaderSlice.next_header. rdokq sl 0.
    destruct (frag_is_fragmenting_ok sl S8) as (fb & Efb). rewrite Efb. cbn [bind].
    apply IH; [|now apply bytes_ok_rest|rewrite s_len_drop; qlia].
    unfold inv6, fill_add, exts6_len, exts6_any, Ipv6Extensions.is_fragmenting_payload in *.
    rewrite E60, E43, E44.
    cbn [f_dest f_route f_fdest f_frag f_auth x_hbh x_dest x_route x_fdest x_frag x_auth is_some olen] in *.
    rewrite Efg in *. cbn [is_some olen orb] in *. rewrite s_len_drop.
    assert (fr = false) by congruence. subst fr. cbn [orb].
    repeat split; auto; try qlia.
    all: try (intros; discriminate). all: try (unfold s_off in *; cbn [fst]; qlia).
    all: try (rewrite ?Bool.orb_true_r; cbn [orb]; destruct (0 <? _) eqn:Z; [reflexivity|qlia]). }
  destruct (nh =? IPN_AUTH) eqn:E51; [|exact Stop].
  rewrite I5. destruct (x_auth x) as [au|] eqn:Eau; cbn [is_some]; [exact Stop|].
  rewrite (subN_ok _ _ Hle). cbn [bind].
  pose proof (auth_shape rest Hok) as Sh.
  destruct (IpAuthHeaderSlice.from_slice rest) as [sl|[l|ce]|b]; cbn [map_len_err bind];
    try contradiction; [|reflexivity|reflexivity].
  destruct Sh as (S12 & Sle & Soff & Sth & _).
  rewrite (idx_from_eq _ _ Sle). rewrite (subN_ok _ _ Sle). cbn [bind]. rewrite (subU_rest _ _ Sle). cbn [bind].
  unfold IpAuthHeaderSlice.next_header. rdokq sl 0. rewrite Sth. cbn [bind].
  apply IH; [|now apply bytes_ok_rest|rewrite s_len_drop; qlia].
  unfold inv6, fill_add, exts6_len, exts6_any, Ipv6Extensions.is_fragmenting_payload in *.
  rewrite E60, E43, E44, E51.
  cbn [f_dest f_route f_fdest f_frag f_auth x_hbh x_dest x_route x_fdest x_frag x_auth is_some olen] in *.
  rewrite Eau in *. cbn [is_some olen orb] in *. rewrite s_len_drop.
  repeat split; auto; try qlia.
  all: try (intros; discriminate). all: try (unfold s_off in *; cbn [fst]; qlia).
  all: try (rewrite ?Bool.orb_true_r; cbn [orb]; destruct (0 <? _) eqn:Z; [reflexivity|qlia]).
Qed.

