(* Parse/AccessExtra.v -- hand transliteration of the few accessors of the slice
   types that tools/gen_accessors.py translates but Parse/Access.v does not carry
   (they are not reachable from the packet cursors' results in a way C01/C02 need):
     net/ipv4_header_slice.rs   source_addr, destination_addr  (Ipv4Addr::from(self.source()))
     net/ipv6_header_slice.rs   source_addr, destination_addr, header_len (Ipv6Header::LEN)
     transport/udp_slice.rs     header_len (UdpHeader::LEN), header_len_u16 (UdpHeader::LEN_U16)
     transport/icmpv6_slice.rs  header_len (8)
   An address is modelled as its bytes.  No proofs here. *)
From EP Require Import Base.Bytes Parse.Types Parse.Slices Parse.Cursor Parse.Access.

Local Open Scope N_scope.

Module Ipv4HeaderX.
  Definition source_addr (h : slice) : res bytes := Ipv4HeaderA.source h.
  Definition destination_addr (h : slice) : res bytes := Ipv4HeaderA.destination h.
End Ipv4HeaderX.

Module Ipv6HeaderX.
  Definition source_addr (h : slice) : res bytes := Ipv6HeaderA.source h.
  Definition destination_addr (h : slice) : res bytes := Ipv6HeaderA.destination h.
  Definition header_len (h : slice) : res N := Ok 40.
End Ipv6HeaderX.

Module UdpX.
  Definition header_len (s : slice) : res N := Ok 8.
  Definition header_len_u16 (s : slice) : res N := Ok 8.
End UdpX.

Module Icmpv6X.
  Definition header_len (s : slice) : res N := Ok 8.
End Icmpv6X.
