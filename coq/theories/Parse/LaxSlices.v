(* Parse/LaxSlices.v -- transliteration of the lax single-layer slicers:
     link/lax_macsec_slice.rs (+ lax_macsec_payload_slice.rs, lax_ether_payload_slice.rs),
     net/lax_ip_payload_slice.rs, net/lax_ipv4_slice.rs, net/lax_ipv6_slice.rs,
     net/lax_ip_slice.rs, net/ipv6_exts_slice.rs::from_slice_lax,
     net/ipv4_exts_slice.rs::from_slice_lax
   (transport/udp_slice.rs::from_slice_lax is UdpSlice.from_slice_lax in Slices.v).
   The strict building blocks (header slicers, accessors) are the ones of
   Slices.v, exactly as the Rust code calls the strict functions.  Structure and
   duplication are kept: the IPv4/IPv6 arms of LaxIpSlice::from_slice are separate
   copies of LaxIpv4Slice / LaxIpv6Slice::from_slice in Rust and differ in how
   the conditions are written; that is kept here.

   A "stop error" is the pair (error, layer tag) the lax functions hand back
   beside an Ok result.  Error enums of the crate are embedded into
   Types.slice_error:
     ip_auth::HeaderSliceError::Content(ZeroPayloadLen)          = EContent CeAuthZeroPayloadLen
     ipv6_exts::HeaderSliceError::Content(HopByHopNotAtStart)    = EContent CeHopByHopNotAtStart
     ipv6_exts::HeaderSliceError::Content(IpAuth(ZeroPayloadLen))= EContent CeIpv6AuthZeroPayloadLen *)
From EP Require Import Base.Bytes Parse.Types Parse.Slices.

Definition stop_error := (slice_error * layer)%type.

(* ---- lax payload descriptors --------------------------------------------- *)
Record lax_ether_payload := mkLaxEp {
  lep_incomplete : bool; lep_ether_type : N; lep_src : len_source; lep_slice : slice }.

Record lax_ip_payload := mkLaxIpp {
  lipp_incomplete : bool; lipp_number : N; lipp_fragmented : bool;
  lipp_src : len_source; lipp_slice : slice }.

(* ---- LaxMacsecSlice ------------------------------------------------------- *)
Inductive lax_macsec_payload :=
| LMpUnmodified (e : lax_ether_payload)
| LMpModified (incomplete : bool) (s : slice).

Record lax_macsec_slice := mkLaxMacsec { lms_header : slice; lms_payload : lax_macsec_payload }.

Module LaxMacsecSlice.
  Definition from_slice (s : slice) : res lax_macsec_slice :=
    let* header := Macsec.header_from_slice s in
    let* epl := Macsec.expected_payload_len header in
    let* t :=
      match epl with
      | Some req_payload_len =>
          (* header.header_len() + req_payload_len *)
          let* hl := Macsec.header_len header in
          let required_len := hl + req_payload_len in
          if s_len s <? required_len then
            let* n := subN (s_len s) (s_len header) in
            let* p := subU s (s_len header) n in
            Ok (true, p, LsSlice)
          else
            let* p := subU s (s_len header) req_payload_len in
            Ok (false, p, LsMacsecShortLength)
      | None =>
          let* n := subN (s_len s) (s_len header) in
          let* p := subU s (s_len header) n in
          Ok (false, p, LsSlice)
      end in
    let '(incomplete, payload_slice, src) := t in
    let* net := Macsec.next_ether_type header in
    match net with
    | Some et =>
        Ok (mkLaxMacsec header (LMpUnmodified (mkLaxEp incomplete et src payload_slice)))
    | None => Ok (mkLaxMacsec header (LMpModified incomplete payload_slice))
    end.
End LaxMacsecSlice.

(* ---- IPv4 ----------------------------------------------------------------- *)
Record lax_ipv4_slice := mkLaxIpv4 {
  lv4_header : slice; lv4_auth : option slice; lv4_payload : lax_ip_payload }.

Module LaxIpv4Slice.
  (* (header_payload, len_source, incomplete) -- the three-way fallback on total_len *)
  Definition select_payload (s : slice) (header_len total_len : N)
    : res (slice * len_source * bool) :=
    if total_len <? header_len then
      (* total_len smaller than the header: slice length, not flagged *)
      let* n := subN (s_len s) header_len in
      let* p := subU s header_len n in
      Ok (p, LsSlice, false)
    else if s_len s <? total_len then
      (* more data announced than present: slice length, incomplete *)
      let* n := subN (s_len s) header_len in
      let* p := subU s header_len n in
      Ok (p, LsSlice, true)
    else
      let* n := subN total_len header_len in
      let* p := subU s header_len n in
      Ok (p, LsIpv4HeaderTotalLen, false).

  (* the part behind the payload selection (same text in LaxIpv4Slice::from_slice
     and in the IPv4 arm of LaxIpSlice::from_slice up to the wrapping of the
     error); returns the ip_auth::HeaderSliceError as stop error *)
  Definition finish (header header_payload : slice) (src : len_source) (incomplete : bool)
    : res (lax_ipv4_slice * option slice_error) :=
    let* fragmented := Ipv4HeaderSlice.is_fragmenting_payload header in
    let* proto := Ipv4HeaderSlice.protocol header in
    if proto =? IPN_AUTH then
      match IpAuthHeaderSlice.from_slice header_payload with
      | Ok auth =>
          let* n := subN (s_len header_payload) (s_len auth) in
          let* payload := subU header_payload (s_len auth) n in
          let* ipn := IpAuthHeaderSlice.next_header auth in
          Ok (mkLaxIpv4 header (Some auth) (mkLaxIpp incomplete ipn fragmented src payload), None)
      | Err e =>
          let e' :=
            match e with
            | ELen l => ELen (le_add_offset (le_set_src l src) (s_len header))
            | EContent c => EContent c
            end in
          Ok (mkLaxIpv4 header None (mkLaxIpp incomplete IPN_AUTH fragmented src header_payload),
              Some e')
      | Bug b => Bug b
      end
    else
      Ok (mkLaxIpv4 header None (mkLaxIpp incomplete proto fragmented src header_payload), None).

  Definition from_slice (s : slice) : res (lax_ipv4_slice * option slice_error) :=
    let* header := Ipv4HeaderSlice.from_slice s in
    let* header_total_len := Ipv4HeaderSlice.total_len header in
    let* t := select_payload s (s_len header) header_total_len in
    let '(header_payload, src, incomplete) := t in
    finish header header_payload src incomplete.
End LaxIpv4Slice.

(* Ipv4ExtensionsSlice::from_slice (strict; not part of Slices.v because the
   packet slicers do not call it): (auth, next header, rest) *)
Module Ipv4Exts.
  Definition from_slice (start_ip_number : N) (start_slice : slice)
    : res (option slice * N * slice) :=
    if IPN_AUTH =? start_ip_number then
      let* header := IpAuthHeaderSlice.from_slice start_slice in
      (* &start_slice[header.slice().len()..]: checked *)
      let* rest := (if s_len header <=? s_len start_slice
                    then Ok (fst start_slice + s_len header, drop (s_len header) (snd start_slice))
                    else Bug SITE_INDEX) in
      let* nh := IpAuthHeaderSlice.next_header header in
      Ok (Some header, nh, rest)
    else Ok (None, start_ip_number, start_slice).
End Ipv4Exts.

(* Ipv4ExtensionsSlice::from_slice_lax: (auth, next header, rest, error) *)
Module LaxIpv4Exts.
  Definition from_slice_lax (start_ip_number : N) (start_slice : slice)
    : res (option slice * N * slice * option slice_error) :=
    if IPN_AUTH =? start_ip_number then
      match IpAuthHeaderSlice.from_slice start_slice with
      | Ok header =>
          let* n := subN (s_len start_slice) (s_len header) in
          let* rest := subU start_slice (s_len header) n in
          let* nh := IpAuthHeaderSlice.next_header header in
          Ok (Some header, nh, rest, None)
      | Err e => Ok (None, start_ip_number, start_slice, Some e)
      | Bug b => Bug b
      end
    else Ok (None, start_ip_number, start_slice, None).
End LaxIpv4Exts.

(* ---- IPv6 extension headers, lax ------------------------------------------ *)
Module LaxIpv6Exts.
  (* the `while error.is_none()` loop of from_slice_lax; fuel as in the strict walk *)
  Fixpoint walk (fuel : nat) (start_len : N) (rest : slice) (next_header : N) (fragmented : bool)
    : res (slice * N * bool * option stop_error) :=
    match fuel with
    | O => Bug SITE_FUEL
    | S f =>
        if next_header =? IPN_HOP_BY_HOP then
          Ok (rest, next_header, fragmented,
              Some (EContent CeHopByHopNotAtStart, LyIpv6HopByHopHeader))
        else if (next_header =? IPN_DEST_OPTIONS) || (next_header =? IPN_ROUTE) then
          match Ipv6RawExtHeaderSlice.from_slice rest with
          | Ok sl =>
              let* n := subN (s_len rest) (s_len sl) in
              let* rest' := subU rest (s_len sl) n in
              let* nh := Ipv6RawExtHeaderSlice.next_header sl in
              walk f start_len rest' nh fragmented
          | Err (ELen e) =>
              let* off := subN start_len (s_len rest) in
              Ok (rest, next_header, fragmented,
                  Some (ELen (le_add_offset e off),
                        if next_header =? IPN_DEST_OPTIONS then LyIpv6DestOptionsHeader
                        else LyIpv6RouteHeader))
          | Err (EContent _) => Bug SITE_UNWRAP   (* the Rust type is LenError: no such value *)
          | Bug b => Bug b
          end
        else if next_header =? IPN_FRAG then
          match Ipv6FragmentHeaderSlice.from_slice rest with
          | Ok sl =>
              let* n := subN (s_len rest) (s_len sl) in
              let* rest' := subU rest (s_len sl) n in
              let* nh := Ipv6FragmentHeaderSlice.next_header sl in
              let* fr := Ipv6FragmentHeaderSlice.is_fragmenting_payload sl in
              walk f start_len rest' nh (fragmented || fr)
          | Err (ELen e) =>
              let* off := subN start_len (s_len rest) in
              Ok (rest, next_header, fragmented,
                  Some (ELen (le_add_offset e off), LyIpv6FragHeader))
          | Err (EContent _) => Bug SITE_UNWRAP
          | Bug b => Bug b
          end
        else if next_header =? IPN_AUTH then
          match IpAuthHeaderSlice.from_slice rest with
          | Ok sl =>
              let* n := subN (s_len rest) (s_len sl) in
              let* rest' := subU rest (s_len sl) n in
              let* nh := IpAuthHeaderSlice.next_header sl in
              walk f start_len rest' nh fragmented
          | Err (ELen e) =>
              let* off := subN start_len (s_len rest) in
              Ok (rest, next_header, fragmented,
                  Some (ELen (le_add_offset e off), LyIpAuthHeader))
          | Err (EContent _) =>
              Ok (rest, next_header, fragmented,
                  Some (EContent CeIpv6AuthZeroPayloadLen, LyIpAuthHeader))
          | Bug b => Bug b
          end
        else Ok (rest, next_header, fragmented, None)
    end.

  (* returns (exts, next_header, rest, error) *)
  Definition from_slice_lax (start_ip_number : N) (start_slice : slice)
    : res (ipv6_exts_slice * N * slice * option stop_error) :=
    let* st :=
      (if IPN_HOP_BY_HOP =? start_ip_number then
         match Ipv6RawExtHeaderSlice.from_slice start_slice with
         | Ok sl =>
             (* &rest[slice.slice().len()..]: checked *)
             let* rest := (if s_len sl <=? s_len start_slice
                           then Ok (fst start_slice + s_len sl, drop (s_len sl) (snd start_slice))
                           else Bug SITE_INDEX) in
             let* nh := Ipv6RawExtHeaderSlice.next_header sl in
             Ok (rest, nh, None)
         | Err (ELen e) => Ok (start_slice, start_ip_number, Some (ELen e, LyIpv6HopByHopHeader))
         | Err (EContent _) => Bug SITE_UNWRAP
         | Bug b => Bug b
         end
       else Ok (start_slice, start_ip_number, None)) in
    let '(rest0, nh0, err0) := st in
    let* w :=
      match err0 with
      | Some e => Ok (rest0, nh0, false, Some e)      (* the loop is not entered *)
      | None => walk (S (length (snd start_slice))) (s_len start_slice) rest0 nh0 false
      end in
    let '(rest, next_header, fragmented, error) := w in
    let* used := subN (s_len start_slice) (s_len rest) in
    (* &start_slice[..start_slice.len() - rest.len()] *)
    let* sl := (if used <=? s_len start_slice
                then Ok (fst start_slice, take used (snd start_slice)) else Bug SITE_INDEX) in
    Ok (mkIpv6Exts
          (if negb (s_len rest =? s_len start_slice) then Some start_ip_number else None)
          fragmented sl,
        next_header, rest, error).
End LaxIpv6Exts.

(* ---- IPv6 ----------------------------------------------------------------- *)
Record lax_ipv6_slice := mkLaxIpv6 {
  lv6_header : slice; lv6_exts : ipv6_exts_slice; lv6_payload : lax_ip_payload }.

Module LaxIpv6Slice.
  (* the part behind the payload selection (same text in both copies) *)
  Definition finish (header header_payload : slice) (src : len_source) (incomplete : bool)
    : res (lax_ipv6_slice * option stop_error) :=
    let* nh := Ipv6HeaderSlice.next_header header in
    let* x := LaxIpv6Exts.from_slice_lax nh header_payload in
    let '(exts, payload_ip_number, payload, ext_stop_err) := x in
    let ext_stop_err' :=
      match ext_stop_err with
      | Some (ELen l, ly) => Some (ELen (le_add_offset (le_set_src l src) 40), ly)
      | o => o
      end in
    Ok (mkLaxIpv6 header exts
          (mkLaxIpp incomplete payload_ip_number (x6_fragmented exts) src payload),
        ext_stop_err').

  (* LaxIpv6Slice::from_slice: `slice.len() < Ipv6Header::LEN + payload_len` *)
  Definition from_slice (s : slice) : res (lax_ipv6_slice * option stop_error) :=
    let* header := Ipv6HeaderSlice.from_slice s in
    let* pl := Ipv6HeaderSlice.payload_length header in
    let* t :=
      (if (0 =? pl) && (40 <? s_len s) then
         let* n := subN (s_len s) 40 in
         let* p := subU s 40 n in
         Ok (p, LsSlice, false)
       else
         let expected_len := 40 + pl in
         if s_len s <? expected_len then
           let* n := subN (s_len s) 40 in
           let* p := subU s 40 n in
           Ok (p, LsSlice, true)
         else
           let* p := subU s 40 pl in
           Ok (p, LsIpv6HeaderPayloadLen, false)) in
    let '(header_payload, src, incomplete) := t in
    finish header header_payload src incomplete.
End LaxIpv6Slice.

(* ---- LaxIpSlice ----------------------------------------------------------- *)
Inductive lax_ip_slice := LIpV4 (v : lax_ipv4_slice) | LIpV6 (v : lax_ipv6_slice).

Module LaxIpSlice.
  Definition from_slice (s : slice) : res (lax_ip_slice * option stop_error) :=
    if s_len s =? 0 then lerr 1 (s_len s) LsSlice LyIpHeader
    else
      let* first_byte := rdU s 0 in
      let ver := N.shiftr first_byte 4 in
      if ver =? 4 then
        let ihl := N.land first_byte 15 in
        if ihl <? 5 then Err (EContent (CeIpIhl ihl))
        else
          let header_len := ihl * 4 in
          if s_len s <? header_len then lerr header_len (s_len s) LsSlice LyIpv4Header
          else
            let* header := subU s 0 header_len in
            let* total_len := Ipv4HeaderSlice.total_len header in
            let* t := LaxIpv4Slice.select_payload s header_len total_len in
            let '(header_payload, src, incomplete) := t in
            let* r := LaxIpv4Slice.finish header header_payload src incomplete in
            let '(v, stop) := r in
            (* A::Len -> S::Len, A::Content(l) -> S::Content(SH::IpAuth(l)); Layer::IpAuthHeader *)
            Ok (LIpV4 v,
                match stop with
                | Some (ELen l) => Some (ELen l, LyIpAuthHeader)
                | Some (EContent _) => Some (EContent CeIpv6AuthZeroPayloadLen, LyIpAuthHeader)
                | None => None
                end)
      else if ver =? 6 then
        if s_len s <? 40 then lerr 40 (s_len s) LsSlice LyIpv6Header
        else
          let* header := subU s 0 40 in
          let* pl := Ipv6HeaderSlice.payload_length header in
          let* t :=
            (if (0 =? pl) && (40 <? s_len s) then
               let* n := subN (s_len s) 40 in
               let* p := subU s 40 n in
               Ok (p, LsSlice, false)
             else
               (* `slice.len() - Ipv6Header::LEN < payload_len` *)
               let* d := subN (s_len s) 40 in
               if d <? pl then
                 let* n := subN (s_len s) 40 in
                 let* p := subU s 40 n in
                 Ok (p, LsSlice, true)
               else
                 let* p := subU s 40 pl in
                 Ok (p, LsIpv6HeaderPayloadLen, false)) in
          let '(header_payload, src, incomplete) := t in
          let* r := LaxIpv6Slice.finish header header_payload src incomplete in
          let '(v, stop) := r in
          Ok (LIpV6 v, stop)
      else Err (EContent (CeIpUnsupportedVersion ver)).

  Definition payload (i : lax_ip_slice) : lax_ip_payload :=
    match i with LIpV4 v => lv4_payload v | LIpV6 v => lv6_payload v end.
End LaxIpSlice.
