(* Parse/HdrLaxSlots2.v -- property C04, audit round 1 follow-up, the LAX pair, continuation of
   HdrLaxSlots.v: the slot-by-slot agreement lifted over LaxPacketHeaders::add_ip, the VLAN /
   MACsec loop and the three entry points (lockstep with the cut lax slicing model, invariant
   `lloop_inv` of HdrLaxProofs3.v; the relation carried only speaks about the IPv6 network layer). *)
From Coq Require Import ZArith Lia ZifyN ZifyBool List.
From EP Require Import Parse.AccessProofs.
From EP Require Import Base.Bytes Parse.Types Parse.Slices Parse.Cursor Parse.View
  Parse.WireSpec Parse.Repr Parse.StrictProofs Parse.Access Parse.LaxSlices Parse.LaxCursor Parse.LaxView
  Parse.LaxProofs Parse.LaxFacts Parse.LaxWire Parse.LaxWireProofs
  Parse.HdrModel Parse.HdrView Parse.HdrCut Parse.HdrProofs Parse.HdrProofs2 Parse.HdrProofs3
  Parse.HdrLaxModel Parse.HdrLaxView Parse.HdrLaxProofs Parse.HdrLaxCut Parse.HdrLaxCutProofs
  Parse.HdrLaxProofs2 Parse.HdrLaxProofs3 Parse.HdrSlots Parse.HdrLaxSlots.
Import ListNotations.
Import LaxSlicedPacketCursor.
Import LaxPacketHeaders.

Local Open Scope N_scope.

Definition lpk6_rel (h : res lhpacket) (s : res lax_sliced_packet) : Prop :=
  match h, s with
  | Ok p, Ok sp =>
      forall hd x, lh_net p = Some (HnIp (IhV6 hd x)) ->
        exists v, lsp_net sp = Some (LNtIpv6 v) /\ lnet6_rel hd x v
  | _, _ => True
  end.

Lemma lpk6_none p s : lh_net p = None -> lpk6_rel (Ok p) s.
Proof. intros H. destruct s; try exact I. intros hd x X. rewrite H in X. discriminate X. Qed.

Lemma lpk6_arp p a s : lh_net p = Some (HnArp a) -> lpk6_rel (Ok p) s.
Proof. intros H. destruct s; try exact I. intros hd x X. rewrite H in X. discriminate X. Qed.

(* both families keep the network layer behind the IP headers *)
Lemma add_transport_net self1 p o r :
  LaxPacketHeaders.add_transport self1 p o = Ok r -> lh_net r = lh_net self1.
Proof.
  unfold LaxPacketHeaders.add_transport. intros H.
  destruct (lipp_fragmented p); [now injection H as <-|].
  destruct (lipp_number p =? IPN_ICMP).
  { destruct (Icmpv4Slice.from_slice _) as [i|[l|c]|b]; try discriminate.
    - binv H h Eh. binv H pl Ep. now injection H as <-.
    - now injection H as <-. }
  destruct (lipp_number p =? IPN_ICMPV6).
  { destruct (Icmpv6Slice.from_slice _) as [i|[l|c]|b]; try discriminate.
    - binv H h Eh. binv H pl Ep. now injection H as <-.
    - now injection H as <-. }
  destruct (lipp_number p =? IPN_UDP).
  { destruct (UdpSlice.from_slice_lax _) as [i|[l|c]|b]; try discriminate.
    - binv H h Eh. binv H pl Ep. now injection H as <-.
    - now injection H as <-. }
  destruct (lipp_number p =? IPN_TCP).
  { destruct (TcpHeader.from_slice _) as [i|[l|c]|b]; try discriminate; now injection H as <-. }
  now injection H as <-.
Qed.

Lemma slice_transport_net c p sp :
  slice_transport c p = Ok sp -> lsp_net sp = lsp_net (lc_result c).
Proof.
  unfold slice_transport. intros H.
  destruct (lipp_fragmented p || has_stop (lc_result c)); [now injection H as <-|].
  destruct (lipp_number p =? IPN_ICMP).
  { destruct (Icmpv4Slice.from_slice _) as [i|[l|ce]|b]; try discriminate; now injection H as <-. }
  destruct (lipp_number p =? IPN_UDP).
  { destruct (UdpSlice.from_slice_lax _) as [i|[l|ce]|b]; try discriminate; now injection H as <-. }
  destruct (lipp_number p =? IPN_TCP).
  { destruct (TcpSlice.from_slice _) as [i|[l|ce]|b]; try discriminate; now injection H as <-. }
  destruct (lipp_number p =? IPN_ICMPV6).
  { destruct (Icmpv6Slice.from_slice _) as [i|[l|ce]|b]; try discriminate; now injection H as <-. }
  now injection H as <-.
Qed.

Lemma with_opt_stop_net r o : lsp_net (with_opt_stop r o) = lsp_net r.
Proof. destruct o; reflexivity. Qed.

(* add_ip against slice_ip behind the IP headers (shapes as in HdrLaxProofs3.lip_tail) *)
Lemma lip_tail6 c s (self : lhpacket) offset ih p st i st' (D : res N) (off' : N -> N) src' :
  (forall hd x, ih = IhV6 hd x -> exists v, i = LIpV6 v /\ lnet6_rel hd x v) ->
  lpk6_rel
    (let self1 := mkLH (lh_link self) (lh_exts self) (Some (HnIp ih)) (lh_transport self)
                       (LHpIp p) (lh_stop self) in
     match st with
     | Some e => Ok (LaxPacketHeaders.with_stop self1 (LaxPacketHeaders.ip_stop p offset e))
     | None =>
         let* d := subN (s_off (lipp_slice p)) (s_off s) in
         LaxPacketHeaders.add_transport self1 p (offset + d)
     end)
    (let r := lc_result c in
     let r1 := with_net r (net_of_ip i) in
     let r2 :=
       with_opt_stop r1
         (option_map (conv_ext_stop (is_v4 i) (fun l => fix_len l (lc_offset c) (lc_src c))) st') in
     let payload := LaxIpSlice.payload i in
     let* d := D in
     slice_transport (mkLaxCursor (off' d) (src' d) r2) payload).
Proof.
  intros Hn. cbv zeta.
  destruct D as [d|e|b]; cbn [bind];
    [|destruct st; [exact I|destruct (subN _ _); cbn [bind]; [destruct (add_transport _ _ _)|..]; exact I]..].
  destruct (slice_transport _ (LaxIpSlice.payload i)) as [sp|e|b] eqn:Es;
    [|destruct st; [exact I|destruct (subN _ _); cbn [bind]; [destruct (add_transport _ _ _)|..]; exact I]..].
  apply slice_transport_net in Es. cbn [lc_result] in Es. rewrite with_opt_stop_net in Es.
  cbn [with_net lsp_net] in Es.
  assert (G : forall r, lh_net r = Some (HnIp ih) -> lpk6_rel (Ok r) (Ok sp)).
  { intros r Hr hd x X. rewrite Hr in X. injection X as ->.
    destruct (Hn hd x eq_refl) as (v & -> & R). exists v. split; [exact Es|exact R]. }
  destruct st as [e|].
  - apply G. reflexivity.
  - destruct (subN _ _) as [d0|e0|b0]; cbn [bind]; try exact I.
    destruct (add_transport _ p (offset + d0)) as [r|e0|b0] eqn:Ea; try exact I.
    apply G. now apply add_transport_net in Ea.
Qed.

Lemma lnet6 bs (Hok : bytes_ok bs) k st c ep pos lim :
  lloop_inv bs k st c ep pos lim ->
  lpk6_rel (net_part st)
    (if ep_ether_type ep =? ET_ARP then slice_arp c (ep_slice ep)
     else if ep_ether_type ep =? ET_IPV4 then LaxCut.slice_ip true c (ep_slice ep)
     else if ep_ether_type ep =? ET_IPV6 then LaxCut.slice_ip true c (ep_slice ep)
     else Ok (lc_result c)).
Proof.
  intros Inv. pose proof Inv as [I1 I2 I3 I4 I5 I6 I7 I8 I9 I10 I11 I12 I13 I14 I15].
  rewrite I1, I2. unfold net_part.
  set (rest := ls_rest st) in *.
  pose proof (repr_bytes_ok _ _ _ _ Hok I3) as Rok.
  assert (Wn : forall e, lh_net (LaxPacketHeaders.with_stop (ls_result st) e) = None) by (intros e; exact I8).
  assert (IP : lpk6_rel
                 (match add_ip (ls_result st) (ls_offset st) rest with
                  | Ok r => Ok r
                  | Err (ELen l) =>
                      Ok (LaxPacketHeaders.with_stop (ls_result st)
                            (ELen (le_add_offset l (ls_offset st)), LyIpHeader))
                  | Err (EContent c0) =>
                      Ok (LaxPacketHeaders.with_stop (ls_result st) (EContent c0, LyIpHeader))
                  | Bug b => Bug b
                  end) (LaxCut.slice_ip true c rest)).
  { unfold add_ip, LaxCut.slice_ip.
    assert (Class : (exists b0, rd (snd rest) 0 = Some b0 /\ N.shiftr b0 4 = 4 /\ s_len rest < 20) \/
                    (forall b0, rd (snd rest) 0 = Some b0 -> N.shiftr b0 4 = 4 -> 20 <= s_len rest)).
    { destruct (rd (snd rest) 0) as [b0|] eqn:Eb; [|right; intros; discriminate].
      destruct (N.shiftr b0 4 =? 4) eqn:V; [|right; intros b1 E1 V1; injection E1 as <-; lia].
      destruct (s_len rest <? 20) eqn:L; [left; exists b0; repeat split; lia|].
      right. intros; lia. }
    destruct Class as [(b0 & Eb & V4 & L20)|Hf].
    - (* F11: the struct decoder rejects the IP header: no network layer *)
      destruct (lax_ip_f11 rest b0 true Eb V4 L20) as (e & e' & -> & -> & -> & He').
      cbn [bind]. apply lpk6_none. apply Wn.
    - pose proof (lax_ip_agree rest Rok Hf) as A. pose proof (lax_ip_slots rest Rok) as B.
      unfold lipslot_rel in B.
      destruct (LaxIpHeaders.from_slice_lax rest) as [[[ih p] sth]|e|b];
        destruct (LaxCut.ip_from_slice true rest) as [[i st']|e'|b']; try contradiction; cbn [bind].
      + pose proof (lip_tail6 c rest (ls_result st) (ls_offset st) ih p sth i st'
                      (ptr_diff (lipp_slice (LaxIpSlice.payload i)) rest) (fun d => lc_offset c + d)
                      (fun _ => if is_slice_src (lipp_src (LaxIpSlice.payload i)) then lc_src c
                                else lipp_src (LaxIpSlice.payload i)) B) as T.
        cbv zeta in T.
        match type of T with lpk6_rel ?X _ =>
          match goal with |- lpk6_rel (match ?Y with _ => _ end) _ => change Y with X end end.
        match type of T with lpk6_rel ?X ?Z => destruct X as [r'|[l|ce]|b] end;
          [exact T|apply lpk6_none; apply Wn|apply lpk6_none; apply Wn|exact I].
      + destruct e as [l|ce]; apply lpk6_none; apply Wn. }
  destruct (ls_et st =? ET_IPV4) eqn:E4.
  { assert (Ea : (ls_et st =? ET_ARP) = false) by (unfold ET_IPV4, ET_ARP in *; lia). rewrite Ea.
    cbn [orb]. exact IP. }
  destruct (ls_et st =? ET_IPV6) eqn:E6.
  { assert (Ea : (ls_et st =? ET_ARP) = false) by (unfold ET_IPV6, ET_ARP in *; lia). rewrite Ea.
    cbn [orb]. exact IP. }
  cbn [orb].
  destruct (ls_et st =? ET_ARP) eqn:Ea; [|apply lpk6_none; exact I8].
  destruct (ArpPacketSlice.from_slice rest) as [a|[l|ce]|b]; try exact I.
  - apply (lpk6_arp _ a). reflexivity.
  - apply lpk6_none. apply Wn.
Qed.

Lemma lloop6 bs (Hok : bytes_ok bs) k cap :
  forall fuel st c ep pos lim,
    (cap < fuel)%nat -> N.of_nat cap + len (lsp_exts (lc_result c)) = 3 ->
    lloop_inv bs k st c ep pos lim ->
    lpk6_rel (l_run fuel st) (LaxCut.slice_ether_type_loop true fuel c ep).
Proof.
  induction cap as [|cap IH]; intros fuel st c ep pos lim Hf Hcap Inv;
    (destruct fuel as [|f]; [lia|]);
    pose proof Inv as [I1 I2 I3 I4 I5 I6 I7 I8 I9 I10 I11 I12 I13 I14 I15];
    pose proof (map_eq_len _ _ _ _ I6) as Hlen;
    rewrite l_run_S; cbv zeta; cbn [LaxCut.slice_ether_type_loop]; unfold is_vlan_type;
    rewrite I1, Hlen; unfold LINK_EXTS_CAP;
    assert (Wn : forall e, lh_net (LaxPacketHeaders.with_stop (ls_result st) e) = None) by (intros e; exact I8).
  - (* link_exts is full *)
    destruct (SlicedPacketCursor.is_vlan_type (ls_et st)) eqn:Ev.
    { destruct (3 <=? len (lsp_exts (lc_result c))) eqn:E3; [|lia].
      destruct (vlan_not_net _ Ev) as (_ & N4 & N6 & Na).
      unfold net_part. rewrite N4, N6, Na. cbn [orb]. apply lpk6_none. exact I8. }
    destruct (ls_et st =? ET_MACSEC) eqn:Em.
    { destruct (3 <=? len (lsp_exts (lc_result c))) eqn:E3; [|lia].
      destruct (macsec_not_net _ Em) as (N4 & N6 & Na).
      unfold net_part. rewrite N4, N6, Na. cbn [orb]. apply lpk6_none. exact I8. }
    rewrite <- I1. now apply (lnet6 bs Hok k st c ep pos lim).
  - set (rest := ls_rest st) in *.
    pose proof (repr_off _ _ _ _ I3) as Ro. pose proof (repr_len _ _ _ _ I3) as Rl.
    destruct (SlicedPacketCursor.is_vlan_type (ls_et st)) eqn:Ev.
    { (* VLAN tag *)
      destruct (3 <=? len (lsp_exts (lc_result c))) eqn:E3; [lia|].
      rewrite I2. fold rest.
      unfold SingleVlanHeader.from_slice, SingleVlanSlice.from_slice.
      destruct (s_len rest <? 4) eqn:E4.
      { unfold lerr. cbn [bind]. apply lpk6_none. apply Wn. }
      rewrite subU_eq by lia. cbn [bind]. rewrite idx_from_eq by lia. cbn [bind].
      unfold SingleVlanHeader.ether_type, SingleVlanSlice.payload, SingleVlanSlice.ether_type,
        SingleVlanSlice.payload_slice.
      rewrite rd16_prefix by lia.
      destruct (rd16_ok rest 2) as (et' & Eet); [lia|]. rewrite Eet. cbn [bind].
      rewrite subN_ok by lia. cbn [bind]. rewrite subU_rest by lia. cbn [bind].
      unfold LaxPacketHeaders.push_ext, LaxSlicedPacketCursor.push_ext, LINK_EXTS_CAP, with_payload.
      cbn [lh_link lh_exts lh_net lh_transport lh_payload lh_stop]. rewrite Hlen.
      destruct (len (lsp_exts (lc_result c)) <? 3) eqn:E3'; [|lia]. cbn [bind ep_ether_type ep_slice].
      set (vlan := (fst rest + 0, take 4 (drop 0 (snd rest)))).
      set (vrest := (fst rest + 4, drop 4 (snd rest))).
      assert (Rv : repr bs vrest (pos + 4) lim).
      { destruct (repr_rest bs rest pos lim 4 I3 ltac:(lia)) as (s' & Es' & Rs').
        rewrite <- Rl in Es'. rewrite subU_rest in Es' by lia. injection Es' as <-. exact Rs'. }
      match goal with |- lpk6_rel _ (LaxCut.slice_ether_type_loop _ _ ?c' ?ep') =>
        apply (IH f _ c' ep' (pos + 4) lim) end;
        [lia|cbn [lc_result lsp_exts]; rewrite len_app; cbn; lia|].
      constructor; cbn [ep_ether_type ep_slice ls_et ls_rest ls_offset ls_src ls_result lc_offset lc_src
                         lc_result lh_link lh_exts lh_net lh_transport lh_payload lh_stop
                         lsp_link lsp_exts lsp_net lsp_transport lsp_stop_err]; auto.
      - unfold SingleVlanSlice.header_len. lia.
      - rewrite !map_app, I6. cbn [map hview_ext lconv_ext]. do 2 f_equal. subst vlan.
        rewrite win_sub by lia. unfold s_off. now rewrite N.add_0_r.
      - now rewrite lexts_src_snoc_vlan.
      - eexists. split.
        + unfold lconv_ether_payload. cbn [lsp_exts]. rewrite last_some_snoc.
          unfold SingleVlanSlice.payload, SingleVlanSlice.ether_type, SingleVlanSlice.payload_slice.
          rewrite Eet. cbn [bind]. rewrite subN_ok by lia. cbn [bind]. rewrite subU_rest by lia. cbn [bind].
          reflexivity.
        + cbn [lhview_payload carry_src lview_ep lep_incomplete lep_ether_type lep_src lep_slice
               lvep_incomplete lvep_type lvep_win ep_ether_type ep_slice lsp_exts].
          rewrite lexts_src_snoc_vlan, I14. reflexivity. }
    destruct (ls_et st =? ET_MACSEC) eqn:Em;
      [|rewrite <- I1; now apply (lnet6 bs Hok k st c ep pos lim)].
    (* MACsec *)
    destruct (3 <=? len (lsp_exts (lc_result c))) eqn:E3; [lia|].
    rewrite I2. fold rest.
    pose proof (lax_macsec_shape bs rest pos lim Hok I3) as Sh.
    destruct (LaxMacsecSlice.from_slice rest) as [m|[l|ce]|b]; try contradiction;
      [|apply lpk6_none; apply Wn|apply lpk6_none; apply Wn].
    destruct Sh as (hl & Ehl & Shp).
    rewrite Ehl. cbn [bind].
    unfold LaxPacketHeaders.push_ext, LaxSlicedPacketCursor.push_ext, LINK_EXTS_CAP. rewrite Hlen.
    destruct (len (lsp_exts (lc_result c)) <? 3) eqn:E3'; [|lia]. cbn [bind].
    assert (Hx : map hview_ext (lh_exts (ls_result st) ++ [HxMacsec (lms_header m)]) =
                 map lconv_ext (lsp_exts (lc_result c) ++ [LLeMacsec m])).
    { rewrite !map_app, I6. reflexivity. }
    destruct (lms_payload m) as [e|inc mp] eqn:Emp; [|apply lpk6_none; exact I8].
    destruct Shp as (lim' & Re).
    rewrite ?Ehl. cbn [bind].
    assert (Esrc : (if negb (is_slice_src (lep_src e)) then lep_src e else lc_src c) =
                   match lep_src e with LsSlice => ls_src st | s => s end).
    { rewrite I5. destruct (lep_src e); reflexivity. }
    rewrite Esrc.
    match goal with |- lpk6_rel _ (LaxCut.slice_ether_type_loop _ _ ?c' ?ep') =>
      apply (IH f _ c' ep' (pos + hl) lim') end;
      [lia|cbn [lc_result lsp_exts]; rewrite len_app; cbn; lia|].
    constructor; cbn [ep_ether_type ep_slice ls_et ls_rest ls_offset ls_src ls_result lc_offset lc_src
                       lc_result lh_link lh_exts lh_net lh_transport lh_payload lh_stop with_payload
                       lsp_link lsp_exts lsp_net lsp_transport lsp_stop_err]; auto.
    + lia.
    + rewrite lexts_src_snoc_macsec, Emp, I14. reflexivity.
    + eexists. split.
      * unfold lconv_ether_payload. cbn [lsp_exts]. rewrite last_some_snoc. rewrite Emp. reflexivity.
      * cbn [lhview_payload carry_src lview_ep lep_incomplete lep_ether_type lep_src lep_slice
             lvep_incomplete lvep_type lvep_win lsp_exts].
        rewrite lexts_src_snoc_macsec, Emp, I14. reflexivity.
Qed.

(* ---- entry points ------------------------------------------------------------------------ *)
Theorem lslots_ether_type et bs : bytes_ok bs ->
  lpk6_rel (LaxPacketHeaders.from_ether_type et bs) (LaxCut.from_ether_type true et bs).
Proof.
  intros Hok.
  unfold LaxPacketHeaders.from_ether_type, LaxCut.from_ether_type, LaxCut.parse_from_ether_type,
    LaxCut.slice_ether_type.
  rewrite from_ether_type_slice_run.
  set (ep := mkEtherPayload et LsSlice (mk_slice bs)).
  set (c := mkLaxCursor 0 LsSlice (LaxSlicedPacketCursor.with_link empty (LkEtherPayload ep))).
  set (st := mkLs (mkLH None [] None None (LHpEther (mkLaxEp false et LsSlice (mk_slice bs))) None)
                  (mk_slice bs) 0 et LsSlice).
  apply (lloop6 bs Hok 0 3 5 st c ep 0 (len bs)); [lia|reflexivity|].
  constructor; try reflexivity; try apply repr_whole.
  eexists. split; reflexivity.
Qed.

Lemma shift_stop_net r k : lh_net (shift_stop r k) = lh_net r.
Proof. unfold shift_stop. destruct (lh_stop r) as [[[l|c] ly]|]; reflexivity. Qed.

Theorem lslots_ethernet bs : bytes_ok bs ->
  lpk6_rel (LaxPacketHeaders.from_ethernet bs) (LaxCut.from_ethernet true bs).
Proof.
  intros Hok.
  unfold LaxPacketHeaders.from_ethernet, LaxCut.from_ethernet, LaxCut.parse_from_ethernet2,
    Ethernet2Header.from_slice, Ethernet2Slice.from_slice_without_fcs.
  set (s := mk_slice bs).
  pose proof (repr_whole bs) as R. fold s in R.
  pose proof (repr_len _ _ _ _ R) as Rl. rewrite N.sub_0_r in Rl.
  destruct (s_len s <? 14) eqn:E14; [exact I|].
  rewrite subU_eq by lia. cbn [bind]. rewrite idx_from_eq by lia. cbn [bind].
  unfold Ethernet2Header.ether_type, Ethernet2Slice.payload, Ethernet2Slice.ether_type,
    Ethernet2Slice.payload_slice.
  rewrite rd16_prefix by lia.
  destruct (rd16_ok s 12) as (et & Eet); [lia|]. rewrite Eet. cbn [bind].
  rewrite subN_ok by lia. cbn [bind]. rewrite subU_rest by lia. cbn [bind].
  set (eth := (fst s + 0, take 14 (drop 0 (snd s)))).
  set (rest := (fst s + 14, drop 14 (snd s))).
  set (ep := mkEtherPayload et LsSlice rest).
  set (c := mkLaxCursor (0 + Ethernet2Slice.header_len) LsSlice (LaxSlicedPacketCursor.with_link empty (LkEthernet2 s))).
  assert (Rr : repr bs rest 14 (len bs)).
  { destruct (repr_rest bs s 0 (len bs) 14 R ltac:(lia)) as (s' & Es' & Rs').
    rewrite N.sub_0_r, <- Rl in Es'. rewrite subU_rest in Es' by lia. injection Es' as <-. exact Rs'. }
  rewrite from_ether_type_slice_run. unfold LaxCut.slice_ether_type.
  set (st := mkLs (mkLH None [] None None (LHpEther (mkLaxEp false et LsSlice rest)) None) rest 0 et LsSlice).
  assert (P : lpk6_rel (l_run 5 st) (LaxCut.slice_ether_type_loop true 5 c ep)).
  { apply (lloop6 bs Hok 14 3 5 st c ep 14 (len bs)); [lia|reflexivity|].
    constructor; try reflexivity; try exact Rr.
    eexists. split.
    - unfold lconv_ether_payload. cbn [c lc_result LaxSlicedPacketCursor.with_link empty lsp_exts map last lsp_link].
      unfold Ethernet2Slice.payload, Ethernet2Slice.ether_type, Ethernet2Slice.payload_slice.
      rewrite Eet. cbn [bind]. rewrite subN_ok by lia. cbn [bind]. rewrite subU_rest by lia. cbn [bind].
      reflexivity.
    - reflexivity. }
  destruct (l_run 5 st) as [p|e|b]; cbn [bind]; try exact I.
  destruct (LaxCut.slice_ether_type_loop true 5 c ep) as [sp|e'|b']; try exact I.
  intros hd x X. rewrite shift_stop_net in X. cbn [LaxPacketHeaders.with_link lh_net] in X.
  exact (P hd x X).
Qed.

Theorem lslots_ip bs : bytes_ok bs -> F11 bs = false ->
  lpk6_rel (LaxPacketHeaders.from_ip bs) (LaxCut.from_ip true bs).
Proof.
  intros Hok Hf. unfold LaxPacketHeaders.from_ip, LaxCut.from_ip, LaxCut.parse_from_ip, add_ip.
  set (s := mk_slice bs).
  assert (Hf' : forall b0, rd (snd s) 0 = Some b0 -> N.shiftr b0 4 = 4 -> 20 <= s_len s).
  { intros b0 Eb V. unfold s, mk_slice, s_len in *. cbn [snd] in *.
    destruct bs as [|x r]; [discriminate|]. unfold rd in Eb. cbn in Eb. injection Eb as ->.
    unfold F11 in Hf. rewrite V in Hf. cbn [andb] in Hf. change (4 =? 4) with true in Hf. cbn [andb] in Hf. lia. }
  pose proof (lax_ip_agree s Hok Hf') as A. pose proof (lax_ip_slots s Hok) as B. unfold lipslot_rel in B.
  destruct (LaxIpHeaders.from_slice_lax s) as [[[ih p] sth]|e|b];
    destruct (LaxCut.ip_from_slice true s) as [[i st']|e'|b']; try contradiction; cbn [bind];
    try exact I.
  set (self := mkLH None [] None None (LHpUdp true (0, [])) None).
  destruct (ptr_diff (lipp_slice (LaxIpSlice.payload i)) s) as [d|e|b]; cbn [bind];
    [|destruct sth; [exact I|destruct (subN _ _); cbn [bind]; [destruct (add_transport _ _ _)|..]; exact I]..].
  destruct (slice_transport _ (LaxIpSlice.payload i)) as [sp|e|b] eqn:Es;
    [|destruct sth; [exact I|destruct (subN _ _); cbn [bind]; [destruct (add_transport _ _ _)|..]; exact I]..].
  apply slice_transport_net in Es. cbn [lc_result lsp_net] in Es.
  assert (G : forall r, lh_net r = Some (HnIp ih) -> lpk6_rel (Ok r) (Ok sp)).
  { intros r Hr hd x X. rewrite Hr in X. injection X as ->.
    destruct (B hd x eq_refl) as (v & -> & R). exists v. split; [exact Es|exact R]. }
  destruct sth as [e|].
  - apply G. reflexivity.
  - destruct (subN _ _) as [d0|e0|b0]; cbn [bind]; try exact I.
    destruct (add_transport _ p (0 + d0)) as [r|e0|b0] eqn:Ea; try exact I.
    apply G. now apply add_transport_net in Ea.
Qed.

(* ---- the statement ------------------------------------------------------------------------ *)
Definition lax_slots_in_order (h : res lhpacket) (s : res lax_sliced_packet) : Prop :=
  forall hp hd x, h = Ok hp -> lh_net hp = Some (HnIp (IhV6 hd x)) ->
  exists sp v first l nh_end,
    s = Ok sp /\ lsp_net sp = Some (LNtIpv6 v) /\ lv6_header v = hd /\
    Ipv6HeaderSlice.next_header hd = Ok first /\
    Ipv6ExtIterA.items (lv6_exts v) = Ok l /\
    slots_hold x l /\
    chain (x6_slice (lv6_exts v)) 0 first l (exts6_len x) nh_end /\
    win_of (x6_slice (lv6_exts v)) = (s_off hd + 40, exts6_len x).

Lemma lslots_of_rel f h s : lhagree f h s -> lpk6_rel h s -> lax_slots_in_order h s.
Proof.
  intros A R hp hd x -> Hn. unfold lhagree in A. destruct s as [sp|e|b]; try contradiction.
  destruct (R hd x Hn) as (v & Ev & Hv & nh0 & Enh & (l & nh' & Hi & Hs & Hc & Hl) & Off).
  exists sp, v, nh0, l, nh'. rewrite <- Hl.
  split; [reflexivity|]. split; [exact Ev|]. split; [exact Hv|]. split; [exact Enh|].
  split; [exact Hi|]. split; [exact Hs|]. split; [exact Hc|].
  unfold win_of. now rewrite Off.
Qed.

Theorem lax_hdr_slots_in_order bs et : bytes_ok bs ->
  lax_slots_in_order (LaxPacketHeaders.from_ethernet bs) (LaxCut.from_ethernet true bs) /\
  lax_slots_in_order (LaxPacketHeaders.from_ether_type et bs) (LaxCut.from_ether_type true et bs) /\
  lax_slots_in_order (LaxPacketHeaders.from_ip bs) (LaxCut.from_ip true bs).
Proof.
  intros Hok. split; [|split].
  - apply (lslots_of_rel true); [now apply lax_hdr_agree_ethernet|now apply lslots_ethernet].
  - apply (lslots_of_rel true); [now apply lax_hdr_agree_ether_type|now apply lslots_ether_type].
  - destruct (F11 bs) eqn:Hf.
    + destruct (lax_hdr_f11_both_err bs Hf) as (e & e' & E & _). intros hp hd x H. rewrite E in H. discriminate H.
    + apply (lslots_of_rel true); [now apply lax_hdr_agree_ip|now apply lslots_ip].
Qed.
