(* Parse/LaxPrefix.v -- (b) for whole packets, on the reference decoders of LaxWire.v:
     pwire_sound : the instrumented strict reference decoder is WireSpec's (forget the partial packet)
     b_*         : pwire rejects with (q, e) behind the first header  ->  the lax reference decoding
                   contains every layer of q unchanged (vprefix) and e was a documented length
                   fallback, or is recorded as stop error (same record, fitting layer tag), or is a
                   fault of the IP header recorded as IP-header fault (F11 group); outside F10.
   Transferred to the strict and lax MODELS with StrictProofs.v (strict model ~ wire) and
   LaxWireProofs.v (lax model = lwire). *)
From EP Require Import Base.Bytes Parse.Types Parse.Slices Parse.Cursor Parse.View Parse.WireSpec Parse.Repr
  Parse.StrictProofs Parse.LaxSlices Parse.LaxCursor Parse.LaxView Parse.LaxProofs Parse.LaxFacts
  Parse.LaxWire Parse.LaxWireProofs.
From Coq Require Import ZArith Lia ZifyN ZifyBool.
Local Open Scope N_scope.

(* ---- pwire is wire ---------------------------------------------------------------------------- *)
Lemma forget_pres_of p r : forget (pres_of p r) = r.
Proof. destruct r; reflexivity. Qed.

Lemma pwire_ipv4_tail_sound bs p pos hl lim' :
  forget (pwire_ipv4_tail bs p pos hl lim') = wire_ipv4_tail bs p pos hl lim'.
Proof.
  unfold pwire_ipv4_tail, wire_ipv4_tail, pwire_transport.
  destruct (B bs (pos + 9) =? 51); [|apply forget_pres_of].
  destruct (wire_ah bs CeAuthZeroPayloadLen LsIpv4HeaderTotalLen (pos + hl) lim'); apply forget_pres_of.
Qed.

Lemma pwire_ipv4_body_sound bs p src pos lim hl :
  forget (pwire_ipv4_body bs p src pos lim hl) = wire_ipv4_body bs p src pos lim hl.
Proof.
  unfold pwire_ipv4_body, wire_ipv4_body, cut.
  destruct (W bs (pos + 2) <? hl); [reflexivity|].
  destruct (lim - pos <? W bs (pos + 2)); [reflexivity|]. apply pwire_ipv4_tail_sound.
Qed.

Lemma pwire_ipv4_sound bs p src pos lim :
  forget (pwire_ipv4 bs p src pos lim) = wire_ipv4 bs p src pos lim.
Proof.
  unfold pwire_ipv4, wire_ipv4, cut, bad.
  destruct (lim - pos <? 20); [reflexivity|].
  destruct (negb (B bs pos / 16 =? 4)); [reflexivity|].
  destruct (B bs pos mod 16 <? 5); [reflexivity|].
  destruct (lim - pos <? B bs pos mod 16 * 4); [reflexivity|]. apply pwire_ipv4_body_sound.
Qed.

Lemma pwire_ipv6_tail_sound bs p esrc psrc pos lim' :
  forget (pwire_ipv6_tail bs p esrc psrc pos lim') = wire_ipv6_tail bs p esrc psrc pos lim'.
Proof.
  unfold pwire_ipv6_tail, wire_ipv6_tail, pwire_transport.
  destruct (wire_exts bs _ esrc (pos + 40) lim' (B bs (pos + 6))); apply forget_pres_of.
Qed.

Lemma pwire_ipv6_body_sound bs p src pos lim :
  forget (pwire_ipv6_body bs p src pos lim) = wire_ipv6_body bs p src pos lim.
Proof.
  unfold pwire_ipv6_body, wire_ipv6_body, cut.
  destruct ((W bs (pos + 4) =? 0) && (40 <? lim - pos)); [apply pwire_ipv6_tail_sound|].
  destruct (lim - pos <? 40 + W bs (pos + 4)); [reflexivity|]. apply pwire_ipv6_tail_sound.
Qed.

Lemma pwire_ipv6_sound bs p src pos lim :
  forget (pwire_ipv6 bs p src pos lim) = wire_ipv6 bs p src pos lim.
Proof.
  unfold pwire_ipv6, wire_ipv6, cut, bad.
  destruct (lim - pos <? 40); [reflexivity|].
  destruct (negb (B bs pos / 16 =? 6)); [reflexivity|]. apply pwire_ipv6_body_sound.
Qed.

Lemma pwire_ip_sound bs p src pos lim :
  forget (pwire_ip bs p src pos lim) = wire_ip bs p src pos lim.
Proof.
  unfold pwire_ip, wire_ip, cut, bad.
  destruct (lim - pos =? 0); [reflexivity|].
  destruct (B bs pos / 16 =? 4).
  { destruct (B bs pos mod 16 <? 5); [reflexivity|].
    destruct (lim - pos <? B bs pos mod 16 * 4); [reflexivity|]. apply pwire_ipv4_body_sound. }
  destruct (B bs pos / 16 =? 6); [|reflexivity].
  destruct (lim - pos <? 40); [reflexivity|]. apply pwire_ipv6_body_sound.
Qed.

Lemma pwire_net_sound bs p et src pos lim :
  forget (pwire_net bs p et src pos lim) = wire_net bs p et src pos lim.
Proof.
  unfold pwire_net, wire_net.
  destruct (et =? 2054); [apply forget_pres_of|].
  destruct (et =? 2048); [apply pwire_ipv4_sound|].
  destruct (et =? 34525); [apply pwire_ipv6_sound|reflexivity].
Qed.

Lemma pwire_ether_sound bs cap : forall p et src pos lim,
  forget (pwire_ether bs cap p et src pos lim) = wire_ether bs cap p et src pos lim.
Proof.
  induction cap as [|cap IH]; intros p et src pos lim; cbn [pwire_ether wire_ether]; unfold cut, bad.
  - destruct (is_vlan et); [reflexivity|]. destruct (et =? 35045); [reflexivity|]. apply pwire_net_sound.
  - destruct (is_vlan et).
    { destruct (lim - pos <? 4); [reflexivity|apply IH]. }
    destruct (et =? 35045); [|apply pwire_net_sound].
    destruct (lim - pos <? 6); [reflexivity|].
    destruct (128 <=? B bs pos); [reflexivity|].
    destruct (((B bs pos / 4) mod 4 =? 0) && (B bs (pos + 1) mod 64 =? 1)); [reflexivity|].
    destruct (lim - pos <? _); [reflexivity|].
    destruct ((0 <? B bs (pos + 1) mod 64) && _); [reflexivity|].
    destruct ((B bs pos / 4) mod 4 =? 0); [apply IH|reflexivity].
Qed.

Theorem pwire_sound bs et :
  forget (pwire_ethernet bs) = wire_ethernet bs /\
  forget (pwire_ether_type bs et) = wire_ether_type bs et /\
  forget (pwire_from_ip bs) = wire_from_ip bs.
Proof.
  split; [|split].
  - unfold pwire_ethernet, wire_ethernet, cut. destruct (n_bs bs <? 14); [reflexivity|apply pwire_ether_sound].
  - apply pwire_ether_sound.
  - apply pwire_ip_sound.
Qed.

(* ---- prefix order on views ---------------------------------------------------------------------- *)
Lemma vprefix_refl p : vprefix p p.
Proof. unfold vprefix. repeat split; auto. exists []. now rewrite app_nil_r. Qed.

Lemma vprefix_trans p q r : vprefix p q -> vprefix q r -> vprefix p r.
Proof.
  intros (A1 & (x & A2) & A3 & A4) (B1 & (y & B2) & B3 & B4). unfold vprefix.
  split; [congruence|]. split; [exists (x ++ y); rewrite B2, A2, app_assoc; reflexivity|].
  split.
  - destruct A3 as [A3|A3]; [now left|]. destruct B3 as [B3|B3]; [left; congruence|right; congruence].
  - destruct A4 as [A4|A4]; [now left|]. destruct B4 as [B4|B4]; [left; congruence|right; congruence].
Qed.

Lemma strictify_lstop p e : strictify (lstop p e) = strictify p.
Proof. reflexivity. Qed.
Lemma strictify_lstop_opt p e : strictify (lstop_opt p e) = strictify p.
Proof. destruct e; reflexivity. Qed.
Lemma strictify_lwith_net p n : strictify (lwith_net p n) = with_net (strictify p) (strictify_net n).
Proof. reflexivity. Qed.
Lemma strictify_lwith_tr p t : strictify (lwith_tr p t) = with_tr (strictify p) t.
Proof. reflexivity. Qed.
Lemma strictify_lwith_ext p x : strictify (lwith_ext p x) = with_ext (strictify p) (strictify_ext x).
Proof. unfold strictify, lwith_ext, with_ext. cbn. now rewrite map_app. Qed.

Lemma vprefix_with_net p n : v_net p = None -> vprefix p (with_net p n).
Proof. intros H. unfold vprefix, with_net. cbn. repeat split; auto. exists []. now rewrite app_nil_r. Qed.
Lemma vprefix_with_tr p t : v_transport p = None -> vprefix p (with_tr p t).
Proof. intros H. unfold vprefix, with_tr. cbn. repeat split; auto. exists []. now rewrite app_nil_r. Qed.
Lemma vprefix_with_ext p x : vprefix p (with_ext p x).
Proof. unfold vprefix, with_ext. cbn. repeat split; auto. now exists [x]. Qed.

Lemma strictify_net_none p : lv_net p = None -> v_net (strictify p) = None.
Proof. intros H. unfold strictify. cbn. now rewrite H. Qed.
Lemma strictify_tr p : v_transport (strictify p) = lv_transport p.
Proof. reflexivity. Qed.

(* ---- the lax reference decoder only adds layers ---------------------------------------------------- *)
Lemma M_transport bs p ipn frag psrc pos lim :
  lv_transport p = None ->
  vprefix (strictify p) (strictify (lwire_transport bs p ipn frag psrc pos lim)).
Proof.
  intros Ht. unfold lwire_transport, lwire_icmp4, lwire_udp, lwire_tcp, lwire_icmp6, lcut.
  repeat match goal with |- context[if ?c then _ else _] => destruct c end;
    rewrite ?strictify_lstop, ?strictify_lwith_tr;
    first [apply vprefix_refl | apply vprefix_with_tr; exact Ht].
Qed.

Lemma ltransport_stop_keeps bs p ipn frag psrc pos lim e :
  lv_stop p = Some e -> lwire_transport bs p ipn frag psrc pos lim = p.
Proof. intros H. unfold lwire_transport, lhas_stop. rewrite H. now rewrite orb_true_r. Qed.

Lemma M_ip_body bs p csrc pos lim :
  lv_net p = None -> lv_transport p = None ->
  vprefix (strictify p) (strictify (lwire_ip_body bs p csrc pos lim)).
Proof.
  intros Hn Ht. unfold lwire_ip_body.
  destruct (lwire_ip_parts bs csrc pos lim) as [[[net pl] st] lim'].
  eapply vprefix_trans; [|apply M_transport; destruct st; exact Ht].
  rewrite strictify_lstop_opt, strictify_lwith_net. apply vprefix_with_net. now apply strictify_net_none.
Qed.

Lemma M_ip bs p csrc pos lim :
  lv_net p = None -> lv_transport p = None ->
  vprefix (strictify p) (strictify (lwire_ip bs p csrc pos lim)).
Proof.
  intros Hn Ht. unfold lwire_ip. destruct (ip_hdr_fault bs csrc pos lim); [apply vprefix_refl|].
  now apply M_ip_body.
Qed.

Lemma M_arp bs p csrc pos lim :
  lv_net p = None -> vprefix (strictify p) (strictify (lwire_arp bs p csrc pos lim)).
Proof.
  intros Hn. unfold lwire_arp, lcut.
  repeat match goal with |- context[if ?c then _ else _] => destruct c end;
    rewrite ?strictify_lstop, ?strictify_lwith_net;
    first [apply vprefix_refl | apply vprefix_with_net; now apply strictify_net_none].
Qed.

Lemma M_ether bs cap : forall p et csrc pos lim,
  lv_net p = None -> lv_transport p = None ->
  vprefix (strictify p) (strictify (lwire_ether bs cap p et csrc pos lim)).
Proof.
  assert (Net : forall p et csrc pos lim, lv_net p = None -> lv_transport p = None ->
            vprefix (strictify p)
              (strictify (if et =? 2054 then lwire_arp bs p csrc pos lim
                          else if (et =? 2048) || (et =? 34525) then lwire_ip bs p csrc pos lim else p))).
  { intros p et csrc pos lim Hn Ht. destruct (et =? 2054); [now apply M_arp|].
    destruct ((et =? 2048) || (et =? 34525)); [now apply M_ip|apply vprefix_refl]. }
  induction cap as [|cap IH]; intros p et csrc pos lim Hn Ht; cbn [lwire_ether].
  - destruct (is_vlan et); [apply vprefix_refl|]. destruct (et =? 35045); [apply vprefix_refl|]. now apply Net.
  - destruct (is_vlan et).
    { unfold lcut. destruct (lim - pos <? 4); [apply vprefix_refl|].
      eapply vprefix_trans; [|apply IH; assumption].
      rewrite strictify_lwith_ext. apply vprefix_with_ext. }
    destruct (et =? 35045); [|now apply Net].
    unfold lcut.
    repeat match goal with
           | |- context[if ?c then lstop _ _ else _] => destruct c; [apply vprefix_refl|]
           end.
    cbv zeta. destruct ((B bs pos / 4) mod 4 =? 0).
    + eapply vprefix_trans; [|apply IH; assumption].
      rewrite strictify_lwith_ext. apply vprefix_with_ext.
    + rewrite strictify_lwith_ext. apply vprefix_with_ext.
Qed.

(* ---- what lax made of a strict fault ------------------------------------------------------------ *)
Definition lax_outcome (e : slice_error) (q : lvpacket) : Prop :=
  (* a documented length fallback: lax went on with the data that is there *)
  fallback e \/
  (* recorded: same error record, layer tag fitting the error *)
  (exists e' ly, lv_stop q = Some (e', ly) /\ lax_same e e' /\ tag_ok e' ly) \/
  (* F11: a fault of the IP header, recorded as IP-header fault at the same offset *)
  (ip_hdr_class e /\
   exists e', lv_stop q = Some (e', LyIpHeader) /\ ip_hdr_class e' /\
              (forall o o', err_off e = Some o -> err_off e' = Some o' -> o = o')).

Lemma lax_same_refl e : lax_same e e.
Proof. destruct e; cbn; auto. repeat split; auto. Qed.

Lemma recorded_same q e ly : lv_stop q = Some (e, ly) -> tag_ok e ly -> lax_outcome e q.
Proof. intros H T. right. left. exists e, ly. split; [exact H|]. split; [apply lax_same_refl|exact T]. Qed.

(* ---- transport ------------------------------------------------------------------------------------- *)
Lemma pres_of_rej p r q e : pres_of p r = PRej q e -> q = p /\ r = VErr e.
Proof. destruct r; cbn; intros H; try discriminate. injection H as <- <-. auto. Qed.

Lemma b_transport bs p lp ipn frag src psrc pos lim q e :
  strictify lp = p -> lv_stop lp = None -> lv_transport lp = None ->
  (psrc = src \/ psrc = LsSlice) ->
  pwire_transport bs p ipn frag src pos lim = PRej q e ->
  vprefix q (strictify (lwire_transport bs lp ipn frag psrc pos lim)) /\
  lax_outcome e (lwire_transport bs lp ipn frag psrc pos lim).
Proof.
  intros Hs Hst Htr Hsrc H. apply pres_of_rej in H. destruct H as (-> & H).
  split; [rewrite <- Hs; now apply M_transport|].
  revert H. unfold wire_transport, lwire_transport, lhas_stop. rewrite Hst. rewrite orb_false_r.
  assert (Cut : forall req a ly tag, tag_ok (ELen (mkLenError req a psrc ly pos)) tag ->
            lax_outcome (ELen (mkLenError req a src ly pos)) (lcut lp req a psrc ly pos tag)).
  { intros req a ly tag T. right. left. eexists _, tag. split; [reflexivity|]. split; [|exact T].
    cbn. repeat split; auto. destruct Hsrc as [->| ->]; auto. }
  destruct frag; [discriminate|].
  destruct (ipn =? 1).
  { unfold wire_icmp4, lwire_icmp4, cut.
    destruct (lim - pos <? 8). { intros H. injection H as <-. now apply Cut. }
    destruct ((B bs pos =? 13) && (B bs (pos + 1) =? 0) && negb (lim - pos =? 20)).
    { intros H. injection H as <-. now apply Cut. }
    destruct ((B bs pos =? 14) && (B bs (pos + 1) =? 0) && negb (lim - pos =? 20)).
    { intros H. injection H as <-. now apply Cut. }
    discriminate. }
  destruct (ipn =? 17).
  { unfold wire_udp, lwire_udp, cut.
    destruct (lim - pos <? 8). { intros H. injection H as <-. now apply Cut. }
    destruct (lim - pos <? W bs (pos + 4)). { intros H. injection H as <-. left. cbn. auto. }
    destruct (W bs (pos + 4) =? 0); [discriminate|].
    destruct (W bs (pos + 4) <? 8); [|discriminate].
    intros H. injection H as <-. left. cbn. auto 6. }
  destruct (ipn =? 6).
  { unfold wire_tcp, lwire_tcp, cut, bad.
    destruct (lim - pos <? 20). { intros H. injection H as <-. now apply Cut. }
    destruct (B bs (pos + 12) / 16 <? 5).
    { intros H. injection H as <-. apply (recorded_same _ _ LyTcpHeader); reflexivity. }
    destruct (lim - pos <? B bs (pos + 12) / 16 * 4). { intros H. injection H as <-. now apply Cut. }
    discriminate. }
  destruct (ipn =? 58); [|discriminate].
  unfold wire_icmp6, lwire_icmp6, cut.
  destruct (lim - pos <? 8). { intros H. injection H as <-. now apply Cut. }
  destruct (4294967295 <? lim - pos). { intros H. injection H as <-. now apply Cut. }
  discriminate.
Qed.

(* ---- authentication header / extension chain: strict reference against lax reference -------------- *)
Lemma ah_dec_wire bs zero src pos lim :
  wire_ah bs zero src pos lim =
  match ah_dec bs zero src pos lim with
  | inl (l, next) => AhOk l next
  | inr e => AhErr (VErr e)
  end.
Proof.
  unfold wire_ah, ah_dec, cut, bad.
  destruct (lim - pos <? 12); [reflexivity|].
  destruct (B bs (pos + 1) =? 0); [reflexivity|].
  destruct (lim - pos <? (B bs (pos + 1) + 2) * 4); reflexivity.
Qed.

Lemma ah_dec_tag bs src pos lim e :
  ah_dec bs CeIpv6AuthZeroPayloadLen src pos lim = inr e -> tag_ok e LyIpAuthHeader.
Proof.
  unfold ah_dec. destruct (lim - pos <? 12). { intros H. injection H as <-. reflexivity. }
  destruct (B bs (pos + 1) =? 0). { intros H. injection H as <-. reflexivity. }
  destruct (lim - pos <? (B bs (pos + 1) + 2) * 4); [|discriminate]. intros H. injection H as <-. reflexivity.
Qed.

Lemma ah4_dec_tag bs src pos lim e :
  ah_dec bs CeAuthZeroPayloadLen src pos lim = inr e -> tag_ok e LyIpAuthHeader.
Proof.
  unfold ah_dec. destruct (lim - pos <? 12). { intros H. injection H as <-. reflexivity. }
  destruct (B bs (pos + 1) =? 0). { intros H. injection H as <-. reflexivity. }
  destruct (lim - pos <? (B bs (pos + 1) + 2) * 4); [|discriminate]. intros H. injection H as <-. reflexivity.
Qed.

(* what the strict chain says, the lax chain says too *)
Definition chain_agree (w : chain_res) (l : N * N * bool * option stop_error) : Prop :=
  match w with
  | ChOk e next fr => l = (e, next, fr, None)
  | ChErr (VErr err) => exists e next fr ly, l = (e, next, fr, Some (err, ly)) /\ tag_ok err ly
  | ChErr _ => True
  end.

Lemma chain_wire bs src fuel : forall pos lim nh frag,
  chain_agree (wire_chain bs fuel src pos lim nh frag) (lwire_chain bs fuel src pos lim nh frag).
Proof.
  induction fuel as [|f IH]; intros pos lim nh frag; cbn [wire_chain lwire_chain]; [exact I|].
  unfold cut, bad.
  destruct (nh =? 0). { cbn. eexists _, _, _, _. split; reflexivity. }
  destruct ((nh =? 60) || (nh =? 43)).
  { destruct (lim - pos <? 8).
    { cbn. eexists _, _, _, _. split; [reflexivity|]. cbn. destruct (nh =? 60); auto. }
    destruct (lim - pos <? (B bs (pos + 1) + 1) * 8).
    { cbn. eexists _, _, _, _. split; [reflexivity|]. cbn. destruct (nh =? 60); auto. }
    apply IH. }
  destruct (nh =? 44).
  { destruct (lim - pos <? 8). { cbn. eexists _, _, _, _. split; reflexivity. }
    apply IH. }
  destruct (nh =? 51); [|reflexivity].
  rewrite ah_dec_wire.
  destruct (ah_dec bs CeIpv6AuthZeroPayloadLen src pos lim) as [[l next]|e] eqn:Ea; [apply IH|].
  cbn. eexists _, _, _, _. split; [reflexivity|]. eapply ah_dec_tag; eauto.
Qed.

Lemma exts_wire bs src fuel pos lim nh :
  chain_agree (wire_exts bs fuel src pos lim nh) (lwire_exts bs fuel src pos lim nh).
Proof.
  unfold wire_exts, lwire_exts, cut.
  destruct (nh =? 0); [|apply chain_wire].
  destruct (lim - pos <? 8). { cbn. eexists _, _, _, _. split; [reflexivity|]. cbn. auto. }
  destruct (lim - pos <? (B bs (pos + 1) + 1) * 8). { cbn. eexists _, _, _, _. split; [reflexivity|]. cbn. auto. }
  apply chain_wire.
Qed.

(* ---- IPv4 / IPv6 behind a decodable header ------------------------------------------------------------ *)
Section IpBody.
  Variables (bs : bytes) (p : vpacket) (lp : lvpacket) (src : len_source) (pos lim : N).
  Hypothesis Hs : strictify lp = p.
  Hypothesis Hst : lv_stop lp = None.
  Hypothesis Hn : lv_net lp = None.
  Hypothesis Htr : lv_transport lp = None.

  Let goal (q : vpacket) (e : slice_error) (r : lvpacket) : Prop :=
    vprefix q (strictify r) /\ lax_outcome e r.

  Ltac use_b_transport H Hps :=
    match goal with
    | |- context[lwire_transport ?bs (lwith_net ?lp ?net) _ _ _ _ _] =>
        apply (b_transport bs _ (lwith_net lp net) _ _ _ _ _ _ _ _
                 (f_equal (fun x => with_net x (strictify_net net)) Hs) Hst Htr Hps H)
    end.

  Lemma goal_fallback e r : fallback e -> vprefix p (strictify r) -> goal p e r.
  Proof. intros F V. split; [exact V|now left]. Qed.

  (* IPv4 behind the length checks; the payload ends at lim' *)
  Lemma b_ipv4_tail hl lim' q e :
    pwire_ipv4_tail bs p pos hl lim' = PRej q e ->
    let '(net, pl, st, l') := lwire_ipv4_parts bs src pos hl lim' LsIpv4HeaderTotalLen false in
    goal q e (lwire_transport bs (lstop_opt (lwith_net lp net) st)
                (lvip_number pl) (lvip_frag pl) (lvip_src pl) (fst (lvip_win pl)) l').
  Proof.
    unfold pwire_ipv4_tail, lwire_ipv4_parts.
    change (pick_src LsIpv4HeaderTotalLen src) with LsIpv4HeaderTotalLen.
    destruct (B bs (pos + 9) =? 51).
    - rewrite ah_dec_wire.
      destruct (ah_dec bs CeAuthZeroPayloadLen LsIpv4HeaderTotalLen (pos + hl) lim') as [[ahl next]|e0] eqn:Ea.
      + intros H. cbn [lstop_opt lvip_number lvip_frag lvip_src lvip_win fst].
        use_b_transport H (@or_introl (LsIpv4HeaderTotalLen = LsIpv4HeaderTotalLen) (LsIpv4HeaderTotalLen = LsSlice) eq_refl).
      + intros H. apply pres_of_rej in H. destruct H as (-> & H). injection H as <-.
        cbn [lstop_opt]. rewrite (ltransport_stop_keeps _ _ _ _ _ _ _ (e0, LyIpAuthHeader)) by reflexivity.
        split.
        * rewrite strictify_lstop, strictify_lwith_net, Hs. apply vprefix_with_net.
          rewrite <- Hs. now apply strictify_net_none.
        * apply (recorded_same _ _ LyIpAuthHeader); [reflexivity|]. eapply ah4_dec_tag; eauto.
    - intros H. cbn [lstop_opt lvip_number lvip_frag lvip_src lvip_win fst].
      use_b_transport H (@or_introl (LsIpv4HeaderTotalLen = LsIpv4HeaderTotalLen) (LsIpv4HeaderTotalLen = LsSlice) eq_refl).
  Qed.

  (* IPv6 behind the length checks *)
  Lemma b_ipv6_tail esrc psrc lim' q e :
    pick_src psrc src = esrc -> (psrc = esrc \/ psrc = LsSlice) ->
    pwire_ipv6_tail bs p esrc psrc pos lim' = PRej q e ->
    let '(net, pl, st, l') := lwire_ipv6_parts bs src pos lim' psrc false in
    goal q e (lwire_transport bs (lstop_opt (lwith_net lp net) st)
                (lvip_number pl) (lvip_frag pl) (lvip_src pl) (fst (lvip_win pl)) l').
  Proof.
    intros Hpick Hps. unfold pwire_ipv6_tail, lwire_ipv6_parts. rewrite Hpick.
    pose proof (exts_wire bs esrc (S (N.to_nat (lim' - (pos + 40)))) (pos + 40) lim' (B bs (pos + 6))) as X.
    destruct (wire_exts bs _ esrc (pos + 40) lim' (B bs (pos + 6))) as [e1 next fr|r].
    - cbn in X. rewrite X. intros H. cbn [lstop_opt lvip_number lvip_frag lvip_src lvip_win fst].
      use_b_transport H Hps.
    - intros H. apply pres_of_rej in H. destruct H as (-> & ->). cbn in X.
      destruct X as (e1 & next & fr & ly & -> & T). cbn [lstop_opt].
      rewrite (ltransport_stop_keeps _ _ _ _ _ _ _ (e, ly)) by reflexivity.
      split.
      + rewrite strictify_lstop, strictify_lwith_net, Hs. apply vprefix_with_net.
        rewrite <- Hs. now apply strictify_net_none.
      + apply (recorded_same _ _ ly); [reflexivity|exact T].
  Qed.

  Lemma b_ipv4_body q e :
    ip_hdr_fault bs src pos lim = None -> B bs pos / 16 = 4 ->
    pwire_ipv4_body bs p src pos lim (B bs pos mod 16 * 4) = PRej q e ->
    goal q e (lwire_ip_body bs lp src pos lim).
  Proof.
    intros HF H4.
    assert (V : vprefix p (strictify (lwire_ip_body bs lp src pos lim)))
      by (rewrite <- Hs; now apply M_ip_body).
    revert V. unfold pwire_ipv4_body, lwire_ip_body, lwire_ip_parts.
    rewrite H4. change (4 =? 4) with true. cbv iota.
    destruct (W bs (pos + 2) <? B bs pos mod 16 * 4).
    { intros V H. injection H as <- <-. apply goal_fallback; [cbn; auto|exact V]. }
    destruct (lim - pos <? W bs (pos + 2)).
    { intros V H. injection H as <- <-. apply goal_fallback; [cbn; auto|exact V]. }
    intros _ H. apply b_ipv4_tail in H. revert H.
    match goal with |- context[lwire_ipv4_parts ?a ?b ?c ?d ?e ?f ?g] =>
      destruct (lwire_ipv4_parts a b c d e f g) as [[[net pl] st] l'] end. exact (fun H => H).
  Qed.

  Lemma b_ipv6_body q e :
    ip_hdr_fault bs src pos lim = None -> B bs pos / 16 = 6 ->
    pwire_ipv6_body bs p src pos lim = PRej q e ->
    goal q e (lwire_ip_body bs lp src pos lim).
  Proof.
    intros HF H6.
    assert (V : vprefix p (strictify (lwire_ip_body bs lp src pos lim)))
      by (rewrite <- Hs; now apply M_ip_body).
    revert V. unfold pwire_ipv6_body, lwire_ip_body, lwire_ip_parts.
    rewrite H6. change (6 =? 4) with false. cbv iota.
    destruct ((W bs (pos + 4) =? 0) && (40 <? lim - pos)).
    { intros _ H. apply (b_ipv6_tail src LsSlice) in H; [|reflexivity|now right]. revert H.
      match goal with |- context[lwire_ipv6_parts ?a ?b ?c ?d ?e ?f] =>
        destruct (lwire_ipv6_parts a b c d e f) as [[[net pl] st] l'] end. exact (fun H => H). }
    destruct (lim - pos <? 40 + W bs (pos + 4)).
    { intros V H. injection H as <- <-. apply goal_fallback; [cbn; auto|exact V]. }
    intros _ H. apply (b_ipv6_tail LsIpv6HeaderPayloadLen LsIpv6HeaderPayloadLen) in H;
      [|reflexivity|now left]. revert H.
    match goal with |- context[lwire_ipv6_parts ?a ?b ?c ?d ?e ?f] =>
      destruct (lwire_ipv6_parts a b c d e f) as [[[net pl] st] l'] end. exact (fun H => H).
  Qed.

  (* a fault of the IP header itself, recorded by lax as IP-header fault *)
  Lemma goal_ip_group e e' :
    ip_hdr_fault bs src pos lim = Some e' -> ip_hdr_class e ->
    (forall o, err_off e = Some o -> o = pos) ->
    goal p e (lwire_ip bs lp src pos lim).
  Proof.
    intros HF C Ho. unfold lwire_ip. rewrite HF. split.
    - rewrite strictify_lstop, Hs. apply vprefix_refl.
    - right. right. split; [exact C|]. exists e'. split; [reflexivity|].
      revert HF. unfold ip_hdr_fault.
      repeat match goal with |- context[if ?c then _ else _] => destruct c end;
        intros H; try discriminate; injection H as <-; (split; [cbn; auto|]);
        intros o o' H1 H2; cbn in H2; try discriminate; injection H2 as <-; now apply Ho.
  Qed.

  (* reached through the IPv4 ether type *)
  Lemma b_ipv4 q e :
    pwire_ipv4 bs p src pos lim = PRej q e -> ~ F10_class bs e ->
    goal q e (lwire_ip bs lp src pos lim).
  Proof.
    unfold pwire_ipv4. intros H NF.
    destruct (ip_hdr_fault bs src pos lim) as [e'|] eqn:HF.
    - (* lax sees a broken IP header: then strict's verdict is an IP-header fault too *)
      assert (q = p /\ ip_hdr_class e /\ (forall o, err_off e = Some o -> o = pos)) as (-> & C & Ho).
      { revert HF H. unfold ip_hdr_fault.
        destruct (lim - pos <? 20) eqn:E20.
        { intros _ H. injection H as <- <-. cbn. split; [reflexivity|]. split; [auto|].
          intros o Ho. now injection Ho as <-. }
        assert ((lim - pos =? 0) = false) as -> by lia.
        destruct (B bs pos / 16 =? 4) eqn:E4; cbn [negb].
        { destruct (B bs pos mod 16 <? 5).
          { intros _ H. injection H as <- <-. cbn. split; [reflexivity|]. split; [auto|]. discriminate. }
          destruct (lim - pos <? B bs pos mod 16 * 4); [|discriminate].
          intros _ H. injection H as <- <-. cbn. split; [reflexivity|]. split; [auto|].
          intros o Ho. now injection Ho as <-. }
        intros _ H. injection H as <- <-. cbn. split; [reflexivity|]. split; [auto|]. discriminate. }
      now apply (goal_ip_group e e').
    - (* lax decodes the header *)
      revert HF H. unfold ip_hdr_fault at 1.
      destruct (lim - pos =? 0) eqn:E0; [discriminate|].
      destruct (B bs pos / 16 =? 4) eqn:E4.
      + destruct (B bs pos mod 16 <? 5) eqn:Ei; [discriminate|].
        destruct (lim - pos <? B bs pos mod 16 * 4) eqn:Eh; [discriminate|]. intros _.
        assert ((lim - pos <? 20) = false) as -> by lia. cbn [negb].
        intros H.
        assert (HF : ip_hdr_fault bs src pos lim = None).
        { unfold ip_hdr_fault. now rewrite E0, E4, Ei, Eh. }
        unfold lwire_ip. rewrite HF. apply b_ipv4_body; [exact HF|lia|exact H].
      + destruct (B bs pos / 16 =? 6) eqn:E6; [|discriminate].
        destruct (lim - pos <? 40) eqn:E40; [discriminate|]. intros _.
        assert ((lim - pos <? 20) = false) as -> by lia. cbn [negb].
        intros H. injection H as <- <-. exfalso. apply NF. left.
        assert (B bs pos / 16 = 6) as -> by lia. reflexivity.
  Qed.

  (* reached through the IPv6 ether type *)
  Lemma b_ipv6 q e :
    pwire_ipv6 bs p src pos lim = PRej q e -> ~ F10_class bs e ->
    goal q e (lwire_ip bs lp src pos lim).
  Proof.
    unfold pwire_ipv6. intros H NF.
    destruct (ip_hdr_fault bs src pos lim) as [e'|] eqn:HF.
    - assert (q = p /\ ip_hdr_class e /\ (forall o, err_off e = Some o -> o = pos)) as (-> & C & Ho).
      { revert H. destruct (lim - pos <? 40) eqn:E40.
        { intros H. injection H as <- <-. cbn. split; [reflexivity|]. split; [auto|].
          intros o Ho. now injection Ho as <-. }
        destruct (negb (B bs pos / 16 =? 6)) eqn:E6.
        { intros H. injection H as <- <-. cbn. split; [reflexivity|]. split; [auto|]. discriminate. }
        exfalso. revert HF. unfold ip_hdr_fault.
        assert ((B bs pos / 16 =? 4) = false) as -> by lia.
        assert ((B bs pos / 16 =? 6) = true) as -> by lia.
        assert ((lim - pos =? 0) = false) as -> by lia. rewrite E40. discriminate. }
      now apply (goal_ip_group e e').
    - revert HF H. unfold ip_hdr_fault at 1.
      destruct (lim - pos =? 0) eqn:E0; [discriminate|].
      destruct (B bs pos / 16 =? 4) eqn:E4.
      + destruct (B bs pos mod 16 <? 5) eqn:Ei; [discriminate|].
        destruct (lim - pos <? B bs pos mod 16 * 4) eqn:Eh; [discriminate|]. intros _.
        destruct (lim - pos <? 40) eqn:E40.
        { intros H. injection H as <- <-. exfalso. apply NF. right. right.
          eexists. split; [reflexivity|]. cbn. split; [reflexivity|lia]. }
        assert (negb (B bs pos / 16 =? 6) = true) as -> by lia.
        intros H. injection H as <- <-. exfalso. apply NF. right. left.
        assert (B bs pos / 16 = 4) as -> by lia. reflexivity.
      + destruct (B bs pos / 16 =? 6) eqn:E6; [|discriminate].
        destruct (lim - pos <? 40) eqn:E40; [discriminate|]. intros _. cbn [negb].
        intros H.
        assert (HF : ip_hdr_fault bs src pos lim = None).
        { unfold ip_hdr_fault. now rewrite E0, E4, E6, E40. }
        unfold lwire_ip. rewrite HF. apply b_ipv6_body; [exact HF|lia|exact H].
  Qed.

  (* starting at "an IP header" behind a decodable header (from_ip) *)
  Lemma b_ip q e :
    ip_hdr_fault bs src pos lim = None ->
    pwire_ip bs p src pos lim = PRej q e ->
    goal q e (lwire_ip_body bs lp src pos lim).
  Proof.
    intros HF. pose proof HF as HF'. revert HF'. unfold ip_hdr_fault, pwire_ip.
    destruct (lim - pos =? 0) eqn:E0; [discriminate|].
    destruct (B bs pos / 16 =? 4) eqn:E4.
    - destruct (B bs pos mod 16 <? 5) eqn:Ei; [discriminate|].
      destruct (lim - pos <? B bs pos mod 16 * 4) eqn:Eh; [discriminate|]. intros _ H.
      apply b_ipv4_body; [exact HF|lia|exact H].
    - destruct (B bs pos / 16 =? 6) eqn:E6; [|discriminate].
      destruct (lim - pos <? 40) eqn:E40; [discriminate|]. intros _ H.
      apply b_ipv6_body; [exact HF|lia|exact H].
  Qed.
End IpBody.

(* ---- ARP ------------------------------------------------------------------------------------------------ *)
Lemma b_arp bs p lp src pos lim q e :
  strictify lp = p -> lv_net lp = None ->
  pres_of p (wire_arp bs p src pos lim) = PRej q e ->
  vprefix q (strictify (lwire_arp bs lp src pos lim)) /\ lax_outcome e (lwire_arp bs lp src pos lim).
Proof.
  intros Hs Hn H. apply pres_of_rej in H. destruct H as (-> & H).
  split; [rewrite <- Hs; now apply M_arp|].
  revert H. unfold wire_arp, lwire_arp, cut, lcut.
  destruct (lim - pos <? 8).
  { intros H. injection H as <-. apply (recorded_same _ _ LyArp); reflexivity. }
  destruct (lim - pos <? 8 + B bs (pos + 4) * 2 + B bs (pos + 5) * 2); [|discriminate].
  intros H. injection H as <-. right. left. eexists _, LyArp. split; [reflexivity|].
  split; [|reflexivity]. cbn. repeat split; auto.
Qed.

(* ---- the link extension loop -------------------------------------------------------------------------------- *)
Lemma b_net bs p lp et src pos lim q e :
  strictify lp = p -> lv_stop lp = None -> lv_net lp = None -> lv_transport lp = None ->
  pwire_net bs p et src pos lim = PRej q e -> ~ F10_class bs e ->
  let r := (if et =? 2054 then lwire_arp bs lp src pos lim
            else if (et =? 2048) || (et =? 34525) then lwire_ip bs lp src pos lim else lp) in
  vprefix q (strictify r) /\ lax_outcome e r.
Proof.
  intros Hs Hst Hn Htr H NF. revert H. unfold pwire_net. cbv zeta.
  destruct (et =? 2054); [now apply b_arp|].
  destruct (et =? 2048); [cbn [orb]; intros H; now apply (b_ipv4 bs p lp src pos lim)|].
  destruct (et =? 34525); [cbn [orb]; intros H; now apply (b_ipv6 bs p lp src pos lim)|].
  discriminate.
Qed.

Lemma b_ether bs cap : forall p lp et src pos lim q e,
  strictify lp = p -> lv_stop lp = None -> lv_net lp = None -> lv_transport lp = None ->
  pwire_ether bs cap p et src pos lim = PRej q e -> ~ F10_class bs e ->
  vprefix q (strictify (lwire_ether bs cap lp et src pos lim)) /\
  lax_outcome e (lwire_ether bs cap lp et src pos lim).
Proof.
  induction cap as [|cap IH]; intros p lp et src pos lim q e Hs Hst Hn Htr H NF; revert H;
    cbn [pwire_ether lwire_ether].
  - destruct (is_vlan et); [discriminate|]. destruct (et =? 35045); [discriminate|].
    intros H. now apply (b_net bs p lp et src pos lim).
  - assert (Rec : forall e0 tag, lax_same e e0 -> tag_ok e0 tag ->
              vprefix p (strictify (lstop lp (e0, tag))) /\ lax_outcome e (lstop lp (e0, tag))).
    { intros e0 tag S T. split; [rewrite strictify_lstop, Hs; apply vprefix_refl|].
      right. left. exists e0, tag. split; [reflexivity|]. split; assumption. }
    destruct (is_vlan et).
    { unfold lcut. destruct (lim - pos <? 4).
      { intros H. injection H as <- <-. apply Rec; [|reflexivity]. cbn. repeat split; auto. }
      intros H. apply (IH (with_ext p (VVlan (pos, lim - pos))) (lwith_ext lp (LVVlan (pos, lim - pos)))
                         _ src _ _ q e); auto.
      rewrite strictify_lwith_ext, Hs. reflexivity. }
    destruct (et =? 35045); [|intros H; now apply (b_net bs p lp et src pos lim)].
    unfold lcut. destruct (lim - pos <? 6).
    { intros H. injection H as <- <-. apply Rec; [|reflexivity]. cbn. repeat split; auto. }
    destruct (128 <=? B bs pos).
    { intros H. injection H as <- <-. apply Rec; reflexivity. }
    set (sl := B bs (pos + 1) mod 64) in *.
    set (unmod := (B bs pos / 4) mod 4 =? 0) in *.
    destruct (unmod && (sl =? 1)).
    { intros H. injection H as <- <-. apply Rec; reflexivity. }
    set (hl := 6 + (if unmod then 2 else 0) + (if negb ((B bs pos / 32) mod 2 =? 0) then 8 else 0)) in *.
    destruct (lim - pos <? hl).
    { intros H. injection H as <- <-. apply Rec; [|reflexivity]. cbn. repeat split; auto. }
    set (body := if unmod then sl - 2 else sl) in *.
    cbv zeta.
    destruct ((0 <? sl) && (lim - pos <? hl + body)) eqn:Efb.
    { (* the short length promises more than is there: lax falls back to the slice end *)
      intros H. injection H as <- <-. split; [|left; cbn; auto].
      assert ((0 <? sl) && negb (lim - pos <? hl + body) = false) as -> by
        (destruct (0 <? sl), (lim - pos <? hl + body); cbn in *; congruence).
      destruct unmod.
      - eapply vprefix_trans; [|apply M_ether; assumption].
        rewrite strictify_lwith_ext, Hs. apply vprefix_with_ext.
      - rewrite strictify_lwith_ext, Hs. apply vprefix_with_ext. }
    assert (Esh : (0 <? sl) && negb (lim - pos <? hl + body) = (0 <? sl))
      by (destruct (0 <? sl), (lim - pos <? hl + body); cbn in *; congruence).
    rewrite Esh.
    destruct unmod; [|discriminate].
    intros H.
    assert (Epick : pick_src (if 0 <? sl then LsMacsecShortLength else LsSlice) src
                    = (if 0 <? sl then LsMacsecShortLength else src))
      by (destruct (0 <? sl); reflexivity).
    rewrite Epick.
    match type of H with
    | pwire_ether _ _ ?p' _ _ _ _ = _ =>
        match goal with
        | |- context[lwire_ether bs cap (lwith_ext lp ?x) ?et' ?s' ?pos' ?lim'] =>
            apply (IH p' (lwith_ext lp x) et' s' pos' lim' q e); auto
        end
    end.
    rewrite strictify_lwith_ext, Hs. reflexivity.
Qed.

(* ---- (b) for the models: whole-packet entry points ------------------------------------------------------------ *)
(* strict = the strict model's verdict, pw = the instrumented strict reference decoder, lax = the lax model *)
Definition prefix_ok (bs : bytes) (strict : res sliced_packet) (pw : pres) (lax : res lax_sliced_packet)
  : Prop :=
  forall e, strict = Err e ->
  exists q e_ref r',
    pw = PRej q e_ref /\              (* q = the layers in front of the fault, e_ref = the fault *)
    res_rel (VErr e) (VErr e_ref) /\  (* the strict model reports that fault (C03/C07 relation) *)
    lax = Ok r' /\
    (~ F10_class bs e_ref ->
     vprefix q (strictify (lview r')) /\ lax_outcome e_ref (lview r')).

Lemma lvok_inj' a b : LVOk a = LVOk b -> a = b.
Proof. intros H. now injection H. Qed.

Lemma strict_err_pwire e w pw :
  res_rel (VErr e) w -> forget pw = w ->
  exists q e_ref, pw = PRej q e_ref /\ res_rel (VErr e) (VErr e_ref).
Proof.
  intros RR F. destruct pw as [pa|q e_ref|s]; cbn [forget] in F; subst w.
  - destruct e; contradiction.
  - eauto.
  - destruct e; contradiction.
Qed.

Lemma ip_hdr_fault_whole bs : ip_hdr_fault bs LsSlice 0 (len bs) = ip_header_fault bs.
Proof. unfold ip_hdr_fault, ip_header_fault. rewrite N.sub_0_r. reflexivity. Qed.

Theorem lax_prefix_packet bs et :
  bytes_ok bs ->
  (14 <= len bs ->
   prefix_ok bs (SlicedPacket.from_ethernet bs) (pwire_ethernet bs) (LaxSlicedPacket.from_ethernet bs)) /\
  prefix_ok bs (SlicedPacket.from_ether_type et bs) (pwire_ether_type bs et)
    (LaxSlicedPacket.from_ether_type et bs) /\
  (ip_header_fault bs = None ->
   prefix_ok bs (SlicedPacket.from_ip bs) (pwire_from_ip bs) (LaxSlicedPacket.from_ip bs)).
Proof.
  intros Hok. destruct (pwire_sound bs et) as (S1 & S2 & S3). split; [|split].
  - intros H14 e E.
    pose proof (from_ethernet_rel bs Hok) as RR. rewrite E in RR. cbn [vres_of] in RR.
    destruct (strict_err_pwire e _ _ RR S1) as (q & e_ref & PW & RE).
    pose proof (lax_from_ethernet_eq bs Hok) as Q. unfold lwire_ethernet, n_bs in Q.
    assert (E14 : (len bs <? 14) = false) by lia. rewrite E14 in Q.
    destruct (LaxSlicedPacket.from_ethernet bs) as [r'|e'|b]; cbn [lvres_of] in Q; try discriminate.
    apply lvok_inj' in Q. exists q, e_ref, r'. repeat (split; [assumption || reflexivity|]).
    intros NF. rewrite Q. unfold pwire_ethernet, n_bs in PW. rewrite E14 in PW.
    eapply b_ether; [| | | |exact PW|exact NF]; reflexivity.
  - intros e E.
    pose proof (from_ether_type_rel bs et Hok) as RR. rewrite E in RR. cbn [vres_of] in RR.
    destruct (strict_err_pwire e _ _ RR S2) as (q & e_ref & PW & RE).
    pose proof (lax_from_ether_type_eq bs et Hok) as Q. unfold lwire_ether_type, n_bs in Q.
    destruct (LaxSlicedPacket.from_ether_type et bs) as [r'|e'|b]; cbn [lvres_of] in Q; try discriminate.
    apply lvok_inj' in Q. exists q, e_ref, r'. repeat (split; [assumption || reflexivity|]).
    intros NF. rewrite Q. unfold pwire_ether_type, n_bs in PW.
    eapply b_ether; [| | | |exact PW|exact NF]; reflexivity.
  - intros HF e E. rewrite <- ip_hdr_fault_whole in HF.
    pose proof (from_ip_rel bs Hok) as RR. rewrite E in RR. cbn [vres_of] in RR.
    destruct (strict_err_pwire e _ _ RR S3) as (q & e_ref & PW & RE).
    pose proof (lax_from_ip_eq bs Hok) as Q. unfold lwire_from_ip, n_bs in Q. rewrite HF in Q.
    destruct (LaxSlicedPacket.from_ip bs) as [r'|e'|b]; cbn [lvres_of] in Q; try discriminate.
    apply lvok_inj' in Q. exists q, e_ref, r'. repeat (split; [assumption || reflexivity|]).
    intros _. rewrite Q. unfold pwire_from_ip, n_bs in PW.
    eapply (b_ip bs empty_packet lempty_packet LsSlice 0 (len bs)); [| | | |exact HF|exact PW]; reflexivity.
Qed.
