(* Parse/LaxWire3.v -- `pwire3_*`: the strict reference decoder `pwire2_*` of LaxWire2.v with the MACsec
   short-length check instrumented like the two IP length checks (round 3, agent c05d; definitions only).

   pwire2_ether answers `P2Rej p e` when a MACsec short length promises more octets than the enclosing
   data holds (layer MacsecPacket: a documented length fallback of lax parsing), i.e. it says nothing about
   what lax decodes behind that MACsec header.  pwire3_ether answers

     P2Fb p e true resumed     e = the same MacsecPacket length error, p = the layers in front of the SecTAG,
                               resumed = the same strict decoder continued with the data that is there:
                               the MACsec payload runs to the end of the enclosing data (limit `lim`,
                               length source Slice; the source named by later errors stays the enclosing
                               one, `src`), an unmodified payload is decoded further with its ether type,
                               a modified / encrypted one ends the packet.

   Everything else is pwire2 (the network layer is `pwire2_net` itself, so the two IP length fallbacks keep
   their P2Fb, now possibly nested inside MACsec ones; at most 3 + 1 deep).  The bare-IP entry point has no
   link extensions: `pwire2_from_ip` is used unchanged.

   `resumed_ok bs pw q` (q = observer view of the lax result) says what lax must have made of the verdict
   pw, recursively through the fallbacks; its leaves:
     P2Acc q'             the resumed strict decoding accepts: strictify q = q' -- link, every link
                          extension, network AND transport layer of the lax result are exactly those of the
                          resumed strict decoding (only the incomplete flags are forgotten) -- and no stop
                          error;
     P2RejNet q' n tag e' fault inside the network layer: q' is a prefix of q, network layer exactly n, stop
                          error exactly (e', tag), no transport layer;
     P2Rej q' e'          any other fault (outside F10): q' is a prefix of q -- behind a fallback q'
                          contains the layers decoded by the resumed decoding, up to and including the
                          network layer when the fault is in the transport layer -- and `lax_outcome e' q`
                          (UDP length fallback, or recorded as stop error, or F11 group);
   and at every fallback node P2Fb q' e' inc resumed: e' is a documented fallback, q' is a prefix of q, the
   layer behind q' carries the flag: MACsec -> the link extension of q at index |exts q'| is a MACsec
   header whose payload has incomplete = inc (= true), and length source Slice if unmodified; IP -> the
   network layer of q has (incomplete, len_source) = (inc, Slice). *)
From EP Require Import Base.Bytes Parse.Types Parse.Slices Parse.Cursor Parse.View Parse.WireSpec
  Parse.StrictProofs Parse.LaxSlices Parse.LaxCursor Parse.LaxView Parse.LaxWire Parse.LaxPrefix Parse.LaxWire2.
From Coq Require Import List.
Import ListNotations.
Local Open Scope N_scope.

Section PWire3.
  Variable bs : bytes.
  Local Notation B := (WireSpec.B bs).
  Local Notation W := (WireSpec.W bs).

  Fixpoint pwire3_ether (cap : nat) (p : vpacket) (et : N) (src : len_source) (pos lim : N) : pres2 :=
    let a := lim - pos in
    if is_vlan et then
      match cap with
      | O => P2Acc p
      | S c =>
          if a <? 4 then P2Rej p (ELen (mkLenError 4 a src LyVlanHeader pos))
          else pwire3_ether c (with_ext p (VVlan (pos, a))) (W (pos + 2)) src (pos + 4) lim
      end
    else if et =? 35045 then
      match cap with
      | O => P2Acc p
      | S c =>
          if a <? 6 then P2Rej p (ELen (mkLenError 6 a src LyMacsecHeader pos))
          else
            let tci := B pos in
            let sl := B (pos + 1) mod 64 in
            let unmod := (tci / 4) mod 4 =? 0 in
            let sc := negb ((tci / 32) mod 2 =? 0) in
            if 128 <=? tci then P2Rej p (EContent CeMacsecVersion)
            else if unmod && (sl =? 1) then P2Rej p (EContent CeMacsecUnmodifiedShortLen)
            else
              let hl := 6 + (if unmod then 2 else 0) + (if sc then 8 else 0) in
              if a <? hl then P2Rej p (ELen (mkLenError hl a src LyMacsecHeader pos))
              else
                let body := if unmod then sl - 2 else sl in
                if (0 <? sl) && (a <? hl + body) then
                  (* the short length promises more than is there: documented fallback of lax parsing;
                     resumed = the same decoder on the data that is there *)
                  P2Fb p (ELen (mkLenError (hl + body) a src LyMacsecPacket pos)) true
                    (if unmod then
                       let et' := W (pos + hl - 2) in
                       pwire3_ether c
                         (with_ext p (VMacsec (pos, hl)
                            (VMpUnmodified (mkVEp et' LsSlice (pos + hl, lim - (pos + hl))))))
                         et' src (pos + hl) lim
                     else
                       P2Acc (with_ext p (VMacsec (pos, hl) (VMpModified (pos + hl, lim - (pos + hl))))))
                else
                  let lim' := if 0 <? sl then pos + hl + body else lim in
                  let psrc := if 0 <? sl then LsMacsecShortLength else LsSlice in
                  let src' := if 0 <? sl then LsMacsecShortLength else src in
                  if unmod then
                    let et' := W (pos + hl - 2) in
                    pwire3_ether c
                      (with_ext p (VMacsec (pos, hl)
                         (VMpUnmodified (mkVEp et' psrc (pos + hl, lim' - (pos + hl))))))
                      et' src' (pos + hl) lim'
                  else
                    P2Acc (with_ext p (VMacsec (pos, hl) (VMpModified (pos + hl, lim' - (pos + hl)))))
      end
    else pwire2_net bs p et src pos lim.

  Definition pwire3_ethernet : pres2 :=
    if n_bs bs <? 14 then
      P2Rej empty_packet (ELen (mkLenError 14 (n_bs bs) LsSlice LyEthernet2Header 0))
    else
      pwire3_ether 3 (mkVPacket (Some (VEthernet2 (0, n_bs bs))) [] None None)
        (W 12) LsSlice 14 (n_bs bs).

  Definition pwire3_ether_type (et : N) : pres2 :=
    pwire3_ether 3
      (mkVPacket (Some (VEtherPayload (mkVEp et LsSlice (0, n_bs bs)))) [] None None)
      et LsSlice 0 (n_bs bs).
End PWire3.

(* ---- what the lax result must look like, given the verdict of pwire3 --------------------------------- *)
(* the flags of a MACsec payload: (incomplete, length source if the payload has one) *)
Definition macsec_flags (mp : lvmacsec_payload) : bool * option len_source :=
  match mp with
  | LVMpUnmodified e => (lvep_incomplete e, Some (lvep_src e))
  | LVMpModified i _ => (i, None)
  end.

(* the layer right behind the prefix q' carries the fallback's flag *)
Definition fb_flagged (q' : vpacket) (e' : slice_error) (inc : bool) (q : lvpacket) : Prop :=
  match e' with
  | ELen l =>
      match le_layer l with
      | LyMacsecPacket =>
          exists h mp, nth_error (lv_exts q) (length (v_exts q')) = Some (LVMacsec h mp) /\
            fst (macsec_flags mp) = inc /\
            (snd (macsec_flags mp) = Some LsSlice \/ snd (macsec_flags mp) = None)
      | _ => exists n, lv_net q = Some n /\ net_flags n = Some (inc, LsSlice)
      end
  | EContent _ => False
  end.

Fixpoint resumed_ok (bs : bytes) (pw : pres2) (q : lvpacket) : Prop :=
  match pw with
  | P2Acc q' => strictify q = q' /\ lv_stop q = None
  | P2Rej q' e' => ~ F10_class bs e' -> vprefix q' (strictify q) /\ lax_outcome e' q
  | P2RejNet q' n tag e' => vprefix q' (strictify q) /\ stopped_in_net q n tag e'
  | P2Fb q' e' inc resumed =>
      fallback e' /\ vprefix q' (strictify q) /\ fb_flagged q' e' inc q /\ resumed_ok bs resumed q
  | P2Bug _ => False
  end.

(* strict = the strict model's verdict, pw = the instrumented strict reference decoder, lax = the lax
   model *)
Definition prefix_resumed_ok (bs : bytes) (strict : res sliced_packet) (pw : pres2)
  (lax : res lax_sliced_packet) : Prop :=
  forall e, strict = Err e ->
  exists e_ref r',
    rej2 pw = Some e_ref /\ res_rel (VErr e) (VErr e_ref) /\ lax = Ok r' /\ resumed_ok bs pw (lview r').
