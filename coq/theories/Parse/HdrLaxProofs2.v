(* Parse/HdrLaxProofs2.v -- the lax struct decoders (HdrLaxModel.v) against the lax slicing
   model cut at the first refilled IPv6 extension header (HdrLaxCut.v), continued:
     - the IPv6 extension chain: Ipv6Extensions::from_slice_lax (struct loop) in lockstep
       with Ipv6ExtensionsSlice::from_slice_lax (walk) up to the first refilled header;
     - the IPv6 arm of IpHeaders::from_slice_lax against the IPv6 arm of LaxIpSlice::from_slice;
     - IpHeaders::from_slice_lax against LaxIpSlice::from_slice (any first nibble), and the
       F11 class (first nibble 4, fewer than 20 bytes). *)
From Coq Require Import ZArith Lia ZifyN ZifyBool.
From EP Require Import Base.Bytes Parse.Types Parse.Slices Parse.Cursor Parse.View
  Parse.WireSpec Parse.Repr Parse.StrictProofs Parse.LaxSlices Parse.LaxCursor Parse.LaxView
  Parse.HdrModel Parse.HdrView Parse.HdrCut Parse.HdrProofs Parse.HdrProofs2 Parse.HdrLaxModel
  Parse.HdrLaxView Parse.HdrLaxProofs Parse.HdrLaxCut.
Import LaxSlicedPacketCursor.

Local Open Scope N_scope.

(* ---- errors of the extension header slicers --------------------------------------------- *)
Lemma raw_no_content s c : Ipv6RawExtHeaderSlice.from_slice s <> Err (EContent c).
Proof.
  unfold Ipv6RawExtHeaderSlice.from_slice, lerr.
  destruct (s_len s <? 8) eqn:E; [discriminate|].
  destruct (rd (snd s) 1); cbn [bind]; [|discriminate].
  destruct (s_len s <? (n + 1) * 8) eqn:El; [discriminate|].
  rewrite subU_eq by lia. discriminate.
Qed.

Lemma frag_no_content s c : Ipv6FragmentHeaderSlice.from_slice s <> Err (EContent c).
Proof.
  unfold Ipv6FragmentHeaderSlice.from_slice, lerr.
  destruct (s_len s <? 8) eqn:E; [discriminate|]. rewrite subU_eq by lia. discriminate.
Qed.

(* ---- the extension chain ------------------------------------------------------------------ *)
(* content errors a lax extension walk can stop with *)
Definition stop_wf (st : option stop_error) : Prop :=
  match st with
  | Some (EContent c, _) => c = CeHopByHopNotAtStart \/ c = CeIpv6AuthZeroPayloadLen
  | _ => True
  end.

Definition lwalk_rel (base : slice) (h : res (exts6 * N * slice * option stop_error))
  (s : res (slice * N * bool * option stop_error)) : Prop :=
  match h, s with
  | Ok (x', nh', r', st'), Ok (r'', nh'', fr'', st'') =>
      r'' = r' /\ nh'' = nh' /\ st'' = st' /\ stop_wf st' /\
      (exists fl', inv6 base x' fl' fr'' r') /\ bytes_ok (snd r')
  | _, _ => False
  end.

(* the arithmetic side conditions of the re-established invariant (as in HdrProofs.walk_agree) *)
Ltac inv6_tac :=
  repeat split; auto; try qlia;
  try (intros; discriminate); try (unfold s_off in *; cbn [fst]; qlia);
  try (rewrite ?Bool.orb_true_r; cbn [orb]; destruct (0 <? _) eqn:Z; [reflexivity|qlia]).

Lemma lwalk_agree fuel : forall base x rest nh fl fr,
  inv6 base x fl fr rest -> bytes_ok (snd rest) -> (N.to_nat (s_len rest) < fuel)%nat ->
  lwalk_rel base (LaxIpv6Extensions.loop fuel base x rest nh)
                 (LaxCut.walk true fuel (s_len base) rest nh fr fl).
Proof.
  induction fuel as [|f IH]; intros base x rest nh fl fr Hinv Hok Hfuel; [qlia|].
  pose proof Hinv as (I1 & I2 & I3 & I4 & I5 & I6 & I7 & I8 & I9 & I10).
  assert (StopE : forall st, stop_wf st ->
            lwalk_rel base (Ok (x, nh, rest, st)) (Ok (rest, nh, fr, st))).
  { intros st Hst. unfold lwalk_rel. split; [reflexivity|]. split; [reflexivity|]. split; [reflexivity|].
    split; [exact Hst|]. split; [now exists fl|assumption]. }
  assert (Hle : s_len rest <= s_len base) by qlia.
  clear Hinv.
  cbn [LaxIpv6Extensions.loop LaxCut.walk andb].
  destruct (nh =? IPN_HOP_BY_HOP) eqn:E0.
  { assert (R : refilled fl nh = false) by (apply N.eqb_eq in E0; subst nh; reflexivity).
    rewrite R. apply StopE. cbn. auto. }
  unfold refilled.
  destruct (nh =? IPN_DEST_OPTIONS) eqn:E60.
  { cbn [orb]. rewrite I2.
    destruct (x_route x) as [rt|] eqn:Ert; cbn [is_some].
    - rewrite I3. destruct (x_fdest x) as [fd|] eqn:Efd; cbn [is_some]; [apply StopE; exact I|].
      pose proof (raw_shape rest Hok) as Sh. pose proof (raw_no_content rest) as Nc.
      destruct (Ipv6RawExtHeaderSlice.from_slice rest) as [sl|[l|ce]|b]; try contradiction;
        [| |now destruct (Nc ce)].
      + destruct Sh as (S8 & Sle & Soff & Sth).
        unfold LaxIpv6Extensions.raw_ok.
        rewrite (idx_from_eq _ _ Sle). rewrite (subN_ok _ _ Sle). cbn [bind]. rewrite (subU_rest _ _ Sle). cbn [bind].
        unfold Ipv6RawExtHeaderSlice.next_header. rdokq sl 0. rewrite Sth. cbn [bind].
        apply IH; [|now apply bytes_ok_rest|rewrite s_len_drop; qlia].
        unfold inv6, fill_add, exts6_len, exts6_any, Ipv6Extensions.is_fragmenting_payload in *.
        rewrite E60, I2. cbn [is_some].
        cbn [f_dest f_route f_fdest f_frag f_auth x_hbh x_dest x_route x_fdest x_frag x_auth is_some olen] in *.
        rewrite Ert, Efd in *. cbn [is_some olen orb] in *. rewrite s_len_drop.
        inv6_tac.
      + unfold LaxIpv6Extensions.len_stop. rewrite (subN_ok _ _ Hle). cbn [bind]. apply StopE. exact I.
    - rewrite I1. destruct (x_dest x) as [d|] eqn:Ed; cbn [is_some]; [apply StopE; exact I|].
      pose proof (raw_shape rest Hok) as Sh. pose proof (raw_no_content rest) as Nc.
      destruct (Ipv6RawExtHeaderSlice.from_slice rest) as [sl|[l|ce]|b]; try contradiction;
        [| |now destruct (Nc ce)].
      + destruct Sh as (S8 & Sle & Soff & Sth).
        unfold LaxIpv6Extensions.raw_ok.
        rewrite (idx_from_eq _ _ Sle). rewrite (subN_ok _ _ Sle). cbn [bind]. rewrite (subU_rest _ _ Sle). cbn [bind].
        unfold Ipv6RawExtHeaderSlice.next_header. rdokq sl 0. rewrite Sth. cbn [bind].
        apply IH; [|now apply bytes_ok_rest|rewrite s_len_drop; qlia].
        unfold inv6, fill_add, exts6_len, exts6_any, Ipv6Extensions.is_fragmenting_payload in *.
        rewrite E60, I2. cbn [is_some].
        cbn [f_dest f_route f_fdest f_frag f_auth x_hbh x_dest x_route x_fdest x_frag x_auth is_some olen] in *.
        rewrite Ert, Ed in *. cbn [is_some olen orb] in *. rewrite s_len_drop.
        inv6_tac.
      + unfold LaxIpv6Extensions.len_stop. rewrite (subN_ok _ _ Hle). cbn [bind]. apply StopE. exact I. }
  destruct (nh =? IPN_ROUTE) eqn:E43.
  { cbn [orb]. rewrite I2.
    destruct (x_route x) as [rt|] eqn:Ert; cbn [is_some]; [apply StopE; exact I|].
    pose proof (raw_shape rest Hok) as Sh. pose proof (raw_no_content rest) as Nc.
    destruct (Ipv6RawExtHeaderSlice.from_slice rest) as [sl|[l|ce]|b]; try contradiction;
      [| |now destruct (Nc ce)].
    + destruct Sh as (S8 & Sle & Soff & Sth).
      unfold LaxIpv6Extensions.raw_ok.
      rewrite (idx_from_eq _ _ Sle). rewrite (subN_ok _ _ Sle). cbn [bind]. rewrite (subU_rest _ _ Sle). cbn [bind].
      unfold Ipv6RawExtHeaderSlice.next_header. rdokq sl 0. rewrite Sth. cbn [bind].
      apply IH; [|now apply bytes_ok_rest|rewrite s_len_drop; qlia].
      unfold inv6, fill_add, exts6_len, exts6_any, Ipv6Extensions.is_fragmenting_payload in *.
      rewrite E60, E43.
      cbn [f_dest f_route f_fdest f_frag f_auth x_hbh x_dest x_route x_fdest x_frag x_auth is_some olen] in *.
      rewrite Ert in *. cbn [is_some olen orb] in *. rewrite s_len_drop.
      assert (Fd : x_fdest x = None) by (apply I10; reflexivity).
      rewrite Fd in *. cbn [is_some olen orb] in *.
      inv6_tac.
    + unfold LaxIpv6Extensions.len_stop. rewrite (subN_ok _ _ Hle). cbn [bind]. apply StopE. exact I. }
  cbn [orb].
  destruct (nh =? IPN_FRAG) eqn:E44.
  { rewrite I4. destruct (x_frag x) as [fg|] eqn:Efg; cbn [is_some]; [apply StopE; exact I|].
    pose proof (frag_shape rest) as Sh. pose proof (frag_no_content rest) as Nc.
    destruct (Ipv6FragmentHeaderSlice.from_slice rest) as [sl|[l|ce]|b]; try contradiction;
      [| |now destruct (Nc ce)].
    + destruct Sh as (S8 & Sle & Soff).
      rewrite S8. rewrite (idx_from_eq _ _ Sle). rewrite (subN_ok _ _ Sle). cbn [bind]. rewrite (subU_rest _ _ Sle). cbn [bind].
      unfold Ipv6FragmentHeaderSlice.next_header. rdokq sl 0.
      destruct (frag_is_fragmenting_ok sl S8) as (fb & Efb). rewrite Efb. cbn [bind].
      apply IH; [|now apply bytes_ok_rest|rewrite s_len_drop; qlia].
      unfold inv6, fill_add, exts6_len, exts6_any, Ipv6Extensions.is_fragmenting_payload in *.
      rewrite E60, E43, E44.
      cbn [f_dest f_route f_fdest f_frag f_auth x_hbh x_dest x_route x_fdest x_frag x_auth is_some olen] in *.
      rewrite Efg in *. cbn [is_some olen orb] in *. rewrite s_len_drop.
      assert (fr = false) by congruence. subst fr. cbn [orb].
      inv6_tac.
    + unfold LaxIpv6Extensions.len_stop. rewrite (subN_ok _ _ Hle). cbn [bind]. apply StopE. exact I. }
  destruct (nh =? IPN_AUTH) eqn:E51; [|apply StopE; exact I].
  rewrite I5. destruct (x_auth x) as [au|] eqn:Eau; cbn [is_some]; [apply StopE; exact I|].
  pose proof (auth_shape rest Hok) as Sh.
  destruct (IpAuthHeaderSlice.from_slice rest) as [sl|[l|ce]|b]; try contradiction.
  - destruct Sh as (S12 & Sle & Soff & Sth & _).
    rewrite (idx_from_eq _ _ Sle). rewrite (subN_ok _ _ Sle). cbn [bind]. rewrite (subU_rest _ _ Sle). cbn [bind].
    unfold IpAuthHeaderSlice.next_header. rdokq sl 0. rewrite Sth. cbn [bind].
    apply IH; [|now apply bytes_ok_rest|rewrite s_len_drop; qlia].
    unfold inv6, fill_add, exts6_len, exts6_any, Ipv6Extensions.is_fragmenting_payload in *.
    rewrite E60, E43, E44, E51.
    cbn [f_dest f_route f_fdest f_frag f_auth x_hbh x_dest x_route x_fdest x_frag x_auth is_some olen] in *.
    rewrite Eau in *. cbn [is_some olen orb] in *. rewrite s_len_drop.
    inv6_tac.
  - unfold LaxIpv6Extensions.len_stop. rewrite (subN_ok _ _ Hle). cbn [bind]. apply StopE. exact I.
  - apply StopE. cbn. auto.
Qed.

(* ---- Ipv6Extensions::from_slice_lax against (cut) Ipv6ExtensionsSlice::from_slice_lax ----- *)
Definition lexts_rel (nh0 : N) (hp : slice) (h : res (exts6 * N * slice * option stop_error))
  (s : res (ipv6_exts_slice * N * slice * option stop_error)) : Prop :=
  match h, s with
  | Ok (x, nh', r, st), Ok (xs, nh'', r', st') =>
      r' = r /\ nh'' = nh' /\ st' = st /\ stop_wf st /\
      Ipv6Extensions.is_fragmenting_payload x = Ok (x6_fragmented xs) /\
      win_of (x6_slice xs) = (s_off hp, exts6_len x) /\
      x6_first xs = (if exts6_any x then Some nh0 else None) /\ s_off hp <= s_off r
  | _, _ => False
  end.

Lemma lexts_end nh0 hp h w :
  lwalk_rel hp h w ->
  lexts_rel nh0 hp h
    (let* w' := w in
     let '(rest, next_header, fragmented, error) := w' in
     let* used := subN (s_len hp) (s_len rest) in
     let* sl := (if used <=? s_len hp then Ok (fst hp, take used (snd hp)) else Bug SITE_INDEX) in
     Ok (mkIpv6Exts (if negb (s_len rest =? s_len hp) then Some nh0 else None) fragmented sl,
         next_header, rest, error)).
Proof.
  unfold lwalk_rel, lexts_rel.
  destruct h as [[[[x nh'] r] st]|e|b]; destruct w as [[[[r'' nh''] fr''] st'']|e'|b']; cbn [bind]; try tauto.
  intros (-> & -> & -> & Hst & (fl' & I) & Hok).
  destruct I as (_ & _ & _ & _ & _ & I6 & I7 & I8 & I9 & _).
  rewrite subN_ok by lia. cbn [bind].
  destruct (s_len hp - s_len r <=? s_len hp) eqn:E; [|lia]. cbn [bind].
  cbn [x6_fragmented x6_slice x6_first].
  split; [reflexivity|]. split; [reflexivity|]. split; [reflexivity|]. split; [exact Hst|].
  split; [exact I6|]. split.
  - rewrite win_take by lia. unfold s_off. f_equal. lia.
  - split; [|lia]. rewrite I8.
    destruct (0 <? exts6_len x) eqn:Z; destruct (s_len r =? s_len hp) eqn:Y; cbn [negb]; try reflexivity; lia.
Qed.

Lemma lexts_agree nh0 hp : bytes_ok (snd hp) ->
  lexts_rel nh0 hp (LaxIpv6Extensions.from_slice_lax nh0 hp) (LaxCut.exts_from_slice_lax true nh0 hp).
Proof.
  intros Hok. unfold LaxIpv6Extensions.from_slice_lax, LaxCut.exts_from_slice_lax.
  assert (Hf : forall r : slice, s_len r <= s_len hp -> (N.to_nat (s_len r) < S (length (snd hp)))%nat).
  { intros r H. unfold s_len, len in *. lia. }
  destruct (IPN_HOP_BY_HOP =? nh0).
  - pose proof (raw_shape hp Hok) as Sh. pose proof (raw_no_content hp) as Nc.
    destruct (Ipv6RawExtHeaderSlice.from_slice hp) as [sl|[l|ce]|b]; cbn [bind]; try contradiction;
      [| |now destruct (Nc ce)].
    + destruct Sh as (S8 & Sle & Soff & Sth).
      unfold LaxIpv6Extensions.raw_ok, idx_from.
      destruct (s_len sl <=? s_len hp) eqn:E; [|lia]. cbn [bind].
      unfold Ipv6RawExtHeaderSlice.next_header. rdok sl 0. rewrite Sth. cbn [bind].
      apply lexts_end. apply lwalk_agree.
      * unfold inv6, fill_none, exts6_len, exts6_any, Ipv6Extensions.is_fragmenting_payload.
        cbn [f_dest f_route f_fdest f_frag f_auth x_hbh x_dest x_route x_fdest x_frag x_auth is_some olen orb].
        rewrite s_len_drop. repeat split; try lia.
        all: try (intros; discriminate). all: try (unfold s_off; cbn [fst]; lia).
        all: try (destruct (0 <? _) eqn:Z; [reflexivity|lia]).
      * now apply bytes_ok_rest.
      * apply Hf. rewrite s_len_drop. lia.
    + (* the hop-by-hop header itself is cut short: nothing decoded *)
      rewrite subN_ok by lia. cbn [bind].
      destruct (s_len hp - s_len hp <=? s_len hp) eqn:E; [|lia]. cbn [bind].
      unfold lexts_rel. cbn [x6_fragmented x6_slice x6_first].
      split; [reflexivity|]. split; [reflexivity|]. split; [reflexivity|]. split; [exact I|].
      split; [reflexivity|]. split.
      * rewrite win_take by lia. unfold s_off, exts6_len. cbn. f_equal. lia.
      * split; [|lia]. rewrite N.eqb_refl. reflexivity.
  - cbn [bind]. apply lexts_end. apply lwalk_agree; [apply inv6_empty|assumption|apply Hf; lia].
Qed.

(* ---- the result of IpHeaders::from_slice_lax against LaxIpSlice::from_slice ---------------- *)
Definition lipd_rel (s : slice) (h : res (ip_headers * lax_ip_payload * option stop_error))
  (r : res (lax_ip_slice * option stop_error)) : Prop :=
  match h, r with
  | Ok (ih, p, st), Ok (i, st') =>
      p = LaxIpSlice.payload i /\
      hview_net (HnIp ih) = Ok (lconv_net (net_of_ip i)) /\
      st = option_map (conv_ext_stop (is_v4 i) (fun l => l)) st' /\
      s_off s <= s_off (lipp_slice p) /\
      (forall l ly, st = Some (ELen l, ly) -> le_src l = lipp_src p)
  | Err e, Err e' => e = e'
  | _, _ => False
  end.

Lemma lip4_lipd s h r : lip4_rel s h r -> lipd_rel s h r.
Proof.
  unfold lip4_rel, lipd_rel.
  destruct h as [[[ih p] st]|e|b]; destruct r as [[i st']|e'|b']; auto.
  intros (v & -> & -> & -> & -> & Hoff & Hsrc). cbn [LaxIpSlice.payload net_of_ip is_v4 lconv_net hview_net].
  repeat split; auto.
Qed.

Lemma conv_ext_stop_id6 st : stop_wf st ->
  option_map (conv_ext_stop false (fun l => l)) st = st.
Proof.
  destruct st as [[[l|c] ly]|]; cbn; try reflexivity.
  intros [-> | ->]; reflexivity.
Qed.

(* the part of the IPv6 arm behind the payload selection *)
Lemma lax_v6_tail s header hp src inc :
  bytes_ok (snd hp) -> s_len header = 40 -> s_off hp = s_off header + 40 -> s_off s <= s_off hp ->
  lipd_rel s
    (let* nh0 := Ipv6HeaderSlice.next_header header in
     let* x := LaxIpv6Extensions.from_slice_lax nh0 hp in
     let '(exts, next_header, rest, stop) := x in
     let stop' :=
       match stop with
       | Some (ELen l, ly) => Some (ELen (le_set_src (le_add_offset l 40) src), ly)
       | o => o
       end in
     let* fragmented := Ipv6Extensions.is_fragmenting_payload exts in
     Ok (IhV6 header exts, mkLaxIpp inc next_header fragmented src rest, stop'))
    (let* r := LaxCut.v6_finish true header hp src inc in
     let '(v, stop) := r in
     Ok (LIpV6 v, stop)).
Proof.
  intros Hok H40 Hoff Hs. unfold LaxCut.v6_finish, Ipv6HeaderSlice.next_header.
  rdok header 6.
  pose proof (lexts_agree v hp Hok) as X. unfold lexts_rel in X.
  destruct (LaxIpv6Extensions.from_slice_lax v hp) as [[[[x nh'] r] st]|e|b];
    destruct (LaxCut.exts_from_slice_lax true v hp) as [[[[xs nh''] r'] st']|e'|b']; cbn [bind]; try contradiction.
  destruct X as (-> & -> & -> & Hst & Fr & Win & First & Off). rewrite Fr. cbn [bind].
  unfold lipd_rel. cbn [LaxIpSlice.payload lv6_payload net_of_ip is_v4 lipp_slice lipp_src].
  split; [reflexivity|]. split.
  { unfold hview_net, lconv_net, Ipv6HeaderSlice.next_header. rewrite E. cbn [bind]. rewrite Fr. cbn [bind].
    cbn [lv6_header lv6_exts]. rewrite Win, First, Hoff. reflexivity. }
  split.
  { destruct st as [[[l|c] ly]|]; cbn [option_map conv_ext_stop].
    - destruct l as [rq ln sr y o]. reflexivity.
    - cbn in Hst. destruct Hst as [-> | ->]; reflexivity.
    - reflexivity. }
  split; [lia|].
  intros l ly El. destruct st as [[[l0|c] ly0]|]; try discriminate. injection El as <- _. reflexivity.
Qed.

Lemma lax_ip_agree s :
  bytes_ok (snd s) ->
  (forall b0, rd (snd s) 0 = Some b0 -> N.shiftr b0 4 = 4 -> 20 <= s_len s) ->
  lipd_rel s (LaxIpHeaders.from_slice_lax s) (LaxCut.ip_from_slice true s).
Proof.
  intros Hok Hf.
  destruct (s_len s =? 0) eqn:E0.
  { unfold LaxIpHeaders.from_slice_lax, LaxCut.ip_from_slice. rewrite E0. reflexivity. }
  destruct (rd_lt_Some (snd s) 0) as (b0 & Eb); [unfold s_len in *; lia|].
  destruct (N.shiftr b0 4 =? 4) eqn:V4.
  { assert (H20 : 20 <= s_len s) by (apply (Hf b0); [exact Eb|lia]).
    apply N.eqb_eq in V4.
    pose proof (lax_ip4_agree s b0 Hok Eb V4 H20) as A. apply lip4_lipd in A.
    replace (LaxCut.ip_from_slice true s) with (LaxIpSlice.from_slice s); [exact A|].
    unfold LaxCut.ip_from_slice, LaxIpSlice.from_slice. rewrite E0. unfold rdU. rewrite Eb. cbn [bind].
    rewrite V4. reflexivity. }
  unfold LaxIpHeaders.from_slice_lax, LaxCut.ip_from_slice. rewrite E0.
  unfold rdU. rewrite Eb. cbn [bind]. rewrite V4.
  destruct (N.shiftr b0 4 =? 6) eqn:V6; [|reflexivity].
  destruct (s_len s <? 40) eqn:E40; [reflexivity|].
  rewrite subU_eq by lia. cbn [bind].
  set (header := (fst s + 0, take 40 (drop 0 (snd s)))).
  assert (Hh : s_len header = 40) by (apply s_len_sub; lia).
  unfold Ipv6HeaderSlice.payload_length.
  destruct (rd16_ok header 4) as (pl & Epl); [lia|]. rewrite Epl. cbn [bind].
  assert (Hsub : forall k n, bytes_ok (snd (fst s + k, take n (drop k (snd s))))).
  { intros k n. cbn [snd]. apply bytes_ok_take. now apply bytes_ok_drop. }
  destruct ((0 =? pl) && (40 <? s_len s)) eqn:Ez.
  - rewrite subN_ok by lia. cbn [bind]. rewrite subU_eq by lia. cbn [bind].
    apply lax_v6_tail; auto; unfold s_off, header; cbn [fst]; lia.
  - rewrite subN_ok by lia. cbn [bind].
    destruct (s_len s - 40 <? pl) eqn:El.
    + cbn [bind]. rewrite subU_eq by lia. cbn [bind].
      apply lax_v6_tail; auto; unfold s_off, header; cbn [fst]; lia.
    + rewrite subU_eq by lia. cbn [bind].
      apply lax_v6_tail; auto; unfold s_off, header; cbn [fst]; lia.
Qed.

(* ---- F11: the first header announces IPv4 and fewer than 20 bytes are present ------------- *)
Lemma lax_ip_f11 s b0 cut :
  rd (snd s) 0 = Some b0 -> N.shiftr b0 4 = 4 -> s_len s < 20 ->
  exists e e', LaxIpHeaders.from_slice_lax s = Err e /\ LaxCut.ip_from_slice cut s = Err e' /\
    e = ELen (mkLenError 20 (s_len s) LsSlice LyIpv4Header 0) /\
    ((exists i, i < 5 /\ e' = EContent (CeIpIhl i)) \/
     (exists hl, 20 <= hl /\ e' = ELen (mkLenError hl (s_len s) LsSlice LyIpv4Header 0))).
Proof.
  intros Eb V4 L.
  assert (E0 : (s_len s =? 0) = false).
  { unfold s_len, rd in *. destruct (snd s); [discriminate|]. rewrite len_cons. lia. }
  unfold LaxIpHeaders.from_slice_lax, LaxCut.ip_from_slice. rewrite E0. unfold rdU. rewrite Eb. cbn [bind].
  rewrite V4. change (4 =? 4) with true. cbn iota.
  destruct (s_len s <? 20) eqn:E20; [|lia].
  destruct (N.land b0 15 <? 5) eqn:Ei.
  - eexists. eexists. split; [reflexivity|].
    split; [reflexivity|]. split; [reflexivity|]. left. eexists. split; [|reflexivity]. lia.
  - destruct (s_len s <? N.land b0 15 * 4) eqn:El; [|lia].
    eexists. eexists. split; [reflexivity|].
    split; [reflexivity|]. split; [reflexivity|]. right. eexists. split; [|reflexivity]. lia.
Qed.
