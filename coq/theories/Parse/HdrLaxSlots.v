(* Parse/HdrLaxSlots.v -- property C04, audit round 1 follow-up, the LAX pair: the slots of the
   struct Ipv6Extensions that LaxPacketHeaders returns, one by one, against the extension
   headers the (cut) LaxSlicedPacket result yields when iterated.  Same definitions
   (`slots_hold`, `chain`, Parse/HdrSlots.v) and the same plan as HdrSlots.v / HdrSlots2.v:
     lax_from_slice_slots   Ipv6Extensions::from_slice_lax holds a chain of its input (a stop
                            error ends the chain, the headers decoded in front of it stay);
     lexts_slots            that chain is what iterating the Ipv6ExtensionsSlice of the cut lax
                            slicing result yields (collect_chain of HdrSlots.v);
     lax_ip_slots ..        lifted over IpHeaders::from_slice_lax, add_ip, the VLAN / MACsec loop
                            (invariant lloop_inv of HdrLaxProofs3.v) and the three entry points. *)
From Coq Require Import ZArith Lia ZifyN ZifyBool List.
From EP Require Import Parse.AccessProofs.
From EP Require Import Base.Bytes Parse.Types Parse.Slices Parse.Cursor Parse.View
  Parse.WireSpec Parse.Repr Parse.StrictProofs Parse.Access Parse.LaxSlices Parse.LaxCursor Parse.LaxView
  Parse.LaxProofs Parse.LaxFacts Parse.LaxWire Parse.LaxWireProofs
  Parse.HdrModel Parse.HdrView Parse.HdrCut Parse.HdrProofs Parse.HdrProofs2 Parse.HdrProofs3
  Parse.HdrLaxModel Parse.HdrLaxView Parse.HdrLaxProofs Parse.HdrLaxCut Parse.HdrLaxCutProofs
  Parse.HdrLaxProofs2 Parse.HdrLaxProofs3 Parse.HdrSlots.
Import ListNotations.
Import LaxSlicedPacketCursor.

Local Open Scope N_scope.

(* ---- Ipv6Extensions::from_slice_lax holds a chain of its input ---------------------------- *)
Lemma raw_ok_inv base k rest sl h rest1 nh1 :
  Ipv6RawExtHeaderSlice.from_slice rest = Ok sl ->
  LaxIpv6Extensions.raw_ok rest sl = Ok (h, rest1, nh1) ->
  rest = at_off base k -> k <= s_len base ->
  wf_raw h /\ subU base k (s_len h) = Ok h /\ rdU h 0 = Ok nh1 /\
  rest1 = at_off base (k + s_len h) /\ k + s_len h <= s_len base.
Proof.
  unfold LaxIpv6Extensions.raw_ok. intros Esl H Hr Hk.
  binv H rest' Er. binv H nh Enh. binv H h' Eh. injection H as <- <- <-.
  apply raw_to_header_id in Eh. subst h'. unfold Ipv6RawExtHeaderSlice.next_header in Enh.
  destruct (AccessProofs.raw_inv _ _ Esl) as (b & _ & Hsl & _).
  pose proof (AccessProofs.raw_wf _ _ Esl) as (Wsl & _).
  destruct (step_geom base k rest sl rest' _ Hr Hk Hsl Er) as (G1 & G2 & G3 & G4).
  rewrite <- G2 in G3, G4. repeat split; auto.
Qed.

Ltac lcons_with H it K nh1 :=
  match type of H with
  | LaxIpv6Extensions.loop _ _ ?x1 _ _ = _ => apply (loop_cons _ _ x1 _ _ _ it K nh1)
  end.

Lemma lax_loop_slots fuel : forall base x rest nh k x' nh' r' st' L,
  LaxIpv6Extensions.loop fuel base x rest nh = Ok (x', nh', r', st') ->
  k <= s_len base -> rest = at_off base k ->
  holds x L -> (x_route x = None -> x_fdest x = None) ->
  loop_post base x L k nh x' nh' r'.
Proof.
  induction fuel as [|f IH]; intros base x rest nh k x' nh' r' st' L H Hk Hr Hh Hfd; [discriminate|].
  cbn [LaxIpv6Extensions.loop] in H.
  assert (Stop : forall stx, Ok (x, nh, rest, stx) = Ok (x', nh', r', st') -> loop_post base x L k nh x' nh' r').
  { intros stx E. injection E as <- <- <- _. subst rest. now apply loop_stop. }
  assert (LStop : forall e ly stx,
            (let* st := LaxIpv6Extensions.len_stop base rest e ly in Ok (x, nh, rest, Some st)) =
              Ok (x', nh', r', stx) -> loop_post base x L k nh x' nh' r').
  { intros e ly stx E. binv E st0 Est. injection E as <- <- <- _. subst rest. now apply loop_stop. }
  destruct (nh =? IPN_HOP_BY_HOP) eqn:E0; [now apply (Stop _ H)|].
  destruct (nh =? IPN_DEST_OPTIONS) eqn:E60.
  { apply N.eqb_eq in E60.
    destruct (x_route x) as [rt|] eqn:Ert.
    - destruct (x_fdest x) as [fd|] eqn:Efd; cbn [is_some] in H; [now apply (Stop _ H)|].
      destruct (Ipv6RawExtHeaderSlice.from_slice rest) as [sl|[l|ce]|b] eqn:Esl; try discriminate;
        [|now apply (LStop _ _ _ H)].
      binv H r Er. destruct r as ((h, rest1), nh1).
      destruct (raw_ok_inv base k rest sl h rest1 nh1 Esl Er Hr Hk) as (Wf & Hs & Hn & Hr1 & Hk1).
      lcons_with H (XDestinationOptions h) SFdest nh1; auto.
      + intros j. destruct j; cbn; congruence.
      + cbn. now rewrite Ert.
      + cbn. now rewrite Ert.
      + intros L1 HL1. cbn [ext_item_slice].
        apply (IH base _ rest1 nh1 (k + s_len h) x' nh' r' st' L1 H); auto.
        cbn. intros X; discriminate X.
    - destruct (x_dest x) as [d|] eqn:Ed; cbn [is_some] in H; [now apply (Stop _ H)|].
      destruct (Ipv6RawExtHeaderSlice.from_slice rest) as [sl|[l|ce]|b] eqn:Esl; try discriminate;
        [|now apply (LStop _ _ _ H)].
      binv H r Er. destruct r as ((h, rest1), nh1).
      destruct (raw_ok_inv base k rest sl h rest1 nh1 Esl Er Hr Hk) as (Wf & Hs & Hn & Hr1 & Hk1).
      lcons_with H (XDestinationOptions h) SDest nh1; auto.
      + intros j. destruct j; cbn; congruence.
      + cbn. now rewrite Ert.
      + cbn. now rewrite Ert.
      + intros L1 HL1. cbn [ext_item_slice].
        apply (IH base _ rest1 nh1 (k + s_len h) x' nh' r' st' L1 H); auto. }
  destruct (nh =? IPN_ROUTE) eqn:E43.
  { apply N.eqb_eq in E43.
    destruct (x_route x) as [rt|] eqn:Ert; cbn [is_some] in H; [now apply (Stop _ H)|].
    destruct (Ipv6RawExtHeaderSlice.from_slice rest) as [sl|[l|ce]|b] eqn:Esl; try discriminate;
      [|now apply (LStop _ _ _ H)].
    binv H r Er. destruct r as ((h, rest1), nh1).
    destruct (raw_ok_inv base k rest sl h rest1 nh1 Esl Er Hr Hk) as (Wf & Hs & Hn & Hr1 & Hk1).
    pose proof (Hfd eq_refl) as Fd.
    lcons_with H (XRouting h) SRoute nh1; auto.
    + intros j. destruct j; cbn; congruence.
    + intros L1 HL1. cbn [ext_item_slice].
      apply (IH base _ rest1 nh1 (k + s_len h) x' nh' r' st' L1 H); auto. }
  destruct (nh =? IPN_FRAG) eqn:E44.
  { apply N.eqb_eq in E44.
    destruct (x_frag x) as [fg|] eqn:Efg; cbn [is_some] in H; [now apply (Stop _ H)|].
    destruct (Ipv6FragmentHeaderSlice.from_slice rest) as [sl|[l|ce]|b] eqn:Esl; try discriminate;
      [|now apply (LStop _ _ _ H)].
    binv H rest1 Er. binv H nh1 Enh. unfold Ipv6FragmentHeaderSlice.next_header in Enh.
    destruct (frag_step_inv base k rest sl rest1 Esl Er Hr Hk) as (Wf & Hs & Hr1 & Hk1).
    lcons_with H (XFragment sl) SFrag nh1; auto.
    + intros j. destruct j; cbn; congruence.
    + intros L1 HL1. cbn [ext_item_slice].
      apply (IH base _ rest1 nh1 (k + s_len sl) x' nh' r' st' L1 H); auto. }
  destruct (nh =? IPN_AUTH) eqn:E51; [|now apply (Stop _ H)].
  apply N.eqb_eq in E51.
  destruct (x_auth x) as [au|] eqn:Eau; cbn [is_some] in H; [now apply (Stop _ H)|].
  destruct (IpAuthHeaderSlice.from_slice rest) as [sl|[l|ce]|b] eqn:Esl; try discriminate;
    [|now apply (LStop _ _ _ H)|now apply (Stop _ H)].
  binv H rest1 Er. binv H nh1 Enh. unfold IpAuthHeaderSlice.next_header in Enh.
  binv H h Eh. apply auth_to_header_id in Eh. subst h.
  destruct (auth_step_inv base k rest sl rest1 Esl Er Hr Hk) as (Wf & Hs & Hr1 & Hk1).
  lcons_with H (XAuthentication sl) SAuth nh1; auto.
  + intros j. destruct j; cbn; congruence.
  + intros L1 HL1. cbn [ext_item_slice].
    apply (IH base _ rest1 nh1 (k + s_len sl) x' nh' r' st' L1 H); auto.
Qed.

Theorem lax_from_slice_slots nh0 hp x nh' r st :
  LaxIpv6Extensions.from_slice_lax nh0 hp = Ok (x, nh', r, st) ->
  exists l k', slots_hold x l /\ chain hp 0 nh0 l k' nh' /\ k' <= s_len hp /\ r = at_off hp k'.
Proof.
  unfold LaxIpv6Extensions.from_slice_lax. intros H.
  destruct (IPN_HOP_BY_HOP =? nh0) eqn:Eh.
  - apply N.eqb_eq in Eh.
    destruct (Ipv6RawExtHeaderSlice.from_slice hp) as [sl|[l|ce]|b] eqn:Esl; try discriminate.
    + binv H r0 Er. destruct r0 as ((h, rest1), nh1).
      destruct (raw_ok_inv hp 0 hp sl h rest1 nh1 Esl Er (eq_sym (at_off_0 hp)) ltac:(lia))
        as (Wf & Hs & Hn & Hr1 & Hk1).
      rewrite N.add_0_l in Hr1, Hk1.
      assert (Hh : holds (mkExts6 (Some h) None None None None None) [(SHbh, h)]).
      { apply (holds_put exts6_empty _ [] SHbh h holds_empty eq_refl). intros j. destruct j; reflexivity. }
      destruct (lax_loop_slots _ hp _ rest1 nh1 (s_len h) x nh' r st _ H Hk1 Hr1 Hh ltac:(reflexivity))
        as (l1 & k' & H1 & H2 & H3 & H4).
      exists (XHopByHop h :: l1), k'. unfold slots_hold.
      cbn [keyed chain item_slot routed_after ext_item_slice item_kind].
      split; [exact H1|]. split; [|auto]. rewrite N.add_0_l.
      repeat split; auto. exists nh1. auto.
    + injection H as <- <- <- _. exists [], 0. unfold slots_hold. cbn [keyed chain].
      split; [exact holds_empty|]. rewrite at_off_0. repeat split; auto. lia.
  - destruct (lax_loop_slots _ hp _ hp nh0 0 x nh' r st [] H ltac:(lia) (eq_sym (at_off_0 hp)) holds_empty
                ltac:(reflexivity)) as (l1 & k' & H1 & H2 & H3 & H4).
    exists l1, k'. auto.
Qed.

(* ---- struct slots = the items of the (cut) lax slicing result, at the extension layer ------- *)
Theorem lexts_slots nh0 hp x nh' r st xs nh'' r' st' : bytes_ok (snd hp) ->
  LaxIpv6Extensions.from_slice_lax nh0 hp = Ok (x, nh', r, st) ->
  LaxCut.exts_from_slice_lax true nh0 hp = Ok (xs, nh'', r', st') ->
  ext_rel6 nh0 x xs /\ s_off (x6_slice xs) = s_off hp.
Proof.
  intros Hok Hh Hs. pose proof (lexts_agree nh0 hp Hok) as A. rewrite Hh, Hs in A.
  destruct A as (-> & -> & _ & _ & _ & Win & _ & _).
  destruct (lax_from_slice_slots _ _ _ _ _ _ Hh) as (l & k' & S1 & S2 & S3 & S4).
  unfold LaxCut.exts_from_slice_lax in Hs. binv Hs st0 Est. destruct st0 as ((rest0, nh00), err0).
  binv Hs w Ew. destruct w as (((restf, nxf), frf), errf).
  binv Hs used Eu. apply subN_inv in Eu. destruct Eu as (Lr & ->).
  binv Hs sl Esl. destruct (s_len hp - s_len restf <=? s_len hp) eqn:Eus; [|discriminate]. injection Esl as <-.
  injection Hs as <- _ <- _. cbn [x6_slice x6_first] in *.
  subst restf.
  assert (Eused : s_len hp - s_len (at_off hp k') = k') by (rewrite at_off_len; lia).
  rewrite Eused in *.
  set (I := (fst hp, take k' (snd hp))) in *.
  assert (PI : pre k' I hp) by (apply pre_take; lia).
  pose proof (pre_len _ _ _ PI) as LI.
  assert (Hlen : k' = exts6_len x) by (unfold win_of in Win; rewrite LI in Win; now injection Win).
  split; [|reflexivity].
  pose proof (chain_pre k' I hp PI _ _ _ _ _ S2 ltac:(lia)) as C. rewrite <- LI in C.
  unfold ext_rel6. cbn [x6_slice]. exists l, nh'. split; [|split; [exact S1|split; [exact C|now rewrite LI]]].
  unfold Ipv6ExtIterA.items, Ipv6ExtIterA.into_iter. cbn [x6_slice x6_first]. rewrite <- (at_off_0 I) at 2.
  rewrite at_off_len.
  pose proof (chain_le _ _ _ _ _ _ C) as Ll.
  assert (Hfuel : (length l < S (length (snd I)))%nat).
  { rewrite s_len_length. unfold len in Ll. lia. }
  destruct (s_len hp - k' =? s_len hp) eqn:Ez; cbn [negb].
  - assert (Z : k' = 0) by lia. rewrite LI, Z in C.
    destruct (chain_nil_any _ _ _ _ _ IPN_UDP C) as (-> & C0).
    apply (collect_chain I [] 0 IPN_UDP IPN_UDP); auto; try lia. rewrite LI, Z. exact C0.
  - apply (collect_chain I l 0 nh0 nh'); auto. lia.
Qed.

(* ---- IpHeaders::from_slice_lax against (cut) LaxIpSlice::from_slice ------------------------ *)
Definition lnet6_rel (hd : slice) (x : exts6) (v : lax_ipv6_slice) : Prop :=
  lv6_header v = hd /\
  exists nh0, Ipv6HeaderSlice.next_header hd = Ok nh0 /\
    ext_rel6 nh0 x (lv6_exts v) /\ s_off (x6_slice (lv6_exts v)) = s_off hd + 40.

Definition lipslot_rel (h : res (ip_headers * lax_ip_payload * option stop_error))
  (r : res (lax_ip_slice * option stop_error)) : Prop :=
  match h, r with
  | Ok (ih, p, st), Ok (i, st') =>
      forall hd x, ih = IhV6 hd x -> exists v, i = LIpV6 v /\ lnet6_rel hd x v
  | _, _ => True
  end.

Lemma lax_v6_tail_slots header hp src inc :
  bytes_ok (snd hp) -> s_len header = 40 -> s_off hp = s_off header + 40 ->
  lipslot_rel
    (let* nh0 := Ipv6HeaderSlice.next_header header in
     let* x := LaxIpv6Extensions.from_slice_lax nh0 hp in
     let '(exts, next_header, rest, stop) := x in
     let stop' :=
       match stop with
       | Some (ELen l, ly) => Some (ELen (le_set_src (le_add_offset l 40) src), ly)
       | o => o
       end in
     let* fragmented := Ipv6Extensions.is_fragmenting_payload exts in
     Ok (IhV6 header exts, mkLaxIpp inc next_header fragmented src rest, stop'))
    (let* r := LaxCut.v6_finish true header hp src inc in
     let '(v, stop) := r in
     Ok (LIpV6 v, stop)).
Proof.
  intros Hok H40 Hoff. unfold LaxCut.v6_finish, Ipv6HeaderSlice.next_header.
  rdok header 6.
  destruct (LaxIpv6Extensions.from_slice_lax v hp) as [[[[x nh'] r] st]|e|b] eqn:Eh; cbn [bind]; try exact I.
  destruct (Ipv6Extensions.is_fragmenting_payload x) as [fr|e|b]; cbn [bind]; try exact I.
  destruct (LaxCut.exts_from_slice_lax true v hp) as [[[[xs nh''] r'] st']|e'|b'] eqn:Es; cbn [bind]; try exact I.
  destruct (lexts_slots v hp x nh' r st xs nh'' r' st' Hok Eh Es) as (R & Off).
  intros hd x0 X. injection X as <- <-. eexists. split; [reflexivity|].
  unfold lnet6_rel. cbn [lv6_header lv6_exts]. split; [reflexivity|]. exists v.
  unfold Ipv6HeaderSlice.next_header. split; [exact E|]. split; [exact R|]. now rewrite Off.
Qed.

Lemma lax_from_slice_v4 s b0 ih p st :
  rd (snd s) 0 = Some b0 -> N.shiftr b0 4 = 4 ->
  LaxIpHeaders.from_slice_lax s = Ok (ih, p, st) -> exists h a, ih = IhV4 h a.
Proof.
  unfold LaxIpHeaders.from_slice_lax, lerr. intros Eb V H.
  destruct (s_len s =? 0); [discriminate|]. rewrite Eb in H. cbn [bind] in H. rewrite V in H.
  change (4 =? 4) with true in H. cbv iota in H.
  destruct (s_len s <? 20); [discriminate|]. binv H b0' E0.
  destruct (N.land b0' 15 <? 5); [discriminate|].
  destruct (s_len s <? N.land b0' 15 * 4); [discriminate|].
  binv H header Ehd. binv H tlen Etl. binv H t Et. destruct t as ((src, rest), inc).
  binv H proto Ep. binv H x Ex. destruct x as (((auth, np), rest'), stop).
  binv H fr Efr. injection H as <- _ _. eauto.
Qed.

Lemma lax_ip_slots s : bytes_ok (snd s) ->
  lipslot_rel (LaxIpHeaders.from_slice_lax s) (LaxCut.ip_from_slice true s).
Proof.
  intros Hok.
  destruct (s_len s =? 0) eqn:E0.
  { unfold LaxIpHeaders.from_slice_lax. rewrite E0. exact I. }
  destruct (rd_lt_Some (snd s) 0) as (b0 & Eb); [unfold s_len in *; lia|].
  destruct (N.shiftr b0 4 =? 4) eqn:V4.
  { apply N.eqb_eq in V4.
    destruct (LaxIpHeaders.from_slice_lax s) as [[[ih p] st]|e|b] eqn:E; try exact I.
    destruct (lax_from_slice_v4 s b0 ih p st Eb V4 E) as (h & a & ->).
    destruct (LaxCut.ip_from_slice true s) as [[i st']|e'|b']; try exact I.
    intros hd x X. discriminate X. }
  unfold LaxIpHeaders.from_slice_lax, LaxCut.ip_from_slice. rewrite E0.
  unfold rdU. rewrite Eb. cbn [bind]. rewrite V4.
  destruct (N.shiftr b0 4 =? 6) eqn:V6; [|exact I].
  destruct (s_len s <? 40) eqn:E40; [exact I|].
  rewrite subU_eq by lia. cbn [bind].
  set (header := (fst s + 0, take 40 (drop 0 (snd s)))).
  assert (Hh : s_len header = 40) by (apply s_len_sub; lia).
  unfold Ipv6HeaderSlice.payload_length.
  destruct (rd16_ok header 4) as (pl & Epl); [lia|]. rewrite Epl. cbn [bind].
  assert (Hsub : forall k n, bytes_ok (snd (fst s + k, take n (drop k (snd s))))).
  { intros k n. cbn [snd]. apply bytes_ok_take. now apply bytes_ok_drop. }
  destruct ((0 =? pl) && (40 <? s_len s)) eqn:Ez.
  - rewrite subN_ok by lia. cbn [bind]. rewrite subU_eq by lia. cbn [bind].
    apply lax_v6_tail_slots; auto; unfold s_off, header; cbn [fst]; lia.
  - rewrite subN_ok by lia. cbn [bind].
    destruct (s_len s - 40 <? pl) eqn:El.
    + cbn [bind]. rewrite subU_eq by lia. cbn [bind].
      apply lax_v6_tail_slots; auto; unfold s_off, header; cbn [fst]; lia.
    + rewrite subU_eq by lia. cbn [bind].
      apply lax_v6_tail_slots; auto; unfold s_off, header; cbn [fst]; lia.
Qed.
