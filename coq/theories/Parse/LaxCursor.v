(* Parse/LaxCursor.v -- transliteration of lax_sliced_packet_cursor.rs and of the
   three entry points of lax_sliced_packet.rs (from_ethernet, from_ether_type,
   from_ip; the crate has no lax Linux-SLL entry point).  Faults behind the first
   header do not abort: they are stored as `stop_err = (error, layer)`. *)
From EP Require Import Base.Bytes Parse.Types Parse.Slices Parse.Cursor Parse.LaxSlices.

Inductive lax_link_ext_slice :=
| LLeVlan (s : slice)
| LLeMacsec (m : lax_macsec_slice).

Inductive lax_net_slice :=
| LNtIpv4 (v : lax_ipv4_slice)
| LNtIpv6 (v : lax_ipv6_slice)
| LNtArp (s : slice).

Record lax_sliced_packet := mkLaxSliced {
  lsp_link : option link_slice;
  lsp_exts : list lax_link_ext_slice;     (* ArrayVec<_, 3> *)
  lsp_net : option lax_net_slice;
  lsp_transport : option transport_slice;
  lsp_stop_err : option stop_error;
}.

Record lax_cursor := mkLaxCursor {
  lc_offset : N;
  lc_src : len_source;
  lc_result : lax_sliced_packet;
}.

Definition is_slice_src (s : len_source) : bool :=
  match s with LsSlice => true | _ => false end.

Module LaxSlicedPacketCursor.
  Definition with_stop (r : lax_sliced_packet) (e : stop_error) : lax_sliced_packet :=
    mkLaxSliced (lsp_link r) (lsp_exts r) (lsp_net r) (lsp_transport r) (Some e).
  Definition with_opt_stop (r : lax_sliced_packet) (e : option stop_error) : lax_sliced_packet :=
    match e with Some x => with_stop r x | None => r end.
  Definition with_net (r : lax_sliced_packet) (n : lax_net_slice) : lax_sliced_packet :=
    mkLaxSliced (lsp_link r) (lsp_exts r) (Some n) (lsp_transport r) (lsp_stop_err r).
  Definition with_transport (r : lax_sliced_packet) (t : transport_slice) : lax_sliced_packet :=
    mkLaxSliced (lsp_link r) (lsp_exts r) (lsp_net r) (Some t) (lsp_stop_err r).
  Definition with_link (r : lax_sliced_packet) (l : link_slice) : lax_sliced_packet :=
    mkLaxSliced (Some l) (lsp_exts r) (lsp_net r) (lsp_transport r) (lsp_stop_err r).
  (* push_unchecked: a full vector is undefined behaviour *)
  Definition push_ext (r : lax_sliced_packet) (x : lax_link_ext_slice) : res lax_sliced_packet :=
    if len (lsp_exts r) <? LINK_EXTS_CAP then
      Ok (mkLaxSliced (lsp_link r) (lsp_exts r ++ [x]) (lsp_net r) (lsp_transport r) (lsp_stop_err r))
    else Bug SITE_PUSH.

  Definition empty : lax_sliced_packet := mkLaxSliced None [] None None None.

  (* `e.layer_start_offset += offset; if Slice == e.len_source { e.len_source = src }` *)
  Definition fix_len (e : len_error) (offset : N) (src : len_source) : len_error :=
    let e1 := le_add_offset e offset in
    if is_slice_src (le_src e1) then le_set_src e1 src else e1.

  Definition has_stop (r : lax_sliced_packet) : bool :=
    match lsp_stop_err r with Some _ => true | None => false end.

  (* slice_transport: the running offset is advanced behind the transport slice
     in Rust; nothing reads it afterwards, so only the result is kept *)
  Definition slice_transport (c : lax_cursor) (p : lax_ip_payload) : res lax_sliced_packet :=
    let r := lc_result c in
    if lipp_fragmented p || has_stop r then Ok r
    else if lipp_number p =? IPN_ICMP then
      match Icmpv4Slice.from_slice (lipp_slice p) with
      | Ok icmp => Ok (with_transport r (TrIcmpv4 icmp))
      | Err (ELen e) => Ok (with_stop r (ELen (fix_len e (lc_offset c) (lipp_src p)), LyIcmpv4))
      | Err (EContent _) => Bug SITE_UNWRAP     (* Rust type: LenError *)
      | Bug b => Bug b
      end
    else if lipp_number p =? IPN_UDP then
      match UdpSlice.from_slice_lax (lipp_slice p) with
      | Ok udp => Ok (with_transport r (TrUdp udp))
      | Err (ELen e) => Ok (with_stop r (ELen (fix_len e (lc_offset c) (lipp_src p)), LyUdpHeader))
      | Err (EContent _) => Bug SITE_UNWRAP
      | Bug b => Bug b
      end
    else if lipp_number p =? IPN_TCP then
      match TcpSlice.from_slice (lipp_slice p) with
      | Ok tcp => Ok (with_transport r (TrTcp (fst tcp) (snd tcp)))
      | Err (ELen e) => Ok (with_stop r (ELen (fix_len e (lc_offset c) (lipp_src p)), LyTcpHeader))
      | Err (EContent ce) => Ok (with_stop r (EContent ce, LyTcpHeader))
      | Bug b => Bug b
      end
    else if lipp_number p =? IPN_ICMPV6 then
      match Icmpv6Slice.from_slice (lipp_slice p) with
      | Ok icmp => Ok (with_transport r (TrIcmpv6 icmp))
      | Err (ELen e) => Ok (with_stop r (ELen (fix_len e (lc_offset c) (lipp_src p)), LyIcmpv6))
      | Err (EContent _) => Bug SITE_UNWRAP
      | Bug b => Bug b
      end
    else Ok r.

  Definition net_of_ip (ip : lax_ip_slice) : lax_net_slice :=
    match ip with LIpV4 v => LNtIpv4 v | LIpV6 v => LNtIpv6 v end.

  Definition is_v4 (ip : lax_ip_slice) : bool :=
    match ip with LIpV4 _ => true | LIpV6 _ => false end.

  (* ipv6_exts::HeaderSliceError -> packet::SliceError; `fx` is what the caller
     does to a length error *)
  Definition conv_ext_stop (v4 : bool) (fx : len_error -> len_error) (e : stop_error)
    : stop_error :=
    match e with
    | (ELen l, ly) => (ELen (fx l), ly)
    | (EContent CeHopByHopNotAtStart, ly) => (EContent CeHopByHopNotAtStart, ly)
    | (EContent _, ly) =>
        (* E::IpAuth(auth) => Ipv4Exts(auth) | Ipv6Exts(E::IpAuth(auth)) *)
        (EContent (if v4 then CeAuthZeroPayloadLen else CeIpv6AuthZeroPayloadLen), ly)
    end.

  (* (payload.payload.as_ptr() as usize) - (slice.as_ptr() as usize) *)
  Definition ptr_diff (p s : slice) : res N := subN (s_off p) (s_off s).

  Definition slice_ip (c : lax_cursor) (s : slice) : res lax_sliced_packet :=
    let r := lc_result c in
    match LaxIpSlice.from_slice s with
    | Err (ELen l) => Ok (with_stop r (ELen (fix_len l (lc_offset c) (lc_src c)), LyIpHeader))
    | Err (EContent ce) => Ok (with_stop r (EContent ce, LyIpHeader))
    | Bug b => Bug b
    | Ok (ip, stop) =>
        let r1 := with_net r (net_of_ip ip) in
        let r2 :=
          with_opt_stop r1
            (option_map (conv_ext_stop (is_v4 ip) (fun l => fix_len l (lc_offset c) (lc_src c)))
                        stop) in
        let payload := LaxIpSlice.payload ip in
        let* d := ptr_diff (lipp_slice payload) s in
        let src' := if is_slice_src (lipp_src payload) then lc_src c else lipp_src payload in
        slice_transport (mkLaxCursor (lc_offset c + d) src' r2) payload
    end.

  Definition slice_arp (c : lax_cursor) (s : slice) : res lax_sliced_packet :=
    let r := lc_result c in
    match ArpPacketSlice.from_slice s with
    | Ok arp => Ok (with_net r (LNtArp arp))
    | Err (ELen e) => Ok (with_stop r (ELen (fix_len e (lc_offset c) (lc_src c)), LyArp))
    | Err (EContent _) => Bug SITE_UNWRAP
    | Bug b => Bug b
    end.

  Definition is_vlan_type := SlicedPacketCursor.is_vlan_type.

  (* the `loop` of slice_ether_type: at most LINK_EXTS_CAP + 1 iterations *)
  Fixpoint slice_ether_type_loop (fuel : nat) (c : lax_cursor) (ep : ether_payload)
    : res lax_sliced_packet :=
    match fuel with
    | O => Bug SITE_FUEL
    | S f =>
        let r := lc_result c in
        let et := ep_ether_type ep in
        if is_vlan_type et then
          if LINK_EXTS_CAP <=? len (lsp_exts r) then Ok r
          else
            match SingleVlanSlice.from_slice (ep_slice ep) with
            | Err (ELen e) =>
                Ok (with_stop r (ELen (le_add_offset e (lc_offset c)), LyVlanHeader))
            | Err (EContent _) => Bug SITE_UNWRAP
            | Bug b => Bug b
            | Ok vlan =>
                let* vp := SingleVlanSlice.payload vlan in
                let* r' := push_ext r (LLeVlan vlan) in
                slice_ether_type_loop f
                  (mkLaxCursor (lc_offset c + SingleVlanSlice.header_len) (lc_src c) r')
                  (mkEtherPayload (ep_ether_type vp) (lc_src c) (ep_slice vp))
            end
        else if et =? ET_MACSEC then
          if LINK_EXTS_CAP <=? len (lsp_exts r) then Ok r
          else
            match LaxMacsecSlice.from_slice (ep_slice ep) with
            | Err (ELen e) =>
                Ok (with_stop r (ELen (le_add_offset e (lc_offset c)), le_layer e))
            | Err (EContent ce) => Ok (with_stop r (EContent ce, LyMacsecHeader))
            | Bug b => Bug b
            | Ok macsec =>
                let* hl := Macsec.header_len (lms_header macsec) in
                let* r' := push_ext r (LLeMacsec macsec) in
                match lms_payload macsec with
                | LMpUnmodified e =>
                    let src' := if negb (is_slice_src (lep_src e)) then lep_src e else lc_src c in
                    slice_ether_type_loop f
                      (mkLaxCursor (lc_offset c + hl) src' r')
                      (mkEtherPayload (lep_ether_type e) src' (lep_slice e))
                | LMpModified _ _ => Ok r'
                end
            end
        else if et =? ET_ARP then slice_arp c (ep_slice ep)
        else if et =? ET_IPV4 then slice_ip c (ep_slice ep)
        else if et =? ET_IPV6 then slice_ip c (ep_slice ep)
        else Ok r
    end.

  Definition slice_ether_type (c : lax_cursor) (ep : ether_payload) : res lax_sliced_packet :=
    slice_ether_type_loop 5 c ep.

  Definition parse_from_ethernet2 (s : slice) : res lax_sliced_packet :=
    let* r := Ethernet2Slice.from_slice_without_fcs s in      (* `?`: the LenError is returned *)
    let* ep := Ethernet2Slice.payload r in
    slice_ether_type
      (mkLaxCursor (0 + Ethernet2Slice.header_len) LsSlice (with_link empty (LkEthernet2 r))) ep.

  Definition parse_from_ether_type (ether_type : N) (s : slice) : res lax_sliced_packet :=
    let ep := mkEtherPayload ether_type LsSlice s in
    slice_ether_type (mkLaxCursor 0 LsSlice (with_link empty (LkEtherPayload ep))) ep.

  Definition parse_from_ip (s : slice) : res lax_sliced_packet :=
    let* x := LaxIpSlice.from_slice s in                       (* `?` *)
    let '(ip, stop) := x in
    let payload := LaxIpSlice.payload ip in
    let* offset := ptr_diff (lipp_slice payload) s in
    let r :=
      mkLaxSliced None [] (Some (net_of_ip ip)) None
        (option_map (conv_ext_stop (is_v4 ip) (fun l => l)) stop) in
    slice_transport (mkLaxCursor offset LsSlice r) payload.
End LaxSlicedPacketCursor.

Module LaxSlicedPacket.
  Import LaxSlicedPacketCursor.
  Definition from_ethernet (data : bytes) : res lax_sliced_packet :=
    parse_from_ethernet2 (mk_slice data).
  Definition from_ether_type (ether_type : N) (data : bytes) : res lax_sliced_packet :=
    parse_from_ether_type ether_type (mk_slice data).
  Definition from_ip (data : bytes) : res lax_sliced_packet :=
    parse_from_ip (mk_slice data).
End LaxSlicedPacket.
