(* Parse/View.v -- what an observer sees of a slicing result: every sub-slice as
   a window (offset, length) of the caller's buffer, plus the decoded values
   that drive the parse.  The model result is mapped to it by `view`, the wire
   specification produces it directly. *)
From EP Require Import Base.Bytes Parse.Types Parse.Slices Parse.Cursor.

Record vether_payload := mkVEp { vep_type : N; vep_src : len_source; vep_win : window }.
Record vip_payload := mkVIp {
  vip_number : N; vip_frag : bool; vip_src : len_source; vip_win : window }.

Inductive vmacsec_payload :=
| VMpUnmodified (e : vether_payload)
| VMpModified (w : window).

Inductive vlink :=
| VEthernet2 (w : window)
| VLinuxSll (hdr whole : window)
| VEtherPayload (e : vether_payload).

Inductive vlink_ext :=
| VVlan (w : window)
| VMacsec (hdr : window) (p : vmacsec_payload).

Inductive vnet :=
| VIpv4 (hdr : window) (auth : option window) (p : vip_payload)
| VIpv6 (hdr : window) (first : option N) (frag : bool) (exts : window) (p : vip_payload)
| VArp (w : window).

Inductive vtransport :=
| VUdp (w : window)
| VTcp (header_len : N) (w : window)
| VIcmpv4 (w : window)
| VIcmpv6 (w : window).

Record vpacket := mkVPacket {
  v_link : option vlink;
  v_exts : list vlink_ext;
  v_net : option vnet;
  v_transport : option vtransport;
}.

Inductive vres :=
| VOk (p : vpacket)
| VErr (e : slice_error)
| VBug (site : N).

Definition view_ep (e : ether_payload) : vether_payload :=
  mkVEp (ep_ether_type e) (ep_src e) (win_of (ep_slice e)).
Definition view_ipp (p : ip_payload) : vip_payload :=
  mkVIp (ipp_number p) (ipp_fragmented p) (ipp_src p) (win_of (ipp_slice p)).
Definition view_link (l : link_slice) : vlink :=
  match l with
  | LkEthernet2 s => VEthernet2 (win_of s)
  | LkLinuxSll h w => VLinuxSll (win_of h) (win_of w)
  | LkEtherPayload e => VEtherPayload (view_ep e)
  end.
Definition view_ext (x : link_ext_slice) : vlink_ext :=
  match x with
  | LeVlan s => VVlan (win_of s)
  | LeMacsec m =>
      VMacsec (win_of (ms_header m))
        (match ms_payload m with
         | MpUnmodified e => VMpUnmodified (view_ep e)
         | MpModified s => VMpModified (win_of s)
         end)
  end.
Definition view_net (n : net_slice) : vnet :=
  match n with
  | NtIpv4 v => VIpv4 (win_of (v4_header v)) (option_map win_of (v4_auth v)) (view_ipp (v4_payload v))
  | NtIpv6 v => VIpv6 (win_of (v6_header v)) (x6_first (v6_exts v)) (x6_fragmented (v6_exts v))
                  (win_of (x6_slice (v6_exts v))) (view_ipp (v6_payload v))
  | NtArp s => VArp (win_of s)
  end.
Definition view_tr (t : transport_slice) : vtransport :=
  match t with
  | TrUdp s => VUdp (win_of s)
  | TrTcp hl s => VTcp hl (win_of s)
  | TrIcmpv4 s => VIcmpv4 (win_of s)
  | TrIcmpv6 s => VIcmpv6 (win_of s)
  end.
Definition view (p : sliced_packet) : vpacket :=
  mkVPacket (option_map view_link (sp_link p)) (map view_ext (sp_exts p))
            (option_map view_net (sp_net p)) (option_map view_tr (sp_transport p)).

Definition vres_of (r : res sliced_packet) : vres :=
  match r with
  | Ok p => VOk (view p)
  | Err e => VErr e
  | Bug s => VBug s
  end.
