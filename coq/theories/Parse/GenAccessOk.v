(* Parse/GenAccessOk.v -- every accessor that tools/gen_accessors.py regenerates
   from the crate's source on every run (Gen/Accessors.v, not committed) equals the
   hand-written model of that accessor (Parse/Access.v, Parse/AccessExtra.v), and,
   where property C15 has its own decoder for the same field (BitFields/Model.v),
   that decoder as well.  The theorems of C03 / C15 / C01 / C02 are about the hand
   models; with this file imported they are theorems about definitions REGENERATED
   from the code: a changed mask, shift, index, byte order or operator precedence
   in an accessor breaks the lemma of that accessor.

   Statements: accessors that only read (bytes, big-endian words, arrays) are
   equal unconditionally; accessors with bit arithmetic are stated for slices
   whose elements are bytes (`bytes_ok (snd s)`, i.e. every element < 256 -- true
   of every Rust `&[u8]`, and a hypothesis of every theorem of C03/C15/C01), so
   that the equation can be DECIDED by a complete sweep over 0..255 (one byte) or
   0..255 x 0..255 (two bytes) when the two sides are not syntactically equal.
   The proof script is the same for every lemma: unfold both sides, destruct the
   reads, close by reflexivity or by the sweep.  It therefore also goes through
   when the generated side is a FALLBACK alias of the hand model (function left
   the translator's grammar) and after behaviour-preserving rewrites inside the
   grammar (`x >> 4` -> `(x & 0xf0) >> 4`, `0 != (x & m)` -> `(x & m) != 0` ...). *)
From EP Require Import Base.Bytes Parse.Types Parse.Slices Parse.Cursor Parse.Access
  Parse.AccessExtra.
From EP Require Gen.Accessors.
From EP Require BitFields.Model.
Import EP.Gen.Accessors.
Module BM := EP.BitFields.Model.

Local Open Scope N_scope.

(* ---- complete sweeps over one / two bytes ---------------------------------- *)
Definition range256 : list N := map N.of_nat (seq 0 256).

Lemma range256_in b : b < 256 -> In b range256.
Proof.
  intros Hb. unfold range256. apply in_map_iff. exists (N.to_nat b).
  split; [lia|]. apply in_seq. lia.
Qed.

Definition sweep1 (P : N -> bool) : bool := forallb P range256.
Definition sweep2 (P : N -> N -> bool) : bool :=
  forallb (fun a => forallb (P a) range256) range256.

Lemma sweep1_ok P : sweep1 P = true -> forall a, a < 256 -> P a = true.
Proof.
  unfold sweep1. intros HP a Ha. rewrite forallb_forall in HP.
  apply HP. now apply range256_in.
Qed.

Lemma sweep2_ok P : sweep2 P = true ->
  forall a, a < 256 -> forall b, b < 256 -> P a b = true.
Proof.
  unfold sweep2. intros HP a Ha b Hb. rewrite forallb_forall in HP.
  specialize (HP a (range256_in a Ha)). rewrite forallb_forall in HP.
  apply HP. now apply range256_in.
Qed.

Lemma rdU_byte s i b : bytes_ok (snd s) -> rdU s i = Ok b -> b < 256.
Proof.
  unfold rdU. intros Hs E. destruct (rd (snd s) i) as [v|] eqn:R; [|discriminate].
  injection E as <-. eapply rd_ok; eauto.
Qed.

Lemma rd_byte bs i b : bytes_ok bs -> rd bs i = Some b -> b < 256.
Proof. intros Hs E. eapply rd_ok; eauto. Qed.

(* ---- the normalising tactic -------------------------------------------------- *)
Create HintDb genacc discriminated.

(* closed index arithmetic left by rd16 / rd32 / rd_arr: 2 + 1 ~> 3 *)
Ltac norm_idx :=
  repeat match goal with
  | |- context [rdU ?s (?a + ?b)] =>
      let v := eval vm_compute in (a + b) in change (a + b) with v
  | |- context [rd ?s (?a + ?b)] =>
      let v := eval vm_compute in (a + b) in change (a + b) with v
  end.

Ltac acc_unfold :=
  repeat autounfold with genacc;
  cbv beta iota delta [rd16 rd32 rd_arr bind e2_slice];
  norm_idx.

(* [e = true] with the free bytes of [e] bounded in the context: decide by a sweep *)
Ltac clear_unused_bounds :=
  repeat match goal with
  | H : ?b < 256 |- ?G =>
      lazymatch G with context [b] => fail | _ => clear H end
  end.

Ltac sweep_true :=
  clear_unused_bounds;
  lazymatch goal with
  | _ : ?a < 256, _ : ?b < 256, _ : ?c < 256 |- _ =>
      fail "sweep over more than two bytes is not supported"
  | Ha : ?a < 256, Hb : ?b < 256 |- ?e = true =>
      let f := eval pattern a, b in e in
      lazymatch f with
      | ?F _ _ => exact (sweep2_ok F (eq_refl true <: sweep2 F = true) a Ha b Hb)
      end
  | Ha : ?a < 256 |- ?e = true =>
      let f := eval pattern a in e in
      lazymatch f with
      | ?F _ => exact (sweep1_ok F (eq_refl true <: sweep1 F = true) a Ha)
      end
  | |- _ = true => vm_compute; reflexivity
  end.

Ltac sweep_eq :=
  first
  [ reflexivity
  | lazymatch goal with
    | |- @eq N _ _ => apply N.eqb_eq; sweep_true
    | |- @eq bool _ _ => apply Bool.eqb_prop; sweep_true
    end ].

(* destruct every unchecked read of the goal; the failing branches are identical *)
Ltac acc_reads Hs :=
  repeat match goal with
  | |- context [rdU ?s ?i] =>
      let b := fresh "b" in let E := fresh "E" in
      destruct (rdU s i) as [b | ? | ?] eqn:E; cbv beta iota;
      [ try (apply (rdU_byte _ _ _ Hs) in E) | reflexivity | reflexivity ]
  end.

Ltac acc_reads0 :=
  repeat match goal with
  | |- context [rdU ?s ?i] =>
      destruct (rdU s i) as [? | ? | ?]; cbv beta iota;
      [ | reflexivity | reflexivity ]
  end.

(* both sides already unfolded once by the caller *)
Ltac acc_solve Hs :=
  acc_unfold; try reflexivity;
  acc_reads Hs; try reflexivity;
  lazymatch goal with
  | |- Ok _ = Ok _ => f_equal; sweep_eq
  end.

Ltac acc_solve0 :=
  acc_unfold; try reflexivity;
  acc_reads0; reflexivity.

(* [acc_eq g h]: bit-arithmetic accessor, under bytes_ok; [acc_eq0 g h]: pure read *)
Tactic Notation "acc_eq" constr(g) constr(h) :=
  let s := fresh "s" in let Hs := fresh "Hs" in
  intros s Hs; unfold g, h; acc_solve Hs.
Tactic Notation "acc_eq0" constr(g) constr(h) :=
  let s := fresh "s" in intros s; unfold g, h; acc_solve0.
(* ---- Ethernet2Slice -------------------------------------------------------- *)
Lemma gen_eth2_destination : forall e, GEthernet2Slice.destination (e2_slice e) = Ethernet2A.destination e.
Proof. acc_eq0 GEthernet2Slice.destination Ethernet2A.destination. Qed.
#[local] Hint Unfold GEthernet2Slice.destination Ethernet2A.destination : genacc.
Lemma gen_eth2_source : forall e, GEthernet2Slice.source (e2_slice e) = Ethernet2A.source e.
Proof. acc_eq0 GEthernet2Slice.source Ethernet2A.source. Qed.
#[local] Hint Unfold GEthernet2Slice.source Ethernet2A.source : genacc.
Lemma gen_eth2_ether_type : forall e, GEthernet2Slice.ether_type (e2_slice e) = Ethernet2A.ether_type e.
Proof. acc_eq0 GEthernet2Slice.ether_type Ethernet2A.ether_type. Qed.
#[local] Hint Unfold GEthernet2Slice.ether_type Ethernet2A.ether_type : genacc.
Lemma gen_eth2_header_len : forall s, GEthernet2Slice.header_len s = Ok Ethernet2Slice.header_len.
Proof. acc_eq0 GEthernet2Slice.header_len Ethernet2Slice.header_len. Qed.

(* ---- Ethernet2HeaderSlice -------------------------------------------------- *)
Lemma gen_eth2hdr_destination : forall s, GEthernet2HeaderSlice.destination s = Ethernet2A.destination (mkEth2 0 s).
Proof. acc_eq0 GEthernet2HeaderSlice.destination Ethernet2A.destination. Qed.
#[local] Hint Unfold GEthernet2HeaderSlice.destination Ethernet2A.destination : genacc.
Lemma gen_eth2hdr_source : forall s, GEthernet2HeaderSlice.source s = Ethernet2A.source (mkEth2 0 s).
Proof. acc_eq0 GEthernet2HeaderSlice.source Ethernet2A.source. Qed.
#[local] Hint Unfold GEthernet2HeaderSlice.source Ethernet2A.source : genacc.
Lemma gen_eth2hdr_ether_type : forall s, GEthernet2HeaderSlice.ether_type s = Ethernet2A.ether_type (mkEth2 0 s).
Proof. acc_eq0 GEthernet2HeaderSlice.ether_type Ethernet2A.ether_type. Qed.
#[local] Hint Unfold GEthernet2HeaderSlice.ether_type Ethernet2A.ether_type : genacc.

(* ---- SingleVlanSlice ------------------------------------------------------- *)
Lemma gen_vlan_priority_code_point : forall s, bytes_ok (snd s) ->
  GSingleVlanSlice.priority_code_point s = SingleVlanA.priority_code_point s.
Proof. acc_eq GSingleVlanSlice.priority_code_point SingleVlanA.priority_code_point. Qed.
#[local] Hint Unfold GSingleVlanSlice.priority_code_point SingleVlanA.priority_code_point : genacc.
Lemma gen_vlan_drop_eligible_indicator : forall s, bytes_ok (snd s) ->
  GSingleVlanSlice.drop_eligible_indicator s = SingleVlanA.drop_eligible_indicator s.
Proof. acc_eq GSingleVlanSlice.drop_eligible_indicator SingleVlanA.drop_eligible_indicator. Qed.
#[local] Hint Unfold GSingleVlanSlice.drop_eligible_indicator SingleVlanA.drop_eligible_indicator : genacc.
Lemma gen_vlan_vlan_identifier : forall s, bytes_ok (snd s) ->
  GSingleVlanSlice.vlan_identifier s = SingleVlanA.vlan_identifier s.
Proof. acc_eq GSingleVlanSlice.vlan_identifier SingleVlanA.vlan_identifier. Qed.
#[local] Hint Unfold GSingleVlanSlice.vlan_identifier SingleVlanA.vlan_identifier : genacc.
Lemma gen_vlan_ether_type : forall s, GSingleVlanSlice.ether_type s = SingleVlanA.ether_type s.
Proof. acc_eq0 GSingleVlanSlice.ether_type SingleVlanA.ether_type. Qed.
#[local] Hint Unfold GSingleVlanSlice.ether_type SingleVlanA.ether_type : genacc.
Lemma gen_vlan_header_len : forall s, GSingleVlanSlice.header_len s = Ok SingleVlanSlice.header_len.
Proof. acc_eq0 GSingleVlanSlice.header_len SingleVlanSlice.header_len. Qed.

(* ---- SingleVlanHeaderSlice ------------------------------------------------- *)
Lemma gen_vlanhdr_priority_code_point : forall s, bytes_ok (snd s) ->
  GSingleVlanHeaderSlice.priority_code_point s = SingleVlanA.priority_code_point s.
Proof. acc_eq GSingleVlanHeaderSlice.priority_code_point SingleVlanA.priority_code_point. Qed.
#[local] Hint Unfold GSingleVlanHeaderSlice.priority_code_point SingleVlanA.priority_code_point : genacc.
Lemma gen_vlanhdr_drop_eligible_indicator : forall s, bytes_ok (snd s) ->
  GSingleVlanHeaderSlice.drop_eligible_indicator s = SingleVlanA.drop_eligible_indicator s.
Proof. acc_eq GSingleVlanHeaderSlice.drop_eligible_indicator SingleVlanA.drop_eligible_indicator. Qed.
#[local] Hint Unfold GSingleVlanHeaderSlice.drop_eligible_indicator SingleVlanA.drop_eligible_indicator : genacc.
Lemma gen_vlanhdr_vlan_identifier : forall s, bytes_ok (snd s) ->
  GSingleVlanHeaderSlice.vlan_identifier s = SingleVlanA.vlan_identifier s.
Proof. acc_eq GSingleVlanHeaderSlice.vlan_identifier SingleVlanA.vlan_identifier. Qed.
#[local] Hint Unfold GSingleVlanHeaderSlice.vlan_identifier SingleVlanA.vlan_identifier : genacc.
Lemma gen_vlanhdr_ether_type : forall s, GSingleVlanHeaderSlice.ether_type s = SingleVlanA.ether_type s.
Proof. acc_eq0 GSingleVlanHeaderSlice.ether_type SingleVlanA.ether_type. Qed.
#[local] Hint Unfold GSingleVlanHeaderSlice.ether_type SingleVlanA.ether_type : genacc.

(* ---- LinuxSllHeaderSlice --------------------------------------------------- *)
Lemma gen_sll_arp_hardware_type : forall s, GLinuxSllHeaderSlice.arp_hardware_type s = LinuxSllHeaderA.arp_hardware_type s.
Proof. acc_eq0 GLinuxSllHeaderSlice.arp_hardware_type LinuxSllHeaderA.arp_hardware_type. Qed.
#[local] Hint Unfold GLinuxSllHeaderSlice.arp_hardware_type LinuxSllHeaderA.arp_hardware_type : genacc.
Lemma gen_sll_sender_address_valid_length : forall s, GLinuxSllHeaderSlice.sender_address_valid_length s = LinuxSllHeaderA.sender_address_valid_length s.
Proof. acc_eq0 GLinuxSllHeaderSlice.sender_address_valid_length LinuxSllHeaderA.sender_address_valid_length. Qed.
#[local] Hint Unfold GLinuxSllHeaderSlice.sender_address_valid_length LinuxSllHeaderA.sender_address_valid_length : genacc.
Lemma gen_sll_sender_address_full : forall s, GLinuxSllHeaderSlice.sender_address_full s = LinuxSllHeaderA.sender_address_full s.
Proof. acc_eq0 GLinuxSllHeaderSlice.sender_address_full LinuxSllHeaderA.sender_address_full. Qed.
#[local] Hint Unfold GLinuxSllHeaderSlice.sender_address_full LinuxSllHeaderA.sender_address_full : genacc.

(* ---- MacsecHeaderSlice ----------------------------------------------------- *)
Lemma gen_macsec_tci_an_raw : forall s, GMacsecHeaderSlice.tci_an_raw s = MacsecHeaderA.tci_an_raw s.
Proof. acc_eq0 GMacsecHeaderSlice.tci_an_raw MacsecHeaderA.tci_an_raw. Qed.
#[local] Hint Unfold GMacsecHeaderSlice.tci_an_raw MacsecHeaderA.tci_an_raw : genacc.
Lemma gen_macsec_endstation_id : forall s, bytes_ok (snd s) ->
  GMacsecHeaderSlice.endstation_id s = MacsecHeaderA.endstation_id s.
Proof. acc_eq GMacsecHeaderSlice.endstation_id MacsecHeaderA.endstation_id. Qed.
#[local] Hint Unfold GMacsecHeaderSlice.endstation_id MacsecHeaderA.endstation_id : genacc.
Lemma gen_macsec_tci_scb : forall s, bytes_ok (snd s) ->
  GMacsecHeaderSlice.tci_scb s = MacsecHeaderA.tci_scb s.
Proof. acc_eq GMacsecHeaderSlice.tci_scb MacsecHeaderA.tci_scb. Qed.
#[local] Hint Unfold GMacsecHeaderSlice.tci_scb MacsecHeaderA.tci_scb : genacc.
Lemma gen_macsec_encrypted : forall s, bytes_ok (snd s) ->
  GMacsecHeaderSlice.encrypted s = MacsecHeaderA.encrypted s.
Proof. acc_eq GMacsecHeaderSlice.encrypted MacsecHeaderA.encrypted. Qed.
#[local] Hint Unfold GMacsecHeaderSlice.encrypted MacsecHeaderA.encrypted : genacc.
Lemma gen_macsec_userdata_changed : forall s, bytes_ok (snd s) ->
  GMacsecHeaderSlice.userdata_changed s = MacsecHeaderA.userdata_changed s.
Proof. acc_eq GMacsecHeaderSlice.userdata_changed MacsecHeaderA.userdata_changed. Qed.
#[local] Hint Unfold GMacsecHeaderSlice.userdata_changed MacsecHeaderA.userdata_changed : genacc.
Lemma gen_macsec_is_unmodified : forall s, bytes_ok (snd s) ->
  GMacsecHeaderSlice.is_unmodified s = MacsecHeaderA.is_unmodified s.
Proof. acc_eq GMacsecHeaderSlice.is_unmodified MacsecHeaderA.is_unmodified. Qed.
#[local] Hint Unfold GMacsecHeaderSlice.is_unmodified MacsecHeaderA.is_unmodified : genacc.
Lemma gen_macsec_an : forall s, bytes_ok (snd s) ->
  GMacsecHeaderSlice.an s = MacsecHeaderA.an s.
Proof. acc_eq GMacsecHeaderSlice.an MacsecHeaderA.an. Qed.
#[local] Hint Unfold GMacsecHeaderSlice.an MacsecHeaderA.an : genacc.
Lemma gen_macsec_short_len : forall s, bytes_ok (snd s) ->
  GMacsecHeaderSlice.short_len s = MacsecHeaderA.short_len s.
Proof. acc_eq GMacsecHeaderSlice.short_len MacsecHeaderA.short_len. Qed.
#[local] Hint Unfold GMacsecHeaderSlice.short_len MacsecHeaderA.short_len : genacc.
Lemma gen_macsec_packet_nr : forall s, GMacsecHeaderSlice.packet_nr s = MacsecHeaderA.packet_nr s.
Proof. acc_eq0 GMacsecHeaderSlice.packet_nr MacsecHeaderA.packet_nr. Qed.
#[local] Hint Unfold GMacsecHeaderSlice.packet_nr MacsecHeaderA.packet_nr : genacc.
Lemma gen_macsec_sci_present : forall s, bytes_ok (snd s) ->
  GMacsecHeaderSlice.sci_present s = MacsecHeaderA.sci_present s.
Proof. acc_eq GMacsecHeaderSlice.sci_present MacsecHeaderA.sci_present. Qed.
#[local] Hint Unfold GMacsecHeaderSlice.sci_present MacsecHeaderA.sci_present : genacc.

(* ---- ArpPacketSlice -------------------------------------------------------- *)
Lemma gen_arp_hw_addr_type : forall s, GArpPacketSlice.hw_addr_type s = ArpPacketA.hw_addr_type s.
Proof. acc_eq0 GArpPacketSlice.hw_addr_type ArpPacketA.hw_addr_type. Qed.
#[local] Hint Unfold GArpPacketSlice.hw_addr_type ArpPacketA.hw_addr_type : genacc.
Lemma gen_arp_proto_addr_type : forall s, GArpPacketSlice.proto_addr_type s = ArpPacketA.proto_addr_type s.
Proof. acc_eq0 GArpPacketSlice.proto_addr_type ArpPacketA.proto_addr_type. Qed.
#[local] Hint Unfold GArpPacketSlice.proto_addr_type ArpPacketA.proto_addr_type : genacc.
Lemma gen_arp_hw_addr_size : forall s, GArpPacketSlice.hw_addr_size s = ArpPacketA.hw_addr_size s.
Proof. acc_eq0 GArpPacketSlice.hw_addr_size ArpPacketA.hw_addr_size. Qed.
#[local] Hint Unfold GArpPacketSlice.hw_addr_size ArpPacketA.hw_addr_size : genacc.
Lemma gen_arp_proto_addr_size : forall s, GArpPacketSlice.proto_addr_size s = ArpPacketA.proto_addr_size s.
Proof. acc_eq0 GArpPacketSlice.proto_addr_size ArpPacketA.proto_addr_size. Qed.
#[local] Hint Unfold GArpPacketSlice.proto_addr_size ArpPacketA.proto_addr_size : genacc.
Lemma gen_arp_operation : forall s, GArpPacketSlice.operation s = ArpPacketA.operation s.
Proof. acc_eq0 GArpPacketSlice.operation ArpPacketA.operation. Qed.
#[local] Hint Unfold GArpPacketSlice.operation ArpPacketA.operation : genacc.

(* ---- Ipv4HeaderSlice ------------------------------------------------------- *)
Lemma gen_ipv4_version : forall s, bytes_ok (snd s) ->
  GIpv4HeaderSlice.version s = Ipv4HeaderA.version s.
Proof. acc_eq GIpv4HeaderSlice.version Ipv4HeaderA.version. Qed.
#[local] Hint Unfold GIpv4HeaderSlice.version Ipv4HeaderA.version : genacc.
Lemma gen_ipv4_ihl : forall s, bytes_ok (snd s) ->
  GIpv4HeaderSlice.ihl s = Ipv4HeaderA.ihl s.
Proof. acc_eq GIpv4HeaderSlice.ihl Ipv4HeaderA.ihl. Qed.
#[local] Hint Unfold GIpv4HeaderSlice.ihl Ipv4HeaderA.ihl : genacc.
Lemma gen_ipv4_dcp : forall s, bytes_ok (snd s) ->
  GIpv4HeaderSlice.dcp s = Ipv4HeaderA.dcp s.
Proof. acc_eq GIpv4HeaderSlice.dcp Ipv4HeaderA.dcp. Qed.
#[local] Hint Unfold GIpv4HeaderSlice.dcp Ipv4HeaderA.dcp : genacc.
Lemma gen_ipv4_ecn : forall s, bytes_ok (snd s) ->
  GIpv4HeaderSlice.ecn s = Ipv4HeaderA.ecn s.
Proof. acc_eq GIpv4HeaderSlice.ecn Ipv4HeaderA.ecn. Qed.
#[local] Hint Unfold GIpv4HeaderSlice.ecn Ipv4HeaderA.ecn : genacc.
Lemma gen_ipv4_total_len : forall s, GIpv4HeaderSlice.total_len s = Ipv4HeaderA.total_len s.
Proof. acc_eq0 GIpv4HeaderSlice.total_len Ipv4HeaderA.total_len. Qed.
#[local] Hint Unfold GIpv4HeaderSlice.total_len Ipv4HeaderA.total_len : genacc.
Lemma gen_ipv4_identification : forall s, GIpv4HeaderSlice.identification s = Ipv4HeaderA.identification s.
Proof. acc_eq0 GIpv4HeaderSlice.identification Ipv4HeaderA.identification. Qed.
#[local] Hint Unfold GIpv4HeaderSlice.identification Ipv4HeaderA.identification : genacc.
Lemma gen_ipv4_dont_fragment : forall s, bytes_ok (snd s) ->
  GIpv4HeaderSlice.dont_fragment s = Ipv4HeaderA.dont_fragment s.
Proof. acc_eq GIpv4HeaderSlice.dont_fragment Ipv4HeaderA.dont_fragment. Qed.
#[local] Hint Unfold GIpv4HeaderSlice.dont_fragment Ipv4HeaderA.dont_fragment : genacc.
Lemma gen_ipv4_more_fragments : forall s, bytes_ok (snd s) ->
  GIpv4HeaderSlice.more_fragments s = Ipv4HeaderA.more_fragments s.
Proof. acc_eq GIpv4HeaderSlice.more_fragments Ipv4HeaderA.more_fragments. Qed.
#[local] Hint Unfold GIpv4HeaderSlice.more_fragments Ipv4HeaderA.more_fragments : genacc.
Lemma gen_ipv4_fragments_offset : forall s, bytes_ok (snd s) ->
  GIpv4HeaderSlice.fragments_offset s = Ipv4HeaderA.fragments_offset s.
Proof. acc_eq GIpv4HeaderSlice.fragments_offset Ipv4HeaderA.fragments_offset. Qed.
#[local] Hint Unfold GIpv4HeaderSlice.fragments_offset Ipv4HeaderA.fragments_offset : genacc.
Lemma gen_ipv4_ttl : forall s, GIpv4HeaderSlice.ttl s = Ipv4HeaderA.ttl s.
Proof. acc_eq0 GIpv4HeaderSlice.ttl Ipv4HeaderA.ttl. Qed.
#[local] Hint Unfold GIpv4HeaderSlice.ttl Ipv4HeaderA.ttl : genacc.
Lemma gen_ipv4_protocol : forall s, GIpv4HeaderSlice.protocol s = Ipv4HeaderA.protocol s.
Proof. acc_eq0 GIpv4HeaderSlice.protocol Ipv4HeaderA.protocol. Qed.
#[local] Hint Unfold GIpv4HeaderSlice.protocol Ipv4HeaderA.protocol : genacc.
Lemma gen_ipv4_header_checksum : forall s, GIpv4HeaderSlice.header_checksum s = Ipv4HeaderA.header_checksum s.
Proof. acc_eq0 GIpv4HeaderSlice.header_checksum Ipv4HeaderA.header_checksum. Qed.
#[local] Hint Unfold GIpv4HeaderSlice.header_checksum Ipv4HeaderA.header_checksum : genacc.
Lemma gen_ipv4_source : forall s, GIpv4HeaderSlice.source s = Ipv4HeaderA.source s.
Proof. acc_eq0 GIpv4HeaderSlice.source Ipv4HeaderA.source. Qed.
#[local] Hint Unfold GIpv4HeaderSlice.source Ipv4HeaderA.source : genacc.
Lemma gen_ipv4_destination : forall s, GIpv4HeaderSlice.destination s = Ipv4HeaderA.destination s.
Proof. acc_eq0 GIpv4HeaderSlice.destination Ipv4HeaderA.destination. Qed.
#[local] Hint Unfold GIpv4HeaderSlice.destination Ipv4HeaderA.destination : genacc.
Lemma gen_ipv4_is_fragmenting_payload : forall s, bytes_ok (snd s) ->
  GIpv4HeaderSlice.is_fragmenting_payload s = Ipv4HeaderA.is_fragmenting_payload s.
Proof. acc_eq GIpv4HeaderSlice.is_fragmenting_payload Ipv4HeaderA.is_fragmenting_payload. Qed.
#[local] Hint Unfold GIpv4HeaderSlice.is_fragmenting_payload Ipv4HeaderA.is_fragmenting_payload : genacc.
Lemma gen_ipv4_source_addr : forall s, GIpv4HeaderSlice.source_addr s = Ipv4HeaderX.source_addr s.
Proof. acc_eq0 GIpv4HeaderSlice.source_addr Ipv4HeaderX.source_addr. Qed.
#[local] Hint Unfold GIpv4HeaderSlice.source_addr Ipv4HeaderX.source_addr : genacc.
Lemma gen_ipv4_destination_addr : forall s, GIpv4HeaderSlice.destination_addr s = Ipv4HeaderX.destination_addr s.
Proof. acc_eq0 GIpv4HeaderSlice.destination_addr Ipv4HeaderX.destination_addr. Qed.
#[local] Hint Unfold GIpv4HeaderSlice.destination_addr Ipv4HeaderX.destination_addr : genacc.

(* ---- Ipv6HeaderSlice ------------------------------------------------------- *)
Lemma gen_ipv6_version : forall s, bytes_ok (snd s) ->
  GIpv6HeaderSlice.version s = Ipv6HeaderA.version s.
Proof. acc_eq GIpv6HeaderSlice.version Ipv6HeaderA.version. Qed.
#[local] Hint Unfold GIpv6HeaderSlice.version Ipv6HeaderA.version : genacc.
Lemma gen_ipv6_traffic_class : forall s, bytes_ok (snd s) ->
  GIpv6HeaderSlice.traffic_class s = Ipv6HeaderA.traffic_class s.
Proof. acc_eq GIpv6HeaderSlice.traffic_class Ipv6HeaderA.traffic_class. Qed.
#[local] Hint Unfold GIpv6HeaderSlice.traffic_class Ipv6HeaderA.traffic_class : genacc.
Lemma gen_ipv6_ecn : forall s, bytes_ok (snd s) ->
  GIpv6HeaderSlice.ecn s = Ipv6HeaderA.ecn s.
Proof. acc_eq GIpv6HeaderSlice.ecn Ipv6HeaderA.ecn. Qed.
#[local] Hint Unfold GIpv6HeaderSlice.ecn Ipv6HeaderA.ecn : genacc.
Lemma gen_ipv6_dscp : forall s, bytes_ok (snd s) ->
  GIpv6HeaderSlice.dscp s = Ipv6HeaderA.dscp s.
Proof. acc_eq GIpv6HeaderSlice.dscp Ipv6HeaderA.dscp. Qed.
#[local] Hint Unfold GIpv6HeaderSlice.dscp Ipv6HeaderA.dscp : genacc.
Lemma gen_ipv6_flow_label : forall s, bytes_ok (snd s) ->
  GIpv6HeaderSlice.flow_label s = Ipv6HeaderA.flow_label s.
Proof. acc_eq GIpv6HeaderSlice.flow_label Ipv6HeaderA.flow_label. Qed.
#[local] Hint Unfold GIpv6HeaderSlice.flow_label Ipv6HeaderA.flow_label : genacc.
Lemma gen_ipv6_payload_length : forall s, GIpv6HeaderSlice.payload_length s = Ipv6HeaderA.payload_length s.
Proof. acc_eq0 GIpv6HeaderSlice.payload_length Ipv6HeaderA.payload_length. Qed.
#[local] Hint Unfold GIpv6HeaderSlice.payload_length Ipv6HeaderA.payload_length : genacc.
Lemma gen_ipv6_next_header : forall s, GIpv6HeaderSlice.next_header s = Ipv6HeaderA.next_header s.
Proof. acc_eq0 GIpv6HeaderSlice.next_header Ipv6HeaderA.next_header. Qed.
#[local] Hint Unfold GIpv6HeaderSlice.next_header Ipv6HeaderA.next_header : genacc.
Lemma gen_ipv6_hop_limit : forall s, GIpv6HeaderSlice.hop_limit s = Ipv6HeaderA.hop_limit s.
Proof. acc_eq0 GIpv6HeaderSlice.hop_limit Ipv6HeaderA.hop_limit. Qed.
#[local] Hint Unfold GIpv6HeaderSlice.hop_limit Ipv6HeaderA.hop_limit : genacc.
Lemma gen_ipv6_source : forall s, GIpv6HeaderSlice.source s = Ipv6HeaderA.source s.
Proof. acc_eq0 GIpv6HeaderSlice.source Ipv6HeaderA.source. Qed.
#[local] Hint Unfold GIpv6HeaderSlice.source Ipv6HeaderA.source : genacc.
Lemma gen_ipv6_destination : forall s, GIpv6HeaderSlice.destination s = Ipv6HeaderA.destination s.
Proof. acc_eq0 GIpv6HeaderSlice.destination Ipv6HeaderA.destination. Qed.
#[local] Hint Unfold GIpv6HeaderSlice.destination Ipv6HeaderA.destination : genacc.
Lemma gen_ipv6_source_addr : forall s, GIpv6HeaderSlice.source_addr s = Ipv6HeaderX.source_addr s.
Proof. acc_eq0 GIpv6HeaderSlice.source_addr Ipv6HeaderX.source_addr. Qed.
#[local] Hint Unfold GIpv6HeaderSlice.source_addr Ipv6HeaderX.source_addr : genacc.
Lemma gen_ipv6_destination_addr : forall s, GIpv6HeaderSlice.destination_addr s = Ipv6HeaderX.destination_addr s.
Proof. acc_eq0 GIpv6HeaderSlice.destination_addr Ipv6HeaderX.destination_addr. Qed.
#[local] Hint Unfold GIpv6HeaderSlice.destination_addr Ipv6HeaderX.destination_addr : genacc.
Lemma gen_ipv6_header_len : forall s, GIpv6HeaderSlice.header_len s = Ipv6HeaderX.header_len s.
Proof. acc_eq0 GIpv6HeaderSlice.header_len Ipv6HeaderX.header_len. Qed.
#[local] Hint Unfold GIpv6HeaderSlice.header_len Ipv6HeaderX.header_len : genacc.

(* ---- Ipv6FragmentHeaderSlice ----------------------------------------------- *)
Lemma gen_frag_next_header : forall s, GIpv6FragmentHeaderSlice.next_header s = Ipv6FragmentHeaderA.next_header s.
Proof. acc_eq0 GIpv6FragmentHeaderSlice.next_header Ipv6FragmentHeaderA.next_header. Qed.
#[local] Hint Unfold GIpv6FragmentHeaderSlice.next_header Ipv6FragmentHeaderA.next_header : genacc.
Lemma gen_frag_fragment_offset : forall s, bytes_ok (snd s) ->
  GIpv6FragmentHeaderSlice.fragment_offset s = Ipv6FragmentHeaderA.fragment_offset s.
Proof. acc_eq GIpv6FragmentHeaderSlice.fragment_offset Ipv6FragmentHeaderA.fragment_offset. Qed.
#[local] Hint Unfold GIpv6FragmentHeaderSlice.fragment_offset Ipv6FragmentHeaderA.fragment_offset : genacc.
Lemma gen_frag_more_fragments : forall s, bytes_ok (snd s) ->
  GIpv6FragmentHeaderSlice.more_fragments s = Ipv6FragmentHeaderA.more_fragments s.
Proof. acc_eq GIpv6FragmentHeaderSlice.more_fragments Ipv6FragmentHeaderA.more_fragments. Qed.
#[local] Hint Unfold GIpv6FragmentHeaderSlice.more_fragments Ipv6FragmentHeaderA.more_fragments : genacc.
Lemma gen_frag_identification : forall s, GIpv6FragmentHeaderSlice.identification s = Ipv6FragmentHeaderA.identification s.
Proof. acc_eq0 GIpv6FragmentHeaderSlice.identification Ipv6FragmentHeaderA.identification. Qed.
#[local] Hint Unfold GIpv6FragmentHeaderSlice.identification Ipv6FragmentHeaderA.identification : genacc.
Lemma gen_frag_is_fragmenting_payload : forall s, bytes_ok (snd s) ->
  GIpv6FragmentHeaderSlice.is_fragmenting_payload s = Ipv6FragmentHeaderA.is_fragmenting_payload s.
Proof. acc_eq GIpv6FragmentHeaderSlice.is_fragmenting_payload Ipv6FragmentHeaderA.is_fragmenting_payload. Qed.
#[local] Hint Unfold GIpv6FragmentHeaderSlice.is_fragmenting_payload Ipv6FragmentHeaderA.is_fragmenting_payload : genacc.

(* ---- IpAuthHeaderSlice ----------------------------------------------------- *)
Lemma gen_auth_next_header : forall s, GIpAuthHeaderSlice.next_header s = IpAuthHeaderA.next_header s.
Proof. acc_eq0 GIpAuthHeaderSlice.next_header IpAuthHeaderA.next_header. Qed.
#[local] Hint Unfold GIpAuthHeaderSlice.next_header IpAuthHeaderA.next_header : genacc.
Lemma gen_auth_spi : forall s, GIpAuthHeaderSlice.spi s = IpAuthHeaderA.spi s.
Proof. acc_eq0 GIpAuthHeaderSlice.spi IpAuthHeaderA.spi. Qed.
#[local] Hint Unfold GIpAuthHeaderSlice.spi IpAuthHeaderA.spi : genacc.
Lemma gen_auth_sequence_number : forall s, GIpAuthHeaderSlice.sequence_number s = IpAuthHeaderA.sequence_number s.
Proof. acc_eq0 GIpAuthHeaderSlice.sequence_number IpAuthHeaderA.sequence_number. Qed.
#[local] Hint Unfold GIpAuthHeaderSlice.sequence_number IpAuthHeaderA.sequence_number : genacc.

(* ---- Ipv6RawExtHeaderSlice ------------------------------------------------- *)
Lemma gen_rawext_next_header : forall s, GIpv6RawExtHeaderSlice.next_header s = Ipv6RawExtHeaderA.next_header s.
Proof. acc_eq0 GIpv6RawExtHeaderSlice.next_header Ipv6RawExtHeaderA.next_header. Qed.
#[local] Hint Unfold GIpv6RawExtHeaderSlice.next_header Ipv6RawExtHeaderA.next_header : genacc.

(* ---- UdpHeaderSlice -------------------------------------------------------- *)
Lemma gen_udphdr_source_port : forall s, GUdpHeaderSlice.source_port s = UdpA.source_port s.
Proof. acc_eq0 GUdpHeaderSlice.source_port UdpA.source_port. Qed.
#[local] Hint Unfold GUdpHeaderSlice.source_port UdpA.source_port : genacc.
Lemma gen_udphdr_destination_port : forall s, GUdpHeaderSlice.destination_port s = UdpA.destination_port s.
Proof. acc_eq0 GUdpHeaderSlice.destination_port UdpA.destination_port. Qed.
#[local] Hint Unfold GUdpHeaderSlice.destination_port UdpA.destination_port : genacc.
Lemma gen_udphdr_length : forall s, GUdpHeaderSlice.length s = UdpA.length s.
Proof. acc_eq0 GUdpHeaderSlice.length UdpA.length. Qed.
#[local] Hint Unfold GUdpHeaderSlice.length UdpA.length : genacc.
Lemma gen_udphdr_checksum : forall s, GUdpHeaderSlice.checksum s = UdpA.checksum s.
Proof. acc_eq0 GUdpHeaderSlice.checksum UdpA.checksum. Qed.
#[local] Hint Unfold GUdpHeaderSlice.checksum UdpA.checksum : genacc.

(* ---- UdpSlice -------------------------------------------------------------- *)
Lemma gen_udp_source_port : forall s, GUdpSlice.source_port s = UdpA.source_port s.
Proof. acc_eq0 GUdpSlice.source_port UdpA.source_port. Qed.
#[local] Hint Unfold GUdpSlice.source_port UdpA.source_port : genacc.
Lemma gen_udp_destination_port : forall s, GUdpSlice.destination_port s = UdpA.destination_port s.
Proof. acc_eq0 GUdpSlice.destination_port UdpA.destination_port. Qed.
#[local] Hint Unfold GUdpSlice.destination_port UdpA.destination_port : genacc.
Lemma gen_udp_length : forall s, GUdpSlice.length s = UdpA.length s.
Proof. acc_eq0 GUdpSlice.length UdpA.length. Qed.
#[local] Hint Unfold GUdpSlice.length UdpA.length : genacc.
Lemma gen_udp_checksum : forall s, GUdpSlice.checksum s = UdpA.checksum s.
Proof. acc_eq0 GUdpSlice.checksum UdpA.checksum. Qed.
#[local] Hint Unfold GUdpSlice.checksum UdpA.checksum : genacc.
Lemma gen_udp_header_len : forall s, GUdpSlice.header_len s = UdpX.header_len s.
Proof. acc_eq0 GUdpSlice.header_len UdpX.header_len. Qed.
#[local] Hint Unfold GUdpSlice.header_len UdpX.header_len : genacc.
Lemma gen_udp_header_len_u16 : forall s, GUdpSlice.header_len_u16 s = UdpX.header_len_u16 s.
Proof. acc_eq0 GUdpSlice.header_len_u16 UdpX.header_len_u16. Qed.
#[local] Hint Unfold GUdpSlice.header_len_u16 UdpX.header_len_u16 : genacc.

(* ---- TcpHeaderSlice -------------------------------------------------------- *)
Lemma gen_tcphdr_source_port : forall s, GTcpHeaderSlice.source_port s = TcpFieldsA.source_port s.
Proof. acc_eq0 GTcpHeaderSlice.source_port TcpFieldsA.source_port. Qed.
#[local] Hint Unfold GTcpHeaderSlice.source_port TcpFieldsA.source_port : genacc.
Lemma gen_tcphdr_destination_port : forall s, GTcpHeaderSlice.destination_port s = TcpFieldsA.destination_port s.
Proof. acc_eq0 GTcpHeaderSlice.destination_port TcpFieldsA.destination_port. Qed.
#[local] Hint Unfold GTcpHeaderSlice.destination_port TcpFieldsA.destination_port : genacc.
Lemma gen_tcphdr_sequence_number : forall s, GTcpHeaderSlice.sequence_number s = TcpFieldsA.sequence_number s.
Proof. acc_eq0 GTcpHeaderSlice.sequence_number TcpFieldsA.sequence_number. Qed.
#[local] Hint Unfold GTcpHeaderSlice.sequence_number TcpFieldsA.sequence_number : genacc.
Lemma gen_tcphdr_acknowledgment_number : forall s, GTcpHeaderSlice.acknowledgment_number s = TcpFieldsA.acknowledgment_number s.
Proof. acc_eq0 GTcpHeaderSlice.acknowledgment_number TcpFieldsA.acknowledgment_number. Qed.
#[local] Hint Unfold GTcpHeaderSlice.acknowledgment_number TcpFieldsA.acknowledgment_number : genacc.
Lemma gen_tcphdr_data_offset : forall s, bytes_ok (snd s) ->
  GTcpHeaderSlice.data_offset s = TcpFieldsA.data_offset s.
Proof. acc_eq GTcpHeaderSlice.data_offset TcpFieldsA.data_offset. Qed.
#[local] Hint Unfold GTcpHeaderSlice.data_offset TcpFieldsA.data_offset : genacc.
Lemma gen_tcphdr_ns : forall s, bytes_ok (snd s) ->
  GTcpHeaderSlice.ns s = TcpFieldsA.ns s.
Proof. acc_eq GTcpHeaderSlice.ns TcpFieldsA.ns. Qed.
#[local] Hint Unfold GTcpHeaderSlice.ns TcpFieldsA.ns : genacc.
Lemma gen_tcphdr_fin : forall s, bytes_ok (snd s) ->
  GTcpHeaderSlice.fin s = TcpFieldsA.fin s.
Proof. acc_eq GTcpHeaderSlice.fin TcpFieldsA.fin. Qed.
#[local] Hint Unfold GTcpHeaderSlice.fin TcpFieldsA.fin : genacc.
Lemma gen_tcphdr_syn : forall s, bytes_ok (snd s) ->
  GTcpHeaderSlice.syn s = TcpFieldsA.syn s.
Proof. acc_eq GTcpHeaderSlice.syn TcpFieldsA.syn. Qed.
#[local] Hint Unfold GTcpHeaderSlice.syn TcpFieldsA.syn : genacc.
Lemma gen_tcphdr_rst : forall s, bytes_ok (snd s) ->
  GTcpHeaderSlice.rst s = TcpFieldsA.rst s.
Proof. acc_eq GTcpHeaderSlice.rst TcpFieldsA.rst. Qed.
#[local] Hint Unfold GTcpHeaderSlice.rst TcpFieldsA.rst : genacc.
Lemma gen_tcphdr_psh : forall s, bytes_ok (snd s) ->
  GTcpHeaderSlice.psh s = TcpFieldsA.psh s.
Proof. acc_eq GTcpHeaderSlice.psh TcpFieldsA.psh. Qed.
#[local] Hint Unfold GTcpHeaderSlice.psh TcpFieldsA.psh : genacc.
Lemma gen_tcphdr_ack : forall s, bytes_ok (snd s) ->
  GTcpHeaderSlice.ack s = TcpFieldsA.ack s.
Proof. acc_eq GTcpHeaderSlice.ack TcpFieldsA.ack. Qed.
#[local] Hint Unfold GTcpHeaderSlice.ack TcpFieldsA.ack : genacc.
Lemma gen_tcphdr_urg : forall s, bytes_ok (snd s) ->
  GTcpHeaderSlice.urg s = TcpFieldsA.urg s.
Proof. acc_eq GTcpHeaderSlice.urg TcpFieldsA.urg. Qed.
#[local] Hint Unfold GTcpHeaderSlice.urg TcpFieldsA.urg : genacc.
Lemma gen_tcphdr_ece : forall s, bytes_ok (snd s) ->
  GTcpHeaderSlice.ece s = TcpFieldsA.ece s.
Proof. acc_eq GTcpHeaderSlice.ece TcpFieldsA.ece. Qed.
#[local] Hint Unfold GTcpHeaderSlice.ece TcpFieldsA.ece : genacc.
Lemma gen_tcphdr_cwr : forall s, bytes_ok (snd s) ->
  GTcpHeaderSlice.cwr s = TcpFieldsA.cwr s.
Proof. acc_eq GTcpHeaderSlice.cwr TcpFieldsA.cwr. Qed.
#[local] Hint Unfold GTcpHeaderSlice.cwr TcpFieldsA.cwr : genacc.
Lemma gen_tcphdr_window_size : forall s, GTcpHeaderSlice.window_size s = TcpFieldsA.window_size s.
Proof. acc_eq0 GTcpHeaderSlice.window_size TcpFieldsA.window_size. Qed.
#[local] Hint Unfold GTcpHeaderSlice.window_size TcpFieldsA.window_size : genacc.
Lemma gen_tcphdr_checksum : forall s, GTcpHeaderSlice.checksum s = TcpFieldsA.checksum s.
Proof. acc_eq0 GTcpHeaderSlice.checksum TcpFieldsA.checksum. Qed.
#[local] Hint Unfold GTcpHeaderSlice.checksum TcpFieldsA.checksum : genacc.
Lemma gen_tcphdr_urgent_pointer : forall s, GTcpHeaderSlice.urgent_pointer s = TcpFieldsA.urgent_pointer s.
Proof. acc_eq0 GTcpHeaderSlice.urgent_pointer TcpFieldsA.urgent_pointer. Qed.
#[local] Hint Unfold GTcpHeaderSlice.urgent_pointer TcpFieldsA.urgent_pointer : genacc.

(* ---- TcpSlice -------------------------------------------------------------- *)
Lemma gen_tcp_source_port : forall s, GTcpSlice.source_port s = TcpFieldsA.source_port s.
Proof. acc_eq0 GTcpSlice.source_port TcpFieldsA.source_port. Qed.
#[local] Hint Unfold GTcpSlice.source_port TcpFieldsA.source_port : genacc.
Lemma gen_tcp_destination_port : forall s, GTcpSlice.destination_port s = TcpFieldsA.destination_port s.
Proof. acc_eq0 GTcpSlice.destination_port TcpFieldsA.destination_port. Qed.
#[local] Hint Unfold GTcpSlice.destination_port TcpFieldsA.destination_port : genacc.
Lemma gen_tcp_sequence_number : forall s, GTcpSlice.sequence_number s = TcpFieldsA.sequence_number s.
Proof. acc_eq0 GTcpSlice.sequence_number TcpFieldsA.sequence_number. Qed.
#[local] Hint Unfold GTcpSlice.sequence_number TcpFieldsA.sequence_number : genacc.
Lemma gen_tcp_acknowledgment_number : forall s, GTcpSlice.acknowledgment_number s = TcpFieldsA.acknowledgment_number s.
Proof. acc_eq0 GTcpSlice.acknowledgment_number TcpFieldsA.acknowledgment_number. Qed.
#[local] Hint Unfold GTcpSlice.acknowledgment_number TcpFieldsA.acknowledgment_number : genacc.
Lemma gen_tcp_data_offset : forall s, bytes_ok (snd s) ->
  GTcpSlice.data_offset s = TcpFieldsA.data_offset s.
Proof. acc_eq GTcpSlice.data_offset TcpFieldsA.data_offset. Qed.
#[local] Hint Unfold GTcpSlice.data_offset TcpFieldsA.data_offset : genacc.
Lemma gen_tcp_ns : forall s, bytes_ok (snd s) ->
  GTcpSlice.ns s = TcpFieldsA.ns s.
Proof. acc_eq GTcpSlice.ns TcpFieldsA.ns. Qed.
#[local] Hint Unfold GTcpSlice.ns TcpFieldsA.ns : genacc.
Lemma gen_tcp_fin : forall s, bytes_ok (snd s) ->
  GTcpSlice.fin s = TcpFieldsA.fin s.
Proof. acc_eq GTcpSlice.fin TcpFieldsA.fin. Qed.
#[local] Hint Unfold GTcpSlice.fin TcpFieldsA.fin : genacc.
Lemma gen_tcp_syn : forall s, bytes_ok (snd s) ->
  GTcpSlice.syn s = TcpFieldsA.syn s.
Proof. acc_eq GTcpSlice.syn TcpFieldsA.syn. Qed.
#[local] Hint Unfold GTcpSlice.syn TcpFieldsA.syn : genacc.
Lemma gen_tcp_rst : forall s, bytes_ok (snd s) ->
  GTcpSlice.rst s = TcpFieldsA.rst s.
Proof. acc_eq GTcpSlice.rst TcpFieldsA.rst. Qed.
#[local] Hint Unfold GTcpSlice.rst TcpFieldsA.rst : genacc.
Lemma gen_tcp_psh : forall s, bytes_ok (snd s) ->
  GTcpSlice.psh s = TcpFieldsA.psh s.
Proof. acc_eq GTcpSlice.psh TcpFieldsA.psh. Qed.
#[local] Hint Unfold GTcpSlice.psh TcpFieldsA.psh : genacc.
Lemma gen_tcp_ack : forall s, bytes_ok (snd s) ->
  GTcpSlice.ack s = TcpFieldsA.ack s.
Proof. acc_eq GTcpSlice.ack TcpFieldsA.ack. Qed.
#[local] Hint Unfold GTcpSlice.ack TcpFieldsA.ack : genacc.
Lemma gen_tcp_urg : forall s, bytes_ok (snd s) ->
  GTcpSlice.urg s = TcpFieldsA.urg s.
Proof. acc_eq GTcpSlice.urg TcpFieldsA.urg. Qed.
#[local] Hint Unfold GTcpSlice.urg TcpFieldsA.urg : genacc.
Lemma gen_tcp_ece : forall s, bytes_ok (snd s) ->
  GTcpSlice.ece s = TcpFieldsA.ece s.
Proof. acc_eq GTcpSlice.ece TcpFieldsA.ece. Qed.
#[local] Hint Unfold GTcpSlice.ece TcpFieldsA.ece : genacc.
Lemma gen_tcp_cwr : forall s, bytes_ok (snd s) ->
  GTcpSlice.cwr s = TcpFieldsA.cwr s.
Proof. acc_eq GTcpSlice.cwr TcpFieldsA.cwr. Qed.
#[local] Hint Unfold GTcpSlice.cwr TcpFieldsA.cwr : genacc.
Lemma gen_tcp_window_size : forall s, GTcpSlice.window_size s = TcpFieldsA.window_size s.
Proof. acc_eq0 GTcpSlice.window_size TcpFieldsA.window_size. Qed.
#[local] Hint Unfold GTcpSlice.window_size TcpFieldsA.window_size : genacc.
Lemma gen_tcp_checksum : forall s, GTcpSlice.checksum s = TcpFieldsA.checksum s.
Proof. acc_eq0 GTcpSlice.checksum TcpFieldsA.checksum. Qed.
#[local] Hint Unfold GTcpSlice.checksum TcpFieldsA.checksum : genacc.
Lemma gen_tcp_urgent_pointer : forall s, GTcpSlice.urgent_pointer s = TcpFieldsA.urgent_pointer s.
Proof. acc_eq0 GTcpSlice.urgent_pointer TcpFieldsA.urgent_pointer. Qed.
#[local] Hint Unfold GTcpSlice.urgent_pointer TcpFieldsA.urgent_pointer : genacc.

(* ---- Icmpv4Slice ----------------------------------------------------------- *)
Lemma gen_icmpv4_type_u8 : forall s, GIcmpv4Slice.type_u8 s = Icmpv4A.type_u8 s.
Proof. acc_eq0 GIcmpv4Slice.type_u8 Icmpv4A.type_u8. Qed.
#[local] Hint Unfold GIcmpv4Slice.type_u8 Icmpv4A.type_u8 : genacc.
Lemma gen_icmpv4_code_u8 : forall s, GIcmpv4Slice.code_u8 s = Icmpv4A.code_u8 s.
Proof. acc_eq0 GIcmpv4Slice.code_u8 Icmpv4A.code_u8. Qed.
#[local] Hint Unfold GIcmpv4Slice.code_u8 Icmpv4A.code_u8 : genacc.
Lemma gen_icmpv4_checksum : forall s, GIcmpv4Slice.checksum s = Icmpv4A.checksum s.
Proof. acc_eq0 GIcmpv4Slice.checksum Icmpv4A.checksum. Qed.
#[local] Hint Unfold GIcmpv4Slice.checksum Icmpv4A.checksum : genacc.
Lemma gen_icmpv4_bytes5to8 : forall s, GIcmpv4Slice.bytes5to8 s = Icmpv4A.bytes5to8 s.
Proof. acc_eq0 GIcmpv4Slice.bytes5to8 Icmpv4A.bytes5to8. Qed.
#[local] Hint Unfold GIcmpv4Slice.bytes5to8 Icmpv4A.bytes5to8 : genacc.

(* ---- Icmpv6Slice ----------------------------------------------------------- *)
Lemma gen_icmpv6_type_u8 : forall s, GIcmpv6Slice.type_u8 s = Icmpv6A.type_u8 s.
Proof. acc_eq0 GIcmpv6Slice.type_u8 Icmpv6A.type_u8. Qed.
#[local] Hint Unfold GIcmpv6Slice.type_u8 Icmpv6A.type_u8 : genacc.
Lemma gen_icmpv6_code_u8 : forall s, GIcmpv6Slice.code_u8 s = Icmpv6A.code_u8 s.
Proof. acc_eq0 GIcmpv6Slice.code_u8 Icmpv6A.code_u8. Qed.
#[local] Hint Unfold GIcmpv6Slice.code_u8 Icmpv6A.code_u8 : genacc.
Lemma gen_icmpv6_checksum : forall s, GIcmpv6Slice.checksum s = Icmpv6A.checksum s.
Proof. acc_eq0 GIcmpv6Slice.checksum Icmpv6A.checksum. Qed.
#[local] Hint Unfold GIcmpv6Slice.checksum Icmpv6A.checksum : genacc.
Lemma gen_icmpv6_bytes5to8 : forall s, GIcmpv6Slice.bytes5to8 s = Icmpv6A.bytes5to8 s.
Proof. acc_eq0 GIcmpv6Slice.bytes5to8 Icmpv6A.bytes5to8. Qed.
#[local] Hint Unfold GIcmpv6Slice.bytes5to8 Icmpv6A.bytes5to8 : genacc.
Lemma gen_icmpv6_header_len : forall s, GIcmpv6Slice.header_len s = Icmpv6X.header_len s.
Proof. acc_eq0 GIcmpv6Slice.header_len Icmpv6X.header_len. Qed.
#[local] Hint Unfold GIcmpv6Slice.header_len Icmpv6X.header_len : genacc.

(* importing this file forces every equation above to be checked *)
Lemma gen_access_ok : True.
Proof.
  pose proof gen_eth2_destination. pose proof gen_eth2_source. pose proof gen_eth2_ether_type.
  pose proof gen_eth2_header_len. pose proof gen_eth2hdr_destination.
  pose proof gen_eth2hdr_source. pose proof gen_eth2hdr_ether_type.
  pose proof gen_vlan_priority_code_point. pose proof gen_vlan_drop_eligible_indicator.
  pose proof gen_vlan_vlan_identifier. pose proof gen_vlan_ether_type.
  pose proof gen_vlan_header_len. pose proof gen_vlanhdr_priority_code_point.
  pose proof gen_vlanhdr_drop_eligible_indicator. pose proof gen_vlanhdr_vlan_identifier.
  pose proof gen_vlanhdr_ether_type. pose proof gen_sll_arp_hardware_type.
  pose proof gen_sll_sender_address_valid_length. pose proof gen_sll_sender_address_full.
  pose proof gen_macsec_tci_an_raw. pose proof gen_macsec_endstation_id.
  pose proof gen_macsec_tci_scb. pose proof gen_macsec_encrypted.
  pose proof gen_macsec_userdata_changed. pose proof gen_macsec_is_unmodified.
  pose proof gen_macsec_an. pose proof gen_macsec_short_len. pose proof gen_macsec_packet_nr.
  pose proof gen_macsec_sci_present. pose proof gen_arp_hw_addr_type.
  pose proof gen_arp_proto_addr_type. pose proof gen_arp_hw_addr_size.
  pose proof gen_arp_proto_addr_size. pose proof gen_arp_operation. pose proof gen_ipv4_version.
  pose proof gen_ipv4_ihl. pose proof gen_ipv4_dcp. pose proof gen_ipv4_ecn.
  pose proof gen_ipv4_total_len. pose proof gen_ipv4_identification.
  pose proof gen_ipv4_dont_fragment. pose proof gen_ipv4_more_fragments.
  pose proof gen_ipv4_fragments_offset. pose proof gen_ipv4_ttl. pose proof gen_ipv4_protocol.
  pose proof gen_ipv4_header_checksum. pose proof gen_ipv4_source.
  pose proof gen_ipv4_destination. pose proof gen_ipv4_is_fragmenting_payload.
  pose proof gen_ipv4_source_addr. pose proof gen_ipv4_destination_addr.
  pose proof gen_ipv6_version. pose proof gen_ipv6_traffic_class. pose proof gen_ipv6_ecn.
  pose proof gen_ipv6_dscp. pose proof gen_ipv6_flow_label. pose proof gen_ipv6_payload_length.
  pose proof gen_ipv6_next_header. pose proof gen_ipv6_hop_limit. pose proof gen_ipv6_source.
  pose proof gen_ipv6_destination. pose proof gen_ipv6_source_addr.
  pose proof gen_ipv6_destination_addr. pose proof gen_ipv6_header_len.
  pose proof gen_frag_next_header. pose proof gen_frag_fragment_offset.
  pose proof gen_frag_more_fragments. pose proof gen_frag_identification.
  pose proof gen_frag_is_fragmenting_payload. pose proof gen_auth_next_header.
  pose proof gen_auth_spi. pose proof gen_auth_sequence_number.
  pose proof gen_rawext_next_header. pose proof gen_udphdr_source_port.
  pose proof gen_udphdr_destination_port. pose proof gen_udphdr_length.
  pose proof gen_udphdr_checksum. pose proof gen_udp_source_port.
  pose proof gen_udp_destination_port. pose proof gen_udp_length. pose proof gen_udp_checksum.
  pose proof gen_udp_header_len. pose proof gen_udp_header_len_u16.
  pose proof gen_tcphdr_source_port. pose proof gen_tcphdr_destination_port.
  pose proof gen_tcphdr_sequence_number. pose proof gen_tcphdr_acknowledgment_number.
  pose proof gen_tcphdr_data_offset. pose proof gen_tcphdr_ns. pose proof gen_tcphdr_fin.
  pose proof gen_tcphdr_syn. pose proof gen_tcphdr_rst. pose proof gen_tcphdr_psh.
  pose proof gen_tcphdr_ack. pose proof gen_tcphdr_urg. pose proof gen_tcphdr_ece.
  pose proof gen_tcphdr_cwr. pose proof gen_tcphdr_window_size. pose proof gen_tcphdr_checksum.
  pose proof gen_tcphdr_urgent_pointer. pose proof gen_tcp_source_port.
  pose proof gen_tcp_destination_port. pose proof gen_tcp_sequence_number.
  pose proof gen_tcp_acknowledgment_number. pose proof gen_tcp_data_offset.
  pose proof gen_tcp_ns. pose proof gen_tcp_fin. pose proof gen_tcp_syn. pose proof gen_tcp_rst.
  pose proof gen_tcp_psh. pose proof gen_tcp_ack. pose proof gen_tcp_urg.
  pose proof gen_tcp_ece. pose proof gen_tcp_cwr. pose proof gen_tcp_window_size.
  pose proof gen_tcp_checksum. pose proof gen_tcp_urgent_pointer. pose proof gen_icmpv4_type_u8.
  pose proof gen_icmpv4_code_u8. pose proof gen_icmpv4_checksum.
  pose proof gen_icmpv4_bytes5to8. pose proof gen_icmpv6_type_u8. pose proof gen_icmpv6_code_u8.
  pose proof gen_icmpv6_checksum. pose proof gen_icmpv6_bytes5to8.
  pose proof gen_icmpv6_header_len.
  exact I.
Qed.

(* ---- the decoders of property C15 (BitFields/Model.v) --------------------------
   BitFields/Model.v is a second, independent transliteration of the same accessors
   (over plain byte lists, with `new_unchecked` modelled as a range check that fails
   with UBRange).  For every field C15 decodes, the regenerated accessor equals that
   decoder on slices of bytes; in particular the UBRange outcome is unreachable.
   Not related here (shapes differ too much): V4S_source / V4S_destination /
   V6S_source / V6S_destination (`getu_n` = one bounds test + take/drop, against
   `rd_arr` = n successive reads), V4S_options, MS_ptype, MS_sci, the to_header
   functions (outside the translator's grammar). *)
Definition c15 {A} (r : res A) : BM.res A :=
  match r with
  | Ok a => BM.Val a
  | Err _ => BM.Fail BM.ErrLen
  | Bug _ => BM.Fail BM.OOB
  end.

Ltac c15_reads Hs :=
  repeat match goal with
  | |- context [rd ?bs ?i] =>
      let b := fresh "b" in let E := fresh "E" in
      destruct (rd bs i) as [b|] eqn:E; cbv beta iota;
      [ apply (rd_byte _ _ _ Hs) in E | reflexivity ]
  end.

(* the range checks of the new_unchecked models succeed on decoded bytes *)
Ltac c15_ranges :=
  repeat match goal with
  | |- context [if ?c then _ else _] =>
      let H := fresh "H" in
      assert (H : c = true) by sweep_true; rewrite H; clear H
  end.

Ltac c15_unfold :=
  repeat autounfold with genacc;
  cbv beta iota delta [rd16 rd32 bind];
  norm_idx;
  cbv beta iota delta
    [c15 rdU bitset BM.bind BM.getu BM.nonzero BM.shl8 BM.V6S_traffic_class
     BM.VlanPcp_new_unchecked BM.VlanId_new_unchecked BM.IpDscp_new_unchecked
     BM.IpEcn_new_unchecked BM.IpFragOffset_new_unchecked BM.Ipv6FlowLabel_new_unchecked
     BM.MacsecAn_new_unchecked BM.MacsecShortLen_from_u8_unchecked].

Ltac c15_solve Hs :=
  c15_unfold; c15_reads Hs; try reflexivity; c15_ranges; try reflexivity;
  lazymatch goal with
  | |- BM.Val _ = BM.Val _ => f_equal; sweep_eq
  end.

Tactic Notation "c15_eq" constr(g) constr(h) :=
  let s := fresh "s" in let Hs := fresh "Hs" in
  intros s Hs; unfold g, h; c15_solve Hs.

Lemma gen_c15_vlan_priority_code_point : forall s, bytes_ok (snd s) ->
  c15 (GSingleVlanSlice.priority_code_point s) = BM.VS_priority_code_point (snd s).
Proof. c15_eq GSingleVlanSlice.priority_code_point BM.VS_priority_code_point. Qed.
Lemma gen_c15_vlan_drop_eligible_indicator : forall s, bytes_ok (snd s) ->
  c15 (GSingleVlanSlice.drop_eligible_indicator s) = BM.VS_drop_eligible_indicator (snd s).
Proof. c15_eq GSingleVlanSlice.drop_eligible_indicator BM.VS_drop_eligible_indicator. Qed.
Lemma gen_c15_vlan_vlan_identifier : forall s, bytes_ok (snd s) ->
  c15 (GSingleVlanSlice.vlan_identifier s) = BM.VS_vlan_identifier (snd s).
Proof. c15_eq GSingleVlanSlice.vlan_identifier BM.VS_vlan_identifier. Qed.
Lemma gen_c15_vlan_ether_type : forall s, bytes_ok (snd s) ->
  c15 (GSingleVlanSlice.ether_type s) = BM.VS_ether_type (snd s).
Proof. c15_eq GSingleVlanSlice.ether_type BM.VS_ether_type. Qed.
Lemma gen_c15_vlanhdr_priority_code_point : forall s, bytes_ok (snd s) ->
  c15 (GSingleVlanHeaderSlice.priority_code_point s) = BM.VHS_priority_code_point (snd s).
Proof. c15_eq GSingleVlanHeaderSlice.priority_code_point BM.VHS_priority_code_point. Qed.
Lemma gen_c15_vlanhdr_drop_eligible_indicator : forall s, bytes_ok (snd s) ->
  c15 (GSingleVlanHeaderSlice.drop_eligible_indicator s) = BM.VHS_drop_eligible_indicator (snd s).
Proof. c15_eq GSingleVlanHeaderSlice.drop_eligible_indicator BM.VHS_drop_eligible_indicator. Qed.
Lemma gen_c15_vlanhdr_vlan_identifier : forall s, bytes_ok (snd s) ->
  c15 (GSingleVlanHeaderSlice.vlan_identifier s) = BM.VHS_vlan_identifier (snd s).
Proof. c15_eq GSingleVlanHeaderSlice.vlan_identifier BM.VHS_vlan_identifier. Qed.
Lemma gen_c15_vlanhdr_ether_type : forall s, bytes_ok (snd s) ->
  c15 (GSingleVlanHeaderSlice.ether_type s) = BM.VHS_ether_type (snd s).
Proof. c15_eq GSingleVlanHeaderSlice.ether_type BM.VHS_ether_type. Qed.
Lemma gen_c15_ipv4_dcp : forall s, bytes_ok (snd s) ->
  c15 (GIpv4HeaderSlice.dcp s) = BM.V4S_dcp (snd s).
Proof. c15_eq GIpv4HeaderSlice.dcp BM.V4S_dcp. Qed.
Lemma gen_c15_ipv4_ecn : forall s, bytes_ok (snd s) ->
  c15 (GIpv4HeaderSlice.ecn s) = BM.V4S_ecn (snd s).
Proof. c15_eq GIpv4HeaderSlice.ecn BM.V4S_ecn. Qed.
Lemma gen_c15_ipv4_total_len : forall s, bytes_ok (snd s) ->
  c15 (GIpv4HeaderSlice.total_len s) = BM.V4S_total_len (snd s).
Proof. c15_eq GIpv4HeaderSlice.total_len BM.V4S_total_len. Qed.
Lemma gen_c15_ipv4_identification : forall s, bytes_ok (snd s) ->
  c15 (GIpv4HeaderSlice.identification s) = BM.V4S_identification (snd s).
Proof. c15_eq GIpv4HeaderSlice.identification BM.V4S_identification. Qed.
Lemma gen_c15_ipv4_dont_fragment : forall s, bytes_ok (snd s) ->
  c15 (GIpv4HeaderSlice.dont_fragment s) = BM.V4S_dont_fragment (snd s).
Proof. c15_eq GIpv4HeaderSlice.dont_fragment BM.V4S_dont_fragment. Qed.
Lemma gen_c15_ipv4_more_fragments : forall s, bytes_ok (snd s) ->
  c15 (GIpv4HeaderSlice.more_fragments s) = BM.V4S_more_fragments (snd s).
Proof. c15_eq GIpv4HeaderSlice.more_fragments BM.V4S_more_fragments. Qed.
Lemma gen_c15_ipv4_fragments_offset : forall s, bytes_ok (snd s) ->
  c15 (GIpv4HeaderSlice.fragments_offset s) = BM.V4S_fragments_offset (snd s).
Proof. c15_eq GIpv4HeaderSlice.fragments_offset BM.V4S_fragments_offset. Qed.
Lemma gen_c15_ipv4_ttl : forall s, bytes_ok (snd s) ->
  c15 (GIpv4HeaderSlice.ttl s) = BM.V4S_ttl (snd s).
Proof. c15_eq GIpv4HeaderSlice.ttl BM.V4S_ttl. Qed.
Lemma gen_c15_ipv4_protocol : forall s, bytes_ok (snd s) ->
  c15 (GIpv4HeaderSlice.protocol s) = BM.V4S_protocol (snd s).
Proof. c15_eq GIpv4HeaderSlice.protocol BM.V4S_protocol. Qed.
Lemma gen_c15_ipv4_header_checksum : forall s, bytes_ok (snd s) ->
  c15 (GIpv4HeaderSlice.header_checksum s) = BM.V4S_header_checksum (snd s).
Proof. c15_eq GIpv4HeaderSlice.header_checksum BM.V4S_header_checksum. Qed.
Lemma gen_c15_ipv6_traffic_class : forall s, bytes_ok (snd s) ->
  c15 (GIpv6HeaderSlice.traffic_class s) = BM.V6S_traffic_class (snd s).
Proof. c15_eq GIpv6HeaderSlice.traffic_class BM.V6S_traffic_class. Qed.
Lemma gen_c15_ipv6_ecn : forall s, bytes_ok (snd s) ->
  c15 (GIpv6HeaderSlice.ecn s) = BM.V6S_ecn (snd s).
Proof. c15_eq GIpv6HeaderSlice.ecn BM.V6S_ecn. Qed.
Lemma gen_c15_ipv6_dscp : forall s, bytes_ok (snd s) ->
  c15 (GIpv6HeaderSlice.dscp s) = BM.V6S_dscp (snd s).
Proof. c15_eq GIpv6HeaderSlice.dscp BM.V6S_dscp. Qed.
Lemma gen_c15_ipv6_payload_length : forall s, bytes_ok (snd s) ->
  c15 (GIpv6HeaderSlice.payload_length s) = BM.V6S_payload_length (snd s).
Proof. c15_eq GIpv6HeaderSlice.payload_length BM.V6S_payload_length. Qed.
Lemma gen_c15_ipv6_next_header : forall s, bytes_ok (snd s) ->
  c15 (GIpv6HeaderSlice.next_header s) = BM.V6S_next_header (snd s).
Proof. c15_eq GIpv6HeaderSlice.next_header BM.V6S_next_header. Qed.
Lemma gen_c15_ipv6_hop_limit : forall s, bytes_ok (snd s) ->
  c15 (GIpv6HeaderSlice.hop_limit s) = BM.V6S_hop_limit (snd s).
Proof. c15_eq GIpv6HeaderSlice.hop_limit BM.V6S_hop_limit. Qed.
Lemma gen_c15_frag_next_header : forall s, bytes_ok (snd s) ->
  c15 (GIpv6FragmentHeaderSlice.next_header s) = BM.FRS_next_header (snd s).
Proof. c15_eq GIpv6FragmentHeaderSlice.next_header BM.FRS_next_header. Qed.
Lemma gen_c15_frag_fragment_offset : forall s, bytes_ok (snd s) ->
  c15 (GIpv6FragmentHeaderSlice.fragment_offset s) = BM.FRS_fragment_offset (snd s).
Proof. c15_eq GIpv6FragmentHeaderSlice.fragment_offset BM.FRS_fragment_offset. Qed.
Lemma gen_c15_frag_more_fragments : forall s, bytes_ok (snd s) ->
  c15 (GIpv6FragmentHeaderSlice.more_fragments s) = BM.FRS_more_fragments (snd s).
Proof. c15_eq GIpv6FragmentHeaderSlice.more_fragments BM.FRS_more_fragments. Qed.
Lemma gen_c15_frag_identification : forall s, bytes_ok (snd s) ->
  c15 (GIpv6FragmentHeaderSlice.identification s) = BM.FRS_identification (snd s).
Proof. c15_eq GIpv6FragmentHeaderSlice.identification BM.FRS_identification. Qed.
Lemma gen_c15_macsec_endstation_id : forall s, bytes_ok (snd s) ->
  c15 (GMacsecHeaderSlice.endstation_id s) = BM.MS_endstation_id (snd s).
Proof. c15_eq GMacsecHeaderSlice.endstation_id BM.MS_endstation_id. Qed.
Lemma gen_c15_macsec_tci_scb : forall s, bytes_ok (snd s) ->
  c15 (GMacsecHeaderSlice.tci_scb s) = BM.MS_tci_scb (snd s).
Proof. c15_eq GMacsecHeaderSlice.tci_scb BM.MS_tci_scb. Qed.
Lemma gen_c15_macsec_encrypted : forall s, bytes_ok (snd s) ->
  c15 (GMacsecHeaderSlice.encrypted s) = BM.MS_encrypted (snd s).
Proof. c15_eq GMacsecHeaderSlice.encrypted BM.MS_encrypted. Qed.
Lemma gen_c15_macsec_userdata_changed : forall s, bytes_ok (snd s) ->
  c15 (GMacsecHeaderSlice.userdata_changed s) = BM.MS_userdata_changed (snd s).
Proof. c15_eq GMacsecHeaderSlice.userdata_changed BM.MS_userdata_changed. Qed.
Lemma gen_c15_macsec_sci_present : forall s, bytes_ok (snd s) ->
  c15 (GMacsecHeaderSlice.sci_present s) = BM.MS_sci_present (snd s).
Proof. c15_eq GMacsecHeaderSlice.sci_present BM.MS_sci_present. Qed.
Lemma gen_c15_macsec_an : forall s, bytes_ok (snd s) ->
  c15 (GMacsecHeaderSlice.an s) = BM.MS_an (snd s).
Proof. c15_eq GMacsecHeaderSlice.an BM.MS_an. Qed.
Lemma gen_c15_macsec_short_len : forall s, bytes_ok (snd s) ->
  c15 (GMacsecHeaderSlice.short_len s) = BM.MS_short_len (snd s).
Proof. c15_eq GMacsecHeaderSlice.short_len BM.MS_short_len. Qed.
Lemma gen_c15_macsec_packet_nr : forall s, bytes_ok (snd s) ->
  c15 (GMacsecHeaderSlice.packet_nr s) = BM.MS_packet_nr (snd s).
Proof. c15_eq GMacsecHeaderSlice.packet_nr BM.MS_packet_nr. Qed.

(* three bytes: the range check is discharged by arithmetic instead of a sweep *)
Lemma gen_c15_ipv6_flow_label : forall s, bytes_ok (snd s) ->
  c15 (GIpv6HeaderSlice.flow_label s) = BM.V6S_flow_label (snd s).
Proof.
  intros s Hs. unfold GIpv6HeaderSlice.flow_label, BM.V6S_flow_label.
  c15_unfold; c15_reads Hs; try reflexivity.
  match goal with
  | |- context [if ?c then _ else _] =>
      let H := fresh "H" in assert (H : c = true); [|rewrite H; reflexivity]
  end.
  match goal with
  | Hb : ?b < 256 |- context [N.land ?b 15] =>
      assert (Hm : N.land b 15 <= 15)
        by (apply N.leb_le; clear - Hb; sweep_true)
  end.
  apply N.leb_le. unfold BM.Ipv6FlowLabel_MAX_U32, be32. lia.
Qed.

Lemma gen_access_c15_ok : True.
Proof.
  pose proof gen_c15_vlan_priority_code_point. pose proof gen_c15_vlan_drop_eligible_indicator.
  pose proof gen_c15_vlan_vlan_identifier. pose proof gen_c15_vlan_ether_type.
  pose proof gen_c15_vlanhdr_priority_code_point.
  pose proof gen_c15_vlanhdr_drop_eligible_indicator.
  pose proof gen_c15_vlanhdr_vlan_identifier. pose proof gen_c15_vlanhdr_ether_type.
  pose proof gen_c15_ipv4_dcp. pose proof gen_c15_ipv4_ecn. pose proof gen_c15_ipv4_total_len.
  pose proof gen_c15_ipv4_identification. pose proof gen_c15_ipv4_dont_fragment.
  pose proof gen_c15_ipv4_more_fragments. pose proof gen_c15_ipv4_fragments_offset.
  pose proof gen_c15_ipv4_ttl. pose proof gen_c15_ipv4_protocol.
  pose proof gen_c15_ipv4_header_checksum. pose proof gen_c15_ipv6_traffic_class.
  pose proof gen_c15_ipv6_ecn. pose proof gen_c15_ipv6_dscp.
  pose proof gen_c15_ipv6_payload_length. pose proof gen_c15_ipv6_next_header.
  pose proof gen_c15_ipv6_hop_limit. pose proof gen_c15_frag_next_header.
  pose proof gen_c15_frag_fragment_offset. pose proof gen_c15_frag_more_fragments.
  pose proof gen_c15_frag_identification. pose proof gen_c15_macsec_endstation_id.
  pose proof gen_c15_macsec_tci_scb. pose proof gen_c15_macsec_encrypted.
  pose proof gen_c15_macsec_userdata_changed. pose proof gen_c15_macsec_sci_present.
  pose proof gen_c15_macsec_an. pose proof gen_c15_macsec_short_len.
  pose proof gen_c15_macsec_packet_nr. pose proof gen_c15_ipv6_flow_label.
  exact I.
Qed.
