(* Parse/HdrCut.v -- "the slicing result cut at the first IPv6 extension header
   that no longer fits the fixed struct", made precise.

   `refilled f k`: with the struct slots `f` already filled by the extension
   headers in front, a header of kind `k` has no free slot.  This is the
   documented rule of Ipv6Extensions::from_slice:
     - a destination options header when (no routing header yet and the first
       destination options slot is filled) or (a routing header was seen and the
       final destination options slot is filled),
     - a second routing, fragment or authentication header.
   (A hop-by-hop header behind the first position is an error in both families.)

   `Cut.*` is the strict slicing algorithm of Parse/Slices.v + Parse/Cursor.v
   with ONE change: when `cut = true`, the extension walk ends in front of the
   first header with `refilled`, which becomes the payload's protocol number.
   With `cut = false` every function below is equal to the original (proved in
   HdrProofs.v, lemmas cut_false_NAME), so `Cut.from_* true bs` is literally "what
   SlicedPacket::from_* computes, cut at that extension header". *)
From EP Require Import Base.Bytes Parse.Types Parse.Slices Parse.Cursor.

Local Open Scope N_scope.

Record fill := mkFill { f_dest : bool; f_route : bool; f_fdest : bool; f_frag : bool; f_auth : bool }.
Definition fill_none : fill := mkFill false false false false false.

Definition refilled (f : fill) (k : N) : bool :=
  if k =? IPN_DEST_OPTIONS then (if f_route f then f_fdest f else f_dest f)
  else if k =? IPN_ROUTE then f_route f
  else if k =? IPN_FRAG then f_frag f
  else if k =? IPN_AUTH then f_auth f
  else false.

(* the slot taken by a header of kind k *)
Definition fill_add (f : fill) (k : N) : fill :=
  if k =? IPN_DEST_OPTIONS then
    (if f_route f then mkFill (f_dest f) (f_route f) true (f_frag f) (f_auth f)
     else mkFill true (f_route f) (f_fdest f) (f_frag f) (f_auth f))
  else if k =? IPN_ROUTE then mkFill (f_dest f) true false (f_frag f) (f_auth f)
  else if k =? IPN_FRAG then mkFill (f_dest f) (f_route f) (f_fdest f) true (f_auth f)
  else if k =? IPN_AUTH then mkFill (f_dest f) (f_route f) (f_fdest f) (f_frag f) true
  else f.

Module Cut.
  Import SlicedPacketCursor.

  (* Ipv6ExtensionsSlice.walk + the cut *)
  Fixpoint walk (cut : bool) (fuel : nat) (start_len : N) (rest : slice) (next_header : N)
    (fragmented : bool) (f : fill) : res (slice * N * bool) :=
    match fuel with
    | O => Bug SITE_FUEL
    | S fu =>
        if cut && refilled f next_header then Ok (rest, next_header, fragmented)
        else
        if next_header =? IPN_HOP_BY_HOP then Err (EContent CeHopByHopNotAtStart)
        else if (next_header =? IPN_DEST_OPTIONS) || (next_header =? IPN_ROUTE) then
          let* off := subN start_len (s_len rest) in
          let* sl := map_len_err (fun e => le_add_offset e off) (Ipv6RawExtHeaderSlice.from_slice rest) in
          let* n := subN (s_len rest) (s_len sl) in
          let* rest' := subU rest (s_len sl) n in
          let* nh := Ipv6RawExtHeaderSlice.next_header sl in
          walk cut fu start_len rest' nh fragmented (fill_add f next_header)
        else if next_header =? IPN_FRAG then
          let* off := subN start_len (s_len rest) in
          let* sl := map_len_err (fun e => le_add_offset e off) (Ipv6FragmentHeaderSlice.from_slice rest) in
          let* n := subN (s_len rest) (s_len sl) in
          let* rest' := subU rest (s_len sl) n in
          let* nh := Ipv6FragmentHeaderSlice.next_header sl in
          let* fr := Ipv6FragmentHeaderSlice.is_fragmenting_payload sl in
          walk cut fu start_len rest' nh (fragmented || fr) (fill_add f next_header)
        else if next_header =? IPN_AUTH then
          let* off := subN start_len (s_len rest) in
          let* sl :=
            match IpAuthHeaderSlice.from_slice rest with
            | Err (ELen e) => Err (ELen (le_add_offset e off))
            | Err (EContent _) => Err (EContent CeIpv6AuthZeroPayloadLen)
            | r => r
            end in
          let* n := subN (s_len rest) (s_len sl) in
          let* rest' := subU rest (s_len sl) n in
          let* nh := IpAuthHeaderSlice.next_header sl in
          walk cut fu start_len rest' nh fragmented (fill_add f next_header)
        else Ok (rest, next_header, fragmented)
    end.

  (* Ipv6ExtensionsSlice.from_slice *)
  Definition exts_from_slice (cut : bool) (start_ip_number : N) (start_slice : slice)
    : res (ipv6_exts_slice * N * slice) :=
    let* st :=
      (if IPN_HOP_BY_HOP =? start_ip_number then
         let* sl := Ipv6RawExtHeaderSlice.from_slice start_slice in
         let* rest := (if s_len sl <=? s_len start_slice
                       then Ok (fst start_slice + s_len sl, drop (s_len sl) (snd start_slice))
                       else Bug SITE_INDEX) in
         let* nh := Ipv6RawExtHeaderSlice.next_header sl in
         Ok (rest, nh)
       else Ok (start_slice, start_ip_number)) in
    let '(rest0, nh0) := st in
    let* w := walk cut (S (length (snd start_slice))) (s_len start_slice) rest0 nh0 false fill_none in
    let '(rest, next_header, fragmented) := w in
    let* used := subN (s_len start_slice) (s_len rest) in
    let* sl := (if used <=? s_len start_slice
                then Ok (fst start_slice, take used (snd start_slice)) else Bug SITE_INDEX) in
    Ok (mkIpv6Exts
          (if negb (s_len rest =? s_len start_slice) then Some start_ip_number else None)
          fragmented sl,
        next_header, rest).

  (* Ipv6Slice.finish *)
  Definition v6_finish (cut : bool) (s header : slice) : res ipv6_slice :=
    let* pl := Ipv6HeaderSlice.payload_length header in
    let* hp :=
      (if (0 =? pl) && (40 <? s_len s) then
         let* n := subN (s_len s) 40 in
         let* p := subU s 40 n in
         Ok (p, LsSlice)
       else
         let expected_len := 40 + pl in
         if s_len s <? expected_len then lerr expected_len (s_len s) LsSlice LyIpv6Packet
         else
           let* p := subU s 40 pl in
           Ok (p, LsIpv6HeaderPayloadLen)) in
    let '(header_payload, src) := hp in
    let* nh := Ipv6HeaderSlice.next_header header in
    let* x :=
      match exts_from_slice cut nh header_payload with
      | Err (ELen e) => Err (ELen (le_add_offset (le_set_src e src) 40))
      | r => r
      end in
    let '(exts, payload_ip_number, payload) := x in
    Ok (mkIpv6Slice header exts
          (mkIpPayload payload_ip_number (x6_fragmented exts) src payload)).

  Definition v6_from_slice (cut : bool) (s : slice) : res ipv6_slice :=
    let* header := Ipv6HeaderSlice.from_slice s in
    v6_finish cut s header.

  (* IpSlice.from_slice *)
  Definition ip_from_slice (cut : bool) (s : slice) : res ip_slice :=
    if s_len s =? 0 then lerr 1 (s_len s) LsSlice LyIpHeader
    else
      let* first_byte := rdU s 0 in
      let ver := N.shiftr first_byte 4 in
      if ver =? 4 then
        let ihl := N.land first_byte 15 in
        if ihl <? 5 then Err (EContent (CeIpIhl ihl))
        else
          let header_len := ihl * 4 in
          if s_len s <? header_len then lerr header_len (s_len s) LsSlice LyIpv4Header
          else
            let* header := subU s 0 header_len in
            let* total_len := Ipv4HeaderSlice.total_len header in
            if total_len <? header_len then
              lerr header_len total_len LsIpv4HeaderTotalLen LyIpv4Packet
            else if s_len s <? total_len then
              lerr total_len (s_len s) LsSlice LyIpv4Packet
            else
              let* n := subN total_len header_len in
              let* header_payload := subU s header_len n in
              let* v := Ipv4Slice.finish header header_payload in
              Ok (IpV4 v)
      else if ver =? 6 then
        if s_len s <? 40 then lerr 40 (s_len s) LsSlice LyIpv6Header
        else
          let* header := subU s 0 40 in
          let* v := v6_finish cut s header in
          Ok (IpV6 v)
      else Err (EContent (CeIpUnsupportedVersion ver)).

  Definition slice_ip (cut : bool) (c : cursor) (s : slice) : res sliced_packet :=
    let* ip := map_len_err (fun e => le_add_offset e (c_offset c)) (ip_from_slice cut s) in
    let payload := IpSlice.payload ip in
    let* d := ptr_diff (ipp_slice payload) s in
    let c' := set_net c (c_offset c + d) (ipp_src payload)
                (match ip with IpV4 v => NtIpv4 v | IpV6 v => NtIpv6 v end) in
    transport_dispatch c' payload.

  Definition slice_ipv6 (cut : bool) (c : cursor) (s : slice) : res sliced_packet :=
    let* ip := map_len_err (fun e => le_add_offset e (c_offset c)) (v6_from_slice cut s) in
    let payload := v6_payload ip in
    let* d := ptr_diff (ipp_slice payload) s in
    let c' := set_net c (c_offset c + d) (ipp_src payload) (NtIpv6 ip) in
    transport_dispatch c' payload.

  Fixpoint slice_ether_type_loop (cut : bool) (fuel : nat) (c : cursor) (ep : ether_payload)
    : res sliced_packet :=
    match fuel with
    | O => Bug SITE_FUEL
    | S f =>
        let et := ep_ether_type ep in
        if is_vlan_type et then
          if LINK_EXTS_CAP <=? len (sp_exts (c_result c)) then Ok (c_result c)
          else
            let* vlan := map_len_err (fun e => le_add_offset e (c_offset c))
                           (SingleVlanSlice.from_slice (ep_slice ep)) in
            let* vp := SingleVlanSlice.payload vlan in
            let* c' := push_ext c (c_offset c + SingleVlanSlice.header_len) (c_src c) (LeVlan vlan) in
            slice_ether_type_loop cut f c' vp
        else if et =? ET_MACSEC then
          if LINK_EXTS_CAP <=? len (sp_exts (c_result c)) then Ok (c_result c)
          else
            let* macsec := map_len_err (fun e => le_add_offset e (c_offset c))
                             (Macsec.from_slice (ep_slice ep)) in
            let* hl := Macsec.header_len (ms_header macsec) in
            let* sl := Macsec.short_len (ms_header macsec) in
            let src := if 0 <? sl then LsMacsecShortLength else c_src c in
            let* c' := push_ext c (c_offset c + hl) src (LeMacsec macsec) in
            match ms_payload macsec with
            | MpUnmodified e => slice_ether_type_loop cut f c' e
            | MpModified _ => Ok (c_result c')
            end
        else if et =? ET_ARP then slice_arp c (ep_slice ep)
        else if et =? ET_IPV4 then slice_ipv4 c (ep_slice ep)
        else if et =? ET_IPV6 then slice_ipv6 cut c (ep_slice ep)
        else Ok (c_result c)
    end.

  Definition slice_ether_type (cut : bool) (c : cursor) (ep : ether_payload) : res sliced_packet :=
    slice_ether_type_loop cut 5 c ep.

  Definition slice_ethernet2 (cut : bool) (c : cursor) (s : slice) : res sliced_packet :=
    let* r := map_len_err (fun e => le_add_offset e (c_offset c))
                (Ethernet2Slice.from_slice_without_fcs s) in
    let* ep := Ethernet2Slice.payload r in
    let c' := set_link c (c_offset c + Ethernet2Slice.header_len) (LkEthernet2 r) in
    slice_ether_type cut c' ep.

  Definition from_ethernet (cut : bool) (data : bytes) : res sliced_packet :=
    slice_ethernet2 cut new (mk_slice data).
  Definition from_ether_type (cut : bool) (ether_type : N) (data : bytes) : res sliced_packet :=
    let ep := mkEtherPayload ether_type LsSlice (mk_slice data) in
    slice_ether_type cut (set_link new 0 (LkEtherPayload ep)) ep.
  Definition from_ip (cut : bool) (data : bytes) : res sliced_packet :=
    slice_ip cut new (mk_slice data).
End Cut.

(* the cut happened: the result's IP payload is announced as an extension header *)
Definition is_ext_number (k : N) : bool :=
  (k =? IPN_DEST_OPTIONS) || (k =? IPN_ROUTE) || (k =? IPN_FRAG) || (k =? IPN_AUTH).

Definition stopped_at_ext (r : res sliced_packet) : bool :=
  match r with
  | Ok p =>
      match sp_net p with
      | Some (NtIpv6 v) => is_ext_number (ipp_number (v6_payload v))
      | _ => false
      end
  | _ => false
  end.
