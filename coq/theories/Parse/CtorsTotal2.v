(* Parse/CtorsTotal2.v -- audit round 2 follow-up (C01 / C02): the public slice constructors
   that Parse/CtorsTotal.v does not list, on ARBITRARY slices:

     Ethernet2HeaderSlice::from_slice   (link/ethernet2_header_slice.rs: length test,
                                         from_raw_parts(slice.as_ptr(), 14))
     SingleVlanHeaderSlice::from_slice  (link/single_vlan_header_slice.rs: the same with 4)
     Ipv4ExtensionsSlice::from_slice    (net/ipv4_exts_slice.rs; model: LaxSlices.Ipv4Exts)
     the 11 typed ICMPv6 payload slices and the enum constructor
     Icmpv6PayloadSlice::{from_slice, from_type_u8}
                                        (transport/icmpv6/icmpv6_payload_slice/*.rs; model:
                                         CtlMsg/Model.v, Icmpv6PayloadSlice -- safe Rust: a
                                         length test and a copy of the reference; the panic
                                         sites are in the accessors: first_chunk().unwrap(),
                                         &slice[FIXED_PART_LEN..])

   For every slice value (any pointer offset, contents, length; accepted or rejected): the
   run returns Ok or Err, never Bug / UB (no failing from_raw_parts, checked index, unwrap),
   and what the returned value stores is a window of the input.  The first two are
   transliterated here (Parse/HdrModel.v contains them only inlined in
   Ethernet2Header::from_slice / SingleVlanHeader::from_slice: `hdr_eth2_uses`,
   `hdr_vlan_uses`). *)
From EP Require Import Base.Bytes Parse.Types Parse.Slices Parse.Cursor Parse.Repr Parse.Access
  Parse.AccessProofs Parse.CtorsTotal Parse.HdrModel Parse.LaxSlices.
From EP Require CtlMsg.Spec CtlMsg.Model CtlMsg.Proofs.
From Coq Require Import ZArith Lia ZifyN ZifyBool.

Local Open Scope N_scope.

(* ---- the two header slices ----------------------------------------------------------------- *)
Module Ethernet2HeaderSliceM.
  Definition from_slice (s : slice) : res slice :=
    if s_len s <? 14 then lerr 14 (s_len s) LsSlice LyEthernet2Header
    else subU s 0 14.
End Ethernet2HeaderSliceM.

Module SingleVlanHeaderSliceM.
  Definition from_slice (s : slice) : res slice :=
    if s_len s <? 4 then lerr 4 (s_len s) LsSlice LyVlanHeader
    else subU s 0 4.
End SingleVlanHeaderSliceM.

(* they are the first step of the struct decoders of Parse/HdrModel.v *)
Lemma hdr_eth2_uses s :
  Ethernet2Header.from_slice s =
  (let* h := Ethernet2HeaderSliceM.from_slice s in let* rest := idx_from s 14 in Ok (h, rest)).
Proof. reflexivity. Qed.

Lemma hdr_vlan_uses s :
  SingleVlanHeader.from_slice s =
  (let* h := SingleVlanHeaderSliceM.from_slice s in let* rest := idx_from s 4 in Ok (h, rest)).
Proof. reflexivity. Qed.

Lemma nb_eth2h s : nobug (Ethernet2HeaderSliceM.from_slice s).
Proof. unfold Ethernet2HeaderSliceM.from_slice. nb. Qed.

Lemma nb_vlanh s : nobug (SingleVlanHeaderSliceM.from_slice s).
Proof. unfold SingleVlanHeaderSliceM.from_slice. nb. Qed.

Lemma eth2h_wf s h : Ethernet2HeaderSliceM.from_slice s = Ok h -> s_len h = 14 /\ sub_of h s.
Proof.
  unfold Ethernet2HeaderSliceM.from_slice. destruct (s_len s <? 14) eqn:C; [discriminate|].
  intros H. split; [|now exists 0, 14]. apply subU_inv in H. lia.
Qed.

Lemma vlanh_wf s h : SingleVlanHeaderSliceM.from_slice s = Ok h -> s_len h = 4 /\ sub_of h s.
Proof.
  unfold SingleVlanHeaderSliceM.from_slice. destruct (s_len s <? 4) eqn:C; [discriminate|].
  intros H. split; [|now exists 0, 4]. apply subU_inv in H. lia.
Qed.

(* ---- Ipv4ExtensionsSlice::from_slice --------------------------------------------------------- *)
Lemma nb_ipv4exts nh s : nobug (Ipv4Exts.from_slice nh s).
Proof.
  unfold Ipv4Exts.from_slice. destruct (IPN_AUTH =? nh); [|apply nobug_Ok].
  apply nobug_bind; [apply nb_ah|]. intros h Eh.
  apply ah_wf in Eh. destruct Eh as ((p & E1 & P1 & La) & Sa).
  pose proof (sub_of_len _ _ Sa) as Lh. unfold IpAuthHeaderSlice.next_header. nb.
Qed.

(* stored: the authentication header (a window of the input); rest: the input behind it *)
Lemma ipv4exts_wf nh s a nx rest :
  Ipv4Exts.from_slice nh s = Ok (a, nx, rest) ->
  sub_of rest s /\
  match a with
  | Some h => nh = IPN_AUTH /\ IpAuthHeaderSlice.from_slice s = Ok h /\ sub_of h s /\
              s_off rest = s_off s + s_len h /\ s_len rest = s_len s - s_len h
  | None => nh <> IPN_AUTH /\ nx = nh /\ rest = s
  end.
Proof.
  unfold Ipv4Exts.from_slice. destruct (IPN_AUTH =? nh) eqn:Ea.
  - intros H. binv H h Eh. binv H r Er. binv H n En. injection H as <- <- <-.
    pose proof (ah_wf _ _ Eh) as (_ & Sh). pose proof (sub_of_len _ _ Sh) as Lh.
    destruct (s_len h <=? s_len s) eqn:C; [|discriminate]. injection Er as <-.
    assert (D : subU s (s_len h) (s_len s - s_len h) = Ok (fst s + s_len h, drop (s_len h) (snd s)))
      by (apply drop_as_sub; lia).
    split; [now exists (s_len h), (s_len s - s_len h)|].
    apply subU_inv in D. destruct D as (_ & D1 & D2 & _).
    repeat split; auto. lia.
  - intros H. injection H as <- <- <-. split; [apply sub_of_refl|]. repeat split. lia.
Qed.

(* ---- ICMPv6 payload slices -------------------------------------------------------------------- *)
Module P6 := EP.CtlMsg.Model.Icmpv6PayloadSlice.
Notation ps_kind := EP.CtlMsg.Spec.ps_kind.

(* XxxPayloadSlice::from_slice by kind (PkRaw: the enum arm `Raw(payload)`, no constructor) *)
Definition payload_ctor (k : ps_kind) (s : bytes) : CtlMsg.Spec.res P6.t :=
  match k with
  | CtlMsg.Spec.PkRouterAdvertisement => P6.fixed_from_slice k P6.RA_FIXED_PART_LEN s
  | CtlMsg.Spec.PkNeighborSolicitation => P6.fixed_from_slice k P6.NS_FIXED_PART_LEN s
  | CtlMsg.Spec.PkNeighborAdvertisement => P6.fixed_from_slice k P6.NA_FIXED_PART_LEN s
  | CtlMsg.Spec.PkRedirect => P6.fixed_from_slice k P6.REDIRECT_FIXED_PART_LEN s
  | CtlMsg.Spec.PkRaw => CtlMsg.Spec.Ok (k, s)
  | _ => P6.plain_from_slice k s
  end.

(* the two enum constructors only ever run one of these *)
Lemma payload_from_slice_ctor ty s :
  P6.from_slice ty s = payload_ctor (CtlMsg.Spec.payload_kind_of ty) s.
Proof. destruct ty; reflexivity. Qed.

Lemma payload_from_type_u8_ctor t c s : exists k, P6.from_type_u8 t c s = payload_ctor k s.
Proof.
  unfold P6.from_type_u8.
  repeat match goal with
         | |- exists k, match ?x with _ => _ end = _ => destruct x
         | |- exists k, (if ?x then _ else _) = _ => destruct x
         end;
    first [ now exists CtlMsg.Spec.PkRaw
          | now exists CtlMsg.Spec.PkDestinationUnreachable
          | now exists CtlMsg.Spec.PkPacketTooBig
          | now exists CtlMsg.Spec.PkTimeExceeded
          | now exists CtlMsg.Spec.PkParameterProblem
          | now exists CtlMsg.Spec.PkEchoRequest
          | now exists CtlMsg.Spec.PkEchoReply
          | now exists CtlMsg.Spec.PkRouterSolicitation
          | now exists CtlMsg.Spec.PkRouterAdvertisement
          | now exists CtlMsg.Spec.PkNeighborSolicitation
          | now exists CtlMsg.Spec.PkNeighborAdvertisement
          | now exists CtlMsg.Spec.PkRedirect ].
Qed.

(* closed form: one length test against the fixed part of the kind *)
Lemma payload_ctor_closed k s :
  payload_ctor k s =
  if len s <? CtlMsg.Spec.ndp_fixed_len k
  then CtlMsg.Spec.ErrLen (CtlMsg.Spec.mkLenError (CtlMsg.Spec.ndp_fixed_len k) (len s)
                             CtlMsg.Spec.LsSlice CtlMsg.Spec.LIcmpv6 0)
  else CtlMsg.Spec.Ok (k, s).
Proof.
  destruct k; cbn [payload_ctor CtlMsg.Spec.ndp_fixed_len]; unfold P6.plain_from_slice, P6.fixed_from_slice,
    P6.RA_FIXED_PART_LEN, P6.NS_FIXED_PART_LEN, P6.NA_FIXED_PART_LEN, P6.REDIRECT_FIXED_PART_LEN;
    try reflexivity;
    (destruct (len s <? 0) eqn:C; [exfalso; lia|reflexivity]).
Qed.

(* no UB; an accepted value stores exactly the input slice, and every accessor of it
   (reachable_time, retrans_timer, target_address, destination_address, options: the unwraps
   of first_chunk and the checked `[FIXED_PART_LEN..]`) returns: the view of CtlMsg/Spec.v *)
Lemma payload_ctor_total k s :
  (forall n, payload_ctor k s <> CtlMsg.Spec.UB n) /\
  (forall p, payload_ctor k s = CtlMsg.Spec.Ok p ->
     p = (k, s) /\ CtlMsg.Spec.ndp_fixed_len k <= len s /\
     P6.accessors p = CtlMsg.Spec.Ok (CtlMsg.Spec.ndp_payload_view k s)).
Proof.
  rewrite payload_ctor_closed. destruct (len s <? CtlMsg.Spec.ndp_fixed_len k) eqn:C.
  - split; [intros n; discriminate|intros p; discriminate].
  - split; [intros n; discriminate|]. intros p H. injection H as <-.
    split; [reflexivity|]. split; [lia|]. apply CtlMsg.Proofs.payload_accessors_spec. lia.
Qed.

(* ---- summaries ---------------------------------------------------------------------------------- *)
Theorem remaining_ctors_no_bug :
  (forall s, nobug (Ethernet2HeaderSliceM.from_slice s)) /\
  (forall s, nobug (SingleVlanHeaderSliceM.from_slice s)) /\
  (forall nh s, nobug (Ipv4Exts.from_slice nh s)) /\
  (forall k s n, payload_ctor k s <> CtlMsg.Spec.UB n) /\
  (forall ty s n, P6.from_slice ty s <> CtlMsg.Spec.UB n) /\
  (forall t c s n, P6.from_type_u8 t c s <> CtlMsg.Spec.UB n) /\
  (* what they store lies in the input *)
  (forall s h, Ethernet2HeaderSliceM.from_slice s = Ok h -> s_len h = 14 /\ sub_of h s) /\
  (forall s h, SingleVlanHeaderSliceM.from_slice s = Ok h -> s_len h = 4 /\ sub_of h s) /\
  (forall nh s a nx rest, Ipv4Exts.from_slice nh s = Ok (a, nx, rest) ->
     sub_of rest s /\
     (forall h, a = Some h -> IpAuthHeaderSlice.from_slice s = Ok h /\ sub_of h s)) /\
  (forall k s p, payload_ctor k s = CtlMsg.Spec.Ok p ->
     p = (k, s) /\ forall n, P6.accessors p <> CtlMsg.Spec.UB n).
Proof.
  split; [exact nb_eth2h|]. split; [exact nb_vlanh|]. split; [exact nb_ipv4exts|].
  split; [intros k s; apply payload_ctor_total|].
  split; [intros ty s; rewrite payload_from_slice_ctor; apply payload_ctor_total|].
  split; [intros t c s; destruct (payload_from_type_u8_ctor t c s) as (k & ->); apply payload_ctor_total|].
  split; [exact eth2h_wf|]. split; [exact vlanh_wf|].
  split.
  - intros nh s a nx rest H. apply ipv4exts_wf in H. destruct H as (Sr & Ha).
    split; [exact Sr|]. intros h ->. tauto.
  - intros k s p H. destruct (payload_ctor_total k s) as (_ & T). destruct (T p H) as (-> & _ & A).
    split; [reflexivity|]. intros n. rewrite A. discriminate.
Qed.

(* the transliterations are what the struct decoders run; the enum constructors run payload_ctor *)
Theorem remaining_ctors_used :
  (forall s, Ethernet2Header.from_slice s =
             (let* h := Ethernet2HeaderSliceM.from_slice s in let* rest := idx_from s 14 in Ok (h, rest))) /\
  (forall s, SingleVlanHeader.from_slice s =
             (let* h := SingleVlanHeaderSliceM.from_slice s in let* rest := idx_from s 4 in Ok (h, rest))) /\
  (forall ty s, P6.from_slice ty s = payload_ctor (CtlMsg.Spec.payload_kind_of ty) s) /\
  (forall t c s, exists k, P6.from_type_u8 t c s = payload_ctor k s).
Proof.
  split; [exact hdr_eth2_uses|]. split; [exact hdr_vlan_uses|].
  split; [exact payload_from_slice_ctor|exact payload_from_type_u8_ctor].
Qed.

(* the totality reading (C02) *)
Definition returns6 {A} (r : CtlMsg.Spec.res A) : Prop :=
  (exists v, r = CtlMsg.Spec.Ok v) \/ (exists e, r = CtlMsg.Spec.ErrLen e).

Lemma returns6_of {A} (r : CtlMsg.Spec.res A) : (forall n, r <> CtlMsg.Spec.UB n) -> returns6 r.
Proof. destruct r as [v|e|n]; intros H; [left; eauto|right; eauto|exfalso; now apply (H n)]. Qed.

Theorem remaining_ctors_return :
  (forall s, returns (Ethernet2HeaderSliceM.from_slice s)) /\
  (forall s, returns (SingleVlanHeaderSliceM.from_slice s)) /\
  (forall nh s, returns (Ipv4Exts.from_slice nh s)) /\
  (forall k s, returns6 (payload_ctor k s)) /\
  (forall ty s, returns6 (P6.from_slice ty s)) /\
  (forall t c s, returns6 (P6.from_type_u8 t c s)) /\
  (* and so do all accessors of an accepted payload slice *)
  (forall k s p, payload_ctor k s = CtlMsg.Spec.Ok p ->
     P6.accessors p = CtlMsg.Spec.Ok (CtlMsg.Spec.ndp_payload_view k s)).
Proof.
  destruct remaining_ctors_no_bug as (A1 & A2 & A3 & A4 & A5 & A6 & _).
  split; [intros s; apply nobug_returns, A1|]. split; [intros s; apply nobug_returns, A2|].
  split; [intros nh s; apply nobug_returns, A3|].
  split; [intros k s; apply returns6_of, A4|]. split; [intros ty s; apply returns6_of, A5|].
  split; [intros t c s; apply returns6_of, A6|].
  intros k s p H. destruct (payload_ctor_total k s) as (_ & T). now destruct (T p H) as (_ & _ & A).
Qed.
