(* Parse/LaxPrefixResumed.v -- (b) through the length fallbacks, whole resumed packet (round 3, agent c05d).
     to_pres3_*    : pwire3 (LaxWire3.v) with the extra information forgotten is pwire (LaxWire.v), hence
                     WireSpec's reading of the packet (pwire3_sound)
     a_transport / a_arp : where the strict reference ACCEPTS a layer, the lax reference decodes the same
     r_*           : lockstep of pwire2 / pwire3 and the lax reference decoder `lwire_*`, giving
                     `resumed_ok`: through every MACsec short-length / IPv4 total-length / IPv6
                     payload-length fallback the lax decoding is the resumed strict decoding on the data that
                     is there (all layers incl. transport when it accepts; prefix + stop error when it
                     rejects), the layer at the fallback flagged incomplete
   Transferred to the strict and lax MODELS with StrictProofs.v / LaxWireProofs.v. *)
From EP Require Import Base.Bytes Parse.Types Parse.Slices Parse.Cursor Parse.View Parse.WireSpec Parse.Repr
  Parse.StrictProofs Parse.LaxSlices Parse.LaxCursor Parse.LaxView Parse.LaxProofs Parse.LaxFacts
  Parse.LaxWire Parse.LaxWireProofs Parse.LaxWireFacts Parse.LaxPrefix Parse.LaxWire2 Parse.LaxPrefixNet
  Parse.LaxWire3.
From Coq Require Import ZArith Lia ZifyN ZifyBool List.
Import ListNotations.
Local Open Scope N_scope.

(* ---- pwire3 is pwire ------------------------------------------------------------------------------------ *)
Lemma to_pres3_ether bs cap : forall p et src pos lim,
  to_pres (pwire3_ether bs cap p et src pos lim) = pwire_ether bs cap p et src pos lim.
Proof.
  induction cap as [|cap IH]; intros p et src pos lim; cbn [pwire3_ether pwire_ether].
  - destruct (is_vlan et); [reflexivity|]. destruct (et =? 35045); [reflexivity|]. apply to_pres_net_step.
  - destruct (is_vlan et).
    { destruct (lim - pos <? 4); [reflexivity|apply IH]. }
    destruct (et =? 35045); [|apply to_pres_net_step].
    destruct (lim - pos <? 6); [reflexivity|].
    destruct (128 <=? B bs pos); [reflexivity|].
    destruct (((B bs pos / 4) mod 4 =? 0) && (B bs (pos + 1) mod 64 =? 1)); [reflexivity|].
    destruct (lim - pos <? _); [reflexivity|].
    destruct ((0 <? B bs (pos + 1) mod 64) && _); [reflexivity|].
    destruct ((B bs pos / 4) mod 4 =? 0); [apply IH|reflexivity].
Qed.

Theorem pwire3_is_pwire bs et :
  to_pres (pwire3_ethernet bs) = pwire_ethernet bs /\
  to_pres (pwire3_ether_type bs et) = pwire_ether_type bs et.
Proof.
  split.
  - unfold pwire3_ethernet, pwire_ethernet. destruct (n_bs bs <? 14); [reflexivity|apply to_pres3_ether].
  - apply to_pres3_ether.
Qed.

(* pwire3 accepts / rejects exactly like the wire format specification, with the same error record *)
Theorem pwire3_sound bs et :
  forget (to_pres (pwire3_ethernet bs)) = wire_ethernet bs /\
  forget (to_pres (pwire3_ether_type bs et)) = wire_ether_type bs et.
Proof.
  destruct (pwire3_is_pwire bs et) as (-> & ->). destruct (pwire_sound bs et) as (S1 & S2 & _). auto.
Qed.

(* pwire3 is pwire2 except that the MACsec short-length rejection carries the resumed decoding *)
Definition demacsec (pw : pres2) : pres2 :=
  match pw with
  | P2Fb p (ELen l) inc r =>
      match le_layer l with
      | LyMacsecPacket => P2Rej p (ELen l)
      | _ => pw
      end
  | _ => pw
  end.

Lemma demacsec_of p r : demacsec (pres2_of p r) = pres2_of p r.
Proof. destruct r; reflexivity. Qed.
Lemma demacsec_netr p n tag r : demacsec (pres2_net p n tag r) = pres2_net p n tag r.
Proof. destruct r; reflexivity. Qed.

Lemma demacsec_net bs p et src pos lim :
  demacsec (pwire2_net bs p et src pos lim) = pwire2_net bs p et src pos lim.
Proof.
  unfold pwire2_net.
  destruct (et =? 2054); [apply demacsec_of|].
  destruct (et =? 2048).
  { unfold pwire2_ipv4.
    repeat match goal with |- context[if ?c then P2Rej _ _ else _] => destruct c; [reflexivity|] end.
    unfold pwire2_ipv4_body.
    destruct (W bs (pos + 2) <? _); [reflexivity|].
    destruct (lim - pos <? W bs (pos + 2)); [reflexivity|].
    unfold pwire2_ipv4_tail. cbv zeta.
    destruct (B bs (pos + 9) =? 51); [|apply demacsec_of].
    destruct (wire_ah bs _ _ _ _); [apply demacsec_of|apply demacsec_netr]. }
  destruct (et =? 34525); [|reflexivity].
  unfold pwire2_ipv6.
  repeat match goal with |- context[if ?c then P2Rej _ _ else _] => destruct c; [reflexivity|] end.
  assert (T : forall esrc psrc inc lim', demacsec (pwire2_ipv6_tail bs p esrc psrc inc pos lim') =
                                        pwire2_ipv6_tail bs p esrc psrc inc pos lim').
  { intros. unfold pwire2_ipv6_tail. cbv zeta.
    destruct (wire_exts2 bs _ _ _ _ _); [apply demacsec_of|apply demacsec_netr]. }
  unfold pwire2_ipv6_body.
  destruct ((W bs (pos + 4) =? 0) && (40 <? lim - pos)); [apply T|].
  destruct (lim - pos <? 40 + W bs (pos + 4)); [reflexivity|apply T].
Qed.

Lemma demacsec_ether bs cap : forall p et src pos lim,
  demacsec (pwire3_ether bs cap p et src pos lim) = pwire2_ether bs cap p et src pos lim.
Proof.
  induction cap as [|cap IH]; intros p et src pos lim; cbn [pwire3_ether pwire2_ether].
  - destruct (is_vlan et); [reflexivity|]. destruct (et =? 35045); [reflexivity|]. apply demacsec_net.
  - destruct (is_vlan et).
    { destruct (lim - pos <? 4); [reflexivity|apply IH]. }
    destruct (et =? 35045); [|apply demacsec_net].
    destruct (lim - pos <? 6); [reflexivity|].
    destruct (128 <=? B bs pos); [reflexivity|].
    destruct (((B bs pos / 4) mod 4 =? 0) && (B bs (pos + 1) mod 64 =? 1)); [reflexivity|].
    destruct (lim - pos <? _); [reflexivity|].
    destruct ((0 <? B bs (pos + 1) mod 64) && _); [reflexivity|].
    destruct ((B bs pos / 4) mod 4 =? 0); [apply IH|reflexivity].
Qed.

Theorem pwire3_is_pwire2 bs et :
  demacsec (pwire3_ethernet bs) = pwire2_ethernet bs /\
  demacsec (pwire3_ether_type bs et) = pwire2_ether_type bs et.
Proof.
  split.
  - unfold pwire3_ethernet, pwire2_ethernet. destruct (n_bs bs <? 14); [reflexivity|apply demacsec_ether].
  - apply demacsec_ether.
Qed.

(* ---- the lax reference decoder only APPENDS link extensions (lax level: flags kept) ------------------- *)
Lemma lx_ip_body bs p csrc pos lim : lv_exts (lwire_ip_body bs p csrc pos lim) = lv_exts p.
Proof.
  unfold lwire_ip_body. destruct (lwire_ip_parts bs csrc pos lim) as [[[net pl] st] lim'].
  rewrite (proj1 (proj2 (ltransport_keeps _ _ _ _ _ _ _))). destruct st; reflexivity.
Qed.

Lemma lx_ip bs p csrc pos lim : lv_exts (lwire_ip bs p csrc pos lim) = lv_exts p.
Proof. unfold lwire_ip. destruct (ip_hdr_fault bs csrc pos lim); [reflexivity|apply lx_ip_body]. Qed.

Lemma lx_arp bs p csrc pos lim : lv_exts (lwire_arp bs p csrc pos lim) = lv_exts p.
Proof.
  unfold lwire_arp, lcut.
  repeat match goal with |- context[if ?c then _ else _] => destruct c end; reflexivity.
Qed.

Lemma lx_ether bs cap : forall p et csrc pos lim,
  exists rest, lv_exts (lwire_ether bs cap p et csrc pos lim) = lv_exts p ++ rest.
Proof.
  assert (Net : forall p et csrc pos lim,
            exists rest,
              lv_exts (if et =? 2054 then lwire_arp bs p csrc pos lim
                       else if (et =? 2048) || (et =? 34525) then lwire_ip bs p csrc pos lim else p)
              = lv_exts p ++ rest).
  { intros p et csrc pos lim. exists []. rewrite app_nil_r.
    destruct (et =? 2054); [apply lx_arp|].
    destruct ((et =? 2048) || (et =? 34525)); [apply lx_ip|reflexivity]. }
  assert (Nil : forall p q : lvpacket, lv_exts q = lv_exts p -> exists rest, lv_exts q = lv_exts p ++ rest)
    by (intros p q H; exists []; now rewrite app_nil_r).
  assert (Snoc : forall p x r, (exists rest, lv_exts r = lv_exts (lwith_ext p x) ++ rest) ->
                               exists rest, lv_exts r = lv_exts p ++ rest).
  { intros p x r (rest & H). exists ([x] ++ rest). rewrite H. cbn [lwith_ext lv_exts].
    now rewrite <- app_assoc. }
  induction cap as [|cap IH]; intros p et csrc pos lim; cbn [lwire_ether].
  - destruct (is_vlan et); [now apply Nil|]. destruct (et =? 35045); [now apply Nil|]. apply Net.
  - destruct (is_vlan et).
    { unfold lcut. destruct (lim - pos <? 4); [now apply Nil|]. eapply Snoc. apply IH. }
    destruct (et =? 35045); [|apply Net].
    unfold lcut.
    repeat match goal with
           | |- context[if ?c then lstop _ _ else _] => destruct c; [now apply Nil|]
           end.
    cbv zeta. destruct ((B bs pos / 4) mod 4 =? 0).
    + eapply Snoc. apply IH.
    + eapply Snoc. exists []. now rewrite app_nil_r.
Qed.

(* ---- where the strict reference accepts a layer, the lax reference decodes the same ---------------- *)
Lemma a_transport bs p lp ipn frag src psrc pos lim q' :
  strictify lp = p -> lv_stop lp = None ->
  wire_transport bs p ipn frag src pos lim = VOk q' ->
  strictify (lwire_transport bs lp ipn frag psrc pos lim) = q' /\
  lv_stop (lwire_transport bs lp ipn frag psrc pos lim) = None.
Proof.
  intros Hs Hst. unfold wire_transport, lwire_transport, lhas_stop. rewrite Hst, orb_false_r.
  assert (Tr : forall t, strictify (lwith_tr lp t) = with_tr p t /\ lv_stop (lwith_tr lp t) = None).
  { intros t. rewrite strictify_lwith_tr, Hs. split; [reflexivity|exact Hst]. }
  destruct frag. { intros H. injection H as <-. auto. }
  destruct (ipn =? 1).
  { unfold wire_icmp4, lwire_icmp4, cut.
    destruct (lim - pos <? 8); [discriminate|].
    destruct ((B bs pos =? 13) && (B bs (pos + 1) =? 0) && negb (lim - pos =? 20)); [discriminate|].
    destruct ((B bs pos =? 14) && (B bs (pos + 1) =? 0) && negb (lim - pos =? 20)); [discriminate|].
    intros H. injection H as <-. apply Tr. }
  destruct (ipn =? 17).
  { unfold wire_udp, lwire_udp, cut.
    destruct (lim - pos <? 8); [discriminate|].
    destruct (lim - pos <? W bs (pos + 4)) eqn:E1; [discriminate|]. cbn [orb].
    destruct (W bs (pos + 4) =? 0) eqn:E0.
    { assert ((W bs (pos + 4) <? 8) = true) as -> by lia. intros H. injection H as <-. apply Tr. }
    destruct (W bs (pos + 4) <? 8); [discriminate|]. intros H. injection H as <-. apply Tr. }
  destruct (ipn =? 6).
  { unfold wire_tcp, lwire_tcp, cut, bad.
    destruct (lim - pos <? 20); [discriminate|].
    destruct (B bs (pos + 12) / 16 <? 5); [discriminate|].
    destruct (lim - pos <? B bs (pos + 12) / 16 * 4); [discriminate|].
    intros H. injection H as <-. apply Tr. }
  destruct (ipn =? 58).
  { unfold wire_icmp6, lwire_icmp6, cut.
    destruct (lim - pos <? 8); [discriminate|].
    destruct (4294967295 <? lim - pos); [discriminate|].
    intros H. injection H as <-. apply Tr. }
  intros H. injection H as <-. auto.
Qed.

Lemma a_arp bs p lp src pos lim q' :
  strictify lp = p -> lv_stop lp = None ->
  wire_arp bs p src pos lim = VOk q' ->
  strictify (lwire_arp bs lp src pos lim) = q' /\ lv_stop (lwire_arp bs lp src pos lim) = None.
Proof.
  intros Hs Hst. unfold wire_arp, lwire_arp, cut, lcut.
  destruct (lim - pos <? 8); [discriminate|].
  destruct (lim - pos <? 8 + B bs (pos + 4) * 2 + B bs (pos + 5) * 2); [discriminate|].
  intros H. injection H as <-. rewrite strictify_lwith_net, Hs. split; [reflexivity|exact Hst].
Qed.

Lemma wire_arp_no_bug bs p src pos lim s : wire_arp bs p src pos lim <> VBug s.
Proof.
  unfold wire_arp, cut.
  repeat match goal with |- context[if ?c then _ else _] => destruct c end; discriminate.
Qed.

(* ---- IPv4 / IPv6 behind a decodable header ---------------------------------------------------------------- *)
(* what a tail of pwire2 (decoding behind the length checks) says about the lax decoding r whose network
   layer is net: `tail_match` of LaxPrefixNet.v with the whole packet in the accepting arm and the prefix
   in the rejecting arms *)
Definition tail_ok3 (pw : pres2) (r : lvpacket) (net : lvnet) : Prop :=
  match pw with
  | P2RejNet q' n' tag e' => n' = net /\ stopped_in_net r net tag e' /\ vprefix q' (strictify r)
  | P2Acc q' => strictify r = q' /\ lv_stop r = None
  | P2Rej q' e' => vprefix q' (strictify r) /\ lax_outcome e' r
  | _ => False
  end.
Definition tail_outcome3 (inc : bool) (psrc : len_source) (pw : pres2) (r : lvpacket) (net : lvnet) : Prop :=
  lv_net r = Some net /\ net_flags net = Some (inc, psrc) /\ tail_ok3 pw r net.

Section NetBody3.
  Variables (bs : bytes) (p : vpacket) (lp : lvpacket) (src : len_source) (pos lim : N).
  Hypothesis Hs : strictify lp = p.
  Hypothesis Hst : lv_stop lp = None.
  Hypothesis Hn : lv_net lp = None.
  Hypothesis Htr : lv_transport lp = None.

  Lemma r_transport net ipn frag esrc psrc pos' l' :
    (psrc = esrc \/ psrc = LsSlice) ->
    let q := with_net p (strictify_net net) in
    let r := lwire_transport bs (lwith_net lp net) ipn frag psrc pos' l' in
    lv_net r = Some net /\
    tail_ok3 (pres2_of q (wire_transport bs q ipn frag esrc pos' l')) r net.
  Proof.
    intros Hps q r. split.
    { subst r. destruct (ltransport_keeps bs (lwith_net lp net) ipn frag psrc pos' l') as (_ & _ & ->).
      reflexivity. }
    assert (Hq : strictify (lwith_net lp net) = q) by (subst q; now rewrite strictify_lwith_net, Hs).
    pose proof (wire_transport_cases bs q ipn frag esrc pos' l') as C.
    destruct (wire_transport bs q ipn frag esrc pos' l') as [q'|e'|s] eqn:E; cbn [pres2_of tail_ok3].
    - exact (a_transport bs q (lwith_net lp net) ipn frag esrc psrc pos' l' q' Hq Hst E).
    - refine (b_transport bs q (lwith_net lp net) ipn frag esrc psrc pos' l' q e' Hq Hst Htr Hps _).
      unfold pwire_transport. rewrite E. reflexivity.
    - exact C.
  Qed.

  Lemma stopped_lstop3 net tag e ipn frag psrc pos' l' :
    let r := lwire_transport bs (lstop (lwith_net lp net) (e, tag)) ipn frag psrc pos' l' in
    stopped_in_net r net tag e /\ vprefix p (strictify r).
  Proof.
    cbv zeta. rewrite (ltransport_stop_keeps _ _ _ _ _ _ _ (e, tag)) by reflexivity. split.
    - unfold stopped_in_net. cbn. auto.
    - rewrite strictify_lstop, strictify_lwith_net, Hs. apply vprefix_with_net.
      rewrite <- Hs. now apply strictify_net_none.
  Qed.

  Lemma r_ipv4_tail esrc psrc inc hl lim' :
    pick_src psrc src = esrc -> (psrc = esrc \/ psrc = LsSlice) ->
    let '(net, pl, st, l') := lwire_ipv4_parts bs src pos hl lim' psrc inc in
    tail_outcome3 inc psrc (pwire2_ipv4_tail bs p esrc psrc inc pos hl lim')
      (lwire_transport bs (lstop_opt (lwith_net lp net) st)
         (lvip_number pl) (lvip_frag pl) (lvip_src pl) (fst (lvip_win pl)) l') net.
  Proof.
    intros Hpick Hps. unfold pwire2_ipv4_tail, lwire_ipv4_parts. rewrite Hpick. cbv zeta.
    destruct (B bs (pos + 9) =? 51).
    - rewrite ah_dec_wire.
      destruct (ah_dec bs CeAuthZeroPayloadLen esrc (pos + hl) lim') as [[ahl next]|e0] eqn:Ea.
      + cbn [lstop_opt lvip_number lvip_frag lvip_src lvip_win fst].
        destruct (r_transport
                    (LVIpv4 (pos, hl) (Some (pos + hl, ahl))
                       (mkLVIp inc next (ipv4_fragmented bs pos) psrc (pos + hl + ahl, lim' - (pos + hl + ahl))))
                    next (ipv4_fragmented bs pos) esrc psrc (pos + hl + ahl) lim' Hps) as (N1 & N2).
        split; [exact N1|]. split; [reflexivity|exact N2].
      + cbn [lstop_opt pres2_net]. split.
        { rewrite (ltransport_stop_keeps _ _ _ _ _ _ _ (e0, LyIpAuthHeader)) by reflexivity. reflexivity. }
        split; [reflexivity|]. cbn [tail_ok3]. split; [reflexivity|apply stopped_lstop3].
    - cbn [lstop_opt lvip_number lvip_frag lvip_src lvip_win fst].
      destruct (r_transport
                  (LVIpv4 (pos, hl) None
                     (mkLVIp inc (B bs (pos + 9)) (ipv4_fragmented bs pos) psrc (pos + hl, lim' - (pos + hl))))
                  (B bs (pos + 9)) (ipv4_fragmented bs pos) esrc psrc (pos + hl) lim' Hps) as (N1 & N2).
      split; [exact N1|]. split; [reflexivity|exact N2].
  Qed.

  Lemma r_ipv6_tail esrc psrc inc lim' :
    pick_src psrc src = esrc -> (psrc = esrc \/ psrc = LsSlice) ->
    let '(net, pl, st, l') := lwire_ipv6_parts bs src pos lim' psrc inc in
    tail_outcome3 inc psrc (pwire2_ipv6_tail bs p esrc psrc inc pos lim')
      (lwire_transport bs (lstop_opt (lwith_net lp net) st)
         (lvip_number pl) (lvip_frag pl) (lvip_src pl) (fst (lvip_win pl)) l') net.
  Proof.
    intros Hpick Hps. unfold pwire2_ipv6_tail, lwire_ipv6_parts. rewrite Hpick. cbv zeta.
    pose proof (exts2_lwire bs esrc (S (N.to_nat (lim' - (pos + 40)))) (pos + 40) lim' (B bs (pos + 6))
                  ltac:(lia)) as X.
    destruct (wire_exts2 bs _ esrc (pos + 40) lim' (B bs (pos + 6))) as [e1 next fr|e1 nh fr tag r].
    - cbn in X. rewrite X. cbn [lstop_opt lvip_number lvip_frag lvip_src lvip_win fst].
      destruct (r_transport
                  (LVIpv6 (pos, 40) (if e1 =? pos + 40 then None else Some (B bs (pos + 6))) fr
                     (pos + 40, e1 - (pos + 40)) (mkLVIp inc next fr psrc (e1, lim' - e1)))
                  next fr esrc psrc e1 lim' Hps) as (N1 & N2).
      split; [exact N1|]. split; [reflexivity|exact N2].
    - cbn in X. destruct X as (err & -> & ->). cbn [lstop_opt pres2_net]. split.
      { rewrite (ltransport_stop_keeps _ _ _ _ _ _ _ (err, tag)) by reflexivity. reflexivity. }
      split; [reflexivity|]. cbn [tail_ok3]. split; [reflexivity|apply stopped_lstop3].
  Qed.

  (* a tail reached without a length fallback *)
  Lemma tail_strict3 inc psrc pw r net : tail_outcome3 inc psrc pw r net -> resumed_ok bs pw r.
  Proof.
    intros (T1 & T2 & T3). destruct pw; cbn [resumed_ok tail_ok3] in *; try contradiction.
    - exact T3.
    - intros _. exact T3.
    - destruct T3 as (-> & T3 & V). split; assumption.
  Qed.

  (* a tail reached through an IP length fallback *)
  Lemma tail_fb3 l inc pw r net :
    (le_layer l = LyIpv4Packet \/ le_layer l = LyIpv6Packet) ->
    vprefix p (strictify r) ->
    tail_outcome3 inc LsSlice pw r net -> resumed_ok bs (P2Fb p (ELen l) inc pw) r.
  Proof.
    intros Hl V T. pose proof T as (T1 & T2 & T3). cbn [resumed_ok].
    split; [cbn; tauto|]. split; [exact V|]. split.
    - cbn [fb_flagged]. destruct Hl as [-> | ->]; exists net; split; assumption.
    - eapply tail_strict3. exact T.
  Qed.

  Lemma r_ipv4_body :
    B bs pos / 16 = 4 ->
    resumed_ok bs (pwire2_ipv4_body bs p src pos lim (B bs pos mod 16 * 4))
      (lwire_ip_body bs lp src pos lim).
  Proof.
    intros H4.
    assert (V : vprefix p (strictify (lwire_ip_body bs lp src pos lim)))
      by (rewrite <- Hs; now apply M_ip_body).
    revert V. unfold pwire2_ipv4_body, lwire_ip_body, lwire_ip_parts.
    rewrite H4. change (4 =? 4) with true. cbv iota.
    set (hl := B bs pos mod 16 * 4).
    destruct (W bs (pos + 2) <? hl).
    { pose proof (r_ipv4_tail src LsSlice false hl lim eq_refl (or_intror eq_refl)) as T.
      destruct (lwire_ipv4_parts bs src pos hl lim LsSlice false) as [[[net pl] st] l'].
      intros V. eapply tail_fb3; [left; reflexivity|exact V|exact T]. }
    destruct (lim - pos <? W bs (pos + 2)).
    { pose proof (r_ipv4_tail src LsSlice true hl lim eq_refl (or_intror eq_refl)) as T.
      destruct (lwire_ipv4_parts bs src pos hl lim LsSlice true) as [[[net pl] st] l'].
      intros V. eapply tail_fb3; [left; reflexivity|exact V|exact T]. }
    pose proof (r_ipv4_tail LsIpv4HeaderTotalLen LsIpv4HeaderTotalLen false hl (pos + W bs (pos + 2))
                  eq_refl (or_introl eq_refl)) as T.
    destruct (lwire_ipv4_parts bs src pos hl (pos + W bs (pos + 2)) LsIpv4HeaderTotalLen false)
      as [[[net pl] st] l'].
    intros _. eapply tail_strict3. exact T.
  Qed.

  Lemma r_ipv6_body :
    B bs pos / 16 = 6 ->
    resumed_ok bs (pwire2_ipv6_body bs p src pos lim) (lwire_ip_body bs lp src pos lim).
  Proof.
    intros H6.
    assert (V : vprefix p (strictify (lwire_ip_body bs lp src pos lim)))
      by (rewrite <- Hs; now apply M_ip_body).
    revert V. unfold pwire2_ipv6_body, lwire_ip_body, lwire_ip_parts.
    rewrite H6. change (6 =? 4) with false. cbv iota.
    destruct ((W bs (pos + 4) =? 0) && (40 <? lim - pos)).
    { pose proof (r_ipv6_tail src LsSlice false lim eq_refl (or_intror eq_refl)) as T.
      destruct (lwire_ipv6_parts bs src pos lim LsSlice false) as [[[net pl] st] l'].
      intros _. eapply tail_strict3. exact T. }
    destruct (lim - pos <? 40 + W bs (pos + 4)).
    { pose proof (r_ipv6_tail src LsSlice true lim eq_refl (or_intror eq_refl)) as T.
      destruct (lwire_ipv6_parts bs src pos lim LsSlice true) as [[[net pl] st] l'].
      intros V. eapply tail_fb3; [right; reflexivity|exact V|exact T]. }
    pose proof (r_ipv6_tail LsIpv6HeaderPayloadLen LsIpv6HeaderPayloadLen false (pos + 40 + W bs (pos + 4))
                  eq_refl (or_introl eq_refl)) as T.
    destruct (lwire_ipv6_parts bs src pos (pos + 40 + W bs (pos + 4)) LsIpv6HeaderPayloadLen false)
      as [[[net pl] st] l'].
    intros _. eapply tail_strict3. exact T.
  Qed.

  (* a rejection of the IP header itself: (b) of LaxPrefix.v *)
  Lemma r_rej_ipv4 e :
    pwire_ipv4 bs p src pos lim = PRej p e -> resumed_ok bs (P2Rej p e) (lwire_ip bs lp src pos lim).
  Proof. intros H NF. exact (b_ipv4 bs p lp src pos lim Hs Hst Hn Htr p e H NF). Qed.

  Lemma r_rej_ipv6 e :
    pwire_ipv6 bs p src pos lim = PRej p e -> resumed_ok bs (P2Rej p e) (lwire_ip bs lp src pos lim).
  Proof. intros H NF. exact (b_ipv6 bs p lp src pos lim Hs Hst Hn Htr p e H NF). Qed.

  (* reached through the IPv4 ether type *)
  Lemma r_ipv4 : resumed_ok bs (pwire2_ipv4 bs p src pos lim) (lwire_ip bs lp src pos lim).
  Proof.
    unfold pwire2_ipv4.
    destruct (lim - pos <? 20) eqn:E20.
    { apply r_rej_ipv4. unfold pwire_ipv4. now rewrite E20. }
    destruct (B bs pos / 16 =? 4) eqn:E4; cbn [negb].
    2:{ apply r_rej_ipv4. unfold pwire_ipv4. now rewrite E20, E4. }
    destruct (B bs pos mod 16 <? 5) eqn:Ei.
    { apply r_rej_ipv4. unfold pwire_ipv4. now rewrite E20, E4, Ei. }
    destruct (lim - pos <? B bs pos mod 16 * 4) eqn:Eh.
    { apply r_rej_ipv4. unfold pwire_ipv4. now rewrite E20, E4, Ei, Eh. }
    assert (HF : ip_hdr_fault bs src pos lim = None).
    { unfold ip_hdr_fault. assert ((lim - pos =? 0) = false) as -> by lia. now rewrite E4, Ei, Eh. }
    unfold lwire_ip. rewrite HF. apply r_ipv4_body. lia.
  Qed.

  (* reached through the IPv6 ether type *)
  Lemma r_ipv6 : resumed_ok bs (pwire2_ipv6 bs p src pos lim) (lwire_ip bs lp src pos lim).
  Proof.
    unfold pwire2_ipv6.
    destruct (lim - pos <? 40) eqn:E40.
    { apply r_rej_ipv6. unfold pwire_ipv6. now rewrite E40. }
    destruct (B bs pos / 16 =? 6) eqn:E6; cbn [negb].
    2:{ apply r_rej_ipv6. unfold pwire_ipv6. now rewrite E40, E6. }
    assert (HF : ip_hdr_fault bs src pos lim = None).
    { unfold ip_hdr_fault. assert ((lim - pos =? 0) = false) as -> by lia.
      assert ((B bs pos / 16 =? 4) = false) as -> by lia. now rewrite E6, E40. }
    unfold lwire_ip. rewrite HF. apply r_ipv6_body. lia.
  Qed.

  (* starting at "an IP header" behind a decodable header (from_ip) *)
  Lemma r_ip :
    ip_hdr_fault bs src pos lim = None ->
    resumed_ok bs (pwire2_ip bs p src pos lim) (lwire_ip_body bs lp src pos lim).
  Proof.
    unfold ip_hdr_fault, pwire2_ip.
    destruct (lim - pos =? 0) eqn:E0; [discriminate|].
    destruct (B bs pos / 16 =? 4) eqn:E4.
    - destruct (B bs pos mod 16 <? 5) eqn:Ei; [discriminate|].
      destruct (lim - pos <? B bs pos mod 16 * 4) eqn:Eh; [discriminate|]. intros _.
      apply r_ipv4_body. lia.
    - destruct (B bs pos / 16 =? 6) eqn:E6; [|discriminate].
      destruct (lim - pos <? 40) eqn:E40; [discriminate|]. intros _.
      apply r_ipv6_body. lia.
  Qed.
End NetBody3.

(* ---- the link extension loop (lockstep of the strict and the lax reference decoder) ---------------- *)
Lemma r_net bs p lp et src pos lim :
  strictify lp = p -> lv_stop lp = None -> lv_net lp = None -> lv_transport lp = None ->
  resumed_ok bs (pwire2_net bs p et src pos lim)
    (if et =? 2054 then lwire_arp bs lp src pos lim
     else if (et =? 2048) || (et =? 34525) then lwire_ip bs lp src pos lim else lp).
Proof.
  intros Hs Hst Hn Htr. unfold pwire2_net.
  destruct (et =? 2054).
  { destruct (wire_arp bs p src pos lim) as [q'|e'|s] eqn:E; cbn [pres2_of resumed_ok].
    - now apply (a_arp bs p lp src pos lim).
    - intros _. apply (b_arp bs p lp src pos lim p e' Hs Hn). rewrite E. reflexivity.
    - exact (wire_arp_no_bug bs p src pos lim s E). }
  destruct (et =? 2048); [cbn [orb]; now apply r_ipv4|].
  destruct (et =? 34525); [cbn [orb]; now apply r_ipv6|].
  cbn [orb resumed_ok]. split; assumption.
Qed.

Lemma r_ether bs cap : forall p lp et src pos lim,
  strictify lp = p -> lv_stop lp = None -> lv_net lp = None -> lv_transport lp = None ->
  resumed_ok bs (pwire3_ether bs cap p et src pos lim) (lwire_ether bs cap lp et src pos lim).
Proof.
  induction cap as [|cap IH]; intros p lp et src pos lim Hs Hst Hn Htr; cbn [pwire3_ether lwire_ether].
  - destruct (is_vlan et); [cbn [resumed_ok]; split; assumption|].
    destruct (et =? 35045); [cbn [resumed_ok]; split; assumption|]. now apply r_net.
  - assert (Rec : forall e e0 tag, lax_same e e0 -> tag_ok e0 tag ->
              resumed_ok bs (P2Rej p e) (lstop lp (e0, tag))).
    { intros e e0 tag S T _. split; [rewrite strictify_lstop, Hs; apply vprefix_refl|].
      right. left. exists e0, tag. split; [reflexivity|]. split; assumption. }
    destruct (is_vlan et).
    { unfold lcut. destruct (lim - pos <? 4).
      { apply Rec; [|reflexivity]. cbn. repeat split; auto. }
      apply IH; auto. rewrite strictify_lwith_ext, Hs. reflexivity. }
    destruct (et =? 35045); [|now apply r_net].
    unfold lcut. destruct (lim - pos <? 6).
    { apply Rec; [|reflexivity]. cbn. repeat split; auto. }
    destruct (128 <=? B bs pos). { apply Rec; reflexivity. }
    set (sl := B bs (pos + 1) mod 64) in *.
    set (unmod := (B bs pos / 4) mod 4 =? 0) in *.
    destruct (unmod && (sl =? 1)). { apply Rec; reflexivity. }
    set (hl := 6 + (if unmod then 2 else 0) + (if negb ((B bs pos / 32) mod 2 =? 0) then 8 else 0)) in *.
    destruct (lim - pos <? hl).
    { apply Rec; [|reflexivity]. cbn. repeat split; auto. }
    set (body := if unmod then sl - 2 else sl) in *.
    cbv zeta.
    destruct ((0 <? sl) && (lim - pos <? hl + body)) eqn:Efb.
    { (* the short length promises more than is there: lax goes on to the end of the enclosing data *)
      assert ((0 <? sl) && negb (lim - pos <? hl + body) = false) as -> by
        (destruct (0 <? sl), (lim - pos <? hl + body); cbn in *; congruence).
      cbv iota. change (pick_src LsSlice src) with src.
      assert (Len : length (v_exts p) = length (lv_exts lp))
        by (rewrite <- Hs; unfold strictify; cbn [v_exts]; apply map_length).
      cbn [resumed_ok]. split; [cbn; auto|].
      destruct unmod.
      - set (x := LVMacsec (pos, hl)
                    (LVMpUnmodified (mkLVEp true (W bs (pos + hl - 2)) LsSlice (pos + hl, lim - (pos + hl))))).
        assert (Hx : strictify (lwith_ext lp x) =
                     with_ext p (VMacsec (pos, hl) (VMpUnmodified
                       (mkVEp (W bs (pos + hl - 2)) LsSlice (pos + hl, lim - (pos + hl))))))
          by (rewrite strictify_lwith_ext, Hs; reflexivity).
        split.
        { eapply vprefix_trans; [|apply M_ether; assumption].
          rewrite strictify_lwith_ext, Hs. apply vprefix_with_ext. }
        split.
        { cbn [fb_flagged le_layer].
          destruct (lx_ether bs cap (lwith_ext lp x) (W bs (pos + hl - 2)) src (pos + hl) lim) as (rest & Hr).
          eexists _, _. rewrite Hr. cbn [lwith_ext lv_exts]. rewrite <- app_assoc, Len.
          rewrite nth_error_app2 by apply Nat.le_refl. rewrite Nat.sub_diag. cbn [app nth_error].
          split; [reflexivity|]. split; [reflexivity|left; reflexivity]. }
        apply IH; auto.
      - set (x := LVMacsec (pos, hl) (LVMpModified true (pos + hl, lim - (pos + hl)))).
        split; [rewrite strictify_lwith_ext, Hs; apply vprefix_with_ext|].
        split.
        { cbn [fb_flagged le_layer]. eexists _, _. cbn [lwith_ext lv_exts]. rewrite Len.
          rewrite nth_error_app2 by apply Nat.le_refl. rewrite Nat.sub_diag. cbn [nth_error].
          split; [reflexivity|]. split; [reflexivity|right; reflexivity]. }
        cbn [resumed_ok]. split; [rewrite strictify_lwith_ext, Hs; reflexivity|exact Hst]. }
    assert (Esh : (0 <? sl) && negb (lim - pos <? hl + body) = (0 <? sl))
      by (destruct (0 <? sl), (lim - pos <? hl + body); cbn in *; congruence).
    rewrite Esh.
    destruct unmod.
    2:{ cbn [resumed_ok]. split; [rewrite strictify_lwith_ext, Hs; reflexivity|exact Hst]. }
    assert (Epick : pick_src (if 0 <? sl then LsMacsecShortLength else LsSlice) src
                    = (if 0 <? sl then LsMacsecShortLength else src))
      by (destruct (0 <? sl); reflexivity).
    rewrite Epick.
    apply IH; auto. rewrite strictify_lwith_ext, Hs. reflexivity.
Qed.

(* ---- (b) through the fallbacks, for the models: whole-packet entry points ---------------------------------- *)
Theorem lax_prefix_resumed_packet bs et :
  bytes_ok bs ->
  (14 <= len bs ->
   prefix_resumed_ok bs (SlicedPacket.from_ethernet bs) (pwire3_ethernet bs)
     (LaxSlicedPacket.from_ethernet bs)) /\
  prefix_resumed_ok bs (SlicedPacket.from_ether_type et bs) (pwire3_ether_type bs et)
    (LaxSlicedPacket.from_ether_type et bs) /\
  (ip_header_fault bs = None ->
   prefix_resumed_ok bs (SlicedPacket.from_ip bs) (pwire2_from_ip bs) (LaxSlicedPacket.from_ip bs)).
Proof.
  intros Hok. destruct (pwire3_sound bs et) as (S1 & S2).
  destruct (pwire2_sound bs et) as (_ & _ & S3). split; [|split].
  - intros H14 e E.
    pose proof (from_ethernet_rel bs Hok) as RR. rewrite E in RR. cbn [vres_of] in RR.
    destruct (strict_err_pwire2 e _ _ RR S1) as (e_ref & PW & RE).
    pose proof (lax_from_ethernet_eq bs Hok) as Q. unfold lwire_ethernet, n_bs in Q.
    assert (E14 : (len bs <? 14) = false) by lia. rewrite E14 in Q.
    destruct (LaxSlicedPacket.from_ethernet bs) as [r'|e'|b]; cbn [lvres_of] in Q; try discriminate.
    apply lvok_inj' in Q. exists e_ref, r'. split; [exact PW|]. split; [exact RE|]. split; [reflexivity|].
    rewrite Q. unfold pwire3_ethernet, n_bs. rewrite E14. apply r_ether; reflexivity.
  - intros e E.
    pose proof (from_ether_type_rel bs et Hok) as RR. rewrite E in RR. cbn [vres_of] in RR.
    destruct (strict_err_pwire2 e _ _ RR S2) as (e_ref & PW & RE).
    pose proof (lax_from_ether_type_eq bs et Hok) as Q. unfold lwire_ether_type, n_bs in Q.
    destruct (LaxSlicedPacket.from_ether_type et bs) as [r'|e'|b]; cbn [lvres_of] in Q; try discriminate.
    apply lvok_inj' in Q. exists e_ref, r'. split; [exact PW|]. split; [exact RE|]. split; [reflexivity|].
    rewrite Q. unfold pwire3_ether_type, n_bs. apply r_ether; reflexivity.
  - intros HF e E. rewrite <- ip_hdr_fault_whole in HF.
    pose proof (from_ip_rel bs Hok) as RR. rewrite E in RR. cbn [vres_of] in RR.
    destruct (strict_err_pwire2 e _ _ RR S3) as (e_ref & PW & RE).
    pose proof (lax_from_ip_eq bs Hok) as Q. unfold lwire_from_ip, n_bs in Q. rewrite HF in Q.
    destruct (LaxSlicedPacket.from_ip bs) as [r'|e'|b]; cbn [lvres_of] in Q; try discriminate.
    apply lvok_inj' in Q. exists e_ref, r'. split; [exact PW|]. split; [exact RE|]. split; [reflexivity|].
    rewrite Q. unfold pwire2_from_ip, n_bs.
    apply (r_ip bs empty_packet lempty_packet LsSlice 0 (len bs)); try reflexivity. exact HF.
Qed.
