(* Parse/WireDesc.v -- facts ABOUT the accepted views of the reference decoder
   (Parse/WireSpec.v): the IP payload descriptor of an accepted view.

   `desc bs v`: for the network layer of the view
     - IPv4: the payload's protocol number is the protocol octet of the header (offset 9),
       or, with an authentication header behind the IPv4 header, the next-header octet of
       that header; the payload is flagged fragmented iff MF is set or the fragment
       offset is not 0;
     - IPv6: walking the extension window [start, end) of the view from the IPv6 header's
       next-header octet (`chain_end`: 0 / 43 / 60 -> (len+1) * 8 octets, 44 -> 8 octets,
       51 -> (len+2) * 4 octets, each naming the kind of the next) ends with the payload's
       protocol number; the payload is flagged fragmented iff one of the fragment headers
       on the way has M set or a fragment offset other than 0; the flag stored with the
       extension window is the same; the length source of the payload is `Slice` exactly
       when the payload length field is 0 and there are octets behind the 40 byte header.
   Audit rounds 1 + 2 (C03): the descriptors were compared (theorems C03_from_X) but no theorem said
   what they are in terms of the octets. *)
From EP Require Import Base.Bytes Parse.Types Parse.View Parse.WireSpec Parse.WireSpecFacts
  Parse.WireNested.
From Coq Require Import ZArith Lia ZifyN ZifyBool.

Local Open Scope N_scope.

Section Desc.
  Variable bs : bytes.
  Local Notation B := (B bs).
  Local Notation W := (W bs).

  (* RFC 8200 4.5: M flag = lowest bit of octet 3, fragment offset = upper 13 bits of the
     word at 2 *)
  Definition frag_hdr_fragments (pos : N) : bool :=
    negb (B (pos + 3) mod 2 =? 0) || negb (W (pos + 2) / 8 =? 0).

  (* protocol number behind the extension headers in [pos, lim) and "some fragment header
     fragments the payload" *)
  Fixpoint chain_end (fuel : nat) (nh pos lim : N) (fr : bool) : N * bool :=
    match fuel with
    | O => (nh, fr)
    | S f =>
        if lim <=? pos then (nh, fr)
        else if (nh =? 0) || (nh =? 43) || (nh =? 60) then
          chain_end f (B pos) (pos + (B (pos + 1) + 1) * 8) lim fr
        else if nh =? 44 then
          chain_end f (B pos) (pos + 8) lim (fr || frag_hdr_fragments pos)
        else if nh =? 51 then
          chain_end f (B pos) (pos + (B (pos + 1) + 2) * 4) lim fr
        else (nh, fr)
    end.

  Definition net_desc (nn : vnet) : Prop :=
    match nn with
    | VArp _ => True
    | VIpv4 h auth p =>
        vip_number p = match auth with Some a => B (fst a) | None => B (fst h + 9) end /\
        vip_frag p = ipv4_fragmented bs (fst h)
    | VIpv6 h first frag x p =>
        let pos := fst h in
        chain_end (S (N.to_nat (snd x))) (B (pos + 6)) (fst x) (fst x + snd x) false
          = (vip_number p, vip_frag p) /\
        frag = vip_frag p /\
        vip_src p = (if (W (pos + 4) =? 0) && (0 <? snd x + snd (vip_win p))
                     then LsSlice else LsIpv6HeaderPayloadLen)
    end.

  Definition desc (v : vpacket) : Prop :=
    match v_net v with None => True | Some nn => net_desc nn end.

  (* ---- proofs ---------------------------------------------------------------------- *)
  (* the decoder either leaves the network layer of p alone or sets a described one *)
  Definition netd (p v : vpacket) : Prop :=
    v_net v = v_net p \/ exists nn, v_net v = Some nn /\ net_desc nn.

  Lemma wire_transport_net p ipn frag src pos lim v :
    wire_transport bs p ipn frag src pos lim = VOk v -> v_net v = v_net p.
  Proof.
    unfold wire_transport. destruct frag. { intros H. now injection H as <-. }
    destruct (ipn =? 1).
    { unfold wire_icmp4. cbv zeta. destruct (lim - pos <? 8); [discriminate|].
      destruct ((B pos =? 13) && (B (pos + 1) =? 0) && negb (lim - pos =? 20)); [discriminate|].
      destruct ((B pos =? 14) && (B (pos + 1) =? 0) && negb (lim - pos =? 20)); [discriminate|].
      intros H. now injection H as <-. }
    destruct (ipn =? 17).
    { unfold wire_udp. cbv zeta. destruct (lim - pos <? 8); [discriminate|].
      destruct (lim - pos <? W (pos + 4)); [discriminate|].
      destruct (W (pos + 4) =? 0). { intros H. now injection H as <-. }
      destruct (W (pos + 4) <? 8); [discriminate|]. intros H. now injection H as <-. }
    destruct (ipn =? 6).
    { unfold wire_tcp. cbv zeta. destruct (lim - pos <? 20); [discriminate|].
      destruct (B (pos + 12) / 16 <? 5); [discriminate|].
      destruct (lim - pos <? B (pos + 12) / 16 * 4); [discriminate|]. intros H. now injection H as <-. }
    destruct (ipn =? 58).
    { unfold wire_icmp6. cbv zeta. destruct (lim - pos <? 8); [discriminate|].
      destruct (4294967295 <? lim - pos); [discriminate|]. intros H. now injection H as <-. }
    intros H. now injection H as <-.
  Qed.

  Lemma netd_transport p nn ipn frag src pos lim v :
    wire_transport bs (with_net p nn) ipn frag src pos lim = VOk v -> net_desc nn -> netd p v.
  Proof.
    intros H D. apply wire_transport_net in H. right. exists nn. split; [exact H|exact D].
  Qed.

  Lemma wire_ah_next zero src pos lim l next :
    wire_ah bs zero src pos lim = AhOk l next -> next = B pos.
  Proof.
    unfold wire_ah. cbv zeta.
    destruct (lim - pos <? 12); [discriminate|]. destruct (B (pos + 1) =? 0); [discriminate|].
    destruct (lim - pos <? (B (pos + 1) + 2) * 4); [discriminate|]. intros H. now injection H as _ <-.
  Qed.

  Lemma wire_ipv4_body_desc p src pos lim hl v :
    wire_ipv4_body bs p src pos lim hl = VOk v -> netd p v.
  Proof.
    unfold wire_ipv4_body. cbv zeta.
    destruct (W (pos + 2) <? hl); [discriminate|].
    destruct (lim - pos <? W (pos + 2)); [discriminate|].
    unfold wire_ipv4_tail. cbv zeta.
    destruct (B (pos + 9) =? 51).
    - destruct (wire_ah bs CeAuthZeroPayloadLen LsIpv4HeaderTotalLen (pos + hl) (pos + W (pos + 2)))
        as [ahl next|r] eqn:Ea; [|intros ->; exfalso; exact (wire_ah_err _ _ _ _ _ _ Ea v eq_refl)].
      pose proof (wire_ah_next _ _ _ _ _ _ Ea) as ->.
      intros Hw. apply (netd_transport _ _ _ _ _ _ _ _ Hw). cbn [net_desc vip_number vip_frag fst].
      split; reflexivity.
    - intros Hw. apply (netd_transport _ _ _ _ _ _ _ _ Hw). cbn [net_desc vip_number vip_frag fst].
      split; reflexivity.
  Qed.

  Lemma wire_ipv4_desc p src pos lim v : wire_ipv4 bs p src pos lim = VOk v -> netd p v.
  Proof.
    unfold wire_ipv4. cbv zeta.
    destruct (lim - pos <? 20); [discriminate|]. destruct (negb (B pos / 16 =? 4)); [discriminate|].
    destruct (B pos mod 16 <? 5); [discriminate|]. destruct (lim - pos <? B pos mod 16 * 4); [discriminate|].
    apply wire_ipv4_body_desc.
  Qed.

  (* the chain of the decoder ends where the window walk ends *)
  Lemma wire_chain_end : forall fuel src pos lim nh frag e next fr,
    pos <= lim -> wire_chain bs fuel src pos lim nh frag = ChOk e next fr ->
    forall fuel2, (N.to_nat (e - pos) < fuel2)%nat -> chain_end fuel2 nh pos e frag = (next, fr).
  Proof.
    induction fuel as [|f IH]; intros src pos lim nh frag e next fr Hle; cbn [wire_chain]; cbv zeta;
      [discriminate|].
    destruct (nh =? 0) eqn:N0; [discriminate|].
    destruct ((nh =? 60) || (nh =? 43)) eqn:Nr.
    { destruct (lim - pos <? 8) eqn:E1; [discriminate|].
      destruct (lim - pos <? (B (pos + 1) + 1) * 8) eqn:E2; [discriminate|].
      intros H fuel2 Hf.
      assert (Hle' : pos + (B (pos + 1) + 1) * 8 <= lim) by lia.
      destruct (wire_chain_bounds _ _ _ _ _ _ _ _ _ _ Hle' H) as (Hb1 & Hb2).
      destruct fuel2 as [|f2]; [lia|]. cbn [chain_end].
      destruct (e <=? pos) eqn:C; [lia|].
      assert (T : (nh =? 0) || (nh =? 43) || (nh =? 60) = true) by (rewrite N0; cbn [orb]; now rewrite orb_comm).
      rewrite T. apply (IH _ _ _ _ _ _ _ _ Hle' H). lia. }
    destruct (nh =? 44) eqn:N44.
    { destruct (lim - pos <? 8) eqn:E1; [discriminate|].
      intros H fuel2 Hf.
      assert (Hle' : pos + 8 <= lim) by lia.
      destruct (wire_chain_bounds _ _ _ _ _ _ _ _ _ _ Hle' H) as (Hb1 & Hb2).
      destruct fuel2 as [|f2]; [lia|]. cbn [chain_end].
      destruct (e <=? pos) eqn:C; [lia|].
      assert (T : (nh =? 0) || (nh =? 43) || (nh =? 60) = false).
      { rewrite N0. apply orb_false_elim in Nr. destruct Nr as (-> & ->). reflexivity. }
      rewrite T, N44. apply (IH _ _ _ _ _ _ _ _ Hle' H). lia. }
    destruct (nh =? 51) eqn:N51.
    { destruct (wire_ah bs CeIpv6AuthZeroPayloadLen src pos lim) as [l nx|r] eqn:Ea; [|discriminate].
      destruct (wire_ah_ok _ _ _ _ _ _ _ Ea) as (Hl & Hl2 & Hl3).
      pose proof (wire_ah_next _ _ _ _ _ _ Ea) as ->.
      intros H fuel2 Hf.
      assert (Hle' : pos + l <= lim) by lia.
      destruct (wire_chain_bounds _ _ _ _ _ _ _ _ _ _ Hle' H) as (Hb1 & Hb2).
      destruct fuel2 as [|f2]; [lia|]. cbn [chain_end].
      destruct (e <=? pos) eqn:C; [lia|].
      assert (T : (nh =? 0) || (nh =? 43) || (nh =? 60) = false).
      { rewrite N0. apply orb_false_elim in Nr. destruct Nr as (-> & ->). reflexivity. }
      rewrite T, N44, N51, <- Hl. apply (IH _ _ _ _ _ _ _ _ Hle' H). lia. }
    intros H fuel2 Hf. injection H as <- <- <-.
    destruct fuel2 as [|f2]; [lia|]. cbn [chain_end].
    destruct (pos <=? pos) eqn:C; [reflexivity|lia].
  Qed.

  Lemma wire_exts_end fuel src pos lim nh e next fr :
    pos <= lim -> wire_exts bs fuel src pos lim nh = ChOk e next fr ->
    forall fuel2, (N.to_nat (e - pos) < fuel2)%nat -> chain_end fuel2 nh pos e false = (next, fr).
  Proof.
    intros Hle. unfold wire_exts. cbv zeta.
    destruct (nh =? 0) eqn:N0; [|now apply wire_chain_end].
    destruct (lim - pos <? 8) eqn:E1; [discriminate|].
    destruct (lim - pos <? (B (pos + 1) + 1) * 8) eqn:E2; [discriminate|].
    intros H fuel2 Hf.
    assert (Hle' : pos + (B (pos + 1) + 1) * 8 <= lim) by lia.
    destruct (wire_chain_bounds _ _ _ _ _ _ _ _ _ _ Hle' H) as (Hb1 & Hb2).
    destruct fuel2 as [|f2]; [lia|]. cbn [chain_end].
    destruct (e <=? pos) eqn:C; [lia|]. rewrite N0. cbn [orb].
    apply (wire_chain_end _ _ _ _ _ _ _ _ _ Hle' H). lia.
  Qed.

  Lemma wire_ipv6_tail_desc p esrc psrc pos lim' v :
    pos + 40 <= lim' ->
    psrc = (if (W (pos + 4) =? 0) && (0 <? lim' - (pos + 40)) then LsSlice else LsIpv6HeaderPayloadLen) ->
    wire_ipv6_tail bs p esrc psrc pos lim' = VOk v -> netd p v.
  Proof.
    intros H40 Hsrc. unfold wire_ipv6_tail.
    destruct (wire_exts bs _ esrc (pos + 40) lim' (B (pos + 6))) as [e next frag|r] eqn:Ec;
      [|intros ->; exfalso; exact (wire_exts_err _ _ _ _ _ _ _ Ec v eq_refl)].
    destruct (wire_exts_bounds _ _ _ _ _ _ _ _ _ H40 Ec) as (He1 & He2).
    intros Hw. apply (netd_transport _ _ _ _ _ _ _ _ Hw).
    cbn [net_desc vip_number vip_frag vip_src vip_win fst snd]. cbv zeta.
    split; [|split; [reflexivity|]].
    - replace (pos + 40 + (e - (pos + 40))) with e by lia.
      apply (wire_exts_end _ _ _ _ _ _ _ _ H40 Ec). lia.
    - rewrite Hsrc. replace (e - (pos + 40) + (lim' - e)) with (lim' - (pos + 40)) by lia. reflexivity.
  Qed.

  Lemma wire_ipv6_body_desc p src pos lim v :
    40 <= lim - pos -> wire_ipv6_body bs p src pos lim = VOk v -> netd p v.
  Proof.
    intros H40. unfold wire_ipv6_body. cbv zeta.
    destruct ((W (pos + 4) =? 0) && (40 <? lim - pos)) eqn:E1.
    - apply wire_ipv6_tail_desc; [lia|].
      apply andb_prop in E1. destruct E1 as (E1 & E2). rewrite E1. cbn [andb].
      destruct (0 <? lim - (pos + 40)) eqn:C; [reflexivity|lia].
    - destruct (lim - pos <? 40 + W (pos + 4)) eqn:E2; [discriminate|].
      apply wire_ipv6_tail_desc; [lia|].
      destruct (W (pos + 4) =? 0) eqn:E3; [|reflexivity]. cbn [andb] in *.
      destruct (0 <? pos + 40 + W (pos + 4) - (pos + 40)) eqn:C; [lia|reflexivity].
  Qed.

  Lemma wire_ipv6_desc p src pos lim v : wire_ipv6 bs p src pos lim = VOk v -> netd p v.
  Proof.
    unfold wire_ipv6. cbv zeta. destruct (lim - pos <? 40) eqn:E1; [discriminate|].
    destruct (negb (B pos / 16 =? 6)); [discriminate|]. apply wire_ipv6_body_desc. lia.
  Qed.

  Lemma wire_ip_desc p src pos lim v : wire_ip bs p src pos lim = VOk v -> netd p v.
  Proof.
    unfold wire_ip. cbv zeta. destruct (lim - pos =? 0); [discriminate|].
    destruct (B pos / 16 =? 4).
    { destruct (B pos mod 16 <? 5); [discriminate|].
      destruct (lim - pos <? B pos mod 16 * 4); [discriminate|]. apply wire_ipv4_body_desc. }
    destruct (B pos / 16 =? 6); [|discriminate].
    destruct (lim - pos <? 40) eqn:E1; [discriminate|]. apply wire_ipv6_body_desc. lia.
  Qed.

  Lemma wire_net_desc p et src pos lim v : wire_net bs p et src pos lim = VOk v -> netd p v.
  Proof.
    unfold wire_net. destruct (et =? 2054).
    { unfold wire_arp. cbv zeta. destruct (lim - pos <? 8); [discriminate|].
      destruct (lim - pos <? 8 + B (pos + 4) * 2 + B (pos + 5) * 2); [discriminate|].
      intros H. injection H as <-. right. eexists. split; [reflexivity|exact I]. }
    destruct (et =? 2048); [apply wire_ipv4_desc|].
    destruct (et =? 34525); [apply wire_ipv6_desc|].
    intros H. injection H as <-. now left.
  Qed.

  Lemma netd_ext p x v : netd (with_ext p x) v -> netd p v.
  Proof. exact (fun H => H). Qed.

  Lemma wire_ether_desc : forall cap p et src pos lim v,
    wire_ether bs cap p et src pos lim = VOk v -> netd p v.
  Proof.
    induction cap as [|c IH]; intros p et src pos lim v; cbn [wire_ether]; cbv zeta.
    { destruct (is_vlan et). { intros H. injection H as <-. now left. }
      destruct (et =? 35045). { intros H. injection H as <-. now left. }
      apply wire_net_desc. }
    destruct (is_vlan et).
    { destruct (lim - pos <? 4); [discriminate|]. intros H. apply IH in H. exact H. }
    destruct (et =? 35045); [|apply wire_net_desc].
    destruct (lim - pos <? 6); [discriminate|].
    destruct (128 <=? B pos); [discriminate|].
    destruct (((B pos / 4) mod 4 =? 0) && (B (pos + 1) mod 64 =? 1)); [discriminate|].
    match goal with |- context [if lim - pos <? ?hl then _ else _] => destruct (lim - pos <? hl); [discriminate|] end.
    match goal with |- context [if ?c then cut _ _ _ _ _ else _] => destruct c; [discriminate|] end.
    destruct ((B pos / 4) mod 4 =? 0).
    - intros H. apply IH in H. exact H.
    - intros H. injection H as <-. now left.
  Qed.

  Theorem wire_ethernet_desc v : wire_ethernet bs = VOk v -> desc v.
  Proof.
    unfold wire_ethernet. destruct (n_bs bs <? 14); [discriminate|].
    intros H. apply wire_ether_desc in H. unfold desc.
    destruct H as [H|(nn & H & D)]; rewrite H; [exact I|exact D].
  Qed.

  Theorem wire_linux_sll_desc v : wire_linux_sll bs = VOk v -> desc v.
  Proof.
    unfold wire_linux_sll. cbv zeta. destruct (n_bs bs <? 16); [discriminate|].
    destruct (7 <? W 0); [discriminate|]. destruct (negb (sll_hw_supported (W 2))); [discriminate|].
    destruct ((W 2 =? 1) && negb (sll_nonstandard (W 14))).
    - intros H. apply wire_ether_desc in H. unfold desc.
      destruct H as [H|(nn & H & D)]; rewrite H; [exact I|exact D].
    - intros H. injection H as <-. exact I.
  Qed.

  Theorem wire_ether_type_desc et v : wire_ether_type bs et = VOk v -> desc v.
  Proof.
    unfold wire_ether_type. intros H. apply wire_ether_desc in H. unfold desc.
    destruct H as [H|(nn & H & D)]; rewrite H; [exact I|exact D].
  Qed.

  Theorem wire_from_ip_desc v : wire_from_ip bs = VOk v -> desc v.
  Proof.
    unfold wire_from_ip. intros H. apply wire_ip_desc in H. unfold desc.
    destruct H as [H|(nn & H & D)]; rewrite H; [exact I|exact D].
  Qed.
End Desc.

Theorem wire_desc bs et v :
  (wire_ethernet bs = VOk v -> desc bs v) /\
  (wire_linux_sll bs = VOk v -> desc bs v) /\
  (wire_ether_type bs et = VOk v -> desc bs v) /\
  (wire_from_ip bs = VOk v -> desc bs v).
Proof.
  split; [|split; [|split]];
    [apply wire_ethernet_desc|apply wire_linux_sll_desc|apply wire_ether_type_desc|apply wire_from_ip_desc].
Qed.
