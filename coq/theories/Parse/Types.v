(* Parse/Types.v -- vocabulary of the packet parsing models: slices as
   (pointer offset, contents), windows, length sources, layers, errors, and the
   result monad with an explicit "must be unreachable" outcome. *)
From EP Require Import Base.Bytes.

(* ---- Rust slices ------------------------------------------------------- *)
(* A `&[u8]` is modelled as the offset of its first byte from the start of the
   buffer the caller passed in (its pointer) plus its contents.  Sub-slicing
   adds to the pointer; `offset_from` is the difference of two pointers. *)
Definition slice := (N * bytes)%type.
Definition s_off (s : slice) : N := fst s.
Definition s_bytes (s : slice) : bytes := snd s.
Definition s_len (s : slice) : N := len (snd s).
Definition mk_slice (bs : bytes) : slice := (0, bs).

(* a window of the caller's buffer: what C01/C03/C07 observe *)
Definition window := (N * N)%type.  (* offset, length *)
Definition win_of (s : slice) : window := (s_off s, s_len s).

(* ---- enums of the crate (tags = what harness and runner print) --------- *)
Inductive len_source :=
| LsSlice | LsIpv4HeaderTotalLen | LsIpv6HeaderPayloadLen | LsUdpHeaderLen
| LsTcpHeaderLen | LsArpAddrLengths | LsMacsecShortLength.

Inductive layer :=
| LyLinuxSllHeader | LyEthernet2Header | LyEtherPayload | LyVlanHeader
| LyMacsecHeader | LyMacsecPacket | LyIpHeader | LyIpv4Header | LyIpv4Packet
| LyIpAuthHeader | LyIpv6Header | LyIpv6Packet | LyIpv6ExtHeader
| LyIpv6HopByHopHeader | LyIpv6DestOptionsHeader | LyIpv6RouteHeader
| LyIpv6FragHeader | LyUdpHeader | LyUdpPayload | LyTcpHeader | LyIcmpv4
| LyIcmpv4Timestamp | LyIcmpv4TimestampReply | LyIcmpv6 | LyArp.

Record len_error := mkLenError {
  le_required : N;
  le_len : N;
  le_src : len_source;
  le_layer : layer;
  le_off : N;
}.

Definition le_add_offset (e : len_error) (o : N) : len_error :=
  mkLenError (le_required e) (le_len e) (le_src e) (le_layer e) (le_off e + o).

Definition le_set_src (e : len_error) (s : len_source) : len_error :=
  mkLenError (le_required e) (le_len e) s (le_layer e) (le_off e).

(* content errors: the variant of err::packet::SliceError (and friends) plus the
   offending value it carries *)
Inductive content_error :=
| CeLinuxSllPacketType (v : N)         (* UnsupportedPacketTypeField *)
| CeLinuxSllArpHardwareId (v : N)      (* UnsupportedArpHardwareId *)
| CeMacsecVersion                      (* UnexpectedVersion *)
| CeMacsecUnmodifiedShortLen           (* InvalidUnmodifiedShortLen *)
| CeIpUnsupportedVersion (v : N)       (* ip::HeaderError::UnsupportedIpVersion *)
| CeIpIhl (v : N)                      (* ip::HeaderError::Ipv4HeaderLengthSmallerThanHeader *)
| CeIpv4Version (v : N)                (* ipv4::HeaderError::UnexpectedVersion *)
| CeIpv4Ihl (v : N)                    (* ipv4::HeaderError::HeaderLengthSmallerThanHeader *)
| CeIpv6Version (v : N)                (* ipv6::HeaderError::UnexpectedVersion *)
| CeAuthZeroPayloadLen                 (* SliceError::Ipv4Exts(ip_auth::HeaderError::ZeroPayloadLen) *)
| CeIpv6AuthZeroPayloadLen             (* SliceError::Ipv6Exts(IpAuth(ZeroPayloadLen)) *)
| CeHopByHopNotAtStart                 (* ipv6_exts::HeaderError::HopByHopNotAtStart *)
| CeTcpDataOffset (v : N).             (* tcp::HeaderError::DataOffsetTooSmall *)

Inductive slice_error :=
| ELen (e : len_error)
| EContent (c : content_error).

(* ---- result monad ------------------------------------------------------ *)
(* Bug = an out-of-bounds unchecked read / from_raw_parts, a failing unwrap,
   an unreachable_unchecked, a usize underflow, or fuel exhaustion.  The
   theorems of C01/C02 state that no entry point ever returns Bug. *)
Inductive res (A : Type) :=
| Ok (a : A)
| Err (e : slice_error)
| Bug (site : N).
Arguments Ok {A} a.
Arguments Err {A} e.
Arguments Bug {A} site.

Definition bind {A B} (r : res A) (f : A -> res B) : res B :=
  match r with
  | Ok a => f a
  | Err e => Err e
  | Bug s => Bug s
  end.

Notation "'let*' x ':=' c1 'in' c2" := (bind c1 (fun x => c2))
  (at level 61, x pattern, c1 at next level, right associativity).

Definition map_len_err {A} (f : len_error -> len_error) (r : res A) : res A :=
  match r with
  | Err (ELen e) => Err (ELen (f e))
  | _ => r
  end.

(* site numbers of the unchecked primitives *)
Definition SITE_RD : N := 1.       (* get_unchecked / *ptr.add(i) *)
Definition SITE_SUB : N := 2.      (* from_raw_parts *)
Definition SITE_SUBTRACT : N := 3. (* usize subtraction *)
Definition SITE_FUEL : N := 4.     (* loop bound of the model exhausted *)
Definition SITE_UNWRAP : N := 5.   (* unwrap / expect / unwrap_unchecked *)
Definition SITE_PUSH : N := 6.     (* ArrayVec::push_unchecked on a full vector *)
Definition SITE_INDEX : N := 7.    (* checked indexing slice[i] / slice[a..b] that would panic *)

(* *slice.get_unchecked(i) *)
Definition rdU (s : slice) (i : N) : res N :=
  match rd (snd s) i with
  | Some v => Ok v
  | None => Bug SITE_RD
  end.

(* core::slice::from_raw_parts(s.as_ptr().add(k), n) *)
Definition subU (s : slice) (k n : N) : res slice :=
  if k + n <=? s_len s then Ok (fst s + k, take n (drop k (snd s)))
  else Bug SITE_SUB.

(* a - b on usize *)
Definition subN (a b : N) : res N :=
  if b <=? a then Ok (a - b) else Bug SITE_SUBTRACT.

(* get_unchecked_be_u16(ptr.add(i)) *)
Definition rd16 (s : slice) (i : N) : res N :=
  let* a := rdU s i in
  let* b := rdU s (i + 1) in
  Ok (be16 a b).

Definition rd32 (s : slice) (i : N) : res N :=
  let* a := rdU s i in
  let* b := rdU s (i + 1) in
  let* c := rdU s (i + 2) in
  let* d := rdU s (i + 3) in
  Ok (be32 a b c d).

(* ---- protocol numbers used for dispatch (RFC values; Gen/Consts.v carries
   the values extracted from the source and Proofs/ConstsOk.v proves them equal) *)
Definition ET_IPV4 : N := 2048.        (* 0x0800 *)
Definition ET_ARP : N := 2054.         (* 0x0806 *)
Definition ET_VLAN : N := 33024.       (* 0x8100 *)
Definition ET_IPV6 : N := 34525.       (* 0x86dd *)
Definition ET_QINQ : N := 34984.       (* 0x88a8 provider bridging *)
Definition ET_MACSEC : N := 35045.     (* 0x88e5 *)
Definition ET_VLAN_DOUBLE : N := 37120. (* 0x9100 *)

Definition IPN_HOP_BY_HOP : N := 0.
Definition IPN_ICMP : N := 1.
Definition IPN_TCP : N := 6.
Definition IPN_UDP : N := 17.
Definition IPN_ROUTE : N := 43.
Definition IPN_FRAG : N := 44.
Definition IPN_AUTH : N := 51.
Definition IPN_ICMPV6 : N := 58.
Definition IPN_DEST_OPTIONS : N := 60.
