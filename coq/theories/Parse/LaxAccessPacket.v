(* Parse/LaxAccessPacket.v -- parts B-E of the lax accessor proofs (see the header of
   Parse/LaxAccessProofs.v): provenance of every component of a LaxSlicedPacket,
   accessor / window safety from provenance, packet-level accessors, summary theorems. *)
From EP Require Import Base.Bytes Parse.Types Parse.Slices Parse.Cursor Parse.Repr
  Parse.LaxSlices Parse.LaxCursor Parse.Access Parse.AccessProofs Parse.LaxAccess Parse.LaxAccessProofs.
From Coq Require Import ZArith Lia ZifyN ZifyBool.
Import LaxSlicedPacketCursor.

Local Open Scope N_scope.

(* ================================================================================= *)
(* B. whole packets: every stored component was produced by its constructor            *)
(* ================================================================================= *)
Definition lax_ext_prov (bs : bytes) (x : lax_link_ext_slice) : Prop :=
  match x with
  | LLeVlan s => exists src, in_buf bs src /\ SingleVlanSlice.from_slice src = Ok s
  | LLeMacsec m => exists src, in_buf bs src /\ LaxMacsecSlice.from_slice src = Ok m
  end.
Definition lax_net_prov (bs : bytes) (n : lax_net_slice) : Prop :=
  match n with
  | LNtIpv4 v => exists src stop, in_buf bs src /\ LaxIpSlice.from_slice src = Ok (LIpV4 v, stop)
  | LNtIpv6 v => exists src stop, in_buf bs src /\ LaxIpSlice.from_slice src = Ok (LIpV6 v, stop)
  | LNtArp a => exists src, in_buf bs src /\ ArpPacketSlice.from_slice src = Ok a
  end.
Definition lax_transport_prov (bs : bytes) (t : transport_slice) : Prop :=
  match t with
  | TrUdp s => exists src, in_buf bs src /\ UdpSlice.from_slice_lax src = Ok s
  | TrTcp hl s => exists src, in_buf bs src /\ TcpSlice.from_slice src = Ok (hl, s)
  | TrIcmpv4 s => exists src, in_buf bs src /\ Icmpv4Slice.from_slice src = Ok s
  | TrIcmpv6 s => exists src, in_buf bs src /\ Icmpv6Slice.from_slice src = Ok s
  end.

(* provenance of every component + the ArrayVec capacity of link_exts *)
Definition lax_sliced_wf (bs : bytes) (p : lax_sliced_packet) : Prop :=
  optP (link_prov bs) (lsp_link p) /\ Forall (lax_ext_prov bs) (lsp_exts p) /\
  optP (lax_net_prov bs) (lsp_net p) /\ optP (lax_transport_prov bs) (lsp_transport p) /\
  len (lsp_exts p) <= LINK_EXTS_CAP.

Section LaxLift.
  Variable bs : bytes.

  Lemma lax_with_stop_wf r e : lax_sliced_wf bs r -> lax_sliced_wf bs (with_stop r e).
  Proof. intros (A & B & C & D & E). unfold lax_sliced_wf, with_stop. cbn. auto. Qed.

  Lemma lax_with_opt_stop_wf r e : lax_sliced_wf bs r -> lax_sliced_wf bs (with_opt_stop r e).
  Proof. intros W. destruct e; cbn [with_opt_stop]; [now apply lax_with_stop_wf|exact W]. Qed.

  Lemma lax_with_net_wf r n : lax_sliced_wf bs r -> lax_net_prov bs n -> lax_sliced_wf bs (with_net r n).
  Proof. intros (A & B & C & D & E) T. unfold lax_sliced_wf, with_net. cbn. auto. Qed.

  Lemma lax_with_transport_wf r t :
    lax_sliced_wf bs r -> lax_transport_prov bs t -> lax_sliced_wf bs (with_transport r t).
  Proof. intros (A & B & C & D & E) T. unfold lax_sliced_wf, with_transport. cbn. auto. Qed.

  Lemma lax_with_link_wf r l : lax_sliced_wf bs r -> link_prov bs l -> lax_sliced_wf bs (with_link r l).
  Proof. intros (A & B & C & D & E) T. unfold lax_sliced_wf, with_link. cbn. auto. Qed.

  Lemma lax_push_ext_wf r x r' :
    lax_sliced_wf bs r -> lax_ext_prov bs x -> push_ext r x = Ok r' -> lax_sliced_wf bs r'.
  Proof.
    intros (A & B & C & D & E) T. unfold push_ext.
    destruct (len (lsp_exts r) <? LINK_EXTS_CAP) eqn:L; [|discriminate].
    intros X. injection X as <-. unfold lax_sliced_wf. cbn. repeat split; auto.
    - apply Forall_app. split; [exact B|]. constructor; [exact T|constructor].
    - rewrite len_app. change (len [x]) with 1. unfold LINK_EXTS_CAP in *. lia.
  Qed.

  Lemma lax_empty_wf : lax_sliced_wf bs empty.
  Proof. unfold lax_sliced_wf, empty, LINK_EXTS_CAP. cbn. repeat split; auto. lia. Qed.

  Lemma lax_slice_transport_wf c p r :
    lax_sliced_wf bs (lc_result c) -> in_buf bs (lipp_slice p) ->
    slice_transport c p = Ok r -> lax_sliced_wf bs r.
  Proof.
    intros W I. unfold slice_transport.
    destruct (lipp_fragmented p || has_stop (lc_result c)); [intros X; injection X as <-; exact W|].
    destruct (lipp_number p =? IPN_ICMP).
    { destruct (Icmpv4Slice.from_slice (lipp_slice p)) as [t|[e|ce]|b] eqn:Et; intros H; try discriminate;
        injection H as <-; [|now apply lax_with_stop_wf].
      apply lax_with_transport_wf; [exact W|]. cbn. eauto. }
    destruct (lipp_number p =? IPN_UDP).
    { destruct (UdpSlice.from_slice_lax (lipp_slice p)) as [t|[e|ce]|b] eqn:Et; intros H; try discriminate;
        injection H as <-; [|now apply lax_with_stop_wf].
      apply lax_with_transport_wf; [exact W|]. cbn. eauto. }
    destruct (lipp_number p =? IPN_TCP).
    { destruct (TcpSlice.from_slice (lipp_slice p)) as [t|[e|ce]|b] eqn:Et; intros H; try discriminate;
        injection H as <-; try (now apply lax_with_stop_wf).
      apply lax_with_transport_wf; [exact W|]. destruct t as (hl, t). cbn. eauto. }
    destruct (lipp_number p =? IPN_ICMPV6).
    { destruct (Icmpv6Slice.from_slice (lipp_slice p)) as [t|[e|ce]|b] eqn:Et; intros H; try discriminate;
        injection H as <-; [|now apply lax_with_stop_wf].
      apply lax_with_transport_wf; [exact W|]. cbn. eauto. }
    intros X. injection X as <-. exact W.
  Qed.

  Lemma lax_ip_payload_in_buf s i stop :
    in_buf bs s -> LaxIpSlice.from_slice s = Ok (i, stop) -> in_buf bs (lipp_slice (LaxIpSlice.payload i)).
  Proof.
    intros I E. apply lax_ip_wf in E. destruct i as [v|v]; cbn [lax_ip_good LaxIpSlice.payload] in *.
    - destruct E as (_ & _ & _ & S). eapply sub_of_in_buf; [exact I|exact S].
    - destruct E as (_ & _ & _ & S). eapply sub_of_in_buf; [exact I|exact S].
  Qed.

  Lemma lax_net_of_ip_prov s i stop :
    in_buf bs s -> LaxIpSlice.from_slice s = Ok (i, stop) -> lax_net_prov bs (net_of_ip i).
  Proof. intros I E. destruct i as [v|v]; cbn; eauto. Qed.

  Lemma lax_slice_ip_wf c s r :
    lax_sliced_wf bs (lc_result c) -> in_buf bs s -> slice_ip c s = Ok r -> lax_sliced_wf bs r.
  Proof.
    intros W I. unfold slice_ip.
    destruct (LaxIpSlice.from_slice s) as [[ip stop]|[l|ce]|b] eqn:Eip; intros H; try discriminate.
    - binv H d Ed. eapply lax_slice_transport_wf; [| |exact H].
      + cbn [lc_result]. apply lax_with_opt_stop_wf. apply lax_with_net_wf; [exact W|].
        eapply lax_net_of_ip_prov; eauto.
      + eapply lax_ip_payload_in_buf; eauto.
    - injection H as <-. now apply lax_with_stop_wf.
    - injection H as <-. now apply lax_with_stop_wf.
  Qed.

  Lemma lax_slice_arp_wf c s r :
    lax_sliced_wf bs (lc_result c) -> in_buf bs s -> slice_arp c s = Ok r -> lax_sliced_wf bs r.
  Proof.
    intros W I. unfold slice_arp.
    destruct (ArpPacketSlice.from_slice s) as [a|[e|ce]|b] eqn:Ea; intros H; try discriminate;
      injection H as <-; [|now apply lax_with_stop_wf].
    apply lax_with_net_wf; [exact W|]. cbn. eauto.
  Qed.

  Lemma lax_ether_loop_wf fuel :
    forall c ep r,
      lax_sliced_wf bs (lc_result c) -> in_buf bs (ep_slice ep) ->
      slice_ether_type_loop fuel c ep = Ok r -> lax_sliced_wf bs r.
  Proof.
    induction fuel as [|f IH]; intros c ep r W I H; [discriminate|].
    cbn [slice_ether_type_loop] in H.
    destruct (is_vlan_type (ep_ether_type ep)).
    { destruct (LINK_EXTS_CAP <=? len (lsp_exts (lc_result c))); [injection H as <-; exact W|].
      destruct (SingleVlanSlice.from_slice (ep_slice ep)) as [vlan|[e|ce]|b] eqn:Ev; try discriminate.
      2:{ injection H as <-. now apply lax_with_stop_wf. }
      binv H vp Evp. binv H r' Er'.
      pose proof (vlan_wf _ _ Ev) as (-> & Wv).
      eapply IH; [| |exact H].
      - cbn [lc_result]. eapply lax_push_ext_wf; [exact W| |exact Er']. cbn. eauto.
      - unfold SingleVlanSlice.payload in Evp. binv Evp et Eet. binv Evp pl Epl. injection Evp as <-.
        cbn [ep_slice]. unfold SingleVlanSlice.payload_slice in Epl. binv Epl n En.
        eapply sub_of_in_buf; [exact I|]. now exists 4, n. }
    destruct (ep_ether_type ep =? ET_MACSEC).
    { destruct (LINK_EXTS_CAP <=? len (lsp_exts (lc_result c))); [injection H as <-; exact W|].
      destruct (LaxMacsecSlice.from_slice (ep_slice ep)) as [m|[e|ce]|b] eqn:Em; try discriminate.
      2:{ injection H as <-. now apply lax_with_stop_wf. }
      2:{ injection H as <-. now apply lax_with_stop_wf. }
      binv H hl Ehl. binv H r' Er'.
      pose proof (lax_macsec_wf _ _ Em) as (_ & _ & Sp).
      assert (W' : lax_sliced_wf bs r').
      { eapply lax_push_ext_wf; [exact W| |exact Er']. cbn. eauto. }
      unfold LaxMacsecA.payload_slice in Sp.
      destruct (lms_payload m) as [e|inc ps].
      - eapply IH; [| |exact H]; [cbn [lc_result]; exact W'|]. cbn [ep_slice]. eapply sub_of_in_buf; [exact I|exact Sp].
      - injection H as <-. exact W'. }
    destruct (ep_ether_type ep =? ET_ARP); [eapply lax_slice_arp_wf; eauto|].
    destruct (ep_ether_type ep =? ET_IPV4); [eapply lax_slice_ip_wf; eauto|].
    destruct (ep_ether_type ep =? ET_IPV6); [eapply lax_slice_ip_wf; eauto|].
    injection H as <-. exact W.
  Qed.

  Definition lax_entry (et : N) (p : lax_sliced_packet) : Prop :=
    LaxSlicedPacket.from_ethernet bs = Ok p \/ LaxSlicedPacket.from_ether_type et bs = Ok p \/
    LaxSlicedPacket.from_ip bs = Ok p.

  Theorem lax_sliced_wf_entry et p : lax_entry et p -> lax_sliced_wf bs p.
  Proof.
    pose proof (in_buf_whole bs) as I.
    intros [H|[H|H]].
    - unfold LaxSlicedPacket.from_ethernet, parse_from_ethernet2 in H.
      binv H r Er. binv H ep Eep.
      pose proof (eth2_plain_wf _ _ Er) as (-> & _).
      unfold slice_ether_type in H. eapply lax_ether_loop_wf; [| |exact H].
      + cbn [lc_result]. apply lax_with_link_wf; [apply lax_empty_wf|]. cbn. eauto.
      + unfold Ethernet2Slice.payload in Eep. binv Eep et' Eet. binv Eep pl Epl. injection Eep as <-.
        cbn [ep_slice]. unfold Ethernet2Slice.payload_slice in Epl. binv Epl n En.
        eapply sub_of_in_buf; [exact I|]. now exists 14, n.
    - unfold LaxSlicedPacket.from_ether_type, parse_from_ether_type, slice_ether_type in H.
      eapply lax_ether_loop_wf; [| |exact H].
      + cbn [lc_result]. apply lax_with_link_wf; [apply lax_empty_wf|]. cbn. exact I.
      + cbn. exact I.
    - unfold LaxSlicedPacket.from_ip, parse_from_ip in H.
      binv H x Ex. destruct x as (ip, stop). binv H off Eoff.
      eapply lax_slice_transport_wf; [| |exact H].
      + cbn [lc_result]. unfold lax_sliced_wf, LINK_EXTS_CAP. cbn.
        repeat split; auto; [|lia]. eapply lax_net_of_ip_prov; eauto.
      + eapply lax_ip_payload_in_buf; eauto.
  Qed.
End LaxLift.

(* ================================================================================= *)
(* C. from provenance to accessor / window safety                                      *)
(* ================================================================================= *)
Section LaxSafe.
  Variable bs : bytes.
  Hypothesis Hok : bytes_ok bs.

  Ltac in_list F := rewrite Forall_forall in F; apply F; cbn; tauto.

  Lemma lax_ext_ok x : lax_ext_prov bs x ->
    Forall nobug (LaxLinkExtA.accessors x) /\ Forall (buf_ok bs) (LaxLinkExtA.windows x).
  Proof.
    destruct x as [s|m]; cbn [lax_ext_prov LaxLinkExtA.accessors LaxLinkExtA.windows].
    - intros (src & I & E). apply vlan_wf in E. destruct E as (-> & W). split.
      + apply Forall_app. split; [now apply vlan_accessors_ok|].
        unfold wf_vlan in W. cbn [LaxLinkExtA.header_len LaxLinkExtA.to_header LaxLinkExtA.payload].
        forall_ok unf_vlan.
      + constructor; [now apply buf_ok_Ok|]. apply (win_ok_buf bs src); [exact I|]. now apply vlan_windows_ok.
    - intros (src & I & E). apply lax_macsec_wf in E. destruct E as (W & Sh & Sp). split.
      + pose proof (macsech_accessors_ok _ W) as F.
        assert (Ep : nobug (run (LaxMacsecA.ether_payload m))).
        { apply nobug_run, okr_nobug. unfold LaxMacsecA.ether_payload.
          destruct (lms_payload m); eexists; reflexivity. }
        unfold LaxMacsecA.accessors. cbn [LaxLinkExtA.header_len LaxLinkExtA.to_header LaxLinkExtA.payload].
        unfold LaxMacsecA.next_ether_type.
        repeat (apply Forall_app; split); [exact F| |].
        * constructor; [exact Ep|]. constructor; [|constructor]. in_list F.
        * constructor; [in_list F|]. constructor; [in_list F|]. constructor; [exact Ep|constructor].
      + unfold LaxMacsecA.windows.
        constructor; [apply buf_ok_Ok; eapply sub_of_in_buf; [exact I|exact Sh]|].
        constructor; [|constructor]. apply buf_ok_Ok. eapply sub_of_in_buf; [exact I|exact Sp].
  Qed.

  Lemma lax_ip_ok i src : in_buf bs src -> lax_ip_good i src ->
    Forall nobug (LaxIpSliceA.accessors i) /\
    Forall (buf_ok bs) (LaxSlicedPacketA.net_windows (net_of_ip i)).
  Proof.
    intros I G. destruct i as [v|v]; cbn [lax_ip_good net_of_ip] in *; destruct G as (W & In).
    - destruct (ipv4_ok bs Hok (strict_v4 v) src I W In) as (F1 & F2). split; [|exact F2].
      unfold LaxIpSliceA.accessors. apply Forall_app. split; [exact F1|].
      destruct W as ((L1 & L2) & _). cbn [strict_v4 v4_header] in L1, L2.
      cbn [LaxIpSliceA.is_fragmenting_payload LaxIpSliceA.source_addr LaxIpSliceA.destination_addr].
      unfold LaxIpv4SliceA.is_payload_fragmented.
      forall_ok unf_ipv4h.
    - destruct (ipv6_ok bs Hok (strict_v6 v) src I W In) as (F1 & F2). split; [|exact F2].
      unfold LaxIpSliceA.accessors. apply Forall_app. split; [exact F1|].
      destruct W as (L & _). unfold wf_ipv6h in L. cbn [strict_v6 v6_header] in L.
      cbn [LaxIpSliceA.is_fragmenting_payload LaxIpSliceA.source_addr LaxIpSliceA.destination_addr].
      forall_ok unf_ipv6h.
  Qed.

  Lemma lax_net_ok n : lax_net_prov bs n ->
    Forall nobug (LaxSlicedPacketA.net_accessors n) /\ Forall (buf_ok bs) (LaxSlicedPacketA.net_windows n).
  Proof.
    destruct n as [v|v|a]; cbn [lax_net_prov LaxSlicedPacketA.net_accessors].
    - intros (src & stop & I & E). apply lax_ip_wf in E. exact (lax_ip_ok (LIpV4 v) src I E).
    - intros (src & stop & I & E). apply lax_ip_wf in E. exact (lax_ip_ok (LIpV6 v) src I E).
    - intros P. exact (net_ok bs Hok (NtArp a) P).
  Qed.

  Lemma lax_transport_ok t : lax_transport_prov bs t ->
    Forall nobug (SlicedPacketA.transport_accessors t) /\
    Forall (buf_ok bs) (SlicedPacketA.transport_windows t).
  Proof.
    destruct t as [s|hl s|s|s]; cbn [lax_transport_prov]; intros P;
      [|exact (transport_ok bs (TrTcp hl s) P)|exact (transport_ok bs (TrIcmpv4 s) P)
       |exact (transport_ok bs (TrIcmpv6 s) P)].
    destruct P as (src & I & E). apply udp_lax_wf in E. destruct E as (W & S).
    assert (Is : in_buf bs s) by (eapply sub_of_in_buf; [exact I|exact S]).
    cbn [SlicedPacketA.transport_accessors SlicedPacketA.transport_windows].
    split; [now apply udp_accessors_ok|].
    constructor; [now apply buf_ok_Ok|]. apply (win_ok_buf bs s); [exact Is|]. now apply udp_windows_ok.
  Qed.

  (* ================================================================================= *)
  (* D. packet-level accessors                                                          *)
  (* ================================================================================= *)
  Import LaxSlicedPacketA.

  (* push_unchecked into ArrayVec<VlanId, 3>: at most one push per link extension *)
  Lemma vlan_ids_loop_ok exts :
    Forall (lax_ext_prov bs) exts ->
    forall acc, len acc + len exts <= LINK_EXTS_CAP -> okr (vlan_ids_loop exts acc).
  Proof.
    induction 1 as [|x l Px Pl IH]; intros acc L; cbn [vlan_ids_loop]; [apply okr_Ok|].
    rewrite len_cons in L. destruct x as [s|m].
    - destruct Px as (src & I & E). apply vlan_wf in E. destruct E as (-> & W). unfold wf_vlan in W.
      unfold SingleVlanA.vlan_identifier. oksteps.
      + apply IH. rewrite len_app. change (len [be16 (N.land x 15) x0]) with 1. lia.
      + exfalso. lia.
    - apply IH. lia.
  Qed.

  Definition payload_in_buf (o : option lax_ether_payload) : Prop :=
    match o with Some e => in_buf bs (lep_slice e) | None => True end.

  Lemma lax_ext_payload_ok x : lax_ext_prov bs x ->
    exists o, LaxLinkExtA.payload x = Ok o /\ payload_in_buf o.
  Proof.
    destruct x as [s|m]; cbn [lax_ext_prov LaxLinkExtA.payload].
    - intros (src & I & E). apply vlan_wf in E. destruct E as (-> & W).
      pose proof (vlan_windows_ok _ W) as F. unfold SingleVlanA.windows in F.
      inversion F as [|? ? _ F2]; subst. inversion F2 as [|? ? (w & Ew & Sw) _]; subst.
      unfold SingleVlanA.payload, SingleVlanA.ether_type. unfold wf_vlan in W.
      destruct (rd16_ok src 2) as (et & ->); [lia|]. cbn [bind]. rewrite Ew. cbn [bind].
      eexists. split; [reflexivity|]. cbn. eapply sub_of_in_buf; [exact I|exact Sw].
    - intros (src & I & E). apply lax_macsec_wf in E. destruct E as (_ & _ & Sp).
      unfold LaxMacsecA.ether_payload, LaxMacsecA.payload_slice in *.
      destruct (lms_payload m) as [e|inc ps]; eexists; (split; [reflexivity|]); cbn; auto.
      eapply sub_of_in_buf; [exact I|exact Sp].
  Qed.

  Lemma len_source_scan_ok exts :
    Forall (lax_ext_prov bs) exts -> forall src, okr (len_source_scan exts src).
  Proof.
    induction 1 as [|x l Px Pl IH]; intros src; cbn [len_source_scan]; [apply okr_Ok|].
    destruct (lax_ext_payload_ok x Px) as (o & -> & _). cbn [bind]. destruct o; apply IH.
  Qed.

  Lemma last_ext_in l x : last_ext l = Some x -> In x l.
  Proof.
    unfold last_ext. destruct (rev l) as [|y r] eqn:E; [discriminate|]. intros X. injection X as ->.
    apply in_rev. rewrite E. now left.
  Qed.

  Lemma lax_ether_payload_ok p : lax_sliced_wf bs p ->
    exists o, ether_payload p = Ok o /\ payload_in_buf o.
  Proof.
    intros (A & B & _). unfold ether_payload.
    destruct (last_ext (lsp_exts p)) as [x|] eqn:El.
    - apply last_ext_in in El. rewrite Forall_forall in B. pose proof (B x El) as Px.
      destruct x as [v|m].
      + destruct Px as (src & I & E). apply vlan_wf in E. destruct E as (-> & W).
        pose proof (vlan_windows_ok _ W) as F. unfold SingleVlanA.windows in F.
        inversion F as [|? ? _ F2]; subst. inversion F2 as [|? ? (w & Ew & Sw) _]; subst.
        unfold SingleVlanA.ether_type. unfold wf_vlan in W.
        destruct (rd16_ok src 2) as (et & ->); [lia|]. cbn [bind].
        destruct (len_source_scan_ok (lsp_exts p)) with (src := LsSlice) as (sc & ->);
          [now apply Forall_forall|]. cbn [bind]. rewrite Ew. cbn [bind].
        eexists. split; [reflexivity|]. cbn. eapply sub_of_in_buf; [exact I|exact Sw].
      + exact (lax_ext_payload_ok (LLeMacsec m) Px).
    - destruct (lsp_link p) as [[s|h w|e]|]; cbn [optP link_prov] in A.
      + destruct A as (src & I & E). apply eth2_plain_wf in E. destruct E as (-> & W).
        pose proof (eth2_windows_ok _ W) as F. unfold Ethernet2A.windows in F. cbn [e2_slice] in F.
        inversion F as [|? ? _ F2]; subst. inversion F2 as [|? ? (w & Ew & Sw) _]; subst.
        unfold Ethernet2A.payload, Ethernet2A.ether_type. destruct W as (_ & L). cbn [e2_slice e2_fcs_len] in *.
        destruct (rd16_ok src 12) as (et & ->); [lia|]. cbn [bind]. rewrite Ew. cbn [bind].
        eexists. split; [reflexivity|]. cbn. eapply sub_of_in_buf; [exact I|exact Sw].
      + destruct A as (src & I & E). apply sll_wf in E. destruct E as (W & Ew & Sh). cbn [fst snd] in *. subst w.
        pose proof (sll_windows_ok (h, src) W) as F. unfold LinuxSllA.windows in F.
        inversion F as [|? ? (pw & Epw & Spw) _]; subst. cbn [snd] in Spw.
        destruct W as ((L & pt & hw & pr & v & E0 & Ept & E2 & E14 & Ev) & L16). cbn [fst snd] in *.
        assert (Ep : LinuxSllHeaderA.protocol_type h = Ok v).
        { unfold LinuxSllHeaderA.protocol_type, LinuxSllHeaderA.arp_hardware_type.
          rewrite E2. cbn [bind]. rewrite E14. cbn [bind]. now rewrite Ev. }
        rewrite Ep. cbn [bind].
        destruct v; try (eexists; split; [reflexivity|exact Logic.I]);
          unfold LinuxSllA.payload; cbn [fst]; rewrite Ep; cbn [bind]; rewrite Epw; cbn [bind];
          (eexists; split; [reflexivity|]); cbn; eapply sub_of_in_buf; [exact I|exact Spw|exact I|exact Spw].
      + eexists. split; [reflexivity|]. cbn. exact A.
      + eexists. split; [reflexivity|]. exact Logic.I.
  Qed.

  Lemma lax_packet_accessors_ok p : lax_sliced_wf bs p -> Forall nobug (packet_accessors p).
  Proof.
    intros W. unfold packet_accessors.
    constructor; [intros b; discriminate|].
    constructor.
    { apply nobug_run, okr_nobug. unfold vlan_ids. destruct W as (_ & B & _ & _ & L).
      apply vlan_ids_loop_ok; [exact B|]. rewrite len_nil. lia. }
    constructor.
    { apply nobug_run, okr_nobug. destruct (lax_ether_payload_ok p W) as (o & -> & _). apply okr_Ok. }
    constructor; [|constructor].
    apply nobug_run, okr_nobug. unfold ip_payload. destruct (lsp_net p) as [[v|v|a]|]; apply okr_Ok.
  Qed.

  Lemma lax_packet_windows_ok p : lax_sliced_wf bs p -> Forall (buf_ok bs) (packet_windows p).
  Proof.
    intros W. unfold packet_windows. destruct (lax_ether_payload_ok p W) as (o & -> & P).
    destruct o as [e|]; [|constructor]. constructor; [|constructor]. now apply buf_ok_Ok.
  Qed.

  Theorem lax_sliced_accessors_ok p : lax_sliced_wf bs p -> Forall nobug (LaxSlicedPacketA.accessors p).
  Proof.
    intros W. pose proof W as (A & B & C & D & _). unfold LaxSlicedPacketA.accessors.
    repeat (apply Forall_app; split).
    - eapply optP_ok; [|exact A]. intros a Ha. apply (link_ok bs a Ha).
    - eapply Forall_flat_map; [|exact B]. intros a Ha. apply (lax_ext_ok a Ha).
    - eapply optP_ok; [|exact C]. intros a Ha. apply (lax_net_ok a Ha).
    - eapply optP_ok; [|exact D]. intros a Ha. apply (lax_transport_ok a Ha).
    - now apply lax_packet_accessors_ok.
  Qed.

  Theorem lax_sliced_windows_ok p : lax_sliced_wf bs p -> Forall (buf_ok bs) (LaxSlicedPacketA.windows p).
  Proof.
    intros W. pose proof W as (A & B & C & D & _). unfold LaxSlicedPacketA.windows.
    repeat (apply Forall_app; split).
    - eapply optP_ok; [|exact A]. intros a Ha. apply (link_ok bs a Ha).
    - eapply Forall_flat_map; [|exact B]. intros a Ha. apply (lax_ext_ok a Ha).
    - eapply optP_ok; [|exact C]. intros a Ha. apply (lax_net_ok a Ha).
    - eapply optP_ok; [|exact D]. intros a Ha. apply (lax_transport_ok a Ha).
    - now apply lax_packet_windows_ok.
  Qed.
End LaxSafe.

(* ================================================================================= *)
(* E. summary statements used by Props/C01.v and Props/C02.v                            *)
(* ================================================================================= *)

(* ---- the per-type invariants of AccessProofs.v hold for every stored component ------- *)
Definition link_inv (bs : bytes) (l : link_slice) : Prop :=
  match l with
  | LkEthernet2 s => in_buf bs s /\ wf_eth2 (mkEth2 0 s)
  | LkLinuxSll h w => in_buf bs h /\ in_buf bs w /\ wf_sll (h, w)
  | LkEtherPayload e => in_buf bs (ep_slice e)
  end.
Definition lax_ext_inv (bs : bytes) (x : lax_link_ext_slice) : Prop :=
  match x with
  | LLeVlan s => in_buf bs s /\ wf_vlan s
  | LLeMacsec m =>
      in_buf bs (lms_header m) /\ wf_macsech (lms_header m) /\ in_buf bs (LaxMacsecA.payload_slice m)
  end.
Definition lax_net_inv (bs : bytes) (n : lax_net_slice) : Prop :=
  match n with
  | LNtIpv4 v =>
      in_buf bs (lv4_header v) /\ wf_ipv4h (lv4_header v) /\
      match lv4_auth v with Some a => in_buf bs a /\ wf_ah a | None => True end /\
      in_buf bs (lipp_slice (lv4_payload v))
  | LNtIpv6 v =>
      in_buf bs (lv6_header v) /\ wf_ipv6h (lv6_header v) /\
      in_buf bs (x6_slice (lv6_exts v)) /\ exts_good (lv6_exts v) /\
      in_buf bs (lipp_slice (lv6_payload v))
  | LNtArp a => in_buf bs a /\ wf_arp a
  end.
Definition transport_inv (bs : bytes) (t : transport_slice) : Prop :=
  match t with
  | TrUdp s => in_buf bs s /\ wf_udp s
  | TrTcp hl s => in_buf bs s /\ wf_tcp (hl, s)
  | TrIcmpv4 s => in_buf bs s /\ wf_icmp4 s
  | TrIcmpv6 s => in_buf bs s /\ wf_icmp6 s
  end.
Definition lax_sliced_inv (bs : bytes) (p : lax_sliced_packet) : Prop :=
  optP (link_inv bs) (lsp_link p) /\ Forall (lax_ext_inv bs) (lsp_exts p) /\
  optP (lax_net_inv bs) (lsp_net p) /\ optP (transport_inv bs) (lsp_transport p) /\
  len (lsp_exts p) <= LINK_EXTS_CAP.

Lemma optP_impl {A} (P Q : A -> Prop) o : (forall a, P a -> Q a) -> optP P o -> optP Q o.
Proof. intros H. destruct o; cbn; auto. Qed.

Lemma lax_wf_inv bs p : lax_sliced_wf bs p -> lax_sliced_inv bs p.
Proof.
  intros (A & B & C & D & E). unfold lax_sliced_inv. repeat split; auto.
  - eapply optP_impl; [|exact A]. intros [s|h w|e]; cbn [link_prov link_inv].
    + intros (src & I & X). apply eth2_plain_wf in X. destruct X as (-> & W). auto.
    + intros (src & I & X). apply sll_wf in X. destruct X as (W & Ew & Sh). cbn [fst snd] in *. subst w.
      split; [eapply sub_of_in_buf; [exact I|exact Sh]|]. auto.
    + auto.
  - eapply Forall_impl; [|exact B]. intros [s|m]; cbn [lax_ext_prov lax_ext_inv].
    + intros (src & I & X). apply vlan_wf in X. destruct X as (-> & W). auto.
    + intros (src & I & X). apply lax_macsec_wf in X. destruct X as (W & Sh & Sp).
      split; [eapply sub_of_in_buf; [exact I|exact Sh]|]. split; [exact W|].
      eapply sub_of_in_buf; [exact I|exact Sp].
  - eapply optP_impl; [|exact C]. intros [v|v|a]; cbn [lax_net_prov lax_net_inv].
    + intros (src & stop & I & X). apply lax_ip_wf in X. cbn [lax_ip_good] in X.
      destruct X as ((Wh & Wa) & Sh & Sa & Sp). cbn [strict_v4 v4_header v4_auth v4_payload strict_ipp ipp_slice] in *.
      split; [eapply sub_of_in_buf; [exact I|exact Sh]|]. split; [exact Wh|]. split.
      * destruct (lv4_auth v) as [a|]; [|exact Logic.I]. split; [eapply sub_of_in_buf; [exact I|exact Sa]|exact Wa].
      * eapply sub_of_in_buf; [exact I|exact Sp].
    + intros (src & stop & I & X). apply lax_ip_wf in X. cbn [lax_ip_good] in X.
      destruct X as ((Wh & Wx) & Sh & Sx & Sp). cbn [strict_v6 v6_header v6_exts v6_payload strict_ipp ipp_slice] in *.
      split; [eapply sub_of_in_buf; [exact I|exact Sh]|]. split; [exact Wh|].
      split; [eapply sub_of_in_buf; [exact I|exact Sx]|]. split; [exact Wx|].
      eapply sub_of_in_buf; [exact I|exact Sp].
    + intros (src & I & X). apply arp_wf in X. destruct X as (W & S).
      split; [eapply sub_of_in_buf; [exact I|exact S]|exact W].
  - eapply optP_impl; [|exact D]. intros [s|hl s|s|s]; cbn [lax_transport_prov transport_inv].
    + intros (src & I & X). apply udp_lax_wf in X. destruct X as (W & S).
      split; [eapply sub_of_in_buf; [exact I|exact S]|exact W].
    + intros (src & I & X). apply tcp_wf in X. destruct X as (W & Es). cbn [snd] in Es. subst src. auto.
    + intros (src & I & X). apply icmp4_wf in X. destruct X as (-> & W). auto.
    + intros (src & I & X). apply icmp6_wf in X. destruct X as (-> & W). auto.
Qed.

(* deliverable 1: provenance + invariants of every component of every lax result *)
Theorem lax_packet_wf bs et p : lax_entry bs et p -> lax_sliced_wf bs p /\ lax_sliced_inv bs p.
Proof. intros E. pose proof (lax_sliced_wf_entry bs et p E) as W. split; [exact W|now apply lax_wf_inv]. Qed.

(* deliverable 2 *)
Theorem lax_packet_accessors_no_bug bs et p :
  bytes_ok bs -> lax_entry bs et p ->
  forall r, In r (LaxSlicedPacketA.accessors p) -> forall b, r <> Bug b.
Proof.
  intros Hok E. pose proof (lax_sliced_wf_entry bs et p E) as W.
  pose proof (lax_sliced_accessors_ok bs Hok p W) as F. rewrite Forall_forall in F. exact F.
Qed.

Theorem lax_packet_accessors_total bs et p :
  bytes_ok bs -> lax_entry bs et p ->
  forall r, In r (LaxSlicedPacketA.accessors p) -> r = Ok tt \/ exists e, r = Err e.
Proof.
  intros Hok E r Hr. pose proof (lax_packet_accessors_no_bug bs et p Hok E r Hr) as F.
  destruct r as [[]|e|b]; [now left|right; eauto|]. exfalso. now apply (F b).
Qed.

(* deliverable 3 *)
Theorem lax_packet_windows_inside bs et p :
  bytes_ok bs -> lax_entry bs et p ->
  forall r, In r (LaxSlicedPacketA.windows p) ->
    exists w, r = Ok w /\ s_off w + s_len w <= len bs /\
              snd w = take (s_len w) (drop (s_off w) bs).
Proof.
  intros Hok E r Hr. pose proof (lax_sliced_wf_entry bs et p E) as W.
  pose proof (lax_sliced_windows_ok bs Hok p W) as F. rewrite Forall_forall in F.
  destruct (F r Hr) as (w & -> & I). exists w. split; [reflexivity|].
  split; [now apply in_buf_bounds|].
  destruct I as (pos & lim & R). rewrite (repr_off _ _ _ _ R), (repr_len _ _ _ _ R).
  destruct R as (-> & _). reflexivity.
Qed.

(* the extension iterator on EVERY Ipv6ExtensionsSlice built by from_slice_lax (any start
   number, any slice, any stop error): terminates within length+1 calls of next, no Bug,
   yields at most len/8 items, each a complete header satisfying its invariant, tiling
   the stored slice exactly *)
Theorem lax_exts_iter_items nh s x nx rest err :
  LaxIpv6Exts.from_slice_lax nh s = Ok (x, nx, rest, err) ->
  exists l, Ipv6ExtIterA.items x = Ok l /\
            8 * len l <= s_len (x6_slice x) /\
            tiles (s_off (x6_slice x)) (map item_win l) (s_off (x6_slice x) + s_len (x6_slice x)) /\
            Forall item_wf l /\
            Forall (fun i => sub_of (ext_item_slice i) (x6_slice x)) l.
Proof.
  intros H. destruct (lax_exts_good _ _ _ _ _ _ H) as ((l & E & G1 & G2 & G3 & G4) & _).
  exists l. auto.
Qed.

(* the same for the IPv6 slice stored in a lax whole-packet result *)
Theorem lax_packet_exts_iter bs et p v :
  lax_entry bs et p -> lsp_net p = Some (LNtIpv6 v) ->
  exists l, Ipv6ExtIterA.items (lv6_exts v) = Ok l /\
            8 * len l <= s_len (x6_slice (lv6_exts v)) /\
            tiles (s_off (x6_slice (lv6_exts v))) (map item_win l)
                  (s_off (x6_slice (lv6_exts v)) + s_len (x6_slice (lv6_exts v))) /\
            Forall item_wf l /\
            Forall (fun i => sub_of (ext_item_slice i) (x6_slice (lv6_exts v))) l.
Proof.
  intros E Hn. pose proof (lax_packet_wf bs et p E) as (_ & _ & _ & C & _).
  rewrite Hn in C. cbn in C. destruct C as (_ & _ & _ & (l & El & G1 & G2 & G3 & G4) & _).
  exists l. split; [exact El|]. split; [exact G1|]. split; [exact G2|]. split; [exact G3|exact G4].
Qed.

(* single layers: for EVERY slice s and every value a lax constructor returns for it *)
Lemma lax_ip_single s i :
  lax_ip_good i s -> bytes_ok (snd s) ->
  Forall nobug (LaxIpSliceA.accessors i) /\ Forall (win_ok s) (LaxIpSliceA.windows i).
Proof.
  intros G Hok. destruct i as [v|v]; cbn [lax_ip_good] in G; destruct G as (W & In).
  - split.
    + unfold LaxIpSliceA.accessors. apply Forall_app. split.
      * apply (ipv4_accessors_ok (strict_v4 v) W). cbn [strict_v4 v4_auth].
        destruct In as (_ & Sa & _). cbn [strict_v4 v4_auth] in Sa.
        destruct (lv4_auth v) as [a|]; [|exact Logic.I]. eapply sub_of_bytes_ok; eauto.
      * destruct W as ((L1 & L2) & _). cbn [strict_v4 v4_header] in L1, L2.
        cbn [LaxIpSliceA.is_fragmenting_payload LaxIpSliceA.source_addr LaxIpSliceA.destination_addr].
        unfold LaxIpv4SliceA.is_payload_fragmented. forall_ok unf_ipv4h.
    + cbn [LaxIpSliceA.windows]. destruct In as (Sh & Sa & _).
      eapply Forall_impl; [|apply (ipv4_windows_ok (strict_v4 v) W)]. cbn [strict_v4 v4_header v4_auth] in *.
      intros r (w & E & S). exists w. split; [exact E|]. destruct S as [S|S].
      * eapply sub_of_trans; eauto.
      * destruct (lv4_auth v) as [a|]; [|contradiction]. eapply sub_of_trans; eauto.
  - split.
    + unfold LaxIpSliceA.accessors. apply Forall_app. split.
      * apply (ipv6_accessors_ok (strict_v6 v) W). destruct In as (_ & Sx & _).
        eapply sub_of_bytes_ok; eauto.
      * destruct W as (L & _). unfold wf_ipv6h in L. cbn [strict_v6 v6_header] in L.
        cbn [LaxIpSliceA.is_fragmenting_payload LaxIpSliceA.source_addr LaxIpSliceA.destination_addr].
        forall_ok unf_ipv6h.
    + cbn [LaxIpSliceA.windows]. destruct In as (_ & Sx & _).
      eapply win_ok_mono; [exact Sx|]. apply (ipv6_windows_ok (strict_v6 v) W).
Qed.

Theorem lax_single_layer_ok :
  (forall s m, LaxMacsecSlice.from_slice s = Ok m ->
     Forall nobug (LaxMacsecA.accessors m) /\ Forall (win_ok s) (LaxMacsecA.windows m)) /\
  (forall s v, (exists stop, LaxIpv4Slice.from_slice s = Ok (v, stop)) \/
               (exists stop, LaxIpSlice.from_slice s = Ok (LIpV4 v, stop)) ->
     bytes_ok (snd s) ->
     Forall nobug (LaxIpSliceA.accessors (LIpV4 v)) /\ Forall (win_ok s) (LaxIpSliceA.windows (LIpV4 v))) /\
  (forall s v, (exists stop, LaxIpv6Slice.from_slice s = Ok (v, stop)) \/
               (exists stop, LaxIpSlice.from_slice s = Ok (LIpV6 v, stop)) ->
     bytes_ok (snd s) ->
     Forall nobug (LaxIpSliceA.accessors (LIpV6 v)) /\ Forall (win_ok s) (LaxIpSliceA.windows (LIpV6 v)) /\
     win_ok s (Ok (x6_slice (lv6_exts v)))).
Proof.
  repeat match goal with |- _ /\ _ => split end.
  - intros s m H. apply lax_macsec_wf in H. destruct H as (W & Sh & Sp).
    pose proof (macsech_accessors_ok _ W) as F.
    unfold LaxMacsecA.accessors, LaxMacsecA.windows. split.
    + apply Forall_app. split; [exact F|]. constructor.
      * apply nobug_run, okr_nobug. unfold LaxMacsecA.ether_payload. destruct (lms_payload m); eexists; reflexivity.
      * constructor; [|constructor]. unfold LaxMacsecA.next_ether_type.
        rewrite Forall_forall in F. apply F. cbn. tauto.
    + constructor; [eexists; split; [reflexivity|exact Sh]|].
      constructor; [|constructor]. eexists; split; [reflexivity|exact Sp].
  - intros s v H Hok.
    assert (G : lax_ip_good (LIpV4 v) s)
      by (destruct H as [(stop & H)|(stop & H)]; [exact (lax_ipv4_wf _ _ _ H)|exact (lax_ip_wf _ _ _ H)]).
    now apply lax_ip_single.
  - intros s v H Hok.
    assert (G : lax_ip_good (LIpV6 v) s)
      by (destruct H as [(stop & H)|(stop & H)]; [exact (lax_ipv6_wf _ _ _ H)|exact (lax_ip_wf _ _ _ H)]).
    destruct (lax_ip_single s (LIpV6 v) G Hok) as (A & B). split; [exact A|]. split; [exact B|].
    destruct G as (_ & _ & Sx & _). eexists. split; [reflexivity|exact Sx].
Qed.
