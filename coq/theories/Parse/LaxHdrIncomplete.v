(* Parse/LaxHdrIncomplete.v -- C05 clause (d) for LaxPacketHeaders (round 3, agent c05d).

   Composition, no new model:
     C04_lax_headers_eq_slices     LaxPacketHeaders = lax slicing cut at a refilled extension header
                                   (`lhagree true`), C04_lax_cut_is_slicing_* (cut = uncut unless
                                   `lax_stopped_at_ext`)
     C05_incomplete_iff_packet     `packet_flags_ok` of the LaxSlicedPacket result
     lconv_payload_inc / the text of `lconv`, `carry_src`  (which payload the struct hands out)

   Result (`hdr_flags_ok`): LaxPacketHeaders.from_X bs = Ok p, outside the refilled-extension class:
   LaxSlicedPacket.from_X bs = Ok r' with `packet_flags_ok` (every MACsec extension and the IP layer of r'
   flagged exactly when the length field read from the buffer promises more than the enclosing slice
   holds), the struct's link-extension / network header windows are those of r', and the ONE payload the
   struct hands out (`lhv_payload`) is
     - behind an IPv4 / IPv6 header: flagged incomplete exactly when total length / 40 + payload length at
       the position of the IP header exceeds the slice the IP layer was decoded from (the enclosing window
       `enc_after enc0 exts`); without a transport header the payload is an IP payload descriptor with
       `ip_flag_ok`: flagged => length source Slice and the window ends at the end of the enclosing slice;
     - behind ARP: Empty;
     - no network header, last link extension MACsec at `pos` in a slice of `a` bytes: flagged exactly when
       `(0 < sl) && (a < hl + body)`; flagged => the window is (pos + hl, a - hl), ends at the end of the
       enclosing slice, and -- for an unmodified payload -- the length source is the one LaxPacketHeaders
       carries forward: `lvexts_src ys Slice` = the last length source other than Slice among the MACsec
       extensions in front (Slice when none of them had a short length).  That it is NOT always Slice is
       `lax_hdr_incomplete_src_refuted` below (two MACsec headers, the first with a short length that is
       met, the second with a short length that is not): observation (D) of notes/C04.md reaching clause
       (d3) of C05;
     - no network header, last link extension a VLAN tag or no link extension: not flagged. *)
From Coq Require Import ZArith Lia ZifyN ZifyBool List.
From EP Require Import Base.Bytes Parse.Types Parse.Slices Parse.Cursor Parse.View
  Parse.WireSpec Parse.Repr Parse.StrictProofs Parse.LaxSlices Parse.LaxCursor Parse.LaxView
  Parse.LaxProofs Parse.LaxFacts Parse.LaxWire Parse.LaxWireProofs Parse.LaxWireFacts Parse.LaxPrefix
  Parse.LaxHdrFacts Parse.LaxWire2 Parse.LaxPrefixNet
  Parse.HdrModel Parse.HdrView Parse.HdrCut Parse.HdrProofs Parse.HdrProofs2 Parse.HdrProofs3 Parse.HdrLaxModel Parse.HdrLaxView Parse.HdrLaxProofs Parse.HdrLaxCut
  Parse.HdrLaxCutProofs Parse.HdrLaxProofs2 Parse.HdrLaxProofs3 Parse.HdrLaxC05
  Parse.LaxHdrPrefixNet.
Import ListNotations.
Local Open Scope N_scope.

(* ---- the length source LaxPacketHeaders carries forward (the `len_source` variable of
   LaxPacketHeaders::from_ether_type): the last one other than Slice among the unmodified MACsec
   payloads, on the observer view ---------------------------------------------------------------- *)
Fixpoint lvexts_src (l : list lvlink_ext) (acc : len_source) : len_source :=
  match l with
  | [] => acc
  | LVMacsec _ (LVMpUnmodified e) :: r =>
      lvexts_src r (match lvep_src e with LsSlice => acc | s => s end)
  | _ :: r => lvexts_src r acc
  end.

Lemma lvexts_src_view l : forall acc, lvexts_src (map lview_ext l) acc = lexts_src l acc.
Proof.
  induction l as [|x r IH]; intros acc; [reflexivity|].
  destruct x as [s|m]; cbn [map lview_ext lvexts_src lexts_src]; [apply IH|].
  unfold lview_macsec. destruct (lms_payload m) as [e|i s]; cbn [lview_ep lvep_src]; apply IH.
Qed.

Lemma lexts_src_snoc_macsec l m : forall acc,
  lexts_src (l ++ [LLeMacsec m]) acc =
  match lms_payload m with
  | LMpUnmodified e => match lep_src e with LsSlice => lexts_src l acc | s => s end
  | LMpModified _ _ => lexts_src l acc
  end.
Proof.
  induction l as [|x r IH]; intros acc.
  - cbn [app lexts_src]. destruct (lms_payload m) as [e|i s]; [|reflexivity].
    destruct (lep_src e); reflexivity.
  - destruct x as [s|m']; cbn [app lexts_src]; [apply IH|].
    destruct (lms_payload m') as [e'|i' s']; apply IH.
Qed.

(* ---- the statement -------------------------------------------------------------------------------- *)
Definition ip_payload_ok (enc : window) (promised : N) (tr : option hvtr) (pl : lhvpayload) : Prop :=
  payload_inc pl = (snd enc <? promised) /\
  (tr = None -> exists p, pl = LHvpIp p /\ ip_flag_ok enc promised p).

Definition macsec_payload_ok (bs : bytes) (enc : window) (carried : len_source) (hdr : window)
  (pl : lhvpayload) : Prop :=
  let pos := fst enc in
  let a := snd enc in
  let sl := WireSpec.B bs (pos + 1) mod 64 in
  let unmod := (WireSpec.B bs pos / 4) mod 4 =? 0 in
  let body := if unmod then sl - 2 else sl in
  let hl := snd hdr in
  fst hdr = pos /\
  payload_inc pl = ((0 <? sl) && (a <? hl + body)) /\
  (payload_inc pl = true ->
   match pl with
   | LHvpEther e =>
       lvep_win e = (pos + hl, a - hl) /\ win_end (lvep_win e) = win_end enc /\ lvep_src e = carried
   | LHvpMacsecMod _ w => w = (pos + hl, a - hl) /\ win_end w = win_end enc
   | _ => False
   end).

Definition hdr_payload_flag_ok (bs : bytes) (enc0 : window) (q : lvpacket) (v : lhview) : Prop :=
  let pl := lhv_payload v in
  let enc := enc_after enc0 (lv_exts q) in
  match lv_net q with
  | Some (LVIpv4 _ _ _) => ip_payload_ok enc (WireSpec.W bs (fst enc + 2)) (lhv_tr v) pl
  | Some (LVIpv6 _ _ _ _ _) => ip_payload_ok enc (40 + WireSpec.W bs (fst enc + 4)) (lhv_tr v) pl
  | Some (LVArp _) => lhv_tr v = None -> pl = LHvpEmpty
  | None =>
      lhv_tr v = None ->
      (forall ys hdr mp, lv_exts q = ys ++ [LVMacsec hdr mp] ->
         macsec_payload_ok bs (enc_after enc0 ys) (lvexts_src ys LsSlice) hdr pl) /\
      (forall ys w, lv_exts q = ys ++ [LVVlan w] -> payload_inc pl = false) /\
      (lv_exts q = [] -> payload_inc pl = false)
  end.

Definition hdr_flags_ok (bs : bytes) (enc0 : window) (laxcut lax : res lax_sliced_packet)
  (lh : res lhpacket) : Prop :=
  forall p, lh = Ok p -> lax_stopped_at_ext laxcut = false ->
  exists r' v,
    lax = Ok r' /\ lhview_of p = Ok v /\
    packet_flags_ok bs enc0 (lview r') /\
    lhv_exts v = map (fun x => ext_hdr (strictify_ext x)) (lv_exts (lview r')) /\
    lhv_net v = option_map lnet_hdr (lv_net (lview r')) /\
    hdr_payload_flag_ok bs enc0 (lview r') v.

(* ---- the payload `lconv` hands out, read off the lax slicing result ---------------------------------- *)
Lemma lconv_payload_net sp v' : lconv sp = Ok v' ->
  match lsp_net sp with
  | Some n =>
      match lnp n with
      | Some ip =>
          payload_inc (lhv_payload v') = lipp_incomplete ip /\
          (lsp_transport sp = None -> lhv_payload v' = LHvpIp (lview_ipp ip))
      | None => lsp_transport sp = None -> lhv_payload v' = LHvpEmpty
      end
  | None => lsp_transport sp = None -> lconv_ether_payload sp = Ok (lhv_payload v')
  end.
Proof.
  unfold lconv. intros Hc.
  destruct (lsp_net sp) as [[w|w|a]|]; cbn [lnp].
  - destruct (lsp_transport sp) as [[s|hl s|s|s]|]; cbn [lconv_tr bind fst snd] in Hc.
    + injection Hc as <-. split; [reflexivity|discriminate].
    + injection Hc as <-. split; [reflexivity|discriminate].
    + destruct (Icmpv4Acc.header_len s); cbn [bind fst snd] in Hc; try discriminate.
      injection Hc as <-. split; [reflexivity|discriminate].
    + injection Hc as <-. split; [reflexivity|discriminate].
    + injection Hc as <-. split; reflexivity.
  - destruct (lsp_transport sp) as [[s|hl s|s|s]|]; cbn [lconv_tr bind fst snd] in Hc.
    + injection Hc as <-. split; [reflexivity|discriminate].
    + injection Hc as <-. split; [reflexivity|discriminate].
    + destruct (Icmpv4Acc.header_len s); cbn [bind fst snd] in Hc; try discriminate.
      injection Hc as <-. split; [reflexivity|discriminate].
    + injection Hc as <-. split; [reflexivity|discriminate].
    + injection Hc as <-. split; reflexivity.
  - intros Ht. rewrite Ht in Hc. cbn [bind fst snd] in Hc. injection Hc as <-. reflexivity.
  - intros Ht. rewrite Ht in Hc.
    destruct (lconv_ether_payload sp) as [e|e|b]; cbn [bind fst snd] in Hc; try discriminate.
    injection Hc as <-. reflexivity.
Qed.

Lemma map_snoc_inv {A B} (f : A -> B) (l : list A) ys y :
  map f l = ys ++ [y] -> exists l' x, l = l' ++ [x] /\ map f l' = ys /\ f x = y.
Proof.
  revert ys. induction l as [|a l IH]; intros ys H.
  - destruct ys; discriminate.
  - destruct ys as [|b ys]; cbn [map app] in H.
    + injection H as Ha Hl. destruct l; [|discriminate]. exists [], a. repeat split. exact Ha.
    + injection H as Ha Hl. destruct (IH ys Hl) as (l' & x & -> & Hm & Hx).
      exists (a :: l'), x. cbn [map app]. rewrite Ha, Hm. repeat split. exact Hx.
Qed.

Lemma last_some_snoc {A} (l : list A) x : last (map Some (l ++ [x])) None = Some x.
Proof.
  induction l as [|a l IH]; [reflexivity|].
  cbn [app map]. destruct (l ++ [x]) eqn:E; [destruct l; discriminate|].
  cbn [map last] in *. exact IH.
Qed.

Lemma payload_flag_core bs enc0 sp v v' :
  packet_flags_ok bs enc0 (lview sp) -> lconv sp = Ok v' -> lhv_rel true sp v v' ->
  hdr_payload_flag_ok bs enc0 (lview sp) v.
Proof.
  intros (FX & FN) Hc (R1 & R2 & R3 & R4 & R5 & R6).
  pose proof (lconv_payload_net sp v' Hc) as P.
  destruct (lconv_fields sp v' Hc) as (_ & _ & F3 & _).
  assert (Htr : lhv_tr v = None -> lsp_transport sp = None).
  { intros T. rewrite R4 in T. destruct (lsp_transport sp); [|reflexivity].
    exfalso. apply F3; [discriminate|exact T]. }
  unfold hdr_payload_flag_ok. cbv zeta.
  unfold lview in FN, FX |- *. cbn [lv_net lv_exts] in FN, FX |- *.
  destruct (lsp_net sp) as [[w|w|a]|]; cbn [option_map lview_net lnp] in *.
  - (* IPv4 *)
    unfold lview_v4 in *. cbn [net_flag_ok] in FN.
    destruct (win_of (lv4_header w)) as (hp, hl0). destruct FN as (_ & FN).
    destruct P as (P1 & P2). unfold ip_payload_ok. rewrite R5, payload_inc_carry. split.
    + rewrite P1. exact (proj1 FN).
    + intros T. exists (lview_ipp (lv4_payload w)). rewrite (P2 (Htr T)). split; [reflexivity|exact FN].
  - (* IPv6 *)
    unfold lview_v6 in *. cbn [net_flag_ok] in FN.
    destruct (win_of (lv6_header w)) as (hp, hl0). destruct FN as (_ & FN).
    destruct P as (P1 & P2). unfold ip_payload_ok. rewrite R5, payload_inc_carry. split.
    + rewrite P1. exact (proj1 FN).
    + intros T. exists (lview_ipp (lv6_payload w)). rewrite (P2 (Htr T)). split; [reflexivity|exact FN].
  - (* ARP *)
    intros T. rewrite R5, (P (Htr T)). reflexivity.
  - (* no network layer: the last ether payload *)
    intros T. specialize (P (Htr T)). unfold lconv_ether_payload in P.
    split; [|split].
    + intros ys hdr mp E.
      destruct (map_snoc_inv lview_ext (lsp_exts sp) ys _ E) as (l' & x & El & Hm & Hx).
      rewrite El in P. rewrite last_some_snoc in P.
      rewrite E in FX. apply exts_flags_snoc in FX. destruct FX as (_ & FX).
      destruct x as [s|m]; [discriminate|]. cbn [lview_ext] in Hx. unfold lview_macsec in Hx.
      injection Hx as Hh Hp.
      assert (Hcar : forall e, lms_payload m = LMpUnmodified e -> lep_src e = LsSlice ->
                lexts_src (lsp_exts sp) LsSlice = lvexts_src ys LsSlice).
      { intros e Em Es. rewrite El, lexts_src_snoc_macsec, Em, Es, <- Hm. symmetry. apply lvexts_src_view. }
      cbn [ext_flag_ok] in FX. destruct hdr as (hp, hl). cbv zeta in FX.
      destruct FX as (FX1 & FX2 & FX3).
      unfold macsec_payload_ok. cbv zeta. cbn [fst snd].
      split; [exact FX1|].
      destruct (lms_payload m) as [e|i s] eqn:Em; injection P as P; rewrite R5, <- P;
        cbn [carry_src payload_inc lvep_incomplete lvep_win lvep_src]; rewrite <- Hp in FX2, FX3.
      * split; [exact FX2|]. intros Hi. destruct (FX3 Hi) as (W1 & W2 & W3).
        split; [exact W1|]. split; [exact W2|]. apply (Hcar e eq_refl). exact W3.
      * split; [exact FX2|]. intros Hi. destruct (FX3 Hi) as (W1 & W2 & _). split; assumption.
    + intros ys w E.
      destruct (map_snoc_inv lview_ext (lsp_exts sp) ys _ E) as (l' & x & El & Hm & Hx).
      rewrite El in P. rewrite last_some_snoc in P.
      destruct x as [s|m]; [|cbn [lview_ext] in Hx; unfold lview_macsec in Hx; discriminate].
      destruct (SingleVlanSlice.payload s) as [e|e|b]; cbn [bind] in P; try discriminate.
      injection P as P. rewrite R5, <- P. reflexivity.
    + intros E. destruct (lsp_exts sp) as [|x r]; [|discriminate]. cbn [map last] in P.
      rewrite R5, payload_inc_carry.
      destruct (lsp_link sp) as [[s|h s|e]|].
      * destruct (Ethernet2Slice.payload s) as [e|e|b]; cbn [bind] in P; try discriminate.
        injection P as <-. reflexivity.
      * injection P as <-. reflexivity.
      * injection P as <-. reflexivity.
      * injection P as <-. reflexivity.
Qed.

Lemma hdr_flags_core bs enc0 (cl ll : res lax_sliced_packet) lh :
  (forall r', ll = Ok r' -> packet_flags_ok bs enc0 (lview r')) ->
  lhagree true lh cl -> (lax_stopped_at_ext cl = false -> cl = ll) ->
  hdr_flags_ok bs enc0 cl ll lh.
Proof.
  intros FL L Hcut p Hp Hs. rewrite (Hcut Hs) in L. subst lh.
  unfold lhagree in L. destruct ll as [r'|e|b]; try contradiction.
  destruct L as (v & v' & Hv & Hc & R).
  exists r', v. split; [reflexivity|]. split; [exact Hv|].
  pose proof (FL r' eq_refl) as F. split; [exact F|].
  destruct (lconv_fields r' v' Hc) as (F1 & F2 & _ & _).
  pose proof R as (R1 & R2 & R3 & R4 & R5 & R6).
  split.
  { rewrite R2, F1. unfold lview. cbn [lv_exts]. rewrite map_map. apply map_ext.
    intros x. apply lconv_ext_hdr. }
  split.
  { rewrite R3, F2. unfold lview. cbn [lv_net]. destruct (lsp_net r') as [n|]; [|reflexivity].
    cbn [option_map]. unfold lnet_hdr. now rewrite lconv_net_hdr. }
  exact (payload_flag_core bs enc0 r' v v' F Hc R).
Qed.

(* (d) for LaxPacketHeaders *)
Theorem hdr_lax_incomplete_iff bs et : bytes_ok bs ->
  hdr_flags_ok bs (14, len bs - 14) (LaxCut.from_ethernet true bs) (LaxSlicedPacket.from_ethernet bs)
    (LaxPacketHeaders.from_ethernet bs) /\
  hdr_flags_ok bs (0, len bs) (LaxCut.from_ether_type true et bs) (LaxSlicedPacket.from_ether_type et bs)
    (LaxPacketHeaders.from_ether_type et bs) /\
  hdr_flags_ok bs (0, len bs) (LaxCut.from_ip true bs) (LaxSlicedPacket.from_ip bs)
    (LaxPacketHeaders.from_ip bs).
Proof.
  intros Hok. split; [|split].
  - pose proof (lax_hdr_agree_ethernet bs Hok) as L.
    apply hdr_flags_core; [|exact L|].
    + intros r' E. exact (proj1 (lax_incomplete_iff_packet bs et r' Hok) E).
    + intros S. apply lcut_only_when_stopped_ethernet; [exact S|].
      intros b. now apply (lhagree_nobug_s _ _ _ b L).
  - pose proof (lax_hdr_agree_ether_type et bs Hok) as L.
    apply hdr_flags_core; [|exact L|].
    + intros r' E. exact (proj1 (proj2 (lax_incomplete_iff_packet bs et r' Hok)) E).
    + intros S. apply lcut_only_when_stopped_ether_type; [exact S|].
      intros b. now apply (lhagree_nobug_s _ _ _ b L).
  - destruct (F11 bs) eqn:Hf.
    { destruct (lax_hdr_f11_both_err bs Hf) as (e & e' & E & _). intros p Hp. congruence. }
    pose proof (lax_hdr_agree_ip bs Hok Hf) as L.
    apply hdr_flags_core; [|exact L|].
    + intros r' E. exact (proj2 (proj2 (lax_incomplete_iff_packet bs et r' Hok)) E).
    + intros S. apply lcut_only_when_stopped_ip; [exact S|].
      intros b. now apply (lhagree_nobug_s _ _ _ b L).
Qed.

(* ---- (d3) "the slice reported as length source" fails for the ether payload LaxPacketHeaders hands out
   behind two MACsec headers: Ethernet II / MACsec, unmodified, short length 20 (8 byte SecTAG incl. ether
   type, 18 byte body: met, 18 bytes follow) / MACsec, unmodified, short length 40 (not met: 10 bytes
   follow the second SecTAG).  LaxSlicedPacket: second MACsec payload incomplete, length source Slice.
   LaxPacketHeaders: ether payload incomplete = true, the same window, length source MacsecShortLength
   (carried forward from the first header). ---------------------------------------------------------- *)
Definition ex_two_macsec : bytes :=
  [1;2;3;4;5;6; 7;8;9;10;11;12; 136;229;
   0;20; 0;0;0;1; 136;229;
   0;40; 0;0;0;2; 8;0;
   69;0;0;20; 0;0;0;0; 64;17].

Theorem lax_hdr_incomplete_src_refuted :
  exists bs w,
    bytes_ok bs /\ lax_stopped_at_ext (LaxCut.from_ethernet true bs) = false /\
    (exists r' h1 p1 h2 e2, LaxSlicedPacket.from_ethernet bs = Ok r' /\
       lv_exts (lview r') = [LVMacsec h1 p1; LVMacsec h2 (LVMpUnmodified e2)] /\
       lvep_incomplete e2 = true /\ lvep_src e2 = LsSlice /\ lvep_win e2 = w) /\
    exists p v e, LaxPacketHeaders.from_ethernet bs = Ok p /\ lhview_of p = Ok v /\
      lhv_net v = None /\ lhv_payload v = LHvpEther e /\
      lvep_incomplete e = true /\ lvep_win e = w /\ win_end w = len bs /\
      lvep_src e = LsMacsecShortLength.
Proof.
  exists ex_two_macsec. eexists.
  split; [apply bytes_okb_spec; vm_compute; reflexivity|].
  split; [vm_compute; reflexivity|].
  split.
  { do 5 eexists. split; [vm_compute; reflexivity|]. split; [reflexivity|].
    split; [reflexivity|]. split; reflexivity. }
  do 3 eexists. split; [vm_compute; reflexivity|]. split; [vm_compute; reflexivity|].
  split; [reflexivity|]. split; [reflexivity|]. split; [reflexivity|]. split; [reflexivity|].
  split; reflexivity.
Qed.
