(* Parse/WireAccepts.v -- the CONVERSE of WireNested / WireDesc / WireDispatch:

     nested bs v -> desc bs v -> dispatch bs e v -> wire_e bs = VOk v

   A view that is declaratively well formed for the bytes -- windows nested the way the
   formats say (`nested`), IP payload descriptors read off the octets (`desc`), layer kinds and
   content rules as documented (`dispatch`) -- IS the answer of the reference decoder.  With the
   three forward theorems: the decoder accepts bs with view v  <->  v is described, hence the
   described view is unique, and "accepted" is characterised by a description that is not a
   decoder (layer sequence clause and the converse of "fails exactly when": no described view
   exists exactly when the decoder rejects). *)
From EP Require Import Base.Bytes Parse.Types Parse.View Parse.WireSpec Parse.WireSpecFacts
  Parse.WireNested Parse.WireDesc Parse.WireDispatch.
From Coq Require Import ZArith Lia ZifyN ZifyBool.

Local Open Scope N_scope.

Section Accepts.
  Variable bs : bytes.
  Local Notation B := (B bs).
  Local Notation W := (W bs).

  Ltac bfalse t := replace t with false by lia.
  Ltac btrue t := replace t with true by lia.

  (* ---- transport ------------------------------------------------------------------- *)
  Lemma wire_transport_conv p nn ip src pos lim t :
    v_transport p = None -> net_payload (Some nn) = Some ip -> vip_win ip = (pos, lim - pos) ->
    tr_nested bs (Some nn) t -> tr_dispatch bs (Some nn) t ->
    wire_transport bs (with_net p nn) (vip_number ip) (vip_frag ip) src pos lim
      = VOk (mkVPacket (v_link p) (v_exts p) (Some nn) t).
  Proof.
    intros Htr Hip Hwin. unfold tr_nested, tr_dispatch, no_tr_cause. rewrite Hip, Hwin.
    unfold wire_transport, with_net, with_tr.
    destruct t as [t|].
    - intros (Hf & Hok) (_ & Hk). rewrite Hf.
      destruct t as [w|hl w|w|w]; cbn [tr_ok tr_kind] in Hok, Hk; cbv zeta in Hok.
      + destruct w as [wp wl]. cbn [fst snd] in Hok. destruct Hok as (H1 & H2 & H3 & H4 & H5). subst wp.
        bfalse (vip_number ip =? 1). btrue (vip_number ip =? 17).
        unfold wire_udp, with_tr. cbv zeta. cbn [v_link v_exts v_net].
        bfalse (lim - pos <? 8).
        destruct (N.eqb_spec (W (pos + 4)) 0) as [E|E].
        * rewrite E. bfalse (lim - pos <? 0). rewrite (H4 E). reflexivity.
        * assert (E2 : wl = W (pos + 4)) by (apply H5; lia).
          bfalse (lim - pos <? W (pos + 4)). bfalse (W (pos + 4) <? 8). rewrite E2. reflexivity.
      + destruct Hok as (-> & -> & H3 & H4). destruct Hk as (Hk & Hd). cbn [fst snd] in *.
        bfalse (vip_number ip =? 1). bfalse (vip_number ip =? 17). btrue (vip_number ip =? 6).
        unfold wire_tcp, with_tr. cbv zeta. cbn [v_link v_exts v_net].
        bfalse (lim - pos <? 20). bfalse (B (pos + 12) / 16 <? 5).
        bfalse (lim - pos <? B (pos + 12) / 16 * 4). reflexivity.
      + destruct Hok as (-> & H2). destruct Hk as (Hk & Hts). cbn [fst snd] in *.
        btrue (vip_number ip =? 1).
        unfold wire_icmp4, with_tr. cbv zeta. cbn [v_link v_exts v_net].
        bfalse (lim - pos <? 8).
        bfalse ((B pos =? 13) && (B (pos + 1) =? 0) && negb (lim - pos =? 20)).
        bfalse ((B pos =? 14) && (B (pos + 1) =? 0) && negb (lim - pos =? 20)). reflexivity.
      + destruct Hok as (-> & H2 & H3). cbn [fst snd] in *.
        bfalse (vip_number ip =? 1). bfalse (vip_number ip =? 17). bfalse (vip_number ip =? 6).
        btrue (vip_number ip =? 58).
        unfold wire_icmp6, with_tr. cbv zeta. cbn [v_link v_exts v_net].
        bfalse (lim - pos <? 8). bfalse (4294967295 <? lim - pos). reflexivity.
    - intros _ Hc. cbn [v_link v_exts v_net v_transport]. rewrite Htr.
      destruct (vip_frag ip); [reflexivity|].
      destruct Hc as [Hc|Hc]; [discriminate|]. unfold tr_number in Hc.
      bfalse (vip_number ip =? 1). bfalse (vip_number ip =? 17). bfalse (vip_number ip =? 6).
      bfalse (vip_number ip =? 58). reflexivity.
  Qed.

  Lemma wire_ah_conv zero src pos lim :
    B (pos + 1) <> 0 -> (B (pos + 1) + 2) * 4 <= lim - pos ->
    wire_ah bs zero src pos lim = AhOk ((B (pos + 1) + 2) * 4) (B pos).
  Proof.
    intros Hz Hl. unfold wire_ah. cbv zeta.
    bfalse (lim - pos <? 12). bfalse (B (pos + 1) =? 0).
    bfalse (lim - pos <? (B (pos + 1) + 2) * 4). reflexivity.
  Qed.

  (* ---- IPv4 ------------------------------------------------------------------------ *)
  Lemma wire_ipv4_body_conv p src pos lim h a ip t :
    v_transport p = None -> pos <= lim ->
    net_ok bs (pos, lim - pos) (VIpv4 h a ip) -> net_desc bs (VIpv4 h a ip) ->
    ipv4_rules bs h a ->
    tr_nested bs (Some (VIpv4 h a ip)) t -> tr_dispatch bs (Some (VIpv4 h a ip)) t ->
    wire_ipv4_body bs p src pos lim (snd h)
      = VOk (mkVPacket (v_link p) (v_exts p) (Some (VIpv4 h a ip)) t).
  Proof.
    intros Htr Hle Hn Hd Hr Ht1 Ht2.
    destruct h as [hp hl]. destruct ip as [num fr sr [wp wl]].
    cbn [net_ok net_desc fst snd vip_win vip_src vip_number vip_frag] in Hn, Hd. cbv zeta in Hn.
    unfold ipv4_rules in Hr. cbn [fst] in Hr. cbv zeta in Hr. unfold wend in Hn. cbn [fst snd] in Hn.
    destruct Hn as (-> & H2 & H3 & H4 & H5 & H6 & ->). destruct Hd as (Hnum & Hfr).
    destruct Hr as (Hv & Hi & Ha).
    unfold wire_ipv4_body. cbv zeta. cbn [snd].
    destruct a as [[ap al]|]; cbn [fst snd] in *.
    - destruct H5 as (-> & Hal & ->). destruct Ha as (Hp & Hz).
      bfalse (W (pos + 2) <? hl). bfalse (lim - pos <? W (pos + 2)).
      unfold wire_ipv4_tail. cbv zeta. btrue (B (pos + 9) =? 51).
      rewrite (wire_ah_conv _ _ _ _ Hz) by lia. rewrite <- Hal.
      assert (Ewl : wl = pos + W (pos + 2) - (pos + hl + al)) by lia.
      rewrite <- Hfr, <- Hnum, <- Ewl.
      apply (wire_transport_conv p (VIpv4 (pos, hl) (Some (pos + hl, al))
                                      (mkVIp num fr LsIpv4HeaderTotalLen (pos + hl + al, wl)))
               (mkVIp num fr LsIpv4HeaderTotalLen (pos + hl + al, wl))
               LsIpv4HeaderTotalLen (pos + hl + al) (pos + W (pos + 2)) t Htr eq_refl);
        [cbn [vip_win]; f_equal; lia|exact Ht1|exact Ht2].
    - bfalse (W (pos + 2) <? hl). bfalse (lim - pos <? W (pos + 2)).
      unfold wire_ipv4_tail. cbv zeta. bfalse (B (pos + 9) =? 51). subst wp.
      assert (Ewl : wl = pos + W (pos + 2) - (pos + hl)) by lia.
      rewrite <- Hfr, <- Hnum, <- Ewl.
      apply (wire_transport_conv p (VIpv4 (pos, hl) None
                                      (mkVIp num fr LsIpv4HeaderTotalLen (pos + hl, wl)))
               (mkVIp num fr LsIpv4HeaderTotalLen (pos + hl, wl))
               LsIpv4HeaderTotalLen (pos + hl) (pos + W (pos + 2)) t Htr eq_refl);
        [cbn [vip_win]; f_equal; lia|exact Ht1|exact Ht2].
  Qed.

  Lemma ipv4_ok_bounds pos lim h a ip :
    pos <= lim -> net_ok bs (pos, lim - pos) (VIpv4 h a ip) ->
    fst h = pos /\ snd h = B pos mod 16 * 4 /\ 20 <= snd h /\ snd h <= lim - pos.
  Proof.
    intros Hle. destruct h as [hp hl]. destruct ip as [num fr sr [wp wl]].
    cbn [net_ok fst snd vip_win vip_src]. cbv zeta. unfold wend. cbn [fst snd].
    intros (-> & H2 & H3 & H4 & H5 & H6 & _).
    destruct a as [[ap al]|]; cbn [fst snd] in H5.
    - destruct H5 as (-> & _ & ->). repeat split; auto; lia.
    - subst wp. repeat split; auto; lia.
  Qed.

  Lemma wire_ipv4_conv p src pos lim h a ip t :
    v_transport p = None -> pos <= lim ->
    net_ok bs (pos, lim - pos) (VIpv4 h a ip) -> net_desc bs (VIpv4 h a ip) ->
    ipv4_rules bs h a ->
    tr_nested bs (Some (VIpv4 h a ip)) t -> tr_dispatch bs (Some (VIpv4 h a ip)) t ->
    wire_ipv4 bs p src pos lim = VOk (mkVPacket (v_link p) (v_exts p) (Some (VIpv4 h a ip)) t).
  Proof.
    intros Htr Hle Hn Hd Hr Ht1 Ht2.
    destruct (ipv4_ok_bounds _ _ _ _ _ Hle Hn) as (B1 & B2 & B3 & B4).
    pose proof Hr as (Hv & Hi & _). rewrite B1 in Hv, Hi.
    unfold wire_ipv4. cbv zeta.
    bfalse (lim - pos <? 20). btrue (B pos / 16 =? 4). cbn [negb].
    bfalse (B pos mod 16 <? 5). bfalse (lim - pos <? B pos mod 16 * 4).
    rewrite <- B2. now apply wire_ipv4_body_conv.
  Qed.

  (* ---- IPv6 ------------------------------------------------------------------------ *)
  Lemma chain_rules_first f nh pos e :
    nh <> 0 -> chain_rules bs f true nh pos e -> chain_rules bs f false nh pos e.
  Proof.
    intros N0. destruct f as [|f]; cbn [chain_rules]; [auto|].
    destruct (e <=? pos); [auto|]. intros (H1 & _ & H3). split; [exact H1|].
    split; [intros; contradiction|exact H3].
  Qed.

  Lemma wire_chain_conv : forall fuel2 fuel src pos lim nh frag e next fr,
    chain_rules bs fuel2 false nh pos e -> chain_end bs fuel2 nh pos e frag = (next, fr) ->
    e <= lim -> (N.to_nat (lim - pos) < fuel)%nat ->
    wire_chain bs fuel src pos lim nh frag = ChOk e next fr.
  Proof.
    induction fuel2 as [|f2 IH]; intros fuel src pos lim nh frag e next fr;
      cbn [chain_rules chain_end]; [contradiction|].
    destruct (e <=? pos) eqn:C.
    - intros (-> & Hne) Hce Hle Hf. injection Hce as <- <-.
      destruct fuel as [|f]; [lia|]. cbn [wire_chain]. cbv zeta. unfold ext_number in Hne.
      bfalse (nh =? 0). bfalse ((nh =? 60) || (nh =? 43)). bfalse (nh =? 44). bfalse (nh =? 51).
      reflexivity.
    - intros (Hx & Hfirst & Hah & Hin & Hrec) Hce Hle Hf.
      destruct fuel as [|f]; [lia|]. cbn [wire_chain]. cbv zeta.
      assert (N0 : nh <> 0) by (intros E; specialize (Hfirst E); discriminate).
      bfalse (nh =? 0). unfold ext_number in Hx.
      destruct ((nh =? 60) || (nh =? 43)) eqn:Nr.
      { rewrite (ext_hdr_len_raw bs nh pos (or_introl Nr)) in Hin, Hrec.
        replace ((nh =? 0) || (nh =? 43) || (nh =? 60)) with true in Hce by lia.
        bfalse (lim - pos <? 8). bfalse (lim - pos <? (B (pos + 1) + 1) * 8).
        apply (IH _ _ _ _ _ _ _ _ _ Hrec Hce Hle). lia. }
      replace ((nh =? 0) || (nh =? 43) || (nh =? 60)) with false in Hce by lia.
      destruct (N.eqb_spec nh 44) as [N44|N44].
      { assert (El : ext_hdr_len bs nh pos = 8) by (unfold ext_hdr_len; subst nh; reflexivity).
        rewrite El in Hin, Hrec. unfold frag_hdr_fragments in Hce.
        bfalse (lim - pos <? 8).
        apply (IH _ _ _ _ _ _ _ _ _ Hrec Hce Hle). lia. }
      destruct (N.eqb_spec nh 51) as [N51|N51]; [|lia].
      assert (El : ext_hdr_len bs nh pos = (B (pos + 1) + 2) * 4)
        by (unfold ext_hdr_len; subst nh; reflexivity).
      rewrite El in Hin, Hrec. specialize (Hah N51).
      rewrite (wire_ah_conv _ _ _ _ Hah) by lia.
      apply (IH _ _ _ _ _ _ _ _ _ Hrec Hce Hle). lia.
  Qed.

  Lemma wire_exts_conv f2 fuel src pos lim nh e next fr :
    chain_rules bs f2 true nh pos e -> chain_end bs f2 nh pos e false = (next, fr) ->
    e <= lim -> (N.to_nat (lim - pos) < fuel)%nat ->
    wire_exts bs fuel src pos lim nh = ChOk e next fr.
  Proof.
    unfold wire_exts. cbv zeta. destruct (N.eqb_spec nh 0) as [N0|N0].
    - destruct f2 as [|f2]; cbn [chain_rules chain_end]; [contradiction|].
      destruct (e <=? pos) eqn:C.
      { intros (_ & Hne). exfalso. apply Hne. left. exact N0. }
      intros (Hx & _ & _ & Hin & Hrec) Hce Hle Hf.
      rewrite (ext_hdr_len_raw bs nh pos (or_intror N0)) in Hin, Hrec.
      replace ((nh =? 0) || (nh =? 43) || (nh =? 60)) with true in Hce by lia.
      bfalse (lim - pos <? 8). bfalse (lim - pos <? (B (pos + 1) + 1) * 8).
      apply (wire_chain_conv _ _ _ _ _ _ _ _ _ _ Hrec Hce Hle). lia.
    - intros Hc Hce Hle Hf.
      exact (wire_chain_conv _ _ _ _ _ _ _ _ _ _ (chain_rules_first _ _ _ _ N0 Hc) Hce Hle Hf).
  Qed.

  Lemma wire_ipv6_tail_conv p esrc pos lim' h first fr x ip t :
    v_transport p = None ->
    fst h = pos -> snd h = 40 -> fst x = pos + 40 -> fst (vip_win ip) = wend x ->
    wend (vip_win ip) = lim' ->
    net_desc bs (VIpv6 h first fr x ip) -> ipv6_rules bs h first x ip ->
    tr_nested bs (Some (VIpv6 h first fr x ip)) t -> tr_dispatch bs (Some (VIpv6 h first fr x ip)) t ->
    wire_ipv6_tail bs p esrc (vip_src ip) pos lim'
      = VOk (mkVPacket (v_link p) (v_exts p) (Some (VIpv6 h first fr x ip)) t).
  Proof.
    intros Htr. destruct h as [hp hl]. destruct x as [xp xl]. destruct ip as [num frg sr [wp wl]].
    unfold wend, ipv6_rules. cbn [fst snd vip_win vip_src vip_number vip_frag net_desc]. cbv zeta.
    intros -> -> -> -> <- (Hce & -> & _) (Hv & Hfirst & Hc & Hne) Ht1 Ht2.
    unfold wire_ipv6_tail.
    rewrite (wire_exts_conv _ _ esrc _ _ _ _ _ _ Hc Hce) by lia.
    assert (En : VIpv6 (pos, 40)
                   (if pos + 40 + xl =? pos + 40 then None else Some (B (pos + 6))) frg
                   (pos + 40, pos + 40 + xl - (pos + 40))
                   (mkVIp num frg sr (pos + 40 + xl, pos + 40 + xl + wl - (pos + 40 + xl)))
                 = VIpv6 (pos, 40) first frg (pos + 40, xl) (mkVIp num frg sr (pos + 40 + xl, wl))).
    { rewrite Hfirst.
      replace (pos + 40 + xl =? pos + 40) with (xl =? 0) by lia.
      replace (pos + 40 + xl - (pos + 40)) with xl by lia.
      replace (pos + 40 + xl + wl - (pos + 40 + xl)) with wl by lia. reflexivity. }
    rewrite En.
    apply (wire_transport_conv p (VIpv6 (pos, 40) first frg (pos + 40, xl)
                                    (mkVIp num frg sr (pos + 40 + xl, wl)))
             (mkVIp num frg sr (pos + 40 + xl, wl)) esrc (pos + 40 + xl) (pos + 40 + xl + wl) t
             Htr eq_refl); [cbn [vip_win]; f_equal; lia|exact Ht1|exact Ht2].
  Qed.

  Lemma wire_ipv6_body_conv p src pos lim h first fr x ip t :
    v_transport p = None -> pos <= lim ->
    net_ok bs (pos, lim - pos) (VIpv6 h first fr x ip) -> net_desc bs (VIpv6 h first fr x ip) ->
    ipv6_rules bs h first x ip ->
    tr_nested bs (Some (VIpv6 h first fr x ip)) t -> tr_dispatch bs (Some (VIpv6 h first fr x ip)) t ->
    wire_ipv6_body bs p src pos lim
      = VOk (mkVPacket (v_link p) (v_exts p) (Some (VIpv6 h first fr x ip)) t).
  Proof.
    intros Htr Hle Hn Hd Hr Ht1 Ht2.
    pose proof Hn as Hn'. pose proof Hd as (_ & _ & Hsrc).
    cbn [net_ok fst snd] in Hn'. cbv zeta in Hn'. unfold wend in Hn'. cbn [fst snd] in Hn'.
    destruct Hn' as (N1 & N2 & N3 & N4 & N5 & N6 & N7). rewrite N1 in *.
    unfold wire_ipv6_body. cbv zeta.
    destruct (N.eqb_spec (W (pos + 4)) 0) as [E|E].
    - specialize (N6 E). destruct (N.ltb_spec 40 (lim - pos)) as [L|L]; cbn [andb].
      + assert (Es : vip_src ip = LsSlice).
        { rewrite Hsrc. btrue (W (pos + 4) =? 0). btrue (0 <? snd x + snd (vip_win ip)). reflexivity. }
        rewrite <- Es.
        apply wire_ipv6_tail_conv; auto; unfold wend; lia.
      + bfalse (lim - pos <? 40 + W (pos + 4)).
        assert (Es : vip_src ip = LsIpv6HeaderPayloadLen).
        { rewrite Hsrc. bfalse (0 <? snd x + snd (vip_win ip)). rewrite andb_false_r. reflexivity. }
        rewrite <- Es.
        apply wire_ipv6_tail_conv; auto; unfold wend; lia.
    - cbn [andb]. assert (P : 0 < W (pos + 4)) by lia. destruct (N7 P) as (N8 & Es).
      bfalse (lim - pos <? 40 + W (pos + 4)). rewrite <- Es.
      apply wire_ipv6_tail_conv; auto; unfold wend; lia.
  Qed.

  Lemma ipv6_ok_bounds pos lim h first fr x ip :
    pos <= lim -> net_ok bs (pos, lim - pos) (VIpv6 h first fr x ip) ->
    fst h = pos /\ 40 <= lim - pos.
  Proof.
    intros Hle. cbn [net_ok fst snd]. cbv zeta. unfold wend. cbn [fst snd].
    intros (N1 & N2 & N3 & N4 & N5 & _). split; [exact N1|lia].
  Qed.

  Lemma wire_ipv6_conv p src pos lim h first fr x ip t :
    v_transport p = None -> pos <= lim ->
    net_ok bs (pos, lim - pos) (VIpv6 h first fr x ip) -> net_desc bs (VIpv6 h first fr x ip) ->
    ipv6_rules bs h first x ip ->
    tr_nested bs (Some (VIpv6 h first fr x ip)) t -> tr_dispatch bs (Some (VIpv6 h first fr x ip)) t ->
    wire_ipv6 bs p src pos lim
      = VOk (mkVPacket (v_link p) (v_exts p) (Some (VIpv6 h first fr x ip)) t).
  Proof.
    intros Htr Hle Hn Hd Hr Ht1 Ht2.
    destruct (ipv6_ok_bounds _ _ _ _ _ _ _ Hle Hn) as (B1 & B2).
    pose proof Hr as (Hv & _). rewrite B1 in Hv.
    unfold wire_ipv6. cbv zeta. bfalse (lim - pos <? 40). btrue (B pos / 16 =? 6). cbn [negb].
    now apply wire_ipv6_body_conv.
  Qed.

  (* ---- network layer: what a described view says about it ---------------------------- *)
  Definition net_given (cur : window) (nn : option vnet) : Prop :=
    match nn with
    | Some n => net_ok bs cur n /\ net_desc bs n /\ net_rules bs n
    | None => True
    end.

  Lemma mk_eta p : v_net p = None -> v_transport p = None ->
    p = mkVPacket (v_link p) (v_exts p) None None.
  Proof. destruct p; cbn. intros -> ->. reflexivity. Qed.

  Lemma tr_none_of_no_payload nn t :
    net_payload nn = None -> tr_dispatch bs nn t -> t = None.
  Proof.
    unfold tr_dispatch. intros ->. destruct t; [contradiction|reflexivity].
  Qed.

  Lemma wire_ip_conv p src pos lim nn t :
    v_transport p = None -> pos <= lim ->
    net_given (pos, lim - pos) nn -> ip_dispatch bs nn ->
    tr_nested bs nn t -> tr_dispatch bs nn t ->
    wire_ip bs p src pos lim = VOk (mkVPacket (v_link p) (v_exts p) nn t).
  Proof.
    intros Htr Hle Hg Hi Ht1 Ht2. unfold wire_ip. cbv zeta.
    destruct nn as [[h a ip|h first fr x ip|w]|]; cbn [ip_dispatch net_given net_rules] in *;
      try contradiction.
    - destruct Hg as (Hn & Hd & Hr).
      destruct (ipv4_ok_bounds _ _ _ _ _ Hle Hn) as (B1 & B2 & B3 & B4).
      pose proof Hr as (Hv & Hi' & _). rewrite B1 in Hv, Hi'.
      bfalse (lim - pos =? 0). btrue (B pos / 16 =? 4).
      bfalse (B pos mod 16 <? 5). bfalse (lim - pos <? B pos mod 16 * 4).
      rewrite <- B2. now apply wire_ipv4_body_conv.
    - destruct Hg as (Hn & Hd & Hr).
      destruct (ipv6_ok_bounds _ _ _ _ _ _ _ Hle Hn) as (B1 & B2).
      pose proof Hr as (Hv & _). rewrite B1 in Hv.
      bfalse (lim - pos =? 0). bfalse (B pos / 16 =? 4). btrue (B pos / 16 =? 6).
      bfalse (lim - pos <? 40). now apply wire_ipv6_body_conv.
  Qed.

  Lemma wire_net_conv p et src pos lim nn t :
    v_net p = None -> v_transport p = None -> pos <= lim ->
    net_given (pos, lim - pos) nn ->
    match nn with Some n => net_kind et n | None => ~ net_type et end ->
    tr_nested bs nn t -> tr_dispatch bs nn t ->
    wire_net bs p et src pos lim = VOk (mkVPacket (v_link p) (v_exts p) nn t).
  Proof.
    intros Hnp Htr Hle Hg Hk Ht1 Ht2. unfold wire_net.
    destruct nn as [[h a ip|h first fr x ip|w]|]; cbn [net_given net_rules net_kind] in *.
    - destruct Hg as (Hn & Hd & Hr). bfalse (et =? 2054). btrue (et =? 2048).
      now apply wire_ipv4_conv.
    - destruct Hg as (Hn & Hd & Hr). bfalse (et =? 2054). bfalse (et =? 2048). btrue (et =? 34525).
      now apply wire_ipv6_conv.
    - destruct Hg as (Hn & _ & _). btrue (et =? 2054).
      rewrite (tr_none_of_no_payload (Some (VArp w)) t eq_refl Ht2).
      destruct w as [wp wl]. cbn [net_ok fst snd] in Hn. unfold wend in Hn. cbn [fst snd] in Hn.
      destruct Hn as (-> & H2 & H3).
      unfold wire_arp, with_net. cbv zeta. rewrite Htr.
      bfalse (lim - pos <? 8). bfalse (lim - pos <? 8 + B (pos + 4) * 2 + B (pos + 5) * 2).
      rewrite <- H2. reflexivity.
    - unfold net_type in Hk. bfalse (et =? 2054). bfalse (et =? 2048). bfalse (et =? 34525).
      rewrite (tr_none_of_no_payload None t eq_refl Ht2).
      f_equal. now apply mk_eta.
  Qed.

  (* ---- link extensions -------------------------------------------------------------- *)
  Definition ann_net_ok (ann : option N) (nn : option vnet) : Prop :=
    match nn with
    | Some n => exists et, ann = Some et /\ net_kind et n
    | None => match ann with None => True | Some et => link_ext_type et \/ ~ net_type et end
    end.

  Lemma vlan_type_is_vlan et : vlan_type et -> is_vlan et = true.
  Proof. unfold vlan_type, is_vlan. lia. Qed.

  Lemma macsec_hl_ge tci : 6 <= macsec_hl tci.
  Proof.
    unfold macsec_hl. destruct ((tci / 4) mod 4 =? 0); destruct (negb ((tci / 32) mod 2 =? 0)); lia.
  Qed.

  Lemma stop_conv p xs nn t ann :
    v_net p = None -> v_transport p = None ->
    exts_dispatch bs ann xs -> (ann = None \/ exists et, ann = Some et /\ link_ext_type et /\ xs = []) ->
    ann_net_ok (exts_announced bs ann xs) nn -> tr_dispatch bs nn t ->
    p = mkVPacket (v_link p) (v_exts p ++ xs) nn t.
  Proof.
    intros Hn Ht Hx Hs Ha Htr.
    assert (Exs : xs = []).
    { destruct Hs as [->|(et & _ & _ & E)]; [|exact E]. destruct xs; [reflexivity|contradiction]. }
    subst xs. cbn [exts_announced] in Ha. rewrite app_nil_r.
    assert (Enn : nn = None).
    { destruct nn as [n|]; [|reflexivity]. exfalso. destruct Ha as (et' & E & Hk).
      destruct Hs as [->|(et & -> & Hl & _)]; [discriminate|]. injection E as <-.
      exact (net_type_not_link_ext _ (net_kind_type _ _ Hk) Hl). }
    subst nn. rewrite (tr_none_of_no_payload None t eq_refl Htr). now apply mk_eta.
  Qed.

  Lemma wire_ether_conv : forall xs cap p et src pos lim nn t,
    v_net p = None -> v_transport p = None -> pos <= lim ->
    exts_nested bs (pos, lim - pos) xs -> exts_dispatch bs (Some et) xs ->
    (length xs <= cap)%nat ->
    (forall et', exts_announced bs (Some et) xs = Some et' -> link_ext_type et' -> length xs = cap) ->
    net_given (exts_final (pos, lim - pos) xs) nn ->
    ann_net_ok (exts_announced bs (Some et) xs) nn ->
    tr_nested bs nn t -> tr_dispatch bs nn t ->
    wire_ether bs cap p et src pos lim = VOk (mkVPacket (v_link p) (v_exts p ++ xs) nn t).
  Proof.
    induction xs as [|x r IH]; intros cap p et src pos lim nn t Hnp Htr Hle Hxn Hxd Hlen Hcap Hg Ha Ht1 Ht2.
    - cbn [exts_final exts_announced length] in *.
      destruct (is_vlan et) eqn:Ev.
      { assert (Hl : link_ext_type et) by (left; now apply is_vlan_true).
        pose proof (Hcap et eq_refl Hl) as Hc. destruct cap; [|discriminate].
        cbn [wire_ether]. rewrite Ev. f_equal.
        apply (stop_conv p [] nn t (Some et) Hnp Htr I); [|exact Ha|exact Ht2].
        right. exists et. auto. }
      destruct (N.eqb_spec et 35045) as [Em|Em].
      { assert (Hl : link_ext_type et) by (right; exact Em).
        pose proof (Hcap et eq_refl Hl) as Hc. destruct cap; [|discriminate].
        cbn [wire_ether]. rewrite Ev. btrue (et =? 35045). f_equal.
        apply (stop_conv p [] nn t (Some et) Hnp Htr I); [|exact Ha|exact Ht2].
        right. exists et. auto. }
      assert (Hnl : ~ link_ext_type et).
      { intros [Hv|Hm]; [exact (is_vlan_false _ Ev Hv)|exact (Em Hm)]. }
      assert (Hw : wire_net bs p et src pos lim = VOk (mkVPacket (v_link p) (v_exts p ++ []) nn t)).
      { rewrite app_nil_r. apply wire_net_conv; auto.
        destruct nn as [n|]; cbn [ann_net_ok] in Ha.
        - destruct Ha as (et' & E & Hk). injection E as <-. exact Hk.
        - destruct Ha as [Hl|Hn]; [contradiction|exact Hn]. }
      destruct cap; cbn [wire_ether]; cbv zeta; rewrite Ev; bfalse (et =? 35045); exact Hw.
    - cbn [exts_nested exts_dispatch exts_final exts_announced length] in *.
      destruct Hxn as (Hok & Hrn). destruct Hxd as (Hk & Hr & Hrd).
      destruct cap as [|c]; [lia|].
      replace (v_exts p ++ x :: r) with ((v_exts p ++ [x]) ++ r)
        by (rewrite <- app_assoc; reflexivity).
      destruct x as [w|h pl].
      + cbn [ext_ok ext_kind] in Hok, Hk. destruct Hok as (-> & H4). cbn [snd] in H4.
        cbn [wire_ether]. cbv zeta. rewrite (vlan_type_is_vlan _ Hk). bfalse (lim - pos <? 4).
        assert (Ep : ext_payload (VVlan (pos, lim - pos)) = (pos + 4, lim - (pos + 4)))
          by (cbn [ext_payload fst snd]; f_equal; lia).
        rewrite Ep in *. cbn [ext_announces fst] in *.
        refine (IH c (with_ext p (VVlan (pos, lim - pos))) _ src _ lim nn t Hnp Htr _ Hrn Hrd _ _ Hg Ha Ht1 Ht2);
          [lia|lia|].
        intros et' E Hl. specialize (Hcap et' E Hl). lia.
      + destruct h as [hp hl]. cbn [ext_ok ext_kind ext_rules fst snd macsec_payload_win] in Hok, Hk, Hr.
        cbv zeta in Hok. unfold wend in Hok. cbn [fst snd] in Hok.
        destruct Hok as (-> & -> & O3 & O4 & O5 & O6 & O7). destruct Hr as (R1 & R2).
        unfold macsec_type in Hk. subst et.
        pose proof (macsec_hl_ge (B pos)) as Hge.
        cbn [wire_ether]. cbv zeta.
        fold (macsec_hl (B pos)). fold (macsec_body (B pos) (B (pos + 1) mod 64)).
        change (is_vlan 35045) with false. change (35045 =? 35045) with true. cbv iota.
        set (hl := macsec_hl (B pos)) in *. set (sl := B (pos + 1) mod 64) in *.
        set (body := macsec_body (B pos) sl) in *.
        assert (Hpw : pos + hl <= fst (macsec_payload_win pl) + snd (macsec_payload_win pl)) by lia.
        bfalse (lim - pos <? 6). bfalse (128 <=? B pos).
        assert (E3 : ((B pos / 4) mod 4 =? 0) && (sl =? 1) = false).
        { destruct (N.eqb_spec ((B pos / 4) mod 4) 0) as [A|A]; [|reflexivity].
          destruct (N.eqb_spec sl 1) as [A2|A2]; [|reflexivity]. exfalso. apply R2. auto. }
        rewrite E3. bfalse (lim - pos <? hl).
        assert (E5 : (0 <? sl) && (lim - pos <? hl + body) = false).
        { destruct (N.ltb_spec 0 sl) as [A|A]; [|reflexivity]. cbn [andb]. specialize (O6 A). lia. }
        rewrite E5.
        assert (Elim : (if 0 <? sl then pos + hl + body else lim)
                       = fst (macsec_payload_win pl) + snd (macsec_payload_win pl)).
        { destruct (N.ltb_spec 0 sl) as [A|A]; [rewrite (O6 A); reflexivity|rewrite O5 by lia; lia]. }
        rewrite Elim.
        destruct pl as [[ety esrc [ewp ewl]]|[mwp mwl]];
          cbn [macsec_payload_win vep_win vep_type vep_src fst snd] in *.
        * destruct O7 as (U1 & U2 & U3). subst ewp. btrue ((B pos / 4) mod 4 =? 0).
          replace (pos + hl + ewl - (pos + hl)) with ewl by lia.
          replace (if 0 <? sl then LsMacsecShortLength else LsSlice) with esrc
            by (rewrite U3; destruct (N.eqb_spec sl 0); destruct (N.ltb_spec 0 sl); try reflexivity; lia).
          subst ety.
          cbn [ext_announces fst snd] in *.
          assert (Ep : (pos + hl, ewl) = (pos + hl, pos + hl + ewl - (pos + hl))) by (f_equal; lia).
          rewrite Ep in Hrn, Hg.
          refine (IH c (with_ext p (VMacsec (pos, hl)
                                      (VMpUnmodified (mkVEp (W (pos + hl - 2)) esrc (pos + hl, ewl)))))
                    _ _ _ (pos + hl + ewl) nn t Hnp Htr _ Hrn Hrd _ _ Hg Ha Ht1 Ht2); [lia|lia|].
          intros et' E Hl. specialize (Hcap et' E Hl). lia.
        * bfalse ((B pos / 4) mod 4 =? 0). subst mwp.
          replace (pos + hl + mwl - (pos + hl)) with mwl by lia.
          cbn [ext_announces] in *.
          f_equal.
          assert (Hs : with_ext p (VMacsec (pos, hl) (VMpModified (pos + hl, mwl)))
                       = mkVPacket (v_link (with_ext p (VMacsec (pos, hl) (VMpModified (pos + hl, mwl)))))
                           (v_exts (with_ext p (VMacsec (pos, hl) (VMpModified (pos + hl, mwl)))) ++ r) nn t).
          { apply (stop_conv (with_ext p (VMacsec (pos, hl) (VMpModified (pos + hl, mwl)))) r nn t None
                     Hnp Htr Hrd); [left; reflexivity|exact Ha|exact Ht2]. }
          exact Hs.
  Qed.

  (* ---- entry points ------------------------------------------------------------------ *)
  Lemma cap_of_net_dispatch ann k nn :
    net_dispatch bs ann k nn -> forall et', ann = Some et' -> link_ext_type et' -> k = 3%nat.
  Proof.
    unfold net_dispatch. intros H et' -> Hl. destruct nn as [n|].
    - exfalso. destruct H as ((et & E & Hk) & _). injection E as <-.
      exact (net_type_not_link_ext _ (net_kind_type _ _ Hk) Hl).
    - cbn [no_net_cause] in H. destruct H as [(_ & H)|(H & _)]; [exact H|contradiction].
  Qed.

  Lemma ann_net_ok_of_dispatch ann k nn : net_dispatch bs ann k nn -> ann_net_ok ann nn.
  Proof.
    unfold net_dispatch, ann_net_ok. destruct nn as [n|]; [intros (H & _); exact H|].
    destruct ann as [et|]; [|auto]. cbn [no_net_cause]. intros [(H & _)|(_ & H)]; auto.
  Qed.

  Lemma net_given_of cur nn :
    match nn with None => True | Some n => net_ok bs cur n end ->
    match nn with None => True | Some n => net_desc bs n end ->
    match nn with None => True | Some n => net_rules bs n end ->
    net_given cur nn.
  Proof. destruct nn; cbn [net_given]; auto. Qed.

  Lemma net_rules_of_dispatch ann k nn :
    net_dispatch bs ann k nn -> match nn with None => True | Some n => net_rules bs n end.
  Proof. unfold net_dispatch. destruct nn; [intros (_ & H); exact H|auto]. Qed.

  Lemma net_rules_of_ip nn :
    ip_dispatch bs nn -> match nn with None => True | Some n => net_rules bs n end.
  Proof. destruct nn as [[| |]|]; cbn [ip_dispatch net_rules]; auto. Qed.

  Theorem wire_ethernet_conv v :
    nested bs v -> desc bs v -> dispatch bs EnEthernet v -> wire_ethernet bs = VOk v.
  Proof.
    intros (Hl & Hx & Hn & Ht) Hd (Dl & Dc & Dx & Dn & Dt). unfold desc in Hd.
    destruct v as [l xs nn t]. cbn [v_link v_exts v_net v_transport] in *.
    destruct l as [[w|h w|ep]|]; cbn [link_dispatch] in Dl; try contradiction.
    cbn [link_ok link_payload first_type] in *. destruct Hl as (-> & H14). cbn [fst snd] in *.
    unfold wire_ethernet, n_bs. bfalse (len bs <? 14).
    apply (wire_ether_conv xs 3 (mkVPacket (Some (VEthernet2 (0, len bs))) [] None None) (W 12)
             LsSlice 14 (len bs) nn t eq_refl eq_refl H14 Hx Dx Dc).
    - exact (cap_of_net_dispatch _ _ _ Dn).
    - exact (net_given_of _ _ Hn Hd (net_rules_of_dispatch _ _ _ Dn)).
    - exact (ann_net_ok_of_dispatch _ _ _ Dn).
    - exact Ht.
    - exact Dt.
  Qed.

  Theorem wire_linux_sll_conv v :
    nested bs v -> desc bs v -> dispatch bs EnLinuxSll v -> wire_linux_sll bs = VOk v.
  Proof.
    intros (Hl & Hx & Hn & Ht) Hd (Dl & Dc & Dx & Dn & Dt). unfold desc in Hd.
    destruct v as [l xs nn t]. cbn [v_link v_exts v_net v_transport] in *.
    destruct l as [[w|h w|ep]|]; cbn [link_dispatch] in Dl; try contradiction.
    cbn [link_ok link_payload first_type] in *. destruct Hl as (-> & -> & H16). cbn [fst snd] in *.
    destruct Dl as (D0 & Dhw).
    unfold wire_linux_sll, n_bs. cbv zeta. bfalse (len bs <? 16). bfalse (7 <? W 0).
    rewrite Dhw. cbn [negb].
    destruct ((W 2 =? 1) && negb (sll_nonstandard (W 14))).
    - apply (wire_ether_conv xs 3 (mkVPacket (Some (VLinuxSll (0, 16) (0, len bs))) [] None None) (W 14)
               LsSlice 16 (len bs) nn t eq_refl eq_refl H16 Hx Dx Dc).
      + exact (cap_of_net_dispatch _ _ _ Dn).
      + exact (net_given_of _ _ Hn Hd (net_rules_of_dispatch _ _ _ Dn)).
      + exact (ann_net_ok_of_dispatch _ _ _ Dn).
      + exact Ht.
      + exact Dt.
    - f_equal.
      apply (stop_conv (mkVPacket (Some (VLinuxSll (0, 16) (0, len bs))) [] None None) xs nn t None
               eq_refl eq_refl Dx); [left; reflexivity| |exact Dt].
      exact (ann_net_ok_of_dispatch _ _ _ Dn).
  Qed.

  Theorem wire_ether_type_conv et v :
    nested bs v -> desc bs v -> dispatch bs (EnEtherType et) v -> wire_ether_type bs et = VOk v.
  Proof.
    intros (Hl & Hx & Hn & Ht) Hd (Dl & Dc & Dx & Dn & Dt). unfold desc in Hd.
    destruct v as [l xs nn t]. cbn [v_link v_exts v_net v_transport] in *.
    destruct l as [[w|h w|ep]|]; cbn [link_dispatch] in Dl; try contradiction.
    destruct ep as [ety esrc ewin].
    cbn [link_ok link_payload first_type vep_type vep_src vep_win] in *.
    destruct Hl as (-> & ->). subst ety.
    unfold wire_ether_type, n_bs.
    assert (E0 : (0, len bs) = (0, len bs - 0)) by (f_equal; lia).
    rewrite E0 in Hx, Hn.
    apply (wire_ether_conv xs 3 (mkVPacket (Some (VEtherPayload (mkVEp et LsSlice (0, len bs)))) [] None None)
             et LsSlice 0 (len bs) nn t eq_refl eq_refl (N.le_0_l _) Hx Dx Dc).
    - exact (cap_of_net_dispatch _ _ _ Dn).
    - exact (net_given_of _ _ Hn Hd (net_rules_of_dispatch _ _ _ Dn)).
    - exact (ann_net_ok_of_dispatch _ _ _ Dn).
    - exact Ht.
    - exact Dt.
  Qed.

  Theorem wire_from_ip_conv v :
    nested bs v -> desc bs v -> dispatch bs EnIp v -> wire_from_ip bs = VOk v.
  Proof.
    intros (Hl & Hx & Hn & Ht) Hd (Dl & Dc & Dx & Dn & Dt). unfold desc in Hd.
    destruct v as [l xs nn t]. cbn [v_link v_exts v_net v_transport] in *.
    destruct l as [l|]; cbn [link_dispatch] in Dl; try contradiction.
    cbn [first_type] in Dx. destruct xs as [|x r]; [|contradiction].
    cbn [link_payload exts_final] in Hn.
    unfold wire_from_ip, n_bs, empty_packet.
    assert (E0 : (0, len bs) = (0, len bs - 0)) by (f_equal; lia).
    rewrite E0 in Hn.
    apply (wire_ip_conv (mkVPacket None [] None None) LsSlice 0 (len bs) nn t eq_refl (N.le_0_l _)).
    - exact (net_given_of _ _ Hn Hd (net_rules_of_ip _ Dn)).
    - exact Dn.
    - exact Ht.
    - exact Dt.
  Qed.
End Accepts.

(* ---- accepted <-> described ------------------------------------------------------------ *)
Definition wire_of (bs : bytes) (e : entry) : vres :=
  match e with
  | EnEthernet => wire_ethernet bs
  | EnLinuxSll => wire_linux_sll bs
  | EnEtherType et => wire_ether_type bs et
  | EnIp => wire_from_ip bs
  end.

Theorem wire_accepts_iff bs e v :
  wire_of bs e = VOk v <-> nested bs v /\ desc bs v /\ dispatch bs e v.
Proof.
  split.
  - destruct e as [| |et|]; cbn [wire_of]; intros H.
    + split; [now apply wire_ethernet_nested|].
      split; [now apply wire_ethernet_desc|now apply wire_ethernet_dispatch].
    + split; [now apply wire_linux_sll_nested|].
      split; [now apply wire_linux_sll_desc|now apply wire_linux_sll_dispatch].
    + split; [exact (wire_ether_type_nested bs et v H)|].
      split; [exact (wire_ether_type_desc bs et v H)|exact (wire_ether_type_dispatch bs et v H)].
    + split; [now apply wire_from_ip_nested|].
      split; [now apply wire_from_ip_desc|now apply wire_from_ip_dispatch].
  - intros (Hn & Hd & Hx). destruct e as [| |et|]; cbn [wire_of].
    + now apply wire_ethernet_conv.
    + now apply wire_linux_sll_conv.
    + now apply wire_ether_type_conv.
    + now apply wire_from_ip_conv.
Qed.

(* the described view of a byte string is unique *)
Corollary described_unique bs e v v' :
  nested bs v /\ desc bs v /\ dispatch bs e v ->
  nested bs v' /\ desc bs v' /\ dispatch bs e v' -> v = v'.
Proof.
  intros H H'. apply wire_accepts_iff in H. apply wire_accepts_iff in H'.
  rewrite H in H'. now injection H'.
Qed.

(* the reference decoder rejects exactly the byte strings that have no described view *)
Corollary wire_rejects_iff bs e :
  (forall v, wire_of bs e <> VOk v) <-> (forall v, ~ (nested bs v /\ desc bs v /\ dispatch bs e v)).
Proof.
  split; intros H v Hv; apply (H v); now apply wire_accepts_iff.
Qed.
