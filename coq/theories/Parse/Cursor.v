(* Parse/Cursor.v -- transliteration of sliced_packet_cursor.rs and of the four
   entry points of sliced_packet.rs (from_ethernet, from_linux_sll,
   from_ether_type, from_ip).  `offset` and `len_source` are threaded exactly
   as the Rust cursor does; sub-slice positions come from the pointer model. *)
From EP Require Import Base.Bytes Parse.Types Parse.Slices.

Inductive link_slice :=
| LkEthernet2 (s : slice)
| LkLinuxSll (hdr whole : slice)
| LkEtherPayload (e : ether_payload).

Inductive link_ext_slice :=
| LeVlan (s : slice)
| LeMacsec (m : macsec_slice).

Inductive net_slice :=
| NtIpv4 (v : ipv4_slice)
| NtIpv6 (v : ipv6_slice)
| NtArp (s : slice).

Inductive transport_slice :=
| TrUdp (s : slice)
| TrTcp (header_len : N) (s : slice)
| TrIcmpv4 (s : slice)
| TrIcmpv6 (s : slice).

Record sliced_packet := mkSliced {
  sp_link : option link_slice;
  sp_exts : list link_ext_slice;   (* ArrayVec<_, 3> *)
  sp_net : option net_slice;
  sp_transport : option transport_slice;
}.

Record cursor := mkCursor {
  c_offset : N;
  c_src : len_source;
  c_result : sliced_packet;
}.

Definition LINK_EXTS_CAP : N := 3.

Module SlicedPacketCursor.
  Definition new : cursor := mkCursor 0 LsSlice (mkSliced None [] None None).

  Definition set_link (c : cursor) (off : N) (l : link_slice) : cursor :=
    let r := c_result c in
    mkCursor off (c_src c) (mkSliced (Some l) (sp_exts r) (sp_net r) (sp_transport r)).
  Definition push_ext (c : cursor) (off : N) (src : len_source) (x : link_ext_slice) : res cursor :=
    let r := c_result c in
    if len (sp_exts r) <? LINK_EXTS_CAP then
      Ok (mkCursor off src (mkSliced (sp_link r) (sp_exts r ++ [x]) (sp_net r) (sp_transport r)))
    else Bug SITE_PUSH.
  Definition set_net (c : cursor) (off : N) (src : len_source) (n : net_slice) : cursor :=
    let r := c_result c in
    mkCursor off src (mkSliced (sp_link r) (sp_exts r) (Some n) (sp_transport r)).
  Definition set_transport (c : cursor) (t : transport_slice) : sliced_packet :=
    let r := c_result c in
    mkSliced (sp_link r) (sp_exts r) (sp_net r) (Some t).

  (* the fix-up of the four transport slicers *)
  Definition tr_fix (c : cursor) (e : len_error) : len_error :=
    let e1 := le_add_offset e (c_offset c) in
    match le_src e1 with
    | LsSlice => le_set_src e1 (c_src c)
    | _ => e1
    end.

  Definition slice_icmp4 (c : cursor) (s : slice) : res sliced_packet :=
    let* r := map_len_err (tr_fix c) (Icmpv4Slice.from_slice s) in
    Ok (set_transport c (TrIcmpv4 r)).
  Definition slice_icmp6 (c : cursor) (s : slice) : res sliced_packet :=
    let* r := map_len_err (tr_fix c) (Icmpv6Slice.from_slice s) in
    Ok (set_transport c (TrIcmpv6 r)).
  Definition slice_udp (c : cursor) (s : slice) : res sliced_packet :=
    let* r := map_len_err (tr_fix c) (UdpSlice.from_slice s) in
    Ok (set_transport c (TrUdp r)).
  Definition slice_tcp (c : cursor) (s : slice) : res sliced_packet :=
    let* r := map_len_err (tr_fix c) (TcpSlice.from_slice s) in
    Ok (set_transport c (TrTcp (fst r) (snd r))).

  Definition slice_arp (c : cursor) (s : slice) : res sliced_packet :=
    let* r := map_len_err (fun e => le_add_offset e (c_offset c)) (ArpPacketSlice.from_slice s) in
    let c' := set_net c (c_offset c + s_len r) (c_src c) (NtArp r) in
    Ok (c_result c').

  (* payload.payload.as_ptr().offset_from(slice.as_ptr()) as usize *)
  Definition ptr_diff (p s : slice) : res N := subN (s_off p) (s_off s).

  (* the transport dispatch at the end of slice_ip / slice_ipv4 / slice_ipv6
     (all three match on the same four numbers) *)
  Definition transport_dispatch (c : cursor) (p : ip_payload) : res sliced_packet :=
    if ipp_fragmented p then Ok (c_result c)
    else if ipp_number p =? IPN_ICMP then slice_icmp4 c (ipp_slice p)
    else if ipp_number p =? IPN_UDP then slice_udp c (ipp_slice p)
    else if ipp_number p =? IPN_TCP then slice_tcp c (ipp_slice p)
    else if ipp_number p =? IPN_ICMPV6 then slice_icmp6 c (ipp_slice p)
    else Ok (c_result c).

  Definition slice_ip (c : cursor) (s : slice) : res sliced_packet :=
    let* ip := map_len_err (fun e => le_add_offset e (c_offset c)) (IpSlice.from_slice s) in
    let payload := IpSlice.payload ip in
    let* d := ptr_diff (ipp_slice payload) s in
    let c' := set_net c (c_offset c + d) (ipp_src payload)
                (match ip with IpV4 v => NtIpv4 v | IpV6 v => NtIpv6 v end) in
    transport_dispatch c' payload.

  Definition slice_ipv4 (c : cursor) (s : slice) : res sliced_packet :=
    let* ip := map_len_err (fun e => le_add_offset e (c_offset c)) (Ipv4Slice.from_slice s) in
    let payload := v4_payload ip in
    let* d := ptr_diff (ipp_slice payload) s in
    let c' := set_net c (c_offset c + d) (ipp_src payload) (NtIpv4 ip) in
    transport_dispatch c' payload.

  Definition slice_ipv6 (c : cursor) (s : slice) : res sliced_packet :=
    let* ip := map_len_err (fun e => le_add_offset e (c_offset c)) (Ipv6Slice.from_slice s) in
    let payload := v6_payload ip in
    let* d := ptr_diff (ipp_slice payload) s in
    let c' := set_net c (c_offset c + d) (ipp_src payload) (NtIpv6 ip) in
    transport_dispatch c' payload.

  Definition is_vlan_type (et : N) : bool :=
    (et =? ET_VLAN) || (et =? ET_QINQ) || (et =? ET_VLAN_DOUBLE).

  (* the `loop` of slice_ether_type: at most LINK_EXTS_CAP + 1 iterations *)
  Fixpoint slice_ether_type_loop (fuel : nat) (c : cursor) (ep : ether_payload)
    : res sliced_packet :=
    match fuel with
    | O => Bug SITE_FUEL
    | S f =>
        let et := ep_ether_type ep in
        if is_vlan_type et then
          if LINK_EXTS_CAP <=? len (sp_exts (c_result c)) then Ok (c_result c)
          else
            let* vlan := map_len_err (fun e => le_add_offset e (c_offset c))
                           (SingleVlanSlice.from_slice (ep_slice ep)) in
            let* vp := SingleVlanSlice.payload vlan in
            let* c' := push_ext c (c_offset c + SingleVlanSlice.header_len) (c_src c) (LeVlan vlan) in
            slice_ether_type_loop f c' vp
        else if et =? ET_MACSEC then
          if LINK_EXTS_CAP <=? len (sp_exts (c_result c)) then Ok (c_result c)
          else
            let* macsec := map_len_err (fun e => le_add_offset e (c_offset c))
                             (Macsec.from_slice (ep_slice ep)) in
            let* hl := Macsec.header_len (ms_header macsec) in
            let* sl := Macsec.short_len (ms_header macsec) in
            let src := if 0 <? sl then LsMacsecShortLength else c_src c in
            let* c' := push_ext c (c_offset c + hl) src (LeMacsec macsec) in
            match ms_payload macsec with
            | MpUnmodified e => slice_ether_type_loop f c' e
            | MpModified _ => Ok (c_result c')
            end
        else if et =? ET_ARP then slice_arp c (ep_slice ep)
        else if et =? ET_IPV4 then slice_ipv4 c (ep_slice ep)
        else if et =? ET_IPV6 then slice_ipv6 c (ep_slice ep)
        else Ok (c_result c)
    end.

  Definition slice_ether_type (c : cursor) (ep : ether_payload) : res sliced_packet :=
    slice_ether_type_loop 5 c ep.

  Definition slice_ethernet2 (c : cursor) (s : slice) : res sliced_packet :=
    let* r := map_len_err (fun e => le_add_offset e (c_offset c))
                (Ethernet2Slice.from_slice_without_fcs s) in
    let* ep := Ethernet2Slice.payload r in
    let c' := set_link c (c_offset c + Ethernet2Slice.header_len) (LkEthernet2 r) in
    slice_ether_type c' ep.

  Definition slice_linux_sll (c : cursor) (s : slice) : res sliced_packet :=
    let* r := map_len_err (fun e => le_add_offset e (c_offset c)) (LinuxSll.from_slice s) in
    let '(h, whole) := r in
    let* pt := LinuxSll.protocol_type h in
    let* pl := LinuxSll.payload_slice whole in
    let c' := set_link c (c_offset c + 16) (LkLinuxSll h whole) in
    match pt with
    | SllEtherType et => slice_ether_type c' (mkEtherPayload et LsSlice pl)
    | _ => Ok (c_result c')
    end.
End SlicedPacketCursor.

Module SlicedPacket.
  Import SlicedPacketCursor.
  Definition from_ethernet (data : bytes) : res sliced_packet :=
    slice_ethernet2 new (mk_slice data).
  Definition from_linux_sll (data : bytes) : res sliced_packet :=
    slice_linux_sll new (mk_slice data).
  Definition from_ether_type (ether_type : N) (data : bytes) : res sliced_packet :=
    let ep := mkEtherPayload ether_type LsSlice (mk_slice data) in
    slice_ether_type (set_link new 0 (LkEtherPayload ep)) ep.
  Definition from_ip (data : bytes) : res sliced_packet :=
    slice_ip new (mk_slice data).
End SlicedPacket.
