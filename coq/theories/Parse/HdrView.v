(* Parse/HdrView.v -- what an observer sees of a PacketHeaders value, and the
   conversion of a slicing result to the same view ("to_header() of every slice
   plus the innermost payload").

   A header struct is seen as the window of the input it was decoded from
   (offset, length): its fields are functions of these bytes.  The payload is
   seen as its kind, the numbers that identify its content (ether type / IP
   number, fragmentation flag, length source) and its window. *)
From EP Require Import Base.Bytes Parse.Types Parse.Slices Parse.Cursor Parse.View Parse.HdrModel.

Local Open Scope N_scope.

Inductive hvext := HvVlan (w : window) | HvMacsec (w : window).

Inductive hvnet :=
| HvIpv4 (hdr : window) (auth : option window)
| HvIpv6 (hdr : window) (first : option N) (frag : bool) (exts : window)
| HvArp (w : window).

Inductive hvtr :=
| HvUdp (w : window) | HvTcp (w : window) | HvIcmpv4 (w : window) | HvIcmpv6 (w : window).

Inductive hvpayload :=
| HvpEmpty
| HvpEther (e : vether_payload)
| HvpMacsecMod (w : window)
| HvpIp (p : vip_payload)
| HvpUdp (w : window) | HvpTcp (w : window) | HvpIcmpv4 (w : window) | HvpIcmpv6 (w : window).

Record hview := mkHv {
  hv_link : option window;
  hv_exts : list hvext;
  hv_net : option hvnet;
  hv_tr : option hvtr;
  hv_payload : hvpayload }.

(* ---- view of the struct family's result --------------------------------- *)
Definition olen (o : option slice) : N := match o with Some s => s_len s | None => 0 end.

(* Ipv6Extensions::header_len(): sum of the lengths of the filled slots *)
Definition exts6_len (x : exts6) : N :=
  olen (x_hbh x) + olen (x_dest x) + olen (x_route x) + olen (x_fdest x) + olen (x_frag x)
  + olen (x_auth x).

Definition exts6_any (x : exts6) : bool :=
  is_some (x_hbh x) || is_some (x_dest x) || is_some (x_route x) || is_some (x_fdest x)
  || is_some (x_frag x) || is_some (x_auth x).

Definition hview_payload (p : hpayload) : hvpayload :=
  match p with
  | HpEmpty => HvpEmpty
  | HpEther e => HvpEther (view_ep e)
  | HpMacsecMod s => HvpMacsecMod (win_of s)
  | HpIp i => HvpIp (view_ipp i)
  | HpUdp s => HvpUdp (win_of s)
  | HpTcp s => HvpTcp (win_of s)
  | HpIcmpv4 s => HvpIcmpv4 (win_of s)
  | HpIcmpv6 s => HvpIcmpv6 (win_of s)
  end.

(* The extension headers of an IPv6 packet directly follow its 40 byte header;
   the struct remembers their lengths, the first one is announced by the
   header's next_header field (byte 6), the fragmentation flag is that of the
   fragment slot. *)
Definition hview_net (n : hnet) : res hvnet :=
  match n with
  | HnArp s => Ok (HvArp (win_of s))
  | HnIp (IhV4 h a) => Ok (HvIpv4 (win_of h) (option_map win_of a))
  | HnIp (IhV6 h x) =>
      let* nh := Ipv6HeaderSlice.next_header h in
      let* fr := Ipv6Extensions.is_fragmenting_payload x in
      Ok (HvIpv6 (win_of h) (if exts6_any x then Some nh else None) fr
                 (s_off h + 40, exts6_len x))
  end.

Definition hview_tr (t : htransport) : hvtr :=
  match t with
  | HtUdp h => HvUdp (win_of h)
  | HtTcp h => HvTcp (win_of h)
  | HtIcmpv4 h => HvIcmpv4 (win_of h)
  | HtIcmpv6 h => HvIcmpv6 (win_of h)
  end.

Definition hview_ext (x : hlink_ext) : hvext :=
  match x with HxVlan h => HvVlan (win_of h) | HxMacsec h => HvMacsec (win_of h) end.

Definition hview_of (p : hpacket) : res hview :=
  let* n := (match h_net p with
             | Some n => let* v := hview_net n in Ok (Some v)
             | None => Ok None
             end) in
  Ok (mkHv (option_map win_of (h_link p)) (map hview_ext (h_exts p)) n
           (option_map hview_tr (h_transport p)) (hview_payload (h_payload p))).

(* ---- conversion of a slicing result ------------------------------------- *)
(* to_header() of a slice decodes the header bytes at the start of the slice *)
Definition conv_link (l : link_slice) : option window :=
  match l with
  | LkEthernet2 s => Some (s_off s, 14)
  | LkLinuxSll h _ => Some (win_of h)
  | LkEtherPayload _ => None
  end.

Definition conv_ext (x : link_ext_slice) : hvext :=
  match x with
  | LeVlan s => HvVlan (s_off s, 4)
  | LeMacsec m => HvMacsec (win_of (ms_header m))
  end.

Definition conv_net (n : net_slice) : hvnet :=
  match n with
  | NtIpv4 v => HvIpv4 (win_of (v4_header v)) (option_map win_of (v4_auth v))
  | NtIpv6 v => HvIpv6 (win_of (v6_header v)) (x6_first (v6_exts v)) (x6_fragmented (v6_exts v))
                  (win_of (x6_slice (v6_exts v)))
  | NtArp s => HvArp (win_of s)
  end.

(* header() / to_header() and payload() of the transport slices *)
Definition conv_tr (t : transport_slice) : res (hvtr * hvpayload) :=
  match t with
  | TrUdp s => Ok (HvUdp (s_off s, 8), HvpUdp (s_off s + 8, s_len s - 8))
  | TrTcp hl s => Ok (HvTcp (s_off s, hl), HvpTcp (s_off s + hl, s_len s - hl))
  | TrIcmpv4 s =>
      let* hl := Icmpv4Acc.header_len s in
      Ok (HvIcmpv4 (s_off s, hl), HvpIcmpv4 (s_off s + hl, s_len s - hl))
  | TrIcmpv6 s => Ok (HvIcmpv6 (s_off s, 8), HvpIcmpv6 (s_off s + 8, s_len s - 8))
  end.

(* SlicedPacket::ether_payload(): the length source is MacsecShortLength as soon
   as one MACsec header in front carries a short length *)
Fixpoint exts_src (l : list link_ext_slice) (acc : len_source) : res len_source :=
  match l with
  | [] => Ok acc
  | LeVlan _ :: r => exts_src r acc
  | LeMacsec m :: r =>
      let* sl := Macsec.short_len (ms_header m) in
      exts_src r (if 0 <? sl then LsMacsecShortLength else acc)
  end.

Definition conv_ether_payload (p : sliced_packet) : res hvpayload :=
  match last (map Some (sp_exts p)) None with
  | Some (LeVlan s) =>
      let* src := exts_src (sp_exts p) LsSlice in
      let* e := SingleVlanSlice.payload s in
      Ok (HvpEther (mkVEp (ep_ether_type e) src (win_of (ep_slice e))))
  | Some (LeMacsec m) =>
      match ms_payload m with
      | MpUnmodified e =>
          let* src := exts_src (sp_exts p) LsSlice in
          Ok (HvpEther (mkVEp (ep_ether_type e) src (win_of (ep_slice e))))
      | MpModified s => Ok (HvpMacsecMod (win_of s))
      end
  | None =>
      match sp_link p with
      | Some (LkEthernet2 s) =>
          let* e := Ethernet2Slice.payload s in
          Ok (HvpEther (view_ep e))
      | Some (LkEtherPayload e) => Ok (HvpEther (view_ep e))
      | _ => Ok HvpEmpty
      end
  end.

(* the innermost payload: of the transport slice if there is one, else of the
   IP slice, nothing behind ARP, else the last ether payload *)
Definition conv (p : sliced_packet) : res hview :=
  let* tp :=
    (match sp_transport p with
     | Some t => let* r := conv_tr t in Ok (Some (fst r), snd r)
     | None =>
         match sp_net p with
         | Some (NtIpv4 v) => Ok (None, HvpIp (view_ipp (v4_payload v)))
         | Some (NtIpv6 v) => Ok (None, HvpIp (view_ipp (v6_payload v)))
         | Some (NtArp _) => Ok (None, HvpEmpty)
         | None => let* e := conv_ether_payload p in Ok (None, e)
         end
     end) in
  Ok (mkHv (match sp_link p with Some l => conv_link l | None => None end)
           (map conv_ext (sp_exts p)) (option_map conv_net (sp_net p)) (fst tp) (snd tp)).

(* ---- comparison ---------------------------------------------------------- *)
Inductive hvres := HOk (v : hview) | HErr (e : slice_error) | HBug (site : N).

Definition hvres_of_h (r : res hpacket) : hvres :=
  match r with
  | Ok p => match hview_of p with Ok v => HOk v | Err e => HErr e | Bug b => HBug b end
  | Err e => HErr e
  | Bug b => HBug b
  end.

Definition hvres_of_s (r : res sliced_packet) : hvres :=
  match r with
  | Ok p => match conv p with Ok v => HOk v | Err e => HErr e | Bug b => HBug b end
  | Err e => HErr e
  | Bug b => HBug b
  end.

(* struct decoding and (converted) slicing give the same answer: the same
   headers and payload, or the same error record; neither is Bug *)
Definition hagree (h : res hpacket) (s : res sliced_packet) : Prop :=
  hvres_of_h h = hvres_of_s s /\ forall b, hvres_of_h h <> HBug b.
