(* Parse/HdrSlots3.v -- property C04, audit round 1 follow-up: the extension headers in front
   of the cut are a PREFIX of what the UNCUT slicing result yields.

   C04_ipv6_slots_in_order compares the struct's slots with the items of the slicing result CUT at
   the first refilled header (Cut.from_* true).  C04_cut_is_slicing_* says the cut result is the
   slicing result unless it stopped there.  Here, for the stopped case as well: whenever both the
   cut run and SlicedPacket.from_* succeed with an IPv6 network layer, they sit on the same IPv6
   header slice, the extension area of the cut result is a prefix of the extension area of the
   uncut result, and iterating the uncut result yields the cut result's items followed by more. *)
From Coq Require Import ZArith Lia ZifyN ZifyBool List.
From EP Require Import Parse.AccessProofs.
From EP Require Import Base.Bytes Parse.Types Parse.Slices Parse.Cursor Parse.View
  Parse.WireSpec Parse.Repr Parse.StrictProofs Parse.Access Parse.HdrModel Parse.HdrView Parse.HdrCut
  Parse.HdrProofs Parse.HdrProofs2 Parse.HdrProofs3 Parse.HdrSlots Parse.HdrSlots2.
Import ListNotations.
Import SlicedPacketCursor.
Import Ipv6ExtIterA.

Local Open Scope N_scope.

(* ---- the cut walk ends no later than the uncut walk ---------------------------------------- *)
Lemma walk_cut_le fuel : forall sl rest nh fr f r1 n1 f1 r2 n2 f2,
  Cut.walk true fuel sl rest nh fr f = Ok (r1, n1, f1) ->
  Cut.walk false fuel sl rest nh fr f = Ok (r2, n2, f2) ->
  s_len r2 <= s_len r1.
Proof.
  induction fuel as [|fu IH]; intros sl rest nh fr f r1 n1 f1 r2 n2 f2 H1 H2; [discriminate|].
  assert (Le : s_len r2 <= s_len rest).
  { pose proof H2 as H2'. rewrite cut_false_walk in H2'.
    now destruct (AccessProofs.walk_collect _ _ _ _ _ _ _ _ H2') as (Le & _). }
  cbn [Cut.walk andb] in H1, H2.
  destruct (refilled f nh); [injection H1 as <- _ _; exact Le|].
  destruct (nh =? IPN_HOP_BY_HOP); [discriminate|].
  destruct ((nh =? IPN_DEST_OPTIONS) || (nh =? IPN_ROUTE)).
  { binv H1 off Eo. rewrite Eo in H2. cbn [bind] in H2.
    binv H1 s1 Es. rewrite Es in H2. cbn [bind] in H2.
    binv H1 n Enn. rewrite Enn in H2. cbn [bind] in H2.
    binv H1 rest' Er. rewrite Er in H2. cbn [bind] in H2.
    binv H1 nx Ex. rewrite Ex in H2. cbn [bind] in H2.
    exact (IH _ _ _ _ _ _ _ _ _ _ _ H1 H2). }
  destruct (nh =? IPN_FRAG).
  { binv H1 off Eo. rewrite Eo in H2. cbn [bind] in H2.
    binv H1 s1 Es. rewrite Es in H2. cbn [bind] in H2.
    binv H1 n Enn. rewrite Enn in H2. cbn [bind] in H2.
    binv H1 rest' Er. rewrite Er in H2. cbn [bind] in H2.
    binv H1 nx Ex. rewrite Ex in H2. cbn [bind] in H2.
    binv H1 frg Ef. rewrite Ef in H2. cbn [bind] in H2.
    exact (IH _ _ _ _ _ _ _ _ _ _ _ H1 H2). }
  destruct (nh =? IPN_AUTH).
  { binv H1 off Eo. rewrite Eo in H2. cbn [bind] in H2.
    binv H1 s1 Es. rewrite Es in H2. cbn [bind] in H2.
    binv H1 n Enn. rewrite Enn in H2. cbn [bind] in H2.
    binv H1 rest' Er. rewrite Er in H2. cbn [bind] in H2.
    binv H1 nx Ex. rewrite Ex in H2. cbn [bind] in H2.
    exact (IH _ _ _ _ _ _ _ _ _ _ _ H1 H2). }
  injection H1 as <- _ _. exact Le.
Qed.

(* the extension area of the cut result is a prefix of the uncut one, same first header number *)
Definition xpre (xs xs' : ipv6_exts_slice) : Prop :=
  pre (s_len (x6_slice xs)) (x6_slice xs) (x6_slice xs') /\
  (s_len (x6_slice xs) <> 0 -> x6_first xs' = x6_first xs).

Lemma exts_cut_pre nh hp xs n1 r1 xs' n2 r2 :
  Cut.exts_from_slice true nh hp = Ok (xs, n1, r1) ->
  Cut.exts_from_slice false nh hp = Ok (xs', n2, r2) -> xpre xs xs'.
Proof.
  unfold Cut.exts_from_slice. intros H1 H2.
  binv H1 st Est. rewrite Est in H2. cbn [bind] in H2. destruct st as (rest0, nh0).
  binv H1 w1 Ew1. destruct w1 as ((ra, na), fa).
  binv H2 w2 Ew2. destruct w2 as ((rb, nb), fb).
  pose proof (walk_cut_le _ _ _ _ _ _ _ _ _ _ _ _ Ew1 Ew2) as Le.
  binv H1 u1 Eu1. apply subN_inv in Eu1. destruct Eu1 as (La & ->).
  binv H2 u2 Eu2. apply subN_inv in Eu2. destruct Eu2 as (Lb & ->).
  binv H1 s1 Es1. destruct (s_len hp - s_len ra <=? s_len hp); [|discriminate]. injection Es1 as <-.
  binv H2 s2 Es2. destruct (s_len hp - s_len rb <=? s_len hp); [|discriminate]. injection Es2 as <-.
  injection H1 as <- _ _. injection H2 as <- _ _.
  unfold xpre. cbn [x6_slice x6_first].
  set (ua := s_len hp - s_len ra). set (ub := s_len hp - s_len rb).
  assert (Hab : ua <= ub) by (subst ua ub; lia).
  assert (L1 : s_len (fst hp, take ua (snd hp)) = ua) by (apply s_len_sub with (k := 0); subst ua; lia).
  assert (L2 : s_len (fst hp, take ub (snd hp)) = ub) by (apply s_len_sub with (k := 0); subst ub; lia).
  rewrite L1. split.
  - unfold pre. cbn [fst snd]. split; [reflexivity|]. split; [|rewrite L2; exact Hab].
    unfold take. rewrite firstn_firstn. f_equal. lia.
  - intros Hne.
    destruct (s_len ra =? s_len hp) eqn:Ea; [subst ua; lia|].
    destruct (s_len rb =? s_len hp) eqn:Eb; [subst ua ub; lia|]. reflexivity.
Qed.

(* ---- the iterator over a prefix ------------------------------------------------------------- *)
Lemma pre_rd_inv u I W i v : pre u I W -> rdU I i = Ok v -> rdU W i = Ok v.
Proof.
  intros P H. pose proof (rdU_inv _ _ _ H) as Li. rewrite (pre_len _ _ _ P) in Li.
  now rewrite <- (pre_rd u I W i P Li).
Qed.

Lemma pre_subU_inv u I W k n s : pre u I W -> subU I k n = Ok s -> subU W k n = Ok s.
Proof.
  intros P H. pose proof (subU_inv _ _ _ _ H) as (L & _). rewrite (pre_len _ _ _ P) in L.
  now rewrite <- (pre_subU u I W k n P L).
Qed.

Lemma arm_pre u I W nh mk nhf wrap x it :
  pre u I W ->
  (forall s, mk I = Ok s -> mk W = Ok s) ->
  arm (mkExtIter nh I) mk nhf wrap = Ok (Some (x, it)) ->
  exists it', arm (mkExtIter nh W) mk nhf wrap = Ok (Some (x, it')) /\
              xi_next_header it' = xi_next_header it /\
              exists u', pre u' (xi_rest it) (xi_rest it').
Proof.
  intros P Hmk H. pose proof (pre_len _ _ _ P) as LI. unfold arm in *. cbn [xi_rest] in *.
  binv H sl Esl. binv H n En. apply subN_inv in En. destruct En as (Ln & ->).
  binv H rest' Er. binv H nx Enx. injection H as <- <-.
  rewrite (Hmk _ Esl). cbn [bind].
  assert (LW : u <= s_len W) by (destruct P as (_ & _ & L); exact L).
  rewrite subN_ok by lia. cbn [bind].
  destruct (subU_ok W (s_len sl) (s_len W - s_len sl)) as (W' & EW & _ & _); [lia|].
  rewrite EW. cbn [bind]. rewrite Enx. cbn [bind].
  eexists. split; [reflexivity|]. cbn [xi_next_header xi_rest]. split; [reflexivity|].
  exists (u - s_len sl). rewrite LI in Er. eapply pre_rest; eauto. lia.
Qed.

Lemma next_pre u I W nh x it :
  pre u I W -> next (mkExtIter nh I) = Ok (Some (x, it)) ->
  exists it', next (mkExtIter nh W) = Ok (Some (x, it')) /\
              xi_next_header it' = xi_next_header it /\
              exists u', pre u' (xi_rest it) (xi_rest it').
Proof.
  intros P H. pose proof (pre_len _ _ _ P) as LI.
  assert (LW : u <= s_len W) by (destruct P as (_ & _ & L); exact L).
  unfold next in *. cbn [xi_rest xi_next_header] in *.
  destruct (s_len I =? 0) eqn:Z; [discriminate|].
  destruct (s_len W =? 0) eqn:ZW; [lia|].
  assert (Raw : forall s, Ipv6RawExtHeaderA.from_slice_unchecked I = Ok s ->
                          Ipv6RawExtHeaderA.from_slice_unchecked W = Ok s).
  { unfold Ipv6RawExtHeaderA.from_slice_unchecked. intros s Hs. binv Hs b Eb.
    rewrite (pre_rd_inv _ _ _ _ _ P Eb). cbn [bind]. eapply pre_subU_inv; eauto. }
  assert (Frag : forall s, Ipv6FragmentHeaderA.from_slice_unchecked I = Ok s ->
                           Ipv6FragmentHeaderA.from_slice_unchecked W = Ok s).
  { unfold Ipv6FragmentHeaderA.from_slice_unchecked. intros s Hs. eapply pre_subU_inv; eauto. }
  assert (Auth : forall s, auth_from_slice_unchecked I = Ok s -> auth_from_slice_unchecked W = Ok s).
  { unfold auth_from_slice_unchecked. intros s Hs. binv Hs b Eb.
    rewrite (pre_rd_inv _ _ _ _ _ P Eb). cbn [bind]. eapply pre_subU_inv; eauto. }
  destruct (nh =? IPN_HOP_BY_HOP); [eapply arm_pre; eauto|].
  destruct (nh =? IPN_ROUTE); [eapply arm_pre; eauto|].
  destruct (nh =? IPN_DEST_OPTIONS); [eapply arm_pre; eauto|].
  destruct (nh =? IPN_FRAG); [eapply arm_pre; eauto|].
  destruct (nh =? IPN_AUTH); [eapply arm_pre; eauto|].
  discriminate.
Qed.

Lemma collect_pre : forall fuel1 fuel2 u I W nh l l2,
  pre u I W ->
  collect fuel1 (mkExtIter nh I) = Ok l -> collect fuel2 (mkExtIter nh W) = Ok l2 ->
  exists l', l2 = l ++ l'.
Proof.
  induction fuel1 as [|f1 IH]; intros fuel2 u I W nh l l2 P H1 H2; [discriminate|].
  cbn [collect] in H1. binv H1 o Eo. destruct o as [(x, it)|].
  - binv H1 r Er. injection H1 as <-.
    destruct it as (nx, I').
    destruct (next_pre u I W nh x _ P Eo) as ((nx', W') & En & Enx & u' & P').
    cbn [xi_next_header xi_rest] in *. subst nx'.
    destruct fuel2 as [|f2]; [discriminate|]. cbn [collect] in H2. rewrite En in H2. cbn [bind] in H2.
    binv H2 r2 Er2. injection H2 as <-.
    destruct (IH f2 u' I' W' nx r r2 P' Er Er2) as (l' & ->). exists l'. reflexivity.
  - injection H1 as <-. exists l2. reflexivity.
Qed.

Lemma items_pre xs xs' l l2 : xpre xs xs' -> items xs = Ok l -> items xs' = Ok l2 -> exists l', l2 = l ++ l'.
Proof.
  intros (P & F) H1 H2. unfold items, into_iter in *.
  destruct (s_len (x6_slice xs) =? 0) eqn:Z.
  - (* nothing in front of the cut *)
    assert (l = []).
    { destruct (length (snd (x6_slice xs))) eqn:L; cbn [collect] in H1.
      - rewrite next_empty in H1 by lia. cbn [bind] in H1. now injection H1 as <-.
      - rewrite next_empty in H1 by lia. cbn [bind] in H1. now injection H1 as <-. }
    subst l. exists l2. reflexivity.
  - rewrite F in H2 by lia. eapply collect_pre; eauto.
Qed.

(* ---- lifted over whole packets --------------------------------------------------------------- *)
Definition v6pre (a b : res ipv6_slice) : Prop :=
  match a, b with
  | Ok v, Ok v' => v6_header v' = v6_header v /\ xpre (v6_exts v) (v6_exts v')
  | _, _ => True
  end.

Lemma v6_finish_pre s h : v6pre (Cut.v6_finish true s h) (Cut.v6_finish false s h).
Proof.
  unfold Cut.v6_finish.
  destruct (Ipv6HeaderSlice.payload_length h); cbn [bind]; try exact I.
  destruct (if (0 =? a) && (40 <? s_len s) then _ else _) as [[hp src]|e|b]; cbn [bind]; try exact I.
  destruct (Ipv6HeaderSlice.next_header h) as [nh|e|b]; cbn [bind]; try exact I.
  destruct (Cut.exts_from_slice true nh hp) as [[[xs n1] r1]|[l|c]|b] eqn:E1; cbn [bind]; try exact I.
  destruct (Cut.exts_from_slice false nh hp) as [[[xs' n2] r2]|[l|c]|b] eqn:E2; cbn [bind]; try exact I.
  unfold v6pre. cbn [v6_header v6_exts]. split; [reflexivity|]. eapply exts_cut_pre; eauto.
Qed.

Definition cutpre (a b : res sliced_packet) : Prop :=
  match a, b with
  | Ok sp, Ok sp' =>
      forall v, sp_net sp = Some (NtIpv6 v) ->
        exists v', sp_net sp' = Some (NtIpv6 v') /\ v6_header v' = v6_header v /\
                   xpre (v6_exts v) (v6_exts v')
  | _, _ => True
  end.

Lemma cutpre_same r : cutpre r r.
Proof.
  destruct r as [sp|e|b]; try exact I. intros v Hv. exists v. split; [exact Hv|]. split; [reflexivity|].
  unfold xpre. split; [|reflexivity].
  unfold pre. repeat split; try lia. unfold s_len. now rewrite AccessProofs.take_all.
Qed.

Lemma dispatch_pre c c' p p' v v' :
  sp_net (c_result c) = Some (NtIpv6 v) -> sp_net (c_result c') = Some (NtIpv6 v') ->
  v6_header v' = v6_header v -> xpre (v6_exts v) (v6_exts v') ->
  cutpre (transport_dispatch c p) (transport_dispatch c' p').
Proof.
  intros Hc Hc' Hh Hx.
  destruct (transport_dispatch c p) as [sp|e|b] eqn:E1; try exact I.
  destruct (transport_dispatch c' p') as [sp'|e|b] eqn:E2; try exact I.
  apply dispatch_net in E1. apply dispatch_net in E2.
  intros w Hw. rewrite E1, Hc in Hw. injection Hw as <-.
  exists v'. split; [now rewrite E2|]. auto.
Qed.

Lemma slice_ipv6_pre c s : cutpre (Cut.slice_ipv6 true c s) (Cut.slice_ipv6 false c s).
Proof.
  unfold Cut.slice_ipv6, Cut.v6_from_slice.
  destruct (Ipv6HeaderSlice.from_slice s) as [h|e|b]; cbn [bind map_len_err]; try (apply cutpre_same).
  pose proof (v6_finish_pre s h) as A. unfold v6pre in A.
  destruct (Cut.v6_finish true s h) as [v|[l|ce]|b]; cbn [map_len_err bind]; try exact I.
  destruct (Cut.v6_finish false s h) as [v'|[l|ce]|b]; cbn [map_len_err bind]; try exact I;
    try (destruct (ptr_diff _ _); cbn [bind]; [destruct (transport_dispatch _ _)|..]; exact I).
  destruct A as (Hh & Hx).
  destruct (ptr_diff (ipp_slice (v6_payload v)) s) as [d|e|b]; cbn [bind]; try exact I.
  destruct (ptr_diff (ipp_slice (v6_payload v')) s) as [d'|e|b]; cbn [bind];
    try (destruct (transport_dispatch _ _); exact I).
  eapply dispatch_pre; try reflexivity; auto.
Qed.

Lemma slice_ip_pre c s : cutpre (Cut.slice_ip true c s) (Cut.slice_ip false c s).
Proof.
  unfold Cut.slice_ip, Cut.ip_from_slice.
  destruct (s_len s =? 0); [apply cutpre_same|].
  destruct (rdU s 0) as [b0|e|b]; cbn [bind map_len_err]; try (apply cutpre_same).
  destruct (N.shiftr b0 4 =? 4); [apply cutpre_same|].
  destruct (N.shiftr b0 4 =? 6); [|apply cutpre_same].
  destruct (s_len s <? 40); [apply cutpre_same|].
  destruct (subU s 0 40) as [h|e|b]; cbn [bind map_len_err]; try (apply cutpre_same).
  pose proof (v6_finish_pre s h) as A. unfold v6pre in A.
  destruct (Cut.v6_finish true s h) as [v|[l|ce]|b]; cbn [map_len_err bind]; try exact I.
  destruct (Cut.v6_finish false s h) as [v'|[l|ce]|b]; cbn [map_len_err bind IpSlice.payload]; try exact I;
    try (destruct (ptr_diff _ _); cbn [bind]; [destruct (transport_dispatch _ _)|..]; exact I).
  destruct A as (Hh & Hx).
  destruct (ptr_diff (ipp_slice (v6_payload v)) s) as [d|e|b]; cbn [bind]; try exact I.
  destruct (ptr_diff (ipp_slice (v6_payload v')) s) as [d'|e|b]; cbn [bind];
    try (destruct (transport_dispatch _ _); exact I).
  eapply dispatch_pre; try reflexivity; auto.
Qed.

Lemma loop_pre fuel : forall c ep,
  cutpre (Cut.slice_ether_type_loop true fuel c ep) (Cut.slice_ether_type_loop false fuel c ep).
Proof.
  induction fuel as [|f IH]; intros; [exact I|].
  cbn [Cut.slice_ether_type_loop].
  destruct (is_vlan_type (ep_ether_type ep)).
  { destruct (LINK_EXTS_CAP <=? _); [apply cutpre_same|].
    destruct (map_len_err _ _); cbn [bind]; try exact I.
    destruct (SingleVlanSlice.payload _); cbn [bind]; try exact I.
    destruct (push_ext _ _ _ _); cbn [bind]; try exact I. apply IH. }
  destruct (ep_ether_type ep =? ET_MACSEC).
  { destruct (LINK_EXTS_CAP <=? _); [apply cutpre_same|].
    destruct (map_len_err _ _); cbn [bind]; try exact I.
    destruct (Macsec.header_len _); cbn [bind]; try exact I.
    destruct (Macsec.short_len _); cbn [bind]; try exact I.
    destruct (push_ext _ _ _ _); cbn [bind]; try exact I.
    destruct (ms_payload a); [apply IH|apply cutpre_same]. }
  destruct (ep_ether_type ep =? ET_ARP); [apply cutpre_same|].
  destruct (ep_ether_type ep =? ET_IPV4); [apply cutpre_same|].
  destruct (ep_ether_type ep =? ET_IPV6); [apply slice_ipv6_pre|apply cutpre_same].
Qed.

(* ---- the statement ----------------------------------------------------------------------------- *)
Definition cut_items_prefix (a b : res sliced_packet) : Prop :=
  forall sp v sp', a = Ok sp -> sp_net sp = Some (NtIpv6 v) -> b = Ok sp' ->
  exists v', sp_net sp' = Some (NtIpv6 v') /\ v6_header v' = v6_header v /\
    forall l l2, items (v6_exts v) = Ok l -> items (v6_exts v') = Ok l2 -> exists l', l2 = l ++ l'.

Lemma prefix_of_cutpre a b : cutpre a b -> cut_items_prefix a b.
Proof.
  intros R sp v sp' -> Hv ->. destruct (R v Hv) as (v' & Hv' & Hh & Hx).
  exists v'. split; [exact Hv'|]. split; [exact Hh|]. intros l l2. now apply items_pre.
Qed.

Theorem cut_prefix_of_slicing bs et :
  cut_items_prefix (Cut.from_ethernet true bs) (SlicedPacket.from_ethernet bs) /\
  cut_items_prefix (Cut.from_ether_type true et bs) (SlicedPacket.from_ether_type et bs) /\
  cut_items_prefix (Cut.from_ip true bs) (SlicedPacket.from_ip bs).
Proof.
  split; [|split]; apply prefix_of_cutpre.
  - rewrite <- cut_false_from_ethernet.
    unfold Cut.from_ethernet, Cut.slice_ethernet2, Cut.slice_ether_type.
    destruct (map_len_err _ _); cbn [bind]; try exact I.
    destruct (Ethernet2Slice.payload _); cbn [bind]; try exact I. apply loop_pre.
  - rewrite <- cut_false_from_ether_type. apply loop_pre.
  - rewrite <- cut_false_from_ip. apply slice_ip_pre.
Qed.
