(* Parse/HdrLaxView.v -- what an observer sees of a LaxPacketHeaders value: the
   window of every header (as in HdrView.v), the payload with its `incomplete`
   flag, the stop error; and the conversion of the transport / IP part of a lax
   slicing result to the same view. *)
From EP Require Import Base.Bytes Parse.Types Parse.Slices Parse.Cursor Parse.View
  Parse.LaxSlices Parse.LaxCursor Parse.LaxView Parse.HdrModel Parse.HdrView Parse.HdrLaxModel.

Local Open Scope N_scope.

Inductive hvlink := HvlEthernet2 (w : window) | HvlLinuxSll (w : window).

Inductive lhvpayload :=
| LHvpEmpty
| LHvpEther (e : lvether_payload)
| LHvpMacsecMod (incomplete : bool) (w : window)
| LHvpIp (p : lvip_payload)
| LHvpUdp (incomplete : bool) (w : window)
| LHvpTcp (incomplete : bool) (w : window)
| LHvpIcmpv4 (incomplete : bool) (w : window)
| LHvpIcmpv6 (incomplete : bool) (w : window)
| LHvpLinuxSll (pt : sll_protocol_type) (w : window).

Record lhview := mkLHv {
  lhv_link : option hvlink;
  lhv_exts : list hvext;
  lhv_net : option hvnet;
  lhv_tr : option hvtr;
  lhv_payload : lhvpayload;
  lhv_stop : option stop_error }.

Definition lhview_link (l : hlink) : hvlink :=
  match l with
  | HlEthernet2 h => HvlEthernet2 (win_of h)
  | HlLinuxSll h => HvlLinuxSll (win_of h)
  end.

Definition lhview_payload (p : lhpayload) : lhvpayload :=
  match p with
  | LHpEmpty => LHvpEmpty
  | LHpEther e => LHvpEther (lview_ep e)
  | LHpMacsecMod i s => LHvpMacsecMod i (win_of s)
  | LHpIp i => LHvpIp (lview_ipp i)
  | LHpUdp i s => LHvpUdp i (win_of s)
  | LHpTcp i s => LHvpTcp i (win_of s)
  | LHpIcmpv4 i s => LHvpIcmpv4 i (win_of s)
  | LHpIcmpv6 i s => LHvpIcmpv6 i (win_of s)
  | LHpLinuxSll pt s => LHvpLinuxSll pt (win_of s)
  end.

Definition lhview_of (p : lhpacket) : res lhview :=
  let* n := (match lh_net p with
             | Some n => let* v := hview_net n in Ok (Some v)
             | None => Ok None
             end) in
  Ok (mkLHv (option_map lhview_link (lh_link p)) (map hview_ext (lh_exts p)) n
            (option_map hview_tr (lh_transport p)) (lhview_payload (lh_payload p)) (lh_stop p)).

Inductive lhvres := LHOk (v : lhview) | LHErr (e : slice_error) | LHBug (site : N).

Definition lhvres_of_h (r : res lhpacket) : lhvres :=
  match r with
  | Ok p => match lhview_of p with Ok v => LHOk v | Err e => LHErr e | Bug b => LHBug b end
  | Err e => LHErr e
  | Bug b => LHBug b
  end.

(* ---- conversion of the lax slicing side (per layer) ------------------------------- *)
(* header() / to_header() and payload() of a transport slice, with the
   `incomplete` flag of the enclosing IP payload (LaxPacketHeaders copies it) *)
Definition lconv_tr (inc : bool) (t : transport_slice) : res (hvtr * lhvpayload) :=
  match t with
  | TrUdp s => Ok (HvUdp (s_off s, 8), LHvpUdp inc (s_off s + 8, s_len s - 8))
  | TrTcp hl s => Ok (HvTcp (s_off s, hl), LHvpTcp inc (s_off s + hl, s_len s - hl))
  | TrIcmpv4 s =>
      let* hl := Icmpv4Acc.header_len s in
      Ok (HvIcmpv4 (s_off s, hl), LHvpIcmpv4 inc (s_off s + hl, s_len s - hl))
  | TrIcmpv6 s => Ok (HvIcmpv6 (s_off s, 8), LHvpIcmpv6 inc (s_off s + 8, s_len s - 8))
  end.

(* to_header() of the IPv4 part of a lax IP slice *)
Definition lconv_v4 (v : lax_ipv4_slice) : hvnet :=
  HvIpv4 (win_of (lv4_header v)) (option_map win_of (lv4_auth v)).
