(* Parse/Fields2Proofs.v -- C03 derived / typed accessor values: the accessor models of
   Parse/Access.v on the slices of a strict result return the values Parse/Fields2.v defines
   from the RFC / IEEE fields at the layer's absolute position
   (fields2_of_packet p = Ok (spec_fields2 bs (view p))). *)
From Coq Require Import ZArith Lia ZifyN ZifyBool.
From EP Require BitFields.Spec BitFields.Model BitFields.BitLemmas BitFields.Proofs2.
From EP Require Import Base.Bytes Parse.Types Parse.Slices Parse.Cursor Parse.View Parse.WireSpec
  Parse.Repr Parse.StrictProofs Parse.Access Parse.AccessProofs Parse.Fields Parse.FieldsProofs
  Parse.WireSpecFacts Parse.WireNested Parse.WireDesc Parse.StrictFacts Parse.Fields2.

Local Open Scope N_scope.

Local Notation bfield := BitFields.Spec.field.
Local Notation bits_of := BitFields.Spec.bits_of.

Ltac dmlia := zify; Z.div_mod_to_equations; lia.

(* ---- windows ------------------------------------------------------------------------- *)
Lemma repr_subU_win bs s pos lim k n :
  repr bs s pos lim -> k + n <= lim - pos ->
  exists w, subU s k n = Ok w /\ win_of w = (pos + k, n).
Proof.
  intros R H. destruct (repr_subU bs s pos lim k n R H) as (w & E & Rw).
  exists w. split; [exact E|]. rewrite (repr_win _ _ _ _ Rw). f_equal. lia.
Qed.

(* ---- octet facts behind the arithmetic readings of Parse/WireSpec.v -------------------- *)
Definition byte_chk2 (b : N) : bool :=
  Bool.eqb ((b / 32) mod 2 =? 0) (N.land b 32 =? 0) &&
  Bool.eqb (b mod 2 =? 0) (N.land b 1 =? 0) &&
  (N.land b 31 =? b mod 32) &&
  (N.land b 15 =? b mod 16) &&
  (N.shiftr b 4 =? b / 16).

Lemma byte_chk2_all : forallb byte_chk2 (BitFields.BitLemmas.range 256) = true.
Proof. vm_compute. reflexivity. Qed.

Lemma byte_facts2 b : b < 256 ->
  ((b / 32) mod 2 =? 0) = (N.land b 32 =? 0) /\
  (b mod 2 =? 0) = (N.land b 1 =? 0) /\
  N.land b 31 = b mod 32 /\
  N.land b 15 = b mod 16 /\
  N.shiftr b 4 = b / 16.
Proof.
  intros H. pose proof (BitFields.BitLemmas.sweep 256 byte_chk2 byte_chk2_all b H) as C.
  unfold byte_chk2 in C.
  repeat match type of C with (_ && _) = true => apply andb_prop in C; destruct C as [C ?] end.
  repeat match goal with
         | X : (_ =? _) = true |- _ => apply N.eqb_eq in X
         | X : Bool.eqb _ _ = true |- _ => apply Bool.eqb_prop in X
         end.
  repeat split; assumption.
Qed.

Section Link2.
  Variable bs : bytes.
  Hypothesis Hok : bytes_ok bs.

  (* the two readings of "this IPv4 header fragments its payload" *)
  Lemma ipv4_fragmented_bits p : ipv4_fragmented bs p = ipv4_frag_spec bs p.
  Proof.
    unfold ipv4_fragmented, ipv4_frag_spec, flag, bits, W. cbn [bytes_at].
    set (a := B bs (p + 6)). set (b := B bs (p + 6 + 1)).
    assert (Ha : a < 256) by apply (B_lt _ _ Hok). assert (Hb : b < 256) by apply (B_lt _ _ Hok).
    destruct (BitFields.Proofs2.raw_fields_ipv4_67 a b Ha Hb) as (_ & E6 & E7).
    destruct (byte_facts2 a Ha) as (F1 & _ & F3 & _).
    rewrite <- E7, (flag_of_b2n _ _ E6). unfold BitFields.Model.nonzero. rewrite F1, F3.
    f_equal. f_equal. unfold be16.
    assert (X : (a * 256 + b) mod 8192 = a mod 32 * 256 + b) by dmlia. now rewrite X.
  Qed.

  (* the two readings of "this fragment header fragments the payload" *)
  Lemma frag_fragments_bits pos : frag_hdr_fragments bs pos = frag_fragments_spec bs pos.
  Proof.
    unfold frag_hdr_fragments, frag_fragments_spec, flag, bits, W. cbn [bytes_at].
    replace (pos + 3) with (pos + 2 + 1) by lia.
    set (a := B bs (pos + 2)). set (b := B bs (pos + 2 + 1)).
    assert (Ha : a < 256) by apply (B_lt _ _ Hok). assert (Hb : b < 256) by apply (B_lt _ _ Hok).
    destruct (BitFields.Proofs2.raw_fields_frag a b Ha Hb) as (E1 & E2).
    destruct (byte_facts2 b Hb) as (_ & F2 & _).
    rewrite <- E1, (flag_of_b2n _ _ E2). unfold BitFields.Model.nonzero. rewrite F2.
    rewrite N.shiftr_div_pow2. unfold be16. reflexivity.
  Qed.

  Lemma chain_end_bits : forall fuel nh pos lim fr,
    chain_end bs fuel nh pos lim fr = chain_end_b bs fuel nh pos lim fr.
  Proof.
    induction fuel as [|f IH]; intros nh pos lim fr; [reflexivity|].
    cbn [chain_end chain_end_b]. rewrite frag_fragments_bits, !IH. reflexivity.
  Qed.

  (* ---- link layer ---------------------------------------------------------------------- *)
  Lemma eth_fields2_ok s : in_buf bs s -> 14 <= s_len s -> eth_fields2 s = Ok (eth_spec2 (win_of s)).
  Proof.
    intros I L. pose proof (in_buf_repr _ _ I) as R.
    unfold eth_fields2, Ethernet2A.fcs, Ethernet2A.header_slice, Ethernet2A.payload_slice.
    cbn [e2_fcs_len e2_slice]. change (0 =? 4) with false. cbv iota. cbn [bind].
    rewrite (subN_ok (s_len s) 14) by lia. cbn [bind]. rewrite subN_ok by lia. cbn [bind].
    destruct (repr_subU_win bs s _ _ 0 14 R) as (w1 & E1 & W1); [lia|].
    destruct (repr_subU_win bs s _ _ 14 (s_len s - 14 - 0) R) as (w2 & E2 & W2); [lia|].
    rewrite E1. cbn [bind]. rewrite E2. cbn [bind]. rewrite W1, W2.
    unfold eth_spec2, win_of. cbn [fst snd]. rewrite N.add_0_r, N.sub_0_r. reflexivity.
  Qed.

  Lemma sll_fields2_ok h w :
    in_buf bs h -> in_buf bs w -> s_len h = 16 -> 16 <= s_len w ->
    sll_fields2 h w = Ok (sll_spec2 bs (win_of h) (win_of w)).
  Proof.
    intros Ih Iw Lh Lw. pose proof (in_buf_repr _ _ Ih) as Rh. pose proof (in_buf_repr _ _ Iw) as Rw.
    unfold sll_fields2, LinuxSllHeaderA.sender_address, LinuxSllHeaderA.sender_address_valid_length,
      LinuxSllA.payload_slice. cbn [fst snd].
    rewrite (repr_rd16 _ _ _ _ 4 Rh) by lia. cbn [bind].
    set (l := W bs (s_off h + 4)).
    rewrite idx_range_subU by lia.
    destruct (repr_subU_win bs h _ _ 6 (N.min (6 + l) (6 + 8) - 6) Rh) as (w1 & E1 & W1); [lia|].
    rewrite E1. cbn [bind]. rewrite subN_ok by lia. cbn [bind].
    destruct (repr_subU_win bs w _ _ 16 (s_len w - 16) Rw) as (w2 & E2 & W2); [lia|].
    rewrite E2. cbn [bind]. rewrite W1, W2. unfold sll_spec2, win_of. cbn [fst snd]. fold l.
    replace (N.min (6 + l) (6 + 8) - 6) with (N.min l 8) by lia. reflexivity.
  Qed.

  Lemma vlan_fields2_ok s : in_buf bs s -> 4 <= s_len s -> vlan_fields2 s = Ok (vlan_spec2 (win_of s)).
  Proof.
    intros I L. pose proof (in_buf_repr _ _ I) as R.
    unfold vlan_fields2, SingleVlanA.header_slice, SingleVlanA.payload_slice.
    rewrite subN_ok by lia. cbn [bind].
    destruct (repr_subU_win bs s _ _ 0 4 R) as (w1 & E1 & W1); [lia|].
    destruct (repr_subU_win bs s _ _ 4 (s_len s - 4) R) as (w2 & E2 & W2); [lia|].
    rewrite E1. cbn [bind]. rewrite E2. cbn [bind]. rewrite W1, W2.
    unfold vlan_spec2, win_of. cbn [fst snd]. rewrite N.add_0_r. reflexivity.
  Qed.

  (* ---- MACsec ---------------------------------------------------------------------------- *)
  Lemma macsec_fields2_ok h :
    in_buf bs h -> wf_macsech h -> macsec_fields2 h = Ok (macsec_spec2 bs (s_off h)).
  Proof.
    intros I (t & Et & L). pose proof (in_buf_repr _ _ I) as R.
    assert (L6 : 6 <= s_len h) by lia.
    assert (Et' : t = B bs (s_off h)).
    { rewrite (repr_rdU _ _ _ _ 0 R) in Et by lia. rewrite N.add_0_r in Et. now injection Et as <-. }
    subst t. set (p := s_off h) in *. set (t := B bs p) in *.
    assert (Ht : t < 256) by apply (B_lt _ _ Hok).
    destruct (byte_facts t Ht) as (_ & _ & _ & _ & _ & F2 & _ & F4 & F5 & _).
    destruct (byte_facts (B bs (p + 1)) (B_lt _ _ Hok)) as (_ & _ & _ & _ & _ & _ & _ & _ & _ & _ & _ & _ & G).
    unfold macsec_spec2, flag, bits. cbn [bytes_at]. fold t. rewrite <- F2, <- F4, <- F5, <- G.
    set (sl := N.land (B bs (p + 1)) 63).
    unfold macsec_fields2, MacsecHeaderA.is_unmodified, MacsecHeaderA.ptype, MacsecHeaderA.next_ether_type,
      MacsecHeaderA.header_len, MacsecHeaderA.expected_payload_len, MacsecHeaderA.is_unmodified,
      MacsecHeaderA.encrypted, MacsecHeaderA.userdata_changed, MacsecHeaderA.sci_present,
      MacsecHeaderA.short_len, MacsecHeaderA.tci_an_raw.
    rewrite !(repr_rdU _ _ _ _ 0 R) by lia. cbn [bind]. rewrite !N.add_0_r. fold p. fold t.
    rewrite !(repr_rdU _ _ _ _ 1 R) by lia. cbn [bind]. fold p. fold sl.
    (* expected_payload_len in the shape of the specification *)
    assert (EPLm : (if 0 <? sl then Ok (Some sl) else Ok None : res (option N)) =
                   Ok (if sl =? 0 then None else Some sl)).
    { destruct (0 <? sl) eqn:C0; destruct (sl =? 0) eqn:C1; try lia; reflexivity. }
    assert (EPLu : (if 0 <? sl
                    then if sl <? 2 then Ok None else let* d := subN sl 2 in Ok (Some d)
                    else Ok None) =
                   Ok (if sl =? 0 then None else if sl <? 2 then None else Some (sl - 2))).
    { destruct (0 <? sl) eqn:C0; destruct (sl =? 0) eqn:C1; try lia; [|reflexivity].
      destruct (sl <? 2) eqn:C2; [reflexivity|]. rewrite subN_ok by lia. reflexivity. }
    destruct (bitset t 8) eqn:E8; destruct (bitset t 4) eqn:E4; cbn [negb andb bind].
    - rewrite (land_8_12 t E8) in *. cbn [negb bind]. rewrite EPLm. cbn [bind ptype_code ptype_et].
      destruct (bitset t 32); reflexivity.
    - rewrite (land_8_12 t E8) in *. cbn [negb bind]. rewrite EPLm. cbn [bind ptype_code ptype_et].
      destruct (bitset t 32); reflexivity.
    - rewrite (land_4_12 t E4) in *. cbn [negb bind]. rewrite EPLm. cbn [bind ptype_code ptype_et].
      destruct (bitset t 32); reflexivity.
    - rewrite (land_none_12 t E8 E4) in *. cbn [negb bind].
      destruct (bitset t 32) eqn:E32; cbn [bind].
      + rewrite !(repr_rdU _ _ _ _ 14 R), !(repr_rdU _ _ _ _ 15 R) by lia. cbn [bind]. fold p.
        rewrite EPLu. cbn [bind ptype_code ptype_et]. unfold W, be16.
        replace (p + 6 + 8) with (p + 14) by lia. replace (p + 14 + 1) with (p + 15) by lia. reflexivity.
      + rewrite !(repr_rdU _ _ _ _ 6 R), !(repr_rdU _ _ _ _ 7 R) by lia. cbn [bind]. fold p.
        rewrite EPLu. cbn [bind ptype_code ptype_et]. unfold W, be16.
        rewrite !N.add_0_r. replace (p + 6 + 1) with (p + 7) by lia. reflexivity.
  Qed.

  (* ---- ARP ------------------------------------------------------------------------------- *)
  Lemma arp_fields2_ok a : in_buf bs a -> wf_arp a -> arp_fields2 a = Ok (arp_spec2 bs (s_off a)).
  Proof.
    intros I (hw & pr & Eh & Ep & L). pose proof (in_buf_repr _ _ I) as R.
    assert (Eh' : hw = B bs (s_off a + 4)).
    { rewrite (repr_rdU _ _ _ _ 4 R) in Eh by lia. now injection Eh as <-. }
    assert (Ep' : pr = B bs (s_off a + 5)).
    { rewrite (repr_rdU _ _ _ _ 5 R) in Ep by lia. now injection Ep as <-. }
    set (p := s_off a) in *.
    unfold arp_fields2, ArpPacketA.sender_hw_addr, ArpPacketA.sender_protocol_addr, ArpPacketA.target_hw_addr,
      ArpPacketA.target_protocol_addr, ArpPacketA.hw_addr_size, ArpPacketA.proto_addr_size.
    rewrite !(repr_rdU _ _ _ _ 4 R), !(repr_rdU _ _ _ _ 5 R) by lia. cbn [bind]. fold p.
    rewrite <- Eh', <- Ep'.
    destruct (repr_subU_win bs a _ _ 8 hw R) as (w1 & E1 & S1); [lia|].
    destruct (repr_subU_win bs a _ _ (8 + hw) pr R) as (w2 & E2 & S2); [lia|].
    destruct (repr_subU_win bs a _ _ (8 + hw + pr) hw R) as (w3 & E3 & S3); [lia|].
    destruct (repr_subU_win bs a _ _ (8 + hw * 2 + pr) pr R) as (w4 & E4 & S4); [lia|].
    rewrite E1, E2, E3, E4. cbn [bind]. fold p in S1, S2, S3, S4. rewrite S1, S2, S3, S4.
    unfold arp_spec2. rewrite <- Eh', <- Ep'.
    replace (p + (8 + hw)) with (p + 8 + hw) by lia.
    replace (p + (8 + hw + pr)) with (p + 8 + hw + pr) by lia.
    replace (p + (8 + hw * 2 + pr)) with (p + 8 + hw + pr + hw) by lia.
    reflexivity.
  Qed.

  (* ---- IPv4 ------------------------------------------------------------------------------- *)
  Lemma ipv4_fields2_ok v cur :
    in_buf bs (v4_header v) -> wf_ipv4h (v4_header v) ->
    net_ok bs cur (view_net (NtIpv4 v)) -> net_desc bs (view_net (NtIpv4 v)) ->
    ipv4_fields2 v = Ok (ipv4_spec2 bs (win_of (v4_header v)) (option_map win_of (v4_auth v))).
  Proof.
    intros I (L1 & L2) N D. pose proof (in_buf_repr _ _ I) as R.
    cbn [view_net net_ok net_desc] in N, D. cbv zeta in N.
    set (h := v4_header v) in *. set (p := s_off h) in *.
    unfold win_of in N, D. cbn [fst snd] in N, D. fold p in N, D.
    destruct N as (_ & Nhl & _ & _ & Na & Nend & Nsrc). destruct D as (Dn & Df).
    unfold view_ipp in *. cbn [vip_win vip_src vip_number vip_frag] in *.
    unfold win_of in Na, Nend. unfold wend in Na, Nend. cbn [fst snd] in Na, Nend.
    set (pl := v4_payload v) in *.
    assert (Ltl : s_len h <= W bs (p + 2)).
    { destruct (v4_auth v) as [a|]; cbn [option_map] in Na.
      - destruct Na as (A1 & A2 & A3). unfold win_of in *. cbn [fst snd] in *. lia.
      - lia. }
    destruct (byte_facts (B bs p) (B_lt _ _ Hok)) as (_ & E2 & _).
    destruct (byte_facts2 (B bs p) (B_lt _ _ Hok)) as (_ & _ & _ & F4 & _).
    unfold ipv4_fields2, Ipv4HeaderA.payload_len, Ipv4HeaderA.total_len, Ipv4HeaderA.is_fragmenting_payload,
      Ipv4HeaderA.more_fragments, Ipv4HeaderA.fragments_offset. fold h.
    rewrite (repr_rd16 _ _ _ _ 2 R) by lia. cbn [bind]. fold p.
    rewrite (N.mod_small (s_len h) 65536) by lia.
    destruct (s_len h <=? W bs (p + 2)) eqn:C; [|lia]. rewrite subN_ok by lia. cbn [bind].
    rewrite !(repr_rdU _ _ _ _ 6 R), (repr_rdU _ _ _ _ 7 R) by lia. cbn [bind]. fold p.
    unfold ipv4_spec2, ipp_fields2, win_of. cbn [fst snd app]. fold h. fold p. fold pl.
    rewrite <- ipv4_fragmented_bits, <- Df.
    (* is_fragmenting_payload of the header = the stored flag's definition *)
    assert (FR : bitset (B bs (p + 6)) 32 || negb (be16 (N.land (B bs (p + 6)) 31) (B bs (p + 7)) =? 0)
                 = ipp_fragmented pl).
    { rewrite Df, ipv4_fragmented_bits. unfold ipv4_frag_spec, flag, bits. cbn [bytes_at].
      replace (p + 7) with (p + 6 + 1) by lia.
      destruct (BitFields.Proofs2.raw_fields_ipv4_67 (B bs (p + 6)) (B bs (p + 6 + 1))
                  (B_lt _ _ Hok) (B_lt _ _ Hok)) as (_ & E6 & E7).
      rewrite <- E7, (flag_of_b2n _ _ E6). reflexivity. }
    rewrite FR.
    unfold bits. cbn [bytes_at]. rewrite <- E2, F4, <- Nhl, Dn, Nsrc.
    assert (WIN : (s_off (ipp_slice pl), s_len (ipp_slice pl)) =
                  (match option_map win_of (v4_auth v) with
                   | Some w => fst w + snd w
                   | None => p + s_len h
                   end,
                   p + W bs (p + 2) -
                   match option_map win_of (v4_auth v) with
                   | Some w => fst w + snd w
                   | None => p + s_len h
                   end)).
    { destruct (v4_auth v) as [a|]; cbn [option_map] in *.
      - destruct Na as (A1 & A2 & A3). unfold win_of in *. cbn [fst snd] in *. f_equal; lia.
      - f_equal; lia. }
    unfold win_of in WIN. cbn [fst snd] in WIN. rewrite WIN.
    destruct (v4_auth v) as [a|]; reflexivity.
  Qed.

  (* ---- IPv6 ------------------------------------------------------------------------------- *)
  Lemma ipv6_fields2_ok v cur :
    in_buf bs (v6_header v) -> wf_ipv6h (v6_header v) ->
    net_ok bs cur (view_net (NtIpv6 v)) -> net_desc bs (view_net (NtIpv6 v)) ->
    ipv6_fields2 v =
      Ok (ipv6_spec2 bs (win_of (v6_header v)) (win_of (x6_slice (v6_exts v))) (wend cur)).
  Proof.
    intros I L N D. unfold wf_ipv6h in L. pose proof (in_buf_repr _ _ I) as R.
    cbn [view_net net_ok net_desc] in N, D. cbv zeta in N, D.
    set (h := v6_header v) in *. set (p := s_off h) in *.
    set (x := x6_slice (v6_exts v)) in *. set (pl := v6_payload v) in *.
    unfold view_ipp in *. cbn [vip_win vip_src vip_number vip_frag] in *.
    unfold win_of, wend in N, D. cbn [fst snd] in N, D. fold p in N, D.
    destruct N as (_ & _ & Nx & Np & Nle & Nz & Nnz). destruct D as (Dc & _ & Ds).
    unfold ipv6_fields2, Ipv6HeaderA.dscp, Ipv6HeaderA.ecn, Ipv6HeaderA.traffic_class. fold h.
    rewrite !(repr_rdU _ _ _ _ 0 R), !(repr_rdU _ _ _ _ 1 R) by lia. cbn [bind]. rewrite !N.add_0_r. fold p.
    destruct (BitFields.Proofs2.raw_fields_ipv6_01 (B bs p) (B bs (p + 1)) (B_lt _ _ Hok) (B_lt _ _ Hok))
      as (_ & E2 & E3 & _).
    unfold BitFields.Model.shl8 in E2, E3. rewrite E2, E3.
    unfold ipv6_spec2, ipp_fields2, win_of, wend. cbn [fst snd app]. fold h. fold p. fold x. fold pl.
    rewrite <- chain_end_bits, Dc. cbn [fst snd]. unfold bits. cbn [bytes_at].
    assert (SRC : ipp_src pl =
                  (if (W bs (p + 4) =? 0) && (p + 40 <? fst cur + snd cur) then LsSlice
                   else LsIpv6HeaderPayloadLen)).
    { rewrite Ds. destruct (W bs (p + 4) =? 0) eqn:C; cbn [andb]; [|reflexivity].
      assert (C' : W bs (p + 4) = 0) by lia. specialize (Nz C').
      destruct (0 <? s_len x + s_len (ipp_slice pl)) eqn:C1;
        destruct (p + 40 <? fst cur + snd cur) eqn:C2; try reflexivity; lia. }
    rewrite SRC.
    assert (WIN : (s_off (ipp_slice pl), s_len (ipp_slice pl)) =
                  (s_off x + s_len x,
                   (if W bs (p + 4) =? 0 then fst cur + snd cur else p + 40 + W bs (p + 4))
                   - (s_off x + s_len x))).
    { destruct (W bs (p + 4) =? 0) eqn:C.
      - assert (C' : W bs (p + 4) = 0) by lia. specialize (Nz C'). f_equal; lia.
      - assert (C' : 0 < W bs (p + 4)) by lia. destruct (Nnz C') as (A1 & _). f_equal; lia. }
    rewrite WIN. reflexivity.
  Qed.

  (* Ipv6FragmentHeaderSlice::is_fragmenting_payload *)
  Lemma frag_isfrag_ok h :
    in_buf bs h -> s_len h = 8 ->
    Ipv6FragmentHeaderA.is_fragmenting_payload h = Ok (frag_fragments_spec bs (s_off h)).
  Proof.
    intros I L. pose proof (in_buf_repr _ _ I) as R.
    unfold Ipv6FragmentHeaderA.is_fragmenting_payload, Ipv6FragmentHeaderA.more_fragments,
      Ipv6FragmentHeaderA.fragment_offset.
    rewrite !(repr_rdU _ _ _ _ 3 R), (repr_rdU _ _ _ _ 2 R) by lia. cbn [bind].
    set (p := s_off h). unfold frag_fragments_spec, flag, bits. cbn [bytes_at].
    replace (p + 3) with (p + 2 + 1) by lia.
    destruct (BitFields.Proofs2.raw_fields_frag (B bs (p + 2)) (B bs (p + 2 + 1)) (B_lt _ _ Hok) (B_lt _ _ Hok))
      as (E1 & E2).
    rewrite bitset_nonzero, <- (flag_of_b2n _ _ E2), <- E1. reflexivity.
  Qed.

  (* the iterator walks the chain: one layer per fragment header *)
  Import Ipv6ExtIterA.

  Lemma chain_fields2_ok fuel : forall nh I pos lim l,
    repr bs I pos lim -> collect fuel (mkExtIter nh I) = Ok l -> Forall item_wf l ->
    flatM item_fields2 l = Ok (chain_spec2 bs fuel nh pos lim).
  Proof.
    induction fuel as [|f IH]; intros nh I pos lim l R H Wl; [discriminate|].
    cbn [collect] in H. cbn [chain_spec2]. binv H o Eo.
    unfold next in Eo. cbn [xi_rest xi_next_header] in Eo.
    rewrite (repr_len _ _ _ _ R) in Eo. pose proof R as (_ & P1 & P2).
    destruct (lim - pos =? 0) eqn:E0.
    { injection Eo as <-. injection H as <-. destruct (lim <=? pos) eqn:C; [reflexivity|lia]. }
    destruct (lim <=? pos) eqn:C; [lia|].
    change IPN_HOP_BY_HOP with 0 in Eo. change IPN_ROUTE with 43 in Eo.
    change IPN_DEST_OPTIONS with 60 in Eo. change IPN_FRAG with 44 in Eo. change IPN_AUTH with 51 in Eo.
    assert (RAW : forall wrap,
      (forall s, item_wf (wrap s) = wf_raw s) -> (forall s, item_fields2 (wrap s) = Ok []) ->
      arm (mkExtIter nh I) Ipv6RawExtHeaderA.from_slice_unchecked Ipv6RawExtHeaderA.next_header wrap = Ok o ->
      flatM item_fields2 l =
      Ok (chain_spec2 bs f (B bs pos) (pos + (B bs (pos + 1) + 1) * 8) lim)).
    { intros wrap Hw Hf Ea.
      destruct (arm_step _ _ _ _ _ _ _ _ _ R Ea (raw_mk_prefix I) (fun _ => eq_refl)) as (sl & rest' & -> & Rsl & Rr).
      binv H r Er. injection H as <-. inversion Wl as [|? ? Wx Wr]; subst.
      rewrite Hw in Wx. rewrite <- (raw_len_spec _ _ _ Rsl Wx).
      cbn [flatM]. rewrite Hf. cbn [bind].
      rewrite (IH _ _ _ _ _ Rr Er Wr). reflexivity. }
    destruct (nh =? 0); cbn [orb].
    { apply (RAW XHopByHop); auto. }
    destruct (nh =? 43); cbn [orb].
    { apply (RAW XRouting); auto. }
    destruct (nh =? 60); cbn [orb].
    { apply (RAW XDestinationOptions); auto. }
    clear RAW.
    destruct (nh =? 44).
    { destruct (arm_step _ _ _ _ _ _ _ _ _ R Eo (frag_mk_prefix I) (fun _ => eq_refl)) as (sl & rest' & -> & Rsl & Rr).
      binv H r Er. injection H as <-. inversion Wl as [|? ? Wx Wr]; subst.
      cbn [item_wf] in Wx. unfold wf_frag in Wx. rewrite Wx in *.
      cbn [flatM item_fields2].
      rewrite (frag_isfrag_ok sl (repr_in_buf _ _ _ _ Rsl) Wx). cbn [bind].
      rewrite (repr_off _ _ _ _ Rsl).
      rewrite (IH _ _ _ _ _ Rr Er Wr). reflexivity. }
    destruct (nh =? 51).
    { destruct (arm_step _ _ _ _ _ _ _ _ _ R Eo (auth_mk_prefix I) (fun _ => eq_refl)) as (sl & rest' & -> & Rsl & Rr).
      binv H r Er. injection H as <-. inversion Wl as [|? ? Wx Wr]; subst.
      cbn [item_wf] in Wx. rewrite <- (ah_len_spec _ _ _ Rsl Wx).
      cbn [flatM item_fields2 bind].
      rewrite (IH _ _ _ _ _ Rr Er Wr). reflexivity. }
    injection Eo as <-. injection H as <-. reflexivity.
  Qed.

  Lemma chain_spec2_empty fuel nh pos : chain_spec2 bs (S fuel) nh pos pos = [].
  Proof. cbn [chain_spec2]. destruct (pos <=? pos) eqn:C; [reflexivity|lia]. Qed.

  (* ---- transport -------------------------------------------------------------------------- *)
  Lemma udp_fields2_ok s ipw :
    in_buf bs s -> tr_ok bs ipw (VUdp (win_of s)) -> udp_fields2 s = Ok (udp_spec2 bs (win_of s)).
  Proof.
    intros I T. pose proof (in_buf_repr _ _ I) as R.
    cbn [tr_ok] in T. cbv zeta in T. unfold win_of in T. cbn [fst snd] in T.
    destruct T as (_ & L & _ & Tz & Tnz).
    unfold udp_fields2, UdpA.header_slice, UdpA.payload, UdpA.payload_len_source, UdpA.length.
    rewrite subN_ok by lia. cbn [bind].
    destruct (repr_subU_win bs s _ _ 0 8 R) as (w1 & E1 & W1); [lia|].
    destruct (repr_subU_win bs s _ _ 8 (s_len s - 8) R) as (w2 & E2 & W2); [lia|].
    rewrite E1. cbn [bind]. rewrite E2. cbn [bind].
    rewrite (repr_rd16 _ _ _ _ 4 R) by lia. cbn [bind]. rewrite W1, W2.
    unfold udp_spec2, win_of. cbn [fst snd]. rewrite N.add_0_r.
    destruct (W bs (s_off s + 4) =? 0) eqn:C.
    - destruct (W bs (s_off s + 4) =? s_len s) eqn:C2; [lia|reflexivity].
    - assert (C' : 0 < W bs (s_off s + 4)) by lia. specialize (Tnz C').
      destruct (W bs (s_off s + 4) =? s_len s) eqn:C2; [reflexivity|lia].
  Qed.

  Lemma tcp_fields2_ok hl s ipw :
    in_buf bs s -> tr_ok bs ipw (VTcp hl (win_of s)) -> tcp_fields2 (hl, s) = Ok (tcp_spec2 bs (win_of s)).
  Proof.
    intros I T. pose proof (in_buf_repr _ _ I) as R.
    cbn [tr_ok] in T. unfold win_of in T. cbn [fst snd] in T. destruct T as (_ & Thl & T20 & Tle).
    destruct (byte_facts (B bs (s_off s + 12)) (B_lt _ _ Hok)) as (E1 & _).
    destruct (byte_facts2 (B bs (s_off s + 12)) (B_lt _ _ Hok)) as (_ & _ & _ & _ & F5).
    assert (Hhl : bits bs (s_off s + 12) 1 0 4 * 4 = hl).
    { unfold bits. cbn [bytes_at]. rewrite <- E1, F5. now rewrite Thl. }
    unfold tcp_fields2, tcp_header_len, TcpSliceA.header_slice, TcpSliceA.payload. cbn [fst snd bind].
    rewrite subN_ok by lia. cbn [bind].
    destruct (repr_subU_win bs s _ _ 0 hl R) as (w1 & E1' & W1); [lia|].
    destruct (repr_subU_win bs s _ _ hl (s_len s - hl) R) as (w2 & E2 & W2); [lia|].
    rewrite E1'. cbn [bind]. rewrite E2. cbn [bind]. rewrite W1, W2.
    unfold tcp_spec2, win_of. cbn [fst snd]. rewrite Hhl, N.add_0_r. reflexivity.
  Qed.

  Lemma icmp4_fields2_ok s : in_buf bs s -> wf_icmp4 s -> icmp4_fields2 s = Ok (icmp4_spec2 bs (win_of s)).
  Proof.
    intros I (L & t & c & Et & Ec & Ts). pose proof (in_buf_repr _ _ I) as R.
    rewrite (repr_rdU _ _ _ _ 0 R) in Et by lia. rewrite (repr_rdU _ _ _ _ 1 R) in Ec by lia.
    rewrite N.add_0_r in Et. injection Et as <-. injection Ec as <-.
    unfold icmp4_fields2, Icmpv4A.header_len, Icmpv4A.payload, Icmpv4A.type_u8, Icmpv4A.code_u8.
    rewrite !(repr_rdU _ _ _ _ 0 R), !(repr_rdU _ _ _ _ 1 R) by lia. cbn [bind]. rewrite !N.add_0_r.
    set (p := s_off s) in *. unfold Icmpv4A.is_ts in *.
    unfold icmp4_spec2, win_of. cbn [fst snd]. fold p. rewrite (N.eqb_sym 0 (B bs (p + 1))) in *.
    destruct (((B bs p =? 13) || (B bs p =? 14)) && (B bs (p + 1) =? 0)) eqn:C.
    - specialize (Ts eq_refl). rewrite subN_ok by lia. cbn [bind].
      destruct (repr_subU_win bs s _ _ 20 (s_len s - 20) R) as (w & E & Ww); [lia|].
      unfold win_of in Ww. rewrite E. cbn [bind]. rewrite Ww. reflexivity.
    - rewrite subN_ok by lia. cbn [bind].
      destruct (repr_subU_win bs s _ _ 8 (s_len s - 8) R) as (w & E & Ww); [lia|].
      unfold win_of in Ww. rewrite E. cbn [bind]. rewrite Ww. reflexivity.
  Qed.

  Lemma icmp6_fields2_ok s : in_buf bs s -> 8 <= s_len s -> icmp6_fields2 s = Ok (icmp6_spec2 (win_of s)).
  Proof.
    intros I L. pose proof (in_buf_repr _ _ I) as R.
    unfold icmp6_fields2, icmp6_header_len, Icmpv6A.payload. cbn [bind]. rewrite subN_ok by lia. cbn [bind].
    destruct (repr_subU_win bs s _ _ 8 (s_len s - 8) R) as (w & E & Ww); [lia|].
    rewrite E. cbn [bind]. rewrite Ww. reflexivity.
  Qed.

  (* ---- components ---------------------------------------------------------------------------- *)
  Lemma link_fields2_ok l : link_prov bs l -> link_fields2 l = Ok (spec_link2 bs (view_link l)).
  Proof.
    destruct l as [s|h w|e]; cbn [link_prov link_fields2 view_link spec_link2].
    - intros (src & I & H). apply eth2_plain_wf in H. destruct H as (-> & (_ & L)). cbn [e2_fcs_len e2_slice] in L.
      rewrite (eth_fields2_ok src I) by lia. reflexivity.
    - intros (src & I & H). apply sll_wf in H. destruct H as (((Lh & _) & Lw) & E & S). cbn [fst snd] in *.
      subst src.
      rewrite (sll_fields2_ok h w (sub_of_in_buf _ _ _ I S) I Lh Lw). reflexivity.
    - reflexivity.
  Qed.

  Lemma ext_fields2_ok x : ext_prov bs x -> ext_fields2 x = Ok (spec_ext2 bs (view_ext x)).
  Proof.
    destruct x as [s|m]; cbn [ext_prov ext_fields2 view_ext spec_ext2].
    - intros (src & I & H). apply vlan_wf in H. destruct H as (-> & L). unfold wf_vlan in L.
      rewrite (vlan_fields2_ok src I L). reflexivity.
    - intros (src & I & H). apply macsec_wf in H. destruct H as (Wm & S & _). unfold wf_macsec in Wm.
      rewrite (macsec_fields2_ok _ (sub_of_in_buf _ _ _ I S) Wm). reflexivity.
  Qed.

  Lemma ipv6_layers2_ok src v cur :
    in_buf bs src -> wf_ipv6 v /\ ipv6_in v src ->
    (exists nh, rdU (v6_header v) 6 = Ok nh /\
      (x6_first (v6_exts v) = Some nh \/
       (x6_first (v6_exts v) = None /\ s_len (x6_slice (v6_exts v)) = 0))) ->
    net_ok bs cur (view_net (NtIpv6 v)) -> net_desc bs (view_net (NtIpv6 v)) ->
    net_fields2 (NtIpv6 v) = Ok (spec_net2 bs (wend cur) (view_net (NtIpv6 v))).
  Proof.
    intros I ((Wh & (l & El & G)) & (Sh & Sx & _)) (nh & Enh & F) N D.
    cbn [net_fields2 view_net spec_net2]. pose proof Wh as Wh'. unfold wf_ipv6h in Wh'.
    pose proof (sub_of_in_buf _ _ _ I Sh) as Ih. pose proof (sub_of_in_buf _ _ _ I Sx) as Ix.
    rewrite (ipv6_fields2_ok v cur Ih Wh N D). cbn [bind]. rewrite El. cbn [bind].
    pose proof (in_buf_repr _ _ Ih) as Rh. pose proof (in_buf_repr _ _ Ix) as Rx.
    rewrite (repr_rdU _ _ _ _ 6 Rh) in Enh by lia. injection Enh as <-.
    destruct G as (_ & _ & Wl & _).
    unfold Ipv6ExtIterA.items, Ipv6ExtIterA.into_iter in El. rewrite s_len_length in El.
    unfold win_of. cbn [fst snd].
    destruct F as [F|(F & L0)]; rewrite F in El.
    - rewrite (chain_fields2_ok _ _ _ _ _ _ Rx El Wl). reflexivity.
    - rewrite L0 in *. rewrite N.add_0_r in *.
      rewrite (chain_fields2_ok _ _ _ _ _ _ Rx El Wl). cbn [N.to_nat]. rewrite !chain_spec2_empty. reflexivity.
  Qed.

  Lemma net_fields2_ok n cur :
    net_prov bs n -> net_ok bs cur (view_net n) -> net_desc bs (view_net n) ->
    net_fields2 n = Ok (spec_net2 bs (wend cur) (view_net n)).
  Proof.
    destruct n as [v|v|a]; cbn [net_prov].
    - intros (src & I & H) N D.
      assert (X : wf_ipv4 v /\ ipv4_in v src).
      { destruct H as [H|H]; [now apply ipv4_wf|exact (ip_wf _ _ H)]. }
      destruct X as ((Wh & _) & (Sh & _)).
      cbn [net_fields2 view_net spec_net2].
      rewrite (ipv4_fields2_ok v cur (sub_of_in_buf _ _ _ I Sh) Wh N D). reflexivity.
    - intros (src & I & H) N D. apply (ipv6_layers2_ok src v cur I); auto.
      + destruct H as [H|H]; [now apply ipv6_wf|exact (ip_wf _ _ H)].
      + exact (ipv6_first src v H).
    - intros (src & I & H) _ _. apply arp_wf in H. destruct H as (Wa & S).
      cbn [net_fields2 view_net spec_net2].
      rewrite (arp_fields2_ok a (sub_of_in_buf _ _ _ I S) Wa). reflexivity.
  Qed.

  Lemma transport_fields2_ok t ipw :
    transport_prov bs t -> tr_ok bs ipw (view_tr t) -> transport_fields2 t = Ok (spec_tr2 bs (view_tr t)).
  Proof.
    destruct t as [s|hl s|s|s]; cbn [transport_prov transport_fields2 view_tr spec_tr2].
    - intros (src & I & H) T. apply udp_wf in H. destruct H as (L & S).
      rewrite (udp_fields2_ok s ipw (sub_of_in_buf _ _ _ I S) T). reflexivity.
    - intros (src & I & H) T. apply tcp_wf in H. destruct H as (_ & E). cbn [fst snd] in *. subst src.
      rewrite (tcp_fields2_ok hl s ipw I T). reflexivity.
    - intros (src & I & H) _. apply icmp4_wf in H. destruct H as (-> & Wf).
      rewrite (icmp4_fields2_ok src I Wf). reflexivity.
    - intros (src & I & H) _. apply icmp6_wf in H. destruct H as (-> & L). unfold wf_icmp6 in L.
      rewrite (icmp6_fields2_ok src I L). reflexivity.
  Qed.

  Lemma mapM_ext2_ok xs :
    Forall (ext_prov bs) xs -> mapM ext_fields2 xs = Ok (map (spec_ext2 bs) (map view_ext xs)).
  Proof.
    induction 1 as [|x xs Hx _ IH]; [reflexivity|].
    cbn [mapM map]. rewrite (ext_fields2_ok x Hx). cbn [bind]. rewrite IH. reflexivity.
  Qed.

  Theorem fields2_of_wf p :
    sliced_wf bs p -> nested bs (view p) -> desc bs (view p) ->
    fields2_of_packet p = Ok (spec_fields2 bs (view p)).
  Proof.
    intros (A & X & C & D) (_ & _ & Nn & Nt) Dn. unfold fields2_of_packet, spec_fields2, net_cur.
    unfold desc in Dn. unfold view in *. cbn [v_link v_exts v_net v_transport] in *.
    set (cur := exts_final (link_payload bs (option_map view_link (sp_link p))) (map view_ext (sp_exts p))) in *.
    assert (EA : ropt2 link_fields2 (sp_link p) = Ok (dopt (spec_link2 bs) (option_map view_link (sp_link p)))).
    { destruct (sp_link p) as [l|]; cbn [ropt2 dopt option_map optP] in *; [now apply link_fields2_ok|reflexivity]. }
    assert (EC : ropt2 net_fields2 (sp_net p) =
                 Ok (dopt (spec_net2 bs (wend cur)) (option_map view_net (sp_net p)))).
    { destruct (sp_net p) as [n|]; cbn [ropt2 dopt option_map optP] in *; [now apply net_fields2_ok|reflexivity]. }
    assert (ED : ropt2 transport_fields2 (sp_transport p) =
                 Ok (dopt (spec_tr2 bs) (option_map view_tr (sp_transport p)))).
    { destruct (sp_transport p) as [t|]; cbn [ropt2 dopt option_map optP] in *; [|reflexivity].
      unfold tr_nested in Nt.
      destruct (net_payload (option_map view_net (sp_net p))) as [ip|]; [|contradiction].
      destruct Nt as (_ & Nt). now apply (transport_fields2_ok t (vip_win ip)). }
    rewrite EA. cbn [bind]. rewrite (mapM_ext2_ok _ X). cbn [bind]. rewrite EC. cbn [bind]. rewrite ED.
    reflexivity.
  Qed.
End Link2.

(* ---- the four strict entry points: with the C03 refinement (the view is the view of the
   reference decoder, hence nested and described) ------------------------------------------- *)
Theorem fields2_wire_from_ethernet bs p : bytes_ok bs -> SlicedPacket.from_ethernet bs = Ok p ->
  wire_ethernet bs = VOk (view p) /\ fields2_of_packet p = Ok (spec_fields2 bs (view p)).
Proof.
  intros Hok H. destruct (strict_nested_from_ethernet bs Hok p H) as (E & N & _).
  split; [exact E|]. apply (fields2_of_wf bs Hok p); [|exact N|exact (wire_ethernet_desc bs _ E)].
  apply (sliced_wf_entry bs 0 p). auto.
Qed.

Theorem fields2_wire_from_linux_sll bs p : bytes_ok bs -> SlicedPacket.from_linux_sll bs = Ok p ->
  wire_linux_sll bs = VOk (view p) /\ fields2_of_packet p = Ok (spec_fields2 bs (view p)).
Proof.
  intros Hok H. destruct (strict_nested_from_linux_sll bs Hok p H) as (E & N & _).
  split; [exact E|]. apply (fields2_of_wf bs Hok p); [|exact N|exact (wire_linux_sll_desc bs _ E)].
  apply (sliced_wf_entry bs 0 p). auto.
Qed.

Theorem fields2_wire_from_ether_type bs et p : bytes_ok bs -> SlicedPacket.from_ether_type et bs = Ok p ->
  wire_ether_type bs et = VOk (view p) /\ fields2_of_packet p = Ok (spec_fields2 bs (view p)).
Proof.
  intros Hok H. destruct (strict_nested_from_ether_type bs et Hok p H) as (E & N & _).
  split; [exact E|]. apply (fields2_of_wf bs Hok p); [|exact N|exact (wire_ether_type_desc bs et _ E)].
  apply (sliced_wf_entry bs et p). auto.
Qed.

Theorem fields2_wire_from_ip bs p : bytes_ok bs -> SlicedPacket.from_ip bs = Ok p ->
  wire_from_ip bs = VOk (view p) /\ fields2_of_packet p = Ok (spec_fields2 bs (view p)).
Proof.
  intros Hok H. destruct (strict_nested_from_ip bs Hok p H) as (E & N & _).
  split; [exact E|]. apply (fields2_of_wf bs Hok p); [|exact N|exact (wire_from_ip_desc bs _ E)].
  apply (sliced_wf_entry bs 0 p). auto.
Qed.
