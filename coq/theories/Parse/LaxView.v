(* Parse/LaxView.v -- what an observer sees of a lax slicing result: windows of
   the caller's buffer, the values that drive the parse, the `incomplete` flags,
   length sources and the stop error.  `strictify` forgets what only lax results
   carry, giving the strict observer view of Parse/View.v. *)
From EP Require Import Base.Bytes Parse.Types Parse.Slices Parse.Cursor Parse.View
  Parse.LaxSlices Parse.LaxCursor.

Record lvether_payload := mkLVEp {
  lvep_incomplete : bool; lvep_type : N; lvep_src : len_source; lvep_win : window }.
Record lvip_payload := mkLVIp {
  lvip_incomplete : bool; lvip_number : N; lvip_frag : bool; lvip_src : len_source;
  lvip_win : window }.

Inductive lvmacsec_payload :=
| LVMpUnmodified (e : lvether_payload)
| LVMpModified (incomplete : bool) (w : window).

Inductive lvlink_ext :=
| LVVlan (w : window)
| LVMacsec (hdr : window) (p : lvmacsec_payload).

Inductive lvnet :=
| LVIpv4 (hdr : window) (auth : option window) (p : lvip_payload)
| LVIpv6 (hdr : window) (first : option N) (frag : bool) (exts : window) (p : lvip_payload)
| LVArp (w : window).

Record lvpacket := mkLVPacket {
  lv_link : option vlink;
  lv_exts : list lvlink_ext;
  lv_net : option lvnet;
  lv_transport : option vtransport;
  lv_stop : option stop_error;
}.

Inductive lvres :=
| LVOk (p : lvpacket)
| LVErr (e : slice_error)
| LVBug (site : N).

Definition lview_ep (e : lax_ether_payload) : lvether_payload :=
  mkLVEp (lep_incomplete e) (lep_ether_type e) (lep_src e) (win_of (lep_slice e)).
Definition lview_ipp (p : lax_ip_payload) : lvip_payload :=
  mkLVIp (lipp_incomplete p) (lipp_number p) (lipp_fragmented p) (lipp_src p) (win_of (lipp_slice p)).
Definition lview_macsec (m : lax_macsec_slice) : lvlink_ext :=
  LVMacsec (win_of (lms_header m))
    (match lms_payload m with
     | LMpUnmodified e => LVMpUnmodified (lview_ep e)
     | LMpModified i s => LVMpModified i (win_of s)
     end).
Definition lview_ext (x : lax_link_ext_slice) : lvlink_ext :=
  match x with
  | LLeVlan s => LVVlan (win_of s)
  | LLeMacsec m => lview_macsec m
  end.
Definition lview_v4 (v : lax_ipv4_slice) : lvnet :=
  LVIpv4 (win_of (lv4_header v)) (option_map win_of (lv4_auth v)) (lview_ipp (lv4_payload v)).
Definition lview_v6 (v : lax_ipv6_slice) : lvnet :=
  LVIpv6 (win_of (lv6_header v)) (x6_first (lv6_exts v)) (x6_fragmented (lv6_exts v))
    (win_of (x6_slice (lv6_exts v))) (lview_ipp (lv6_payload v)).
Definition lview_net (n : lax_net_slice) : lvnet :=
  match n with
  | LNtIpv4 v => lview_v4 v
  | LNtIpv6 v => lview_v6 v
  | LNtArp s => LVArp (win_of s)
  end.
Definition lview (p : lax_sliced_packet) : lvpacket :=
  mkLVPacket (option_map view_link (lsp_link p)) (map lview_ext (lsp_exts p))
             (option_map lview_net (lsp_net p)) (option_map view_tr (lsp_transport p))
             (lsp_stop_err p).

Definition lvres_of (r : res lax_sliced_packet) : lvres :=
  match r with
  | Ok p => LVOk (lview p)
  | Err e => LVErr e
  | Bug s => LVBug s
  end.

(* ---- forgetting the lax-only information --------------------------------- *)
Definition strictify_ep (e : lvether_payload) : vether_payload :=
  mkVEp (lvep_type e) (lvep_src e) (lvep_win e).
Definition strictify_ipp (p : lvip_payload) : vip_payload :=
  mkVIp (lvip_number p) (lvip_frag p) (lvip_src p) (lvip_win p).
Definition strictify_ext (x : lvlink_ext) : vlink_ext :=
  match x with
  | LVVlan w => VVlan w
  | LVMacsec h (LVMpUnmodified e) => VMacsec h (VMpUnmodified (strictify_ep e))
  | LVMacsec h (LVMpModified _ w) => VMacsec h (VMpModified w)
  end.
Definition strictify_net (n : lvnet) : vnet :=
  match n with
  | LVIpv4 h a p => VIpv4 h a (strictify_ipp p)
  | LVIpv6 h f fr x p => VIpv6 h f fr x (strictify_ipp p)
  | LVArp w => VArp w
  end.
Definition strictify (p : lvpacket) : vpacket :=
  mkVPacket (lv_link p) (map strictify_ext (lv_exts p)) (option_map strictify_net (lv_net p))
            (lv_transport p).

(* no payload of the result is marked incomplete *)
Definition ext_complete (x : lvlink_ext) : bool :=
  match x with
  | LVVlan _ => true
  | LVMacsec _ (LVMpUnmodified e) => negb (lvep_incomplete e)
  | LVMacsec _ (LVMpModified i _) => negb i
  end.
Definition net_complete (n : lvnet) : bool :=
  match n with
  | LVIpv4 _ _ p => negb (lvip_incomplete p)
  | LVIpv6 _ _ _ _ p => negb (lvip_incomplete p)
  | LVArp _ => true
  end.
Definition all_complete (p : lvpacket) : bool :=
  forallb ext_complete (lv_exts p) &&
  match lv_net p with Some n => net_complete n | None => true end.
