(* Parse/WireSpecFacts.v -- facts ABOUT the reference decoder (Parse/WireSpec.v), for
   every byte string and all four entry points:

   * `wire_err_classes`: every rejection of the reference decoder falls in exactly one
     of six classes, decided by `classify bs err` from the error and the bytes at the
     failing layer's offset: header cut short | a length field claims more than is
     present | a length field is smaller than its own header | a listed content rule |
     the ICMPv4 timestamp size rule | ICMPv6 longer than 2^32-1.
   * `wire_len_direction`: `required > len` for every length error, except the two
     "oversized" rules (ICMPv4 timestamp / timestamp reply: required = 20, len <> 20;
     ICMPv6: required = 2^32-1 < len).

   Audit round 1 (C03 "fails exactly when ...", C07 "required_len > len for missing
   data and required_len < len for oversized data"): these clauses were true by
   inspection of WireSpec.v only. *)
From EP Require Import Base.Bytes Parse.Types Parse.View Parse.WireSpec.
From Coq Require Import ZArith Lia ZifyN ZifyBool.

Local Open Scope N_scope.

(* ---- the classes --------------------------------------------------------------- *)
Inductive err_class :=
| EcHeaderCut             (* a header is cut short: fewer bytes before the limit than the
                             fixed part / the length the header itself announces *)
| EcLenFieldBeyond        (* a length field claims more bytes than are present *)
| EcLenFieldBelowHeader   (* a length field is smaller than its own header *)
| EcContentRule           (* one of the listed content rules *)
| EcIcmpv4TimestampSize   (* ICMPv4 timestamp / timestamp reply that is not 20 bytes *)
| EcIcmpv6TooLong.        (* ICMPv6 longer than 2^32-1 bytes *)

Definition sel (b : bool) (c : err_class) : option err_class := if b then Some c else None.

(* SecTAG length from the TCI octet: 6, + 2 (ether type of an unmodified frame), + 8 (SCI) *)
Definition macsec_hl (tci : N) : N :=
  6 + (if (tci / 4) mod 4 =? 0 then 2 else 0) + (if negb ((tci / 32) mod 2 =? 0) then 8 else 0).
(* octets behind the SecTAG announced by a non-zero short length *)
Definition macsec_body (tci sl : N) : N := if (tci / 4) mod 4 =? 0 then sl - 2 else sl.

Section Classes.
  Variable bs : bytes.
  Local Notation B := (B bs).
  Local Notation W := (W bs).

  (* length errors: o = offset of the failing layer, r = required, l = reported length *)
  Definition class_len (e : len_error) : option err_class :=
    let o := le_off e in
    let r := le_required e in
    let l := le_len e in
    match le_layer e with
    | LyEthernet2Header => sel ((r =? 14) && (l <? r)) EcHeaderCut
    | LyLinuxSllHeader => sel ((r =? 16) && (l <? r)) EcHeaderCut
    | LyVlanHeader => sel ((r =? 4) && (l <? r)) EcHeaderCut
    | LyMacsecHeader => sel (((r =? 6) || (r =? macsec_hl (B o))) && (l <? r)) EcHeaderCut
    | LyMacsecPacket =>
        sel ((0 <? B (o + 1) mod 64) &&
             (r =? macsec_hl (B o) + macsec_body (B o) (B (o + 1) mod 64)) && (l <? r))
          EcLenFieldBeyond
    | LyIpHeader => sel ((r =? 1) && (l <? r)) EcHeaderCut
    | LyIpv4Header => sel (((r =? 20) || (r =? (B o mod 16) * 4)) && (l <? r)) EcHeaderCut
    | LyIpv4Packet =>
        if (r =? (B o mod 16) * 4) && (l =? W (o + 2)) && (l <? r) then Some EcLenFieldBelowHeader
        else sel ((r =? W (o + 2)) && (l <? r)) EcLenFieldBeyond
    | LyIpAuthHeader => sel (((r =? 12) || (r =? (B (o + 1) + 2) * 4)) && (l <? r)) EcHeaderCut
    | LyIpv6Header => sel ((r =? 40) && (l <? r)) EcHeaderCut
    | LyIpv6Packet => sel ((r =? 40 + W (o + 4)) && (l <? r)) EcLenFieldBeyond
    | LyIpv6ExtHeader => sel (((r =? 8) || (r =? (B (o + 1) + 1) * 8)) && (l <? r)) EcHeaderCut
    | LyIpv6FragHeader => sel ((r =? 8) && (l <? r)) EcHeaderCut
    | LyUdpHeader =>
        match le_src e with
        | LsUdpHeaderLen => sel ((r =? 8) && (l =? W (o + 4)) && (0 <? l) && (l <? r)) EcLenFieldBelowHeader
        | _ => sel ((r =? 8) && (l <? r)) EcHeaderCut
        end
    | LyUdpPayload => sel ((r =? W (o + 4)) && (l <? r)) EcLenFieldBeyond
    | LyTcpHeader => sel (((r =? 20) || (r =? (B (o + 12) / 16) * 4)) && (l <? r)) EcHeaderCut
    | LyIcmpv4 => sel ((r =? 8) && (l <? r)) EcHeaderCut
    | LyIcmpv4Timestamp =>
        sel ((B o =? 13) && (B (o + 1) =? 0) && (r =? 20) && (8 <=? l) && negb (l =? 20)) EcIcmpv4TimestampSize
    | LyIcmpv4TimestampReply =>
        sel ((B o =? 14) && (B (o + 1) =? 0) && (r =? 20) && (8 <=? l) && negb (l =? 20)) EcIcmpv4TimestampSize
    | LyIcmpv6 =>
        if (r =? 8) && (l <? r) then Some EcHeaderCut
        else sel ((r =? 4294967295) && (r <? l)) EcIcmpv6TooLong
    | LyArp => sel (((r =? 8) || (r =? 8 + B (o + 4) * 2 + B (o + 5) * 2)) && (l <? r)) EcHeaderCut
    | LyEtherPayload | LyIpv6HopByHopHeader | LyIpv6DestOptionsHeader | LyIpv6RouteHeader => None
    end.

  (* content errors: the listed rule, and the carried value really violates it *)
  Definition class_content (c : content_error) : option err_class :=
    match c with
    | CeLinuxSllPacketType v => sel (7 <? v) EcContentRule
    | CeLinuxSllArpHardwareId v => sel (negb (sll_hw_supported v)) EcContentRule
    | CeMacsecVersion | CeMacsecUnmodifiedShortLen | CeAuthZeroPayloadLen
    | CeIpv6AuthZeroPayloadLen | CeHopByHopNotAtStart => Some EcContentRule
    | CeIpUnsupportedVersion v => sel (negb (v =? 4) && negb (v =? 6)) EcContentRule
    | CeIpIhl v | CeIpv4Ihl v => sel (v <? 5) EcContentRule
    | CeIpv4Version v => sel (negb (v =? 4)) EcContentRule
    | CeIpv6Version v => sel (negb (v =? 6)) EcContentRule
    | CeTcpDataOffset v => sel (v <? 5) EcContentRule
    end.

  Definition classify (err : slice_error) : option err_class :=
    match err with
    | ELen e => class_len e
    | EContent c => class_content c
    end.
End Classes.

(* ---- direction of length errors -------------------------------------------------- *)
Definition len_direction (e : len_error) : Prop :=
  match le_layer e with
  | LyIcmpv4Timestamp | LyIcmpv4TimestampReply =>
      le_required e = 20 /\ 8 <= le_len e /\ le_len e <> 20
  | LyIcmpv6 =>
      (le_required e = 8 /\ le_len e < 8) \/
      (le_required e = 4294967295 /\ 4294967295 < le_len e)
  | _ => le_len e < le_required e
  end.

(* the layers / required values of the two "oversized" rules *)
Definition oversized_rule (e : len_error) : Prop :=
  ((le_layer e = LyIcmpv4Timestamp \/ le_layer e = LyIcmpv4TimestampReply) /\ le_required e = 20) \/
  (le_layer e = LyIcmpv6 /\ le_required e = 4294967295).

Lemma len_direction_meaning e :
  len_direction e ->
  (le_len e < le_required e \/ (le_required e < le_len e /\ oversized_rule e)) /\
  le_required e <> le_len e.
Proof.
  unfold len_direction, oversized_rule. destruct (le_layer e); intros H; try (split; [left|]; lia).
  - destruct H as (H1 & H2 & H3). split; [|lia].
    destruct (N.lt_ge_cases (le_len e) 20); [left; lia|right; split; [lia|left; split; auto]].
  - destruct H as (H1 & H2 & H3). split; [|lia].
    destruct (N.lt_ge_cases (le_len e) 20); [left; lia|right; split; [lia|left; split; auto]].
  - destruct H as [(H1 & H2)|(H1 & H2)]; (split; [|lia]); [left; lia|right; split; [lia|right; split; auto]].
Qed.

(* a classified length error has the direction of its class *)
Lemma class_len_direction bs e c :
  class_len bs e = Some c ->
  len_direction e /\
  (c = EcHeaderCut \/ c = EcLenFieldBeyond \/ c = EcLenFieldBelowHeader -> le_len e < le_required e) /\
  (c = EcIcmpv4TimestampSize -> le_required e = 20 /\ le_len e <> 20) /\
  (c = EcIcmpv6TooLong -> le_required e = 4294967295 /\ 4294967295 < le_len e) /\
  c <> EcContentRule.
Proof.
  unfold class_len, len_direction, sel.
  destruct (le_layer e); try discriminate;
    try destruct (le_src e);
    repeat match goal with
           | |- context [if ?b then _ else _] => let E := fresh "E" in destruct b eqn:E
           end;
    intros H; try discriminate; injection H as <-;
    (split; [|split; [|split; [|split]]]); try discriminate; try (intros [?|[?|?]]; discriminate);
    try (intros _); try lia.
Qed.

(* ---- every rejection of the reference decoder is classified ---------------------- *)
Section Proofs.
  Variable bs : bytes.
  Local Notation B := (B bs).
  Local Notation W := (W bs).

  Definition EOK (r : vres) : Prop := forall err, r = VErr err -> classify bs err <> None.

  Lemma EOK_ok p : EOK (VOk p).
  Proof. intros err H. discriminate. Qed.

  Lemma sel_true b c : b = true -> sel b c <> None.
  Proof. intros ->. discriminate. Qed.
  Lemma sel2_true b1 c1 b2 c2 : b1 || b2 = true -> (if b1 then Some c1 else sel b2 c2) <> None.
  Proof. destruct b1; cbn; [discriminate|intros ->; discriminate]. Qed.

  Lemma EOK_cut r a src ly pos :
    class_len bs (mkLenError r a src ly pos) <> None -> EOK (cut r a src ly pos).
  Proof. intros H err E. unfold cut in E. injection E as <-. exact H. Qed.
  Lemma EOK_bad c : class_content c <> None -> EOK (bad c).
  Proof. intros H err E. unfold bad in E. injection E as <-. exact H. Qed.

  (* length sources that reach a transport layer as the source of its limit *)
  Definition osrc (s : len_source) : Prop :=
    s = LsSlice \/ s = LsMacsecShortLength \/ s = LsIpv4HeaderTotalLen \/ s = LsIpv6HeaderPayloadLen.

  Ltac leaf :=
    apply EOK_cut; unfold class_len;
    cbn [le_layer le_off le_required le_len le_src];
    first [apply sel_true | apply sel2_true]; lia.

  Ltac brk E :=
    match goal with
    | |- EOK (if ?c then _ else _) => destruct c eqn:E
    end.

  Lemma wire_udp_eok p src pos lim : osrc src -> EOK (wire_udp bs p src pos lim).
  Proof.
    intros Hs. unfold wire_udp. cbv zeta.
    brk E1.
    { apply EOK_cut; unfold class_len; cbn [le_layer le_off le_required le_len le_src].
      destruct Hs as [-> | [-> | [-> | ->]]]; apply sel_true; lia. }
    brk E2; [leaf|]. brk E3; [apply EOK_ok|]. brk E4; [leaf|apply EOK_ok].
  Qed.

  Lemma wire_tcp_eok p src pos lim : EOK (wire_tcp bs p src pos lim).
  Proof.
    unfold wire_tcp. cbv zeta. brk E1; [leaf|]. brk E2.
    { apply EOK_bad. cbn [class_content]. apply sel_true. exact E2. }
    brk E3; [leaf|apply EOK_ok].
  Qed.

  Lemma wire_icmp4_eok p src pos lim : EOK (wire_icmp4 bs p src pos lim).
  Proof.
    unfold wire_icmp4. cbv zeta. brk E1; [leaf|]. brk E2; [leaf|]. brk E3; [leaf|apply EOK_ok].
  Qed.

  Lemma wire_icmp6_eok p src pos lim : EOK (wire_icmp6 p src pos lim).
  Proof.
    unfold wire_icmp6. cbv zeta. brk E1; [leaf|]. brk E2; [leaf|apply EOK_ok].
  Qed.

  Lemma wire_transport_eok p ipn frag src pos lim :
    osrc src -> EOK (wire_transport bs p ipn frag src pos lim).
  Proof.
    intros Hs. unfold wire_transport.
    destruct frag; [apply EOK_ok|].
    destruct (ipn =? 1); [apply wire_icmp4_eok|].
    destruct (ipn =? 17); [now apply wire_udp_eok|].
    destruct (ipn =? 6); [apply wire_tcp_eok|].
    destruct (ipn =? 58); [apply wire_icmp6_eok|apply EOK_ok].
  Qed.

  Lemma wire_ah_eok zero src pos lim r :
    class_content zero <> None -> wire_ah bs zero src pos lim = AhErr r -> EOK r.
  Proof.
    intros Hz. unfold wire_ah. cbv zeta.
    destruct (lim - pos <? 12) eqn:E1; [intros H; injection H as <-; leaf|].
    destruct (B (pos + 1) =? 0) eqn:E2; [intros H; injection H as <-; now apply EOK_bad|].
    destruct (lim - pos <? (B (pos + 1) + 2) * 4) eqn:E3; [intros H; injection H as <-; leaf|discriminate].
  Qed.

  Lemma wire_ipv4_tail_eok p pos hl lim' : EOK (wire_ipv4_tail bs p pos hl lim').
  Proof.
    unfold wire_ipv4_tail. cbv zeta.
    destruct (B (pos + 9) =? 51).
    - destruct (wire_ah bs CeAuthZeroPayloadLen LsIpv4HeaderTotalLen (pos + hl) lim') as [ahl next|r] eqn:Ea.
      + apply wire_transport_eok. right; right; left; reflexivity.
      + eapply wire_ah_eok; [|exact Ea]. discriminate.
    - apply wire_transport_eok. right; right; left; reflexivity.
  Qed.

  Lemma wire_ipv4_body_eok p src pos lim hl :
    hl = (B pos mod 16) * 4 -> EOK (wire_ipv4_body bs p src pos lim hl).
  Proof.
    intros Hhl. unfold wire_ipv4_body. cbv zeta.
    brk E1; [leaf|]. brk E2; [leaf|]. apply wire_ipv4_tail_eok.
  Qed.

  Lemma wire_ipv4_eok p src pos lim : EOK (wire_ipv4 bs p src pos lim).
  Proof.
    unfold wire_ipv4. cbv zeta. brk E1; [leaf|].
    brk E2. { apply EOK_bad. cbn [class_content]. apply sel_true. exact E2. }
    brk E3. { apply EOK_bad. cbn [class_content]. apply sel_true. exact E3. }
    brk E4; [leaf|]. now apply wire_ipv4_body_eok.
  Qed.

  Lemma wire_chain_eok : forall fuel src pos lim nh frag r,
    wire_chain bs fuel src pos lim nh frag = ChErr r -> r = VBug SITE_FUEL \/ EOK r.
  Proof.
    induction fuel as [|f IH]; intros src pos lim nh frag r; cbn [wire_chain]; cbv zeta.
    { intros H. injection H as <-. now left. }
    destruct (nh =? 0). { intros H. injection H as <-. right. now apply EOK_bad. }
    destruct ((nh =? 60) || (nh =? 43)).
    { destruct (lim - pos <? 8) eqn:E1. { intros H. injection H as <-. right. leaf. }
      destruct (lim - pos <? (B (pos + 1) + 1) * 8) eqn:E2. { intros H. injection H as <-. right. leaf. }
      apply IH. }
    destruct (nh =? 44).
    { destruct (lim - pos <? 8) eqn:E1. { intros H. injection H as <-. right. leaf. }
      apply IH. }
    destruct (nh =? 51).
    { destruct (wire_ah bs CeIpv6AuthZeroPayloadLen src pos lim) as [l next|r'] eqn:Ea.
      - apply IH.
      - intros H. injection H as <-. right. eapply wire_ah_eok; [|exact Ea]. discriminate. }
    discriminate.
  Qed.

  Lemma wire_exts_eok fuel src pos lim nh r :
    wire_exts bs fuel src pos lim nh = ChErr r -> r = VBug SITE_FUEL \/ EOK r.
  Proof.
    unfold wire_exts. cbv zeta. destruct (nh =? 0); [|apply wire_chain_eok].
    destruct (lim - pos <? 8) eqn:E1. { intros H. injection H as <-. right. leaf. }
    destruct (lim - pos <? (B (pos + 1) + 1) * 8) eqn:E2. { intros H. injection H as <-. right. leaf. }
    apply wire_chain_eok.
  Qed.

  Lemma EOK_bug s : EOK (VBug s).
  Proof. intros err H. discriminate. Qed.

  Lemma wire_ipv6_tail_eok p esrc psrc pos lim' :
    osrc esrc -> EOK (wire_ipv6_tail bs p esrc psrc pos lim').
  Proof.
    intros Hs. unfold wire_ipv6_tail.
    destruct (wire_exts bs _ esrc (pos + 40) lim' (B (pos + 6))) as [e next frag|r] eqn:Ec.
    - now apply wire_transport_eok.
    - destruct (wire_exts_eok _ _ _ _ _ _ Ec) as [->|H]; [apply EOK_bug|exact H].
  Qed.

  Lemma wire_ipv6_body_eok p src pos lim :
    osrc src -> EOK (wire_ipv6_body bs p src pos lim).
  Proof.
    intros Hs. unfold wire_ipv6_body. cbv zeta.
    brk E1; [now apply wire_ipv6_tail_eok|]. brk E2; [leaf|].
    apply wire_ipv6_tail_eok. right; right; right; reflexivity.
  Qed.

  Lemma wire_ipv6_eok p src pos lim : osrc src -> EOK (wire_ipv6 bs p src pos lim).
  Proof.
    intros Hs. unfold wire_ipv6. cbv zeta. brk E1; [leaf|].
    brk E2. { apply EOK_bad. cbn [class_content]. apply sel_true. exact E2. }
    now apply wire_ipv6_body_eok.
  Qed.

  Lemma wire_ip_eok p src pos lim : osrc src -> EOK (wire_ip bs p src pos lim).
  Proof.
    intros Hs. unfold wire_ip. cbv zeta. brk E1; [leaf|].
    brk E2.
    { brk E3. { apply EOK_bad. cbn [class_content]. apply sel_true. exact E3. }
      brk E4; [leaf|]. now apply wire_ipv4_body_eok. }
    brk E3.
    { brk E4; [leaf|]. now apply wire_ipv6_body_eok. }
    apply EOK_bad. cbn [class_content]. apply sel_true. lia.
  Qed.

  Lemma wire_arp_eok p src pos lim : EOK (wire_arp bs p src pos lim).
  Proof.
    unfold wire_arp. cbv zeta. brk E1; [leaf|]. brk E2; [leaf|apply EOK_ok].
  Qed.

  Lemma wire_net_eok p et src pos lim : osrc src -> EOK (wire_net bs p et src pos lim).
  Proof.
    intros Hs. unfold wire_net.
    destruct (et =? 2054); [apply wire_arp_eok|].
    destruct (et =? 2048); [apply wire_ipv4_eok|].
    destruct (et =? 34525); [now apply wire_ipv6_eok|apply EOK_ok].
  Qed.

  Lemma wire_ether_eok : forall cap p et src pos lim,
    osrc src -> EOK (wire_ether bs cap p et src pos lim).
  Proof.
    induction cap as [|c IH]; intros p et src pos lim Hs; cbn [wire_ether]; cbv zeta.
    { destruct (is_vlan et); [apply EOK_ok|]. destruct (et =? 35045); [apply EOK_ok|now apply wire_net_eok]. }
    destruct (is_vlan et).
    { brk E1; [leaf|]. now apply IH. }
    destruct (et =? 35045); [|now apply wire_net_eok].
    brk E1; [leaf|].
    brk E2. { apply EOK_bad. discriminate. }
    brk E3. { apply EOK_bad. discriminate. }
    brk E4. { apply EOK_cut; unfold class_len, macsec_hl; cbn [le_layer le_off le_required le_len le_src].
              apply sel_true. lia. }
    brk E5. { apply EOK_cut; unfold class_len, macsec_hl, macsec_body; cbn [le_layer le_off le_required le_len le_src].
              apply sel_true. lia. }
    destruct ((B pos / 4) mod 4 =? 0); [|apply EOK_ok].
    apply IH. destruct (0 <? B (pos + 1) mod 64); [right; left; reflexivity|exact Hs].
  Qed.

  Theorem wire_ethernet_eok : EOK (wire_ethernet bs).
  Proof.
    unfold wire_ethernet. brk E1; [leaf|]. apply wire_ether_eok. now left.
  Qed.

  Theorem wire_linux_sll_eok : EOK (wire_linux_sll bs).
  Proof.
    unfold wire_linux_sll. cbv zeta. brk E1; [leaf|].
    brk E2. { apply EOK_bad. cbn [class_content]. apply sel_true. exact E2. }
    brk E3. { apply EOK_bad. cbn [class_content]. apply sel_true. exact E3. }
    brk E4; [|apply EOK_ok]. apply wire_ether_eok. now left.
  Qed.

  Theorem wire_ether_type_eok et : EOK (wire_ether_type bs et).
  Proof. unfold wire_ether_type. apply wire_ether_eok. now left. Qed.

  Theorem wire_from_ip_eok : EOK (wire_from_ip bs).
  Proof. unfold wire_from_ip. apply wire_ip_eok. now left. Qed.
End Proofs.

(* ---- the theorems ---------------------------------------------------------------- *)
Lemma EOK_class bs r err : EOK bs r -> r = VErr err -> exists c, classify bs err = Some c.
Proof.
  intros H E. specialize (H err E). destruct (classify bs err) as [c|]; [now exists c|contradiction].
Qed.

Theorem wire_err_classes bs et err :
  (wire_ethernet bs = VErr err -> exists c, classify bs err = Some c) /\
  (wire_linux_sll bs = VErr err -> exists c, classify bs err = Some c) /\
  (wire_ether_type bs et = VErr err -> exists c, classify bs err = Some c) /\
  (wire_from_ip bs = VErr err -> exists c, classify bs err = Some c).
Proof.
  repeat split; apply EOK_class;
    [apply wire_ethernet_eok|apply wire_linux_sll_eok|apply wire_ether_type_eok|apply wire_from_ip_eok].
Qed.

Theorem wire_len_direction bs et e :
  (wire_ethernet bs = VErr (ELen e) -> len_direction e) /\
  (wire_linux_sll bs = VErr (ELen e) -> len_direction e) /\
  (wire_ether_type bs et = VErr (ELen e) -> len_direction e) /\
  (wire_from_ip bs = VErr (ELen e) -> len_direction e).
Proof.
  destruct (wire_err_classes bs et (ELen e)) as (H1 & H2 & H3 & H4).
  repeat split; intros H;
    [destruct (H1 H) as (c & Hc)|destruct (H2 H) as (c & Hc)|destruct (H3 H) as (c & Hc)
    |destruct (H4 H) as (c & Hc)]; exact (proj1 (class_len_direction bs e c Hc)).
Qed.
