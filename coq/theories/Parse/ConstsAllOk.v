(* Parse/ConstsAllOk.v -- EVERY numeric `pub const` item of the crate (517 on the verified
   tree), re-extracted from the source on every run into Gen/ConstsAll.v by
   tools/gen_consts_all.py, has the value stated here.  The statements were written once from
   the verified tree (tools/gen_consts_all.py --emit-pins) and are the IANA / RFC / IEEE
   numbers the crate's own doc comments quote; the second part ties the limits of the bounded
   integer types to the field widths the property texts and BitFields/Spec.v name, and the
   protocol numbers the specifications mention to the specifications' numerals.  A constant
   that is changed, removed or renamed in the crate breaks this file and with it every Props
   file that imports it (C03, C12, C13, C14, C15, C17). *)
From Coq Require Import NArith.
From EP Require Gen.ConstsAll.
Local Open Scope N_scope.

(* pins for 517 constants *)
Lemma consts_all_0 :
  Gen.ConstsAll.defrag_mod__MAX_IP_DEFRAG_LEN_U16 = 65535 /\
  Gen.ConstsAll.lax_packet_headers__LINK_EXTS_CAP = 3 /\
  Gen.ConstsAll.lax_sliced_packet__LINK_EXTS_CAP = 3 /\
  Gen.ConstsAll.link_ether_type_impl__ARP = 2054 /\
  Gen.ConstsAll.link_ether_type_impl__IPV4 = 2048 /\
  Gen.ConstsAll.link_ether_type_impl__IPV6 = 34525 /\
  Gen.ConstsAll.link_ether_type_impl__MACSEC = 35045 /\
  Gen.ConstsAll.link_ether_type_impl__PROVIDER_BRIDGING = 34984 /\
  Gen.ConstsAll.link_ether_type_impl__VLAN_DOUBLE_TAGGED_FRAME = 37120 /\
  Gen.ConstsAll.link_ether_type_impl__VLAN_TAGGED_FRAME = 33024 /\
  Gen.ConstsAll.link_ether_type_impl__WAKE_ON_LAN = 2114 /\
  Gen.ConstsAll.link_ethernet2_header__LEN = 14 /\
  Gen.ConstsAll.link_linux_nonstandard_ether_type__ALL = 3 /\
  Gen.ConstsAll.link_linux_nonstandard_ether_type__ARCNET = 26 /\
  Gen.ConstsAll.link_linux_nonstandard_ether_type__AX25 = 2 /\
  Gen.ConstsAll.link_linux_nonstandard_ether_type__CAIF = 247 /\
  Gen.ConstsAll.link_linux_nonstandard_ether_type__CAN = 12 /\
  Gen.ConstsAll.link_linux_nonstandard_ether_type__CANFD = 13 /\
  Gen.ConstsAll.link_linux_nonstandard_ether_type__CANXL = 14 /\
  Gen.ConstsAll.link_linux_nonstandard_ether_type__CONTROL = 22 /\
  Gen.ConstsAll.link_linux_nonstandard_ether_type__DDCMP = 6 /\
  Gen.ConstsAll.link_linux_nonstandard_ether_type__DSA = 27 /\
  Gen.ConstsAll.link_linux_nonstandard_ether_type__ECONET = 24 /\
  Gen.ConstsAll.link_linux_nonstandard_ether_type__HDLC = 25 /\
  Gen.ConstsAll.link_linux_nonstandard_ether_type__IEEE802154 = 246 /\
  Gen.ConstsAll.link_linux_nonstandard_ether_type__IRDA = 23 /\
  Gen.ConstsAll.link_linux_nonstandard_ether_type__LOCALTALK = 9 /\
  Gen.ConstsAll.link_linux_nonstandard_ether_type__MAP = 249 /\
  Gen.ConstsAll.link_linux_nonstandard_ether_type__MCTP = 250 /\
  Gen.ConstsAll.link_linux_nonstandard_ether_type__MOBITEX = 21 /\
  Gen.ConstsAll.link_linux_nonstandard_ether_type__N802_2 = 4 /\
  Gen.ConstsAll.link_linux_nonstandard_ether_type__N802_3 = 1 /\
  Gen.ConstsAll.link_linux_nonstandard_ether_type__PHONET = 245 /\
  Gen.ConstsAll.link_linux_nonstandard_ether_type__PPPTALK = 16 /\
  Gen.ConstsAll.link_linux_nonstandard_ether_type__PPP_MP = 8 /\
  Gen.ConstsAll.link_linux_nonstandard_ether_type__SNAP = 5 /\
  Gen.ConstsAll.link_linux_nonstandard_ether_type__TRAILER = 28 /\
  Gen.ConstsAll.link_linux_nonstandard_ether_type__TR_802_2 = 17 /\
  Gen.ConstsAll.link_linux_nonstandard_ether_type__WAN_PPP = 7 /\
  Gen.ConstsAll.link_linux_nonstandard_ether_type__XDSA = 248.
Proof. repeat split; reflexivity. Qed.

Lemma consts_all_1 :
  Gen.ConstsAll.link_linux_sll_header__LEN = 16 /\
  Gen.ConstsAll.link_linux_sll_packet_type__BROADCAST = 1 /\
  Gen.ConstsAll.link_linux_sll_packet_type__HOST = 0 /\
  Gen.ConstsAll.link_linux_sll_packet_type__KERNEL = 7 /\
  Gen.ConstsAll.link_linux_sll_packet_type__LOOPBACK = 5 /\
  Gen.ConstsAll.link_linux_sll_packet_type__MAX_VAL = 7 /\
  Gen.ConstsAll.link_linux_sll_packet_type__MULTICAST = 2 /\
  Gen.ConstsAll.link_linux_sll_packet_type__OTHERHOST = 3 /\
  Gen.ConstsAll.link_linux_sll_packet_type__OUTGOING = 4 /\
  Gen.ConstsAll.link_linux_sll_packet_type__USER = 6 /\
  Gen.ConstsAll.link_macsec_an__MAX_U8 = 3 /\
  Gen.ConstsAll.link_macsec_an__ZERO = 0 /\
  Gen.ConstsAll.link_macsec_header__MAX_LEN = 16 /\
  Gen.ConstsAll.link_macsec_header__MIN_LEN = 6 /\
  Gen.ConstsAll.link_macsec_short_len__MAX_U8 = 63 /\
  Gen.ConstsAll.link_macsec_short_len__MAX_USIZE = 63 /\
  Gen.ConstsAll.link_macsec_short_len__ZERO = 0 /\
  Gen.ConstsAll.link_single_vlan_header__LEN = 4 /\
  Gen.ConstsAll.link_vlan_id__MAX_U16 = 4095 /\
  Gen.ConstsAll.link_vlan_id__ZERO = 0 /\
  Gen.ConstsAll.link_vlan_pcp__MAX_U8 = 7 /\
  Gen.ConstsAll.link_vlan_pcp__ZERO = 0 /\
  Gen.ConstsAll.net_arp_eth_ipv4_packet__LEN = 28 /\
  Gen.ConstsAll.net_arp_hardware_id__ADAPT = 264 /\
  Gen.ConstsAll.net_arp_hardware_id__APPLETLK = 8 /\
  Gen.ConstsAll.net_arp_hardware_id__ARCNET = 7 /\
  Gen.ConstsAll.net_arp_hardware_id__ARPSEC = 30 /\
  Gen.ConstsAll.net_arp_hardware_id__ASH = 781 /\
  Gen.ConstsAll.net_arp_hardware_id__ATM = 19 /\
  Gen.ConstsAll.net_arp_hardware_id__ATM_21 = 21 /\
  Gen.ConstsAll.net_arp_hardware_id__ATM_JXB2 = 16 /\
  Gen.ConstsAll.net_arp_hardware_id__AUTONET_SHORT_ADDRESS = 10 /\
  Gen.ConstsAll.net_arp_hardware_id__AX25 = 3 /\
  Gen.ConstsAll.net_arp_hardware_id__BIF = 775 /\
  Gen.ConstsAll.net_arp_hardware_id__CAI = 33 /\
  Gen.ConstsAll.net_arp_hardware_id__CAIF = 822 /\
  Gen.ConstsAll.net_arp_hardware_id__CAN = 280 /\
  Gen.ConstsAll.net_arp_hardware_id__CHAOS = 5 /\
  Gen.ConstsAll.net_arp_hardware_id__CISCO_HDLC = 513 /\
  Gen.ConstsAll.net_arp_hardware_id__CSLIP = 257.
Proof. repeat split; reflexivity. Qed.

Lemma consts_all_2 :
  Gen.ConstsAll.net_arp_hardware_id__CSLIP6 = 259 /\
  Gen.ConstsAll.net_arp_hardware_id__DDCMP = 517 /\
  Gen.ConstsAll.net_arp_hardware_id__DLCI = 15 /\
  Gen.ConstsAll.net_arp_hardware_id__ECONET = 782 /\
  Gen.ConstsAll.net_arp_hardware_id__EETHER = 2 /\
  Gen.ConstsAll.net_arp_hardware_id__ETHER = 1 /\
  Gen.ConstsAll.net_arp_hardware_id__ETHERNET = 1 /\
  Gen.ConstsAll.net_arp_hardware_id__EUI64 = 27 /\
  Gen.ConstsAll.net_arp_hardware_id__FCAL = 785 /\
  Gen.ConstsAll.net_arp_hardware_id__FCFABRIC = 787 /\
  Gen.ConstsAll.net_arp_hardware_id__FCPL = 786 /\
  Gen.ConstsAll.net_arp_hardware_id__FCPP = 784 /\
  Gen.ConstsAll.net_arp_hardware_id__FDDI = 774 /\
  Gen.ConstsAll.net_arp_hardware_id__FIBRE_CHANNEL = 18 /\
  Gen.ConstsAll.net_arp_hardware_id__FRAD = 770 /\
  Gen.ConstsAll.net_arp_hardware_id__FRAME_RELAY = 15 /\
  Gen.ConstsAll.net_arp_hardware_id__HDLC = 17 /\
  Gen.ConstsAll.net_arp_hardware_id__HFI = 37 /\
  Gen.ConstsAll.net_arp_hardware_id__HIPARP = 28 /\
  Gen.ConstsAll.net_arp_hardware_id__HIPPI = 780 /\
  Gen.ConstsAll.net_arp_hardware_id__HWX25 = 272 /\
  Gen.ConstsAll.net_arp_hardware_id__HW_EXP1 = 36 /\
  Gen.ConstsAll.net_arp_hardware_id__HYPERCHANNEL = 8 /\
  Gen.ConstsAll.net_arp_hardware_id__IEEE1394 = 24 /\
  Gen.ConstsAll.net_arp_hardware_id__IEEE802 = 6 /\
  Gen.ConstsAll.net_arp_hardware_id__IEEE80211 = 801 /\
  Gen.ConstsAll.net_arp_hardware_id__IEEE80211_PRISM = 802 /\
  Gen.ConstsAll.net_arp_hardware_id__IEEE80211_RADIOTAP = 803 /\
  Gen.ConstsAll.net_arp_hardware_id__IEEE802154 = 804 /\
  Gen.ConstsAll.net_arp_hardware_id__IEEE802154_MONITOR = 805 /\
  Gen.ConstsAll.net_arp_hardware_id__IEEE802_TR = 800 /\
  Gen.ConstsAll.net_arp_hardware_id__INFINIBAND = 32 /\
  Gen.ConstsAll.net_arp_hardware_id__IP6GRE = 823 /\
  Gen.ConstsAll.net_arp_hardware_id__IPDDP = 777 /\
  Gen.ConstsAll.net_arp_hardware_id__IPGRE = 778 /\
  Gen.ConstsAll.net_arp_hardware_id__IPSEC_TUNNEL = 31 /\
  Gen.ConstsAll.net_arp_hardware_id__IPV6LOWPAN = 825 /\
  Gen.ConstsAll.net_arp_hardware_id__IP_AND_ARP_OVER_ISO_7816_3 = 29 /\
  Gen.ConstsAll.net_arp_hardware_id__IRDA = 783 /\
  Gen.ConstsAll.net_arp_hardware_id__LANSTAR = 9.
Proof. repeat split; reflexivity. Qed.

Lemma consts_all_3 :
  Gen.ConstsAll.net_arp_hardware_id__LAPB = 516 /\
  Gen.ConstsAll.net_arp_hardware_id__LOCALTLK = 773 /\
  Gen.ConstsAll.net_arp_hardware_id__LOCAL_NET = 12 /\
  Gen.ConstsAll.net_arp_hardware_id__LOCAL_TALK = 11 /\
  Gen.ConstsAll.net_arp_hardware_id__LOOPBACK = 772 /\
  Gen.ConstsAll.net_arp_hardware_id__MAPOS = 25 /\
  Gen.ConstsAll.net_arp_hardware_id__METRICOM = 23 /\
  Gen.ConstsAll.net_arp_hardware_id__MIL_STD_188_220 = 22 /\
  Gen.ConstsAll.net_arp_hardware_id__NETLINK = 824 /\
  Gen.ConstsAll.net_arp_hardware_id__NETROM = 0 /\
  Gen.ConstsAll.net_arp_hardware_id__NONE = 65534 /\
  Gen.ConstsAll.net_arp_hardware_id__PHONET = 820 /\
  Gen.ConstsAll.net_arp_hardware_id__PHONET_PIPE = 821 /\
  Gen.ConstsAll.net_arp_hardware_id__PIMREG = 779 /\
  Gen.ConstsAll.net_arp_hardware_id__PPP = 512 /\
  Gen.ConstsAll.net_arp_hardware_id__PRONET = 4 /\
  Gen.ConstsAll.net_arp_hardware_id__PURE_IP = 35 /\
  Gen.ConstsAll.net_arp_hardware_id__RAWHDLC = 518 /\
  Gen.ConstsAll.net_arp_hardware_id__RAWIP = 519 /\
  Gen.ConstsAll.net_arp_hardware_id__ROSE = 270 /\
  Gen.ConstsAll.net_arp_hardware_id__RSRVD = 260 /\
  Gen.ConstsAll.net_arp_hardware_id__SERIAL_LINE = 20 /\
  Gen.ConstsAll.net_arp_hardware_id__SIT = 776 /\
  Gen.ConstsAll.net_arp_hardware_id__SKIP = 771 /\
  Gen.ConstsAll.net_arp_hardware_id__SLIP = 256 /\
  Gen.ConstsAll.net_arp_hardware_id__SLIP6 = 258 /\
  Gen.ConstsAll.net_arp_hardware_id__SMDS = 14 /\
  Gen.ConstsAll.net_arp_hardware_id__TUNNEL = 768 /\
  Gen.ConstsAll.net_arp_hardware_id__TUNNEL6 = 769 /\
  Gen.ConstsAll.net_arp_hardware_id__TWINAXIAL = 26 /\
  Gen.ConstsAll.net_arp_hardware_id__ULTRA_LINK = 13 /\
  Gen.ConstsAll.net_arp_hardware_id__UNIFIED_BUS = 38 /\
  Gen.ConstsAll.net_arp_hardware_id__VOID = 65535 /\
  Gen.ConstsAll.net_arp_hardware_id__VSOCKMON = 826 /\
  Gen.ConstsAll.net_arp_hardware_id__WIEGAND_INTERFACE = 34 /\
  Gen.ConstsAll.net_arp_hardware_id__X25 = 271 /\
  Gen.ConstsAll.net_arp_operation__REPLY = 2 /\
  Gen.ConstsAll.net_arp_operation__REQUEST = 1 /\
  Gen.ConstsAll.net_arp_packet__MAX_LEN = 1028 /\
  Gen.ConstsAll.net_ip_auth_header__MAX_ICV_LEN = 1016.
Proof. repeat split; reflexivity. Qed.

Lemma consts_all_4 :
  Gen.ConstsAll.net_ip_auth_header__MAX_LEN = 1028 /\
  Gen.ConstsAll.net_ip_auth_header__MIN_LEN = 12 /\
  Gen.ConstsAll.net_ip_dscp__AF11 = 10 /\
  Gen.ConstsAll.net_ip_dscp__AF12 = 12 /\
  Gen.ConstsAll.net_ip_dscp__AF13 = 14 /\
  Gen.ConstsAll.net_ip_dscp__AF21 = 18 /\
  Gen.ConstsAll.net_ip_dscp__AF22 = 20 /\
  Gen.ConstsAll.net_ip_dscp__AF23 = 22 /\
  Gen.ConstsAll.net_ip_dscp__AF31 = 26 /\
  Gen.ConstsAll.net_ip_dscp__AF32 = 28 /\
  Gen.ConstsAll.net_ip_dscp__AF33 = 30 /\
  Gen.ConstsAll.net_ip_dscp__AF41 = 34 /\
  Gen.ConstsAll.net_ip_dscp__AF42 = 36 /\
  Gen.ConstsAll.net_ip_dscp__AF43 = 38 /\
  Gen.ConstsAll.net_ip_dscp__CS0 = 0 /\
  Gen.ConstsAll.net_ip_dscp__CS1 = 8 /\
  Gen.ConstsAll.net_ip_dscp__CS2 = 16 /\
  Gen.ConstsAll.net_ip_dscp__CS3 = 24 /\
  Gen.ConstsAll.net_ip_dscp__CS4 = 32 /\
  Gen.ConstsAll.net_ip_dscp__CS5 = 40 /\
  Gen.ConstsAll.net_ip_dscp__CS6 = 48 /\
  Gen.ConstsAll.net_ip_dscp__CS7 = 56 /\
  Gen.ConstsAll.net_ip_dscp__EF = 46 /\
  Gen.ConstsAll.net_ip_dscp__LOWER_EFFORT = 1 /\
  Gen.ConstsAll.net_ip_dscp__MAX_U8 = 63 /\
  Gen.ConstsAll.net_ip_dscp__VOICE_ADMIT = 44 /\
  Gen.ConstsAll.net_ip_dscp__ZERO = 0 /\
  Gen.ConstsAll.net_ip_ecn__MAX_U8 = 3 /\
  Gen.ConstsAll.net_ip_frag_offset__MAX_U16 = 8191 /\
  Gen.ConstsAll.net_ip_frag_offset__ZERO = 0 /\
  Gen.ConstsAll.net_ip_number_impl__ACTIVE_NETWORKS = 107 /\
  Gen.ConstsAll.net_ip_number_impl__ANY_DISTRIBUTED_FILE_SYSTEM = 68 /\
  Gen.ConstsAll.net_ip_number_impl__ANY_HOST_INTERNAL_PROTOCOL = 61 /\
  Gen.ConstsAll.net_ip_number_impl__ANY_LOCAL_NETWORK = 63 /\
  Gen.ConstsAll.net_ip_number_impl__ANY_ZERO_HOP_PROTOCOL = 114 /\
  Gen.ConstsAll.net_ip_number_impl__ARGUS = 13 /\
  Gen.ConstsAll.net_ip_number_impl__ARIS = 104 /\
  Gen.ConstsAll.net_ip_number_impl__AUTHENTICATION_HEADER = 51 /\
  Gen.ConstsAll.net_ip_number_impl__AX25 = 93 /\
  Gen.ConstsAll.net_ip_number_impl__BBN_RCC_MON = 10.
Proof. repeat split; reflexivity. Qed.

Lemma consts_all_5 :
  Gen.ConstsAll.net_ip_number_impl__BNA = 49 /\
  Gen.ConstsAll.net_ip_number_impl__BR_SAT_MON = 76 /\
  Gen.ConstsAll.net_ip_number_impl__CBT = 7 /\
  Gen.ConstsAll.net_ip_number_impl__CFTP = 62 /\
  Gen.ConstsAll.net_ip_number_impl__CHAOS = 16 /\
  Gen.ConstsAll.net_ip_number_impl__COMPAQ_PEER = 110 /\
  Gen.ConstsAll.net_ip_number_impl__CPHB = 73 /\
  Gen.ConstsAll.net_ip_number_impl__CPNX = 72 /\
  Gen.ConstsAll.net_ip_number_impl__CRTP = 126 /\
  Gen.ConstsAll.net_ip_number_impl__CRUDP = 127 /\
  Gen.ConstsAll.net_ip_number_impl__DCCP = 33 /\
  Gen.ConstsAll.net_ip_number_impl__DCN_MEAS = 19 /\
  Gen.ConstsAll.net_ip_number_impl__DDP = 37 /\
  Gen.ConstsAll.net_ip_number_impl__DDX = 116 /\
  Gen.ConstsAll.net_ip_number_impl__DGP = 86 /\
  Gen.ConstsAll.net_ip_number_impl__DSR = 48 /\
  Gen.ConstsAll.net_ip_number_impl__EGP = 8 /\
  Gen.ConstsAll.net_ip_number_impl__EIGRP = 88 /\
  Gen.ConstsAll.net_ip_number_impl__EMCON = 14 /\
  Gen.ConstsAll.net_ip_number_impl__ENCAP = 98 /\
  Gen.ConstsAll.net_ip_number_impl__ENCAPSULATING_SECURITY_PAYLOAD = 50 /\
  Gen.ConstsAll.net_ip_number_impl__ETHER_IP = 97 /\
  Gen.ConstsAll.net_ip_number_impl__EXPERIMENTAL_AND_TESTING_0 = 253 /\
  Gen.ConstsAll.net_ip_number_impl__EXPERIMENTAL_AND_TESTING_1 = 254 /\
  Gen.ConstsAll.net_ip_number_impl__FC = 133 /\
  Gen.ConstsAll.net_ip_number_impl__FIRE = 125 /\
  Gen.ConstsAll.net_ip_number_impl__GGP = 3 /\
  Gen.ConstsAll.net_ip_number_impl__GMTP = 100 /\
  Gen.ConstsAll.net_ip_number_impl__GRE = 47 /\
  Gen.ConstsAll.net_ip_number_impl__HIP = 139 /\
  Gen.ConstsAll.net_ip_number_impl__HMP = 20 /\
  Gen.ConstsAll.net_ip_number_impl__IATP = 117 /\
  Gen.ConstsAll.net_ip_number_impl__ICMP = 1 /\
  Gen.ConstsAll.net_ip_number_impl__IDPR = 35 /\
  Gen.ConstsAll.net_ip_number_impl__IDPR_CMTP = 38 /\
  Gen.ConstsAll.net_ip_number_impl__IDRP = 45 /\
  Gen.ConstsAll.net_ip_number_impl__IFMP = 101 /\
  Gen.ConstsAll.net_ip_number_impl__IGMP = 2 /\
  Gen.ConstsAll.net_ip_number_impl__IGP = 9 /\
  Gen.ConstsAll.net_ip_number_impl__IL = 40.
Proof. repeat split; reflexivity. Qed.

Lemma consts_all_6 :
  Gen.ConstsAll.net_ip_number_impl__INLSP = 52 /\
  Gen.ConstsAll.net_ip_number_impl__IPCV = 71 /\
  Gen.ConstsAll.net_ip_number_impl__IPIP = 94 /\
  Gen.ConstsAll.net_ip_number_impl__IPLT = 129 /\
  Gen.ConstsAll.net_ip_number_impl__IPPC = 67 /\
  Gen.ConstsAll.net_ip_number_impl__IPV4 = 4 /\
  Gen.ConstsAll.net_ip_number_impl__IPV6 = 41 /\
  Gen.ConstsAll.net_ip_number_impl__IPV6_DESTINATION_OPTIONS = 60 /\
  Gen.ConstsAll.net_ip_number_impl__IPV6_FRAGMENTATION_HEADER = 44 /\
  Gen.ConstsAll.net_ip_number_impl__IPV6_HEADER_HOP_BY_HOP = 0 /\
  Gen.ConstsAll.net_ip_number_impl__IPV6_ICMP = 58 /\
  Gen.ConstsAll.net_ip_number_impl__IPV6_NO_NEXT_HEADER = 59 /\
  Gen.ConstsAll.net_ip_number_impl__IPV6_ROUTE_HEADER = 43 /\
  Gen.ConstsAll.net_ip_number_impl__IPX_IN_IP = 111 /\
  Gen.ConstsAll.net_ip_number_impl__IP_COMP = 108 /\
  Gen.ConstsAll.net_ip_number_impl__IRTP = 28 /\
  Gen.ConstsAll.net_ip_number_impl__ISIS_OVER_IPV4 = 124 /\
  Gen.ConstsAll.net_ip_number_impl__ISO_IP = 80 /\
  Gen.ConstsAll.net_ip_number_impl__ISO_TP4 = 29 /\
  Gen.ConstsAll.net_ip_number_impl__KRYTOLAN = 65 /\
  Gen.ConstsAll.net_ip_number_impl__LARP = 91 /\
  Gen.ConstsAll.net_ip_number_impl__LAYER2_TUNNELING_PROTOCOL = 115 /\
  Gen.ConstsAll.net_ip_number_impl__LEAF1 = 25 /\
  Gen.ConstsAll.net_ip_number_impl__LEAF2 = 26 /\
  Gen.ConstsAll.net_ip_number_impl__MANET = 138 /\
  Gen.ConstsAll.net_ip_number_impl__MERIT_INP = 32 /\
  Gen.ConstsAll.net_ip_number_impl__MFE_NSP = 31 /\
  Gen.ConstsAll.net_ip_number_impl__MICP = 95 /\
  Gen.ConstsAll.net_ip_number_impl__MOBILE = 55 /\
  Gen.ConstsAll.net_ip_number_impl__MOBILITY_HEADER = 135 /\
  Gen.ConstsAll.net_ip_number_impl__MPLS_IN_IP = 137 /\
  Gen.ConstsAll.net_ip_number_impl__MTP = 92 /\
  Gen.ConstsAll.net_ip_number_impl__MUX = 18 /\
  Gen.ConstsAll.net_ip_number_impl__NARP = 54 /\
  Gen.ConstsAll.net_ip_number_impl__NET_BLT = 30 /\
  Gen.ConstsAll.net_ip_number_impl__NSFNET_IGP = 85 /\
  Gen.ConstsAll.net_ip_number_impl__NVP_II = 11 /\
  Gen.ConstsAll.net_ip_number_impl__OSPFIGP = 89 /\
  Gen.ConstsAll.net_ip_number_impl__PGM = 113 /\
  Gen.ConstsAll.net_ip_number_impl__PIM = 103.
Proof. repeat split; reflexivity. Qed.

Lemma consts_all_7 :
  Gen.ConstsAll.net_ip_number_impl__PIPE = 131 /\
  Gen.ConstsAll.net_ip_number_impl__PNNI = 102 /\
  Gen.ConstsAll.net_ip_number_impl__PRM = 21 /\
  Gen.ConstsAll.net_ip_number_impl__PTP = 123 /\
  Gen.ConstsAll.net_ip_number_impl__PUP = 12 /\
  Gen.ConstsAll.net_ip_number_impl__PVP = 75 /\
  Gen.ConstsAll.net_ip_number_impl__QNX = 106 /\
  Gen.ConstsAll.net_ip_number_impl__RDP = 27 /\
  Gen.ConstsAll.net_ip_number_impl__ROHC = 142 /\
  Gen.ConstsAll.net_ip_number_impl__RSVP = 46 /\
  Gen.ConstsAll.net_ip_number_impl__RSVP_E2E_IGNORE = 134 /\
  Gen.ConstsAll.net_ip_number_impl__RVD = 66 /\
  Gen.ConstsAll.net_ip_number_impl__SAT_EXPAK = 64 /\
  Gen.ConstsAll.net_ip_number_impl__SAT_MON = 69 /\
  Gen.ConstsAll.net_ip_number_impl__SCC_SP = 96 /\
  Gen.ConstsAll.net_ip_number_impl__SCPS = 105 /\
  Gen.ConstsAll.net_ip_number_impl__SCTP = 132 /\
  Gen.ConstsAll.net_ip_number_impl__SDRP = 42 /\
  Gen.ConstsAll.net_ip_number_impl__SECURE_VMTP = 82 /\
  Gen.ConstsAll.net_ip_number_impl__SHIM6 = 140 /\
  Gen.ConstsAll.net_ip_number_impl__SIMPLE_MESSAGE_PROTOCOL = 121 /\
  Gen.ConstsAll.net_ip_number_impl__SITRA_NETWORKS_PROTOCOL = 109 /\
  Gen.ConstsAll.net_ip_number_impl__SKIP = 57 /\
  Gen.ConstsAll.net_ip_number_impl__SM = 122 /\
  Gen.ConstsAll.net_ip_number_impl__SPRITE_RPC = 90 /\
  Gen.ConstsAll.net_ip_number_impl__SPS = 130 /\
  Gen.ConstsAll.net_ip_number_impl__SRP = 119 /\
  Gen.ConstsAll.net_ip_number_impl__SSCOPMCE = 128 /\
  Gen.ConstsAll.net_ip_number_impl__STP = 118 /\
  Gen.ConstsAll.net_ip_number_impl__STREAM = 5 /\
  Gen.ConstsAll.net_ip_number_impl__SUN_ND = 77 /\
  Gen.ConstsAll.net_ip_number_impl__SWIPE = 53 /\
  Gen.ConstsAll.net_ip_number_impl__TCF = 87 /\
  Gen.ConstsAll.net_ip_number_impl__TCP = 6 /\
  Gen.ConstsAll.net_ip_number_impl__THIRD_PARTY_CONNECT_PROTOCOL = 34 /\
  Gen.ConstsAll.net_ip_number_impl__TLSP = 56 /\
  Gen.ConstsAll.net_ip_number_impl__TP_PLUS_PLUS = 39 /\
  Gen.ConstsAll.net_ip_number_impl__TRUNK1 = 23 /\
  Gen.ConstsAll.net_ip_number_impl__TRUNK2 = 24 /\
  Gen.ConstsAll.net_ip_number_impl__TTP_OR_IPTM = 84.
Proof. repeat split; reflexivity. Qed.

Lemma consts_all_8 :
  Gen.ConstsAll.net_ip_number_impl__UDP = 17 /\
  Gen.ConstsAll.net_ip_number_impl__UDP_LITE = 136 /\
  Gen.ConstsAll.net_ip_number_impl__UTI = 120 /\
  Gen.ConstsAll.net_ip_number_impl__VINES = 83 /\
  Gen.ConstsAll.net_ip_number_impl__VISA = 70 /\
  Gen.ConstsAll.net_ip_number_impl__VMTP = 81 /\
  Gen.ConstsAll.net_ip_number_impl__VRRP = 112 /\
  Gen.ConstsAll.net_ip_number_impl__WB_EXPAK = 79 /\
  Gen.ConstsAll.net_ip_number_impl__WB_MON = 78 /\
  Gen.ConstsAll.net_ip_number_impl__WESP = 141 /\
  Gen.ConstsAll.net_ip_number_impl__WSN = 74 /\
  Gen.ConstsAll.net_ip_number_impl__XNET = 15 /\
  Gen.ConstsAll.net_ip_number_impl__XNS_IDP = 22 /\
  Gen.ConstsAll.net_ip_number_impl__XTP = 36 /\
  Gen.ConstsAll.net_ipv4_exts__MIN_LEN = 0 /\
  Gen.ConstsAll.net_ipv4_header__MAX_LEN = 60 /\
  Gen.ConstsAll.net_ipv4_header__MIN_LEN = 20 /\
  Gen.ConstsAll.net_ipv4_header__MIN_LEN_U16 = 20 /\
  Gen.ConstsAll.net_ipv4_options__MAX_LEN = 40 /\
  Gen.ConstsAll.net_ipv6_exts__MIN_LEN = 0 /\
  Gen.ConstsAll.net_ipv6_flow_label__MAX_U32 = 1048575 /\
  Gen.ConstsAll.net_ipv6_flow_label__ZERO = 0 /\
  Gen.ConstsAll.net_ipv6_fragment_header__LEN = 8 /\
  Gen.ConstsAll.net_ipv6_header__LEN = 40 /\
  Gen.ConstsAll.net_ipv6_raw_ext_header__MAX_LEN = 2048 /\
  Gen.ConstsAll.net_ipv6_raw_ext_header__MAX_PAYLOAD_LEN = 2046 /\
  Gen.ConstsAll.net_ipv6_raw_ext_header__MIN_LEN = 8 /\
  Gen.ConstsAll.net_ipv6_raw_ext_header__MIN_PAYLOAD_LEN = 6 /\
  Gen.ConstsAll.packet_headers__LINK_EXTS_CAP = 3 /\
  Gen.ConstsAll.sliced_packet__LINK_EXTS_CAP = 3 /\
  Gen.ConstsAll.transport_icmp_echo_header__LEN = 4 /\
  Gen.ConstsAll.transport_icmpv4_header__MAX_LEN = 20 /\
  Gen.ConstsAll.transport_icmpv4_header__MAX_SERIALIZED_SIZE = 20 /\
  Gen.ConstsAll.transport_icmpv4_header__MIN_LEN = 8 /\
  Gen.ConstsAll.transport_icmpv4_header__MIN_SERIALIZED_SIZE = 8 /\
  Gen.ConstsAll.transport_icmpv4_mod__CODE_DST_UNREACH_FILTER_PROHIB = 13 /\
  Gen.ConstsAll.transport_icmpv4_mod__CODE_DST_UNREACH_HOST = 1 /\
  Gen.ConstsAll.transport_icmpv4_mod__CODE_DST_UNREACH_HOST_PRECEDENCE_VIOLATION = 14 /\
  Gen.ConstsAll.transport_icmpv4_mod__CODE_DST_UNREACH_HOST_PROHIB = 10 /\
  Gen.ConstsAll.transport_icmpv4_mod__CODE_DST_UNREACH_HOST_UNKNOWN = 7.
Proof. repeat split; reflexivity. Qed.

Lemma consts_all_9 :
  Gen.ConstsAll.transport_icmpv4_mod__CODE_DST_UNREACH_ISOLATED = 8 /\
  Gen.ConstsAll.transport_icmpv4_mod__CODE_DST_UNREACH_NEED_FRAG = 4 /\
  Gen.ConstsAll.transport_icmpv4_mod__CODE_DST_UNREACH_NET = 0 /\
  Gen.ConstsAll.transport_icmpv4_mod__CODE_DST_UNREACH_NET_PROHIB = 9 /\
  Gen.ConstsAll.transport_icmpv4_mod__CODE_DST_UNREACH_NET_UNKNOWN = 6 /\
  Gen.ConstsAll.transport_icmpv4_mod__CODE_DST_UNREACH_PORT = 3 /\
  Gen.ConstsAll.transport_icmpv4_mod__CODE_DST_UNREACH_PRECEDENCE_CUTOFF = 15 /\
  Gen.ConstsAll.transport_icmpv4_mod__CODE_DST_UNREACH_PROTOCOL = 2 /\
  Gen.ConstsAll.transport_icmpv4_mod__CODE_DST_UNREACH_SOURCE_ROUTE_FAILED = 5 /\
  Gen.ConstsAll.transport_icmpv4_mod__CODE_DST_UNREACH_TOS_HOST = 12 /\
  Gen.ConstsAll.transport_icmpv4_mod__CODE_DST_UNREACH_TOS_NET = 11 /\
  Gen.ConstsAll.transport_icmpv4_mod__CODE_PARAMETER_PROBLEM_BAD_LENGTH = 2 /\
  Gen.ConstsAll.transport_icmpv4_mod__CODE_PARAMETER_PROBLEM_MISSING_REQUIRED_OPTION = 1 /\
  Gen.ConstsAll.transport_icmpv4_mod__CODE_PARAMETER_PROBLEM_POINTER_INDICATES_ERROR = 0 /\
  Gen.ConstsAll.transport_icmpv4_mod__CODE_REDIRECT_FOR_HOST = 1 /\
  Gen.ConstsAll.transport_icmpv4_mod__CODE_REDIRECT_FOR_NETWORK = 0 /\
  Gen.ConstsAll.transport_icmpv4_mod__CODE_REDIRECT_TYPE_OF_SERVICE_AND_HOST = 3 /\
  Gen.ConstsAll.transport_icmpv4_mod__CODE_REDIRECT_TYPE_OF_SERVICE_AND_NETWORK = 2 /\
  Gen.ConstsAll.transport_icmpv4_mod__CODE_TIME_EXCEEDED_FRAG_REASSEMBLY_TIME_EXCEEDED = 1 /\
  Gen.ConstsAll.transport_icmpv4_mod__CODE_TIME_EXCEEDED_TTL_EXCEEDED_IN_TRANSIT = 0 /\
  Gen.ConstsAll.transport_icmpv4_mod__TYPE_ADDRESS = 17 /\
  Gen.ConstsAll.transport_icmpv4_mod__TYPE_ADDRESSREPLY = 18 /\
  Gen.ConstsAll.transport_icmpv4_mod__TYPE_ALTERNATE_HOST_ADDRESS = 6 /\
  Gen.ConstsAll.transport_icmpv4_mod__TYPE_DEST_UNREACH = 3 /\
  Gen.ConstsAll.transport_icmpv4_mod__TYPE_ECHO_REPLY = 0 /\
  Gen.ConstsAll.transport_icmpv4_mod__TYPE_ECHO_REQUEST = 8 /\
  Gen.ConstsAll.transport_icmpv4_mod__TYPE_INFO_REPLY = 16 /\
  Gen.ConstsAll.transport_icmpv4_mod__TYPE_INFO_REQUEST = 15 /\
  Gen.ConstsAll.transport_icmpv4_mod__TYPE_PARAMETER_PROBLEM = 12 /\
  Gen.ConstsAll.transport_icmpv4_mod__TYPE_REDIRECT = 5 /\
  Gen.ConstsAll.transport_icmpv4_mod__TYPE_ROUTER_ADVERTISEMENT = 9 /\
  Gen.ConstsAll.transport_icmpv4_mod__TYPE_ROUTER_SOLICITATION = 10 /\
  Gen.ConstsAll.transport_icmpv4_mod__TYPE_SOURCE_QUENCH = 4 /\
  Gen.ConstsAll.transport_icmpv4_mod__TYPE_TIMESTAMP = 13 /\
  Gen.ConstsAll.transport_icmpv4_mod__TYPE_TIMESTAMP_REPLY = 14 /\
  Gen.ConstsAll.transport_icmpv4_mod__TYPE_TIME_EXCEEDED = 11 /\
  Gen.ConstsAll.transport_icmpv4_timestamp_message__LEN = 20 /\
  Gen.ConstsAll.transport_icmpv4_timestamp_message__SERIALIZED_SIZE = 20 /\
  Gen.ConstsAll.transport_icmpv6_header__MAX_LEN = 40 /\
  Gen.ConstsAll.transport_icmpv6_header__MIN_LEN = 8.
Proof. repeat split; reflexivity. Qed.

Lemma consts_all_10 :
  Gen.ConstsAll.transport_icmpv6_icmpv6_payload_neighbor_advertisement_payload__LEN = 16 /\
  Gen.ConstsAll.transport_icmpv6_icmpv6_payload_neighbor_solicitation_payload__LEN = 16 /\
  Gen.ConstsAll.transport_icmpv6_icmpv6_payload_redirect_payload__LEN = 32 /\
  Gen.ConstsAll.transport_icmpv6_icmpv6_payload_router_advertisement_payload__LEN = 8 /\
  Gen.ConstsAll.transport_icmpv6_icmpv6_payload_router_solicitation_payload__LEN = 0 /\
  Gen.ConstsAll.transport_icmpv6_mod__CODE_DST_UNREACH_ADDR = 3 /\
  Gen.ConstsAll.transport_icmpv6_mod__CODE_DST_UNREACH_BEYOND_SCOPE = 2 /\
  Gen.ConstsAll.transport_icmpv6_mod__CODE_DST_UNREACH_NO_ROUTE = 0 /\
  Gen.ConstsAll.transport_icmpv6_mod__CODE_DST_UNREACH_PORT = 4 /\
  Gen.ConstsAll.transport_icmpv6_mod__CODE_DST_UNREACH_PROHIBITED = 1 /\
  Gen.ConstsAll.transport_icmpv6_mod__CODE_DST_UNREACH_REJECT_ROUTE_TO_DEST = 6 /\
  Gen.ConstsAll.transport_icmpv6_mod__CODE_DST_UNREACH_SOURCE_ADDRESS_FAILED_POLICY = 5 /\
  Gen.ConstsAll.transport_icmpv6_mod__CODE_PARAM_PROBLEM_ERR_HEADER_FIELD = 0 /\
  Gen.ConstsAll.transport_icmpv6_mod__CODE_PARAM_PROBLEM_EXT_HEADER_CHAIN_TOO_LONG = 7 /\
  Gen.ConstsAll.transport_icmpv6_mod__CODE_PARAM_PROBLEM_EXT_HEADER_TOO_BIG = 6 /\
  Gen.ConstsAll.transport_icmpv6_mod__CODE_PARAM_PROBLEM_IPV6_FIRST_FRAG_INCOMP_HEADER_CHAIN = 3 /\
  Gen.ConstsAll.transport_icmpv6_mod__CODE_PARAM_PROBLEM_OPTION_TOO_BIG = 10 /\
  Gen.ConstsAll.transport_icmpv6_mod__CODE_PARAM_PROBLEM_SR_UPPER_LAYER_HEADER_ERROR = 4 /\
  Gen.ConstsAll.transport_icmpv6_mod__CODE_PARAM_PROBLEM_TOO_MANY_EXT_HEADERS = 8 /\
  Gen.ConstsAll.transport_icmpv6_mod__CODE_PARAM_PROBLEM_TOO_MANY_OPTIONS_EXT_HEADER = 9 /\
  Gen.ConstsAll.transport_icmpv6_mod__CODE_PARAM_PROBLEM_UNRECOG_IPV6_OPTION = 2 /\
  Gen.ConstsAll.transport_icmpv6_mod__CODE_PARAM_PROBLEM_UNRECOG_NEXT_HEADER = 1 /\
  Gen.ConstsAll.transport_icmpv6_mod__CODE_PARAM_PROBLEM_UNRECOG_NEXT_HEADER_BY_INTERMEDIATE_NODE = 5 /\
  Gen.ConstsAll.transport_icmpv6_mod__CODE_TIME_EXCEEDED_FRAGMENT_REASSEMBLY_TIME_EXCEEDED = 1 /\
  Gen.ConstsAll.transport_icmpv6_mod__CODE_TIME_EXCEEDED_HOP_LIMIT_EXCEEDED = 0 /\
  Gen.ConstsAll.transport_icmpv6_mod__MAX_ICMPV6_BYTE_LEN = 4294967295 /\
  Gen.ConstsAll.transport_icmpv6_mod__TYPE_DST_UNREACH = 1 /\
  Gen.ConstsAll.transport_icmpv6_mod__TYPE_ECHO_REPLY = 129 /\
  Gen.ConstsAll.transport_icmpv6_mod__TYPE_ECHO_REQUEST = 128 /\
  Gen.ConstsAll.transport_icmpv6_mod__TYPE_EXT_ECHO_REPLY = 161 /\
  Gen.ConstsAll.transport_icmpv6_mod__TYPE_EXT_ECHO_REQUEST = 160 /\
  Gen.ConstsAll.transport_icmpv6_mod__TYPE_INVERSE_NEIGHBOR_DISCOVERY_ADVERTISEMENT = 142 /\
  Gen.ConstsAll.transport_icmpv6_mod__TYPE_INVERSE_NEIGHBOR_DISCOVERY_SOLICITATION = 141 /\
  Gen.ConstsAll.transport_icmpv6_mod__TYPE_MULTICAST_LISTENER_QUERY = 130 /\
  Gen.ConstsAll.transport_icmpv6_mod__TYPE_MULTICAST_LISTENER_REDUCTION = 132 /\
  Gen.ConstsAll.transport_icmpv6_mod__TYPE_MULTICAST_LISTENER_REPORT = 131 /\
  Gen.ConstsAll.transport_icmpv6_mod__TYPE_NEIGHBOR_ADVERTISEMENT = 136 /\
  Gen.ConstsAll.transport_icmpv6_mod__TYPE_NEIGHBOR_SOLICITATION = 135 /\
  Gen.ConstsAll.transport_icmpv6_mod__TYPE_PACKET_TOO_BIG = 2 /\
  Gen.ConstsAll.transport_icmpv6_mod__TYPE_PARAMETER_PROBLEM = 4.
Proof. repeat split; reflexivity. Qed.

Lemma consts_all_11 :
  Gen.ConstsAll.transport_icmpv6_mod__TYPE_REDIRECT_MESSAGE = 137 /\
  Gen.ConstsAll.transport_icmpv6_mod__TYPE_ROUTER_ADVERTISEMENT = 134 /\
  Gen.ConstsAll.transport_icmpv6_mod__TYPE_ROUTER_RENUMBERING = 138 /\
  Gen.ConstsAll.transport_icmpv6_mod__TYPE_ROUTER_SOLICITATION = 133 /\
  Gen.ConstsAll.transport_icmpv6_mod__TYPE_TIME_EXCEEDED = 3 /\
  Gen.ConstsAll.transport_icmpv6_ndp_option_mtu_option_slice__LEN = 8 /\
  Gen.ConstsAll.transport_icmpv6_ndp_option_prefix_information__AUTONOMOUS_ADDRESS_CONFIGURATION_MASK = 64 /\
  Gen.ConstsAll.transport_icmpv6_ndp_option_prefix_information__LEN = 32 /\
  Gen.ConstsAll.transport_icmpv6_ndp_option_prefix_information__ON_LINK_MASK = 128 /\
  Gen.ConstsAll.transport_icmpv6_ndp_option_type_impl__MTU = 5 /\
  Gen.ConstsAll.transport_icmpv6_ndp_option_type_impl__PREFIX_INFORMATION = 3 /\
  Gen.ConstsAll.transport_icmpv6_ndp_option_type_impl__REDIRECTED_HEADER = 4 /\
  Gen.ConstsAll.transport_icmpv6_ndp_option_type_impl__SOURCE_LINK_LAYER_ADDRESS = 1 /\
  Gen.ConstsAll.transport_icmpv6_ndp_option_type_impl__TARGET_LINK_LAYER_ADDRESS = 2 /\
  Gen.ConstsAll.transport_icmpv6_neighbor_advertisement_header__OVERRIDE_MASK = 32 /\
  Gen.ConstsAll.transport_icmpv6_neighbor_advertisement_header__ROUTER_MASK = 128 /\
  Gen.ConstsAll.transport_icmpv6_neighbor_advertisement_header__SOLICITED_MASK = 64 /\
  Gen.ConstsAll.transport_icmpv6_router_advertisement_header__MANAGED_ADDRESS_CONFIG_MASK = 128 /\
  Gen.ConstsAll.transport_icmpv6_router_advertisement_header__OTHER_CONFIG_MASK = 64 /\
  Gen.ConstsAll.transport_igmp_header__MAX_LEN = 12 /\
  Gen.ConstsAll.transport_igmp_header__MIN_LEN = 8 /\
  Gen.ConstsAll.transport_igmp_leave_group_type__LEN = 8 /\
  Gen.ConstsAll.transport_igmp_membership_query_type__LEN = 8 /\
  Gen.ConstsAll.transport_igmp_membership_query_with_sources_header__LEN = 12 /\
  Gen.ConstsAll.transport_igmp_membership_query_with_sources_header__RAW_BYTE_8_MASK_FLAGS = 240 /\
  Gen.ConstsAll.transport_igmp_membership_query_with_sources_header__RAW_BYTE_8_MASK_QRV = 7 /\
  Gen.ConstsAll.transport_igmp_membership_query_with_sources_header__RAW_BYTE_8_MASK_S_FLAG = 8 /\
  Gen.ConstsAll.transport_igmp_membership_query_with_sources_header__RAW_BYTE_8_OFFSET_FLAGS = 4 /\
  Gen.ConstsAll.transport_igmp_membership_report_v1_type__LEN = 8 /\
  Gen.ConstsAll.transport_igmp_membership_report_v2_type__LEN = 8 /\
  Gen.ConstsAll.transport_igmp_membership_report_v3_header__FLAGS_0_EXTENSION_MASK = 1 /\
  Gen.ConstsAll.transport_igmp_membership_report_v3_header__LEN = 8 /\
  Gen.ConstsAll.transport_igmp_mod__IGMPV1_TYPE_MEMBERSHIP_REPORT = 18 /\
  Gen.ConstsAll.transport_igmp_mod__IGMPV2_TYPE_LEAVE_GROUP = 23 /\
  Gen.ConstsAll.transport_igmp_mod__IGMPV2_TYPE_MEMBERSHIP_REPORT = 22 /\
  Gen.ConstsAll.transport_igmp_mod__IGMPV3_TYPE_MEMBERSHIP_REPORT = 34 /\
  Gen.ConstsAll.transport_igmp_mod__IGMP_TYPE_MEMBERSHIP_QUERY = 17 /\
  Gen.ConstsAll.transport_igmp_qrv__MAX_U8 = 7 /\
  Gen.ConstsAll.transport_igmp_qrv__ZERO = 0 /\
  Gen.ConstsAll.transport_igmp_report_group_record_type__ALLOW_NEW_SOURCES = 5.
Proof. repeat split; reflexivity. Qed.

Lemma consts_all_12 :
  Gen.ConstsAll.transport_igmp_report_group_record_type__BLOCK_OLD_SOURCES = 6 /\
  Gen.ConstsAll.transport_igmp_report_group_record_type__CHANGE_TO_EXCLUDE_MODE = 4 /\
  Gen.ConstsAll.transport_igmp_report_group_record_type__CHANGE_TO_INCLUDE_MODE = 3 /\
  Gen.ConstsAll.transport_igmp_report_group_record_type__MODE_IS_EXCLUDE = 2 /\
  Gen.ConstsAll.transport_igmp_report_group_record_type__MODE_IS_INCLUDE = 1 /\
  Gen.ConstsAll.transport_igmp_report_group_record_v3_header__LEN = 8 /\
  Gen.ConstsAll.transport_igmp_unknown_header__LEN = 8 /\
  Gen.ConstsAll.transport_tcp_header__MAX_DATA_OFFSET = 15 /\
  Gen.ConstsAll.transport_tcp_header__MAX_LEN = 60 /\
  Gen.ConstsAll.transport_tcp_header__MIN_DATA_OFFSET = 5 /\
  Gen.ConstsAll.transport_tcp_header__MIN_LEN = 20 /\
  Gen.ConstsAll.transport_tcp_header__TCP_MAXIMUM_DATA_OFFSET = 15 /\
  Gen.ConstsAll.transport_tcp_header__TCP_MINIMUM_DATA_OFFSET = 5 /\
  Gen.ConstsAll.transport_tcp_header__TCP_MINIMUM_HEADER_SIZE = 20 /\
  Gen.ConstsAll.transport_tcp_option_impl__KIND_END = 0 /\
  Gen.ConstsAll.transport_tcp_option_impl__KIND_MAXIMUM_SEGMENT_SIZE = 2 /\
  Gen.ConstsAll.transport_tcp_option_impl__KIND_NOOP = 1 /\
  Gen.ConstsAll.transport_tcp_option_impl__KIND_SELECTIVE_ACK = 5 /\
  Gen.ConstsAll.transport_tcp_option_impl__KIND_SELECTIVE_ACK_PERMITTED = 4 /\
  Gen.ConstsAll.transport_tcp_option_impl__KIND_TIMESTAMP = 8 /\
  Gen.ConstsAll.transport_tcp_option_impl__KIND_WINDOW_SCALE = 3 /\
  Gen.ConstsAll.transport_tcp_option_impl__LEN_END = 1 /\
  Gen.ConstsAll.transport_tcp_option_impl__LEN_MAXIMUM_SEGMENT_SIZE = 4 /\
  Gen.ConstsAll.transport_tcp_option_impl__LEN_NOOP = 1 /\
  Gen.ConstsAll.transport_tcp_option_impl__LEN_SELECTIVE_ACK_PERMITTED = 2 /\
  Gen.ConstsAll.transport_tcp_option_impl__LEN_TIMESTAMP = 10 /\
  Gen.ConstsAll.transport_tcp_option_impl__LEN_WINDOW_SCALE = 3 /\
  Gen.ConstsAll.transport_tcp_option_impl__TCP_OPTION_ID_END = 0 /\
  Gen.ConstsAll.transport_tcp_option_impl__TCP_OPTION_ID_MAXIMUM_SEGMENT_SIZE = 2 /\
  Gen.ConstsAll.transport_tcp_option_impl__TCP_OPTION_ID_NOP = 1 /\
  Gen.ConstsAll.transport_tcp_option_impl__TCP_OPTION_ID_SELECTIVE_ACK = 5 /\
  Gen.ConstsAll.transport_tcp_option_impl__TCP_OPTION_ID_SELECTIVE_ACK_PERMITTED = 4 /\
  Gen.ConstsAll.transport_tcp_option_impl__TCP_OPTION_ID_TIMESTAMP = 8 /\
  Gen.ConstsAll.transport_tcp_option_impl__TCP_OPTION_ID_WINDOW_SCALE = 3 /\
  Gen.ConstsAll.transport_tcp_options__MAX_LEN = 40 /\
  Gen.ConstsAll.transport_udp_header__LEN = 8 /\
  Gen.ConstsAll.transport_udp_header__LEN_U16 = 8.
Proof. repeat split; reflexivity. Qed.

(* ---- field widths (property C15 / C14 texts; BitFields/Spec.v, Limits/Spec.v) ---------- *)
Lemma consts_all_widths :
  Gen.ConstsAll.link_vlan_id__MAX_U16 = 2 ^ 12 - 1 /\
  Gen.ConstsAll.link_vlan_pcp__MAX_U8 = 2 ^ 3 - 1 /\
  Gen.ConstsAll.net_ip_dscp__MAX_U8 = 2 ^ 6 - 1 /\
  Gen.ConstsAll.net_ip_ecn__MAX_U8 = 2 ^ 2 - 1 /\
  Gen.ConstsAll.net_ip_frag_offset__MAX_U16 = 2 ^ 13 - 1 /\
  Gen.ConstsAll.net_ipv6_flow_label__MAX_U32 = 2 ^ 20 - 1 /\
  Gen.ConstsAll.link_macsec_an__MAX_U8 = 2 ^ 2 - 1 /\
  Gen.ConstsAll.link_macsec_short_len__MAX_U8 = 2 ^ 6 - 1 /\
  Gen.ConstsAll.link_macsec_short_len__MAX_USIZE = 2 ^ 6 - 1 /\
  Gen.ConstsAll.defrag_mod__MAX_IP_DEFRAG_LEN_U16 = 2 ^ 16 - 1 /\
  (* IPv4: IHL is 4 bits of 32-bit words; TCP data offset likewise *)
  Gen.ConstsAll.net_ipv4_header__MAX_LEN = (2 ^ 4 - 1) * 4 /\
  Gen.ConstsAll.net_ipv4_options__MAX_LEN = (2 ^ 4 - 1) * 4 - 20 /\
  Gen.ConstsAll.transport_tcp_header__MAX_LEN = (2 ^ 4 - 1) * 4 /\
  (* AH: payload length octet counts 32-bit words minus 2; generic extension header:
     length octet counts 8-octet units beyond the first *)
  Gen.ConstsAll.net_ip_auth_header__MAX_LEN = (2 ^ 8 - 1 + 2) * 4 /\
  Gen.ConstsAll.net_ip_auth_header__MAX_ICV_LEN = (2 ^ 8 - 1 + 2) * 4 - 12 /\
  Gen.ConstsAll.net_ipv6_raw_ext_header__MAX_LEN = (2 ^ 8 - 1 + 1) * 8 /\
  Gen.ConstsAll.net_ipv6_raw_ext_header__MAX_PAYLOAD_LEN = (2 ^ 8 - 1 + 1) * 8 - 2.
Proof. repeat split; reflexivity. Qed.

Lemma consts_all_ok : True.
Proof. exact I. Qed.
