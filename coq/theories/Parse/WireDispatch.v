(* Parse/WireDispatch.v -- facts ABOUT the accepted views of the reference decoder
   (Parse/WireSpec.v): layer DISPATCH and the documented CONTENT RULES.

   `dispatch e bs v` is a description of a view `v` of the bytes `bs` for entry point `e`.  It
   is not a decoder: it takes the view as given and says, layer by layer, which kind of layer
   may stand where, read off the octets the view points at:

     - link: Ethernet II announces the ether type in octets 12..13; Linux SLL (packet type
       <= 7, ARP hardware type one of NETLINK / IPGRE / IEEE80211_RADIOTAP / FRAD / ETHER)
       announces octets 14..15 as an ether type only for hardware type ETHER (1) and a
       protocol number that is not one of the Linux non-standard types, otherwise nothing;
       `from_ether_type et` announces `et`; `from_ip` has no link and no extensions;
     - link extensions: at most 3; each one is of the kind the ether type announced in front
       of it names (0x8100 / 0x88A8 / 0x9100 -> 802.1Q tag, 0x88E5 -> MACsec); a tag
       announces the ether type in its octets 2..3, a MACsec SecTAG with unmodified payload
       (E = 0, C = 0) the two octets that end the SecTAG, a SecTAG with modified payload
       announces nothing; accepted SecTAGs have version bit 0 and not (unmodified /\ SL = 1);
     - network layer: ARP behind 0x0806, IPv4 behind 0x0800, IPv6 behind 0x86DD; NO network
       layer exactly when nothing is announced (modified MACsec payload, SLL protocol that is
       no ether type), or a link-extension type is announced with 3 extensions already
       decoded (cap), or the announced type is none of the six types above;
       `from_ip`: IPv4 / IPv6 by the version nibble of the first octet, never none;
       accepted IPv4 headers: version 4, IHL >= 5, an authentication header is decoded
       exactly when the protocol octet is 51, its length octet is not 0;
       accepted IPv6 headers: version 6; the extension window is tiled exactly by extension
       headers (0 / 43 / 60 -> (len+1)*8 octets, 44 -> 8, 51 -> (len+2)*4, len octet <> 0),
       number 0 (hop-by-hop) only as the IPv6 header's own next header, and it ends at the
       first next-header number that is not one of 0, 43, 44, 51, 60 = the payload number;
       `first` is the IPv6 header's next header iff the window is not empty;
     - transport: ICMPv4 behind IP number 1 (a timestamp / timestamp reply message, type 13 /
       14 with code 0, is exactly 20 octets long -- crate rule), UDP 17, TCP 6 (data offset
       >= 5), ICMPv6 58, and
       only behind an unfragmented IP payload; NO transport layer exactly when there is no IP
       payload (no network layer / ARP), or it is fragmented, or its number is none of the 4.

   `wire_dispatch`: every view the reference decoder accepts satisfies `dispatch`.
   The "exactly when" readings are the corollaries `dispatch_no_net_iff`,
   `dispatch_no_transport_iff`, `dispatch_exts_stop`.

   Audit round 3 (C03 top item 1): layer dispatch and the content rules on accepted views were
   stated against nothing but the decoder itself. *)
From EP Require Import Base.Bytes Parse.Types Parse.View Parse.WireSpec Parse.WireSpecFacts
  Parse.WireNested Parse.WireDesc.
From Coq Require Import ZArith Lia ZifyN ZifyBool.

Local Open Scope N_scope.

Inductive entry := EnEthernet | EnLinuxSll | EnEtherType (et : N) | EnIp.

Section Dispatch.
  Variable bs : bytes.
  Local Notation B := (B bs).
  Local Notation W := (W bs).

  (* ---- the numbers the strict slicer dispatches on --------------------------------- *)
  Definition vlan_type (et : N) : Prop := et = 33024 \/ et = 34984 \/ et = 37120.
  Definition macsec_type (et : N) : Prop := et = 35045.
  Definition link_ext_type (et : N) : Prop := vlan_type et \/ macsec_type et.
  Definition net_type (et : N) : Prop := et = 2054 \/ et = 2048 \/ et = 34525.
  Definition tr_number (n : N) : Prop := n = 1 \/ n = 17 \/ n = 6 \/ n = 58.
  Definition ext_number (nh : N) : Prop := nh = 0 \/ nh = 43 \/ nh = 44 \/ nh = 51 \/ nh = 60.

  (* ---- link ------------------------------------------------------------------------ *)
  (* the ether type announced behind the link header; None = nothing decodable follows *)
  Definition first_type (e : entry) : option N :=
    match e with
    | EnEthernet => Some (W 12)
    | EnLinuxSll => if (W 2 =? 1) && negb (sll_nonstandard (W 14)) then Some (W 14) else None
    | EnEtherType et => Some et
    | EnIp => None
    end.

  Definition link_dispatch (e : entry) (l : option vlink) : Prop :=
    match e, l with
    | EnEthernet, Some (VEthernet2 _) => True
    | EnLinuxSll, Some (VLinuxSll _ _) => W 0 <= 7 /\ sll_hw_supported (W 2) = true
    | EnEtherType et, Some (VEtherPayload ep) => vep_type ep = et
    | EnIp, None => True
    | _, _ => False
    end.

  (* ---- link extensions ------------------------------------------------------------- *)
  Definition ext_announces (x : vlink_ext) : option N :=
    match x with
    | VVlan w => Some (W (fst w + 2))
    | VMacsec h (VMpUnmodified _) => Some (W (fst h + snd h - 2))
    | VMacsec h (VMpModified _) => None
    end.

  Definition ext_kind (et : N) (x : vlink_ext) : Prop :=
    match x with
    | VVlan _ => vlan_type et
    | VMacsec _ _ => macsec_type et
    end.

  Definition ext_rules (x : vlink_ext) : Prop :=
    match x with
    | VVlan _ => True
    | VMacsec h _ =>
        B (fst h) < 128 /\ ~ ((B (fst h) / 4) mod 4 = 0 /\ B (fst h + 1) mod 64 = 1)
    end.

  Fixpoint exts_dispatch (ann : option N) (xs : list vlink_ext) : Prop :=
    match xs with
    | [] => True
    | x :: r =>
        match ann with
        | None => False
        | Some et => ext_kind et x /\ ext_rules x /\ exts_dispatch (ext_announces x) r
        end
    end.

  (* what is announced behind the last extension *)
  Fixpoint exts_announced (ann : option N) (xs : list vlink_ext) : option N :=
    match xs with
    | [] => ann
    | x :: r => exts_announced (ext_announces x) r
    end.

  (* ---- network layer --------------------------------------------------------------- *)
  Definition ipv4_rules (h : window) (auth : option window) : Prop :=
    let pos := fst h in
    B pos / 16 = 4 /\ 5 <= B pos mod 16 /\
    match auth with
    | Some a => B (pos + 9) = 51 /\ B (fst a + 1) <> 0
    | None => B (pos + 9) <> 51
    end.

  Definition ext_hdr_len (nh pos : N) : N :=
    if nh =? 44 then 8
    else if nh =? 51 then (B (pos + 1) + 2) * 4
    else (B (pos + 1) + 1) * 8.

  (* the extension window [pos, lim): tiled by extension headers, `nh` = number announced
     for the header at `pos`, `first` = it was announced by the IPv6 header itself *)
  Fixpoint chain_rules (fuel : nat) (first : bool) (nh pos lim : N) : Prop :=
    match fuel with
    | O => False
    | S f =>
        if lim <=? pos then pos = lim /\ ~ ext_number nh
        else
          ext_number nh /\ (nh = 0 -> first = true) /\ (nh = 51 -> B (pos + 1) <> 0) /\
          pos + ext_hdr_len nh pos <= lim /\
          chain_rules f false (B pos) (pos + ext_hdr_len nh pos) lim
    end.

  Definition ipv6_rules (h : window) (first : option N) (x : window) (p : vip_payload) : Prop :=
    let pos := fst h in
    B pos / 16 = 6 /\
    first = (if snd x =? 0 then None else Some (B (pos + 6))) /\
    chain_rules (S (N.to_nat (snd x))) true (B (pos + 6)) (fst x) (fst x + snd x) /\
    ~ ext_number (vip_number p).

  Definition net_rules (nn : vnet) : Prop :=
    match nn with
    | VArp _ => True
    | VIpv4 h a _ => ipv4_rules h a
    | VIpv6 h first _ x p => ipv6_rules h first x p
    end.

  Definition net_kind (et : N) (nn : vnet) : Prop :=
    match nn with
    | VArp _ => et = 2054
    | VIpv4 _ _ _ => et = 2048
    | VIpv6 _ _ _ _ _ => et = 34525
    end.

  Definition no_net_cause (ann : option N) (nexts : nat) : Prop :=
    match ann with
    | None => True
    | Some et => (link_ext_type et /\ nexts = 3%nat) \/ (~ link_ext_type et /\ ~ net_type et)
    end.

  Definition net_dispatch (ann : option N) (nexts : nat) (nn : option vnet) : Prop :=
    match nn with
    | Some n => (exists et, ann = Some et /\ net_kind et n) /\ net_rules n
    | None => no_net_cause ann nexts
    end.

  (* started at "an IP header": the version nibble selects, there is always a network layer *)
  Definition ip_dispatch (nn : option vnet) : Prop :=
    match nn with
    | Some (VIpv4 h a p) => ipv4_rules h a
    | Some (VIpv6 h first _ x p) => ipv6_rules h first x p
    | _ => False
    end.

  (* ---- transport layer ------------------------------------------------------------- *)
  Definition tr_kind (n : N) (t : vtransport) : Prop :=
    match t with
    | VIcmpv4 w =>
        n = 1 /\ ((B (fst w) = 13 \/ B (fst w) = 14) -> B (fst w + 1) = 0 -> snd w = 20)
    | VUdp _ => n = 17
    | VTcp _ w => n = 6 /\ 5 <= B (fst w + 12) / 16
    | VIcmpv6 _ => n = 58
    end.

  Definition no_tr_cause (nn : option vnet) : Prop :=
    match net_payload nn with
    | None => True
    | Some p => vip_frag p = true \/ ~ tr_number (vip_number p)
    end.

  Definition tr_dispatch (nn : option vnet) (t : option vtransport) : Prop :=
    match t with
    | Some t =>
        match net_payload nn with
        | Some p => vip_frag p = false /\ tr_kind (vip_number p) t
        | None => False
        end
    | None => no_tr_cause nn
    end.

  (* ---- the whole view -------------------------------------------------------------- *)
  Definition dispatch (e : entry) (v : vpacket) : Prop :=
    link_dispatch e (v_link v) /\
    (length (v_exts v) <= 3)%nat /\
    exts_dispatch (first_type e) (v_exts v) /\
    match e with
    | EnIp => ip_dispatch (v_net v)
    | _ => net_dispatch (exts_announced (first_type e) (v_exts v)) (length (v_exts v)) (v_net v)
    end /\
    tr_dispatch (v_net v) (v_transport v).

  (* ---- "exactly when" readings ----------------------------------------------------- *)
  Lemma net_type_not_link_ext et : net_type et -> ~ link_ext_type et.
  Proof. unfold net_type, link_ext_type, vlan_type, macsec_type. lia. Qed.

  Lemma net_kind_type et nn : net_kind et nn -> net_type et.
  Proof. unfold net_type. destruct nn; cbn [net_kind]; lia. Qed.

  Theorem dispatch_no_net_iff e v : dispatch e v -> e <> EnIp ->
    (v_net v = None <->
     no_net_cause (exts_announced (first_type e) (v_exts v)) (length (v_exts v))).
  Proof.
    intros (_ & _ & _ & Hn & _) He.
    assert (Hd : net_dispatch (exts_announced (first_type e) (v_exts v)) (length (v_exts v)) (v_net v)).
    { destruct e; try exact Hn. now elim He. }
    clear Hn. unfold net_dispatch in Hd.
    destruct (v_net v) as [nn|].
    - split; [discriminate|]. intros Hc. exfalso.
      destruct Hd as ((et & Ha & Hk) & _). rewrite Ha in Hc. cbn [no_net_cause] in Hc.
      pose proof (net_kind_type _ _ Hk) as Ht.
      destruct Hc as [(Hl & _)|(_ & Hnt)]; [exact (net_type_not_link_ext _ Ht Hl)|exact (Hnt Ht)].
    - split; [intros _; exact Hd|reflexivity].
  Qed.

  Theorem dispatch_ip_has_net v : dispatch EnIp v ->
    v_link v = None /\ v_exts v = [] /\ v_net v <> None.
  Proof.
    intros (Hl & _ & Hx & Hn & _). cbn [first_type link_dispatch] in *.
    split; [destruct (v_link v); [contradiction|reflexivity]|].
    split; [destruct (v_exts v); [reflexivity|contradiction]|].
    unfold ip_dispatch in Hn. destruct (v_net v); [discriminate|contradiction].
  Qed.

  Theorem dispatch_no_transport_iff e v : dispatch e v ->
    (v_transport v = None <-> no_tr_cause (v_net v)).
  Proof.
    intros (_ & _ & _ & _ & Ht). unfold tr_dispatch in Ht.
    destruct (v_transport v) as [t|].
    - split; [discriminate|]. intros Hc. exfalso. unfold no_tr_cause in Hc.
      destruct (net_payload (v_net v)) as [p|]; [|contradiction].
      destruct Ht as (Hf & Hk). destruct Hc as [Hc|Hc]; [congruence|].
      apply Hc. unfold tr_number. destruct t; cbn [tr_kind] in Hk; lia.
    - split; [intros _; exact Ht|reflexivity].
  Qed.

  (* the list of extensions stops only where the formats / the cap say so: what is announced
     behind the last one is nothing, or no link-extension type, or there are 3 already *)
  Theorem dispatch_exts_stop e v et : dispatch e v -> e <> EnIp ->
    exts_announced (first_type e) (v_exts v) = Some et -> link_ext_type et ->
    length (v_exts v) = 3%nat /\ v_net v = None.
  Proof.
    intros (_ & _ & _ & Hn & _) He Ha Hl.
    assert (Hd : net_dispatch (exts_announced (first_type e) (v_exts v)) (length (v_exts v)) (v_net v)).
    { destruct e; try exact Hn. now elim He. }
    clear Hn. rewrite Ha in Hd. unfold net_dispatch in Hd.
    destruct (v_net v) as [nn|].
    - exfalso. destruct Hd as ((et' & Hs & Hk) & _). injection Hs as <-.
      exact (net_type_not_link_ext _ (net_kind_type _ _ Hk) Hl).
    - cbn [no_net_cause] in Hd. destruct Hd as [(_ & H3)|(Hnl & _)]; [auto|contradiction].
  Qed.

  (* ---- proofs: the reference decoder only produces dispatched views ------------------ *)
  Lemma is_vlan_true et : is_vlan et = true -> vlan_type et.
  Proof. unfold is_vlan, vlan_type. lia. Qed.
  Lemma is_vlan_false et : is_vlan et = false -> ~ vlan_type et.
  Proof. unfold is_vlan, vlan_type. lia. Qed.

  Lemma exts_dispatch_app : forall xs ann x et,
    exts_dispatch ann xs -> exts_announced ann xs = Some et -> ext_kind et x -> ext_rules x ->
    exts_dispatch ann (xs ++ [x]) /\ exts_announced ann (xs ++ [x]) = ext_announces x.
  Proof.
    induction xs as [|y r IH]; intros ann x et; cbn [exts_dispatch exts_announced app].
    - intros _ -> Hk Hr. repeat split; auto.
    - destruct ann as [a|]; [|contradiction].
      intros (Hy1 & Hy2 & Hy3) Ha Hk Hr.
      destruct (IH _ _ _ Hy3 Ha Hk Hr) as (H1 & H2). repeat split; auto.
  Qed.

  (* transport: link, extensions and network layer untouched, transport dispatched *)
  Definition same_upto_net (p v : vpacket) (nn : vnet) : Prop :=
    v_link v = v_link p /\ v_exts v = v_exts p /\ v_net v = Some nn /\
    tr_dispatch (Some nn) (v_transport v).

  Lemma wire_transport_disp p nn ip src pos lim v :
    v_transport p = None -> net_payload (Some nn) = Some ip ->
    wire_transport bs (with_net p nn) (vip_number ip) (vip_frag ip) src pos lim = VOk v ->
    same_upto_net p v nn.
  Proof.
    intros Htr Hip. unfold wire_transport, same_upto_net, tr_dispatch, no_tr_cause. rewrite Hip.
    destruct (vip_frag ip) eqn:Ef.
    { intros H. injection H as <-. cbn [with_net v_link v_exts v_net v_transport]. rewrite Htr.
      repeat split. now left. }
    destruct (N.eqb_spec (vip_number ip) 1) as [E1|E1].
    { unfold wire_icmp4. cbv zeta. destruct (lim - pos <? 8); [discriminate|].
      destruct ((B pos =? 13) && (B (pos + 1) =? 0) && negb (lim - pos =? 20)) eqn:T1; [discriminate|].
      destruct ((B pos =? 14) && (B (pos + 1) =? 0) && negb (lim - pos =? 20)) eqn:T2; [discriminate|].
      intros H. injection H as <-.
      cbn [with_tr with_net v_link v_exts v_net v_transport tr_kind fst snd].
      repeat split; [exact E1|]. intros Ht Hc. lia. }
    destruct (N.eqb_spec (vip_number ip) 17) as [E2|E2].
    { unfold wire_udp. cbv zeta. destruct (lim - pos <? 8); [discriminate|].
      destruct (lim - pos <? W (pos + 4)); [discriminate|].
      destruct (W (pos + 4) =? 0).
      { intros H. injection H as <-. cbn [with_tr with_net v_link v_exts v_net v_transport tr_kind].
        repeat split. exact E2. }
      destruct (W (pos + 4) <? 8); [discriminate|].
      intros H. injection H as <-. cbn [with_tr with_net v_link v_exts v_net v_transport tr_kind].
      repeat split. exact E2. }
    destruct (N.eqb_spec (vip_number ip) 6) as [E3|E3].
    { unfold wire_tcp. cbv zeta. destruct (lim - pos <? 20); [discriminate|].
      destruct (B (pos + 12) / 16 <? 5) eqn:Ed; [discriminate|].
      destruct (lim - pos <? B (pos + 12) / 16 * 4); [discriminate|].
      intros H. injection H as <-.
      cbn [with_tr with_net v_link v_exts v_net v_transport tr_kind fst].
      repeat split; [exact E3|lia]. }
    destruct (N.eqb_spec (vip_number ip) 58) as [E4|E4].
    { unfold wire_icmp6. cbv zeta. destruct (lim - pos <? 8); [discriminate|].
      destruct (4294967295 <? lim - pos); [discriminate|].
      intros H. injection H as <-. cbn [with_tr with_net v_link v_exts v_net v_transport tr_kind].
      repeat split. exact E4. }
    intros H. injection H as <-. cbn [with_net v_link v_exts v_net v_transport]. rewrite Htr.
    repeat split. right. unfold tr_number. lia.
  Qed.

  Lemma wire_ah_nonzero zero src pos lim l next :
    wire_ah bs zero src pos lim = AhOk l next -> B (pos + 1) <> 0.
  Proof.
    unfold wire_ah. cbv zeta.
    destruct (lim - pos <? 12); [discriminate|].
    destruct (B (pos + 1) =? 0) eqn:E; [discriminate|]. intros _. lia.
  Qed.

  (* what the network part of the decoder adds to p *)
  Definition net_post (p v : vpacket) (K : vnet -> Prop) : Prop :=
    exists nn, same_upto_net p v nn /\ K nn /\ net_rules nn.

  Definition is_v4 (nn : vnet) : Prop := match nn with VIpv4 _ _ _ => True | _ => False end.
  Definition is_v6 (nn : vnet) : Prop := match nn with VIpv6 _ _ _ _ _ => True | _ => False end.
  Definition is_arp (nn : vnet) : Prop := match nn with VArp _ => True | _ => False end.

  Lemma wire_ipv4_body_disp p src pos lim hl v :
    v_transport p = None -> B pos / 16 = 4 -> 5 <= B pos mod 16 ->
    wire_ipv4_body bs p src pos lim hl = VOk v -> net_post p v is_v4.
  Proof.
    intros Htr Hv Hi. unfold wire_ipv4_body. cbv zeta.
    destruct (W (pos + 2) <? hl); [discriminate|].
    destruct (lim - pos <? W (pos + 2)); [discriminate|].
    unfold wire_ipv4_tail. cbv zeta.
    destruct (N.eqb_spec (B (pos + 9)) 51) as [E|E].
    - destruct (wire_ah bs CeAuthZeroPayloadLen LsIpv4HeaderTotalLen (pos + hl) (pos + W (pos + 2)))
        as [ahl next|r] eqn:Ea; [|intros ->; exfalso; exact (wire_ah_err _ _ _ _ _ _ Ea v eq_refl)].
      pose proof (wire_ah_nonzero _ _ _ _ _ _ Ea) as Hz.
      intros Hw.
      match type of Hw with
      | wire_transport _ (with_net _ ?n) _ _ _ _ _ = _ => exists n
      end.
      split; [|split; [exact I|]].
      + match type of Hw with
        | wire_transport _ (with_net _ (VIpv4 ?h ?a ?ip)) _ _ _ _ _ = _ =>
            apply (wire_transport_disp p (VIpv4 h a ip) ip _ _ _ v Htr eq_refl Hw)
        end.
      + cbn [net_rules]. unfold ipv4_rules. cbn [fst]. cbv zeta. repeat split; auto.
    - intros Hw.
      match type of Hw with
      | wire_transport _ (with_net _ ?n) _ _ _ _ _ = _ => exists n
      end.
      split; [|split; [exact I|]].
      + match type of Hw with
        | wire_transport _ (with_net _ (VIpv4 ?h ?a ?ip)) _ _ _ _ _ = _ =>
            apply (wire_transport_disp p (VIpv4 h a ip) ip _ _ _ v Htr eq_refl Hw)
        end.
      + cbn [net_rules]. unfold ipv4_rules. cbn [fst]. cbv zeta. repeat split; auto.
  Qed.

  Lemma wire_ipv4_disp p src pos lim v :
    v_transport p = None -> wire_ipv4 bs p src pos lim = VOk v -> net_post p v is_v4.
  Proof.
    intros Htr. unfold wire_ipv4. cbv zeta.
    destruct (lim - pos <? 20); [discriminate|].
    destruct (N.eqb_spec (B pos / 16) 4) as [E|E]; cbn [negb]; [|discriminate].
    destruct (B pos mod 16 <? 5) eqn:E2; [discriminate|].
    destruct (lim - pos <? B pos mod 16 * 4); [discriminate|].
    apply wire_ipv4_body_disp; [exact Htr|exact E|lia].
  Qed.

  (* extension chain *)
  Lemma ext_hdr_len_raw nh pos : (nh =? 60) || (nh =? 43) = true \/ nh = 0 ->
    ext_hdr_len nh pos = (B (pos + 1) + 1) * 8.
  Proof.
    intros H. unfold ext_hdr_len.
    destruct (N.eqb_spec nh 44); [lia|]. destruct (N.eqb_spec nh 51); [lia|]. reflexivity.
  Qed.

  Lemma wire_chain_rules : forall fuel src pos lim nh frag e next fr,
    pos <= lim -> wire_chain bs fuel src pos lim nh frag = ChOk e next fr ->
    ~ ext_number next /\
    forall fuel2, (N.to_nat (e - pos) < fuel2)%nat -> chain_rules fuel2 false nh pos e.
  Proof.
    induction fuel as [|f IH]; intros src pos lim nh frag e next fr Hle; cbn [wire_chain]; cbv zeta;
      [discriminate|].
    destruct (N.eqb_spec nh 0) as [N0|N0]; [discriminate|].
    destruct ((nh =? 60) || (nh =? 43)) eqn:Nr.
    { destruct (lim - pos <? 8) eqn:E1; [discriminate|].
      destruct (lim - pos <? (B (pos + 1) + 1) * 8) eqn:E2; [discriminate|].
      intros H.
      assert (Hle' : pos + (B (pos + 1) + 1) * 8 <= lim) by lia.
      destruct (wire_chain_bounds _ _ _ _ _ _ _ _ _ _ Hle' H) as (Hb1 & Hb2).
      destruct (IH _ _ _ _ _ _ _ _ Hle' H) as (Hn & Hc). split; [exact Hn|].
      intros fuel2 Hf. destruct fuel2 as [|f2]; [lia|]. cbn [chain_rules].
      destruct (e <=? pos) eqn:C; [lia|].
      rewrite (ext_hdr_len_raw nh pos (or_introl Nr)).
      split; [unfold ext_number; lia|]. split; [intros; contradiction|].
      split; [intros ->; discriminate|]. split; [exact Hb1|].
      apply Hc. lia. }
    destruct (N.eqb_spec nh 44) as [N44|N44].
    { destruct (lim - pos <? 8) eqn:E1; [discriminate|].
      intros H.
      assert (Hle' : pos + 8 <= lim) by lia.
      destruct (wire_chain_bounds _ _ _ _ _ _ _ _ _ _ Hle' H) as (Hb1 & Hb2).
      destruct (IH _ _ _ _ _ _ _ _ Hle' H) as (Hn & Hc). split; [exact Hn|].
      intros fuel2 Hf. destruct fuel2 as [|f2]; [lia|]. cbn [chain_rules].
      destruct (e <=? pos) eqn:C; [lia|].
      assert (Hl : ext_hdr_len nh pos = 8) by (unfold ext_hdr_len; subst nh; reflexivity).
      rewrite Hl.
      split; [unfold ext_number; lia|]. split; [intros; contradiction|].
      split; [intros ->; discriminate|]. split; [exact Hb1|].
      apply Hc. lia. }
    destruct (N.eqb_spec nh 51) as [N51|N51].
    { destruct (wire_ah bs CeIpv6AuthZeroPayloadLen src pos lim) as [l nx|r] eqn:Ea; [|discriminate].
      destruct (wire_ah_ok _ _ _ _ _ _ _ Ea) as (Hl & Hl2 & Hl3).
      pose proof (wire_ah_nonzero _ _ _ _ _ _ Ea) as Hz.
      pose proof (wire_ah_next _ _ _ _ _ _ _ Ea) as ->.
      intros H.
      assert (Hle' : pos + l <= lim) by lia.
      destruct (wire_chain_bounds _ _ _ _ _ _ _ _ _ _ Hle' H) as (Hb1 & Hb2).
      destruct (IH _ _ _ _ _ _ _ _ Hle' H) as (Hn & Hc). split; [exact Hn|].
      intros fuel2 Hf. destruct fuel2 as [|f2]; [lia|]. cbn [chain_rules].
      destruct (e <=? pos) eqn:C; [lia|].
      assert (Hl' : ext_hdr_len nh pos = l) by (unfold ext_hdr_len; subst nh; cbn; symmetry; exact Hl).
      rewrite Hl'.
      split; [unfold ext_number; lia|]. split; [intros; contradiction|].
      split; [intros _; exact Hz|]. split; [exact Hb1|].
      apply Hc. lia. }
    intros H. injection H as <- <- <-.
    assert (Hne : ~ ext_number nh).
    { unfold ext_number. apply orb_false_elim in Nr. destruct Nr as (Nr1 & Nr2). lia. }
    split; [exact Hne|].
    intros fuel2 Hf. destruct fuel2 as [|f2]; [lia|]. cbn [chain_rules].
    destruct (pos <=? pos) eqn:C; [|lia]. split; [reflexivity|exact Hne].
  Qed.

  Lemma wire_exts_rules fuel src pos lim nh e next fr :
    pos <= lim -> wire_exts bs fuel src pos lim nh = ChOk e next fr ->
    ~ ext_number next /\
    forall fuel2, (N.to_nat (e - pos) < fuel2)%nat -> chain_rules fuel2 true nh pos e.
  Proof.
    intros Hle. unfold wire_exts. cbv zeta.
    destruct (N.eqb_spec nh 0) as [N0|N0].
    - destruct (lim - pos <? 8) eqn:E1; [discriminate|].
      destruct (lim - pos <? (B (pos + 1) + 1) * 8) eqn:E2; [discriminate|].
      intros H.
      assert (Hle' : pos + (B (pos + 1) + 1) * 8 <= lim) by lia.
      destruct (wire_chain_bounds _ _ _ _ _ _ _ _ _ _ Hle' H) as (Hb1 & Hb2).
      destruct (wire_chain_rules _ _ _ _ _ _ _ _ _ Hle' H) as (Hn & Hc). split; [exact Hn|].
      intros fuel2 Hf. destruct fuel2 as [|f2]; [lia|]. cbn [chain_rules].
      destruct (e <=? pos) eqn:C; [lia|].
      rewrite (ext_hdr_len_raw nh pos (or_intror N0)).
      split; [unfold ext_number; lia|]. split; [reflexivity|].
      split; [intros ->; discriminate|]. split; [exact Hb1|].
      apply Hc. lia.
    - intros H. destruct (wire_chain_rules _ _ _ _ _ _ _ _ _ Hle H) as (Hn & Hc).
      split; [exact Hn|].
      intros fuel2 Hf. specialize (Hc fuel2 Hf).
      (* `first` only matters for number 0 *)
      destruct fuel2 as [|f2]; [exact Hc|]. cbn [chain_rules] in *.
      destruct (e <=? pos); [exact Hc|].
      destruct Hc as (H1 & H2 & H3). split; [exact H1|]. split; [intros; contradiction|exact H3].
  Qed.

  Lemma wire_ipv6_tail_disp p esrc psrc pos lim' v :
    v_transport p = None -> pos + 40 <= lim' -> B pos / 16 = 6 ->
    wire_ipv6_tail bs p esrc psrc pos lim' = VOk v -> net_post p v is_v6.
  Proof.
    intros Htr H40 Hv. unfold wire_ipv6_tail.
    destruct (wire_exts bs _ esrc (pos + 40) lim' (B (pos + 6))) as [e next frag|r] eqn:Ec;
      [|intros ->; exfalso; exact (wire_exts_err _ _ _ _ _ _ _ Ec v eq_refl)].
    destruct (wire_exts_bounds _ _ _ _ _ _ _ _ _ H40 Ec) as (He1 & He2).
    destruct (wire_exts_rules _ _ _ _ _ _ _ _ H40 Ec) as (Hn & Hc).
    intros Hw.
    match type of Hw with
    | wire_transport _ (with_net _ ?n) _ _ _ _ _ = _ => exists n
    end.
    split; [|split; [exact I|]].
    - match type of Hw with
      | wire_transport _ (with_net _ (VIpv6 ?h ?f ?fr ?x ?ip)) _ _ _ _ _ = _ =>
          apply (wire_transport_disp p (VIpv6 h f fr x ip) ip _ _ _ v Htr eq_refl Hw)
      end.
    - cbn [net_rules]. unfold ipv6_rules. cbn [fst snd vip_number]. cbv zeta.
      split; [exact Hv|]. split.
      { destruct (N.eqb_spec e (pos + 40)) as [E|E]; destruct (N.eqb_spec (e - (pos + 40)) 0) as [E'|E'];
          try reflexivity; lia. }
      split; [|exact Hn].
      replace (pos + 40 + (e - (pos + 40))) with e by lia. apply Hc. lia.
  Qed.

  Lemma wire_ipv6_body_disp p src pos lim v :
    v_transport p = None -> 40 <= lim - pos -> B pos / 16 = 6 ->
    wire_ipv6_body bs p src pos lim = VOk v -> net_post p v is_v6.
  Proof.
    intros Htr H40 Hv. unfold wire_ipv6_body. cbv zeta.
    destruct ((W (pos + 4) =? 0) && (40 <? lim - pos)) eqn:E1.
    - apply wire_ipv6_tail_disp; [exact Htr|lia|exact Hv].
    - destruct (lim - pos <? 40 + W (pos + 4)) eqn:E2; [discriminate|].
      apply wire_ipv6_tail_disp; [exact Htr|lia|exact Hv].
  Qed.

  Lemma wire_ipv6_disp p src pos lim v :
    v_transport p = None -> wire_ipv6 bs p src pos lim = VOk v -> net_post p v is_v6.
  Proof.
    intros Htr. unfold wire_ipv6. cbv zeta.
    destruct (lim - pos <? 40) eqn:E1; [discriminate|].
    destruct (N.eqb_spec (B pos / 16) 6) as [E|E]; cbn [negb]; [|discriminate].
    apply wire_ipv6_body_disp; [exact Htr|lia|exact E].
  Qed.

  Lemma wire_ip_disp p src pos lim v :
    v_transport p = None -> wire_ip bs p src pos lim = VOk v ->
    net_post p v is_v4 \/ net_post p v is_v6.
  Proof.
    intros Htr. unfold wire_ip. cbv zeta.
    destruct (lim - pos =? 0); [discriminate|].
    destruct (N.eqb_spec (B pos / 16) 4) as [E4|E4].
    { destruct (B pos mod 16 <? 5) eqn:E; [discriminate|].
      destruct (lim - pos <? B pos mod 16 * 4); [discriminate|].
      intros H. left. revert H. apply wire_ipv4_body_disp; [exact Htr|exact E4|lia]. }
    destruct (N.eqb_spec (B pos / 16) 6) as [E6|E6]; [|discriminate].
    destruct (lim - pos <? 40) eqn:E1; [discriminate|].
    intros H. right. revert H. apply wire_ipv6_body_disp; [exact Htr|lia|exact E6].
  Qed.

  (* the network step behind an announced ether type that is no link-extension type *)
  Definition net_step (p v : vpacket) (et : N) : Prop :=
    v_link v = v_link p /\ v_exts v = v_exts p /\
    match v_net v with
    | Some nn => net_kind et nn /\ net_rules nn
    | None => ~ net_type et
    end /\
    tr_dispatch (v_net v) (v_transport v).

  Lemma net_post_step p v et (K : vnet -> Prop) :
    net_post p v K -> (forall nn, K nn -> net_kind et nn) -> net_step p v et.
  Proof.
    intros (nn & (H1 & H2 & H3 & H4) & Hk & Hr) HK. unfold net_step. rewrite H3.
    repeat split; auto.
  Qed.

  Lemma wire_net_disp p et src pos lim v :
    v_net p = None -> v_transport p = None ->
    wire_net bs p et src pos lim = VOk v -> net_step p v et.
  Proof.
    intros Hnp Htr. unfold wire_net.
    destruct (N.eqb_spec et 2054) as [E1|E1].
    { unfold wire_arp. cbv zeta. destruct (lim - pos <? 8); [discriminate|].
      destruct (lim - pos <? 8 + B (pos + 4) * 2 + B (pos + 5) * 2); [discriminate|].
      intros H. injection H as <-. unfold net_step.
      cbn [with_net v_link v_exts v_net v_transport net_kind net_rules]. rewrite Htr.
      repeat split; auto. }
    destruct (N.eqb_spec et 2048) as [E2|E2].
    { intros H. apply (wire_ipv4_disp _ _ _ _ _ Htr) in H.
      apply (net_post_step _ _ _ _ H). intros [| |]; cbn; auto; contradiction. }
    destruct (N.eqb_spec et 34525) as [E3|E3].
    { intros H. apply (wire_ipv6_disp _ _ _ _ _ Htr) in H.
      apply (net_post_step _ _ _ _ H). intros [| |]; cbn; auto; contradiction. }
    intros H. injection H as <-. unfold net_step. rewrite Hnp, Htr.
    repeat split; auto. unfold net_type. lia.
  Qed.

  (* state of the walk in front of an announced ether type: cap = extensions still allowed *)
  Definition dpre (e : entry) (cap : nat) (p : vpacket) (et : N) : Prop :=
    e <> EnIp /\ link_dispatch e (v_link p) /\ (length (v_exts p) + cap = 3)%nat /\
    exts_dispatch (first_type e) (v_exts p) /\
    exts_announced (first_type e) (v_exts p) = Some et /\
    v_net p = None /\ v_transport p = None.

  Lemma dispatch_of_stop e cap p et :
    dpre e cap p et -> (link_ext_type et /\ cap = O) \/ (~ link_ext_type et /\ ~ net_type et) ->
    dispatch e p.
  Proof.
    intros (He & Hl & Hc & Hx & Ha & Hn & Ht) Hs. unfold dispatch.
    split; [exact Hl|]. split; [lia|]. split; [exact Hx|]. split.
    - assert (Hd : net_dispatch (exts_announced (first_type e) (v_exts p)) (length (v_exts p)) (v_net p)).
      { rewrite Hn, Ha. cbn [net_dispatch no_net_cause].
        destruct Hs as [(H1 & H2)|H]; [left; split; [exact H1|lia]|right; exact H]. }
      destruct e; try exact Hd. now elim He.
    - rewrite Hn, Ht. exact I.
  Qed.

  Lemma dispatch_of_modified e cap p et x :
    dpre e (S cap) p et -> ext_kind et x -> ext_rules x -> ext_announces x = None ->
    dispatch e (with_ext p x).
  Proof.
    intros (He & Hl & Hc & Hx & Ha & Hn & Ht) Hk Hr Hno. unfold dispatch, with_ext.
    cbn [v_link v_exts v_net v_transport].
    destruct (exts_dispatch_app _ _ _ _ Hx Ha Hk Hr) as (H1 & H2).
    split; [exact Hl|]. split; [rewrite app_length; cbn [length]; lia|]. split; [exact H1|]. split.
    - assert (Hd : net_dispatch (exts_announced (first_type e) (v_exts p ++ [x]))
                     (length (v_exts p ++ [x])) (v_net p)).
      { rewrite Hn, H2, Hno. exact I. }
      destruct e; try exact Hd. now elim He.
    - rewrite Hn, Ht. exact I.
  Qed.

  Lemma dpre_with_ext e cap p et x et' :
    dpre e (S cap) p et -> ext_kind et x -> ext_rules x -> ext_announces x = Some et' ->
    dpre e cap (with_ext p x) et'.
  Proof.
    intros (He & Hl & Hc & Hx & Ha & Hn & Ht) Hk Hr Han. unfold dpre, with_ext.
    cbn [v_link v_exts v_net v_transport].
    destruct (exts_dispatch_app _ _ _ _ Hx Ha Hk Hr) as (H1 & H2).
    split; [exact He|]. split; [exact Hl|]. split; [rewrite app_length; cbn [length]; lia|].
    split; [exact H1|]. split; [rewrite H2; exact Han|]. split; [exact Hn|exact Ht].
  Qed.

  Lemma dispatch_of_net e cap p et v :
    dpre e cap p et -> ~ link_ext_type et -> net_step p v et -> dispatch e v.
  Proof.
    intros (He & Hl & Hc & Hx & Ha & Hn & Ht) Hnl (H1 & H2 & H3 & H4). unfold dispatch.
    rewrite H1, H2.
    split; [exact Hl|]. split; [lia|]. split; [exact Hx|]. split; [|exact H4].
    assert (Hd : net_dispatch (exts_announced (first_type e) (v_exts p)) (length (v_exts p)) (v_net v)).
    { rewrite Ha. unfold net_dispatch. destruct (v_net v) as [nn|].
      - destruct H3 as (Hk & Hr). split; [exists et; auto|exact Hr].
      - cbn [no_net_cause]. right. auto. }
    destruct e; try exact Hd. now elim He.
  Qed.

  Lemma wire_ether_dispatch e : forall cap p et src pos lim v,
    dpre e cap p et -> wire_ether bs cap p et src pos lim = VOk v -> dispatch e v.
  Proof.
    induction cap as [|c IH]; intros p et src pos lim v Hp; cbn [wire_ether]; cbv zeta.
    { destruct (is_vlan et) eqn:Ev.
      { intros H. injection H as <-. apply (dispatch_of_stop e O p et Hp). left.
        split; [left; now apply is_vlan_true|reflexivity]. }
      destruct (N.eqb_spec et 35045) as [Em|Em].
      { intros H. injection H as <-. apply (dispatch_of_stop e O p et Hp). left.
        split; [right; exact Em|reflexivity]. }
      intros H. apply (dispatch_of_net e O p et v Hp).
      - intros [Hv|Hm]; [exact (is_vlan_false _ Ev Hv)|exact (Em Hm)].
      - destruct Hp as (_ & _ & _ & _ & _ & Hn & Ht). exact (wire_net_disp _ _ _ _ _ _ Hn Ht H). }
    destruct (is_vlan et) eqn:Ev.
    { destruct (lim - pos <? 4) eqn:E1; [discriminate|].
      apply IH. apply (dpre_with_ext e c p et _ _ Hp).
      - cbn [ext_kind]. now apply is_vlan_true.
      - exact I.
      - cbn [ext_announces fst]. reflexivity. }
    destruct (N.eqb_spec et 35045) as [Em|Em].
    2:{ intros H. apply (dispatch_of_net e (S c) p et v Hp).
        - intros [Hv|Hm]; [exact (is_vlan_false _ Ev Hv)|exact (Em Hm)].
        - destruct Hp as (_ & _ & _ & _ & _ & Hn & Ht). exact (wire_net_disp _ _ _ _ _ _ Hn Ht H). }
    destruct (lim - pos <? 6) eqn:E1; [discriminate|].
    destruct (128 <=? B pos) eqn:E2; [discriminate|].
    destruct (((B pos / 4) mod 4 =? 0) && (B (pos + 1) mod 64 =? 1)) eqn:E3; [discriminate|].
    fold (macsec_hl (B pos)).
    destruct (lim - pos <? macsec_hl (B pos)) eqn:E4; [discriminate|].
    match goal with |- context [if ?c then cut _ _ _ _ _ else _] => destruct c; [discriminate|] end.
    assert (Hr : forall pl, ext_rules (VMacsec (pos, macsec_hl (B pos)) pl)).
    { intros pl. cbn [ext_rules fst]. split; [lia|]. intros (Ha & Hb).
      rewrite Ha, Hb in E3. discriminate. }
    destruct ((B pos / 4) mod 4 =? 0) eqn:Eu.
    - apply IH. apply (dpre_with_ext e c p et _ _ Hp).
      + exact Em.
      + apply Hr.
      + cbn [ext_announces fst snd]. reflexivity.
    - intros H. injection H as <-. apply (dispatch_of_modified e c p et _ Hp).
      + exact Em.
      + apply Hr.
      + reflexivity.
  Qed.

  (* ---- entry points ------------------------------------------------------------------ *)
  Theorem wire_ethernet_dispatch v : wire_ethernet bs = VOk v -> dispatch EnEthernet v.
  Proof.
    unfold wire_ethernet. destruct (n_bs bs <? 14); [discriminate|].
    apply wire_ether_dispatch. unfold dpre.
    cbn [v_link v_exts v_net v_transport link_dispatch exts_dispatch exts_announced first_type length].
    repeat split; try discriminate.
  Qed.

  Theorem wire_linux_sll_dispatch v : wire_linux_sll bs = VOk v -> dispatch EnLinuxSll v.
  Proof.
    unfold wire_linux_sll. cbv zeta. destruct (n_bs bs <? 16); [discriminate|].
    destruct (7 <? W 0) eqn:E1; [discriminate|].
    destruct (sll_hw_supported (W 2)) eqn:E2; cbn [negb]; [|discriminate].
    destruct ((W 2 =? 1) && negb (sll_nonstandard (W 14))) eqn:E3.
    - apply wire_ether_dispatch. unfold dpre.
      cbn [v_link v_exts v_net v_transport link_dispatch exts_dispatch exts_announced first_type length].
      rewrite E3. repeat split; try discriminate; try lia.
    - intros H. injection H as <-. unfold dispatch.
      cbn [v_link v_exts v_net v_transport link_dispatch exts_dispatch exts_announced first_type length
           net_dispatch tr_dispatch].
      rewrite E3. cbn [no_net_cause]. repeat split; try lia.
  Qed.

  Theorem wire_ether_type_dispatch et v : wire_ether_type bs et = VOk v -> dispatch (EnEtherType et) v.
  Proof.
    unfold wire_ether_type. apply wire_ether_dispatch. unfold dpre.
    cbn [v_link v_exts v_net v_transport link_dispatch exts_dispatch exts_announced first_type length
         vep_type].
    repeat split; try discriminate.
  Qed.

  Theorem wire_from_ip_dispatch v : wire_from_ip bs = VOk v -> dispatch EnIp v.
  Proof.
    unfold wire_from_ip, empty_packet. intros H.
    apply wire_ip_disp in H; [|reflexivity]. unfold dispatch.
    assert (G : forall K : vnet -> Prop, (forall nn, K nn -> net_rules nn -> ip_dispatch (Some nn)) ->
                net_post (mkVPacket None [] None None) v K ->
                link_dispatch EnIp (v_link v) /\ (length (v_exts v) <= 3)%nat /\
                exts_dispatch (first_type EnIp) (v_exts v) /\ ip_dispatch (v_net v) /\
                tr_dispatch (v_net v) (v_transport v)).
    { intros K HK (nn & (H1 & H2 & H3 & H4) & Hk & Hr).
      cbn [v_link v_exts] in H1, H2. rewrite H1, H2, H3.
      cbn [link_dispatch length exts_dispatch]. repeat split; auto. }
    destruct H as [H|H]; revert H; apply G.
    - intros [| |]; cbn; auto; contradiction.
    - intros [| |]; cbn; auto; contradiction.
  Qed.
End Dispatch.

Theorem wire_dispatch bs et v :
  (wire_ethernet bs = VOk v -> dispatch bs EnEthernet v) /\
  (wire_linux_sll bs = VOk v -> dispatch bs EnLinuxSll v) /\
  (wire_ether_type bs et = VOk v -> dispatch bs (EnEtherType et) v) /\
  (wire_from_ip bs = VOk v -> dispatch bs EnIp v).
Proof.
  split; [|split; [|split]];
    [apply wire_ethernet_dispatch|apply wire_linux_sll_dispatch|apply wire_ether_type_dispatch
    |apply wire_from_ip_dispatch].
Qed.
