(* Parse/LaxAccess.v -- transliteration of the ACCESSORS reachable from the LAX
   slice types whose constructors are modelled in Parse/LaxSlices.v / LaxCursor.v:
     link/lax_macsec_slice.rs (ether_payload, next_ether_type; header / payload are
       public fields), link/lax_link_ext_slice.rs (header_len, to_header, payload),
     net/lax_ipv4_slice.rs, net/lax_ipv6_slice.rs, net/lax_ip_slice.rs (header,
       extensions, payload, payload_ip_number, is_payload_fragmented,
       is_fragmenting_payload, source_addr, destination_addr),
     net/lax_net_slice.rs (ip_payload_ref), lax_sliced_packet.rs (vlan, vlan_ids,
       ether_payload, ip_payload),
   and of IpSlice::to_header (net/ip_slice.rs), whose IPv6 arm re-decodes the
   validated extension window with the STRUCT decoder Ipv6Extensions::from_slice
   (model: Parse/HdrModel.v) and `expect`s success.

   The components of a lax result are the STRICT slice types (Ethernet2Slice,
   SingleVlanSlice, MacsecHeaderSlice, Ipv4HeaderSlice, IpAuthHeaderSlice,
   Ipv6HeaderSlice, Ipv6ExtensionsSlice, ArpPacketSlice, UdpSlice, TcpSlice,
   Icmpv4Slice, Icmpv6Slice): their accessor models are the ones of
   Parse/Access.v, reused here exactly as the Rust code reuses the types.  The
   conventions are those of Access.v (unchecked read = rdU, from_raw_parts = subU,
   usize subtraction = subN, unwrap/expect = Bug SITE_UNWRAP on the failing arm,
   push_unchecked on a full ArrayVec = Bug SITE_PUSH).  No proofs here. *)
From EP Require Import Base.Bytes Parse.Types Parse.Slices Parse.Cursor Parse.LaxSlices
  Parse.LaxCursor Parse.Access.
From EP Require Parse.HdrModel.

Local Open Scope N_scope.

(* ---- LaxMacsecSlice ---------------------------------------------------------- *)
Module LaxMacsecA.
  (* header and payload are public stored fields *)
  Definition payload_slice (m : lax_macsec_slice) : slice :=
    match lms_payload m with LMpUnmodified e => lep_slice e | LMpModified _ s => s end.
  Definition ether_payload (m : lax_macsec_slice) : res (option lax_ether_payload) :=
    match lms_payload m with
    | LMpUnmodified e => Ok (Some e)
    | LMpModified _ _ => Ok None
    end.
  Definition next_ether_type (m : lax_macsec_slice) := MacsecHeaderA.next_ether_type (lms_header m).
  Definition accessors (m : lax_macsec_slice) : list (res unit) :=
    MacsecHeaderA.accessors (lms_header m) ++ [run (ether_payload m); run (next_ether_type m)].
  Definition windows (m : lax_macsec_slice) : list (res slice) :=
    [Ok (lms_header m); Ok (payload_slice m)].
End LaxMacsecA.

(* ---- LaxLinkExtSlice ---------------------------------------------------------- *)
Module LaxLinkExtA.
  Definition header_len (x : lax_link_ext_slice) : res N :=
    match x with
    | LLeVlan _ => Ok 4                                  (* SingleVlanHeader::LEN *)
    | LLeMacsec m => MacsecHeaderA.header_len (lms_header m)
    end.
  Definition to_header (x : lax_link_ext_slice) : res unit :=
    match x with
    | LLeVlan s => run (SingleVlanA.to_header s)
    | LLeMacsec m => run (MacsecHeaderA.to_header (lms_header m))
    end.
  Definition payload (x : lax_link_ext_slice) : res (option lax_ether_payload) :=
    match x with
    | LLeVlan s =>
        let* p := SingleVlanA.payload s in
        Ok (Some (mkLaxEp false (ep_ether_type p) (ep_src p) (ep_slice p)))
    | LLeMacsec m => LaxMacsecA.ether_payload m
    end.
  Definition accessors (x : lax_link_ext_slice) : list (res unit) :=
    match x with
    | LLeVlan s => SingleVlanA.accessors s
    | LLeMacsec m => LaxMacsecA.accessors m
    end ++ [run (header_len x); to_header x; run (payload x)].
  Definition windows (x : lax_link_ext_slice) : list (res slice) :=
    match x with
    | LLeVlan s => Ok s :: SingleVlanA.windows s
    | LLeMacsec m => LaxMacsecA.windows m
    end.
End LaxLinkExtA.

(* ---- LaxIpv4Slice / LaxIpv6Slice / LaxIpSlice ---------------------------------- *)
(* the lax IP slices store the same header / extension components as the strict
   ones; only the payload descriptor carries the extra `incomplete` flag *)
Definition strict_ipp (p : lax_ip_payload) : ip_payload :=
  mkIpPayload (lipp_number p) (lipp_fragmented p) (lipp_src p) (lipp_slice p).
Definition strict_v4 (v : lax_ipv4_slice) : ipv4_slice :=
  mkIpv4Slice (lv4_header v) (lv4_auth v) (strict_ipp (lv4_payload v)).
Definition strict_v6 (v : lax_ipv6_slice) : ipv6_slice :=
  mkIpv6Slice (lv6_header v) (lv6_exts v) (strict_ipp (lv6_payload v)).

Module LaxIpv4SliceA.
  (* header(), extensions(), payload(), payload_ip_number() return stored fields;
     Ipv4ExtensionsSlice::to_header = auth.map(to_header) *)
  Definition is_payload_fragmented (v : lax_ipv4_slice) : res bool :=
    Ipv4HeaderA.is_fragmenting_payload (lv4_header v).
  Definition accessors (v : lax_ipv4_slice) : list (res unit) :=
    Ipv4HeaderA.accessors (lv4_header v) ++
    match lv4_auth v with
    | Some a => IpAuthHeaderA.accessors a ++ IpAuthHeaderA.conversions a
    | None => []
    end ++
    [run (is_payload_fragmented v)].
  Definition windows (v : lax_ipv4_slice) : list (res slice) :=
    Ipv4HeaderA.windows (lv4_header v) ++
    match lv4_auth v with Some a => IpAuthHeaderA.windows a | None => [] end.
End LaxIpv4SliceA.

Module LaxIpv6SliceA.
  (* header(), extensions(), payload(), is_payload_fragmented() return stored fields;
     iterating extensions() and the accessors of every yielded header are included *)
  Definition accessors (v : lax_ipv6_slice) : list (res unit) :=
    Ipv6HeaderA.accessors (lv6_header v) ++
    [run (Ipv6ExtIterA.items (lv6_exts v))] ++
    match Ipv6ExtIterA.items (lv6_exts v) with
    | Ok l => flat_map Ipv6ExtIterA.item_accessors l
    | _ => []
    end.
  Definition windows (v : lax_ipv6_slice) : list (res slice) :=
    match Ipv6ExtIterA.items (lv6_exts v) with
    | Ok l => map (fun x => Ok (ext_item_slice x)) l ++ flat_map Ipv6ExtIterA.item_windows l
    | _ => []
    end.
End LaxIpv6SliceA.

Module LaxIpSliceA.
  Definition is_fragmenting_payload (i : lax_ip_slice) : res bool :=
    match i with
    | LIpV4 v => LaxIpv4SliceA.is_payload_fragmented v
    | LIpV6 v => Ok (lipp_fragmented (lv6_payload v))
    end.
  Definition source_addr (i : lax_ip_slice) : res bytes :=
    match i with
    | LIpV4 v => Ipv4HeaderA.source (lv4_header v)
    | LIpV6 v => Ipv6HeaderA.source (lv6_header v)
    end.
  Definition destination_addr (i : lax_ip_slice) : res bytes :=
    match i with
    | LIpV4 v => Ipv4HeaderA.destination (lv4_header v)
    | LIpV6 v => Ipv6HeaderA.destination (lv6_header v)
    end.
  Definition accessors (i : lax_ip_slice) : list (res unit) :=
    match i with LIpV4 v => LaxIpv4SliceA.accessors v | LIpV6 v => LaxIpv6SliceA.accessors v end ++
    [run (is_fragmenting_payload i); run (source_addr i); run (destination_addr i)].
  Definition windows (i : lax_ip_slice) : list (res slice) :=
    match i with LIpV4 v => LaxIpv4SliceA.windows v | LIpV6 v => LaxIpv6SliceA.windows v end.
End LaxIpSliceA.

(* ---- whole packets: all accessors / windows of all components of a LaxSlicedPacket -------- *)
Module LaxSlicedPacketA.
  Definition ip_of_net (n : lax_net_slice) : option lax_ip_slice :=
    match n with LNtIpv4 v => Some (LIpV4 v) | LNtIpv6 v => Some (LIpV6 v) | LNtArp _ => None end.
  Definition net_accessors (n : lax_net_slice) : list (res unit) :=
    match n with
    | LNtIpv4 v => LaxIpSliceA.accessors (LIpV4 v)
    | LNtIpv6 v => LaxIpSliceA.accessors (LIpV6 v)
    | LNtArp a => ArpPacketA.accessors a ++ ArpPacketA.conversions a
    end.
  Definition net_windows (n : lax_net_slice) : list (res slice) :=
    match n with
    | LNtIpv4 v =>
        Ok (lv4_header v) :: Ok (lipp_slice (lv4_payload v)) ::
        match lv4_auth v with Some a => [Ok a] | None => [] end ++ LaxIpv4SliceA.windows v
    | LNtIpv6 v =>
        Ok (lv6_header v) :: Ok (x6_slice (lv6_exts v)) :: Ok (lipp_slice (lv6_payload v)) ::
        LaxIpv6SliceA.windows v
    | LNtArp a => Ok a :: ArpPacketA.windows a
    end.

  (* LaxSlicedPacket::vlan: Single(first) / Double(first, second) of the VLAN entries *)
  Fixpoint vlan_loop (exts : list lax_link_ext_slice) (result : option slice)
    : option (slice * option slice) :=
    match exts with
    | [] => option_map (fun s => (s, None)) result
    | LLeVlan s :: r =>
        match result with
        | Some outer => Some (outer, Some s)
        | None => vlan_loop r (Some s)
        end
    | LLeMacsec _ :: r => vlan_loop r result
    end.
  Definition vlan (p : lax_sliced_packet) : res (option (slice * option slice)) :=
    Ok (vlan_loop (lsp_exts p) None).

  (* LaxSlicedPacket::vlan_ids: ArrayVec<VlanId, 3>::push_unchecked per VLAN entry *)
  Fixpoint vlan_ids_loop (exts : list lax_link_ext_slice) (acc : list N) : res (list N) :=
    match exts with
    | [] => Ok acc
    | LLeVlan s :: r =>
        let* v := SingleVlanA.vlan_identifier s in
        if len acc <? LINK_EXTS_CAP then vlan_ids_loop r (acc ++ [v]) else Bug SITE_PUSH
    | LLeMacsec _ :: r => vlan_ids_loop r acc
    end.
  Definition vlan_ids (p : lax_sliced_packet) : res (list N) := vlan_ids_loop (lsp_exts p) [].

  (* the len_source scan inside ether_payload(): the last non-Slice source of the payloads *)
  Fixpoint len_source_scan (exts : list lax_link_ext_slice) (src : len_source) : res len_source :=
    match exts with
    | [] => Ok src
    | x :: r =>
        let* pl := LaxLinkExtA.payload x in
        match pl with
        | Some l => len_source_scan r (if is_slice_src (lep_src l) then src else lep_src l)
        | None => len_source_scan r src
        end
    end.

  Definition last_ext (l : list lax_link_ext_slice) : option lax_link_ext_slice :=
    match rev l with x :: _ => Some x | [] => None end.

  (* LaxSlicedPacket::ether_payload *)
  Definition ether_payload (p : lax_sliced_packet) : res (option lax_ether_payload) :=
    match last_ext (lsp_exts p) with
    | Some (LLeVlan v) =>
        let* et := SingleVlanA.ether_type v in
        let* src := len_source_scan (lsp_exts p) LsSlice in
        let* pl := SingleVlanA.payload_slice v in
        Ok (Some (mkLaxEp false et src pl))
    | Some (LLeMacsec m) => LaxMacsecA.ether_payload m
    | None =>
        match lsp_link p with
        | Some (LkEthernet2 s) =>
            let* e := Ethernet2A.payload (mkEth2 0 s) in
            Ok (Some (mkLaxEp false (ep_ether_type e) LsSlice (ep_slice e)))
        | Some (LkLinuxSll h w) =>
            let* pt := LinuxSllHeaderA.protocol_type h in
            match pt with
            | SllEtherType v | SllNonstandard v =>
                (* EtherPayloadSlice::try_from(e.payload()).ok()? *)
                let* x := LinuxSllA.payload (h, w) in
                Ok (Some (mkLaxEp false v LsSlice (snd x)))
            | _ => Ok None
            end
        | Some (LkEtherPayload e) =>
            Ok (Some (mkLaxEp false (ep_ether_type e) LsSlice (ep_slice e)))
        | None => Ok None
        end
    end.

  (* LaxSlicedPacket::ip_payload / LaxNetSlice::ip_payload_ref: stored field *)
  Definition ip_payload (p : lax_sliced_packet) : res (option lax_ip_payload) :=
    match lsp_net p with
    | Some (LNtIpv4 v) => Ok (Some (lv4_payload v))
    | Some (LNtIpv6 v) => Ok (Some (lv6_payload v))
    | _ => Ok None
    end.

  Definition packet_accessors (p : lax_sliced_packet) : list (res unit) :=
    [run (vlan p); run (vlan_ids p); run (ether_payload p); run (ip_payload p)].
  Definition packet_windows (p : lax_sliced_packet) : list (res slice) :=
    match ether_payload p with
    | Ok (Some e) => [Ok (lep_slice e)]
    | Ok None => []
    | Err e => [Err e]
    | Bug b => [Bug b]
    end.

  Definition accessors (p : lax_sliced_packet) : list (res unit) :=
    SlicedPacketA.opt SlicedPacketA.link_accessors (lsp_link p) ++
    flat_map LaxLinkExtA.accessors (lsp_exts p) ++
    SlicedPacketA.opt net_accessors (lsp_net p) ++
    SlicedPacketA.opt SlicedPacketA.transport_accessors (lsp_transport p) ++
    packet_accessors p.
  Definition windows (p : lax_sliced_packet) : list (res slice) :=
    SlicedPacketA.opt SlicedPacketA.link_windows (lsp_link p) ++
    flat_map LaxLinkExtA.windows (lsp_exts p) ++
    SlicedPacketA.opt net_windows (lsp_net p) ++
    SlicedPacketA.opt SlicedPacketA.transport_windows (lsp_transport p) ++
    packet_windows p.
End LaxSlicedPacketA.

(* ---- IpSlice::to_header (strict IpSlice) ---------------------------------------------------- *)
Module IpSliceToHeaderA.
  (* Ipv6Extensions::from_slice(s.header().next_header(), s.extensions().slice())
       .expect("Ipv6Slice contains validated extension headers") *)
  Definition v6_exts_to_header (v : ipv6_slice) : res HdrModel.exts6 :=
    let* nh := Ipv6HeaderA.next_header (v6_header v) in
    match HdrModel.Ipv6Extensions.from_slice nh (x6_slice (v6_exts v)) with
    | Ok (exts, _, _) => Ok exts
    | Err _ => Bug SITE_UNWRAP
    | Bug b => Bug b
    end.
  (* IpHeaders::Ipv4(header.to_header(), extensions.to_header()) /
     IpHeaders::Ipv6(header.to_header(), exts) *)
  Definition to_header (i : ip_slice) : res unit :=
    match i with
    | IpV4 v =>
        let* _ := Ipv4HeaderA.to_header (v4_header v) in
        match v4_auth v with
        | Some a => let* _ := IpAuthHeaderA.to_header a in Ok tt
        | None => Ok tt
        end
    | IpV6 v =>
        let* _ := Ipv6HeaderA.to_header (v6_header v) in
        let* _ := v6_exts_to_header v in
        Ok tt
    end.
End IpSliceToHeaderA.
