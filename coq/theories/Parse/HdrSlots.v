(* Parse/HdrSlots.v -- property C04, audit round 1 follow-up: the SLOTS of the struct
   Ipv6Extensions, one by one, against the extension headers the slicing result yields.

   The view of HdrView.v observes the struct `Ipv6Extensions` only as (first next-header,
   fragmentation flag, SUM of the slot lengths).  Here:

     slot / slot_get     the six places of the struct (hop-by-hop, destination options,
                         routing, final destination options, fragment, authentication)
     keyed routed l      the slot each header of a chain l (in wire order) belongs to, by
                         the documented rule of Ipv6Extensions::from_slice: a header goes to
                         the slot of its kind; destination options go to the first slot
                         before a routing header was met and to the "final destination
                         options" slot behind one
     slots_hold x l      no two headers of l belong to the same slot, and slot k of x holds
                         the slice s  <->  (k, s) is in the keyed chain: every filled slot is
                         one header of the chain, every header of the chain sits in its slot,
                         everything else is empty
     chain W k nh l k' nh'   l are consecutive pieces of the slice W starting at relative
                         offset k and ending at k': the piece is `subU W k (its length)`, it is
                         a well formed header (length as announced by its own bytes) OF THE
                         KIND nh ANNOUNCED IN FRONT OF IT (the IPv6 header's next_header for
                         the first, octet 0 of the previous header after that), the last one
                         announces nh'

   Proved (Parse/HdrSlots.v, HdrSlots2.v):
     from_slice_slots    whatever Ipv6Extensions::from_slice returns holds a chain of the
                         slice it was given, from offset 0 to where its `rest` starts;
     collect_chain       iterating a slice that is exactly covered by a chain
                         (Ipv6ExtensionSliceIter, Parse/Access.v `items`) yields that chain;
     exts_slots          the struct's chain IS the list of extension headers
                         `Ipv6ExtensionsSlice` of the cut slicing result iterates to;
     HdrSlots2           lifted over IpHeaders / the link-extension loop / the three entry
                         points of PacketHeaders. *)
From Coq Require Import ZArith Lia ZifyN ZifyBool List.
From EP Require Import Base.Bytes Parse.Types Parse.Slices Parse.Cursor Parse.View
  Parse.WireSpec Parse.Repr Parse.StrictProofs Parse.Access
  Parse.HdrModel Parse.HdrView Parse.HdrCut Parse.HdrProofs Parse.HdrProofs2.
From EP Require Import Parse.AccessProofs.
Import ListNotations.
Import SlicedPacketCursor.
Import Ipv6ExtIterA.

Local Open Scope N_scope.

(* ---- definitions ----------------------------------------------------------------- *)
Inductive slot := SHbh | SDest | SRoute | SFdest | SFrag | SAuth.

Definition slot_get (x : exts6) (k : slot) : option slice :=
  match k with
  | SHbh => x_hbh x | SDest => x_dest x | SRoute => x_route x
  | SFdest => x_fdest x | SFrag => x_frag x | SAuth => x_auth x
  end.

Definition slot_eq_dec (a b : slot) : {a = b} + {a <> b}.
Proof. decide equality. Defined.

(* the IP number that announces a header of this kind *)
Definition item_kind (it : ext_item) : N :=
  match it with
  | XHopByHop _ => IPN_HOP_BY_HOP
  | XRouting _ => IPN_ROUTE
  | XFragment _ => IPN_FRAG
  | XDestinationOptions _ => IPN_DEST_OPTIONS
  | XAuthentication _ => IPN_AUTH
  end.

(* routed: a routing header was met in front *)
Definition item_slot (routed : bool) (it : ext_item) : slot :=
  match it with
  | XHopByHop _ => SHbh
  | XRouting _ => SRoute
  | XFragment _ => SFrag
  | XDestinationOptions _ => if routed then SFdest else SDest
  | XAuthentication _ => SAuth
  end.
Definition routed_after (routed : bool) (it : ext_item) : bool :=
  match it with XRouting _ => true | _ => routed end.

Fixpoint keyed (routed : bool) (l : list ext_item) : list (slot * slice) :=
  match l with
  | [] => []
  | it :: r => (item_slot routed it, ext_item_slice it) :: keyed (routed_after routed it) r
  end.

Definition holds (x : exts6) (L : list (slot * slice)) : Prop :=
  NoDup (map fst L) /\ forall k s, slot_get x k = Some s <-> In (k, s) L.

Definition slots_hold (x : exts6) (l : list ext_item) : Prop := holds x (keyed false l).

Fixpoint chain (W : slice) (k nh : N) (l : list ext_item) (k' nh' : N) : Prop :=
  match l with
  | [] => k' = k /\ nh' = nh
  | it :: r =>
      item_kind it = nh /\ item_wf it /\
      subU W k (s_len (ext_item_slice it)) = Ok (ext_item_slice it) /\
      exists nx, rdU (ext_item_slice it) 0 = Ok nx /\
                 chain W (k + s_len (ext_item_slice it)) nx r k' nh'
  end.

(* the same in absolute positions: consecutive windows from pos to pos_end *)
Fixpoint wchain (nh pos : N) (l : list ext_item) (nh_end pos_end : N) : Prop :=
  match l with
  | [] => nh_end = nh /\ pos_end = pos
  | it :: r =>
      item_kind it = nh /\ s_off (ext_item_slice it) = pos /\ item_wf it /\
      exists nx, rdU (ext_item_slice it) 0 = Ok nx /\
                 wchain nx (pos + s_len (ext_item_slice it)) r nh_end pos_end
  end.

(* the rest of a slice from relative offset k on *)
Definition at_off (base : slice) (k : N) : slice := (fst base + k, drop k (snd base)).

(* ---- small facts ------------------------------------------------------------------- *)
Lemma at_off_0 s : at_off s 0 = s.
Proof. destruct s as (o, l). unfold at_off. cbn [fst snd]. now rewrite N.add_0_r. Qed.

Lemma at_off_len s k : s_len (at_off s k) = s_len s - k.
Proof. unfold at_off. apply s_len_drop. Qed.

Lemma at_off_at_off s k j : at_off (at_off s k) j = at_off s (k + j).
Proof.
  unfold at_off. cbn [fst snd]. f_equal; [lia|]. unfold drop. rewrite skipn_skipn_add.
  f_equal. lia.
Qed.

Lemma at_off_subU s k j n : k <= s_len s -> subU (at_off s k) j n = subU s (k + j) n.
Proof.
  intros H. unfold subU. rewrite at_off_len.
  destruct (j + n <=? s_len s - k) eqn:A; destruct (k + j + n <=? s_len s) eqn:B; try lia; [|reflexivity].
  unfold at_off. cbn [fst snd]. f_equal. f_equal; [lia|]. unfold drop. rewrite skipn_skipn_add.
  do 2 f_equal. lia.
Qed.

Lemma at_off_rd s k i : rdU (at_off s k) i = rdU s (k + i).
Proof.
  unfold rdU, rd, at_off, drop. cbn [snd]. rewrite nth_error_skipn.
  replace (N.to_nat k + N.to_nat i)%nat with (N.to_nat (k + i)) by lia. reflexivity.
Qed.

Lemma item_wf_len it : item_wf it -> 8 <= s_len (ext_item_slice it).
Proof.
  destruct it as [s|s|s|s|s]; cbn [item_wf ext_item_slice]; unfold wf_raw, wf_frag, wf_ah.
  - intros (b & _ & ->). lia.
  - intros (b & _ & ->). lia.
  - intros ->. lia.
  - intros (b & _ & ->). lia.
  - intros (p & _ & P & ->). lia.
Qed.

Lemma chain_le W : forall l k nh k' nh', chain W k nh l k' nh' -> k + 8 * len l <= k'.
Proof.
  induction l as [|it r IH]; intros k nh k' nh'; cbn [chain].
  - intros (-> & _). unfold len. cbn. lia.
  - intros (_ & Wf & _ & nx & _ & C). apply IH in C. apply item_wf_len in Wf.
    rewrite len_cons. lia.
Qed.

Lemma chain_in W : forall l k nh k' nh', chain W k nh l k' nh' -> l <> [] -> k' <= s_len W.
Proof.
  induction l as [|it r IH]; intros k nh k' nh' C Hne; [now destruct Hne|].
  cbn [chain] in C. destruct C as (_ & Wf & Hs & nx & _ & C).
  destruct r as [|it2 r2].
  - cbn [chain] in C. destruct C as (-> & _). apply subU_inv in Hs. lia.
  - eapply IH; [exact C|discriminate].
Qed.

Lemma chain_wchain W : forall l k nh k' nh',
  chain W k nh l k' nh' -> wchain nh (s_off W + k) l nh' (s_off W + k').
Proof.
  induction l as [|it r IH]; intros k nh k' nh'; cbn [chain wchain].
  - intros (-> & ->). auto.
  - intros (Hk & Wf & Hs & nx & Hn & C). pose proof (subU_inv _ _ _ _ Hs) as (_ & _ & Ho & _).
    repeat split; auto. exists nx. split; [exact Hn|].
    replace (s_off W + k + s_len (ext_item_slice it)) with (s_off W + (k + s_len (ext_item_slice it))) by lia.
    now apply IH.
Qed.

(* a chain of W that ends inside the first u bytes is a chain of that prefix *)
Lemma chain_pre u I W : pre u I W -> forall l k nh k' nh',
  chain W k nh l k' nh' -> k' <= u -> chain I k nh l k' nh'.
Proof.
  intros P. induction l as [|it r IH]; intros k nh k' nh'; cbn [chain]; [auto|].
  intros (Hk & Wf & Hs & nx & Hn & C) Hu. pose proof (chain_le _ _ _ _ _ _ C) as L.
  repeat split; auto.
  - rewrite (pre_subU u I W k _ P) by lia. exact Hs.
  - exists nx. split; [exact Hn|]. now apply IH.
Qed.

(* ---- the slots ----------------------------------------------------------------------- *)
Lemma NoDup_app_one {A} (l : list A) a : NoDup l -> ~ In a l -> NoDup (l ++ [a]).
Proof.
  induction l as [|x l IH]; intros ND Hn; cbn [app].
  - constructor; [intros []|constructor].
  - inversion ND as [|? ? Hx ND']; subst. constructor.
    + rewrite in_app_iff. cbn [In]. intros [H|[H|[]]]; [now apply Hx|]. subst. apply Hn. now left.
    + apply IH; [exact ND'|]. intros H. apply Hn. now right.
Qed.

Lemma holds_put x x1 L K s :
  holds x L -> slot_get x K = None ->
  (forall j, slot_get x1 j = if slot_eq_dec j K then Some s else slot_get x j) ->
  holds x1 (L ++ [(K, s)]).
Proof.
  intros (ND & HI) Hn Hx1. split.
  - rewrite map_app. cbn [map fst]. apply NoDup_app_one; [exact ND|].
    intros Hin. apply in_map_iff in Hin. destruct Hin as ((k0, s0) & E & Hin). cbn [fst] in E. subst k0.
    apply HI in Hin. congruence.
  - intros k s'. rewrite Hx1. rewrite in_app_iff. cbn [In].
    destruct (slot_eq_dec k K) as [->|Ne].
    + split.
      * intros E. injection E as <-. right. now left.
      * intros [Hin|[E|[]]]; [apply HI in Hin; congruence|now injection E as <-].
    + rewrite HI. split; [now left|]. intros [Hin|[E|[]]]; [exact Hin|]. injection E as E1 _. now destruct Ne.
Qed.

(* ---- Ipv6Extensions::from_slice: the struct holds a chain of its input ------------------ *)
(* geometry of one step: the header is the head of `rest`, the new rest starts behind it *)
Lemma step_geom base k rest sl rest1 n :
  rest = at_off base k -> k <= s_len base -> subU rest 0 n = Ok sl ->
  idx_from rest (s_len sl) = Ok rest1 ->
  subU base k (s_len sl) = Ok sl /\ s_len sl = n /\ rest1 = at_off base (k + n) /\ k + n <= s_len base.
Proof.
  intros -> Hk Hs Hi. pose proof (subU_inv _ _ _ _ Hs) as (L & Ln & _ & _).
  rewrite at_off_len in L. rewrite Ln in *.
  rewrite at_off_subU, N.add_0_r in Hs by exact Hk.
  unfold idx_from in Hi. rewrite at_off_len in Hi.
  destruct (n <=? s_len base - k) eqn:E; [|discriminate]. injection Hi as <-.
  split; [exact Hs|]. split; [reflexivity|]. split; [|lia].
  change (at_off (at_off base k) n = at_off base (k + n)). apply at_off_at_off.
Qed.

Lemma raw_to_header_id sl h : raw_ext_to_header sl = Ok h -> h = sl.
Proof.
  unfold raw_ext_to_header. destruct (subN (s_len sl) 2); cbn [bind]; try discriminate.
  destruct (_ || _); [discriminate|]. intros H. now injection H.
Qed.

Lemma auth_to_header_id sl h : auth_to_header sl = Ok h -> h = sl.
Proof.
  unfold auth_to_header. destruct (subN (s_len sl) 12); cbn [bind]; try discriminate.
  destruct (_ || _); [discriminate|]. intros H. now injection H.
Qed.

Lemma raw_step_inv base k rest h rest1 nh1 :
  Ipv6Extensions.raw_step base rest = Ok (h, rest1, nh1) ->
  rest = at_off base k -> k <= s_len base ->
  wf_raw h /\ subU base k (s_len h) = Ok h /\ rdU h 0 = Ok nh1 /\
  rest1 = at_off base (k + s_len h) /\ k + s_len h <= s_len base.
Proof.
  unfold Ipv6Extensions.raw_step. intros H Hr Hk.
  binv H off Eoff. binv H sl Esl. apply map_len_err_inv in Esl.
  binv H rest' Er. binv H nh Enh. binv H h' Eh. injection H as <- <- <-.
  apply raw_to_header_id in Eh. subst h'. unfold Ipv6RawExtHeaderSlice.next_header in Enh.
  destruct (raw_inv _ _ Esl) as (b & _ & Hsl & _).
  pose proof (raw_wf _ _ Esl) as (Wsl & _).
  destruct (step_geom base k rest sl rest' _ Hr Hk Hsl Er) as (G1 & G2 & G3 & G4).
  rewrite <- G2 in G3, G4. repeat split; auto.
Qed.

Lemma frag_step_inv base k rest sl rest1 :
  Ipv6FragmentHeaderSlice.from_slice rest = Ok sl -> idx_from rest (s_len sl) = Ok rest1 ->
  rest = at_off base k -> k <= s_len base ->
  wf_frag sl /\ subU base k (s_len sl) = Ok sl /\
  rest1 = at_off base (k + s_len sl) /\ k + s_len sl <= s_len base.
Proof.
  intros Esl Er Hr Hk. destruct (frag_inv _ _ Esl) as (Hsl & _).
  pose proof (frag_wf _ _ Esl) as (Wsl & _).
  destruct (step_geom base k rest sl rest1 _ Hr Hk Hsl Er) as (G1 & G2 & G3 & G4).
  rewrite <- G2 in G3, G4. repeat split; auto.
Qed.

Lemma auth_step_inv base k rest sl rest1 :
  IpAuthHeaderSlice.from_slice rest = Ok sl -> idx_from rest (s_len sl) = Ok rest1 ->
  rest = at_off base k -> k <= s_len base ->
  wf_ah sl /\ subU base k (s_len sl) = Ok sl /\
  rest1 = at_off base (k + s_len sl) /\ k + s_len sl <= s_len base.
Proof.
  intros Esl Er Hr Hk. destruct (ah_inv _ _ Esl) as (p & _ & _ & Hsl & _).
  pose proof (ah_wf _ _ Esl) as (Wsl & _).
  destruct (step_geom base k rest sl rest1 _ Hr Hk Hsl Er) as (G1 & G2 & G3 & G4).
  rewrite <- G2 in G3, G4. repeat split; auto.
Qed.

(* what is proved about one run of the loop from the state (x, rest = base[k..], nh) *)
Definition loop_post (base : slice) (x : exts6) (L : list (slot * slice)) (k nh : N)
  (x' : exts6) (nh' : N) (r' : slice) : Prop :=
  exists l k', holds x' (L ++ keyed (is_some (x_route x)) l) /\
               chain base k nh l k' nh' /\ k' <= s_len base /\ r' = at_off base k'.

(* putting one more header `it` in front of what the rest of the loop produces *)
Lemma loop_cons base x x1 L k nh it K nh1 x' nh' r' :
  holds x L -> slot_get x K = None ->
  (forall j, slot_get x1 j = if slot_eq_dec j K then Some (ext_item_slice it) else slot_get x j) ->
  item_slot (is_some (x_route x)) it = K ->
  routed_after (is_some (x_route x)) it = is_some (x_route x1) ->
  item_kind it = nh -> item_wf it ->
  subU base k (s_len (ext_item_slice it)) = Ok (ext_item_slice it) ->
  rdU (ext_item_slice it) 0 = Ok nh1 ->
  (forall L1, holds x1 L1 -> loop_post base x1 L1 (k + s_len (ext_item_slice it)) nh1 x' nh' r') ->
  loop_post base x L k nh x' nh' r'.
Proof.
  intros Hh Hn Hx1 Hslot Hrt Hkind Hwf Hsub Hrd IH.
  destruct (IH _ (holds_put x x1 L K _ Hh Hn Hx1)) as (l1 & k' & H1 & H2 & H3 & H4).
  exists (it :: l1), k'. cbn [keyed chain]. rewrite Hslot, Hrt.
  split; [now rewrite <- app_assoc in H1|]. split; [|auto].
  repeat split; auto. exists nh1. auto.
Qed.

Lemma loop_stop base x L k nh : k <= s_len base -> holds x L ->
  loop_post base x L k nh x nh (at_off base k).
Proof.
  intros Hk Hh. exists [], k. cbn [keyed chain]. rewrite app_nil_r. split; [exact Hh|]. repeat split; auto.
Qed.

Ltac cons_with H it K nh1 :=
  match type of H with
  | Ipv6Extensions.loop _ _ ?x1 _ _ = _ => apply (loop_cons _ _ x1 _ _ _ it K nh1)
  end.

Lemma loop_slots fuel : forall base x rest nh k x' nh' r' L,
  Ipv6Extensions.loop fuel base x rest nh = Ok (x', nh', r') ->
  k <= s_len base -> rest = at_off base k ->
  holds x L -> (x_route x = None -> x_fdest x = None) ->
  loop_post base x L k nh x' nh' r'.
Proof.
  induction fuel as [|f IH]; intros base x rest nh k x' nh' r' L H Hk Hr Hh Hfd; [discriminate|].
  cbn [Ipv6Extensions.loop] in H.
  destruct (nh =? IPN_HOP_BY_HOP) eqn:E0; [discriminate|].
  destruct (nh =? IPN_DEST_OPTIONS) eqn:E60.
  { apply N.eqb_eq in E60.
    destruct (x_route x) as [rt|] eqn:Ert.
    - destruct (x_fdest x) as [fd|] eqn:Efd; cbn [is_some] in H.
      + injection H as <- <- <-. subst rest. now apply loop_stop.
      + binv H r Er. destruct r as ((h, rest1), nh1).
        destruct (raw_step_inv base k rest h rest1 nh1 Er Hr Hk) as (Wf & Hs & Hn & Hr1 & Hk1).
        cons_with H (XDestinationOptions h) SFdest nh1; auto.
        * intros j. destruct j; cbn; congruence.
        * cbn. now rewrite Ert.
        * cbn. now rewrite Ert.
        * intros L1 HL1. cbn [ext_item_slice].
          apply (IH base _ rest1 nh1 (k + s_len h) x' nh' r' L1 H); auto.
          cbn. intros X; discriminate X.
    - destruct (x_dest x) as [d|] eqn:Ed; cbn [is_some] in H.
      + injection H as <- <- <-. subst rest. now apply loop_stop.
      + binv H r Er. destruct r as ((h, rest1), nh1).
        destruct (raw_step_inv base k rest h rest1 nh1 Er Hr Hk) as (Wf & Hs & Hn & Hr1 & Hk1).
        cons_with H (XDestinationOptions h) SDest nh1; auto.
        * intros j. destruct j; cbn; congruence.
        * cbn. now rewrite Ert.
        * cbn. now rewrite Ert.
        * intros L1 HL1. cbn [ext_item_slice].
          apply (IH base _ rest1 nh1 (k + s_len h) x' nh' r' L1 H); auto. }
  destruct (nh =? IPN_ROUTE) eqn:E43.
  { apply N.eqb_eq in E43.
    destruct (x_route x) as [rt|] eqn:Ert; cbn [is_some] in H.
    - injection H as <- <- <-. subst rest. now apply loop_stop.
    - binv H r Er. destruct r as ((h, rest1), nh1).
      destruct (raw_step_inv base k rest h rest1 nh1 Er Hr Hk) as (Wf & Hs & Hn & Hr1 & Hk1).
      pose proof (Hfd eq_refl) as Fd.
      cons_with H (XRouting h) SRoute nh1; auto.
      + intros j. destruct j; cbn; congruence.
      + intros L1 HL1. cbn [ext_item_slice].
        apply (IH base _ rest1 nh1 (k + s_len h) x' nh' r' L1 H); auto. }
  destruct (nh =? IPN_FRAG) eqn:E44.
  { apply N.eqb_eq in E44.
    destruct (x_frag x) as [fg|] eqn:Efg; cbn [is_some] in H.
    - injection H as <- <- <-. subst rest. now apply loop_stop.
    - binv H off Eoff. binv H sl Esl. apply map_len_err_inv in Esl.
      binv H rest1 Er. binv H nh1 Enh. unfold Ipv6FragmentHeaderSlice.next_header in Enh.
      destruct (frag_step_inv base k rest sl rest1 Esl Er Hr Hk) as (Wf & Hs & Hr1 & Hk1).
      cons_with H (XFragment sl) SFrag nh1; auto.
      + intros j. destruct j; cbn; congruence.
      + intros L1 HL1. cbn [ext_item_slice].
        apply (IH base _ rest1 nh1 (k + s_len sl) x' nh' r' L1 H); auto. }
  destruct (nh =? IPN_AUTH) eqn:E51.
  { apply N.eqb_eq in E51.
    destruct (x_auth x) as [au|] eqn:Eau; cbn [is_some] in H.
    - injection H as <- <- <-. subst rest. now apply loop_stop.
    - binv H off Eoff. binv H sl Esl.
      assert (Esl' : IpAuthHeaderSlice.from_slice rest = Ok sl).
      { destruct (IpAuthHeaderSlice.from_slice rest) as [a|[e|c]|b]; try discriminate; exact Esl. }
      binv H rest1 Er. binv H nh1 Enh. unfold IpAuthHeaderSlice.next_header in Enh.
      binv H h Eh. apply auth_to_header_id in Eh. subst h.
      destruct (auth_step_inv base k rest sl rest1 Esl' Er Hr Hk) as (Wf & Hs & Hr1 & Hk1).
      cons_with H (XAuthentication sl) SAuth nh1; auto.
      + intros j. destruct j; cbn; congruence.
      + intros L1 HL1. cbn [ext_item_slice].
        apply (IH base _ rest1 nh1 (k + s_len sl) x' nh' r' L1 H); auto. }
  injection H as <- <- <-. subst rest. now apply loop_stop.
Qed.

Lemma holds_empty : holds exts6_empty [].
Proof.
  split; [constructor|]. intros k s. cbn [In]. destruct k; cbn; split; intros H; try discriminate H; destruct H.
Qed.

Theorem from_slice_slots nh0 hp x nh' r :
  Ipv6Extensions.from_slice nh0 hp = Ok (x, nh', r) ->
  exists l k', slots_hold x l /\ chain hp 0 nh0 l k' nh' /\ k' <= s_len hp /\ r = at_off hp k'.
Proof.
  unfold Ipv6Extensions.from_slice. intros H. binv H st Est. destruct st as ((x0, rest0), nhx).
  destruct (IPN_HOP_BY_HOP =? nh0) eqn:Eh.
  - apply N.eqb_eq in Eh.
    binv Est sl Esl. binv Est rest1 Er. binv Est nh1 Enh. binv Est h Ehd. injection Est as <- <- <-.
    apply raw_to_header_id in Ehd. subst h. unfold Ipv6RawExtHeaderSlice.next_header in Enh.
    destruct (raw_inv _ _ Esl) as (b & _ & Hsl & _).
    pose proof (raw_wf _ _ Esl) as (Wsl & _).
    destruct (step_geom hp 0 hp sl rest1 _ (eq_sym (at_off_0 hp)) ltac:(lia) Hsl Er) as (G1 & G2 & G3 & G4).
    rewrite <- G2 in G3, G4. rewrite N.add_0_l in G3, G4.
    assert (Hh : holds (mkExts6 (Some sl) None None None None None) [(SHbh, sl)]).
    { apply (holds_put exts6_empty _ [] SHbh sl holds_empty eq_refl). intros j. destruct j; cbn; congruence. }
    destruct (loop_slots _ hp _ rest1 nh1 (s_len sl) x nh' r _ H G4 G3 Hh ltac:(reflexivity))
      as (l1 & k' & H1 & H2 & H3 & H4).
    exists (XHopByHop sl :: l1), k'. unfold slots_hold. cbn [keyed chain item_slot routed_after ext_item_slice].
    split; [exact H1|]. split; [|auto]. rewrite N.add_0_l.
    repeat split; auto. exists nh1. auto.
  - injection Est as <- <- <-.
    destruct (loop_slots _ hp _ hp nh0 0 x nh' r [] H ltac:(lia) (eq_sym (at_off_0 hp)) holds_empty ltac:(reflexivity))
      as (l1 & k' & H1 & H2 & H3 & H4).
    exists l1, k'. auto.
Qed.

(* ---- the iterator of Ipv6ExtensionsSlice walks a chain --------------------------------- *)
Lemma arm_at I k nh s nx mk nhf wrap :
  k + s_len s <= s_len I -> mk (at_off I k) = Ok s -> nhf s = Ok nx ->
  arm (mkExtIter nh (at_off I k)) mk nhf wrap =
    Ok (Some (wrap s, mkExtIter nx (at_off I (k + s_len s)))).
Proof.
  intros Hl Hmk Hnh. unfold arm. cbn [xi_rest]. rewrite Hmk. cbn [bind].
  rewrite at_off_len. rewrite subN_ok by lia. cbn [bind].
  replace (s_len I - k - s_len s) with (s_len (at_off I k) - s_len s) by (rewrite at_off_len; lia).
  rewrite subU_rest by (rewrite at_off_len; lia). cbn [bind]. rewrite Hnh. cbn [bind].
  change (fst (at_off I k) + s_len s, drop (s_len s) (snd (at_off I k))) with (at_off (at_off I k) (s_len s)).
  now rewrite at_off_at_off.
Qed.

Lemma next_item I k nh it nx :
  item_kind it = nh -> item_wf it ->
  subU I k (s_len (ext_item_slice it)) = Ok (ext_item_slice it) ->
  rdU (ext_item_slice it) 0 = Ok nx ->
  next (mkExtIter nh (at_off I k)) =
    Ok (Some (it, mkExtIter nx (at_off I (k + s_len (ext_item_slice it))))).
Proof.
  intros Hk Wf Hs Hn. pose proof (item_wf_len it Wf) as L8.
  pose proof (subU_inv _ _ _ _ Hs) as (Hl & _ & _ & _).
  assert (Kl : k <= s_len I) by lia.
  unfold next. cbn [xi_rest xi_next_header]. rewrite at_off_len.
  destruct (s_len I - k =? 0) eqn:Z; [lia|]. subst nh.
  destruct it as [s|s|s|s|s]; cbn [item_kind ext_item_slice item_wf] in *.
  - change (IPN_HOP_BY_HOP =? IPN_HOP_BY_HOP) with true. cbv iota.
    destruct Wf as (b & E1 & Lb).
    apply arm_at; auto. unfold Ipv6RawExtHeaderA.from_slice_unchecked.
    rewrite at_off_rd. rewrite <- (subU_rd I k _ s 1 Hs) by lia. rewrite E1. cbn [bind].
    rewrite at_off_subU, N.add_0_r by exact Kl. now rewrite <- Lb.
  - change (IPN_ROUTE =? IPN_HOP_BY_HOP) with false. change (IPN_ROUTE =? IPN_ROUTE) with true. cbv iota.
    destruct Wf as (b & E1 & Lb).
    apply arm_at; auto. unfold Ipv6RawExtHeaderA.from_slice_unchecked.
    rewrite at_off_rd. rewrite <- (subU_rd I k _ s 1 Hs) by lia. rewrite E1. cbn [bind].
    rewrite at_off_subU, N.add_0_r by exact Kl. now rewrite <- Lb.
  - change (IPN_FRAG =? IPN_HOP_BY_HOP) with false. change (IPN_FRAG =? IPN_ROUTE) with false.
    change (IPN_FRAG =? IPN_DEST_OPTIONS) with false. change (IPN_FRAG =? IPN_FRAG) with true. cbv iota.
    unfold wf_frag in Wf.
    apply arm_at; auto. unfold Ipv6FragmentHeaderA.from_slice_unchecked.
    rewrite at_off_subU, N.add_0_r by exact Kl. now rewrite <- Wf.
  - change (IPN_DEST_OPTIONS =? IPN_HOP_BY_HOP) with false. change (IPN_DEST_OPTIONS =? IPN_ROUTE) with false.
    change (IPN_DEST_OPTIONS =? IPN_DEST_OPTIONS) with true. cbv iota.
    destruct Wf as (b & E1 & Lb).
    apply arm_at; auto. unfold Ipv6RawExtHeaderA.from_slice_unchecked.
    rewrite at_off_rd. rewrite <- (subU_rd I k _ s 1 Hs) by lia. rewrite E1. cbn [bind].
    rewrite at_off_subU, N.add_0_r by exact Kl. now rewrite <- Lb.
  - change (IPN_AUTH =? IPN_HOP_BY_HOP) with false. change (IPN_AUTH =? IPN_ROUTE) with false.
    change (IPN_AUTH =? IPN_DEST_OPTIONS) with false. change (IPN_AUTH =? IPN_FRAG) with false.
    change (IPN_AUTH =? IPN_AUTH) with true. cbv iota.
    destruct Wf as (p & E1 & P1 & Lp).
    apply arm_at; auto. unfold auth_from_slice_unchecked.
    rewrite at_off_rd. rewrite <- (subU_rd I k _ s 1 Hs) by lia. rewrite E1. cbn [bind].
    rewrite at_off_subU, N.add_0_r by exact Kl. now rewrite <- Lp.
Qed.

Theorem collect_chain I : forall l k nh nh' fuel,
  chain I k nh l (s_len I) nh' -> k <= s_len I -> (length l < fuel)%nat ->
  collect fuel (mkExtIter nh (at_off I k)) = Ok l.
Proof.
  induction l as [|it r IH]; intros k nh nh' fuel C Hk Hf; (destruct fuel as [|f]; [cbn in Hf; lia|]);
    cbn [chain] in C; cbn [collect].
  - destruct C as (E & _). rewrite next_empty by (rewrite at_off_len; lia). reflexivity.
  - destruct C as (Hkind & Wf & Hs & nx & Hn & C).
    rewrite (next_item I k nh it nx Hkind Wf Hs Hn). cbn [bind].
    pose proof (subU_inv _ _ _ _ Hs) as (Hl & _ & _ & _).
    rewrite (IH _ nx nh' f C) by (cbn in Hf; lia). reflexivity.
Qed.

(* ---- struct slots = the items of the (cut) slicing result, at the extension layer ------- *)
Definition ext_rel6 (nh0 : N) (x : exts6) (xs : ipv6_exts_slice) : Prop :=
  exists l nh', items xs = Ok l /\ slots_hold x l /\
    chain (x6_slice xs) 0 nh0 l (s_len (x6_slice xs)) nh' /\ s_len (x6_slice xs) = exts6_len x.

Lemma chain_nil_any W k nh l nh' nhx : chain W k nh l k nh' -> l = [] /\ chain W k nhx [] k nhx.
Proof.
  intros C. pose proof (chain_le _ _ _ _ _ _ C) as L.
  destruct l as [|it r]; [split; [reflexivity|cbn; auto]|]. rewrite len_cons in L. lia.
Qed.

Theorem exts_slots nh0 hp x nh' r xs nh'' r' : bytes_ok (snd hp) ->
  Ipv6Extensions.from_slice nh0 hp = Ok (x, nh', r) ->
  Cut.exts_from_slice true nh0 hp = Ok (xs, nh'', r') ->
  ext_rel6 nh0 x xs /\ s_off (x6_slice xs) = s_off hp.
Proof.
  intros Hok Hh Hs. pose proof (exts_agree nh0 hp Hok) as A. rewrite Hh, Hs in A.
  destruct A as (-> & -> & _ & Win & _ & _).
  destruct (from_slice_slots _ _ _ _ _ Hh) as (l & k' & S1 & S2 & S3 & S4).
  unfold Cut.exts_from_slice in Hs. binv Hs st Est. destruct st as (rest0, nh00).
  binv Hs w Ew. destruct w as ((restf, nxf), frf).
  binv Hs used Eu. apply subN_inv in Eu. destruct Eu as (Lr & ->).
  binv Hs sl Esl. destruct (s_len hp - s_len restf <=? s_len hp) eqn:Eus; [|discriminate]. injection Esl as <-.
  injection Hs as <- _ <-. cbn [x6_slice x6_first] in *.
  subst restf.
  assert (Eused : s_len hp - s_len (at_off hp k') = k') by (rewrite at_off_len; lia).
  rewrite Eused in *.
  set (I := (fst hp, take k' (snd hp))) in *.
  assert (PI : pre k' I hp) by (apply pre_take; lia).
  pose proof (pre_len _ _ _ PI) as LI.
  assert (Hlen : k' = exts6_len x) by (unfold win_of in Win; rewrite LI in Win; now injection Win).
  split; [|reflexivity].
  pose proof (chain_pre k' I hp PI _ _ _ _ _ S2 ltac:(lia)) as C. rewrite <- LI in C.
  unfold ext_rel6. cbn [x6_slice]. exists l, nh'. split; [|split; [exact S1|split; [exact C|now rewrite LI]]].
  unfold items, into_iter. cbn [x6_slice x6_first]. rewrite <- (at_off_0 I) at 2.
  rewrite at_off_len.
  pose proof (chain_le _ _ _ _ _ _ C) as Ll.
  assert (Hfuel : (length l < S (length (snd I)))%nat).
  { rewrite s_len_length. unfold len in Ll. lia. }
  destruct (s_len hp - k' =? s_len hp) eqn:Ez; cbn [negb].
  - assert (Z : k' = 0) by lia. rewrite LI, Z in C.
    destruct (chain_nil_any _ _ _ _ _ IPN_UDP C) as (-> & C0).
    apply (collect_chain I [] 0 IPN_UDP IPN_UDP); auto; try lia. rewrite LI, Z. exact C0.
  - apply (collect_chain I l 0 nh0 nh'); auto. lia.
Qed.
