(* Parse/LaxProofs.v -- the lax slicing model against the strict slicing model,
   function by function (both are built from the same header slicers, so the
   relation is proved by walking through the two texts side by side; no byte
   level reasoning is needed for these lemmas):
     strict accepts            ->  lax returns the embedded strict result, no stop error
     strict rejects (per layer)->  lax returns Err only for the first header, otherwise the
                                   fault is a documented length fallback or it is recorded
                                   unchanged as stop error with a fitting layer tag *)
From EP Require Import Base.Bytes Parse.Types Parse.Slices Parse.Cursor Parse.View Parse.Repr
  Parse.LaxSlices Parse.LaxCursor Parse.LaxView.
From Coq Require Import ZArith Lia ZifyN ZifyBool.
Import SlicedPacketCursor.
Local Open Scope N_scope.

(* ---- embedding of strict results into lax results -------------------------- *)
Definition lax_of_ep (e : ether_payload) : lax_ether_payload :=
  mkLaxEp false (ep_ether_type e) (ep_src e) (ep_slice e).
Definition lax_of_ipp (p : ip_payload) : lax_ip_payload :=
  mkLaxIpp false (ipp_number p) (ipp_fragmented p) (ipp_src p) (ipp_slice p).
Definition lax_of_macsec (m : macsec_slice) : lax_macsec_slice :=
  mkLaxMacsec (ms_header m)
    (match ms_payload m with
     | MpUnmodified e => LMpUnmodified (lax_of_ep e)
     | MpModified s => LMpModified false s
     end).
Definition lax_of_v4 (v : ipv4_slice) : lax_ipv4_slice :=
  mkLaxIpv4 (v4_header v) (v4_auth v) (lax_of_ipp (v4_payload v)).
Definition lax_of_v6 (v : ipv6_slice) : lax_ipv6_slice :=
  mkLaxIpv6 (v6_header v) (v6_exts v) (lax_of_ipp (v6_payload v)).
Definition lax_of_ip (i : ip_slice) : lax_ip_slice :=
  match i with IpV4 v => LIpV4 (lax_of_v4 v) | IpV6 v => LIpV6 (lax_of_v6 v) end.
Definition lax_of_ext (x : link_ext_slice) : lax_link_ext_slice :=
  match x with LeVlan s => LLeVlan s | LeMacsec m => LLeMacsec (lax_of_macsec m) end.
Definition lax_of_net (n : net_slice) : lax_net_slice :=
  match n with
  | NtIpv4 v => LNtIpv4 (lax_of_v4 v)
  | NtIpv6 v => LNtIpv6 (lax_of_v6 v)
  | NtArp s => LNtArp s
  end.
Definition lax_of_packet (p : sliced_packet) : lax_sliced_packet :=
  mkLaxSliced (sp_link p) (map lax_of_ext (sp_exts p)) (option_map lax_of_net (sp_net p))
              (sp_transport p) None.

(* the observer sees the strict result, no stop error, nothing incomplete *)
Lemma strictify_lax_of p : strictify (lview (lax_of_packet p)) = view p.
Proof.
  destruct p as [l x n t]. unfold strictify, lview, lax_of_packet, view. cbn.
  f_equal.
  - rewrite !map_map. apply map_ext. intros [s|[h [e|s]]]; reflexivity.
  - destruct n as [[v|v|s]|]; reflexivity.
Qed.

Lemma complete_lax_of p : all_complete (lview (lax_of_packet p)) = true.
Proof.
  destruct p as [l x n t]. unfold all_complete, lview, lax_of_packet. cbn.
  apply andb_true_intro. split.
  - rewrite forallb_forall. intros y Hy. rewrite !map_map in Hy. apply in_map_iff in Hy.
    destruct Hy as ([s|[h [e|s]]] & <- & _); reflexivity.
  - destruct n as [[v|v|s]|]; reflexivity.
Qed.

(* ---- same fault ------------------------------------------------------------- *)
Definition len_same (a b : len_error) : Prop :=
  le_required a = le_required b /\ le_len a = le_len b /\ le_layer a = le_layer b /\
  le_off a = le_off b /\ (le_src a = le_src b \/ le_src a = LsSlice).
Definition same_fault (e e' : slice_error) : Prop :=
  match e, e' with
  | ELen a, ELen b => len_same a b
  | EContent a, EContent b => a = b
  | _, _ => False
  end.
Lemma len_same_refl a : len_same a a.
Proof. unfold len_same. intuition. Qed.
Lemma same_fault_refl e : same_fault e e.
Proof. destruct e; cbn; [apply len_same_refl|reflexivity]. Qed.

(* ---- the unchecked primitives never return Err ------------------------------ *)
Lemma rdU_not_err s i e : rdU s i = Err e -> False.
Proof. unfold rdU. destruct (rd (snd s) i); discriminate. Qed.
Lemma rd16_not_err s i e : rd16 s i = Err e -> False.
Proof.
  unfold rd16. destruct (rdU s i) eqn:A; cbn [bind]; try discriminate.
  - destruct (rdU s (i + 1)) eqn:B; cbn [bind]; try discriminate.
    intros H. injection H as ->. eapply rdU_not_err; eauto.
  - intros H. injection H as ->. eapply rdU_not_err; eauto.
Qed.
Lemma subU_not_err s k n e : subU s k n = Err e -> False.
Proof. unfold subU. destruct (k + n <=? s_len s); discriminate. Qed.
Lemma subN_not_err a b e : subN a b = Err e -> False.
Proof. unfold subN. destruct (b <=? a); discriminate. Qed.

Ltac prim_err :=
  match goal with
  | H : rdU _ _ = Err _ |- _ => exfalso; exact (rdU_not_err _ _ _ H)
  | H : rd16 _ _ = Err _ |- _ => exfalso; exact (rd16_not_err _ _ _ H)
  | H : subU _ _ _ = Err _ |- _ => exfalso; exact (subU_not_err _ _ _ _ H)
  | H : subN _ _ = Err _ |- _ => exfalso; exact (subN_not_err _ _ _ H)
  end.

(* destruct a primitive call: the Err case is impossible, the Bug case is closed by `tac` *)
Ltac dprim X v E := destruct X as [v|?e|?b] eqn:E; cbn [bind]; [|prim_err|first [exact I|discriminate|idtac]].

(* ---- sub-slices ------------------------------------------------------------- *)
Lemma subU_inv s k n s' : subU s k n = Ok s' ->
  k + n <= s_len s /\ s' = (fst s + k, take n (drop k (snd s))).
Proof.
  unfold subU. destruct (k + n <=? s_len s) eqn:E; [|discriminate].
  intros H. injection H as <-. split; [lia|reflexivity].
Qed.

Lemma subU_len s k n s' : subU s k n = Ok s' -> s_len s' = n.
Proof.
  intros H. apply subU_inv in H. destruct H as (H & ->).
  unfold s_len in *. cbn [snd]. rewrite len_take, len_drop. lia.
Qed.

Lemma subU_off s k n s' : subU s k n = Ok s' -> s_off s' = s_off s + k.
Proof. intros H. apply subU_inv in H. destruct H as (_ & ->). reflexivity. Qed.

Lemma subN_inv a b r : subN a b = Ok r -> b <= a /\ r = a - b.
Proof. unfold subN. destruct (b <=? a) eqn:E; [|discriminate]. intros H. injection H as <-. split; [lia|reflexivity]. Qed.

Lemma subN_ok_lax a b : b <= a -> subN a b = Ok (a - b).
Proof. intros H. unfold subN. destruct (b <=? a) eqn:E; [reflexivity|lia]. Qed.

(* ---- UDP ------------------------------------------------------------------- *)
Definition udp_fallback (e : len_error) : Prop :=
  le_layer e = LyUdpPayload \/ (le_layer e = LyUdpHeader /\ le_src e = LsUdpHeaderLen).

Lemma udp_header_shape s c : UdpSlice.header_from_slice s = Err (EContent c) -> False.
Proof.
  unfold UdpSlice.header_from_slice, lerr. destruct (s_len s <? 8); [discriminate|].
  intros H. prim_err.
Qed.

Lemma udp_lax_of_strict s :
  match UdpSlice.from_slice s with
  | Ok u => UdpSlice.from_slice_lax s = Ok u
  | Err (ELen e) =>
      (UdpSlice.header_from_slice s = Err (ELen e) /\ UdpSlice.from_slice_lax s = Err (ELen e)) \/
      (udp_fallback e /\ exists h, UdpSlice.header_from_slice s = Ok h /\ UdpSlice.from_slice_lax s = Ok s)
  | Err (EContent _) => False
  | Bug b => True
  end.
Proof.
  unfold UdpSlice.from_slice, UdpSlice.from_slice_lax.
  destruct (UdpSlice.header_from_slice s) as [h|[e|c]|b] eqn:Eh; cbn [bind];
    [|left; split; reflexivity|exact (udp_header_shape _ _ Eh)|exact I].
  unfold UdpSlice.length. dprim (rd16 h 4) l El.
  destruct (s_len s <? l) eqn:E1; cbn [orb].
  { right. split; [left; reflexivity|]. eauto. }
  destruct (l =? 0) eqn:E0.
  { assert ((l <? 8) = true) as -> by lia. reflexivity. }
  destruct (l <? 8) eqn:E8.
  { right. split; [right; split; reflexivity|]. eauto. }
  dprim (subU s 0 l) u Eu. reflexivity.
Qed.

(* which layer tag a stop error may carry for a given fault *)
Definition tag_ok (e : slice_error) (ly : layer) : Prop :=
  match e with
  | ELen l =>
      match le_layer l with
      | LyVlanHeader => ly = LyVlanHeader
      | LyMacsecHeader => ly = LyMacsecHeader
      | LyArp => ly = LyArp
      | LyIpHeader | LyIpv4Header | LyIpv6Header => ly = LyIpHeader
      | LyIpAuthHeader => ly = LyIpAuthHeader
      | LyIpv6FragHeader => ly = LyIpv6FragHeader
      | LyIpv6ExtHeader =>
          ly = LyIpv6HopByHopHeader \/ ly = LyIpv6DestOptionsHeader \/ ly = LyIpv6RouteHeader
      | LyUdpHeader => ly = LyUdpHeader
      | LyTcpHeader => ly = LyTcpHeader
      | LyIcmpv4 | LyIcmpv4Timestamp | LyIcmpv4TimestampReply => ly = LyIcmpv4
      | LyIcmpv6 => ly = LyIcmpv6
      | _ => False
      end
  | EContent c =>
      match c with
      | CeMacsecVersion | CeMacsecUnmodifiedShortLen => ly = LyMacsecHeader
      | CeIpUnsupportedVersion _ | CeIpIhl _ | CeIpv4Version _ | CeIpv4Ihl _ | CeIpv6Version _ =>
          ly = LyIpHeader
      | CeAuthZeroPayloadLen | CeIpv6AuthZeroPayloadLen => ly = LyIpAuthHeader
      | CeHopByHopNotAtStart => ly = LyIpv6HopByHopHeader
      | CeTcpDataOffset _ => ly = LyTcpHeader
      | _ => False
      end
  end.

Definition recorded (lr r' : lax_sliced_packet) (e : slice_error) : Prop :=
  exists e' ly, r' = LaxSlicedPacketCursor.with_stop lr (e', ly) /\ same_fault e e' /\ tag_ok e' ly.

Lemma fix_len_eq l off src csrc :
  csrc = src ->
  LaxSlicedPacketCursor.fix_len l off src =
  (let e1 := le_add_offset l off in
   match le_src e1 with LsSlice => le_set_src e1 csrc | _ => e1 end).
Proof. intros ->. unfold LaxSlicedPacketCursor.fix_len. cbn. destruct (le_src l); reflexivity. Qed.

Section Transport.
  Variables (c : cursor) (lc : lax_cursor) (p : ip_payload).
  Hypothesis Hoff : lc_offset lc = c_offset c.
  Hypothesis Hsrc : c_src c = ipp_src p.
  Hypothesis Hstop : lsp_stop_err (lc_result lc) = None.
  Hypothesis Hres : lc_result lc = lax_of_packet (c_result c).

  Lemma lax_set_transport t :
    LaxSlicedPacketCursor.with_transport (lc_result lc) t = lax_of_packet (set_transport c t).
  Proof. rewrite Hres. reflexivity. Qed.

  Ltac fin_err :=
    cbn [map_len_err bind]; eexists; split; [reflexivity|]; right;
    eexists _, _; split; [reflexivity|];
    unfold tr_fix, LaxSlicedPacketCursor.fix_len; cbn; rewrite ?Hoff, ?Hsrc;
    split; [unfold len_same; cbn; intuition|cbn; auto].

  Lemma transport_sim :
    match transport_dispatch c p with
    | Ok r => LaxSlicedPacketCursor.slice_transport lc (lax_of_ipp p) = Ok (lax_of_packet r)
    | Err e =>
        exists r', LaxSlicedPacketCursor.slice_transport lc (lax_of_ipp p) = Ok r' /\
                   ((exists l, e = ELen l /\ udp_fallback l) \/ recorded (lc_result lc) r' e)
    | Bug _ => True
    end.
  Proof.
    unfold transport_dispatch, LaxSlicedPacketCursor.slice_transport, LaxSlicedPacketCursor.has_stop.
    rewrite Hstop. cbn [lax_of_ipp lipp_fragmented lipp_number lipp_slice lipp_src].
    destruct (ipp_fragmented p); cbn [orb]; [rewrite Hres; reflexivity|].
    destruct (ipp_number p =? IPN_ICMP).
    { unfold slice_icmp4, Icmpv4Slice.from_slice, lerr.
      destruct (s_len (ipp_slice p) <? 8); [fin_err|].
      dprim (rdU (ipp_slice p) 0) t0 E0. dprim (rdU (ipp_slice p) 1) t1 E1.
      destruct ((t0 =? 13) && (0 =? t1) && negb (20 =? s_len (ipp_slice p))); [fin_err|].
      destruct ((t0 =? 14) && (0 =? t1) && negb (20 =? s_len (ipp_slice p))); [fin_err|].
      cbn [map_len_err bind]. now rewrite lax_set_transport. }
    destruct (ipp_number p =? IPN_UDP).
    { unfold slice_udp. pose proof (udp_lax_of_strict (ipp_slice p)) as U.
      destruct (UdpSlice.from_slice (ipp_slice p)) as [u|[e|ce]|b]; cbn [map_len_err bind]; [| |contradiction|exact I].
      - rewrite U. now rewrite lax_set_transport.
      - destruct U as [(Uh & ->)|(Uf & h & Uh & ->)].
        + unfold UdpSlice.header_from_slice, lerr in Uh.
          destruct (s_len (ipp_slice p) <? 8); [|exfalso; prim_err].
          injection Uh as <-. fin_err.
        + eexists. split; [reflexivity|]. left. exists (tr_fix c e). split; [reflexivity|].
          unfold udp_fallback, tr_fix in *. cbn. destruct Uf as [Uf|(Uf1 & Uf2)].
          * left. destruct (le_src e); exact Uf.
          * right. rewrite Uf2. cbn. auto. }
    destruct (ipp_number p =? IPN_TCP).
    { unfold slice_tcp, TcpSlice.from_slice, lerr.
      destruct (s_len (ipp_slice p) <? 20); [fin_err|].
      dprim (rdU (ipp_slice p) 12) b12 E12.
      destruct (N.shiftr (N.land b12 240) 2 <? 20); [fin_err|].
      destruct (s_len (ipp_slice p) <? N.shiftr (N.land b12 240) 2); [fin_err|].
      cbn [map_len_err bind fst snd]. now rewrite lax_set_transport. }
    destruct (ipp_number p =? IPN_ICMPV6).
    { unfold slice_icmp6, Icmpv6Slice.from_slice, lerr.
      destruct (s_len (ipp_slice p) <? 8); [fin_err|].
      destruct (Icmpv6Slice.MAX_LEN <? s_len (ipp_slice p)); [fin_err|].
      cbn [map_len_err bind]. now rewrite lax_set_transport. }
    rewrite Hres. reflexivity.
  Qed.
End Transport.

(* ---- IPv4 ------------------------------------------------------------------- *)
Definition auth_fault (e : slice_error) : Prop :=
  match e with
  | ELen l => le_layer l = LyIpAuthHeader
  | EContent c => c = CeAuthZeroPayloadLen
  end.

Lemma v4_finish_not_err header hp src inc e :
  LaxIpv4Slice.finish header hp src inc = Err e -> False.
Proof.
  unfold LaxIpv4Slice.finish.
  unfold Ipv4HeaderSlice.is_fragmenting_payload, Ipv4HeaderSlice.more_fragments,
    Ipv4HeaderSlice.fragments_offset, Ipv4HeaderSlice.protocol.
  dprim (rdU header 6) b6 E6. dprim (rdU header 7) b7 E7. dprim (rdU header 9) proto E9.
  destruct (proto =? IPN_AUTH); [|discriminate].
  destruct (IpAuthHeaderSlice.from_slice hp) as [auth|ea|b]; [|discriminate|discriminate].
  dprim (subN (s_len hp) (s_len auth)) n En.
  dprim (subU hp (s_len auth) n) payload Ep.
  unfold IpAuthHeaderSlice.next_header. dprim (rdU auth 0) nh Enh. discriminate.
Qed.

Lemma select_payload_not_err s hl tlen e :
  LaxIpv4Slice.select_payload s hl tlen = Err e -> False.
Proof.
  unfold LaxIpv4Slice.select_payload.
  destruct (tlen <? hl).
  { dprim (subN (s_len s) hl) n En. dprim (subU s hl n) p Ep. discriminate. }
  destruct (s_len s <? tlen).
  { dprim (subN (s_len s) hl) n En. dprim (subU s hl n) p Ep. discriminate. }
  dprim (subN tlen hl) n En. dprim (subU s hl n) p Ep. discriminate.
Qed.

Lemma v4_finish_sim header hp :
  match Ipv4Slice.finish header hp with
  | Ok v => LaxIpv4Slice.finish header hp LsIpv4HeaderTotalLen false = Ok (lax_of_v4 v, None)
  | Err e =>
      exists v', LaxIpv4Slice.finish header hp LsIpv4HeaderTotalLen false = Ok (v', Some e) /\
                 auth_fault e
  | Bug _ => True
  end.
Proof.
  unfold Ipv4Slice.finish, LaxIpv4Slice.finish.
  unfold Ipv4HeaderSlice.is_fragmenting_payload, Ipv4HeaderSlice.more_fragments,
    Ipv4HeaderSlice.fragments_offset, Ipv4HeaderSlice.protocol.
  dprim (rdU header 6) b6 E6. dprim (rdU header 7) b7 E7.
  dprim (rdU header 9) proto E9.
  destruct (proto =? IPN_AUTH); [|reflexivity].
  unfold IpAuthHeaderSlice.from_slice, lerr.
  destruct (s_len hp <? 12).
  { cbn [bind]. eexists. split; [reflexivity|]. reflexivity. }
  dprim (rdU hp 1) pl E1.
  destruct (pl <? 1).
  { cbn [bind]. eexists. split; [reflexivity|]. reflexivity. }
  destruct (s_len hp <? (pl + 2) * 4).
  { cbn [bind]. eexists. split; [reflexivity|]. reflexivity. }
  dprim (subU hp 0 ((pl + 2) * 4)) auth Ea.
  dprim (subN (s_len hp) (s_len auth)) n En.
  dprim (subU hp (s_len auth) n) payload Ep.
  unfold IpAuthHeaderSlice.next_header. dprim (rdU auth 0) nh Enh.
  reflexivity.
Qed.

Definition v4_len_fallback (e : slice_error) : Prop :=
  exists l, e = ELen l /\ le_layer l = LyIpv4Packet.

Lemma ipv4_sim s :
  match Ipv4Slice.from_slice s, LaxIpv4Slice.from_slice s with
  | Ok v, l => l = Ok (lax_of_v4 v, None)
  | Err e, Ok (v', st) =>
      (exists h, Ipv4HeaderSlice.from_slice s = Ok h) /\
      (v4_len_fallback e \/ (st = Some e /\ auth_fault e))
  | Err e, Err e' => e' = e /\ Ipv4HeaderSlice.from_slice s = Err e
  | Err _, Bug _ => True
  | Bug _, _ => True
  end.
Proof.
  unfold Ipv4Slice.from_slice, LaxIpv4Slice.from_slice.
  destruct (Ipv4HeaderSlice.from_slice s) as [header|e|b] eqn:Eh; cbn [bind];
    [|split; reflexivity|exact I].
  unfold Ipv4HeaderSlice.total_len. dprim (rd16 header 2) tlen Etl.
  assert (FB : forall X req l sr,
     (forall e, X = Err e -> False) ->
     match lerr (A:=ipv4_slice) req l sr LyIpv4Packet, X with
     | Ok v, l => l = Ok (lax_of_v4 v, None)
     | Err e, Ok (v', st) =>
         (exists h : slice, Ok header = Ok h) /\ (v4_len_fallback e \/ st = Some e /\ auth_fault e)
     | Err e, Err e' => e' = e /\ Ok header = Err e
     | Err _, Bug _ | Bug _, _ => True
     end).
  { intros X req l sr NE. unfold lerr. destruct X as [[v' st]|e'|b].
    - split; [eauto|]. left. eexists. split; reflexivity.
    - exfalso. eapply NE. reflexivity.
    - exact I. }
  assert (NE : forall t e, (let* t0 := t in let '(header_payload, src, incomplete) := t0 in
                            LaxIpv4Slice.finish header header_payload src incomplete) = Err e ->
                           (forall e', t = Err e' -> False) -> False).
  { intros t e H Ht. destruct t as [[[hp src] inc]|et|bt]; cbn [bind] in H.
    - eapply v4_finish_not_err; eauto.
    - eapply Ht; reflexivity.
    - discriminate. }
  unfold LaxIpv4Slice.select_payload.
  destruct (tlen <? s_len header) eqn:E1.
  { apply FB. intros e H. eapply NE; [exact H|]. intros e'.
    dprim (subN (s_len s) (s_len header)) n En. dprim (subU s (s_len header) n) p Ep. discriminate. }
  destruct (s_len s <? tlen) eqn:E2.
  { apply FB. intros e H. eapply NE; [exact H|]. intros e'.
    dprim (subN (s_len s) (s_len header)) n En. dprim (subU s (s_len header) n) p Ep. discriminate. }
  dprim (subN tlen (s_len header)) n En.
  dprim (subU s (s_len header) n) hp Ehp.
  pose proof (v4_finish_sim header hp) as F.
  destruct (Ipv4Slice.finish header hp) as [v|e|b].
  - exact F.
  - destruct F as (v' & -> & Fa). split; [eauto|]. right. split; [reflexivity|exact Fa].
  - exact I.
Qed.

(* ---- shapes of the header slicers' errors ------------------------------------ *)
Lemma raw_ext_shape s e :
  Ipv6RawExtHeaderSlice.from_slice s = Err e -> exists l, e = ELen l /\ le_layer l = LyIpv6ExtHeader.
Proof.
  unfold Ipv6RawExtHeaderSlice.from_slice, lerr.
  destruct (s_len s <? 8). { intros H. injection H as <-. eauto. }
  destruct (rd (snd s) 1); cbn [bind]; [|discriminate].
  destruct (s_len s <? (n + 1) * 8). { intros H. injection H as <-. eauto. }
  intros H. prim_err.
Qed.
Lemma frag_shape s e :
  Ipv6FragmentHeaderSlice.from_slice s = Err e -> exists l, e = ELen l /\ le_layer l = LyIpv6FragHeader.
Proof.
  unfold Ipv6FragmentHeaderSlice.from_slice, lerr.
  destruct (s_len s <? 8). { intros H. injection H as <-. eauto. }
  intros H. prim_err.
Qed.
Lemma auth_shape s e :
  IpAuthHeaderSlice.from_slice s = Err e ->
  (exists l, e = ELen l /\ le_layer l = LyIpAuthHeader) \/ e = EContent CeAuthZeroPayloadLen.
Proof.
  unfold IpAuthHeaderSlice.from_slice, lerr.
  destruct (s_len s <? 12). { intros H. injection H as <-. eauto. }
  dprim (rdU s 1) pl E1.
  destruct (pl <? 1). { intros H. injection H as <-. eauto. }
  destruct (s_len s <? (pl + 2) * 4). { intros H. injection H as <-. eauto. }
  intros H. prim_err.
Qed.

(* ---- IPv6 extension chain ------------------------------------------------------ *)
Lemma walk_sim fuel : forall start_len rest nh fr,
  match Ipv6ExtensionsSlice.walk fuel start_len rest nh fr,
        LaxIpv6Exts.walk fuel start_len rest nh fr with
  | Ok w, l => l = Ok (w, None)
  | Err e, Ok (_, st) => exists ly, st = Some (e, ly) /\ tag_ok e ly
  | Err _, Err _ => False
  | _, _ => True
  end.
Proof.
  induction fuel as [|f IH]; intros start_len rest nh fr; [exact I|].
  cbn [Ipv6ExtensionsSlice.walk LaxIpv6Exts.walk].
  destruct (nh =? IPN_HOP_BY_HOP). { eexists. split; reflexivity. }
  destruct ((nh =? IPN_DEST_OPTIONS) || (nh =? IPN_ROUTE)).
  { dprim (subN start_len (s_len rest)) off Eoff.
    destruct (Ipv6RawExtHeaderSlice.from_slice rest) as [sl|e|b] eqn:Es; cbn [map_len_err bind].
      + dprim (subN (s_len rest) (s_len sl)) n En. dprim (subU rest (s_len sl) n) rest' Er.
        unfold Ipv6RawExtHeaderSlice.next_header. dprim (rdU sl 0) nh' Enh. apply IH.
      + destruct (raw_ext_shape _ _ Es) as (l & -> & Hl). cbn [map_len_err bind].
        eexists. split; [reflexivity|]. cbn. rewrite Hl.
        destruct (nh =? IPN_DEST_OPTIONS); auto.
      + exact I.
  }
  destruct (nh =? IPN_FRAG).
  { dprim (subN start_len (s_len rest)) off Eoff.
    destruct (Ipv6FragmentHeaderSlice.from_slice rest) as [sl|e|b] eqn:Es; cbn [map_len_err bind].
      + dprim (subN (s_len rest) (s_len sl)) n En. dprim (subU rest (s_len sl) n) rest' Er.
        unfold Ipv6FragmentHeaderSlice.next_header. dprim (rdU sl 0) nh' Enh.
        unfold Ipv6FragmentHeaderSlice.is_fragmenting_payload, Ipv6FragmentHeaderSlice.more_fragments,
          Ipv6FragmentHeaderSlice.fragment_offset.
        dprim (rdU sl 3) b3 E3. dprim (rdU sl 2) b2 E2. apply IH.
      + destruct (frag_shape _ _ Es) as (l & -> & Hl). cbn [map_len_err bind].
        eexists. split; [reflexivity|]. cbn. rewrite Hl. reflexivity.
      + exact I.
  }
  destruct (nh =? IPN_AUTH).
  { dprim (subN start_len (s_len rest)) off Eoff.
    destruct (IpAuthHeaderSlice.from_slice rest) as [sl|e|b] eqn:Es; cbn [bind].
      + dprim (subN (s_len rest) (s_len sl)) n En. dprim (subU rest (s_len sl) n) rest' Er.
        unfold IpAuthHeaderSlice.next_header. dprim (rdU sl 0) nh' Enh. apply IH.
      + destruct (auth_shape _ _ Es) as [(l & -> & Hl)| ->]; cbn [bind].
        * eexists. split; [reflexivity|]. cbn. rewrite Hl. reflexivity.
        * eexists. split; [reflexivity|]. reflexivity.
      + exact I.
  }
  reflexivity.
Qed.

Lemma lax_walk_not_err fuel : forall start_len rest nh fr e,
  LaxIpv6Exts.walk fuel start_len rest nh fr = Err e -> False.
Proof.
  induction fuel as [|f IH]; intros start_len rest nh fr e; [discriminate|].
  cbn [LaxIpv6Exts.walk].
  destruct (nh =? IPN_HOP_BY_HOP); [discriminate|].
  destruct ((nh =? IPN_DEST_OPTIONS) || (nh =? IPN_ROUTE)).
  { destruct (Ipv6RawExtHeaderSlice.from_slice rest) as [sl|[l|c]|b]; [| |discriminate|discriminate].
    - dprim (subN (s_len rest) (s_len sl)) n En. dprim (subU rest (s_len sl) n) rest' Er.
      unfold Ipv6RawExtHeaderSlice.next_header. dprim (rdU sl 0) nh' Enh. apply IH.
    - dprim (subN start_len (s_len rest)) off Eoff. discriminate. }
  destruct (nh =? IPN_FRAG).
  { destruct (Ipv6FragmentHeaderSlice.from_slice rest) as [sl|[l|c]|b]; [| |discriminate|discriminate].
    - dprim (subN (s_len rest) (s_len sl)) n En. dprim (subU rest (s_len sl) n) rest' Er.
      unfold Ipv6FragmentHeaderSlice.next_header. dprim (rdU sl 0) nh' Enh.
      unfold Ipv6FragmentHeaderSlice.is_fragmenting_payload, Ipv6FragmentHeaderSlice.more_fragments,
        Ipv6FragmentHeaderSlice.fragment_offset.
      dprim (rdU sl 3) b3 E3. dprim (rdU sl 2) b2 E2. apply IH.
    - dprim (subN start_len (s_len rest)) off Eoff. discriminate. }
  destruct (nh =? IPN_AUTH).
  { destruct (IpAuthHeaderSlice.from_slice rest) as [sl|[l|c]|b]; [| |discriminate|discriminate].
    - dprim (subN (s_len rest) (s_len sl)) n En. dprim (subU rest (s_len sl) n) rest' Er.
      unfold IpAuthHeaderSlice.next_header. dprim (rdU sl 0) nh' Enh. apply IH.
    - dprim (subN start_len (s_len rest)) off Eoff. discriminate. }
  discriminate.
Qed.

Lemma lax_exts_not_err nh s e : LaxIpv6Exts.from_slice_lax nh s = Err e -> False.
Proof.
  unfold LaxIpv6Exts.from_slice_lax.
  destruct (IPN_HOP_BY_HOP =? nh).
  - destruct (Ipv6RawExtHeaderSlice.from_slice s) as [sl|[l|c]|b]; cbn [bind]; try discriminate.
    + destruct (s_len sl <=? s_len s); cbn [bind]; [|discriminate].
      unfold Ipv6RawExtHeaderSlice.next_header. dprim (rdU sl 0) nh' Enh.
      destruct (LaxIpv6Exts.walk _ _ _ _ _) as [[[[r n0] f0] er]|e0|b0] eqn:W; cbn [bind];
        [|intros _; eapply lax_walk_not_err; eauto|discriminate].
      dprim (subN (s_len s) (s_len r)) used Eu.
      destruct (used <=? s_len s); cbn [bind]; discriminate.
    + dprim (subN (s_len s) (s_len s)) used Eu.
      destruct (used <=? s_len s); cbn [bind]; discriminate.
  - cbn [bind].
    destruct (LaxIpv6Exts.walk _ _ _ _ _) as [[[[r n0] f0] er]|e0|b0] eqn:W; cbn [bind];
      [|intros _; eapply lax_walk_not_err; eauto|discriminate].
    dprim (subN (s_len s) (s_len r)) used Eu.
    destruct (used <=? s_len s); cbn [bind]; discriminate.
Qed.

Lemma exts_sim nh s :
  match Ipv6ExtensionsSlice.from_slice nh s, LaxIpv6Exts.from_slice_lax nh s with
  | Ok w, l => l = Ok (w, None)
  | Err e, Ok (_, st) => exists ly, st = Some (e, ly) /\ tag_ok e ly
  | Err _, Err _ => False
  | _, _ => True
  end.
Proof.
  unfold Ipv6ExtensionsSlice.from_slice, LaxIpv6Exts.from_slice_lax.
  assert (Tail : forall rest0 nh0,
    match
      (let* w := Ipv6ExtensionsSlice.walk (S (length (snd s))) (s_len s) rest0 nh0 false in
       let '(rest, next_header, fragmented) := w in
       let* used := subN (s_len s) (s_len rest) in
       let* sl := (if used <=? s_len s then Ok (fst s, take used (snd s)) else Bug SITE_INDEX) in
       Ok (mkIpv6Exts (if negb (s_len rest =? s_len s) then Some nh else None) fragmented sl,
           next_header, rest)),
      (let* w := LaxIpv6Exts.walk (S (length (snd s))) (s_len s) rest0 nh0 false in
       let '(rest, next_header, fragmented, error) := w in
       let* used := subN (s_len s) (s_len rest) in
       let* sl := (if used <=? s_len s then Ok (fst s, take used (snd s)) else Bug SITE_INDEX) in
       Ok (mkIpv6Exts (if negb (s_len rest =? s_len s) then Some nh else None) fragmented sl,
           next_header, rest, error))
    with
    | Ok w, l => l = Ok (w, None)
    | Err e, Ok (_, st) => exists ly, st = Some (e, ly) /\ tag_ok e ly
    | Err _, Err _ => False
    | _, _ => True
    end).
  { intros rest0 nh0.
    pose proof (walk_sim (S (length (snd s))) (s_len s) rest0 nh0 false) as W.
    destruct (Ipv6ExtensionsSlice.walk _ _ _ _ _) as [[[r n0] f0]|e|b] eqn:EW.
    - rewrite W. cbn [bind]. dprim (subN (s_len s) (s_len r)) used Eu.
      destruct (used <=? s_len s); cbn [bind]; [reflexivity|exact I].
    - cbn [bind]. destruct (LaxIpv6Exts.walk _ _ _ _ _) as [[[[r n0] f0] er]|e0|b0] eqn:LW; cbn [bind].
      + dprim (subN (s_len s) (s_len r)) used Eu.
        destruct (used <=? s_len s); cbn [bind]; [exact W|exact I].
      + exact W.
      + exact I.
    - exact I. }
  destruct (IPN_HOP_BY_HOP =? nh).
  - destruct (Ipv6RawExtHeaderSlice.from_slice s) as [sl|e|b] eqn:Es; cbn [bind].
    + destruct (s_len sl <=? s_len s); cbn [bind]; [|exact I].
      unfold Ipv6RawExtHeaderSlice.next_header. dprim (rdU sl 0) nh' Enh. apply Tail.
    + destruct (raw_ext_shape _ _ Es) as (l & -> & Hl). cbn [bind].
      dprim (subN (s_len s) (s_len s)) used Eu.
      destruct (used <=? s_len s); cbn [bind]; [|exact I].
      eexists. split; [reflexivity|]. cbn. rewrite Hl. auto.
    + exact I.
  - cbn [bind]. apply Tail.
Qed.

(* ---- IPv6 ------------------------------------------------------------------- *)
Definition strict_v6_tail (header hp : slice) (src : len_source) : res ipv6_slice :=
  let* nh := Ipv6HeaderSlice.next_header header in
  let* x :=
    match Ipv6ExtensionsSlice.from_slice nh hp with
    | Err (ELen e) => Err (ELen (le_add_offset (le_set_src e src) 40))
    | r => r
    end in
  let '(exts, payload_ip_number, payload) := x in
  Ok (mkIpv6Slice header exts (mkIpPayload payload_ip_number (x6_fragmented exts) src payload)).

Definition stop_is (st : option stop_error) (e : slice_error) : Prop :=
  exists ly, st = Some (e, ly) /\ tag_ok e ly.

Lemma v6_finish_not_err header hp src inc e :
  LaxIpv6Slice.finish header hp src inc = Err e -> False.
Proof.
  unfold LaxIpv6Slice.finish, Ipv6HeaderSlice.next_header.
  dprim (rdU header 6) nh Enh.
  destruct (LaxIpv6Exts.from_slice_lax nh hp) as [[[[x n] r] st]|e0|b] eqn:EX; cbn [bind];
    [discriminate|intros _; eapply lax_exts_not_err; eauto|discriminate].
Qed.

Lemma v6_tail_sim header hp src :
  match strict_v6_tail header hp src, LaxIpv6Slice.finish header hp src false with
  | Ok v, l => l = Ok (lax_of_v6 v, None)
  | Err e, Ok (_, st) => stop_is st e
  | Err _, Err _ => False
  | _, _ => True
  end.
Proof.
  unfold strict_v6_tail, LaxIpv6Slice.finish, Ipv6HeaderSlice.next_header.
  dprim (rdU header 6) nh Enh.
  pose proof (exts_sim nh hp) as X.
  destruct (Ipv6ExtensionsSlice.from_slice nh hp) as [[[x n] r]|e|b].
  - rewrite X. reflexivity.
  - destruct (LaxIpv6Exts.from_slice_lax nh hp) as [[[[x n] r] st]|e0|b0]; cbn [bind].
    + destruct X as (ly & -> & T). destruct e as [l|c]; cbn [bind]; exists ly; split; auto.
    + destruct e; cbn [bind]; exact X.
    + destruct e; exact I.
  - exact I.
Qed.

Definition v6_len_fallback (e : slice_error) : Prop :=
  exists l, e = ELen l /\ le_layer l = LyIpv6Packet.

(* Ipv6Slice.finish against the lax continuation; `c` is the way the lax copy
   writes the "more announced than present" test *)
Lemma fb6 (X : res (lax_ipv6_slice * option stop_error)) req l sr :
  (forall e, X = Err e -> False) ->
  match lerr (A:=ipv6_slice) req l sr LyIpv6Packet, X with
  | Ok v, l => l = Ok (lax_of_v6 v, None)
  | Err e, Ok (_, st) => v6_len_fallback e \/ stop_is st e
  | Err _, Err _ => False
  | _, _ => True
  end.
Proof.
  intros NE. unfold lerr. destruct X as [[v' st]|e'|b'].
  - left. eexists. split; reflexivity.
  - eapply NE. reflexivity.
  - exact I.
Qed.

Lemma v6_finish_sim s header (c : N -> res bool) :
  (forall pl, c pl = Ok (s_len s <? 40 + pl)) ->
  match Ipv6Slice.finish s header,
        (let* pl := Ipv6HeaderSlice.payload_length header in
         let* t :=
           (if (0 =? pl) && (40 <? s_len s) then
              let* n := subN (s_len s) 40 in
              let* p := subU s 40 n in
              Ok (p, LsSlice, false)
            else
              let* b := c pl in
              if b then
                let* n := subN (s_len s) 40 in
                let* p := subU s 40 n in
                Ok (p, LsSlice, true)
              else
                let* p := subU s 40 pl in
                Ok (p, LsIpv6HeaderPayloadLen, false)) in
         let '(header_payload, src, incomplete) := t in
         LaxIpv6Slice.finish header header_payload src incomplete)
  with
  | Ok v, l => l = Ok (lax_of_v6 v, None)
  | Err e, Ok (_, st) => v6_len_fallback e \/ stop_is st e
  | Err _, Err _ => False
  | _, _ => True
  end.
Proof.
  intros Hc. unfold Ipv6Slice.finish, Ipv6HeaderSlice.payload_length.
  dprim (rd16 header 4) pl Epl.
  destruct ((0 =? pl) && (40 <? s_len s)).
  { dprim (subN (s_len s) 40) n En. dprim (subU s 40 n) hp Ehp.
    pose proof (v6_tail_sim header hp LsSlice) as T.
    fold (strict_v6_tail header hp LsSlice).
    destruct (strict_v6_tail header hp LsSlice) as [v|e|b].
    - exact T.
    - destruct (LaxIpv6Slice.finish header hp LsSlice false) as [[v' st]|e'|b']; auto.
    - exact I. }
  rewrite Hc. cbn [bind].
  destruct (s_len s <? 40 + pl).
  { cbn [bind]. apply fb6. intros e.
    dprim (subN (s_len s) 40) n En. dprim (subU s 40 n) hp Ehp.
    apply v6_finish_not_err. }
  dprim (subU s 40 pl) hp Ehp.
  pose proof (v6_tail_sim header hp LsIpv6HeaderPayloadLen) as T.
  fold (strict_v6_tail header hp LsIpv6HeaderPayloadLen).
  destruct (strict_v6_tail header hp LsIpv6HeaderPayloadLen) as [v|e|b].
  - exact T.
  - destruct (LaxIpv6Slice.finish header hp LsIpv6HeaderPayloadLen false) as [[v' st]|e'|b']; auto.
  - exact I.
Qed.

Lemma ipv6_sim s :
  match Ipv6Slice.from_slice s, LaxIpv6Slice.from_slice s with
  | Ok v, l => l = Ok (lax_of_v6 v, None)
  | Err e, Ok (_, st) =>
      (exists h, Ipv6HeaderSlice.from_slice s = Ok h) /\ (v6_len_fallback e \/ stop_is st e)
  | Err e, Err e' => e' = e /\ Ipv6HeaderSlice.from_slice s = Err e
  | _, _ => True
  end.
Proof.
  unfold Ipv6Slice.from_slice, LaxIpv6Slice.from_slice.
  destruct (Ipv6HeaderSlice.from_slice s) as [header|e|b] eqn:Eh; cbn [bind];
    [|split; reflexivity|exact I].
  pose proof (v6_finish_sim s header (fun pl => Ok (s_len s <? 40 + pl)) (fun _ => eq_refl)) as F.
  cbn [bind] in F.
  destruct (Ipv6Slice.finish s header) as [v|e|b].
  - exact F.
  - match goal with |- match ?X with _ => _ end => destruct X as [[v' st]|e'|b'] end.
    + split; [eauto|exact F].
    + contradiction.
    + exact I.
  - exact I.
Qed.

(* ---- LaxIpSlice = dispatch to the two specific lax slicers -------------------- *)
Definition wrap4 (r : res (lax_ipv4_slice * option slice_error))
  : res (lax_ip_slice * option stop_error) :=
  let* x := r in
  let '(v, stop) := x in
  Ok (LIpV4 v,
      match stop with
      | Some (ELen l) => Some (ELen l, LyIpAuthHeader)
      | Some (EContent _) => Some (EContent CeIpv6AuthZeroPayloadLen, LyIpAuthHeader)
      | None => None
      end).
Definition wrap6 (r : res (lax_ipv6_slice * option stop_error))
  : res (lax_ip_slice * option stop_error) :=
  let* x := r in let '(v, stop) := x in Ok (LIpV6 v, stop).

Lemma laxip_v4_arm s header :
  Ipv4HeaderSlice.from_slice s = Ok header ->
  LaxIpSlice.from_slice s = wrap4 (LaxIpv4Slice.from_slice s).
Proof.
  intros H. unfold LaxIpSlice.from_slice, LaxIpv4Slice.from_slice. rewrite H. cbn [bind].
  revert H. unfold Ipv4HeaderSlice.from_slice, lerr.
  destruct (s_len s <? 20) eqn:E20; [discriminate|].
  dprim (rdU s 0) v E0.
  destruct (N.shiftr v 4 =? 4) eqn:Ev; cbn [negb]; [|discriminate].
  destruct (N.land v 15 <? 5) eqn:Ei; [discriminate|].
  destruct (s_len s <? N.land v 15 * 4) eqn:El; [discriminate|].
  intros Hs.
  assert ((s_len s =? 0) = false) as -> by lia.
  rewrite Hs. cbn [bind]. rewrite (subU_len _ _ _ _ Hs).
  unfold wrap4.
  destruct (Ipv4HeaderSlice.total_len header) as [tlen|e|b]; cbn [bind]; try reflexivity.
  destruct (LaxIpv4Slice.select_payload s (N.land v 15 * 4) tlen) as [[[hp src] inc]|e|b];
    cbn [bind]; try reflexivity.
Qed.

Lemma laxip_v6_arm s header :
  Ipv6HeaderSlice.from_slice s = Ok header ->
  LaxIpSlice.from_slice s = wrap6 (LaxIpv6Slice.from_slice s).
Proof.
  intros H. unfold LaxIpSlice.from_slice, LaxIpv6Slice.from_slice. rewrite H. cbn [bind].
  revert H. unfold Ipv6HeaderSlice.from_slice, lerr.
  destruct (s_len s <? 40) eqn:E40; [discriminate|].
  dprim (rdU s 0) v E0.
  destruct (N.shiftr v 4 =? 6) eqn:Ev; cbn [negb]; [|discriminate].
  intros Hs.
  assert ((s_len s =? 0) = false) as -> by lia.
  assert ((N.shiftr v 4 =? 4) = false) as -> by lia.
  rewrite Hs. cbn [bind]. unfold wrap6.
  destruct (Ipv6HeaderSlice.payload_length header) as [pl|e|b]; cbn [bind]; try reflexivity.
  rewrite (subN_ok_lax (s_len s) 40) by lia. cbn [bind].
  assert ((s_len s - 40 <? pl) = (s_len s <? 40 + pl)) as -> by lia.
  destruct ((0 =? pl) && (40 <? s_len s)); [|destruct (s_len s <? 40 + pl)].
  all: match goal with |- bind ?T _ = _ => destruct T as [[[hp src] inc]|e|b] end; cbn [bind]; reflexivity.
Qed.

(* ---- IpSlice against LaxIpSlice (accepted inputs) ------------------------------ *)
Lemma ipslice_sim s :
  match IpSlice.from_slice s with
  | Ok i => LaxIpSlice.from_slice s = Ok (lax_of_ip i, None)
  | _ => True
  end.
Proof.
  unfold IpSlice.from_slice, LaxIpSlice.from_slice, lerr.
  destruct (s_len s =? 0) eqn:E0; [exact I|].
  dprim (rdU s 0) v Ev.
  destruct (N.shiftr v 4 =? 4).
  { destruct (N.land v 15 <? 5); [exact I|].
    destruct (s_len s <? N.land v 15 * 4) eqn:El; [exact I|].
    dprim (subU s 0 (N.land v 15 * 4)) header Eh.
    unfold Ipv4HeaderSlice.total_len. dprim (rd16 header 2) tlen Etl.
    unfold LaxIpv4Slice.select_payload.
    destruct (tlen <? N.land v 15 * 4); [exact I|].
    destruct (s_len s <? tlen); [exact I|].
    dprim (subN tlen (N.land v 15 * 4)) n En.
    dprim (subU s (N.land v 15 * 4) n) hp Ehp.
    pose proof (v4_finish_sim header hp) as F.
    destruct (Ipv4Slice.finish header hp) as [v4|e|b]; cbn [bind]; [|exact I|exact I].
    rewrite F. reflexivity. }
  destruct (N.shiftr v 4 =? 6); [|exact I].
  destruct (s_len s <? 40) eqn:E40; [exact I|].
  dprim (subU s 0 40) header Eh.
  pose proof (v6_finish_sim s header (fun pl => Ok (s_len s <? 40 + pl)) (fun _ => eq_refl)) as F.
  destruct (Ipv6Slice.finish s header) as [v6|e|b]; cbn [bind]; [|exact I|exact I].
  revert F.
  destruct (Ipv6HeaderSlice.payload_length header) as [pl|e|b]; cbn [bind]; [|discriminate|discriminate].
  rewrite (subN_ok_lax (s_len s) 40) by lia. cbn [bind].
  assert ((s_len s - 40 <? pl) = (s_len s <? 40 + pl)) as -> by lia.
  destruct ((0 =? pl) && (40 <? s_len s)); [|destruct (s_len s <? 40 + pl)].
  - dprim (subU s 40 (s_len s - 40)) p Ep. intros F. rewrite F. reflexivity.
  - dprim (subU s 40 (s_len s - 40)) p Ep. intros F. rewrite F. reflexivity.
  - dprim (subU s 40 pl) p Ep. intros F. rewrite F. reflexivity.
Qed.

(* ---- MACsec ------------------------------------------------------------------ *)
Lemma rdU_sub_prefix s n h i : subU s 0 n = Ok h -> i < n -> rdU h i = rdU s i.
Proof.
  intros H Hi. apply subU_inv in H. destruct H as (Hn & ->).
  unfold rdU, rd, take, drop. cbn [snd N.to_nat skipn].
  rewrite nth_error_firstn_lt by lia. reflexivity.
Qed.

Lemma macsec_header_len s h :
  Macsec.header_from_slice s = Ok h -> Macsec.header_len h = Ok (s_len h).
Proof.
  unfold Macsec.header_from_slice, lerr.
  destruct (s_len s <? 6) eqn:E6; [discriminate|].
  dprim (rdU s 0) tci Et.
  destruct (Macsec.bit tci 128); [discriminate|].
  match goal with |- bind ?X _ = _ -> _ => destruct X as [u|e|b]; cbn [bind]; [|discriminate|discriminate] end.
  set (req := 6 + (if N.land tci 12 =? 0 then 2 else 0) + (if Macsec.bit tci 32 then 8 else 0)).
  destruct (s_len s <? req) eqn:Er; [discriminate|].
  intros Hs. unfold Macsec.header_len, Macsec.sci_present, Macsec.is_unmodified, Macsec.tci_an_raw.
  assert (Hreq : 0 < req) by (subst req; lia).
  rewrite (rdU_sub_prefix s req h 0 Hs Hreq), Et. cbn [bind].
  rewrite (subU_len _ _ _ _ Hs). subst req. f_equal.
  destruct (N.land tci 12 =? 0), (Macsec.bit tci 32); lia.
Qed.

Lemma macsec_sim s :
  match Macsec.from_slice s with
  | Ok m => LaxMacsecSlice.from_slice s = Ok (lax_of_macsec m)
  | _ => True
  end.
Proof.
  unfold Macsec.from_slice, LaxMacsecSlice.from_slice.
  destruct (Macsec.header_from_slice s) as [h|e|b] eqn:Eh; cbn [bind]; [|exact I|exact I].
  rewrite (macsec_header_len s h Eh).
  destruct (Macsec.expected_payload_len h) as [[req|]|e|b]; cbn [bind]; try exact I.
  - unfold lerr. destruct (s_len s <? s_len h + req); cbn [bind]; [exact I|].
    dprim (subU s (s_len h) req) p Ep.
    destruct (Macsec.next_ether_type h) as [[et|]|e|b]; cbn [bind]; try exact I; reflexivity.
  - dprim (subN (s_len s) (s_len h)) n En. dprim (subU s (s_len h) n) p Ep.
    destruct (Macsec.next_ether_type h) as [[et|]|e|b]; cbn [bind]; try exact I; reflexivity.
Qed.

(* ---- the cursors -------------------------------------------------------------- *)
Definition sim (c : cursor) (lc : lax_cursor) : Prop :=
  lc_result lc = lax_of_packet (c_result c) /\ lc_offset lc = c_offset c.

Lemma v4_header_ok s v : Ipv4Slice.from_slice s = Ok v -> exists h, Ipv4HeaderSlice.from_slice s = Ok h.
Proof.
  unfold Ipv4Slice.from_slice. destruct (Ipv4HeaderSlice.from_slice s); cbn [bind]; try discriminate. eauto.
Qed.
Lemma v6_header_ok s v : Ipv6Slice.from_slice s = Ok v -> exists h, Ipv6HeaderSlice.from_slice s = Ok h.
Proof.
  unfold Ipv6Slice.from_slice. destruct (Ipv6HeaderSlice.from_slice s); cbn [bind]; try discriminate. eauto.
Qed.

Lemma ip_tail_sim c lc s ip (n : net_slice) (ln : lax_net_slice) :
  sim c lc -> ln = lax_of_net n ->
  LaxSlicedPacketCursor.net_of_ip (lax_of_ip ip) = ln ->
  match (let* d := ptr_diff (ipp_slice (IpSlice.payload ip)) s in
         transport_dispatch (set_net c (c_offset c + d) (ipp_src (IpSlice.payload ip)) n)
                            (IpSlice.payload ip)) with
  | Ok r =>
      (let r1 := LaxSlicedPacketCursor.with_net (lc_result lc) ln in
       let payload := LaxIpSlice.payload (lax_of_ip ip) in
       let* d := LaxSlicedPacketCursor.ptr_diff (lipp_slice payload) s in
       let src' := if is_slice_src (lipp_src payload) then lc_src lc else lipp_src payload in
       LaxSlicedPacketCursor.slice_transport (mkLaxCursor (lc_offset lc + d) src' r1) payload)
      = Ok (lax_of_packet r)
  | _ => True
  end.
Proof.
  intros (Hres & Hoff) -> Hn.
  assert (Hp : LaxIpSlice.payload (lax_of_ip ip) = lax_of_ipp (IpSlice.payload ip)) by (destruct ip; reflexivity).
  cbv zeta. rewrite Hp. cbn [lax_of_ipp lipp_slice lipp_src].
  unfold ptr_diff, LaxSlicedPacketCursor.ptr_diff.
  dprim (subN (s_off (ipp_slice (IpSlice.payload ip))) (s_off s)) d Ed.
  set (c' := set_net c (c_offset c + d) (ipp_src (IpSlice.payload ip)) n).
  set (lc' := mkLaxCursor _ _ _).
  pose proof (transport_sim c' lc' (IpSlice.payload ip)) as T.
  assert (H1 : lc_offset lc' = c_offset c') by (subst lc' c'; cbn; rewrite Hoff; reflexivity).
  assert (H2 : c_src c' = ipp_src (IpSlice.payload ip)) by reflexivity.
  assert (H3 : lsp_stop_err (lc_result lc') = None) by (subst lc'; cbn; rewrite Hres; reflexivity).
  assert (H4 : lc_result lc' = lax_of_packet (c_result c')) by (subst lc' c'; cbn; rewrite Hres; reflexivity).
  specialize (T H1 H2 H3 H4).
  destruct (transport_dispatch c' (IpSlice.payload ip)); [exact T|exact I|exact I].
Qed.

Module L := LaxSlicedPacketCursor.

Lemma lax_slice_ip_ok lc s ip :
  LaxIpSlice.from_slice s = Ok (ip, None) ->
  L.slice_ip lc s =
  (let r1 := L.with_net (lc_result lc) (L.net_of_ip ip) in
   let payload := LaxIpSlice.payload ip in
   let* d := L.ptr_diff (lipp_slice payload) s in
   let src' := if is_slice_src (lipp_src payload) then lc_src lc else lipp_src payload in
   L.slice_transport (mkLaxCursor (lc_offset lc + d) src' r1) payload).
Proof. intros H. unfold L.slice_ip. rewrite H. reflexivity. Qed.

Lemma ipv4_cursor_sim c lc s :
  sim c lc ->
  match slice_ipv4 c s with
  | Ok r => L.slice_ip lc s = Ok (lax_of_packet r)
  | _ => True
  end.
Proof.
  intros S. unfold slice_ipv4.
  pose proof (ipv4_sim s) as V.
  destruct (Ipv4Slice.from_slice s) as [v|e|b] eqn:Ev; cbn [map_len_err bind];
    [|destruct e; exact I|exact I].
  destruct (v4_header_ok s v Ev) as (h & Hh).
  rewrite (lax_slice_ip_ok lc s (LIpV4 (lax_of_v4 v)))
    by (rewrite (laxip_v4_arm s h Hh), V; reflexivity).
  exact (ip_tail_sim c lc s (IpV4 v) (NtIpv4 v) _ S eq_refl eq_refl).
Qed.

Lemma ipv6_cursor_sim c lc s :
  sim c lc ->
  match slice_ipv6 c s with
  | Ok r => L.slice_ip lc s = Ok (lax_of_packet r)
  | _ => True
  end.
Proof.
  intros S. unfold slice_ipv6.
  pose proof (ipv6_sim s) as V.
  destruct (Ipv6Slice.from_slice s) as [v|e|b] eqn:Ev; cbn [map_len_err bind];
    [|destruct e; exact I|exact I].
  destruct (v6_header_ok s v Ev) as (h & Hh).
  rewrite (lax_slice_ip_ok lc s (LIpV6 (lax_of_v6 v)))
    by (rewrite (laxip_v6_arm s h Hh), V; reflexivity).
  exact (ip_tail_sim c lc s (IpV6 v) (NtIpv6 v) _ S eq_refl eq_refl).
Qed.

Lemma arp_cursor_sim c lc s :
  sim c lc ->
  match slice_arp c s with
  | Ok r => L.slice_arp lc s = Ok (lax_of_packet r)
  | _ => True
  end.
Proof.
  intros (Hres & Hoff). unfold slice_arp, L.slice_arp.
  destruct (ArpPacketSlice.from_slice s) as [a|[l|ce]|b]; cbn [map_len_err bind]; try exact I.
  rewrite Hres. reflexivity.
Qed.

Lemma len_map {A B} (f : A -> B) l : len (map f l) = len l.
Proof. unfold len. now rewrite map_length. Qed.

Lemma ether_sim : forall fuel c lc ep lep,
  sim c lc -> ep_ether_type lep = ep_ether_type ep -> ep_slice lep = ep_slice ep ->
  match slice_ether_type_loop fuel c ep with
  | Ok r => L.slice_ether_type_loop fuel lc lep = Ok (lax_of_packet r)
  | _ => True
  end.
Proof.
  induction fuel as [|f IH]; intros c lc ep lep S Het Hsl; [exact I|].
  pose proof S as (Hres & Hoff).
  cbn [slice_ether_type_loop L.slice_ether_type_loop]. rewrite Het, Hsl.
  unfold L.is_vlan_type.
  assert (Hlen : len (lsp_exts (lc_result lc)) = len (sp_exts (c_result c))).
  { rewrite Hres. cbn. apply len_map. }
  rewrite Hlen.
  destruct (is_vlan_type (ep_ether_type ep)).
  { destruct (LINK_EXTS_CAP <=? len (sp_exts (c_result c))) eqn:Ecap; [now rewrite Hres|].
    destruct (SingleVlanSlice.from_slice (ep_slice ep)) as [vlan|[l|ce]|b]; cbn [map_len_err bind]; try exact I.
    destruct (SingleVlanSlice.payload vlan) as [vp|e|b]; cbn [bind]; try exact I.
    unfold push_ext, L.push_ext. rewrite Hlen.
    destruct (len (sp_exts (c_result c)) <? LINK_EXTS_CAP); cbn [bind]; [|exact I].
    apply IH; [|reflexivity|reflexivity].
    split; cbn; [|now rewrite Hoff]. rewrite Hres. unfold lax_of_packet. cbn. now rewrite map_app. }
  destruct (ep_ether_type ep =? ET_MACSEC).
  { destruct (LINK_EXTS_CAP <=? len (sp_exts (c_result c))) eqn:Ecap; [now rewrite Hres|].
    pose proof (macsec_sim (ep_slice ep)) as M.
    destruct (Macsec.from_slice (ep_slice ep)) as [m|[l|ce]|b]; cbn [map_len_err bind]; try exact I.
    rewrite M. cbn [lax_of_macsec lms_header lms_payload].
    destruct (Macsec.header_len (ms_header m)) as [hl|e|b]; cbn [bind]; try exact I.
    destruct (Macsec.short_len (ms_header m)) as [sl|e|b]; cbn [bind]; try exact I.
    unfold push_ext, L.push_ext. rewrite Hlen.
    destruct (len (sp_exts (c_result c)) <? LINK_EXTS_CAP); cbn [bind]; [|exact I].
    destruct (ms_payload m) as [e|pl] eqn:Emp.
    - apply IH; [|reflexivity|reflexivity].
      split; cbn; [|now rewrite Hoff]. rewrite Hres. unfold lax_of_packet. cbn. rewrite map_app. cbn.
      unfold lax_of_macsec. rewrite Emp. reflexivity.
    - cbn. rewrite Hres. unfold lax_of_packet. cbn. rewrite map_app. cbn.
      unfold lax_of_macsec. rewrite Emp. reflexivity. }
  destruct (ep_ether_type ep =? ET_ARP); [now apply arp_cursor_sim|].
  destruct (ep_ether_type ep =? ET_IPV4); [now apply ipv4_cursor_sim|].
  destruct (ep_ether_type ep =? ET_IPV6); [now apply ipv6_cursor_sim|].
  now rewrite Hres.
Qed.

(* ---- (a) for the whole-packet entry points -------------------------------------- *)
Theorem from_ethernet_extends bs r :
  SlicedPacket.from_ethernet bs = Ok r -> LaxSlicedPacket.from_ethernet bs = Ok (lax_of_packet r).
Proof.
  unfold SlicedPacket.from_ethernet, LaxSlicedPacket.from_ethernet, slice_ethernet2,
    L.parse_from_ethernet2.
  destruct (Ethernet2Slice.from_slice_without_fcs (mk_slice bs)) as [e2|[l|ce]|b];
    cbn [map_len_err bind]; try discriminate.
  destruct (Ethernet2Slice.payload e2) as [ep|e|b]; cbn [bind]; try discriminate.
  unfold slice_ether_type, L.slice_ether_type. intros H.
  pose proof (ether_sim 5 (set_link new (c_offset new + Ethernet2Slice.header_len) (LkEthernet2 e2))
                (mkLaxCursor (0 + Ethernet2Slice.header_len) LsSlice (L.with_link L.empty (LkEthernet2 e2)))
                ep ep) as E.
  rewrite H in E. apply E; [split; reflexivity|reflexivity|reflexivity].
Qed.

Theorem from_ether_type_extends et bs r :
  SlicedPacket.from_ether_type et bs = Ok r ->
  LaxSlicedPacket.from_ether_type et bs = Ok (lax_of_packet r).
Proof.
  unfold SlicedPacket.from_ether_type, LaxSlicedPacket.from_ether_type, L.parse_from_ether_type,
    slice_ether_type, L.slice_ether_type. intros H.
  set (ep := mkEtherPayload et LsSlice (mk_slice bs)) in *.
  pose proof (ether_sim 5 (set_link new 0 (LkEtherPayload ep))
                (mkLaxCursor 0 LsSlice (L.with_link L.empty (LkEtherPayload ep))) ep ep) as E.
  rewrite H in E. apply E; [split; reflexivity|reflexivity|reflexivity].
Qed.

Theorem from_ip_extends bs r :
  SlicedPacket.from_ip bs = Ok r -> LaxSlicedPacket.from_ip bs = Ok (lax_of_packet r).
Proof.
  unfold SlicedPacket.from_ip, LaxSlicedPacket.from_ip, slice_ip, L.parse_from_ip.
  pose proof (ipslice_sim (mk_slice bs)) as I.
  destruct (IpSlice.from_slice (mk_slice bs)) as [ip|[l|ce]|b]; cbn [map_len_err bind]; try discriminate.
  rewrite I. cbn [bind option_map]. intros H.
  pose proof (ip_tail_sim new (mkLaxCursor 0 LsSlice L.empty) (mk_slice bs) ip
                (match ip with IpV4 v => NtIpv4 v | IpV6 v => NtIpv6 v end) _
                (conj eq_refl eq_refl) eq_refl) as T.
  rewrite H in T. cbv zeta in T.
  assert (Hn : L.net_of_ip (lax_of_ip ip) =
               lax_of_net (match ip with IpV4 v => NtIpv4 v | IpV6 v => NtIpv6 v end))
    by (destruct ip; reflexivity).
  specialize (T Hn). revert T.
  destruct (L.ptr_diff (lipp_slice (LaxIpSlice.payload (lax_of_ip ip))) (mk_slice bs)) as [d|e|b];
    cbn [bind]; try discriminate.
  rewrite Hn. cbn [lc_offset lc_result lc_src]. rewrite N.add_0_l.
  destruct (is_slice_src (lipp_src (LaxIpSlice.payload (lax_of_ip ip)))) eqn:Es.
  - intros T. exact T.
  - intros T. rewrite <- T. reflexivity.
Qed.

