(* Parse/HdrLaxC05.v -- C05 (a) and (b) for the lax header-struct family LaxPacketHeaders,
   derived by composition:
     strict PacketHeaders  = (C04, HdrProofs3)  strict slicing cut at a refilled extension header
     strict slicing        -> (C05 (a) / (b), LaxProofs / LaxPrefix)  lax slicing
     lax slicing (cut)     = (C04 lax half, HdrLaxProofs3)  LaxPacketHeaders
   Both compositions go through the UNCUT slicing results, so they are stated outside the
   documented struct-decoding exception: `stopped_at_ext` / `lax_stopped_at_ext` = false. *)
From Coq Require Import ZArith Lia ZifyN ZifyBool.
From EP Require Import Base.Bytes Parse.Types Parse.Slices Parse.Cursor Parse.View
  Parse.WireSpec Parse.Repr Parse.StrictProofs Parse.LaxSlices Parse.LaxCursor Parse.LaxView
  Parse.LaxProofs Parse.LaxFacts Parse.LaxWire Parse.LaxWireProofs Parse.LaxPrefix Parse.LaxHdrFacts
  Parse.HdrModel Parse.HdrView Parse.HdrCut Parse.HdrProofs Parse.HdrProofs2 Parse.HdrProofs3
  Parse.HdrLaxModel Parse.HdrLaxView Parse.HdrLaxProofs Parse.HdrLaxCut Parse.HdrLaxCutProofs
  Parse.HdrLaxProofs2 Parse.HdrLaxProofs3.

Local Open Scope N_scope.

(* ---- forgetting what only the lax view carries ---------------------------------------------- *)
Definition hvlink_win (l : hvlink) : window :=
  match l with HvlEthernet2 w => w | HvlLinuxSll w => w end.

Definition strip_inc (p : lhvpayload) : hvpayload :=
  match p with
  | LHvpEmpty => HvpEmpty
  | LHvpEther e => HvpEther (strictify_ep e)
  | LHvpMacsecMod _ w => HvpMacsecMod w
  | LHvpIp p => HvpIp (strictify_ipp p)
  | LHvpUdp _ w => HvpUdp w
  | LHvpTcp _ w => HvpTcp w
  | LHvpIcmpv4 _ w => HvpIcmpv4 w
  | LHvpIcmpv6 _ w => HvpIcmpv6 w
  | LHvpLinuxSll _ _ => HvpEmpty
  end.

Definition payload_inc (p : lhvpayload) : bool :=
  match p with
  | LHvpEmpty => false
  | LHvpEther e => lvep_incomplete e
  | LHvpMacsecMod i _ => i
  | LHvpIp p => lvip_incomplete p
  | LHvpUdp i _ | LHvpTcp i _ | LHvpIcmpv4 i _ | LHvpIcmpv6 i _ => i
  | LHvpLinuxSll _ _ => false
  end.

(* equal; for an ether payload: same ether type and window (the length source of the last
   ether payload behind MACsec headers is observation (D), not compared here) *)
Definition same_payload (a b : hvpayload) : Prop :=
  a = b \/ exists e e', a = HvpEther e /\ b = HvpEther e' /\ vep_type e = vep_type e' /\ vep_win e = vep_win e'.

(* ---- to_header() of an embedded strict slicing result ------------------------------------------ *)
Lemma last_map_some {A B} (f : A -> B) (l : list A) :
  last (map Some (map f l)) None = option_map f (last (map Some l) None).
Proof.
  induction l as [|x l IH]; [reflexivity|].
  destruct l as [|y l]; [reflexivity|]. cbn [map last] in *. exact IH.
Qed.

Lemma lconv_of_strict r v0 : conv r = Ok v0 ->
  exists v', lconv (lax_of_packet r) = Ok v' /\
    option_map hvlink_win (lhv_link v') = hv_link v0 /\ lhv_exts v' = hv_exts v0 /\
    lhv_net v' = hv_net v0 /\ lhv_tr v' = hv_tr v0 /\
    same_payload (strip_inc (lhv_payload v')) (hv_payload v0) /\
    payload_inc (lhv_payload v') = false /\ lhv_stop v' = None.
Proof.
  destruct r as [l x n t]. unfold conv, lconv, lax_of_packet.
  cbn [sp_link sp_exts sp_net sp_transport lsp_link lsp_exts lsp_net lsp_transport lsp_stop_err].
  assert (Einc : match option_map lax_of_net n with
                 | Some n0 => match lnp n0 with Some ip => lipp_incomplete ip | None => false end
                 | None => false
                 end = false) by (destruct n as [[v|v|a]|]; reflexivity).
  rewrite Einc.
  assert (Elink : option_map hvlink_win (match l with Some l0 => lconv_link l0 | None => None end) =
                  match l with Some l0 => conv_link l0 | None => None end)
    by (destruct l as [[s|h w|e]|]; reflexivity).
  assert (Eexts : map lconv_ext (map lax_of_ext x) = map conv_ext x).
  { rewrite map_map. apply map_ext. intros [s|m]; reflexivity. }
  assert (Enet : option_map lconv_net (option_map lax_of_net n) = option_map conv_net n)
    by (destruct n as [[v|v|a]|]; reflexivity).
  assert (Fin : forall (tr : option hvtr) (pl : lhvpayload) (pl0 : hvpayload),
            same_payload (strip_inc pl) pl0 -> payload_inc pl = false ->
            exists v', Ok (mkLHv (match l with Some l0 => lconv_link l0 | None => None end)
                              (map lconv_ext (map lax_of_ext x)) (option_map lconv_net (option_map lax_of_net n))
                              tr pl None) = Ok v' /\
              option_map hvlink_win (lhv_link v') =
                hv_link (mkHv (match l with Some l0 => conv_link l0 | None => None end) (map conv_ext x)
                              (option_map conv_net n) tr pl0) /\
              lhv_exts v' = map conv_ext x /\ lhv_net v' = option_map conv_net n /\ lhv_tr v' = tr /\
              same_payload (strip_inc (lhv_payload v')) pl0 /\ payload_inc (lhv_payload v') = false /\
              lhv_stop v' = None).
  { intros tr pl pl0 Hp Hi. eexists. split; [reflexivity|].
    cbn [lhv_link lhv_exts lhv_net lhv_tr lhv_payload lhv_stop hv_link].
    rewrite Elink, Eexts, Enet. repeat split; assumption. }
  destruct t as [ts|].
  - (* transport slice *)
    destruct ts as [s|hl s|s|s]; cbn [conv_tr lconv_tr bind fst snd].
    + intros H. injection H as <-. apply Fin; [left; reflexivity|reflexivity].
    + intros H. injection H as <-. apply Fin; [left; reflexivity|reflexivity].
    + destruct (Icmpv4Acc.header_len s) as [hl|e|b]; cbn [bind fst snd]; try discriminate.
      intros H. injection H as <-. apply Fin; [left; reflexivity|reflexivity].
    + intros H. injection H as <-. apply Fin; [left; reflexivity|reflexivity].
  - destruct n as [[v|v|a]|]; cbn [option_map lax_of_net bind fst snd].
    + intros H. injection H as <-. apply Fin; [left; reflexivity|reflexivity].
    + intros H. injection H as <-. apply Fin; [left; reflexivity|reflexivity].
    + intros H. injection H as <-. apply Fin; [left; reflexivity|reflexivity].
    + (* the last ether payload *)
      unfold conv_ether_payload, lconv_ether_payload.
      cbn [sp_exts sp_link lsp_exts lsp_link]. rewrite last_map_some.
      destruct (last (map Some x) None) as [[s|m]|]; cbn [option_map lax_of_ext].
      * destruct (exts_src x LsSlice) as [src|e|b]; cbn [bind]; try discriminate.
        destruct (SingleVlanSlice.payload s) as [e|e0|b]; cbn [bind fst snd]; try discriminate.
        intros H. injection H as <-. apply Fin; [|reflexivity].
        right. eexists. eexists. split; [reflexivity|]. split; [reflexivity|]. split; reflexivity.
      * unfold lax_of_macsec. cbn [lms_payload]. destruct (ms_payload m) as [e|s].
        -- destruct (exts_src x LsSlice) as [src|e0|b]; cbn [bind fst snd]; try discriminate.
           intros H. injection H as <-. apply Fin; [|reflexivity].
           right. eexists. eexists. split; [reflexivity|]. split; [reflexivity|]. split; reflexivity.
        -- cbn [bind fst snd]. intros H. injection H as <-. apply Fin; [left; reflexivity|reflexivity].
      * destruct l as [[s|h w|e]|]; cbn [bind fst snd].
        -- destruct (Ethernet2Slice.payload s) as [e|e0|b]; cbn [bind fst snd]; try discriminate.
           intros H. injection H as <-. apply Fin; [|reflexivity].
           right. eexists. eexists. split; [reflexivity|]. split; [reflexivity|]. split; reflexivity.
        -- intros H. injection H as <-. apply Fin; [left; reflexivity|reflexivity].
        -- intros H. injection H as <-. apply Fin; [|reflexivity].
           right. eexists. eexists. split; [reflexivity|]. split; [reflexivity|]. split; reflexivity.
        -- intros H. injection H as <-. apply Fin; [left; reflexivity|reflexivity].
Qed.

(* ---- (a) ------------------------------------------------------------------------------------------ *)
(* the LaxPacketHeaders result seen against a strictly accepted PacketHeaders result hp *)
Definition hdr_same (hp : hpacket) (lh : res lhpacket) : Prop :=
  exists p v v0, lh = Ok p /\ lhview_of p = Ok v /\ hview_of hp = Ok v0 /\
    option_map hvlink_win (lhv_link v) = hv_link v0 /\ lhv_exts v = hv_exts v0 /\
    lhv_net v = hv_net v0 /\ lhv_tr v = hv_tr v0 /\
    same_payload (strip_inc (lhv_payload v)) (hv_payload v0) /\
    payload_inc (lhv_payload v) = false /\ lhv_stop v = None.

Lemma hview_of_no_err p : no_err (hview_of p).
Proof.
  unfold hview_of, hview_net, Ipv6HeaderSlice.next_header, Ipv6Extensions.is_fragmenting_payload,
    Ipv6FragmentHeaderSlice.is_fragmenting_payload, Ipv6FragmentHeaderSlice.more_fragments,
    Ipv6FragmentHeaderSlice.fragment_offset.
  ne.
Qed.

Lemma same_payload_carry sp pl pl0 :
  same_payload (strip_inc pl) pl0 -> same_payload (strip_inc (carry_src sp pl)) pl0.
Proof.
  destruct pl; cbn [carry_src strip_inc]; auto.
  intros [<-|(e1 & e2 & E1 & -> & Et & Ew)]; right.
  - eexists. eexists. split; [reflexivity|]. split; [reflexivity|]. split; reflexivity.
  - injection E1 as <-. eexists. eexists. split; [reflexivity|]. split; [reflexivity|].
    cbn in *. split; assumption.
Qed.

Lemma payload_inc_carry sp pl : payload_inc (carry_src sp pl) = payload_inc pl.
Proof. destruct pl; reflexivity. Qed.

Lemma hdr_extends_core (hs : res hpacket) (cs ss : res sliced_packet) (lh : res lhpacket)
  (cl ll : res lax_sliced_packet) :
  hagree hs cs -> cs = ss -> (forall r, ss = Ok r -> ll = Ok (lax_of_packet r)) ->
  lhagree true lh cl -> cl = ll ->
  forall hp, hs = Ok hp -> hdr_same hp lh.
Proof.
  intros (A1 & A2) -> Hext L -> hp ->.
  cbn [hvres_of_h] in A1, A2.
  pose proof (hview_of_no_err hp) as Ne.
  destruct (hview_of hp) as [v0|e|b] eqn:Ev0; [|now destruct (Ne e)|now destruct (A2 b)].
  destruct ss as [r|e|b]; cbn [hvres_of_s] in A1; try discriminate.
  destruct (conv r) as [v0'|e|b] eqn:Ec; try discriminate. injection A1 as <-.
  rewrite (Hext r eq_refl) in L. unfold lhagree in L.
  destruct lh as [p|e|b]; try contradiction.
  destruct L as (v & v' & Hv & Hc & R1 & R2 & R3 & R4 & R5 & R6).
  destruct (lconv_of_strict r v0 Ec) as (w & Hw & W1 & W2 & W3 & W4 & W5 & W6 & W7).
  rewrite Hw in Hc. injection Hc as <-.
  exists p, v, v0. split; [reflexivity|]. split; [exact Hv|]. split; [exact Ev0|].
  rewrite R1, R2, R3, R4, R5. repeat (split; [assumption|]).
  split; [now apply same_payload_carry|]. split; [now rewrite payload_inc_carry|].
  rewrite W7 in R6. unfold stop_rel in R6. destruct (lhv_stop v) as [[eh ly]|]; [contradiction|reflexivity].
Qed.

Lemma hagree_nobug h c b : hagree h c -> c <> Bug b.
Proof. intros (A1 & A2) ->. apply (A2 b). now rewrite A1. Qed.

Lemma lhagree_nobug_s f h s b : lhagree f h s -> s <> Bug b.
Proof. unfold lhagree. intros A ->. destruct h; contradiction. Qed.

(* (a) for LaxPacketHeaders: whenever strict PacketHeaders accepts, LaxPacketHeaders returns the same
   link / link extension / network / transport header windows and the same payload (kind, numbers,
   window; length source for IP payloads), no stop error, payload not incomplete -- outside the
   documented exception on both sides (neither the strict nor the lax slicing cut at a refilled
   extension header stopped) *)
Theorem hdr_lax_extends_strict bs et : bytes_ok bs ->
  (forall hp, PacketHeaders.from_ethernet_slice bs = Ok hp ->
     stopped_at_ext (Cut.from_ethernet true bs) = false ->
     lax_stopped_at_ext (LaxCut.from_ethernet true bs) = false ->
     hdr_same hp (LaxPacketHeaders.from_ethernet bs)) /\
  (forall hp, PacketHeaders.from_ether_type et bs = Ok hp ->
     stopped_at_ext (Cut.from_ether_type true et bs) = false ->
     lax_stopped_at_ext (LaxCut.from_ether_type true et bs) = false ->
     hdr_same hp (LaxPacketHeaders.from_ether_type et bs)) /\
  (forall hp, PacketHeaders.from_ip_slice bs = Ok hp ->
     stopped_at_ext (Cut.from_ip true bs) = false ->
     lax_stopped_at_ext (LaxCut.from_ip true bs) = false ->
     hdr_same hp (LaxPacketHeaders.from_ip bs)).
Proof.
  intros Hok. split; [|split]; intros hp Hhp S1 S2.
  - pose proof (hdr_agree_ethernet bs Hok) as A. pose proof (lax_hdr_agree_ethernet bs Hok) as L.
    apply (hdr_extends_core (PacketHeaders.from_ethernet_slice bs) (Cut.from_ethernet true bs) (SlicedPacket.from_ethernet bs)
             (LaxPacketHeaders.from_ethernet bs) (LaxCut.from_ethernet true bs) (LaxSlicedPacket.from_ethernet bs) A);
      [ apply cut_only_when_stopped_ethernet; [exact S1|intros b; now apply (hagree_nobug _ _ b A)]
      | intros r; apply from_ethernet_extends
      | exact L
      | apply lcut_only_when_stopped_ethernet; [exact S2|intros b; now apply (lhagree_nobug_s _ _ _ b L)]
      | exact Hhp ].
  - pose proof (hdr_agree_ether_type et bs Hok) as A. pose proof (lax_hdr_agree_ether_type et bs Hok) as L.
    apply (hdr_extends_core (PacketHeaders.from_ether_type et bs) (Cut.from_ether_type true et bs) (SlicedPacket.from_ether_type et bs)
             (LaxPacketHeaders.from_ether_type et bs) (LaxCut.from_ether_type true et bs) (LaxSlicedPacket.from_ether_type et bs) A);
      [ apply cut_only_when_stopped_ether_type; [exact S1|intros b; now apply (hagree_nobug _ _ b A)]
      | intros r; apply from_ether_type_extends
      | exact L
      | apply lcut_only_when_stopped_ether_type; [exact S2|intros b; now apply (lhagree_nobug_s _ _ _ b L)]
      | exact Hhp ].
  - assert (Hf : F11 bs = false).
    { destruct (F11 bs) eqn:Hf; [|reflexivity]. destruct (hdr_f11_both_err bs Hf) as ((e & E) & _). congruence. }
    pose proof (hdr_agree_ip bs Hok Hf) as A. pose proof (lax_hdr_agree_ip bs Hok Hf) as L.
    apply (hdr_extends_core (PacketHeaders.from_ip_slice bs) (Cut.from_ip true bs) (SlicedPacket.from_ip bs)
             (LaxPacketHeaders.from_ip bs) (LaxCut.from_ip true bs) (LaxSlicedPacket.from_ip bs) A);
      [ apply cut_only_when_stopped_ip; [exact S1|intros b; now apply (hagree_nobug _ _ b A)]
      | intros r; apply from_ip_extends
      | exact L
      | apply lcut_only_when_stopped_ip; [exact S2|intros b; now apply (lhagree_nobug_s _ _ _ b L)]
      | exact Hhp ].
Qed.

(* ---- (b) -------------------------------------------------------------------------------------------- *)
(* header windows of the layers of a strict observer view *)
Definition ext_hdr (x : vlink_ext) : hvext :=
  match x with VVlan w => HvVlan (fst w, 4) | VMacsec h _ => HvMacsec h end.
Definition net_hdr (n : vnet) : hvnet :=
  match n with
  | VIpv4 h a _ => HvIpv4 h a
  | VIpv6 h f fr x _ => HvIpv6 h f fr x
  | VArp w => HvArp w
  end.

(* every layer of q (the layers in front of the fault) is a layer of the LaxPacketHeaders view *)
Definition hdr_prefix (q : vpacket) (v : lhview) : Prop :=
  (exists rest, lhv_exts v = map ext_hdr (v_exts q) ++ rest) /\
  (v_net q = None \/ option_map net_hdr (v_net q) = lhv_net v) /\
  (v_transport q = None \/ lhv_tr v <> None).

(* the fault is a documented length fallback, or recorded as stop error (same record up to the
   length source, fitting layer tag), or -- F11 group -- a fault of the IP header recorded as a
   fault of the IP header (same offset outside the F11-like class) *)
Definition hdr_outcome (e : slice_error) (v : lhview) : Prop :=
  fallback e \/
  (exists e' ly, lhv_stop v = Some (e', ly) /\ lax_same e e' /\ tag_ok e' ly) \/
  (ip_hdr_class e /\
   exists e', lhv_stop v = Some (e', LyIpHeader) /\ ip_hdr_class e' /\
     (f11_stop (lhv_stop v) = false ->
      forall o o', err_off e = Some o -> err_off e' = Some o' -> o = o')).

Definition hdr_prefix_ok (bs : bytes) (strict : res sliced_packet) (pw : pres)
  (laxcut : res lax_sliced_packet) (lh : res lhpacket) : Prop :=
  forall e, strict = Err e -> lax_stopped_at_ext laxcut = false ->
  exists q e_ref p v,
    pw = PRej q e_ref /\ res_rel (VErr e) (VErr e_ref) /\ lh = Ok p /\ lhview_of p = Ok v /\
    (~ F10_class bs e_ref -> hdr_prefix q v /\ hdr_outcome e_ref v).

Lemma lconv_fields sp v' : lconv sp = Ok v' ->
  lhv_exts v' = map lconv_ext (lsp_exts sp) /\ lhv_net v' = option_map lconv_net (lsp_net sp) /\
  (lsp_transport sp <> None -> lhv_tr v' <> None) /\ lhv_stop v' = lsp_stop_err sp.
Proof.
  unfold lconv. destruct (lsp_transport sp) as [t|].
  - destruct (lconv_tr _ t) as [r|e|b]; cbn [bind]; try discriminate.
    intros H. injection H as <-. cbn. repeat split. intros _. discriminate.
  - destruct (match lsp_net sp with Some _ => _ | None => _ end) as [r|e|b]; cbn [bind]; try discriminate.
    intros H. injection H as <-. cbn. repeat split. intros H. now destruct H.
Qed.

Lemma lconv_ext_hdr x : lconv_ext x = ext_hdr (strictify_ext (lview_ext x)).
Proof. destruct x as [s|m]; [reflexivity|]. cbn. unfold lview_macsec. destruct (lms_payload m); reflexivity. Qed.

Lemma lconv_net_hdr n : lconv_net n = net_hdr (strictify_net (lview_net n)).
Proof. destruct n; reflexivity. Qed.

Lemma hdr_prefix_of q sp v v' :
  vprefix q (strictify (lview sp)) -> lconv sp = Ok v' ->
  lhv_exts v = lhv_exts v' -> lhv_net v = lhv_net v' -> lhv_tr v = lhv_tr v' -> hdr_prefix q v.
Proof.
  intros (_ & (rest & Hx) & Hn & Ht) Hc R2 R3 R4.
  destruct (lconv_fields sp v' Hc) as (F1 & F2 & F3 & _).
  unfold strictify, lview in Hx, Hn, Ht. cbn [v_exts v_net v_transport lv_exts lv_net lv_transport] in Hx, Hn, Ht.
  split; [|split].
  - exists (map ext_hdr rest). rewrite R2, F1, <- map_app, <- Hx, !map_map.
    apply map_ext. intros x. apply lconv_ext_hdr.
  - destruct Hn as [Hn|Hn]; [now left|right]. rewrite R3, F2, Hn.
    destruct (lsp_net sp); cbn [option_map]; [now rewrite lconv_net_hdr|reflexivity].
  - destruct Ht as [Ht|Ht]; [now left|].
    destruct (v_transport q) as [t|] eqn:Et; [right|now left].
    rewrite R4. apply F3. destruct (lsp_transport sp); [discriminate|discriminate].
Qed.

Lemma tag_ok_lerr lh ls ly : lerr_rel lh ls -> tag_ok (ELen ls) ly -> tag_ok (ELen lh) ly.
Proof. intros [->| ->]; [auto|]. destruct ls; exact (fun H => H). Qed.

Lemma lax_same_lerr e lh ls : lerr_rel lh ls -> lax_same e (ELen ls) -> lax_same e (ELen lh).
Proof.
  intros [->| ->]; [auto|]. destruct e as [a|c]; [|auto]. destruct ls as [r n s y o].
  unfold lax_same, le_set_src. cbn. intros (A & B & C & D & _). repeat split; auto.
Qed.

Lemma hdr_outcome_of e sp v v' :
  lax_outcome e (lview sp) -> lconv sp = Ok v' -> stop_rel true (lhv_stop v) (lhv_stop v') ->
  hdr_outcome e v.
Proof.
  intros O Hc R. destruct (lconv_fields sp v' Hc) as (_ & _ & _ & F4).
  rewrite F4 in R. unfold lview in O. unfold lax_outcome in O. cbn [lv_stop] in O.
  destruct O as [O|[(e' & ly & Es & Hs & Ht)|(Hi & e' & Es & Hi' & Ho)]]; [now left| |].
  - rewrite Es in R. unfold stop_rel in R.
    destruct (lhv_stop v) as [[eh lyh]|] eqn:Eh; [|contradiction].
    destruct R as (-> & [R|(_ & -> & R)]).
    + right. left. exists eh, ly. split; [exact Eh|].
      destruct eh as [lh|ch]; destruct e' as [ls|cs]; try contradiction.
      * split; [now apply (lax_same_lerr e lh ls)|now apply (tag_ok_lerr lh ls)].
      * subst ch. split; assumption.
    + (* an F11 pair behind a recorded IP-header fault *)
      right. right.
      pose proof R as (n & off & Hn & -> & [(i & _ & ->)|(hl & src & _ & ->)]).
      * split; [destruct e as [a|c]; cbn in Hs; [contradiction|subst c; exact I]|].
        eexists. split; [exact Eh|]. split; [cbn; auto|].
        intros Hf. exfalso. rewrite Eh in Hf. apply f11_pair_stop in R. exact (Bool.eq_true_false_abs _ R Hf).
      * split; [destruct e as [a|c]; cbn in Hs; [|contradiction]; destruct Hs as (_ & _ & Hl & _); cbn in *; auto|].
        eexists. split; [exact Eh|]. split; [cbn; auto|].
        intros Hf. exfalso. rewrite Eh in Hf. apply f11_pair_stop in R. exact (Bool.eq_true_false_abs _ R Hf).
  - rewrite Es in R. unfold stop_rel in R.
    destruct (lhv_stop v) as [[eh lyh]|] eqn:Eh; [|contradiction].
    destruct R as (-> & [R|(_ & _ & R)]); right; right; (split; [exact Hi|]).
    + exists eh. split; [exact Eh|].
      destruct eh as [lh|ch]; destruct e' as [ls|cs]; try contradiction.
      * destruct R as [->| ->]; [split; [exact Hi'|intros _; exact Ho]|].
        destruct ls as [r n s y o]. split; [exact Hi'|]. intros _. exact Ho.
      * subst ch. split; [exact Hi'|intros _; exact Ho].
    + pose proof R as (n & off & Hn & -> & _).
      eexists. split; [exact Eh|]. split; [cbn; auto|].
      intros Hf. exfalso. rewrite Eh in Hf. apply f11_pair_stop in R. exact (Bool.eq_true_false_abs _ R Hf).
Qed.

Lemma hdr_prefix_core bs strict pw (cl ll : res lax_sliced_packet) lh :
  prefix_ok bs strict pw ll -> lhagree true lh cl ->
  (lax_stopped_at_ext cl = false -> cl = ll) ->
  hdr_prefix_ok bs strict pw cl lh.
Proof.
  intros P L Hcut e He Hs. rewrite (Hcut Hs) in L.
  destruct (P e He) as (q & e_ref & r' & Pw & Rr & -> & Hrest).
  unfold lhagree in L. destruct lh as [p|e0|b]; try contradiction.
  destruct L as (v & v' & Hv & Hc & R1 & R2 & R3 & R4 & R5 & R6).
  exists q, e_ref, p, v. split; [exact Pw|]. split; [exact Rr|]. split; [reflexivity|]. split; [exact Hv|].
  intros Hf. destruct (Hrest Hf) as (Vp & Lo). split.
  - now apply (hdr_prefix_of q r' v v').
  - now apply (hdr_outcome_of e_ref r' v v').
Qed.

(* (b) for LaxPacketHeaders: strict slicing rejects behind the first header => the reference decoder
   rejects with (q, e_ref), LaxPacketHeaders returns Ok, and outside F10: every layer of q (link
   extensions and network header with their header windows; a transport layer) is in the result, and
   e_ref is a documented length fallback or recorded as stop error on a fitting layer (F11 group for
   faults of the IP header itself) -- outside the documented struct-decoding exception *)
Theorem hdr_lax_prefix bs et : bytes_ok bs ->
  (14 <= len bs ->
   hdr_prefix_ok bs (SlicedPacket.from_ethernet bs) (pwire_ethernet bs)
     (LaxCut.from_ethernet true bs) (LaxPacketHeaders.from_ethernet bs)) /\
  hdr_prefix_ok bs (SlicedPacket.from_ether_type et bs) (pwire_ether_type bs et)
    (LaxCut.from_ether_type true et bs) (LaxPacketHeaders.from_ether_type et bs) /\
  (ip_header_fault bs = None ->
   hdr_prefix_ok bs (SlicedPacket.from_ip bs) (pwire_from_ip bs)
     (LaxCut.from_ip true bs) (LaxPacketHeaders.from_ip bs)).
Proof.
  intros Hok. destruct (lax_prefix_packet bs et Hok) as (P1 & P2 & P3). split; [|split].
  - intros H14. pose proof (lax_hdr_agree_ethernet bs Hok) as L.
    apply (hdr_prefix_core _ _ _ _ (LaxSlicedPacket.from_ethernet bs) _ (P1 H14) L).
    intros S. apply lcut_only_when_stopped_ethernet; [exact S|]. intros b. now apply (lhagree_nobug_s _ _ _ b L).
  - pose proof (lax_hdr_agree_ether_type et bs Hok) as L.
    apply (hdr_prefix_core _ _ _ _ (LaxSlicedPacket.from_ether_type et bs) _ P2 L).
    intros S. apply lcut_only_when_stopped_ether_type; [exact S|]. intros b. now apply (lhagree_nobug_s _ _ _ b L).
  - intros Hnf.
    assert (Hf : F11 bs = false).
    { destruct (F11 bs) eqn:Hf; [|reflexivity].
      destruct (lax_hdr_f11_both_err bs Hf) as (e & e' & _ & _ & E & _).
      apply lax_from_ip_err_iff in E. congruence. }
    pose proof (lax_hdr_agree_ip bs Hok Hf) as L.
    apply (hdr_prefix_core _ _ _ _ (LaxSlicedPacket.from_ip bs) _ (P3 Hnf) L).
    intros S. apply lcut_only_when_stopped_ip; [exact S|]. intros b. now apply (lhagree_nobug_s _ _ _ b L).
Qed.
