(* Parse/HdrLaxCut.v -- the lax half of C04: definitions only.

   1. `LaxCut.*`: the LAX slicing algorithm of Parse/LaxSlices.v + Parse/LaxCursor.v
      (LaxIpv6Exts.walk, LaxIpv6Exts.from_slice_lax, LaxIpv6Slice.finish,
      LaxIpSlice.from_slice, LaxSlicedPacketCursor.{slice_ip, slice_ether_type_loop,
      parse_from_*}) with ONE change, the one HdrCut.v makes to the strict walk: when
      `cut = true` the extension walk ends, WITHOUT a stop error, in front of the first
      header with `refilled` (no free slot in the fixed struct Ipv6Extensions), which
      becomes the payload's protocol number.  With `cut = false` every function is
      equal to the original (HdrLaxCutProofs.v, lemmas lcut_false_NAME).
   2. `lconv`: a LaxSlicedPacket seen through to_header() of every slice plus its
      innermost payload and the stop error (what harness/src/hdrlax.rs::of_lax_sliced
      computes on the implementation side; the ether payload is
      LaxSlicedPacket::ether_payload()).
   3. `lhagree`: the relation between a LaxPacketHeaders result and a (converted)
      LaxSlicedPacket result. *)
From EP Require Import Base.Bytes Parse.Types Parse.Slices Parse.Cursor Parse.View
  Parse.LaxSlices Parse.LaxCursor Parse.LaxView Parse.HdrModel Parse.HdrView Parse.HdrCut
  Parse.HdrLaxModel Parse.HdrLaxView.

Local Open Scope N_scope.

Module LaxCut.
  Import LaxSlicedPacketCursor.

  (* LaxIpv6Exts.walk + the cut *)
  Fixpoint walk (cut : bool) (fuel : nat) (start_len : N) (rest : slice) (next_header : N)
    (fragmented : bool) (f : fill) : res (slice * N * bool * option stop_error) :=
    match fuel with
    | O => Bug SITE_FUEL
    | S fu =>
        if cut && refilled f next_header then Ok (rest, next_header, fragmented, None)
        else
        if next_header =? IPN_HOP_BY_HOP then
          Ok (rest, next_header, fragmented,
              Some (EContent CeHopByHopNotAtStart, LyIpv6HopByHopHeader))
        else if (next_header =? IPN_DEST_OPTIONS) || (next_header =? IPN_ROUTE) then
          match Ipv6RawExtHeaderSlice.from_slice rest with
          | Ok sl =>
              let* n := subN (s_len rest) (s_len sl) in
              let* rest' := subU rest (s_len sl) n in
              let* nh := Ipv6RawExtHeaderSlice.next_header sl in
              walk cut fu start_len rest' nh fragmented (fill_add f next_header)
          | Err (ELen e) =>
              let* off := subN start_len (s_len rest) in
              Ok (rest, next_header, fragmented,
                  Some (ELen (le_add_offset e off),
                        if next_header =? IPN_DEST_OPTIONS then LyIpv6DestOptionsHeader
                        else LyIpv6RouteHeader))
          | Err (EContent _) => Bug SITE_UNWRAP
          | Bug b => Bug b
          end
        else if next_header =? IPN_FRAG then
          match Ipv6FragmentHeaderSlice.from_slice rest with
          | Ok sl =>
              let* n := subN (s_len rest) (s_len sl) in
              let* rest' := subU rest (s_len sl) n in
              let* nh := Ipv6FragmentHeaderSlice.next_header sl in
              let* fr := Ipv6FragmentHeaderSlice.is_fragmenting_payload sl in
              walk cut fu start_len rest' nh (fragmented || fr) (fill_add f next_header)
          | Err (ELen e) =>
              let* off := subN start_len (s_len rest) in
              Ok (rest, next_header, fragmented,
                  Some (ELen (le_add_offset e off), LyIpv6FragHeader))
          | Err (EContent _) => Bug SITE_UNWRAP
          | Bug b => Bug b
          end
        else if next_header =? IPN_AUTH then
          match IpAuthHeaderSlice.from_slice rest with
          | Ok sl =>
              let* n := subN (s_len rest) (s_len sl) in
              let* rest' := subU rest (s_len sl) n in
              let* nh := IpAuthHeaderSlice.next_header sl in
              walk cut fu start_len rest' nh fragmented (fill_add f next_header)
          | Err (ELen e) =>
              let* off := subN start_len (s_len rest) in
              Ok (rest, next_header, fragmented,
                  Some (ELen (le_add_offset e off), LyIpAuthHeader))
          | Err (EContent _) =>
              Ok (rest, next_header, fragmented,
                  Some (EContent CeIpv6AuthZeroPayloadLen, LyIpAuthHeader))
          | Bug b => Bug b
          end
        else Ok (rest, next_header, fragmented, None)
    end.

  (* LaxIpv6Exts.from_slice_lax *)
  Definition exts_from_slice_lax (cut : bool) (start_ip_number : N) (start_slice : slice)
    : res (ipv6_exts_slice * N * slice * option stop_error) :=
    let* st :=
      (if IPN_HOP_BY_HOP =? start_ip_number then
         match Ipv6RawExtHeaderSlice.from_slice start_slice with
         | Ok sl =>
             let* rest := (if s_len sl <=? s_len start_slice
                           then Ok (fst start_slice + s_len sl, drop (s_len sl) (snd start_slice))
                           else Bug SITE_INDEX) in
             let* nh := Ipv6RawExtHeaderSlice.next_header sl in
             Ok (rest, nh, None)
         | Err (ELen e) => Ok (start_slice, start_ip_number, Some (ELen e, LyIpv6HopByHopHeader))
         | Err (EContent _) => Bug SITE_UNWRAP
         | Bug b => Bug b
         end
       else Ok (start_slice, start_ip_number, None)) in
    let '(rest0, nh0, err0) := st in
    let* w :=
      match err0 with
      | Some e => Ok (rest0, nh0, false, Some e)
      | None => walk cut (S (length (snd start_slice))) (s_len start_slice) rest0 nh0 false fill_none
      end in
    let '(rest, next_header, fragmented, error) := w in
    let* used := subN (s_len start_slice) (s_len rest) in
    let* sl := (if used <=? s_len start_slice
                then Ok (fst start_slice, take used (snd start_slice)) else Bug SITE_INDEX) in
    Ok (mkIpv6Exts
          (if negb (s_len rest =? s_len start_slice) then Some start_ip_number else None)
          fragmented sl,
        next_header, rest, error).

  (* LaxIpv6Slice.finish *)
  Definition v6_finish (cut : bool) (header header_payload : slice) (src : len_source)
    (incomplete : bool) : res (lax_ipv6_slice * option stop_error) :=
    let* nh := Ipv6HeaderSlice.next_header header in
    let* x := exts_from_slice_lax cut nh header_payload in
    let '(exts, payload_ip_number, payload, ext_stop_err) := x in
    let ext_stop_err' :=
      match ext_stop_err with
      | Some (ELen l, ly) => Some (ELen (le_add_offset (le_set_src l src) 40), ly)
      | o => o
      end in
    Ok (mkLaxIpv6 header exts
          (mkLaxIpp incomplete payload_ip_number (x6_fragmented exts) src payload),
        ext_stop_err').

  (* LaxIpSlice.from_slice *)
  Definition ip_from_slice (cut : bool) (s : slice) : res (lax_ip_slice * option stop_error) :=
    if s_len s =? 0 then lerr 1 (s_len s) LsSlice LyIpHeader
    else
      let* first_byte := rdU s 0 in
      let ver := N.shiftr first_byte 4 in
      if ver =? 4 then
        let ihl := N.land first_byte 15 in
        if ihl <? 5 then Err (EContent (CeIpIhl ihl))
        else
          let header_len := ihl * 4 in
          if s_len s <? header_len then lerr header_len (s_len s) LsSlice LyIpv4Header
          else
            let* header := subU s 0 header_len in
            let* total_len := Ipv4HeaderSlice.total_len header in
            let* t := LaxIpv4Slice.select_payload s header_len total_len in
            let '(header_payload, src, incomplete) := t in
            let* r := LaxIpv4Slice.finish header header_payload src incomplete in
            let '(v, stop) := r in
            Ok (LIpV4 v,
                match stop with
                | Some (ELen l) => Some (ELen l, LyIpAuthHeader)
                | Some (EContent _) => Some (EContent CeIpv6AuthZeroPayloadLen, LyIpAuthHeader)
                | None => None
                end)
      else if ver =? 6 then
        if s_len s <? 40 then lerr 40 (s_len s) LsSlice LyIpv6Header
        else
          let* header := subU s 0 40 in
          let* pl := Ipv6HeaderSlice.payload_length header in
          let* t :=
            (if (0 =? pl) && (40 <? s_len s) then
               let* n := subN (s_len s) 40 in
               let* p := subU s 40 n in
               Ok (p, LsSlice, false)
             else
               let* d := subN (s_len s) 40 in
               if d <? pl then
                 let* n := subN (s_len s) 40 in
                 let* p := subU s 40 n in
                 Ok (p, LsSlice, true)
               else
                 let* p := subU s 40 pl in
                 Ok (p, LsIpv6HeaderPayloadLen, false)) in
          let '(header_payload, src, incomplete) := t in
          let* r := v6_finish cut header header_payload src incomplete in
          let '(v, stop) := r in
          Ok (LIpV6 v, stop)
      else Err (EContent (CeIpUnsupportedVersion ver)).

  (* LaxSlicedPacketCursor.slice_ip *)
  Definition slice_ip (cut : bool) (c : lax_cursor) (s : slice) : res lax_sliced_packet :=
    let r := lc_result c in
    match ip_from_slice cut s with
    | Err (ELen l) => Ok (with_stop r (ELen (fix_len l (lc_offset c) (lc_src c)), LyIpHeader))
    | Err (EContent ce) => Ok (with_stop r (EContent ce, LyIpHeader))
    | Bug b => Bug b
    | Ok (ip, stop) =>
        let r1 := with_net r (net_of_ip ip) in
        let r2 :=
          with_opt_stop r1
            (option_map (conv_ext_stop (is_v4 ip) (fun l => fix_len l (lc_offset c) (lc_src c)))
                        stop) in
        let payload := LaxIpSlice.payload ip in
        let* d := ptr_diff (lipp_slice payload) s in
        let src' := if is_slice_src (lipp_src payload) then lc_src c else lipp_src payload in
        slice_transport (mkLaxCursor (lc_offset c + d) src' r2) payload
    end.

  (* LaxSlicedPacketCursor.slice_ether_type_loop *)
  Fixpoint slice_ether_type_loop (cut : bool) (fuel : nat) (c : lax_cursor) (ep : ether_payload)
    : res lax_sliced_packet :=
    match fuel with
    | O => Bug SITE_FUEL
    | S f =>
        let r := lc_result c in
        let et := ep_ether_type ep in
        if is_vlan_type et then
          if LINK_EXTS_CAP <=? len (lsp_exts r) then Ok r
          else
            match SingleVlanSlice.from_slice (ep_slice ep) with
            | Err (ELen e) =>
                Ok (with_stop r (ELen (le_add_offset e (lc_offset c)), LyVlanHeader))
            | Err (EContent _) => Bug SITE_UNWRAP
            | Bug b => Bug b
            | Ok vlan =>
                let* vp := SingleVlanSlice.payload vlan in
                let* r' := push_ext r (LLeVlan vlan) in
                slice_ether_type_loop cut f
                  (mkLaxCursor (lc_offset c + SingleVlanSlice.header_len) (lc_src c) r')
                  (mkEtherPayload (ep_ether_type vp) (lc_src c) (ep_slice vp))
            end
        else if et =? ET_MACSEC then
          if LINK_EXTS_CAP <=? len (lsp_exts r) then Ok r
          else
            match LaxMacsecSlice.from_slice (ep_slice ep) with
            | Err (ELen e) =>
                Ok (with_stop r (ELen (le_add_offset e (lc_offset c)), le_layer e))
            | Err (EContent ce) => Ok (with_stop r (EContent ce, LyMacsecHeader))
            | Bug b => Bug b
            | Ok macsec =>
                let* hl := Macsec.header_len (lms_header macsec) in
                let* r' := push_ext r (LLeMacsec macsec) in
                match lms_payload macsec with
                | LMpUnmodified e =>
                    let src' := if negb (is_slice_src (lep_src e)) then lep_src e else lc_src c in
                    slice_ether_type_loop cut f
                      (mkLaxCursor (lc_offset c + hl) src' r')
                      (mkEtherPayload (lep_ether_type e) src' (lep_slice e))
                | LMpModified _ _ => Ok r'
                end
            end
        else if et =? ET_ARP then slice_arp c (ep_slice ep)
        else if et =? ET_IPV4 then slice_ip cut c (ep_slice ep)
        else if et =? ET_IPV6 then slice_ip cut c (ep_slice ep)
        else Ok r
    end.

  Definition slice_ether_type (cut : bool) (c : lax_cursor) (ep : ether_payload)
    : res lax_sliced_packet := slice_ether_type_loop cut 5 c ep.

  Definition parse_from_ethernet2 (cut : bool) (s : slice) : res lax_sliced_packet :=
    let* r := Ethernet2Slice.from_slice_without_fcs s in
    let* ep := Ethernet2Slice.payload r in
    slice_ether_type cut
      (mkLaxCursor (0 + Ethernet2Slice.header_len) LsSlice (with_link empty (LkEthernet2 r))) ep.

  Definition parse_from_ether_type (cut : bool) (ether_type : N) (s : slice)
    : res lax_sliced_packet :=
    let ep := mkEtherPayload ether_type LsSlice s in
    slice_ether_type cut (mkLaxCursor 0 LsSlice (with_link empty (LkEtherPayload ep))) ep.

  Definition parse_from_ip (cut : bool) (s : slice) : res lax_sliced_packet :=
    let* x := ip_from_slice cut s in
    let '(ip, stop) := x in
    let payload := LaxIpSlice.payload ip in
    let* offset := ptr_diff (lipp_slice payload) s in
    let r :=
      mkLaxSliced None [] (Some (net_of_ip ip)) None
        (option_map (conv_ext_stop (is_v4 ip) (fun l => l)) stop) in
    slice_transport (mkLaxCursor offset LsSlice r) payload.

  Definition from_ethernet (cut : bool) (data : bytes) : res lax_sliced_packet :=
    parse_from_ethernet2 cut (mk_slice data).
  Definition from_ether_type (cut : bool) (ether_type : N) (data : bytes) : res lax_sliced_packet :=
    parse_from_ether_type cut ether_type (mk_slice data).
  Definition from_ip (cut : bool) (data : bytes) : res lax_sliced_packet :=
    parse_from_ip cut (mk_slice data).
End LaxCut.

(* the cut happened: the result's IPv6 payload is announced as an extension header
   (never the case in an uncut lax result without stop error: the walk consumes them) *)
Definition lax_stopped_at_ext (r : res lax_sliced_packet) : bool :=
  match r with
  | Ok p =>
      match lsp_net p, lsp_stop_err p with
      | Some (LNtIpv6 v), None => is_ext_number (lipp_number (lv6_payload v))
      | _, _ => false
      end
  | _ => false
  end.

(* ---- a lax slicing result converted with to_header() ------------------------------- *)
Definition lconv_link (l : link_slice) : option hvlink :=
  match l with
  | LkEthernet2 s => Some (HvlEthernet2 (s_off s, 14))
  | LkLinuxSll h _ => Some (HvlLinuxSll (win_of h))
  | LkEtherPayload _ => None
  end.

Definition lconv_ext (x : lax_link_ext_slice) : hvext :=
  match x with
  | LLeVlan s => HvVlan (s_off s, 4)
  | LLeMacsec m => HvMacsec (win_of (lms_header m))
  end.

Definition lconv_net (n : lax_net_slice) : hvnet :=
  match n with
  | LNtIpv4 v => HvIpv4 (win_of (lv4_header v)) (option_map win_of (lv4_auth v))
  | LNtIpv6 v => HvIpv6 (win_of (lv6_header v)) (x6_first (lv6_exts v)) (x6_fragmented (lv6_exts v))
                   (win_of (x6_slice (lv6_exts v)))
  | LNtArp s => HvArp (win_of s)
  end.

Definition lnp (n : lax_net_slice) : option lax_ip_payload :=
  match n with
  | LNtIpv4 v => Some (lv4_payload v)
  | LNtIpv6 v => Some (lv6_payload v)
  | LNtArp _ => None
  end.

(* the loop in LaxSlicedPacket::ether_payload() (VLAN arm): the last length source other
   than Slice among the payloads of the link extensions (LaxLinkExtSlice::payload():
   a VLAN payload says Slice, a modified MACsec payload is None) *)
Fixpoint lexts_src (l : list lax_link_ext_slice) (acc : len_source) : len_source :=
  match l with
  | [] => acc
  | LLeVlan _ :: r => lexts_src r acc
  | LLeMacsec m :: r =>
      match lms_payload m with
      | LMpUnmodified e => lexts_src r (match lep_src e with LsSlice => acc | s => s end)
      | LMpModified _ _ => lexts_src r acc
      end
  end.

(* LaxSlicedPacket::ether_payload() (a modified MACsec payload is handed out as such) *)
Definition lconv_ether_payload (p : lax_sliced_packet) : res lhvpayload :=
  match last (map Some (lsp_exts p)) None with
  | Some (LLeVlan s) =>
      let* e := SingleVlanSlice.payload s in
      Ok (LHvpEther (mkLVEp false (ep_ether_type e) (lexts_src (lsp_exts p) LsSlice)
                            (win_of (ep_slice e))))
  | Some (LLeMacsec m) =>
      match lms_payload m with
      | LMpUnmodified e => Ok (LHvpEther (lview_ep e))
      | LMpModified i s => Ok (LHvpMacsecMod i (win_of s))
      end
  | None =>
      match lsp_link p with
      | Some (LkEthernet2 s) =>
          let* e := Ethernet2Slice.payload s in
          Ok (LHvpEther (mkLVEp false (ep_ether_type e) LsSlice (win_of (ep_slice e))))
      | Some (LkEtherPayload e) =>
          Ok (LHvpEther (mkLVEp false (ep_ether_type e) LsSlice (win_of (ep_slice e))))
      | _ => Ok LHvpEmpty
      end
  end.

(* innermost payload: of the transport slice (with the IP payload's incomplete flag), else
   of the IP slice, nothing behind ARP, else the last ether payload *)
Definition lconv (p : lax_sliced_packet) : res lhview :=
  let inc := match lsp_net p with
             | Some n => match lnp n with Some ip => lipp_incomplete ip | None => false end
             | None => false
             end in
  let* tp :=
    (match lsp_transport p with
     | Some t => let* r := lconv_tr inc t in Ok (Some (fst r), snd r)
     | None =>
         match lsp_net p with
         | Some (LNtIpv4 v) => Ok (None, LHvpIp (lview_ipp (lv4_payload v)))
         | Some (LNtIpv6 v) => Ok (None, LHvpIp (lview_ipp (lv6_payload v)))
         | Some (LNtArp _) => Ok (None, LHvpEmpty)
         | None => let* e := lconv_ether_payload p in Ok (None, e)
         end
     end) in
  Ok (mkLHv (match lsp_link p with Some l => lconv_link l | None => None end)
            (map lconv_ext (lsp_exts p)) (option_map lconv_net (lsp_net p)) (fst tp) (snd tp)
            (lsp_stop_err p)).

Definition lhvres_of_s (r : res lax_sliced_packet) : lhvres :=
  match r with
  | Ok p => match lconv p with Ok v => LHOk v | Err e => LHErr e | Bug b => LHBug b end
  | Err e => LHErr e
  | Bug b => LHBug b
  end.

(* ---- the relation --------------------------------------------------------------------- *)
(* length error records: equal, or the struct family says Slice where the slicing family
   names the MACsec short length (observation (C) of notes/C04.md) *)
Definition lerr_rel (h s : len_error) : Prop := h = s \/ h = le_set_src s LsSlice.

(* F11: a first IPv4 header cut short (fewer than 20 bytes present): IpHeaders::from_slice_lax
   tests `len < 20` first, LaxIpSlice::from_slice reads the IHL first.  Same layer, same
   `len`, same offset; the record differs *)
Definition f11_pair (eh es : slice_error) : Prop :=
  exists n off, n < 20 /\ eh = ELen (mkLenError 20 n LsSlice LyIpv4Header off) /\
    ((exists i, i < 5 /\ es = EContent (CeIpIhl i)) \/
     (exists hl src, 20 <= hl /\ es = ELen (mkLenError hl n src LyIpv4Header off))).

(* `f11 = true`: the F11 pair is admitted on the layer tag IpHeader *)
Definition stop_rel (f11 : bool) (h s : option stop_error) : Prop :=
  match h, s with
  | None, None => True
  | Some (eh, ly), Some (es, ly') =>
      ly = ly' /\
      (match eh, es with
       | ELen lh, ELen ls => lerr_rel lh ls
       | EContent c, EContent c' => c = c'
       | _, _ => False
       end \/ (f11 = true /\ ly = LyIpHeader /\ f11_pair eh es))
  | _, _ => False
  end.

(* the class, read off the LaxPacketHeaders result: stop error `Len{required 20, len < 20,
   layer Ipv4Header}` on the layer tag IpHeader *)
Definition f11_stop (o : option stop_error) : bool :=
  match o with
  | Some (ELen l, LyIpHeader) =>
      (le_required l =? 20) && (le_len l <? 20) &&
      match le_layer l with LyIpv4Header => true | _ => false end
  | _ => false
  end.

Definition lax_f11 (h : res lhpacket) : bool :=
  match h with Ok p => f11_stop (lh_stop p) | _ => false end.

(* LaxPacketHeaders carries the length source of an earlier MACsec short length forward
   into its ether payload, LaxSlicedPacket::ether_payload() hands out the last extension's
   own (observation (D)): the struct family's payload is the slicing family's with the
   carried-forward source *)
Definition carry_src (sp : lax_sliced_packet) (pl : lhvpayload) : lhvpayload :=
  match pl with
  | LHvpEther e =>
      LHvpEther (mkLVEp (lvep_incomplete e) (lvep_type e) (lexts_src (lsp_exts sp) LsSlice) (lvep_win e))
  | x => x
  end.

Definition lhv_rel (f11 : bool) (sp : lax_sliced_packet) (v v' : lhview) : Prop :=
  lhv_link v = lhv_link v' /\ lhv_exts v = lhv_exts v' /\ lhv_net v = lhv_net v' /\
  lhv_tr v = lhv_tr v' /\ lhv_payload v = carry_src sp (lhv_payload v') /\
  stop_rel f11 (lhv_stop v) (lhv_stop v').

(* same verdict; Ok: same layers with the same header windows, same payload (kind, numbers,
   incomplete flag, window; length source as `carry_src`), stop errors related by `stop_rel`;
   Err: the same error record; neither side (nor its view) is Bug *)
Definition lhagree (f11 : bool) (h : res lhpacket) (s : res lax_sliced_packet) : Prop :=
  match h, s with
  | Ok p, Ok sp =>
      exists v v', lhview_of p = Ok v /\ lconv sp = Ok v' /\ lhv_rel f11 sp v v'
  | Err e, Err e' => e = e'
  | _, _ => False
  end.
