(* Parse/HdrLaxCutProofs.v -- the cut variant of the lax slicing algorithm (HdrLaxCut.v):
   with cut = false it IS the lax slicing model; with cut = true it differs from it only
   by having stopped (without stop error) in front of a refilled IPv6 extension header. *)
From EP Require Import Base.Bytes Parse.Types Parse.Slices Parse.Cursor Parse.View
  Parse.LaxSlices Parse.LaxCursor Parse.LaxView Parse.HdrModel Parse.HdrView Parse.HdrCut
  Parse.HdrProofs Parse.HdrLaxModel Parse.HdrLaxView Parse.HdrLaxCut.
From Coq Require Import ZArith Lia ZifyN ZifyBool.
Import LaxSlicedPacketCursor.

Local Open Scope N_scope.

(* ====================================================================== *)
(* Part 1: cut = false                                                     *)
(* ====================================================================== *)
Lemma lcut_false_walk fuel : forall start_len rest nh fr f,
  LaxCut.walk false fuel start_len rest nh fr f = LaxIpv6Exts.walk fuel start_len rest nh fr.
Proof.
  induction fuel as [|fu IH]; intros; [reflexivity|].
  cbn [LaxCut.walk LaxIpv6Exts.walk andb].
  destruct (nh =? IPN_HOP_BY_HOP); [reflexivity|].
  destruct ((nh =? IPN_DEST_OPTIONS) || (nh =? IPN_ROUTE)).
  { destruct (Ipv6RawExtHeaderSlice.from_slice rest) as [sl|[l|c]|b]; try reflexivity.
    destruct (subN _ _); cbn [bind]; try reflexivity.
    destruct (subU _ _ _); cbn [bind]; try reflexivity.
    destruct (Ipv6RawExtHeaderSlice.next_header _); cbn [bind]; try reflexivity. apply IH. }
  destruct (nh =? IPN_FRAG).
  { destruct (Ipv6FragmentHeaderSlice.from_slice rest) as [sl|[l|c]|b]; try reflexivity.
    destruct (subN _ _); cbn [bind]; try reflexivity.
    destruct (subU _ _ _); cbn [bind]; try reflexivity.
    destruct (Ipv6FragmentHeaderSlice.next_header _); cbn [bind]; try reflexivity.
    destruct (Ipv6FragmentHeaderSlice.is_fragmenting_payload _); cbn [bind]; try reflexivity. apply IH. }
  destruct (nh =? IPN_AUTH); [|reflexivity].
  destruct (IpAuthHeaderSlice.from_slice rest) as [sl|[l|c]|b]; try reflexivity.
  destruct (subN _ _); cbn [bind]; try reflexivity.
  destruct (subU _ _ _); cbn [bind]; try reflexivity.
  destruct (IpAuthHeaderSlice.next_header _); cbn [bind]; try reflexivity. apply IH.
Qed.

Lemma lcut_false_exts nh s : LaxCut.exts_from_slice_lax false nh s = LaxIpv6Exts.from_slice_lax nh s.
Proof.
  unfold LaxCut.exts_from_slice_lax, LaxIpv6Exts.from_slice_lax.
  destruct (if IPN_HOP_BY_HOP =? nh then _ else _) as [[[r0 n0] [e0|]]|e|b]; cbn [bind]; try reflexivity.
  now rewrite lcut_false_walk.
Qed.

Lemma lcut_false_v6_finish h hp src inc :
  LaxCut.v6_finish false h hp src inc = LaxIpv6Slice.finish h hp src inc.
Proof.
  unfold LaxCut.v6_finish, LaxIpv6Slice.finish.
  destruct (Ipv6HeaderSlice.next_header h); cbn [bind]; try reflexivity.
  now rewrite lcut_false_exts.
Qed.

Lemma lcut_false_ip s : LaxCut.ip_from_slice false s = LaxIpSlice.from_slice s.
Proof.
  unfold LaxCut.ip_from_slice, LaxIpSlice.from_slice.
  destruct (s_len s =? 0); [reflexivity|].
  destruct (rdU s 0); cbn [bind]; try reflexivity.
  destruct (N.shiftr a 4 =? 4); [reflexivity|].
  destruct (N.shiftr a 4 =? 6); [|reflexivity].
  destruct (s_len s <? 40); [reflexivity|].
  destruct (subU s 0 40); cbn [bind]; try reflexivity.
  destruct (Ipv6HeaderSlice.payload_length _); cbn [bind]; try reflexivity.
  destruct (if (0 =? a1) && (40 <? s_len s) then _ else _) as [[[hp src] inc]|e|b]; cbn [bind]; try reflexivity.
  now rewrite lcut_false_v6_finish.
Qed.

Lemma lcut_false_slice_ip c s : LaxCut.slice_ip false c s = slice_ip c s.
Proof. unfold LaxCut.slice_ip, slice_ip. now rewrite lcut_false_ip. Qed.

Lemma lcut_false_loop fuel : forall c ep,
  LaxCut.slice_ether_type_loop false fuel c ep = slice_ether_type_loop fuel c ep.
Proof.
  induction fuel as [|f IH]; intros; [reflexivity|].
  cbn [LaxCut.slice_ether_type_loop slice_ether_type_loop].
  destruct (is_vlan_type (ep_ether_type ep)).
  { destruct (LINK_EXTS_CAP <=? _); [reflexivity|].
    destruct (SingleVlanSlice.from_slice _) as [v|[l|ce]|b]; try reflexivity.
    destruct (SingleVlanSlice.payload _); cbn [bind]; try reflexivity.
    destruct (push_ext _ _); cbn [bind]; try reflexivity. apply IH. }
  destruct (ep_ether_type ep =? ET_MACSEC).
  { destruct (LINK_EXTS_CAP <=? _); [reflexivity|].
    destruct (LaxMacsecSlice.from_slice _) as [m|[l|ce]|b]; try reflexivity.
    destruct (Macsec.header_len _); cbn [bind]; try reflexivity.
    destruct (push_ext _ _); cbn [bind]; try reflexivity.
    destruct (lms_payload m); [apply IH|reflexivity]. }
  destruct (ep_ether_type ep =? ET_ARP); [reflexivity|].
  destruct (ep_ether_type ep =? ET_IPV4); [apply lcut_false_slice_ip|].
  destruct (ep_ether_type ep =? ET_IPV6); [apply lcut_false_slice_ip|reflexivity].
Qed.

Theorem lcut_false_from_ethernet bs : LaxCut.from_ethernet false bs = LaxSlicedPacket.from_ethernet bs.
Proof.
  unfold LaxCut.from_ethernet, LaxSlicedPacket.from_ethernet, LaxCut.parse_from_ethernet2,
    parse_from_ethernet2.
  destruct (Ethernet2Slice.from_slice_without_fcs (mk_slice bs)) as [r|e|b]; cbn [bind]; [|reflexivity|reflexivity].
  destruct (Ethernet2Slice.payload r) as [ep|e|b]; cbn [bind]; [|reflexivity|reflexivity].
  unfold LaxCut.slice_ether_type, slice_ether_type. apply lcut_false_loop.
Qed.

Theorem lcut_false_from_ether_type et bs :
  LaxCut.from_ether_type false et bs = LaxSlicedPacket.from_ether_type et bs.
Proof.
  unfold LaxCut.from_ether_type, LaxSlicedPacket.from_ether_type, LaxCut.parse_from_ether_type,
    parse_from_ether_type, LaxCut.slice_ether_type, slice_ether_type. apply lcut_false_loop.
Qed.

Theorem lcut_false_from_ip bs : LaxCut.from_ip false bs = LaxSlicedPacket.from_ip bs.
Proof.
  unfold LaxCut.from_ip, LaxSlicedPacket.from_ip, LaxCut.parse_from_ip, parse_from_ip.
  now rewrite lcut_false_ip.
Qed.

(* ====================================================================== *)
(* Part 2: cut = true differs only by having stopped                       *)
(* ====================================================================== *)
Definition wstopped (w : slice * N * bool * option stop_error) : Prop :=
  is_ext_number (snd (fst (fst w))) = true /\ snd w = None.

Lemma ldich_walk fuel : forall start rest nh fr f,
  dich wstopped (LaxCut.walk true fuel start rest nh fr f) (LaxCut.walk false fuel start rest nh fr f).
Proof.
  induction fuel as [|fu IH]; intros; [now left|].
  cbn [LaxCut.walk andb].
  destruct (refilled f nh) eqn:Er.
  { right. left. eexists. split; [reflexivity|]. split; [|reflexivity]. cbn. now apply (refilled_ext f). }
  destruct (nh =? IPN_HOP_BY_HOP); [now left|].
  destruct ((nh =? IPN_DEST_OPTIONS) || (nh =? IPN_ROUTE)).
  { destruct (Ipv6RawExtHeaderSlice.from_slice rest) as [sl|[l|c]|b]; try (now left).
    destruct (subN _ _); cbn [bind]; try (now left).
    destruct (subU _ _ _); cbn [bind]; try (now left).
    destruct (Ipv6RawExtHeaderSlice.next_header _); cbn [bind]; try (now left). apply IH. }
  destruct (nh =? IPN_FRAG).
  { destruct (Ipv6FragmentHeaderSlice.from_slice rest) as [sl|[l|c]|b]; try (now left).
    destruct (subN _ _); cbn [bind]; try (now left).
    destruct (subU _ _ _); cbn [bind]; try (now left).
    destruct (Ipv6FragmentHeaderSlice.next_header _); cbn [bind]; try (now left).
    destruct (Ipv6FragmentHeaderSlice.is_fragmenting_payload _); cbn [bind]; try (now left). apply IH. }
  destruct (nh =? IPN_AUTH); [|now left].
  destruct (IpAuthHeaderSlice.from_slice rest) as [sl|[l|c]|b]; try (now left).
  destruct (subN _ _); cbn [bind]; try (now left).
  destruct (subU _ _ _); cbn [bind]; try (now left).
  destruct (IpAuthHeaderSlice.next_header _); cbn [bind]; try (now left). apply IH.
Qed.

Definition xstopped (x : ipv6_exts_slice * N * slice * option stop_error) : Prop :=
  is_ext_number (snd (fst (fst x))) = true /\ snd x = None.

Lemma ldich_exts nh s :
  dich xstopped (LaxCut.exts_from_slice_lax true nh s) (LaxCut.exts_from_slice_lax false nh s).
Proof.
  unfold LaxCut.exts_from_slice_lax.
  destruct (if IPN_HOP_BY_HOP =? nh then _ else _) as [[[r0 n0] [e0|]]|e|b]; cbn [bind]; try (now left).
  destruct (ldich_walk (S (length (snd s))) (s_len s) r0 n0 false fill_none) as [E|[(w & E & P)|(b & E)]].
  - left. now rewrite E.
  - rewrite E. cbn [bind]. destruct w as [[[r k] fr] st]. destruct P as (P1 & P2). cbn in P1, P2. subst st.
    destruct (subN_cases (s_len s) (s_len r)) as [(a & ->)| ->]; cbn [bind].
    + destruct (a <=? s_len s); cbn [bind].
      * right. left. eexists. split; [reflexivity|]. split; [exact P1|reflexivity].
      * right. right. eexists. reflexivity.
    + right. right. eexists. reflexivity.
  - rewrite E. right. right. eexists. reflexivity.
Qed.

Definition lv6_ext (r : lax_ipv6_slice * option stop_error) : Prop :=
  is_ext_number (lipp_number (lv6_payload (fst r))) = true /\ snd r = None.

Lemma ldich_v6_finish h hp src inc :
  dich lv6_ext (LaxCut.v6_finish true h hp src inc) (LaxCut.v6_finish false h hp src inc).
Proof.
  unfold LaxCut.v6_finish.
  destruct (Ipv6HeaderSlice.next_header h) as [nh|e|b]; cbn [bind]; try (now left).
  destruct (ldich_exts nh hp) as [E|[(w & E & P)|(b & E)]].
  - left. now rewrite E.
  - rewrite E. destruct w as [[[x k] r] st]. destruct P as (P1 & P2). cbn in P1, P2. subst st. cbn [bind].
    right. left. eexists. split; [reflexivity|]. split; [exact P1|reflexivity].
  - rewrite E. right. right. eexists. reflexivity.
Qed.

Definition lip_ext (r : lax_ip_slice * option stop_error) : Prop :=
  exists v, fst r = LIpV6 v /\ is_ext_number (lipp_number (lv6_payload v)) = true /\ snd r = None.

Lemma ldich_ip s :
  dich lip_ext (LaxCut.ip_from_slice true s) (LaxCut.ip_from_slice false s).
Proof.
  unfold LaxCut.ip_from_slice.
  destruct (s_len s =? 0); [now left|].
  destruct (rdU s 0); cbn [bind]; try (now left).
  destruct (N.shiftr a 4 =? 4); [now left|].
  destruct (N.shiftr a 4 =? 6); [|now left].
  destruct (s_len s <? 40); [now left|].
  destruct (subU s 0 40) as [h|e|b]; cbn [bind]; try (now left).
  destruct (Ipv6HeaderSlice.payload_length h) as [pl|e|b]; cbn [bind]; try (now left).
  destruct (if (0 =? pl) && (40 <? s_len s) then _ else _) as [[[hp src] inc]|e|b]; cbn [bind]; try (now left).
  destruct (ldich_v6_finish h hp src inc) as [E|[(w & E & P)|(b & E)]].
  - left. now rewrite E.
  - rewrite E. cbn [bind]. destruct w as [v st]. destruct P as (P1 & P2). cbn in P1, P2. subst st.
    right. left. eexists. split; [reflexivity|]. exists v. cbn. auto.
  - rewrite E. right. right. eexists. reflexivity.
Qed.

Lemma lslice_transport_ext c p :
  is_ext_number (lipp_number p) = true -> slice_transport c p = Ok (lc_result c).
Proof.
  unfold is_ext_number, slice_transport. intros H.
  destruct (lipp_fragmented p || has_stop (lc_result c)); [reflexivity|].
  destruct (lipp_number p =? IPN_ICMP) eqn:E1; [apply N.eqb_eq in E1; rewrite E1 in H; discriminate H|].
  destruct (lipp_number p =? IPN_UDP) eqn:E2; [apply N.eqb_eq in E2; rewrite E2 in H; discriminate H|].
  destruct (lipp_number p =? IPN_TCP) eqn:E3; [apply N.eqb_eq in E3; rewrite E3 in H; discriminate H|].
  destruct (lipp_number p =? IPN_ICMPV6) eqn:E4; [apply N.eqb_eq in E4; rewrite E4 in H; discriminate H|].
  reflexivity.
Qed.

Definition lsp_stopped (sp : lax_sliced_packet) : Prop := lax_stopped_at_ext (Ok sp) = true.

Lemma ldich_slice_ip c s : lsp_stop_err (lc_result c) = None ->
  dich lsp_stopped (LaxCut.slice_ip true c s) (LaxCut.slice_ip false c s).
Proof.
  intros Hs. unfold LaxCut.slice_ip.
  destruct (ldich_ip s) as [E|[(i & E & (v & Ev & P & Pn))|(b & E)]].
  - left. now rewrite E.
  - rewrite E. destruct i as [i st]. cbn in Ev, Pn. subst i st.
    cbn [option_map with_opt_stop LaxIpSlice.payload]. unfold ptr_diff.
    destruct (subN_cases (s_off (lipp_slice (lv6_payload v))) (s_off s)) as [(d & ->)| ->]; cbn [bind].
    + rewrite lslice_transport_ext by exact P. right. left. eexists. split; [reflexivity|].
      unfold lsp_stopped, lax_stopped_at_ext. cbn. rewrite Hs. exact P.
    + right. right. eexists. reflexivity.
  - rewrite E. right. right. eexists. reflexivity.
Qed.

Lemma push_ext_stop r x r' : push_ext r x = Ok r' -> lsp_stop_err r' = lsp_stop_err r.
Proof.
  unfold push_ext. destruct (len (lsp_exts r) <? LINK_EXTS_CAP); [|discriminate].
  intros H. injection H as <-. reflexivity.
Qed.

Lemma ldich_loop fuel : forall c ep, lsp_stop_err (lc_result c) = None ->
  dich lsp_stopped (LaxCut.slice_ether_type_loop true fuel c ep)
                   (LaxCut.slice_ether_type_loop false fuel c ep).
Proof.
  induction fuel as [|f IH]; intros c ep Hs; [now left|].
  cbn [LaxCut.slice_ether_type_loop].
  destruct (is_vlan_type (ep_ether_type ep)).
  { destruct (LINK_EXTS_CAP <=? _); [now left|].
    destruct (SingleVlanSlice.from_slice _) as [v|[l|ce]|b]; try (now left).
    destruct (SingleVlanSlice.payload _); cbn [bind]; try (now left).
    destruct (push_ext _ _) eqn:Ep; cbn [bind]; try (now left). apply IH.
    cbn [lc_result]. now rewrite (push_ext_stop _ _ _ Ep). }
  destruct (ep_ether_type ep =? ET_MACSEC).
  { destruct (LINK_EXTS_CAP <=? _); [now left|].
    destruct (LaxMacsecSlice.from_slice _) as [m|[l|ce]|b]; try (now left).
    destruct (Macsec.header_len _); cbn [bind]; try (now left).
    destruct (push_ext _ _) eqn:Ep; cbn [bind]; try (now left).
    destruct (lms_payload m); [|now left]. apply IH.
    cbn [lc_result]. now rewrite (push_ext_stop _ _ _ Ep). }
  destruct (ep_ether_type ep =? ET_ARP); [now left|].
  destruct (ep_ether_type ep =? ET_IPV4); [now apply ldich_slice_ip|].
  destruct (ep_ether_type ep =? ET_IPV6); [now apply ldich_slice_ip|now left].
Qed.

Lemma ldich_done (x y : res lax_sliced_packet) :
  dich lsp_stopped x y -> lax_stopped_at_ext x = false -> (forall b, x <> Bug b) -> x = y.
Proof.
  intros [E|[(v & E & P)|(b & E)]] Hs Hb; [exact E| |].
  - rewrite E in Hs. unfold lsp_stopped in P. congruence.
  - now destruct (Hb b).
Qed.

Theorem lcut_only_when_stopped_ethernet bs :
  lax_stopped_at_ext (LaxCut.from_ethernet true bs) = false ->
  (forall b, LaxCut.from_ethernet true bs <> Bug b) ->
  LaxCut.from_ethernet true bs = LaxSlicedPacket.from_ethernet bs.
Proof.
  intros Hs Hb. rewrite <- lcut_false_from_ethernet. apply ldich_done; auto.
  unfold LaxCut.from_ethernet, LaxCut.parse_from_ethernet2.
  destruct (Ethernet2Slice.from_slice_without_fcs (mk_slice bs)) as [r|e|b]; cbn [bind]; [|now left|now left].
  destruct (Ethernet2Slice.payload r) as [ep|e|b]; cbn [bind]; [|now left|now left].
  unfold LaxCut.slice_ether_type. now apply ldich_loop.
Qed.

Theorem lcut_only_when_stopped_ether_type et bs :
  lax_stopped_at_ext (LaxCut.from_ether_type true et bs) = false ->
  (forall b, LaxCut.from_ether_type true et bs <> Bug b) ->
  LaxCut.from_ether_type true et bs = LaxSlicedPacket.from_ether_type et bs.
Proof.
  intros Hs Hb. rewrite <- lcut_false_from_ether_type. apply ldich_done; auto.
  unfold LaxCut.from_ether_type, LaxCut.parse_from_ether_type, LaxCut.slice_ether_type.
  now apply ldich_loop.
Qed.

Theorem lcut_only_when_stopped_ip bs :
  lax_stopped_at_ext (LaxCut.from_ip true bs) = false ->
  (forall b, LaxCut.from_ip true bs <> Bug b) ->
  LaxCut.from_ip true bs = LaxSlicedPacket.from_ip bs.
Proof.
  intros Hs Hb. rewrite <- lcut_false_from_ip. apply ldich_done; auto.
  unfold LaxCut.from_ip, LaxCut.parse_from_ip.
  destruct (ldich_ip (mk_slice bs)) as [E|[(i & E & (v & Ev & P & Pn))|(b & E)]].
  - left. now rewrite E.
  - rewrite E. destruct i as [i st]. cbn in Ev, Pn. subst i st.
    cbn [bind option_map LaxIpSlice.payload]. unfold ptr_diff.
    destruct (subN_cases (s_off (lipp_slice (lv6_payload v))) (s_off (mk_slice bs))) as [(d & ->)| ->]; cbn [bind].
    + rewrite lslice_transport_ext by exact P. right. left. eexists. split; [reflexivity|].
      unfold lsp_stopped, lax_stopped_at_ext. cbn. exact P.
    + right. right. eexists. reflexivity.
  - rewrite E. right. right. eexists. reflexivity.
Qed.
