(* Parse/DelegatedTruth.v -- round 3 (agent c07sl): property C07 for the decoders whose error
   theorems so far lived in Props/C05.v only, restated as C07 statements (truthful record AND
   direction of the length error), by composition of existing theorems; nothing new is modelled.

   * `headers_f11_record`: what PacketHeaders::from_ip_slice reports inside the class F11 (first
     nibble 4, fewer than 20 bytes) is exactly the record of the IPv4 reference decoder started
     at offset 0 (`wire_ipv4`), and it agrees with the nibble-dispatching reference decoder
     `wire_from_ip` in layer, offset and available bytes whenever that reports a length error.
   * `lax_stop_truthful`: every stop error of LaxSlicedPacket (3 entry points) is related to the
     rejection of the strict reference decoder for the same bytes.
   * `hdr_lax_stop_truthful`: the same for LaxPacketHeaders (3 entry points), from the side of
     the reference decoder.
   * `lax_stop_after_ip_fallback`: the stop error behind an IPv4 total length / IPv6 payload
     length fallback is the rejection of the RESUMED reference decoding (pwire2 `P2Fb`). *)
From EP Require Import Base.Bytes Parse.Types Parse.Slices Parse.Cursor Parse.View Parse.WireSpec Parse.Repr
  Parse.StrictProofs Parse.WireSpecFacts Parse.StrictFacts
  Parse.LaxSlices Parse.LaxCursor Parse.LaxView Parse.LaxProofs Parse.LaxFacts
  Parse.LaxWire Parse.LaxWireProofs Parse.LaxWireFacts Parse.LaxPrefix Parse.LaxWire2 Parse.LaxPrefixNet
  Parse.LaxHdrFacts Parse.HdrModel Parse.HdrView Parse.HdrCut Parse.HdrProofs3 Parse.HdrErrTruth
  Parse.HdrErrFacts Parse.HdrLaxModel Parse.HdrLaxView Parse.HdrLaxCut Parse.HdrLaxC05 Parse.LaxHdrPrefix2.
From Coq Require Import ZArith Lia ZifyN ZifyBool.

Local Open Scope N_scope.

(* ---- PacketHeaders::from_ip_slice inside F11 ------------------------------------------------- *)
Theorem headers_f11_record bs : bytes_ok bs -> F11 bs = true ->
  PacketHeaders.from_ip_slice bs = Err (ELen (mkLenError 20 (len bs) LsSlice LyIpv4Header 0)) /\
  wire_ipv4 bs empty_packet LsSlice 0 (len bs) =
    VErr (ELen (mkLenError 20 (len bs) LsSlice LyIpv4Header 0)) /\
  0 < len bs < 20 /\ B bs 0 / 16 = 4 /\
  wire_from_ip bs =
    VErr (if B bs 0 mod 16 <? 5 then EContent (CeIpIhl (B bs 0 mod 16))
          else ELen (mkLenError (B bs 0 mod 16 * 4) (len bs) LsSlice LyIpv4Header 0)) /\
  len_direction (mkLenError 20 (len bs) LsSlice LyIpv4Header 0).
Proof.
  intros Hok Hf. split; [now apply hdr_f11_error|].
  destruct bs as [|b0 r]; [discriminate|]. unfold F11 in Hf.
  apply andb_prop in Hf. destruct Hf as (V4 & L20).
  rewrite shr4_div16 in V4.
  assert (HB : B (b0 :: r) 0 = b0) by reflexivity.
  assert (Hl : 0 < len (b0 :: r)) by (rewrite len_cons; lia).
  split.
  { unfold wire_ipv4. rewrite N.sub_0_r. rewrite L20. reflexivity. }
  split; [lia|]. split; [rewrite HB; lia|]. split.
  - unfold wire_from_ip, wire_ip, n_bs. rewrite N.sub_0_r. rewrite HB.
    destruct (len (b0 :: r) =? 0) eqn:E0; [lia|]. rewrite V4.
    destruct (b0 mod 16 <? 5) eqn:Ei; [reflexivity|].
    destruct (len (b0 :: r) <? b0 mod 16 * 4) eqn:El; [reflexivity|lia].
  - unfold len_direction. cbn [le_layer le_len le_required]. lia.
Qed.

(* ---- lax stop errors ---------------------------------------------------------------------------- *)
(* what a recorded stop error (e', tag ly) is, relative to the rejection e_ref of the strict
   reference decoder *)
Definition stop_truthful (e_ref e' : slice_error) (ly : layer) : Prop :=
  (* the same fault: C07 relation, fitting tag, direction *)
  (c07_truthful (VErr e') (VErr e_ref) /\ tag_ok e' ly /\
   (forall l, e' = ELen l -> len_direction l)) \/
  (* F11 group: both are faults of the IP header itself, at the same offset, tag IpHeader *)
  (ip_hdr_class e_ref /\ ip_hdr_class e' /\ ly = LyIpHeader /\
   (forall o o', err_off e_ref = Some o -> err_off e' = Some o' -> o = o')) \/
  (* e_ref is a documented length fallback: lax went on with the data that is there, the stop
     error stems from the resumed decoding (lax_stop_after_ip_fallback) *)
  fallback e_ref.

Lemma lax_same_truthful a b : lax_same a b -> c07_truthful (VErr b) (VErr a).
Proof.
  destruct a as [a|a], b as [b|b]; cbn; try contradiction.
  - intros (H1 & H2 & H3 & H4 & H5). exists a. repeat split; auto.
    intros NF. destruct H5 as [H|[H|(H & H')]]; auto.
    exfalso. apply NF. left. auto.
  - now intros ->.
Qed.

Lemma lax_same_direction a b :
  lax_same a b -> (forall l, a = ELen l -> len_direction l) -> forall l, b = ELen l -> len_direction l.
Proof.
  destruct a as [a|a], b as [b|b]; cbn; try contradiction; [|discriminate].
  intros (H1 & H2 & H3 & _) D l E. injection E as <-. specialize (D a eq_refl).
  unfold len_direction in *. rewrite <- H1, <- H2, <- H3. exact D.
Qed.

Lemma layer_eq_dec (a b : layer) : {a = b} + {a <> b}.
Proof. decide equality. Defined.

Lemma F10_dec bs e : F10_class bs e \/ ~ F10_class bs e.
Proof.
  unfold F10_class. destruct e as [l|c].
  - destruct (layer_eq_dec (le_layer l) LyIpv6Header) as [E|NE].
    + destruct (N.eq_dec (B bs (le_off l) / 16) 4) as [E4|N4].
      * left. right. right. exists l. auto.
      * right. intros [H|[H|(l' & H & _ & H4)]]; try discriminate. injection H as <-. contradiction.
    + right. intros [H|[H|(l' & H & HL & _)]]; try discriminate. injection H as <-. contradiction.
  - destruct c; try (right; intros [H|[H|(l' & H & _)]]; discriminate).
    + destruct (N.eq_dec v 6) as [->|N6]; [left; left; reflexivity|].
      right. intros [H|[H|(l' & H & _)]]; try discriminate. injection H as H. contradiction.
    + destruct (N.eq_dec v 4) as [->|N4]; [left; right; left; reflexivity|].
      right. intros [H|[H|(l' & H & _)]]; try discriminate. injection H as H. contradiction.
Qed.

Lemma rel_err_inv (r : res sliced_packet) e_ref :
  res_rel (vres_of r) (VErr e_ref) -> exists e, r = Err e.
Proof. destruct r as [p|e|b]; cbn; try contradiction. intros _. now exists e. Qed.

Definition lax_stop_ok (bs : bytes) (w : vres) (lax : res lax_sliced_packet) : Prop :=
  forall r' e' ly, lax = Ok r' -> lsp_stop_err r' = Some (e', ly) ->
    exists e_ref, w = VErr e_ref /\ (F10_class bs e_ref \/ stop_truthful e_ref e' ly).

Lemma lax_stop_core bs strict pw lax w :
  (forall b, strict <> Bug b) -> extends strict lax -> prefix_ok bs strict pw lax ->
  forget pw = w -> (forall se, w = VErr (ELen se) -> len_direction se) ->
  lax_stop_ok bs w lax.
Proof.
  intros NB Ext Pre Fg Dir r' e' ly HL HS.
  destruct strict as [r|e|b].
  - destruct (Ext r eq_refl) as (r'' & E & _ & S & _). rewrite HL in E. injection E as <-.
    rewrite HS in S. discriminate.
  - destruct (Pre e eq_refl) as (q & e_ref & r'' & Epw & Rel & E & Out).
    rewrite HL in E. injection E as <-.
    rewrite Epw in Fg. cbn [forget] in Fg. exists e_ref. split; [now symmetry|].
    destruct (F10_dec bs e_ref) as [F|NF]; [now left|right].
    destruct (Out NF) as (_ & [FB|[(e'' & ly'' & St & Same & Tag)|(C & e'' & St & C' & Off)]]).
    + right. right. exact FB.
    + change (lv_stop (lview r')) with (lsp_stop_err r') in St. rewrite HS in St.
      injection St as E1 E2. subst e'' ly''. left. split; [now apply lax_same_truthful|]. split; [exact Tag|].
      apply (lax_same_direction e_ref e' Same). intros l ->. apply Dir. now symmetry.
    + change (lv_stop (lview r')) with (lsp_stop_err r') in St. rewrite HS in St.
      injection St as E1 E2. subst e'' ly. right. left. auto.
  - exfalso. now apply (NB b).
Qed.

Theorem lax_stop_truthful bs et : bytes_ok bs ->
  (14 <= len bs -> lax_stop_ok bs (wire_ethernet bs) (LaxSlicedPacket.from_ethernet bs)) /\
  lax_stop_ok bs (wire_ether_type bs et) (LaxSlicedPacket.from_ether_type et bs) /\
  (ip_header_fault bs = None -> lax_stop_ok bs (wire_from_ip bs) (LaxSlicedPacket.from_ip bs)).
Proof.
  intros Hok.
  destruct (lax_extends_strict bs et) as (E1 & E2 & E3).
  destruct (lax_prefix_packet bs et Hok) as (P1 & P2 & P3).
  destruct (pwire_sound bs et) as (S1 & S2 & S3).
  split; [|split].
  - intros H14. apply (lax_stop_core bs _ _ _ _ (fun b => proj1 (strict_never_bug bs et b Hok)) E1 (P1 H14) S1).
    intros se. apply (wire_len_direction bs et se).
  - apply (lax_stop_core bs _ _ _ _
             (fun b => proj1 (proj2 (proj2 (strict_never_bug bs et b Hok)))) E2 P2 S2).
    intros se. apply (wire_len_direction bs et se).
  - intros HF. apply (lax_stop_core bs _ _ _ _
             (fun b => proj2 (proj2 (proj2 (strict_never_bug bs et b Hok)))) E3 (P3 HF) S3).
    intros se. apply (wire_len_direction bs et se).
Qed.

(* ---- LaxPacketHeaders ----------------------------------------------------------------------------- *)
Definition hdr_stop_ok (bs : bytes) (w : vres) (laxcut : res lax_sliced_packet) (lh : res lhpacket) : Prop :=
  forall e_ref, w = VErr e_ref -> lax_stopped_at_ext laxcut = false -> ~ F10_class bs e_ref ->
    exists p v, lh = Ok p /\ lhview_of p = Ok v /\
      ((exists e' ly, lhv_stop v = Some (e', ly) /\
          c07_truthful (VErr e') (VErr e_ref) /\ tag_ok e' ly /\
          (forall l, e' = ELen l -> len_direction l)) \/
       (ip_hdr_class e_ref /\
        exists e', lhv_stop v = Some (e', LyIpHeader) /\ ip_hdr_class e' /\
          (f11_stop (lhv_stop v) = false ->
           forall o o', err_off e_ref = Some o -> err_off e' = Some o' -> o = o')) \/
       fallback e_ref).

Lemma hdr_stop_core bs strict pw laxcut lh w :
  res_rel (vres_of strict) w -> hdr_prefix_ok2 bs strict pw laxcut lh ->
  forget pw = w -> (forall se, w = VErr (ELen se) -> len_direction se) ->
  hdr_stop_ok bs w laxcut lh.
Proof.
  intros Rel Pre Fg Dir e_ref Hw HS NF. rewrite Hw in Rel.
  destruct (rel_err_inv _ _ Rel) as (e & ->).
  destruct (Pre e eq_refl HS) as (q & e_ref' & p & v & Epw & _ & _ & El & Ev & Out).
  rewrite Epw in Fg. cbn [forget] in Fg. rewrite Hw in Fg. injection Fg as ->.
  exists p, v. split; [exact El|]. split; [exact Ev|].
  destruct (Out NF) as (_ & [FB|[(e' & ly & St & Same & Tag)|(C & e' & St & C' & Off)]]).
  - right. right. exact FB.
  - left. exists e', ly. split; [exact St|]. split; [now apply lax_same_truthful|]. split; [exact Tag|].
    apply (lax_same_direction e_ref e' Same). intros l ->. apply Dir. exact Hw.
  - right. left. split; [exact C|]. exists e'. auto.
Qed.

Theorem hdr_lax_stop_truthful bs et : bytes_ok bs ->
  (14 <= len bs ->
   hdr_stop_ok bs (wire_ethernet bs) (LaxCut.from_ethernet true bs) (LaxPacketHeaders.from_ethernet bs)) /\
  hdr_stop_ok bs (wire_ether_type bs et) (LaxCut.from_ether_type true et bs)
    (LaxPacketHeaders.from_ether_type et bs) /\
  (ip_header_fault bs = None ->
   hdr_stop_ok bs (wire_from_ip bs) (LaxCut.from_ip true bs) (LaxPacketHeaders.from_ip bs)).
Proof.
  intros Hok.
  destruct (hdr_lax_prefix2 bs et Hok) as (P1 & P2 & P3).
  destruct (pwire_sound bs et) as (S1 & S2 & S3).
  split; [|split].
  - intros H14. apply (hdr_stop_core bs _ _ _ _ _ (from_ethernet_rel bs Hok) (P1 H14) S1).
    intros se. apply (wire_len_direction bs et se).
  - apply (hdr_stop_core bs _ _ _ _ _ (from_ether_type_rel bs et Hok) P2 S2).
    intros se. apply (wire_len_direction bs et se).
  - intros HF. apply (hdr_stop_core bs _ _ _ _ _ (from_ip_rel bs Hok) (P3 HF) S3).
    intros se. apply (wire_len_direction bs et se).
Qed.

(* ---- the stop error behind an IP length fallback ---------------------------------------------------
   pwire2 (Parse/LaxWire2.v) answers `P2Fb q e_fb inc resumed` when the strict reference decoder
   rejects with the IPv4 total length / IPv6 payload length check e_fb; `resumed` is the same strict
   reference decoder continued with the data that is there.  The lax stop error then is the
   rejection of `resumed`: exactly its (error, tag) when that lies inside the network layer, and
   related to it as in `stop_truthful` when it lies behind the network layer. *)
Definition behind_truthful (e2 : slice_error) (stop : option stop_error) : Prop :=
  (exists e' ly, stop = Some (e', ly) /\ c07_truthful (VErr e') (VErr e2) /\ tag_ok e' ly) \/
  (ip_hdr_class e2 /\
   exists e', stop = Some (e', LyIpHeader) /\ ip_hdr_class e' /\
     (forall o o', err_off e2 = Some o -> err_off e' = Some o' -> o = o')) \/
  fallback e2.

Definition fallback_stop_ok (w : vres) (pw : pres2) (lax : res lax_sliced_packet) : Prop :=
  forall q e_fb inc resumed, pw = P2Fb q e_fb inc resumed ->
    w = VErr e_fb /\
    exists r', lax = Ok r' /\
      match resumed with
      | P2RejNet _ _ tag e2 => lsp_stop_err r' = Some (e2, tag)
      | P2Rej _ e2 => behind_truthful e2 (lsp_stop_err r')
      | P2Acc _ => True
      | _ => False
      end.

Lemma fallback_stop_core strict pw lax w :
  res_rel (vres_of strict) w -> forget (to_pres pw) = w -> prefix_net_ok strict pw lax ->
  fallback_stop_ok w pw lax.
Proof.
  intros Rel Fg Pre q e_fb inc resumed Epw. rewrite Epw in Fg. cbn [to_pres forget] in Fg.
  split; [now symmetry|]. rewrite <- Fg in Rel.
  destruct (rel_err_inv _ _ Rel) as (e & ->).
  destruct (Pre e eq_refl) as (e_ref & r' & _ & _ & _ & El & Out).
  exists r'. split; [exact El|]. rewrite Epw in Out. cbn [net_outcome] in Out.
  destruct Out as (n & _ & _ & Out).
  destruct resumed as [q'|q' e2|q' n' tag e2|? ? ? ?|?]; try contradiction; [exact I| |].
  - destruct Out as (_ & [FB|[(e' & ly & St & Same & Tag)|(C & e' & St & C' & Off)]]).
    + right. right. exact FB.
    + left. exists e', ly. split; [exact St|]. split; [now apply lax_same_truthful|exact Tag].
    + right. left. split; [exact C|]. exists e'. auto.
  - destruct Out as (_ & _ & St & _). exact St.
Qed.

Theorem lax_stop_after_ip_fallback bs et : bytes_ok bs ->
  (14 <= len bs ->
   fallback_stop_ok (wire_ethernet bs) (pwire2_ethernet bs) (LaxSlicedPacket.from_ethernet bs)) /\
  fallback_stop_ok (wire_ether_type bs et) (pwire2_ether_type bs et)
    (LaxSlicedPacket.from_ether_type et bs) /\
  (ip_header_fault bs = None ->
   fallback_stop_ok (wire_from_ip bs) (pwire2_from_ip bs) (LaxSlicedPacket.from_ip bs)).
Proof.
  intros Hok.
  destruct (lax_prefix_net_packet bs et Hok) as (P1 & P2 & P3).
  destruct (pwire2_sound bs et) as (S1 & S2 & S3).
  split; [|split].
  - intros H14. apply (fallback_stop_core _ _ _ _ (from_ethernet_rel bs Hok) S1 (P1 H14)).
  - apply (fallback_stop_core _ _ _ _ (from_ether_type_rel bs et Hok) S2 P2).
  - intros HF. apply (fallback_stop_core _ _ _ _ (from_ip_rel bs Hok) S3 (P3 HF)).
Qed.
