(* Parse/StrictDispatch.v -- the dispatch / content-rule description of accepted views
   (Parse/WireDispatch.v) transferred to the MODEL of strict slicing through the refinement
   theorems `from_*_rel` of StrictProofs.v, the way StrictFacts.v transfers `nested`:

   whenever SlicedPacket::from_X accepts, the reference decoder accepts with the same view
   and that view is `dispatch`ed (layer kinds follow the announced ether types / IP numbers,
   at most 3 link extensions, "no next layer" exactly for the documented causes, content
   rules hold), `desc`ribed and `nested`. *)
From EP Require Import Base.Bytes Parse.Types Parse.Slices Parse.Cursor Parse.View
  Parse.WireSpec Parse.StrictProofs Parse.WireSpecFacts Parse.WireNested Parse.WireDesc
  Parse.WireDispatch Parse.WireAccepts.

Local Open Scope N_scope.

Lemma rel_ok_fact (P : vpacket -> Prop) (r : res sliced_packet) s p :
  res_rel (vres_of r) s -> (forall v, s = VOk v -> P v) -> r = Ok p ->
  s = VOk (view p) /\ P (view p).
Proof.
  intros R H ->. cbn [vres_of] in R. destruct s as [v|e|b]; cbn in R; try contradiction.
  subst v. split; [reflexivity|exact (H _ eq_refl)].
Qed.

(* everything the three descriptions say *)
Definition described (bs : bytes) (e : entry) (v : vpacket) : Prop :=
  nested bs v /\ desc bs v /\ dispatch bs e v.

Section Entry.
  Variables (bs : bytes) (et : N).
  Hypothesis Hok : bytes_ok bs.

  Theorem strict_dispatch_from_ethernet p : SlicedPacket.from_ethernet bs = Ok p ->
    wire_ethernet bs = VOk (view p) /\ described bs EnEthernet (view p).
  Proof.
    apply (rel_ok_fact (described bs EnEthernet) _ _ p (from_ethernet_rel bs Hok)).
    intros v H. split; [now apply wire_ethernet_nested|].
    split; [now apply wire_ethernet_desc|now apply wire_ethernet_dispatch].
  Qed.
  Theorem strict_dispatch_from_linux_sll p : SlicedPacket.from_linux_sll bs = Ok p ->
    wire_linux_sll bs = VOk (view p) /\ described bs EnLinuxSll (view p).
  Proof.
    apply (rel_ok_fact (described bs EnLinuxSll) _ _ p (from_linux_sll_rel bs Hok)).
    intros v H. split; [now apply wire_linux_sll_nested|].
    split; [now apply wire_linux_sll_desc|now apply wire_linux_sll_dispatch].
  Qed.
  Theorem strict_dispatch_from_ether_type p : SlicedPacket.from_ether_type et bs = Ok p ->
    wire_ether_type bs et = VOk (view p) /\ described bs (EnEtherType et) (view p).
  Proof.
    apply (rel_ok_fact (described bs (EnEtherType et)) _ _ p (from_ether_type_rel bs et Hok)).
    intros v H. split; [exact (wire_ether_type_nested bs et v H)|].
    split; [exact (wire_ether_type_desc bs et v H)|exact (wire_ether_type_dispatch bs et v H)].
  Qed.
  Theorem strict_dispatch_from_ip p : SlicedPacket.from_ip bs = Ok p ->
    wire_from_ip bs = VOk (view p) /\ described bs EnIp (view p).
  Proof.
    apply (rel_ok_fact (described bs EnIp) _ _ p (from_ip_rel bs Hok)).
    intros v H. split; [now apply wire_from_ip_nested|].
    split; [now apply wire_from_ip_desc|now apply wire_from_ip_dispatch].
  Qed.
End Entry.

(* ---- accepted <-> described, for the model --------------------------------------------- *)
Definition strict_of (bs : bytes) (e : entry) : res sliced_packet :=
  match e with
  | EnEthernet => SlicedPacket.from_ethernet bs
  | EnLinuxSll => SlicedPacket.from_linux_sll bs
  | EnEtherType et => SlicedPacket.from_ether_type et bs
  | EnIp => SlicedPacket.from_ip bs
  end.

Lemma strict_of_rel bs e : bytes_ok bs -> res_rel (vres_of (strict_of bs e)) (wire_of bs e).
Proof.
  intros H. destruct e as [| |et|]; cbn [strict_of wire_of];
    [apply from_ethernet_rel|apply from_linux_sll_rel|apply from_ether_type_rel|apply from_ip_rel];
    exact H.
Qed.

Theorem strict_accepts_iff bs e v : bytes_ok bs ->
  ((exists p, strict_of bs e = Ok p /\ view p = v) <-> described bs e v).
Proof.
  intros Hok. pose proof (strict_of_rel bs e Hok) as R. split.
  - intros (p & Hp & <-).
    destruct (rel_ok_fact (described bs e) _ _ p R) as (_ & H); [|exact Hp|exact H].
    intros v H. now apply wire_accepts_iff.
  - intros H. apply wire_accepts_iff in H. rewrite H in R.
    destruct (strict_of bs e) as [p|err|b]; cbn [vres_of] in R.
    + exists p. split; [reflexivity|exact R].
    + destruct err; contradiction.
    + contradiction.
Qed.

Theorem strict_rejects_iff bs e : bytes_ok bs ->
  ((exists err, strict_of bs e = Err err) <-> forall v, ~ described bs e v).
Proof.
  intros Hok. split.
  - intros (err & He) v Hv. apply (strict_accepts_iff bs e v Hok) in Hv.
    destruct Hv as (p & Hp & _). congruence.
  - intros H. destruct (strict_of bs e) as [p|err|b] eqn:E.
    + exfalso. apply (H (view p)). apply (strict_accepts_iff bs e (view p) Hok). now exists p.
    + now exists err.
    + exfalso. apply (res_rel_no_bug _ _ (strict_of_rel bs e Hok) b). now rewrite E.
Qed.
