(* Parse/HdrModel.v -- transliteration of the struct ("owned header") decoders:
     packet_headers.rs      PacketHeaders::{from_ethernet_slice, from_ether_type,
                            from_ip_slice}, read_transport
     net/ip_headers.rs      IpHeaders::{from_slice, from_ipv4_slice, from_ipv6_slice}
     net/ipv6_exts.rs       Ipv6Extensions::from_slice (stops at the first
                            extension header whose slot is already filled)
     net/ipv4_exts.rs / ipv4_exts_slice.rs   Ipv4Extensions::from_slice
     link/ethernet2_header.rs, link/single_vlan_header.rs, net/ipv4_header.rs,
     net/ipv6_header.rs, transport/tcp_header.rs + tcp_header_slice.rs,
     the accessors header()/payload()/to_header() of UdpSlice, Icmpv4Slice,
     Icmpv6Slice, net/arp_packet.rs (ArpPacket::from_slice)
   as they are after the repairs of findings F5 and F9.

   A decoded header struct is represented by the sub-slice it was decoded from
   (pointer offset + contents): its fields are functions of these bytes (the
   field decoders are the subject of C08/C15), its length is the length of the
   slice.  Functions that the Rust code shares with the slicing family
   (MacsecSlice::from_slice, UdpSlice::from_slice, Icmpv4Slice::from_slice,
   Ipv4HeaderSlice::from_slice, IpAuthHeaderSlice::from_slice, ...) are the
   models of Parse/Slices.v; everything the struct family implements a second
   time (total length / payload length handling, the extension loop, TCP header
   length, `rest` computations by checked indexing, offsets by pointer
   difference) is written out again here, as in the source. *)
From EP Require Import Base.Bytes Parse.Types Parse.Slices Parse.Cursor.

Local Open Scope N_scope.

(* &slice[k..] : checked indexing, panics when k > len *)
Definition idx_from (s : slice) (k : N) : res slice :=
  if k <=? s_len s then Ok (fst s + k, drop k (snd s)) else Bug SITE_INDEX.

(* rest.as_ptr().offset_from(slice.as_ptr()) as usize *)
Definition ptr_off (rest base : slice) : res N := subN (s_off rest) (s_off base).

(* ---- link headers -------------------------------------------------------- *)
Module Ethernet2Header.
  (* Ethernet2HeaderSlice::from_slice(slice)?.to_header(), &slice[14..] *)
  Definition from_slice (s : slice) : res (slice * slice) :=
    let* h := (if s_len s <? 14 then lerr 14 (s_len s) LsSlice LyEthernet2Header
               else subU s 0 14) in
    let* rest := idx_from s 14 in
    Ok (h, rest).
  Definition ether_type (h : slice) : res N := rd16 h 12.
End Ethernet2Header.

Module SingleVlanHeader.
  (* SingleVlanHeaderSlice::from_slice(slice)?.to_header(), &slice[4..] *)
  Definition from_slice (s : slice) : res (slice * slice) :=
    let* h := (if s_len s <? 4 then lerr 4 (s_len s) LsSlice LyVlanHeader
               else subU s 0 4) in
    let* rest := idx_from s 4 in
    Ok (h, rest).
  Definition ether_type (h : slice) : res N := rd16 h 2.
End SingleVlanHeader.

(* ---- to_header() conversions that can fail (unwrap) ---------------------- *)
(* Ipv6RawExtHeaderSlice::to_header = Ipv6RawExtHeader::new_raw(.., payload).unwrap();
   payload = slice[2..] *)
Definition raw_ext_to_header (sl : slice) : res slice :=
  let* pl := subN (s_len sl) 2 in
  if (pl <? 6) || (2046 <? pl) || negb ((pl + 2) mod 8 =? 0) then Bug SITE_UNWRAP
  else Ok sl.

(* IpAuthHeaderSlice::to_header = IpAuthHeader::new(.., raw_icv).unwrap();
   raw_icv = slice[12..] *)
Definition auth_to_header (sl : slice) : res slice :=
  let* icv := subN (s_len sl) 12 in
  if (1016 <? icv) || negb (icv mod 4 =? 0) then Bug SITE_UNWRAP
  else Ok sl.

(* ---- IPv4 ---------------------------------------------------------------- *)
Module Ipv4Header.
  (* Ipv4HeaderSlice::from_slice(slice)?.to_header(); &slice[header.header_len()..] *)
  Definition from_slice (s : slice) : res (slice * slice) :=
    let* h := Ipv4HeaderSlice.from_slice s in
    let* rest := idx_from s (s_len h) in
    Ok (h, rest).
End Ipv4Header.

Module Ipv4Extensions.
  (* Ipv4ExtensionsSlice::from_slice(start, slice).map(|v| (v.0.to_header(), v.1, v.2)) *)
  Definition from_slice (start_ip_number : N) (s : slice) : res (option slice * N * slice) :=
    if IPN_AUTH =? start_ip_number then
      let* header := IpAuthHeaderSlice.from_slice s in
      let* rest := idx_from s (s_len header) in
      let* nh := IpAuthHeaderSlice.next_header header in
      let* a := auth_to_header header in
      Ok (Some a, nh, rest)
    else Ok (None, start_ip_number, s).
End Ipv4Extensions.

(* ---- IPv6 ---------------------------------------------------------------- *)
Module Ipv6Header.
  Definition from_slice (s : slice) : res (slice * slice) :=
    let* h := Ipv6HeaderSlice.from_slice s in
    let* rest := idx_from s 40 in
    Ok (h, rest).
End Ipv6Header.

(* struct Ipv6Extensions; `routing: Option<Ipv6RoutingExtensions { routing,
   final_destination_options }>` is flattened into two fields, x_fdest is only
   ever filled when x_route is *)
Record exts6 := mkExts6 {
  x_hbh : option slice; x_dest : option slice; x_route : option slice;
  x_fdest : option slice; x_frag : option slice; x_auth : option slice }.

Definition exts6_empty : exts6 := mkExts6 None None None None None None.

Definition is_some {A} (o : option A) : bool := match o with Some _ => true | None => false end.

Module Ipv6Extensions.
  (* one `Ipv6RawExtHeaderSlice::from_slice(rest).map_err(add offset)?; rest = &rest[len..];
     next_header = slice.next_header(); .. = Some(slice.to_header())` block *)
  Definition raw_step (slice rest : Types.slice) : res (Types.slice * Types.slice * N) :=
    let* off := subN (s_len slice) (s_len rest) in
    let* sl := map_len_err (fun e => le_add_offset e off) (Ipv6RawExtHeaderSlice.from_slice rest) in
    let* rest' := idx_from rest (s_len sl) in
    let* nh := Ipv6RawExtHeaderSlice.next_header sl in
    let* h := raw_ext_to_header sl in
    Ok (h, rest', nh).

  Fixpoint loop (fuel : nat) (slice : Types.slice) (result : exts6) (rest : Types.slice) (next_header : N)
    : res (exts6 * N * Types.slice) :=
    match fuel with
    | O => Bug SITE_FUEL
    | S f =>
        if next_header =? IPN_HOP_BY_HOP then Err (EContent CeHopByHopNotAtStart)
        else if next_header =? IPN_DEST_OPTIONS then
          match x_route result with
          | Some _ =>
              if is_some (x_fdest result) then Ok (result, next_header, rest)
              else
                let* r := raw_step slice rest in
                let '(h, rest', nh) := r in
                loop f slice (mkExts6 (x_hbh result) (x_dest result) (x_route result) (Some h)
                                (x_frag result) (x_auth result)) rest' nh
          | None =>
              if is_some (x_dest result) then Ok (result, next_header, rest)
              else
                let* r := raw_step slice rest in
                let '(h, rest', nh) := r in
                loop f slice (mkExts6 (x_hbh result) (Some h) (x_route result) (x_fdest result)
                                (x_frag result) (x_auth result)) rest' nh
          end
        else if next_header =? IPN_ROUTE then
          if is_some (x_route result) then Ok (result, next_header, rest)
          else
            let* r := raw_step slice rest in
            let '(h, rest', nh) := r in
            loop f slice (mkExts6 (x_hbh result) (x_dest result) (Some h) None
                            (x_frag result) (x_auth result)) rest' nh
        else if next_header =? IPN_FRAG then
          if is_some (x_frag result) then Ok (result, next_header, rest)
          else
            let* off := subN (s_len slice) (s_len rest) in
            let* sl := map_len_err (fun e => le_add_offset e off) (Ipv6FragmentHeaderSlice.from_slice rest) in
            let* rest' := idx_from rest (s_len sl) in
            let* nh := Ipv6FragmentHeaderSlice.next_header sl in
            loop f slice (mkExts6 (x_hbh result) (x_dest result) (x_route result) (x_fdest result)
                            (Some sl) (x_auth result)) rest' nh
        else if next_header =? IPN_AUTH then
          if is_some (x_auth result) then Ok (result, next_header, rest)
          else
            let* off := subN (s_len slice) (s_len rest) in
            let* sl :=
              match IpAuthHeaderSlice.from_slice rest with
              | Err (ELen e) => Err (ELen (le_add_offset e off))
              | Err (EContent _) => Err (EContent CeIpv6AuthZeroPayloadLen)
              | r => r
              end in
            let* rest' := idx_from rest (s_len sl) in
            let* nh := IpAuthHeaderSlice.next_header sl in
            let* h := auth_to_header sl in
            loop f slice (mkExts6 (x_hbh result) (x_dest result) (x_route result) (x_fdest result)
                            (x_frag result) (Some h)) rest' nh
        else Ok (result, next_header, rest)
    end.

  Definition from_slice (start_ip_number : N) (slice : Types.slice) : res (exts6 * N * Types.slice) :=
    let* st :=
      (if IPN_HOP_BY_HOP =? start_ip_number then
         let* sl := Ipv6RawExtHeaderSlice.from_slice slice in
         let* rest := idx_from slice (s_len sl) in
         let* nh := Ipv6RawExtHeaderSlice.next_header sl in
         let* h := raw_ext_to_header sl in
         Ok (mkExts6 (Some h) None None None None None, rest, nh)
       else Ok (exts6_empty, slice, start_ip_number)) in
    let '(result, rest, nh) := st in
    loop (S (length (snd slice))) slice result rest nh.

  (* Ipv6Extensions::is_fragmenting_payload *)
  Definition is_fragmenting_payload (x : exts6) : res bool :=
    match x_frag x with
    | Some f => Ipv6FragmentHeaderSlice.is_fragmenting_payload f
    | None => Ok false
    end.
End Ipv6Extensions.

(* ---- IpHeaders ----------------------------------------------------------- *)
Inductive ip_headers :=
| IhV4 (h : slice) (auth : option slice)
| IhV6 (h : slice) (x : exts6).

Module IpHeaders.
  (* the tail shared textually by from_slice (IPv4 arm) and from_ipv4_slice *)
  Definition v4_exts (header rest : slice) : res (ip_headers * ip_payload) :=
    let* proto := Ipv4HeaderSlice.protocol header in
    let* x :=
      match Ipv4Extensions.from_slice proto rest with
      | Err (ELen e) =>
          Err (ELen (le_add_offset (le_set_src e LsIpv4HeaderTotalLen) (s_len header)))
      | r => r
      end in
    let '(auth, next_protocol, rest') := x in
    let* fragmented := Ipv4HeaderSlice.is_fragmenting_payload header in
    Ok (IhV4 header auth, mkIpPayload next_protocol fragmented LsIpv4HeaderTotalLen rest').

  Definition v6_exts (header header_payload : slice) (src : len_source)
    : res (ip_headers * ip_payload) :=
    let* nh0 := Ipv6HeaderSlice.next_header header in
    let* x :=
      match Ipv6Extensions.from_slice nh0 header_payload with
      | Err (ELen e) => Err (ELen (le_add_offset (le_set_src e src) 40))
      | r => r
      end in
    let '(exts, next_header, rest) := x in
    let* fragmented := Ipv6Extensions.is_fragmenting_payload exts in
    Ok (IhV6 header exts, mkIpPayload next_header fragmented src rest).

  Definition from_ipv4_slice (s : slice) : res (ip_headers * ip_payload) :=
    let* hr := Ipv4Header.from_slice s in
    let '(header, header_rest) := hr in
    let* total_len := Ipv4HeaderSlice.total_len header in
    let header_len := s_len header in
    let* payload_len :=
      (if header_len <=? total_len then subN total_len header_len
       else lerr header_len total_len LsIpv4HeaderTotalLen LyIpv4Packet) in
    let* header_rest' :=
      (if s_len header_rest <? payload_len then lerr total_len (s_len s) LsSlice LyIpv4Packet
       else subU header_rest 0 payload_len) in
    v4_exts header header_rest'.

  Definition from_ipv6_slice (s : slice) : res (ip_headers * ip_payload) :=
    let* hr := Ipv6Header.from_slice s in
    let '(header, header_rest) := hr in
    let* pl := Ipv6HeaderSlice.payload_length header in
    let* hp :=
      (if (0 =? pl) && (40 <? s_len s) then Ok (header_rest, LsSlice)
       else if s_len header_rest <? pl then lerr (pl + 40) (s_len s) LsSlice LyIpv6Packet
       else
         let* p := subU header_rest 0 pl in
         Ok (p, LsIpv6HeaderPayloadLen)) in
    let '(header_payload, src) := hp in
    v6_exts header header_payload src.

  Definition from_slice (s : slice) : res (ip_headers * ip_payload) :=
    if s_len s =? 0 then lerr 1 (s_len s) LsSlice LyIpHeader
    else
      (* slice[0]: checked *)
      let* b0 := (match rd (snd s) 0 with Some v => Ok v | None => Bug SITE_INDEX end) in
      let ver := N.shiftr b0 4 in
      if ver =? 4 then
        if s_len s <? 20 then lerr 20 (s_len s) LsSlice LyIpv4Header
        else
          let* b0' := rdU s 0 in
          let ihl := N.land b0' 15 in
          if ihl <? 5 then Err (EContent (CeIpIhl ihl))
          else
            let header_len := ihl * 4 in
            if s_len s <? header_len then lerr header_len (s_len s) LsSlice LyIpv4Header
            else
              let* header := subU s 0 header_len in
              let* total_len := Ipv4HeaderSlice.total_len header in
              if total_len <? header_len then
                lerr header_len total_len LsIpv4HeaderTotalLen LyIpv4Packet
              else if s_len s <? total_len then
                lerr total_len (s_len s) LsSlice LyIpv4Packet
              else
                let* n := subN total_len header_len in
                let* rest := subU s header_len n in
                v4_exts header rest
      else if ver =? 6 then
        if s_len s <? 40 then lerr 40 (s_len s) LsSlice LyIpv6Header
        else
          let* header := subU s 0 40 in
          let* pl := Ipv6HeaderSlice.payload_length header in
          let* hp :=
            (if (0 =? pl) && (40 <? s_len s) then
               let* n := subN (s_len s) 40 in
               let* p := subU s 40 n in
               Ok (p, LsSlice)
             else
               let expected_len := 40 + pl in
               if s_len s <? expected_len then lerr expected_len (s_len s) LsSlice LyIpv6Packet
               else
                 let* p := subU s 40 pl in
                 Ok (p, LsIpv6HeaderPayloadLen)) in
          let '(header_payload, src) := hp in
          v6_exts header header_payload src
      else Err (EContent (CeIpUnsupportedVersion ver)).
End IpHeaders.

(* ---- transport ----------------------------------------------------------- *)
Module TcpHeaderSlice.
  Definition from_slice (s : slice) : res slice :=
    if s_len s <? 20 then lerr 20 (s_len s) LsSlice LyTcpHeader
    else
      let* b12 := rdU s 12 in
      let header_len := N.shiftr (N.land b12 240) 2 in
      if header_len <? 20 then
        Err (EContent (CeTcpDataOffset ((N.shiftr header_len 2) mod 256)))
      else if s_len s <? header_len then lerr header_len (s_len s) LsSlice LyTcpHeader
      else subU s 0 header_len.
End TcpHeaderSlice.

Module TcpHeader.
  (* let h = TcpHeaderSlice::from_slice(slice)?; (h.to_header(), &slice[h.slice().len()..]) *)
  Definition from_slice (s : slice) : res (slice * slice) :=
    let* h := TcpHeaderSlice.from_slice s in
    let* rest := idx_from s (s_len h) in
    Ok (h, rest).
End TcpHeader.

Module Icmpv4Acc.
  (* Icmpv4Slice::header_len / the inlined copy in payload() *)
  Definition header_len (r : slice) : res N :=
    let* t := rdU r 0 in
    let* c := rdU r 1 in
    Ok (if ((t =? 13) || (t =? 14)) && (0 =? c) then 20 else 8).
  (* header(): reads header_len bytes through unchecked pointer reads *)
  Definition header (r : slice) : res slice :=
    let* hl := header_len r in subU r 0 hl.
  Definition payload (r : slice) : res slice :=
    let* hl := header_len r in
    let* n := subN (s_len r) hl in
    subU r hl n.
End Icmpv4Acc.

Module Icmpv6Acc.
  Definition header (r : slice) : res slice := subU r 0 8.
  Definition payload (r : slice) : res slice :=
    let* n := subN (s_len r) 8 in subU r 8 n.
End Icmpv6Acc.

Module UdpAcc.
  Definition to_header (r : slice) : res slice := subU r 0 8.
  Definition payload (r : slice) : res slice :=
    let* n := subN (s_len r) 8 in subU r 8 n.
End UdpAcc.

Inductive htransport :=
| HtUdp (h : slice) | HtTcp (h : slice) | HtIcmpv4 (h : slice) | HtIcmpv6 (h : slice).

Inductive hpayload :=
| HpEmpty
| HpEther (e : ether_payload)
| HpMacsecMod (s : slice)
| HpIp (p : ip_payload)
| HpUdp (s : slice) | HpTcp (s : slice) | HpIcmpv4 (s : slice) | HpIcmpv6 (s : slice).

(* add_len_source: only change the len source if the lower layer has not set it *)
Definition add_len_source (p : ip_payload) (e : len_error) : len_error :=
  match le_src e with
  | LsSlice => le_set_src e (ipp_src p)
  | _ => e
  end.

Definition read_transport (p : ip_payload) : res (option htransport * hpayload) :=
  if ipp_fragmented p then Ok (None, HpIp p)
  else if ipp_number p =? IPN_ICMP then
    let* v := map_len_err (add_len_source p) (Icmpv4Slice.from_slice (ipp_slice p)) in
    let* h := Icmpv4Acc.header v in
    let* pl := Icmpv4Acc.payload v in
    Ok (Some (HtIcmpv4 h), HpIcmpv4 pl)
  else if ipp_number p =? IPN_ICMPV6 then
    let* v := map_len_err (add_len_source p) (Icmpv6Slice.from_slice (ipp_slice p)) in
    let* h := Icmpv6Acc.header v in
    let* pl := Icmpv6Acc.payload v in
    Ok (Some (HtIcmpv6 h), HpIcmpv6 pl)
  else if ipp_number p =? IPN_UDP then
    (* UdpSlice::from_slice since the repair of F5 *)
    let* v := map_len_err (add_len_source p) (UdpSlice.from_slice (ipp_slice p)) in
    let* h := UdpAcc.to_header v in
    let* pl := UdpAcc.payload v in
    Ok (Some (HtUdp h), HpUdp pl)
  else if ipp_number p =? IPN_TCP then
    let* v := map_len_err (add_len_source p) (TcpHeader.from_slice (ipp_slice p)) in
    Ok (Some (HtTcp (fst v)), HpTcp (snd v))
  else Ok (None, HpIp p).

(* ---- PacketHeaders ------------------------------------------------------- *)
Inductive hlink_ext := HxVlan (h : slice) | HxMacsec (h : slice).
Inductive hnet := HnIp (i : ip_headers) | HnArp (s : slice).

Record hpacket := mkH {
  h_link : option slice;
  h_exts : list hlink_ext;
  h_net : option hnet;
  h_transport : option htransport;
  h_payload : hpayload }.

(* state of the `loop` in from_ether_type *)
Record hstate := mkHs {
  hs_exts : list hlink_ext;
  hs_payload : hpayload;
  hs_rest : slice;
  hs_et : N;
  hs_src : len_source }.

Inductive loop_out := LDone (p : hpacket) | LBreak (st : hstate).

Module PacketHeaders.
  Import SlicedPacketCursor.

  (* add_offset(err, rest) *)
  Definition add_offset {A} (slice rest : Types.slice) (e : len_error) : res A :=
    let* d := ptr_off rest slice in
    Err (ELen (le_add_offset e d)).

  (* link_exts.push_unchecked *)
  Definition push (l : list hlink_ext) (x : hlink_ext) : res (list hlink_ext) :=
    if len l <? LINK_EXTS_CAP then Ok (l ++ [x]) else Bug SITE_PUSH.

  Fixpoint link_loop (fuel : nat) (slice : Types.slice) (st : hstate) : res loop_out :=
    match fuel with
    | O => Bug SITE_FUEL
    | S f =>
        let et := hs_et st in
        let rest := hs_rest st in
        if is_vlan_type et then
          if LINK_EXTS_CAP <=? len (hs_exts st) then Ok (LBreak st)
          else
            match SingleVlanHeader.from_slice rest with
            | Err (ELen e) => add_offset slice rest e
            | Err e => Err e
            | Bug b => Bug b
            | Ok (vlan, vlan_rest) =>
                let* et' := SingleVlanHeader.ether_type vlan in
                let* exts' := push (hs_exts st) (HxVlan vlan) in
                link_loop f slice
                  (mkHs exts' (HpEther (mkEtherPayload et' (hs_src st) vlan_rest))
                        vlan_rest et' (hs_src st))
            end
        else if et =? ET_MACSEC then
          if LINK_EXTS_CAP <=? len (hs_exts st) then Ok (LBreak st)
          else
            match Macsec.from_slice rest with
            | Err (ELen e) => add_offset slice rest e
            | Err e => Err e
            | Bug b => Bug b
            | Ok macsec =>
                let* exts' := push (hs_exts st) (HxMacsec (ms_header macsec)) in
                match ms_payload macsec with
                | MpUnmodified e =>
                    let src := match ep_src e with LsSlice => hs_src st | s => s end in
                    link_loop f slice
                      (mkHs exts' (HpEther (mkEtherPayload (ep_ether_type e) src (ep_slice e)))
                            (ep_slice e) (ep_ether_type e) src)
                | MpModified m =>
                    Ok (LDone (mkH None exts' None None (HpMacsecMod m)))
                end
            end
        else Ok (LBreak st)
    end.

  (* the part behind the loop: "parse ip" *)
  Definition net_part (slice : Types.slice) (st : hstate) : res hpacket :=
    let et := hs_et st in
    let rest := hs_rest st in
    if et =? ET_IPV4 then
      match IpHeaders.from_ipv4_slice rest with
      | Err (ELen e) => add_offset slice rest e
      | Err e => Err e
      | Bug b => Bug b
      | Ok (ip, ip_payload) =>
          let rest' := ipp_slice ip_payload in
          match read_transport ip_payload with
          | Err (ELen e) => add_offset slice rest' e
          | Err e => Err e
          | Bug b => Bug b
          | Ok (transport, payload) =>
              Ok (mkH None (hs_exts st) (Some (HnIp ip)) transport payload)
          end
      end
    else if et =? ET_IPV6 then
      match IpHeaders.from_ipv6_slice rest with
      | Err (ELen e) => add_offset slice rest e
      | Err e => Err e
      | Bug b => Bug b
      | Ok (ip, ip_payload) =>
          let rest' := ipp_slice ip_payload in
          match read_transport ip_payload with
          | Err (ELen e) => add_offset slice rest' e
          | Err e => Err e
          | Bug b => Bug b
          | Ok (transport, payload) =>
              Ok (mkH None (hs_exts st) (Some (HnIp ip)) transport payload)
          end
      end
    else if et =? ET_ARP then
      match ArpPacketSlice.from_slice rest with
      | Err (ELen e) => add_offset slice rest e
      | Err e => Err e
      | Bug b => Bug b
      | Ok a => Ok (mkH None (hs_exts st) (Some (HnArp a)) None HpEmpty)
      end
    else Ok (mkH None (hs_exts st) None None (hs_payload st)).

  Definition from_ether_type_slice (ether_type : N) (slice : Types.slice) : res hpacket :=
    let st := mkHs [] (HpEther (mkEtherPayload ether_type LsSlice slice)) slice ether_type LsSlice in
    let* o := link_loop 5 slice st in
    match o with
    | LDone p => Ok p
    | LBreak st' => net_part slice st'
    end.

  Definition from_ether_type (ether_type : N) (data : bytes) : res hpacket :=
    from_ether_type_slice ether_type (mk_slice data).

  Definition from_ethernet_slice (data : bytes) : res hpacket :=
    let slice := mk_slice data in
    let* er := Ethernet2Header.from_slice slice in
    let '(ethernet, rest) := er in
    let* et := Ethernet2Header.ether_type ethernet in
    match from_ether_type_slice et rest with
    | Ok r => Ok (mkH (Some ethernet) (h_exts r) (h_net r) (h_transport r) (h_payload r))
    | Err (ELen e) => Err (ELen (le_add_offset e 14))
    | r => r
    end.

  Definition from_ip_slice (data : bytes) : res hpacket :=
    let slice := mk_slice data in
    let* ir := IpHeaders.from_slice slice in
    let '(ip, ip_payload) := ir in
    let rest := ipp_slice ip_payload in
    match read_transport ip_payload with
    | Err (ELen e) => add_offset slice rest e
    | Err e => Err e
    | Bug b => Bug b
    | Ok (transport, payload) => Ok (mkH None [] (Some (HnIp ip)) transport payload)
    end.
End PacketHeaders.
