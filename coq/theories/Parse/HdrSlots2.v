(* Parse/HdrSlots2.v -- property C04, audit round 1 follow-up, continuation of HdrSlots.v:
   the slot-by-slot agreement of the struct Ipv6Extensions with the extension headers of the
   (cut) slicing result, lifted from the extension layer over IpHeaders::{from_ipv6_slice,
   from_slice}, the VLAN / MACsec loop and the three entry points of PacketHeaders.  The
   lifting runs both families in lockstep exactly as HdrProofs2.v / HdrProofs3.v do (same
   invariant `loop_inv`); the relation carried here only speaks about the IPv6 network layer
   and is `True` on everything else (verdicts, errors, other layers: C04_headers_eq_slices). *)
From Coq Require Import ZArith Lia ZifyN ZifyBool List.
From EP Require Import Parse.AccessProofs.
From EP Require Import Base.Bytes Parse.Types Parse.Slices Parse.Cursor Parse.View
  Parse.WireSpec Parse.Repr Parse.StrictProofs Parse.Access Parse.HdrModel Parse.HdrView Parse.HdrCut
  Parse.HdrProofs Parse.HdrProofs2 Parse.HdrProofs3 Parse.HdrSlots.
Import ListNotations.
Import SlicedPacketCursor.

Local Open Scope N_scope.

(* ---- the relation ------------------------------------------------------------------ *)
(* struct side: IPv6 header slice hd + struct x; slicing side: the Ipv6Slice v *)
Definition net6_rel (hd : slice) (x : exts6) (v : ipv6_slice) : Prop :=
  v6_header v = hd /\
  exists nh0, Ipv6HeaderSlice.next_header hd = Ok nh0 /\
    ext_rel6 nh0 x (v6_exts v) /\ s_off (x6_slice (v6_exts v)) = s_off hd + 40.

Definition slot_rel (h : res (ip_headers * ip_payload)) (r : res ipv6_slice) : Prop :=
  match h, r with
  | Ok (ih, p), Ok v => exists x, ih = IhV6 (v6_header v) x /\ net6_rel (v6_header v) x v
  | _, _ => True
  end.

Lemma v6_tail_slots header hp src :
  bytes_ok (snd hp) -> s_len header = 40 -> s_off hp = s_off header + 40 ->
  slot_rel (IpHeaders.v6_exts header hp src) (cut_v6_tail header hp src).
Proof.
  intros Hok H40 Hoff. unfold IpHeaders.v6_exts, cut_v6_tail, Ipv6HeaderSlice.next_header.
  rdok header 6.
  destruct (Ipv6Extensions.from_slice v hp) as [[[x nh'] r]|[l|ce]|b] eqn:Eh; cbn [bind]; try exact I.
  destruct (Ipv6Extensions.is_fragmenting_payload x) as [fr|e|b]; cbn [bind]; try exact I.
  destruct (Cut.exts_from_slice true v hp) as [[[xs nh''] r']|[l'|ce']|b'] eqn:Es; cbn [bind]; try exact I.
  destruct (exts_slots v hp x nh' r xs nh'' r' Hok Eh Es) as (R & Off).
  unfold slot_rel. cbn [v6_header v6_exts]. exists x. split; [reflexivity|].
  unfold net6_rel. cbn [v6_header v6_exts]. split; [reflexivity|]. exists v.
  unfold Ipv6HeaderSlice.next_header. split; [exact E|]. split; [exact R|]. now rewrite Off.
Qed.

Lemma v6_slots s : bytes_ok (snd s) ->
  slot_rel (IpHeaders.from_ipv6_slice s) (Cut.v6_from_slice true s).
Proof.
  intros Hok. unfold IpHeaders.from_ipv6_slice, Cut.v6_from_slice, Ipv6Header.from_slice.
  pose proof (v6hdr_shape s) as Sh.
  destruct (Ipv6HeaderSlice.from_slice s) as [h|e|b]; cbn [bind]; try contradiction; [|exact I].
  destruct Sh as (H40 & Hle & Hoff & Hsub).
  rewrite idx_from_eq by lia. cbn [bind]. rewrite cut_v6_finish_eq.
  unfold Ipv6HeaderSlice.payload_length.
  destruct (rd16_ok h 4) as (pl & Epl); [lia|]. rewrite Epl. cbn [bind].
  destruct ((0 =? pl) && (40 <? s_len s)) eqn:Ez.
  - rewrite subN_ok by lia. cbn [bind]. rewrite subU_rest by lia. cbn [bind fst snd].
    apply v6_tail_slots; auto.
    + now apply bytes_ok_rest.
    + unfold s_off in *. cbn [fst]. lia.
  - rewrite s_len_drop.
    destruct (s_len s <? 40 + pl) eqn:El.
    { destruct (s_len s - 40 <? pl) eqn:El'; [|lia]. exact I. }
    destruct (s_len s - 40 <? pl) eqn:El'; [lia|].
    rewrite (subU_eq (fst s + 40, drop 40 (snd s)) 0 pl) by (rewrite s_len_drop; lia).
    rewrite subU_eq by lia. cbn [bind fst snd]. rewrite drop_drop0, N.add_0_r.
    apply v6_tail_slots; auto.
    + cbn [snd]. apply bytes_ok_take. now apply bytes_ok_drop.
    + unfold s_off in *. cbn [fst]. lia.
Qed.

(* ---- IpHeaders::from_slice against (cut) IpSlice::from_slice ---------------------------- *)
Definition ipslot_rel (h : res (ip_headers * ip_payload)) (r : res ip_slice) : Prop :=
  match h, r with
  | Ok (ih, p), Ok i =>
      forall hd x, ih = IhV6 hd x -> exists v, i = IpV6 v /\ net6_rel hd x v
  | _, _ => True
  end.

Lemma v4_exts_is_v4 header rest ih p :
  IpHeaders.v4_exts header rest = Ok (ih, p) -> exists a, ih = IhV4 header a.
Proof.
  unfold IpHeaders.v4_exts. intros H. binv H proto Ep. binv H x Ex. destruct x as ((auth, np), rest').
  binv H fr Efr. injection H as <- _. eauto.
Qed.

Lemma v4_tail_ipslot header hp :
  ipslot_rel (IpHeaders.v4_exts header hp) (let* v := Ipv4Slice.finish header hp in Ok (IpV4 v)).
Proof.
  destruct (IpHeaders.v4_exts header hp) as [[ih p]|e|b] eqn:E; try exact I.
  destruct (v4_exts_is_v4 _ _ _ _ E) as (a & ->).
  destruct (Ipv4Slice.finish header hp); cbn [bind]; try exact I.
  intros hd x X. discriminate X.
Qed.

Lemma v6_tail_ipslot header hp src :
  bytes_ok (snd hp) -> s_len header = 40 -> s_off hp = s_off header + 40 ->
  ipslot_rel (IpHeaders.v6_exts header hp src) (let* v := cut_v6_tail header hp src in Ok (IpV6 v)).
Proof.
  intros Hok H40 Hoff. pose proof (v6_tail_slots header hp src Hok H40 Hoff) as A. unfold slot_rel in A.
  destruct (IpHeaders.v6_exts header hp src) as [[ih p]|e|b]; try exact I.
  destruct (cut_v6_tail header hp src) as [v|e'|b']; cbn [bind]; try exact I.
  destruct A as (x & -> & R). intros hd x' X. injection X as <- <-. exists v. auto.
Qed.

Lemma ip_slots s : bytes_ok (snd s) ->
  ipslot_rel (IpHeaders.from_slice s) (Cut.ip_from_slice true s).
Proof.
  intros Hok. unfold IpHeaders.from_slice, Cut.ip_from_slice.
  destruct (s_len s =? 0) eqn:E0; [exact I|].
  unfold rdU. destruct (rd_lt_Some (snd s) 0) as (b0 & Eb); [unfold s_len in *; lia|].
  rewrite Eb. cbn [bind].
  destruct (N.shiftr b0 4 =? 4) eqn:V4.
  { destruct (s_len s <? 20) eqn:E20; [exact I|].
    destruct (N.land b0 15 <? 5) eqn:Ei; [exact I|].
    set (hl := N.land b0 15 * 4) in *.
    destruct (s_len s <? hl) eqn:El; [exact I|].
    rewrite subU_eq by lia. cbn [bind].
    set (header := (fst s + 0, take hl (drop 0 (snd s)))).
    assert (Hh : s_len header = hl) by (apply s_len_sub; lia).
    assert (Hh20 : 20 <= s_len header) by lia.
    destruct (v4_accessors header Hh20) as (_ & _ & (tl & Etl)). rewrite Etl. cbn [bind].
    destruct (tl <? hl) eqn:Et; [exact I|].
    destruct (s_len s <? tl) eqn:Es; [exact I|].
    rewrite subN_ok by lia. cbn [bind]. rewrite subU_eq by lia. cbn [bind].
    apply v4_tail_ipslot. }
  destruct (N.shiftr b0 4 =? 6) eqn:V6; [|exact I].
  destruct (s_len s <? 40) eqn:E40; [exact I|].
  rewrite subU_eq by lia. cbn [bind].
  set (header := (fst s + 0, take 40 (drop 0 (snd s)))).
  assert (Hh : s_len header = 40) by (apply s_len_sub; lia).
  rewrite cut_v6_finish_eq. unfold Ipv6HeaderSlice.payload_length.
  destruct (rd16_ok header 4) as (pl & Epl); [lia|]. rewrite Epl. cbn [bind].
  destruct ((0 =? pl) && (40 <? s_len s)) eqn:Ez.
  - rewrite subN_ok by lia. cbn [bind]. rewrite subU_eq by lia. cbn [bind fst snd].
    apply v6_tail_ipslot; auto.
    + cbn [snd]. apply bytes_ok_take. now apply bytes_ok_drop.
    + unfold s_off, header. cbn [fst]. lia.
  - cbn zeta. destruct (s_len s <? 40 + pl) eqn:El; [exact I|].
    rewrite subU_eq by lia. cbn [bind fst snd].
    apply v6_tail_ipslot; auto.
    + cbn [snd]. apply bytes_ok_take. now apply bytes_ok_drop.
    + unfold s_off, header. cbn [fst]. lia.
Qed.

(* ---- whole packets -------------------------------------------------------------------- *)
Definition pk6_rel (h : res hpacket) (s : res sliced_packet) : Prop :=
  match h, s with
  | Ok p, Ok sp =>
      forall hd x, h_net p = Some (HnIp (IhV6 hd x)) ->
        exists v, sp_net sp = Some (NtIpv6 v) /\ net6_rel hd x v
  | _, _ => True
  end.

Lemma pk6_add_offset slice rest e s : pk6_rel (PacketHeaders.add_offset slice rest e) s.
Proof. unfold PacketHeaders.add_offset. destruct (ptr_off rest slice); exact I. Qed.

Lemma pk6_none l e t p s : pk6_rel (Ok (mkH l e None t p)) s.
Proof. destruct s; try exact I. intros hd x X. discriminate X. Qed.

Lemma pk6_r_err h e : pk6_rel h (Err e).
Proof. destruct h; exact I. Qed.
Lemma pk6_r_bug h b : pk6_rel h (Bug b).
Proof. destruct h; exact I. Qed.

Lemma dispatch_net c p sp : transport_dispatch c p = Ok sp -> sp_net sp = sp_net (c_result c).
Proof.
  unfold transport_dispatch, slice_icmp4, slice_udp, slice_tcp, slice_icmp6.
  destruct (ipp_fragmented p); [intros H; now injection H as <-|].
  destruct (ipp_number p =? IPN_ICMP). { intros H. binv H r E. now injection H as <-. }
  destruct (ipp_number p =? IPN_UDP). { intros H. binv H r E. now injection H as <-. }
  destruct (ipp_number p =? IPN_TCP). { intros H. binv H r E. now injection H as <-. }
  destruct (ipp_number p =? IPN_ICMPV6). { intros H. binv H r E. now injection H as <-. }
  intros H; now injection H as <-.
Qed.

(* behind the IP headers: the network layer is kept by both families *)
Lemma ip_tail6 slice c (exts : list hlink_ext) ih p p' n (D : res N) (off : N -> N) src :
  (forall hd x, ih = IhV6 hd x -> exists v, n = NtIpv6 v /\ net6_rel hd x v) ->
  pk6_rel
    (match read_transport p with
     | Err (ELen e) => PacketHeaders.add_offset slice (ipp_slice p) e
     | Err e => Err e
     | Bug b => Bug b
     | Ok (transport, payload) => Ok (mkH None exts (Some (HnIp ih)) transport payload)
     end)
    (let* d := D in transport_dispatch (set_net c (off d) src n) p').
Proof.
  intros Hn. destruct (read_transport p) as [[t pl]|[l|ce]|b]; try exact I; [|apply pk6_add_offset].
  destruct D as [d|e|b]; cbn [bind]; try exact I.
  destruct (transport_dispatch (set_net c (off d) src n) p') as [sp|e|b] eqn:Et; try exact I.
  apply dispatch_net in Et. cbn [set_net c_result sp_net] in Et.
  intros hd x X. cbn [h_net] in X. injection X as ->.
  destruct (Hn hd x eq_refl) as (v & -> & R). exists v. auto.
Qed.

Lemma pk6_arp l e a t p s : pk6_rel (Ok (mkH l e (Some (HnArp a)) t p)) s.
Proof. destruct s; try exact I. intros hd x X. discriminate X. Qed.

Lemma net6 bs (Hok : bytes_ok bs) k slice st c ep pos lim :
  loop_inv bs k slice st c ep pos lim ->
  pk6_rel (PacketHeaders.net_part slice st)
    (if ep_ether_type ep =? ET_ARP then slice_arp c (ep_slice ep)
     else if ep_ether_type ep =? ET_IPV4 then slice_ipv4 c (ep_slice ep)
     else if ep_ether_type ep =? ET_IPV6 then Cut.slice_ipv6 true c (ep_slice ep)
     else Ok (c_result c)).
Proof.
  intros Inv. pose proof Inv as [I1 I2 I3 I4 I5 I6 I7 I8 I9 I10].
  rewrite I1, I2. unfold PacketHeaders.net_part.
  set (rest := hs_rest st) in *.
  pose proof (repr_bytes_ok _ _ _ _ Hok I3) as Rok.
  destruct (hs_et st =? ET_IPV4) eqn:E4.
  { assert (Ea : (hs_et st =? ET_ARP) = false) by (unfold ET_IPV4, ET_ARP in *; lia). rewrite Ea.
    unfold slice_ipv4.
    pose proof (v4_agree rest Rok) as A. unfold ip4_rel in A.
    destruct (IpHeaders.from_ipv4_slice rest) as [[ih p]|[l|ce]|b];
      destruct (Ipv4Slice.from_slice rest) as [v|e'|b']; try contradiction; cbn [map_len_err bind];
      try exact I; try apply pk6_add_offset.
    destruct A as (-> & -> & A3).
    apply (ip_tail6 slice c (hs_exts st) _ (v4_payload v) (v4_payload v) (NtIpv4 v)
             (ptr_diff (ipp_slice (v4_payload v)) rest) (fun d => c_offset c + d)).
    intros hd x X. discriminate X. }
  destruct (hs_et st =? ET_IPV6) eqn:E6.
  { assert (Ea : (hs_et st =? ET_ARP) = false) by (unfold ET_IPV6, ET_ARP in *; lia). rewrite Ea.
    unfold Cut.slice_ipv6.
    pose proof (v6_slots rest Rok) as A. unfold slot_rel in A.
    destruct (IpHeaders.from_ipv6_slice rest) as [[ih p]|[l|ce]|b];
      destruct (Cut.v6_from_slice true rest) as [v|e'|b']; cbn [map_len_err bind];
      try exact I; try apply pk6_add_offset.
    - destruct A as (x & -> & R).
      apply (ip_tail6 slice c (hs_exts st) _ p (v6_payload v) (NtIpv6 v)
               (ptr_diff (ipp_slice (v6_payload v)) rest) (fun d => c_offset c + d)).
      intros hd x' X. injection X as <- <-. exists v. auto.
    - destruct e' as [l'|c']; cbn [map_len_err bind]; apply pk6_r_err.
    - apply pk6_r_bug. }
  destruct (hs_et st =? ET_ARP) eqn:Ea; [|apply pk6_none].
  destruct (ArpPacketSlice.from_slice rest) as [a|[l|ce]|b]; try exact I; try apply pk6_add_offset.
  apply pk6_arp.
Qed.

Lemma loop6 bs (Hok : bytes_ok bs) k slice cap :
  forall fuel st c ep pos lim,
    (cap < fuel)%nat -> N.of_nat cap + len (sp_exts (c_result c)) = 3 ->
    loop_inv bs k slice st c ep pos lim ->
    pk6_rel (h_run fuel slice st) (Cut.slice_ether_type_loop true fuel c ep).
Proof.
  induction cap as [|cap IH]; intros fuel st c ep pos lim Hf Hcap Inv;
    (destruct fuel as [|f]; [lia|]); pose proof Inv as [I1 I2 I3 I4 I5 I6 I7 I8 I9 I10];
    pose proof (map_eq_len _ _ _ _ I6) as Hlen;
    rewrite h_run_S; cbn [Cut.slice_ether_type_loop]; rewrite I1, Hlen; unfold LINK_EXTS_CAP.
  - (* link_exts is full *)
    destruct (is_vlan_type (hs_et st)) eqn:Ev.
    { destruct (3 <=? len (sp_exts (c_result c))) eqn:E3; [|lia].
      destruct (vlan_not_net _ Ev) as (_ & N4 & N6 & Na).
      unfold PacketHeaders.net_part. rewrite N4, N6, Na. apply pk6_none. }
    destruct (hs_et st =? ET_MACSEC) eqn:Em.
    { destruct (3 <=? len (sp_exts (c_result c))) eqn:E3; [|lia].
      destruct (macsec_not_net _ Em) as (N4 & N6 & Na).
      unfold PacketHeaders.net_part. rewrite N4, N6, Na. apply pk6_none. }
    rewrite <- I1. now apply (net6 bs Hok k slice st c ep pos lim).
  - set (rest := hs_rest st) in *.
    pose proof (repr_off _ _ _ _ I3) as Ro. pose proof (repr_len _ _ _ _ I3) as Rl.
    destruct (is_vlan_type (hs_et st)) eqn:Ev.
    { (* VLAN tag *)
      destruct (3 <=? len (sp_exts (c_result c))) eqn:E3; [lia|].
      rewrite I2. fold rest.
      unfold SingleVlanHeader.from_slice, SingleVlanSlice.from_slice.
      destruct (s_len rest <? 4) eqn:E4.
      { unfold lerr. cbn [map_len_err bind]. apply pk6_add_offset. }
      rewrite subU_eq by lia. cbn [bind]. rewrite idx_from_eq by lia. cbn [bind map_len_err].
      unfold SingleVlanHeader.ether_type, SingleVlanSlice.payload, SingleVlanSlice.ether_type,
        SingleVlanSlice.payload_slice.
      rewrite rd16_prefix by lia.
      destruct (rd16_ok rest 2) as (et' & Eet); [lia|]. rewrite Eet. cbn [bind].
      rewrite subN_ok by lia. cbn [bind]. rewrite subU_rest by lia. cbn [bind].
      unfold PacketHeaders.push, push_ext, LINK_EXTS_CAP. rewrite Hlen.
      destruct (len (sp_exts (c_result c)) <? 3) eqn:E3'; [|lia]. cbn [bind].
      set (vlan := (fst rest + 0, take 4 (drop 0 (snd rest)))).
      set (vrest := (fst rest + 4, drop 4 (snd rest))).
      assert (Rv : repr bs vrest (pos + 4) lim).
      { destruct (repr_rest bs rest pos lim 4 I3 ltac:(lia)) as (s' & Es' & Rs').
        rewrite <- Rl in Es'. rewrite subU_rest in Es' by lia. injection Es' as <-. exact Rs'. }
      match goal with |- pk6_rel _ (Cut.slice_ether_type_loop _ _ ?c' _) =>
        apply (IH f _ c' _ (pos + 4) lim) end;
        [lia|cbn [c_result sp_exts]; rewrite len_app; cbn; lia|].
      constructor; cbn [ep_ether_type ep_slice hs_et hs_rest hs_exts hs_src hs_payload c_offset c_result
                         sp_exts sp_net sp_transport sp_link]; auto; try lia.
      - unfold SingleVlanSlice.header_len. lia.
      - rewrite !map_app, I6. cbn [map hview_ext conv_ext]. do 2 f_equal. subst vlan.
        rewrite win_sub by lia. unfold s_off. now rewrite N.add_0_r.
      - now rewrite exts_src_snoc_vlan.
      - unfold conv_ether_payload. cbn [sp_exts]. rewrite (map_app (@Some link_ext_slice)). cbn [map]. rewrite last_last.
        rewrite exts_src_snoc_vlan, I9. cbn [bind].
        unfold SingleVlanSlice.payload, SingleVlanSlice.ether_type, SingleVlanSlice.payload_slice.
        rewrite Eet. cbn [bind]. rewrite subN_ok by lia. cbn [bind]. rewrite subU_rest by lia. cbn [bind].
        reflexivity. }
    destruct (hs_et st =? ET_MACSEC) eqn:Em;
      [|rewrite <- I1; now apply (net6 bs Hok k slice st c ep pos lim)].
    (* MACsec *)
    destruct (3 <=? len (sp_exts (c_result c))) eqn:E3; [lia|].
    rewrite I2. fold rest.
    pose proof (macsec_shape bs rest pos lim Hok I3) as Sh.
    destruct (Macsec.from_slice rest) as [m|[l|ce]|b]; try contradiction; cbn [map_len_err bind];
      [|apply pk6_add_offset|exact I].
    destruct Sh as (hl & sl & Ehl & Esl & Wh & Shp).
    rewrite Ehl, Esl. cbn [bind].
    unfold PacketHeaders.push, push_ext, LINK_EXTS_CAP. rewrite Hlen.
    destruct (len (sp_exts (c_result c)) <? 3) eqn:E3'; [|lia]. cbn [bind].
    assert (Hx : map hview_ext (hs_exts st ++ [HxMacsec (ms_header m)]) =
                 map conv_ext (sp_exts (c_result c) ++ [LeMacsec m])).
    { rewrite !map_app, I6. reflexivity. }
    destruct (ms_payload m) as [e|mp] eqn:Emp; [|apply pk6_none].
    destruct Shp as (lim' & Re & Esrc).
    pose proof (repr_off _ _ _ _ Re) as Reo.
    match goal with |- pk6_rel _ (Cut.slice_ether_type_loop _ _ ?c' _) =>
      apply (IH f _ c' _ (pos + hl) lim') end;
      [lia|cbn [c_result sp_exts]; rewrite len_app; cbn; lia|].
    constructor; cbn [ep_ether_type ep_slice hs_et hs_rest hs_exts hs_src hs_payload c_offset c_result
                       sp_exts sp_net sp_transport sp_link]; auto; try lia.
    + rewrite exts_src_snoc_macsec, I9. cbn [bind]. rewrite Esl. cbn [bind]. rewrite Esrc.
      destruct (0 <? sl); reflexivity.
    + unfold conv_ether_payload. cbn [sp_exts]. rewrite (map_app (@Some link_ext_slice)). cbn [map]. rewrite last_last.
      rewrite Emp. rewrite exts_src_snoc_macsec, I9. cbn [bind]. rewrite Esl. cbn [bind]. rewrite Esrc.
      destruct (0 <? sl); reflexivity.
Qed.

(* ---- entry points --------------------------------------------------------------------- *)
Theorem slots_ether_type et bs : bytes_ok bs ->
  pk6_rel (PacketHeaders.from_ether_type et bs) (Cut.from_ether_type true et bs).
Proof.
  intros Hok.
  unfold PacketHeaders.from_ether_type, PacketHeaders.from_ether_type_slice, Cut.from_ether_type,
    Cut.slice_ether_type.
  set (ep := mkEtherPayload et LsSlice (mk_slice bs)).
  set (c := set_link new 0 (LkEtherPayload ep)).
  set (st := mkHs [] (HpEther (mkEtherPayload et LsSlice (mk_slice bs))) (mk_slice bs) et LsSlice).
  apply (loop6 bs Hok 0 (mk_slice bs) 3 5 st c ep 0 (len bs)); [lia|reflexivity|].
  constructor; try reflexivity; try apply repr_whole.
  all: unfold s_off, mk_slice; cbn [fst]; lia.
Qed.

Lemma pk6_wrap eth h s : pk6_rel h s ->
  pk6_rel (match h with
           | Ok r => Ok (mkH eth (h_exts r) (h_net r) (h_transport r) (h_payload r))
           | Err (ELen e) => Err (ELen (le_add_offset e 14))
           | Err (EContent c) => Err (EContent c)
           | Bug b => Bug b
           end) s.
Proof. destruct h as [p|[l|c]|b]; try (intros; exact I). destruct s; auto. Qed.

Theorem slots_ethernet bs : bytes_ok bs ->
  pk6_rel (PacketHeaders.from_ethernet_slice bs) (Cut.from_ethernet true bs).
Proof.
  intros Hok.
  unfold PacketHeaders.from_ethernet_slice, Cut.from_ethernet, Cut.slice_ethernet2, Cut.slice_ether_type,
    Ethernet2Header.from_slice, Ethernet2Slice.from_slice_without_fcs.
  set (s := mk_slice bs).
  pose proof (repr_whole bs) as R. fold s in R.
  pose proof (repr_len _ _ _ _ R) as Rl. rewrite N.sub_0_r in Rl.
  destruct (s_len s <? 14) eqn:E14; [exact I|].
  rewrite subU_eq by lia. cbn [bind map_len_err]. rewrite idx_from_eq by lia. cbn [bind].
  unfold Ethernet2Header.ether_type, Ethernet2Slice.payload, Ethernet2Slice.ether_type,
    Ethernet2Slice.payload_slice.
  rewrite rd16_prefix by lia.
  destruct (rd16_ok s 12) as (et & Eet); [lia|]. rewrite Eet. cbn [bind].
  rewrite subN_ok by lia. cbn [bind]. rewrite subU_rest by lia. cbn [bind].
  set (eth := (fst s + 0, take 14 (drop 0 (snd s)))).
  set (rest := (fst s + 14, drop 14 (snd s))).
  set (ep := mkEtherPayload et LsSlice rest).
  set (c := set_link new (c_offset new + Ethernet2Slice.header_len) (LkEthernet2 s)).
  assert (Rr : repr bs rest 14 (len bs)).
  { destruct (repr_rest bs s 0 (len bs) 14 R ltac:(lia)) as (s' & Es' & Rs').
    rewrite N.sub_0_r, <- Rl in Es'. rewrite subU_rest in Es' by lia. injection Es' as <-. exact Rs'. }
  unfold PacketHeaders.from_ether_type_slice.
  set (st := mkHs [] (HpEther (mkEtherPayload et LsSlice rest)) rest et LsSlice).
  apply (pk6_wrap (Some eth)).
  apply (loop6 bs Hok 14 rest 3 5 st c ep 14 (len bs)); [lia|reflexivity|].
  constructor; try reflexivity; try exact Rr; try (unfold s_off, rest; cbn [fst]; lia).
  unfold conv_ether_payload. cbn [c set_link c_result sp_exts map last sp_link].
  unfold Ethernet2Slice.payload, Ethernet2Slice.ether_type, Ethernet2Slice.payload_slice.
  rewrite Eet. cbn [bind]. rewrite subN_ok by lia. cbn [bind]. rewrite subU_rest by lia. cbn [bind].
  reflexivity.
Qed.

Theorem slots_ip bs : bytes_ok bs ->
  pk6_rel (PacketHeaders.from_ip_slice bs) (Cut.from_ip true bs).
Proof.
  intros Hok. unfold PacketHeaders.from_ip_slice, Cut.from_ip, Cut.slice_ip.
  set (s := mk_slice bs).
  pose proof (ip_slots s Hok) as A. unfold ipslot_rel in A.
  destruct (IpHeaders.from_slice s) as [[ih p]|e|b]; cbn [bind]; try exact I.
  destruct (Cut.ip_from_slice true s) as [i|e'|b']; cbn [map_len_err bind].
  - apply (ip_tail6 s new [] ih p (IpSlice.payload i)
             (match i with IpV4 v => NtIpv4 v | IpV6 v => NtIpv6 v end)
             (ptr_diff (ipp_slice (IpSlice.payload i)) s) (fun d => c_offset new + d)).
    intros hd x X. destruct (A hd x X) as (v & -> & R). exists v. auto.
  - destruct e' as [l'|c']; cbn [map_len_err bind]; apply pk6_r_err.
  - apply pk6_r_bug.
Qed.

(* ---- the statement ---------------------------------------------------------------------- *)
(* Whenever struct decoding returns an IPv6 network layer (header slice hd, struct x), the
   cut slicing result sp is Ok with an IPv6 network layer v on the same header slice, and the
   list l of extension headers that iterating `v.extensions()` yields satisfies: the slots of
   x hold exactly l (slots_hold); l are consecutive pieces of the extension area of v, each of
   the kind announced in front of it, the first by the IPv6 header's next_header field (chain);
   the area is the window of exts6_len x bytes directly behind the 40 byte header. *)
Definition slots_in_order (h : res hpacket) (s : res sliced_packet) : Prop :=
  forall hp hd x, h = Ok hp -> h_net hp = Some (HnIp (IhV6 hd x)) ->
  exists sp v first l nh_end,
    s = Ok sp /\ sp_net sp = Some (NtIpv6 v) /\ v6_header v = hd /\
    Ipv6HeaderSlice.next_header hd = Ok first /\
    Ipv6ExtIterA.items (v6_exts v) = Ok l /\
    slots_hold x l /\
    chain (x6_slice (v6_exts v)) 0 first l (exts6_len x) nh_end /\
    win_of (x6_slice (v6_exts v)) = (s_off hd + 40, exts6_len x).

Lemma rdU_not_err s i e : rdU s i <> Err e.
Proof. unfold rdU. destruct (rd (snd s) i); discriminate. Qed.

Lemma hview_of_not_err p e : hview_of p <> Err e.
Proof.
  unfold hview_of. destruct (h_net p) as [[[h a|h x]|a]|]; cbn [hview_net bind]; try discriminate.
  unfold Ipv6HeaderSlice.next_header.
  destruct (rdU h 6) as [v|e'|b] eqn:E; cbn [bind]; try discriminate; [|now apply rdU_not_err in E].
  unfold Ipv6Extensions.is_fragmenting_payload.
  destruct (x_frag x) as [f|]; cbn [bind]; try discriminate.
  unfold Ipv6FragmentHeaderSlice.is_fragmenting_payload, Ipv6FragmentHeaderSlice.more_fragments,
    Ipv6FragmentHeaderSlice.fragment_offset.
  destruct (rdU f 3) as [v3|e'|b] eqn:E3; cbn [bind]; try discriminate; [|now apply rdU_not_err in E3].
  destruct (rdU f 2) as [v2|e'|b] eqn:E2; cbn [bind]; try discriminate. now apply rdU_not_err in E2.
Qed.

Lemma hagree_ok hp s : hagree (Ok hp) s -> exists sp, s = Ok sp.
Proof.
  intros (A & B). cbn [hvres_of_h] in A, B.
  destruct (hview_of hp) as [v|e|b] eqn:E; [|now apply hview_of_not_err in E|now destruct (B b)].
  destruct s as [sp|e|b]; [eauto| |]; cbn [hvres_of_s] in A; discriminate A.
Qed.

Lemma slots_of_rel h s : hagree h s -> pk6_rel h s -> slots_in_order h s.
Proof.
  intros A R hp hd x -> Hn. destruct (hagree_ok _ _ A) as (sp & ->).
  destruct (R hd x Hn) as (v & Ev & Hv & nh0 & Enh & (l & nh' & Hi & Hs & Hc & Hl) & Off).
  exists sp, v, nh0, l, nh'. rewrite <- Hl.
  split; [reflexivity|]. split; [exact Ev|]. split; [exact Hv|]. split; [exact Enh|].
  split; [exact Hi|]. split; [exact Hs|]. split; [exact Hc|].
  unfold win_of. now rewrite Off.
Qed.

Theorem hdr_slots_in_order bs et : bytes_ok bs ->
  slots_in_order (PacketHeaders.from_ethernet_slice bs) (Cut.from_ethernet true bs) /\
  slots_in_order (PacketHeaders.from_ether_type et bs) (Cut.from_ether_type true et bs) /\
  slots_in_order (PacketHeaders.from_ip_slice bs) (Cut.from_ip true bs).
Proof.
  intros Hok. split; [|split].
  - apply slots_of_rel; [now apply hdr_agree_ethernet|now apply slots_ethernet].
  - apply slots_of_rel; [now apply hdr_agree_ether_type|now apply slots_ether_type].
  - destruct (F11 bs) eqn:Hf.
    + destruct (hdr_f11_both_err bs Hf) as ((e & E) & _). intros hp hd x H. rewrite E in H. discriminate H.
    + apply slots_of_rel; [now apply hdr_agree_ip|now apply slots_ip].
Qed.

(* ---- what slots_hold / chain say ---------------------------------------------------------- *)
(* the struct is determined by the chain, slot by slot *)
Lemma holds_unique x x' L : holds x L -> holds x' L -> forall k, slot_get x k = slot_get x' k.
Proof.
  intros (ND & H) (_ & H') k.
  destruct (slot_get x k) as [s|] eqn:E; destruct (slot_get x' k) as [s'|] eqn:E'; auto.
  - apply H in E. apply H' in E'. f_equal.
    clear H H'. induction L as [|(k0, s0) L IH]; [destruct E|].
    cbn [map fst] in ND. inversion ND as [|? ? Hn ND']; subst.
    destruct E as [E|E]; destruct E' as [E'|E'].
    + congruence.
    + injection E as -> ->. exfalso. apply Hn. apply in_map_iff. now exists (k, s').
    + injection E' as -> ->. exfalso. apply Hn. apply in_map_iff. now exists (k, s).
    + now apply IH.
  - apply H in E. apply H' in E. congruence.
  - apply H' in E'. apply H in E'. congruence.
Qed.

Theorem slots_hold_unique x x' l : slots_hold x l -> slots_hold x' l -> x = x'.
Proof.
  intros A B. pose proof (holds_unique _ _ _ A B) as U.
  destruct x as [a1 a2 a3 a4 a5 a6], x' as [b1 b2 b3 b4 b5 b6]. pose proof (U SHbh). pose proof (U SDest). pose proof (U SRoute). pose proof (U SFdest).
  pose proof (U SFrag). pose proof (U SAuth). cbn [slot_get x_hbh x_dest x_route x_fdest x_frag x_auth] in *.
  congruence.
Qed.

(* consecutive windows behind the IPv6 header *)
Theorem chain_windows W l first k' nh' : chain W 0 first l k' nh' ->
  wchain first (s_off W) l nh' (s_off W + k').
Proof. intros C. apply chain_wchain in C. now rewrite N.add_0_r in C. Qed.
