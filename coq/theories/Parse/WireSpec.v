(* Parse/WireSpec.v -- the wire formats as a reference decoder over ABSOLUTE
   positions of the caller's buffer.  Written from the formats (IEEE 802.3 /
   802.1Q / 802.1AE, LINKTYPE_LINUX_SLL, RFC 826, 791, 4302, 8200, 768, 9293,
   792, 4443), not from the crate: no sub-slices, no offset bookkeeping, no
   error fix-ups.  A layer is described by where it starts (`pos`), where the
   data available to it ends (`lim`, exclusive) and which length field imposed
   that end (`src`).

   Rejections carry: the number of bytes required, the number available
   (lim - pos; or the value of a length field that is smaller than its own
   header), the source of the limit, the layer and its absolute offset. *)
From EP Require Import Base.Bytes Parse.Types Parse.View.

Section Wire.
  Variable bs : bytes.

  Definition B (i : N) : N := nth (N.to_nat i) bs 0.
  Definition W (i : N) : N := B i * 256 + B (i + 1).

  Definition cut (required avail : N) (src : len_source) (ly : layer) (pos : N) : vres :=
    VErr (ELen (mkLenError required avail src ly pos)).
  Definition bad (c : content_error) : vres := VErr (EContent c).

  Definition with_net (p : vpacket) (n : vnet) : vpacket :=
    mkVPacket (v_link p) (v_exts p) (Some n) (v_transport p).
  Definition with_tr (p : vpacket) (t : vtransport) : vpacket :=
    mkVPacket (v_link p) (v_exts p) (v_net p) (Some t).
  Definition with_ext (p : vpacket) (x : vlink_ext) : vpacket :=
    mkVPacket (v_link p) (v_exts p ++ [x]) (v_net p) (v_transport p).

  (* ---- transport ------------------------------------------------------- *)
  (* UDP (RFC 768): 8 byte header, length field at 4 covers header + data;
     0 = "up to the end of the enclosing data" (documented by the crate). *)
  Definition wire_udp (p : vpacket) (src : len_source) (pos lim : N) : vres :=
    let a := lim - pos in
    if a <? 8 then cut 8 a src LyUdpHeader pos
    else
      let l := W (pos + 4) in
      if a <? l then cut l a src LyUdpPayload pos
      else if l =? 0 then VOk (with_tr p (VUdp (pos, a)))
      else if l <? 8 then cut 8 l LsUdpHeaderLen LyUdpHeader pos
      else VOk (with_tr p (VUdp (pos, l))).

  (* TCP (RFC 9293): data offset = high nibble of byte 12, in 32-bit words *)
  Definition wire_tcp (p : vpacket) (src : len_source) (pos lim : N) : vres :=
    let a := lim - pos in
    if a <? 20 then cut 20 a src LyTcpHeader pos
    else
      let data_offset := B (pos + 12) / 16 in
      if data_offset <? 5 then bad (CeTcpDataOffset data_offset)
      else if a <? data_offset * 4 then cut (data_offset * 4) a src LyTcpHeader pos
      else VOk (with_tr p (VTcp (data_offset * 4) (pos, a))).

  (* ICMPv4 (RFC 792): 8 bytes minimum; timestamp / timestamp reply (type 13 /
     14, code 0) are exactly 20 bytes *)
  Definition wire_icmp4 (p : vpacket) (src : len_source) (pos lim : N) : vres :=
    let a := lim - pos in
    if a <? 8 then cut 8 a src LyIcmpv4 pos
    else if (B pos =? 13) && (B (pos + 1) =? 0) && negb (a =? 20) then
      cut 20 a src LyIcmpv4Timestamp pos
    else if (B pos =? 14) && (B (pos + 1) =? 0) && negb (a =? 20) then
      cut 20 a src LyIcmpv4TimestampReply pos
    else VOk (with_tr p (VIcmpv4 (pos, a))).

  (* ICMPv6 (RFC 4443): 8 bytes minimum, at most 2^32-1 (pseudo header length) *)
  Definition wire_icmp6 (p : vpacket) (src : len_source) (pos lim : N) : vres :=
    let a := lim - pos in
    if a <? 8 then cut 8 a src LyIcmpv6 pos
    else if 4294967295 <? a then cut 4294967295 a src LyIcmpv6 pos
    else VOk (with_tr p (VIcmpv6 (pos, a))).

  Definition wire_transport (p : vpacket) (ipn : N) (frag : bool) (src : len_source) (pos lim : N)
    : vres :=
    if frag then VOk p
    else if ipn =? 1 then wire_icmp4 p src pos lim
    else if ipn =? 17 then wire_udp p src pos lim
    else if ipn =? 6 then wire_tcp p src pos lim
    else if ipn =? 58 then wire_icmp6 p src pos lim
    else VOk p.

  (* ---- IP authentication header (RFC 4302): next header, payload len in
     32-bit words minus 2 (0 is invalid), ... ------------------------------- *)
  Inductive ah_res := AhOk (hlen next : N) | AhErr (r : vres).
  Definition wire_ah (zero : content_error) (src : len_source) (pos lim : N) : ah_res :=
    let a := lim - pos in
    if a <? 12 then AhErr (cut 12 a src LyIpAuthHeader pos)
    else if B (pos + 1) =? 0 then AhErr (bad zero)
    else
      let l := (B (pos + 1) + 2) * 4 in
      if a <? l then AhErr (cut l a src LyIpAuthHeader pos)
      else AhOk l (B pos).

  (* ---- IPv4 (RFC 791) --------------------------------------------------- *)
  Definition ipv4_fragmented (pos : N) : bool :=
    negb ((B (pos + 6) / 32) mod 2 =? 0) || negb (W (pos + 6) mod 8192 =? 0).

  (* the part behind the length checks: authentication header, then transport;
     the packet ends at lim' = pos + total length *)
  Definition wire_ipv4_tail (p : vpacket) (pos hl lim' : N) : vres :=
    let frag := ipv4_fragmented pos in
    let proto := B (pos + 9) in
    if proto =? 51 then
      match wire_ah CeAuthZeroPayloadLen LsIpv4HeaderTotalLen (pos + hl) lim' with
      | AhErr r => r
      | AhOk ahl next =>
          let ppos := pos + hl + ahl in
          wire_transport
            (with_net p (VIpv4 (pos, hl) (Some (pos + hl, ahl))
                           (mkVIp next frag LsIpv4HeaderTotalLen (ppos, lim' - ppos))))
            next frag LsIpv4HeaderTotalLen ppos lim'
      end
    else
      wire_transport
        (with_net p (VIpv4 (pos, hl) None
                       (mkVIp proto frag LsIpv4HeaderTotalLen (pos + hl, lim' - (pos + hl)))))
        proto frag LsIpv4HeaderTotalLen (pos + hl) lim'.

  (* the part behind the version / IHL / header-length checks *)
  Definition wire_ipv4_body (p : vpacket) (src : len_source) (pos lim hl : N) : vres :=
    let a := lim - pos in
    let tl := W (pos + 2) in
    if tl <? hl then cut hl tl LsIpv4HeaderTotalLen LyIpv4Packet pos
    else if a <? tl then cut tl a src LyIpv4Packet pos
    else wire_ipv4_tail p pos hl (pos + tl).

  (* reached through the IPv4 ether type *)
  Definition wire_ipv4 (p : vpacket) (src : len_source) (pos lim : N) : vres :=
    let a := lim - pos in
    if a <? 20 then cut 20 a src LyIpv4Header pos
    else
      let version := B pos / 16 in
      let ihl := B pos mod 16 in
      if negb (version =? 4) then bad (CeIpv4Version version)
      else if ihl <? 5 then bad (CeIpv4Ihl ihl)
      else if a <? ihl * 4 then cut (ihl * 4) a src LyIpv4Header pos
      else wire_ipv4_body p src pos lim (ihl * 4).

  (* ---- IPv6 extension header chain (RFC 8200 section 4) ----------------- *)
  Inductive chain_res :=
  | ChOk (end_pos : N) (next : N) (frag : bool)
  | ChErr (r : vres).

  Fixpoint wire_chain (fuel : nat) (src : len_source) (pos lim : N) (nh : N) (frag : bool)
    : chain_res :=
    match fuel with
    | O => ChErr (VBug SITE_FUEL)
    | S f =>
        let a := lim - pos in
        if nh =? 0 then ChErr (bad CeHopByHopNotAtStart)
        else if (nh =? 60) || (nh =? 43) then
          if a <? 8 then ChErr (cut 8 a src LyIpv6ExtHeader pos)
          else
            let l := (B (pos + 1) + 1) * 8 in
            if a <? l then ChErr (cut l a src LyIpv6ExtHeader pos)
            else wire_chain f src (pos + l) lim (B pos) frag
        else if nh =? 44 then
          if a <? 8 then ChErr (cut 8 a src LyIpv6FragHeader pos)
          else
            let fr := negb (B (pos + 3) mod 2 =? 0) || negb (W (pos + 2) / 8 =? 0) in
            wire_chain f src (pos + 8) lim (B pos) (frag || fr)
        else if nh =? 51 then
          match wire_ah CeIpv6AuthZeroPayloadLen src pos lim with
          | AhErr r => ChErr r
          | AhOk l next => wire_chain f src (pos + l) lim next frag
          end
        else ChOk pos nh frag
    end.

  (* hop-by-hop options are only allowed directly behind the IPv6 header *)
  Definition wire_exts (fuel : nat) (src : len_source) (pos lim : N) (nh : N) : chain_res :=
    if nh =? 0 then
      let a := lim - pos in
      if a <? 8 then ChErr (cut 8 a src LyIpv6ExtHeader pos)
      else
        let l := (B (pos + 1) + 1) * 8 in
        if a <? l then ChErr (cut l a src LyIpv6ExtHeader pos)
        else wire_chain fuel src (pos + l) lim (B pos) false
    else wire_chain fuel src pos lim nh false.

  (* ---- IPv6 (RFC 8200): payload length 0 = up to the end of the enclosing
     data (the crate's documented stand-in for jumbograms) ------------------ *)
  (* extension chain, then transport; esrc = source of the limit lim' (named by
     errors), psrc = length source recorded in the payload descriptor *)
  Definition wire_ipv6_tail (p : vpacket) (esrc psrc : len_source) (pos lim' : N) : vres :=
    match wire_exts (S (N.to_nat (lim' - (pos + 40)))) esrc (pos + 40) lim' (B (pos + 6)) with
    | ChErr r => r
    | ChOk e next frag =>
        wire_transport
          (with_net p (VIpv6 (pos, 40)
                         (if e =? pos + 40 then None else Some (B (pos + 6))) frag
                         (pos + 40, e - (pos + 40))
                         (mkVIp next frag psrc (e, lim' - e))))
          next frag esrc e lim'
    end.

  Definition wire_ipv6_body (p : vpacket) (src : len_source) (pos lim : N) : vres :=
    let a := lim - pos in
    let plen := W (pos + 4) in
    if (plen =? 0) && (40 <? a) then
      (* the enclosing limit stays in force *)
      wire_ipv6_tail p src LsSlice pos lim
    else if a <? 40 + plen then cut (40 + plen) a src LyIpv6Packet pos
    else wire_ipv6_tail p LsIpv6HeaderPayloadLen LsIpv6HeaderPayloadLen pos (pos + 40 + plen).

  Definition wire_ipv6 (p : vpacket) (src : len_source) (pos lim : N) : vres :=
    let a := lim - pos in
    if a <? 40 then cut 40 a src LyIpv6Header pos
    else if negb (B pos / 16 =? 6) then bad (CeIpv6Version (B pos / 16))
    else wire_ipv6_body p src pos lim.

  (* starting at "an IP header": the version nibble selects the format *)
  Definition wire_ip (p : vpacket) (src : len_source) (pos lim : N) : vres :=
    let a := lim - pos in
    if a =? 0 then cut 1 a src LyIpHeader pos
    else if B pos / 16 =? 4 then
      let ihl := B pos mod 16 in
      if ihl <? 5 then bad (CeIpIhl ihl)
      else if a <? ihl * 4 then cut (ihl * 4) a src LyIpv4Header pos
      else wire_ipv4_body p src pos lim (ihl * 4)
    else if B pos / 16 =? 6 then
      if a <? 40 then cut 40 a src LyIpv6Header pos
      else wire_ipv6_body p src pos lim
    else bad (CeIpUnsupportedVersion (B pos / 16)).

  (* ---- ARP (RFC 826) ---------------------------------------------------- *)
  Definition wire_arp (p : vpacket) (src : len_source) (pos lim : N) : vres :=
    let a := lim - pos in
    if a <? 8 then cut 8 a src LyArp pos
    else
      let l := 8 + B (pos + 4) * 2 + B (pos + 5) * 2 in
      if a <? l then cut l a src LyArp pos
      else VOk (with_net p (VArp (pos, l))).

  (* ---- link extensions: 802.1Q tags and MACsec SecTAGs, at most 3 -------- *)
  Definition is_vlan (et : N) : bool := (et =? 33024) || (et =? 34984) || (et =? 37120).

  Definition wire_net (p : vpacket) (et : N) (src : len_source) (pos lim : N) : vres :=
    if et =? 2054 then wire_arp p src pos lim
    else if et =? 2048 then wire_ipv4 p src pos lim
    else if et =? 34525 then wire_ipv6 p src pos lim
    else VOk p.

  Fixpoint wire_ether (cap : nat) (p : vpacket) (et : N) (src : len_source) (pos lim : N) : vres :=
    let a := lim - pos in
    if is_vlan et then
      match cap with
      | O => VOk p
      | S c =>
          if a <? 4 then cut 4 a src LyVlanHeader pos
          else wire_ether c (with_ext p (VVlan (pos, a))) (W (pos + 2)) src (pos + 4) lim
      end
    else if et =? 35045 then
      match cap with
      | O => VOk p
      | S c =>
          if a <? 6 then cut 6 a src LyMacsecHeader pos
          else
            let tci := B pos in
            let sl := B (pos + 1) mod 64 in
            let unmod := (tci / 4) mod 4 =? 0 in      (* E = 0 and C = 0 *)
            let sc := negb ((tci / 32) mod 2 =? 0) in
            if 128 <=? tci then bad CeMacsecVersion    (* V bit *)
            else if unmod && (sl =? 1) then bad CeMacsecUnmodifiedShortLen
            else
              let hl := 6 + (if unmod then 2 else 0) + (if sc then 8 else 0) in
              if a <? hl then cut hl a src LyMacsecHeader pos
              else
                (* short length: number of octets behind the SecTAG (the ether
                   type of an unmodified frame counts as secure data) *)
                let body := if unmod then sl - 2 else sl in
                if (0 <? sl) && (a <? hl + body) then
                  cut (hl + body) a src LyMacsecPacket pos
                else
                  let lim' := if 0 <? sl then pos + hl + body else lim in
                  let psrc := if 0 <? sl then LsMacsecShortLength else LsSlice in
                  let src' := if 0 <? sl then LsMacsecShortLength else src in
                  if unmod then
                    let et' := W (pos + hl - 2) in
                    wire_ether c
                      (with_ext p (VMacsec (pos, hl)
                         (VMpUnmodified (mkVEp et' psrc (pos + hl, lim' - (pos + hl))))))
                      et' src' (pos + hl) lim'
                  else
                    VOk (with_ext p (VMacsec (pos, hl) (VMpModified (pos + hl, lim' - (pos + hl)))))
      end
    else wire_net p et src pos lim.

  (* ---- entry points ----------------------------------------------------- *)
  Definition n_bs : N := len bs.
  Definition empty_packet : vpacket := mkVPacket None [] None None.

  Definition wire_ethernet : vres :=
    if n_bs <? 14 then cut 14 n_bs LsSlice LyEthernet2Header 0
    else
      wire_ether 3 (mkVPacket (Some (VEthernet2 (0, n_bs))) [] None None)
        (W 12) LsSlice 14 n_bs.

  Definition sll_nonstandard (v : N) : bool :=
    ((1 <=? v) && (v <=? 9)) || ((12 <=? v) && (v <=? 14)) || (v =? 16) || (v =? 17)
    || ((21 <=? v) && (v <=? 28)) || ((245 <=? v) && (v <=? 250)).
  Definition sll_hw_supported (hw : N) : bool :=
    (hw =? 824) || (hw =? 778) || (hw =? 803) || (hw =? 770) || (hw =? 1).

  Definition wire_linux_sll : vres :=
    if n_bs <? 16 then cut 16 n_bs LsSlice LyLinuxSllHeader 0
    else if 7 <? W 0 then bad (CeLinuxSllPacketType (W 0))
    else if negb (sll_hw_supported (W 2)) then bad (CeLinuxSllArpHardwareId (W 2))
    else
      let p := mkVPacket (Some (VLinuxSll (0, 16) (0, n_bs))) [] None None in
      if (W 2 =? 1) && negb (sll_nonstandard (W 14)) then
        wire_ether 3 p (W 14) LsSlice 16 n_bs
      else VOk p.

  Definition wire_ether_type (et : N) : vres :=
    wire_ether 3
      (mkVPacket (Some (VEtherPayload (mkVEp et LsSlice (0, n_bs)))) [] None None)
      et LsSlice 0 n_bs.

  Definition wire_from_ip : vres := wire_ip empty_packet LsSlice 0 n_bs.
End Wire.
