(* Parse/PacketAccess.v -- round 3 (C01 / C02): transliteration of the PACKET-LEVEL accessors
   of the STRICT result type, etherparse/src/sliced_packet.rs lines 266-403:

     SlicedPacket::payload_ether_type, ether_payload, ip_payload, is_ip_payload_fragmented,
     vlan, vlan_ids  (`unsafe { result.push_unchecked(..) }` into ArrayVec<VlanId, 3>)

   over the model of `SlicedPacket` (Parse/Cursor.v `sliced_packet`) with the component
   accessor models of Parse/Access.v, exactly as the Rust code calls the component accessors.
   `vlan_ids` is the model of Defrag/PacketStep.v (`vlan_ids_loop`: push_unchecked on a full
   vector = Bug SITE_PUSH), reused, not copied.  Conventions of Access.v: unchecked read = rdU,
   from_raw_parts = subU, usize subtraction = subN, unwrap_unchecked = Bug SITE_UNWRAP.

   Not representable in the model type: LinkSlice::LinuxSllPayload (no entry point of
   SlicedPacket produces it; `link_slice` of Parse/Cursor.v has no such constructor).
   No proofs here (Parse/PacketAccessProofs.v). *)
From EP Require Import Base.Bytes Parse.Types Parse.Slices Parse.Cursor Parse.Access.
From EP Require Defrag.PacketStep.

Local Open Scope N_scope.

Module SlicedPacketPA.
  (* self.link_exts.last() *)
  Definition last_ext (l : list link_ext_slice) : option link_ext_slice :=
    match rev l with x :: _ => Some x | [] => None end.

  (* SlicedPacket::payload_ether_type *)
  Definition payload_ether_type (p : sliced_packet) : res (option N) :=
    match sp_net p, sp_transport p with
    | None, None =>
        match last_ext (sp_exts p) with
        | Some (LeVlan s) => let* et := SingleVlanA.ether_type s in Ok (Some et)
        | Some (LeMacsec m) => MacsecA.next_ether_type m
        | None =>
            match sp_link p with
            | Some (LkEthernet2 s) =>
                let* et := Ethernet2A.ether_type (mkEth2 0 s) in Ok (Some et)
            | Some (LkLinuxSll h w) =>
                let* pt := LinuxSllHeaderA.protocol_type h in
                match pt with
                | SllEtherType v => Ok (Some v)
                | _ => Ok None
                end
            | Some (LkEtherPayload e) => Ok (Some (ep_ether_type e))
            | None => Ok None
            end
        end
    | _, _ => Ok None            (* self.net.is_some() || self.transport.is_some() *)
    end.

  (* the scan at the start of ether_payload():
       for e in &self.link_exts { if let Macsec(m) = e { if m.header.short_len() != ZERO
         { len_source = LenSource::MacsecShortLength } } } *)
  Fixpoint len_source_scan (exts : list link_ext_slice) (src : len_source) : res len_source :=
    match exts with
    | [] => Ok src
    | LeVlan _ :: r => len_source_scan r src
    | LeMacsec m :: r =>
        let* sl := MacsecHeaderA.short_len (ms_header m) in
        len_source_scan r (if sl =? 0 then src else LsMacsecShortLength)
    end.

  (* SlicedPacket::ether_payload *)
  Definition ether_payload (p : sliced_packet) : res (option ether_payload) :=
    match last_ext (sp_exts p) with
    | Some last =>
        let* src := len_source_scan (sp_exts p) LsSlice in
        match last with
        | LeVlan v =>
            let* pl := SingleVlanA.payload v in
            Ok (Some (mkEtherPayload (ep_ether_type pl) src (ep_slice pl)))
        | LeMacsec m =>
            let* o := MacsecA.ether_payload m in
            match o with
            | Some pl => Ok (Some (mkEtherPayload (ep_ether_type pl) src (ep_slice pl)))
            | None => Ok None
            end
        end
    | None =>
        match sp_link p with
        | Some (LkEthernet2 s) =>
            let* e := Ethernet2A.payload (mkEth2 0 s) in Ok (Some e)
        | Some (LkLinuxSll h w) =>
            let* pt := LinuxSllHeaderA.protocol_type h in
            match pt with
            | SllEtherType _ =>
                (* Some(EtherPayloadSlice::try_from(e.payload()).ok()?): payload() calls
                   protocol_type() again, try_from matches on it *)
                let* x := LinuxSllA.payload (h, w) in
                match fst x with
                | SllNonstandard v | SllEtherType v => Ok (Some (mkEtherPayload v LsSlice (snd x)))
                | _ => Ok None
                end
            | _ => Ok None
            end
        | Some (LkEtherPayload e) => Ok (Some e)
        | None => Ok None
        end
    end.

  (* SlicedPacket::ip_payload: stored field of the Ipv4Slice / Ipv6Slice *)
  Definition ip_payload (p : sliced_packet) : res (option ip_payload) :=
    match sp_net p with
    | Some (NtIpv4 v) => Ok (Some (v4_payload v))
    | Some (NtIpv6 v) => Ok (Some (v6_payload v))
    | _ => Ok None
    end.

  (* SlicedPacket::is_ip_payload_fragmented: Ipv4Slice::is_payload_fragmented re-reads the
     header (bytes 6, 7), Ipv6Slice::is_payload_fragmented returns payload.fragmented *)
  Definition is_ip_payload_fragmented (p : sliced_packet) : res bool :=
    match sp_net p with
    | Some (NtIpv4 v) => Ipv4SliceA.is_payload_fragmented v
    | Some (NtIpv6 v) => Ok (ipp_fragmented (v6_payload v))
    | _ => Ok false
    end.

  (* SlicedPacket::vlan: SingleVlan(first) / DoubleVlan(first, second) of the VLAN entries *)
  Fixpoint vlan_loop (exts : list link_ext_slice) (result : option slice)
    : option (slice * option slice) :=
    match exts with
    | [] => option_map (fun s => (s, None)) result
    | LeVlan s :: r =>
        match result with
        | Some outer => Some (outer, Some s)
        | None => vlan_loop r (Some s)
        end
    | LeMacsec _ :: r => vlan_loop r result
    end.
  Definition vlan (p : sliced_packet) : res (option (slice * option slice)) :=
    Ok (vlan_loop (sp_exts p) None).

  (* SlicedPacket::vlan_ids: the model of Defrag/PacketStep.v *)
  Definition vlan_ids (p : sliced_packet) : res (list N) := Defrag.PacketStep.vlan_ids p.

  Definition packet_accessors (p : sliced_packet) : list (res unit) :=
    [run (payload_ether_type p); run (ether_payload p); run (ip_payload p);
     run (is_ip_payload_fragmented p); run (vlan p); run (vlan_ids p)].

  (* every sub-slice a packet-level accessor hands back: the ether payload, the IP payload,
     the (outer, inner) VLAN slices *)
  Definition lift_opt {A} (r : res (option A)) (f : A -> list (res slice)) : list (res slice) :=
    match r with
    | Ok (Some a) => f a
    | Ok None => []
    | Err e => [Err e]
    | Bug b => [Bug b]
    end.
  Definition packet_windows (p : sliced_packet) : list (res slice) :=
    lift_opt (ether_payload p) (fun e => [Ok (ep_slice e)]) ++
    lift_opt (ip_payload p) (fun i => [Ok (ipp_slice i)]) ++
    lift_opt (vlan p) (fun v => Ok (fst v) :: match snd v with Some i => [Ok i] | None => [] end).

  (* the whole strict result: component accessors (Access.v) + packet-level accessors *)
  Definition accessors (p : sliced_packet) : list (res unit) :=
    SlicedPacketA.accessors p ++ packet_accessors p.
  Definition windows (p : sliced_packet) : list (res slice) :=
    SlicedPacketA.windows p ++ packet_windows p.
End SlicedPacketPA.
