(* Parse/StrictFacts.v -- the facts about the reference decoder (WireSpecFacts.v,
   WireNested.v) transferred to the MODEL of strict slicing through the refinement
   theorems `from_*_rel` of StrictProofs.v (the theorems behind the C03_from_ / C07_from_ families):

   * an accepted packet's view is `nested` and lies inside the input;
   * a rejection has the same cause as a rejection of the reference decoder, which falls
     in one of the six classes of `classify`;
   * a reported length error has `required > len`, or is one of the two oversized rules;
   * `c07_truthful` together with "the model result is not Bug" (the VBug arm of
     `c07_truthful` is `True`; `res_rel` excludes it). *)
From EP Require Import Base.Bytes Parse.Types Parse.Slices Parse.Cursor Parse.View
  Parse.WireSpec Parse.StrictProofs Parse.WireSpecFacts Parse.WireNested.
From Coq Require Import Lia.

Local Open Scope N_scope.

(* ---- generic transfer along res_rel -------------------------------------------------- *)
(* the cause of a rejection, as `c03_rel` compares it *)
Definition same_cause (m s : slice_error) : Prop :=
  match m, s with
  | ELen a, ELen b => le_layer a = le_layer b /\ le_required a = le_required b /\ le_len a = le_len b
  | EContent a, EContent b => a = b
  | _, _ => False
  end.

Lemma rel_ok_nested bs (r : res sliced_packet) s p :
  res_rel (vres_of r) s -> (forall v, s = VOk v -> nested bs v) -> r = Ok p ->
  s = VOk (view p) /\ nested bs (view p) /\ Forall (inside bs) (vwindows (view p)).
Proof.
  intros R H ->. cbn [vres_of] in R. destruct s as [v|e|b]; cbn in R; try contradiction.
  subst v. pose proof (H _ eq_refl) as Hn. split; [reflexivity|]. split; [exact Hn|now apply nested_inside].
Qed.

Lemma rel_err_class bs (r : res sliced_packet) s err :
  res_rel (vres_of r) s -> (forall serr, s = VErr serr -> exists c, classify bs serr = Some c) ->
  r = Err err ->
  exists serr c, s = VErr serr /\ same_cause err serr /\ classify bs serr = Some c.
Proof.
  intros R H ->. cbn [vres_of] in R.
  destruct s as [v|serr|b]; [destruct err; contradiction| |destruct err; contradiction].
  destruct (H serr eq_refl) as (c & Hc). exists serr, c. split; [reflexivity|]. split; [|exact Hc].
  destruct err as [a|a], serr as [b|b]; cbn in R; try contradiction; cbn.
  - destruct R as (H1 & H2 & H3 & _). auto.
  - exact R.
Qed.

Lemma rel_len_direction (r : res sliced_packet) s e :
  res_rel (vres_of r) s -> (forall se, s = VErr (ELen se) -> len_direction se) ->
  r = Err (ELen e) -> len_direction e.
Proof.
  intros R H ->. cbn [vres_of] in R.
  destruct s as [v|[se|c]|b]; cbn in R; try contradiction.
  destruct R as (H1 & H2 & H3 & _). specialize (H se eq_refl).
  unfold len_direction in *. rewrite H1, H2, H3. exact H.
Qed.

(* the same along c07_truthful (used for the struct decoders) *)
Lemma truthful_len_direction e s :
  c07_truthful (VErr (ELen e)) s -> (forall se, s = VErr (ELen se) -> len_direction se) ->
  len_direction e.
Proof.
  cbn. intros (se & -> & Hl & Ho & Hn & Hr & _) H. specialize (H se eq_refl).
  unfold len_direction in *. rewrite Hl, Hn, Hr. exact H.
Qed.

Lemma rel_truthful_strong m s : res_rel m s -> c07_truthful m s /\ forall b, m <> VBug b.
Proof. intros R. split; [now apply res_rel_c07|now apply (res_rel_no_bug m s)]. Qed.

(* ---- the four strict entry points ------------------------------------------------------ *)
Section Entry.
  Variables (bs : bytes) (et : N).
  Hypothesis Hok : bytes_ok bs.

  Theorem strict_nested_from_ethernet p : SlicedPacket.from_ethernet bs = Ok p ->
    wire_ethernet bs = VOk (view p) /\ nested bs (view p) /\ Forall (inside bs) (vwindows (view p)).
  Proof. apply (rel_ok_nested bs _ _ p (from_ethernet_rel bs Hok)). apply wire_ethernet_nested. Qed.
  Theorem strict_nested_from_linux_sll p : SlicedPacket.from_linux_sll bs = Ok p ->
    wire_linux_sll bs = VOk (view p) /\ nested bs (view p) /\ Forall (inside bs) (vwindows (view p)).
  Proof. apply (rel_ok_nested bs _ _ p (from_linux_sll_rel bs Hok)). apply wire_linux_sll_nested. Qed.
  Theorem strict_nested_from_ether_type p : SlicedPacket.from_ether_type et bs = Ok p ->
    wire_ether_type bs et = VOk (view p) /\ nested bs (view p) /\ Forall (inside bs) (vwindows (view p)).
  Proof. apply (rel_ok_nested bs _ _ p (from_ether_type_rel bs et Hok)). apply wire_ether_type_nested. Qed.
  Theorem strict_nested_from_ip p : SlicedPacket.from_ip bs = Ok p ->
    wire_from_ip bs = VOk (view p) /\ nested bs (view p) /\ Forall (inside bs) (vwindows (view p)).
  Proof. apply (rel_ok_nested bs _ _ p (from_ip_rel bs Hok)). apply wire_from_ip_nested. Qed.

  Theorem strict_err_classes_from_ethernet err : SlicedPacket.from_ethernet bs = Err err ->
    exists serr c, wire_ethernet bs = VErr serr /\ same_cause err serr /\ classify bs serr = Some c.
  Proof.
    apply (rel_err_class bs _ _ err (from_ethernet_rel bs Hok)).
    intros serr. apply (wire_err_classes bs et serr).
  Qed.
  Theorem strict_err_classes_from_linux_sll err : SlicedPacket.from_linux_sll bs = Err err ->
    exists serr c, wire_linux_sll bs = VErr serr /\ same_cause err serr /\ classify bs serr = Some c.
  Proof.
    apply (rel_err_class bs _ _ err (from_linux_sll_rel bs Hok)).
    intros serr. apply (wire_err_classes bs et serr).
  Qed.
  Theorem strict_err_classes_from_ether_type err : SlicedPacket.from_ether_type et bs = Err err ->
    exists serr c, wire_ether_type bs et = VErr serr /\ same_cause err serr /\ classify bs serr = Some c.
  Proof.
    apply (rel_err_class bs _ _ err (from_ether_type_rel bs et Hok)).
    intros serr. apply (wire_err_classes bs et serr).
  Qed.
  Theorem strict_err_classes_from_ip err : SlicedPacket.from_ip bs = Err err ->
    exists serr c, wire_from_ip bs = VErr serr /\ same_cause err serr /\ classify bs serr = Some c.
  Proof.
    apply (rel_err_class bs _ _ err (from_ip_rel bs Hok)).
    intros serr. apply (wire_err_classes bs et serr).
  Qed.

  Theorem strict_len_direction e :
    (SlicedPacket.from_ethernet bs = Err (ELen e) -> len_direction e) /\
    (SlicedPacket.from_linux_sll bs = Err (ELen e) -> len_direction e) /\
    (SlicedPacket.from_ether_type et bs = Err (ELen e) -> len_direction e) /\
    (SlicedPacket.from_ip bs = Err (ELen e) -> len_direction e).
  Proof.
    split; [|split; [|split]].
    - apply (rel_len_direction _ _ e (from_ethernet_rel bs Hok)).
      intros se. apply (wire_len_direction bs et se).
    - apply (rel_len_direction _ _ e (from_linux_sll_rel bs Hok)).
      intros se. apply (wire_len_direction bs et se).
    - apply (rel_len_direction _ _ e (from_ether_type_rel bs et Hok)).
      intros se. apply (wire_len_direction bs et se).
    - apply (rel_len_direction _ _ e (from_ip_rel bs Hok)).
      intros se. apply (wire_len_direction bs et se).
  Qed.

  Theorem strict_truthful_strong :
    (c07_truthful (vres_of (SlicedPacket.from_ethernet bs)) (wire_ethernet bs) /\
     forall b, vres_of (SlicedPacket.from_ethernet bs) <> VBug b) /\
    (c07_truthful (vres_of (SlicedPacket.from_linux_sll bs)) (wire_linux_sll bs) /\
     forall b, vres_of (SlicedPacket.from_linux_sll bs) <> VBug b) /\
    (c07_truthful (vres_of (SlicedPacket.from_ether_type et bs)) (wire_ether_type bs et) /\
     forall b, vres_of (SlicedPacket.from_ether_type et bs) <> VBug b) /\
    (c07_truthful (vres_of (SlicedPacket.from_ip bs)) (wire_from_ip bs) /\
     forall b, vres_of (SlicedPacket.from_ip bs) <> VBug b).
  Proof.
    split; [|split; [|split]]; apply rel_truthful_strong;
      [apply from_ethernet_rel|apply from_linux_sll_rel|apply from_ether_type_rel|apply from_ip_rel];
      exact Hok.
  Qed.
End Entry.
