(* Parse/HdrErrFacts.v -- direction of the length errors of the struct decoders
   (PacketHeaders): whenever PacketHeaders rejects with a length error, `required > len`
   or the error is one of the two oversized rules of the reference decoder
   (HdrErrTruth.headers_errors_truthful + WireSpecFacts.wire_len_direction).  Inside the
   known class F11 (first nibble 4, fewer than 20 bytes) the record of from_ip_slice is
   computed directly: required 20, len = the slice length. *)
From EP Require Import Base.Bytes Parse.Types Parse.Slices Parse.Cursor Parse.View
  Parse.WireSpec Parse.StrictProofs Parse.HdrModel Parse.HdrProofs3 Parse.HdrErrTruth
  Parse.WireSpecFacts Parse.StrictFacts.
From Coq Require Import Lia.

Local Open Scope N_scope.

Lemma hdr_f11_error bs : F11 bs = true ->
  PacketHeaders.from_ip_slice bs = Err (ELen (mkLenError 20 (len bs) LsSlice LyIpv4Header 0)).
Proof.
  intros Hf. destruct bs as [|b0 r]; [discriminate|]. unfold F11 in Hf.
  apply andb_prop in Hf. destruct Hf as (V4 & L20).
  set (s := mk_slice (b0 :: r)).
  assert (Hl : s_len s = len (b0 :: r)) by reflexivity.
  assert (E0 : (s_len s =? 0) = false) by (rewrite Hl, len_cons; lia).
  assert (Eb : rd (snd s) 0 = Some b0) by reflexivity.
  unfold PacketHeaders.from_ip_slice, IpHeaders.from_slice. fold s. rewrite E0, Eb. cbn [bind].
  rewrite V4. rewrite Hl, L20. unfold lerr. cbn [bind]. reflexivity.
Qed.

Theorem headers_len_direction bs et : bytes_ok bs ->
  (forall e, PacketHeaders.from_ethernet_slice bs = Err (ELen e) -> len_direction e) /\
  (forall e, PacketHeaders.from_ether_type et bs = Err (ELen e) -> len_direction e) /\
  (forall e, PacketHeaders.from_ip_slice bs = Err (ELen e) -> len_direction e).
Proof.
  intros Hok. destruct (headers_errors_truthful bs et Hok) as (H1 & H2 & H3).
  split; [|split].
  - intros e He. apply (truthful_len_direction e _ (H1 _ He)).
    intros se. apply (wire_len_direction bs et se).
  - intros e He. apply (truthful_len_direction e _ (H2 _ He)).
    intros se. apply (wire_len_direction bs et se).
  - intros e He. destruct (F11 bs) eqn:Hf.
    + rewrite (hdr_f11_error bs Hf) in He. injection He as <-.
      unfold len_direction. cbn [le_layer le_len le_required].
      destruct bs as [|b0 r]; [discriminate|]. unfold F11 in Hf.
      apply andb_prop in Hf. destruct Hf as (_ & L20). lia.
    + apply (truthful_len_direction e _ (H3 eq_refl _ He)).
      intros se. apply (wire_len_direction bs et se).
Qed.
