(* Parse/HdrLaxProofs.v -- the lax struct decoders (HdrLaxModel.v) against the lax
   slicing model (LaxSlices.v, LaxCursor.v), layer by layer:
     - transport: the "decode transport layer" block of LaxPacketHeaders::add_ip against
       LaxSlicedPacketCursor::slice_transport (headers, payload windows, incomplete
       flag, stop error incl. offset and length source);
     - IPv4 (+ authentication header): the IPv4 arm of IpHeaders::from_slice_lax against
       the IPv4 arm of LaxIpSlice::from_slice (three-way total length fall-back,
       incomplete flag, stop error). *)
From Coq Require Import ZArith Lia ZifyN ZifyBool.
From EP Require Import Base.Bytes Parse.Types Parse.Slices Parse.Cursor Parse.View
  Parse.WireSpec Parse.Repr Parse.StrictProofs Parse.LaxSlices Parse.LaxCursor Parse.LaxView
  Parse.HdrModel Parse.HdrView Parse.HdrCut Parse.HdrProofs Parse.HdrLaxModel Parse.HdrLaxView.
Import LaxSlicedPacketCursor.

Local Open Scope N_scope.

(* ---- length errors of the transport slicers name the slice as length source -------- *)
Lemma icmp4_err_src s l : Icmpv4Slice.from_slice s = Err (ELen l) -> le_src l = LsSlice.
Proof.
  unfold Icmpv4Slice.from_slice, lerr.
  destruct (s_len s <? 8) eqn:E8; [intros H; injection H as <-; reflexivity|].
  rdok s 0. rdok s 1.
  destruct ((v =? 13) && (0 =? v0) && negb (20 =? s_len s)); [intros H; injection H as <-; reflexivity|].
  destruct ((v =? 14) && (0 =? v0) && negb (20 =? s_len s)); [intros H; injection H as <-; reflexivity|].
  discriminate.
Qed.

Lemma icmp4_no_content s ce : Icmpv4Slice.from_slice s <> Err (EContent ce).
Proof.
  unfold Icmpv4Slice.from_slice, lerr.
  destruct (s_len s <? 8) eqn:E8; [discriminate|].
  rdok s 0. rdok s 1.
  destruct ((v =? 13) && (0 =? v0) && negb (20 =? s_len s)); [discriminate|].
  destruct ((v =? 14) && (0 =? v0) && negb (20 =? s_len s)); discriminate.
Qed.

Lemma icmp6_err_src s l : Icmpv6Slice.from_slice s = Err (ELen l) -> le_src l = LsSlice.
Proof.
  unfold Icmpv6Slice.from_slice, lerr.
  destruct (s_len s <? 8); [intros H; injection H as <-; reflexivity|].
  destruct (Icmpv6Slice.MAX_LEN <? s_len s); [intros H; injection H as <-; reflexivity|discriminate].
Qed.

Lemma udp_lax_shape s :
  match UdpSlice.from_slice_lax s with
  | Ok u => 8 <= s_len u
  | Err (ELen l) => le_src l = LsSlice
  | Err (EContent _) => False
  | Bug _ => False
  end.
Proof.
  unfold UdpSlice.from_slice_lax, UdpSlice.header_from_slice, UdpSlice.length, lerr.
  destruct (s_len s <? 8) eqn:E8; [reflexivity|].
  rewrite subU_eq by lia. cbn [bind].
  destruct (rd16_ok (fst s + 0, take 8 (drop 0 (snd s))) 4) as (l & El).
  { rewrite s_len_sub by lia. lia. }
  rewrite El. cbn [bind].
  destruct ((s_len s <? l) || (l <? 8)) eqn:E9; [lia|].
  rewrite subU_eq by lia. rewrite s_len_sub by lia. lia.
Qed.

Lemma fix_len_eq p off e : le_src e = LsSlice ->
  LaxPacketHeaders.add_len_source p off e = ELen (fix_len e off (lipp_src p)).
Proof.
  intros H. unfold LaxPacketHeaders.add_len_source, fix_len. destruct e as [r l sr ly o].
  cbn in H. subst sr. reflexivity.
Qed.

(* ---- transport ------------------------------------------------------------------------ *)
Definition ltr_rel (self1 : lhpacket) (p : lax_ip_payload) (c : lax_cursor)
  (h : res lhpacket) (s : res lax_sliced_packet) : Prop :=
  match h, s with
  | Ok r, Ok sp =>
      lh_link r = lh_link self1 /\ lh_exts r = lh_exts self1 /\ lh_net r = lh_net self1 /\
      lsp_link sp = lsp_link (lc_result c) /\ lsp_exts sp = lsp_exts (lc_result c) /\
      lsp_net sp = lsp_net (lc_result c) /\
      match lsp_transport sp with
      | Some ts =>
          exists t, lh_transport r = Some t /\
            lconv_tr (lipp_incomplete p) ts = Ok (hview_tr t, lhview_payload (lh_payload r)) /\
            lh_stop r = lh_stop self1 /\ lsp_stop_err sp = None
      | None =>
          lh_transport r = lh_transport self1 /\ lh_payload r = lh_payload self1 /\
          match lsp_stop_err sp with
          | Some e => lh_stop r = Some e
          | None => lh_stop r = lh_stop self1
          end
      end
  | _, _ => False
  end.

Ltac ltr_ok :=
  unfold ltr_rel, LaxPacketHeaders.with_transport, with_transport;
  cbn [lh_link lh_exts lh_net lh_transport lh_payload lh_stop lsp_link lsp_exts lsp_net lsp_transport
       lsp_stop_err fst snd];
  repeat (split; [reflexivity|]); eexists; (split; [reflexivity|]);
  cbn [lconv_tr hview_tr lhview_payload].

Ltac ltr_stop Hstop :=
  unfold ltr_rel, LaxPacketHeaders.with_stop, with_stop;
  cbn [lh_link lh_exts lh_net lh_transport lh_payload lh_stop lsp_link lsp_exts lsp_net lsp_transport
       lsp_stop_err];
  rewrite ?Hstop; repeat (split; [reflexivity|]).

Lemma lax_transport_agree self1 p c :
  has_stop (lc_result c) = false -> lsp_transport (lc_result c) = None ->
  ltr_rel self1 p c (LaxPacketHeaders.add_transport self1 p (lc_offset c)) (slice_transport c p).
Proof.
  intros Hstop Hnone. unfold LaxPacketHeaders.add_transport, slice_transport. rewrite Hstop, Bool.orb_false_r.
  assert (Hs : lsp_stop_err (lc_result c) = None).
  { unfold has_stop in Hstop. destruct (lsp_stop_err (lc_result c)); [discriminate|reflexivity]. }
  assert (Stay : ltr_rel self1 p c (Ok self1) (Ok (lc_result c))).
  { unfold ltr_rel. rewrite Hnone, Hs. repeat split. }
  destruct (lipp_fragmented p); [exact Stay|].
  destruct (lipp_number p =? IPN_ICMP) eqn:E1.
  { pose proof (icmp4_shape (lipp_slice p)) as Sh. pose proof (icmp4_err_src (lipp_slice p)) as Se.
    destruct (Icmpv4Slice.from_slice (lipp_slice p)) as [r|[l|ce]|b] eqn:Ei; try contradiction.
    - destruct Sh as (-> & hl & Ehl & H8 & Hl).
      unfold Icmpv4Acc.header, Icmpv4Acc.payload. rewrite Ehl. cbn [bind].
      rewrite subU_eq by lia. rewrite subN_ok by lia. cbn [bind]. rewrite subU_eq by lia. cbn [bind].
      ltr_ok. rewrite Ehl. cbn [bind].
      rewrite ?win_take by lia. rewrite ?win_sub by lia.
      unfold s_off. rewrite N.add_0_r. rewrite Hs. repeat split.
    - rewrite (fix_len_eq p _ l (Se l eq_refl)). ltr_stop Hnone. reflexivity.
    - now destruct (icmp4_no_content (lipp_slice p) ce Ei). }
  destruct (lipp_number p =? IPN_ICMPV6) eqn:E4.
  { assert (E2 : (lipp_number p =? IPN_UDP) = false).
    { apply N.eqb_eq in E4. rewrite E4. reflexivity. }
    assert (E3 : (lipp_number p =? IPN_TCP) = false).
    { apply N.eqb_eq in E4. rewrite E4. reflexivity. }
    rewrite E2, E3.
    pose proof (icmp6_err_src (lipp_slice p)) as Se.
    unfold Icmpv6Slice.from_slice, Icmpv6Slice.MAX_LEN in *.
    destruct (s_len (lipp_slice p) <? 8) eqn:E8.
    { unfold lerr in *. rewrite (fix_len_eq p _ _ (Se _ eq_refl)). ltr_stop Hnone. reflexivity. }
    destruct (4294967295 <? s_len (lipp_slice p)) eqn:Em.
    { unfold lerr in *. rewrite (fix_len_eq p _ _ (Se _ eq_refl)). ltr_stop Hnone. reflexivity. }
    unfold Icmpv6Acc.header, Icmpv6Acc.payload.
    rewrite subU_eq by lia. rewrite subN_ok by lia. cbn [bind]. rewrite subU_eq by lia. cbn [bind].
    ltr_ok.
    rewrite ?win_take by lia. rewrite ?win_sub by lia.
    unfold s_off. rewrite N.add_0_r. rewrite Hs. repeat split. }
  destruct (lipp_number p =? IPN_UDP) eqn:E2.
  { pose proof (udp_lax_shape (lipp_slice p)) as Sh.
    destruct (UdpSlice.from_slice_lax (lipp_slice p)) as [u|[l|ce]|b]; try contradiction.
    - unfold UdpAcc.to_header, UdpAcc.payload.
      rewrite subU_eq by lia. rewrite subN_ok by lia. cbn [bind]. rewrite subU_eq by lia. cbn [bind].
      ltr_ok.
      rewrite ?win_take by lia. rewrite ?win_sub by lia.
      unfold s_off. rewrite N.add_0_r. rewrite Hs. repeat split.
    - rewrite (fix_len_eq p _ l Sh). ltr_stop Hnone. reflexivity. }
  destruct (lipp_number p =? IPN_TCP) eqn:E3; [|exact Stay].
  unfold TcpHeader.from_slice, TcpHeaderSlice.from_slice, TcpSlice.from_slice.
  set (s := lipp_slice p).
  destruct (s_len s <? 20) eqn:E20.
  { unfold lerr. cbn [bind]. rewrite fix_len_eq by reflexivity. ltr_stop Hnone. reflexivity. }
  rdok s 12.
  set (hl := N.shiftr (N.land v 240) 2).
  destruct (hl <? 20) eqn:Eh.
  { cbn [bind]. ltr_stop Hnone. reflexivity. }
  destruct (s_len s <? hl) eqn:El.
  { unfold lerr. cbn [bind]. rewrite fix_len_eq by reflexivity. ltr_stop Hnone. reflexivity. }
  rewrite subU_eq by lia. cbn [bind].
  rewrite s_len_sub by lia. rewrite idx_from_eq by lia. cbn [bind fst snd].
  ltr_ok.
  rewrite ?win_take by lia. rewrite ?win_sub by lia. rewrite win_drop.
  unfold s_off. rewrite N.add_0_r. rewrite Hs. repeat split.
Qed.

(* ---- IPv4 (+ authentication header) ------------------------------------------------------ *)
Definition lip4_rel (s : slice) (h : res (ip_headers * lax_ip_payload * option stop_error))
  (r : res (lax_ip_slice * option stop_error)) : Prop :=
  match h, r with
  | Ok (ih, p, st), Ok (i, st') =>
      exists v, i = LIpV4 v /\ ih = IhV4 (lv4_header v) (lv4_auth v) /\ p = lv4_payload v /\
        st = option_map (conv_ext_stop true (fun l => l)) st' /\
        s_off s <= s_off (lipp_slice p) /\
        (forall l ly, st = Some (ELen l, ly) -> le_src l = lipp_src p)
  | Err e, Err e' => e = e'
  | _, _ => False
  end.

Lemma auth_content s c : IpAuthHeaderSlice.from_slice s = Err (EContent c) -> c = CeAuthZeroPayloadLen.
Proof.
  unfold IpAuthHeaderSlice.from_slice, lerr.
  destruct (s_len s <? 12) eqn:E; [discriminate|].
  rdok s 1.
  destruct (v <? 1); [intros H; injection H as <-; reflexivity|].
  destruct (s_len s <? (v + 2) * 4) eqn:El; [discriminate|].
  rewrite subU_eq by lia. discriminate.
Qed.

Lemma lax_v4_tail s header hl hp src inc :
  bytes_ok (snd hp) -> 20 <= s_len header -> s_len header = hl -> s_off s <= s_off hp ->
  lip4_rel s
    (let* proto := Ipv4HeaderSlice.protocol header in
     let* x := LaxIpv4Extensions.from_slice_lax proto hp in
     let '(auth, next_protocol, rest', stop) := x in
     let stop' :=
       match stop with
       | Some (ELen l) => Some (ELen (le_set_src (le_add_offset l hl) src), LyIpAuthHeader)
       | Some (EContent c) => Some (EContent c, LyIpAuthHeader)
       | None => None
       end in
     let* fragmented := Ipv4HeaderSlice.is_fragmenting_payload header in
     Ok (IhV4 header auth, mkLaxIpp inc next_protocol fragmented src rest', stop'))
    (let* r := LaxIpv4Slice.finish header hp src inc in
     let '(v, stop) := r in
     Ok (LIpV4 v,
         match stop with
         | Some (ELen l) => Some (ELen l, LyIpAuthHeader)
         | Some (EContent _) => Some (EContent CeIpv6AuthZeroPayloadLen, LyIpAuthHeader)
         | None => None
         end)).
Proof.
  intros Hok H20 Hhl Hs. unfold LaxIpv4Slice.finish, LaxIpv4Extensions.from_slice_lax, LaxIpv4Exts.from_slice_lax.
  destruct (v4_accessors header H20) as ((fr & Efr) & (pr & Epr) & _).
  rewrite Efr, Epr. cbn [bind]. rewrite (N.eqb_sym IPN_AUTH pr).
  destruct (pr =? IPN_AUTH) eqn:Ea.
  - pose proof (auth_shape hp Hok) as Sh. pose proof (auth_content hp) as Sc.
    destruct (IpAuthHeaderSlice.from_slice hp) as [a|[l|ce]|b]; cbn [bind]; try contradiction.
    + destruct Sh as (A12 & Ale & Aoff & Ath & _).
      rewrite subN_ok by lia. cbn [bind]. rewrite subU_rest by lia. cbn [bind].
      unfold IpAuthHeaderSlice.next_header. rdok a 0. rewrite Ath. cbn [bind]. rewrite ?Efr. cbn [bind].
      unfold lip4_rel. eexists. split; [reflexivity|]. cbn [lv4_header lv4_auth lv4_payload option_map lipp_slice lipp_src].
      split; [reflexivity|]. split; [reflexivity|]. split; [reflexivity|].
      split; [unfold s_off in *; cbn [fst]; lia|]. intros; discriminate.
    + rewrite ?Efr. cbn [bind]. unfold lip4_rel. eexists. split; [reflexivity|].
      cbn [lv4_header lv4_auth lv4_payload option_map conv_ext_stop lipp_slice lipp_src].
      apply N.eqb_eq in Ea. subst pr. split; [reflexivity|]. split; [reflexivity|].
      subst hl. destruct l as [r ln sr ly o]. split; [reflexivity|]. split; [exact Hs|].
      intros l' ly' E. injection E as <- _. reflexivity.
    + rewrite ?Efr. cbn [bind]. unfold lip4_rel. eexists. split; [reflexivity|].
      cbn [lv4_header lv4_auth lv4_payload option_map conv_ext_stop lipp_slice lipp_src].
      apply N.eqb_eq in Ea. subst pr. rewrite (Sc ce eq_refl).
      split; [reflexivity|]. split; [reflexivity|]. split; [reflexivity|]. split; [exact Hs|].
      intros; discriminate.
  - cbn [bind]. rewrite ?Efr. cbn [bind]. unfold lip4_rel. eexists. split; [reflexivity|].
    cbn [lv4_header lv4_auth lv4_payload option_map lipp_slice lipp_src].
    split; [reflexivity|]. split; [reflexivity|]. split; [reflexivity|]. split; [exact Hs|].
    intros; discriminate.
Qed.

Lemma lax_ip4_agree s b0 :
  bytes_ok (snd s) -> rd (snd s) 0 = Some b0 -> N.shiftr b0 4 = 4 -> 20 <= s_len s ->
  lip4_rel s (LaxIpHeaders.from_slice_lax s) (LaxIpSlice.from_slice s).
Proof.
  intros Hok Eb V4 H20. unfold LaxIpHeaders.from_slice_lax, LaxIpSlice.from_slice.
  destruct (s_len s =? 0) eqn:E0; [lia|].
  unfold rdU. rewrite Eb. cbn [bind]. rewrite V4. change (4 =? 4) with true. cbn iota.
  destruct (s_len s <? 20) eqn:E20; [lia|].
  destruct (N.land b0 15 <? 5) eqn:Ei; [reflexivity|].
  set (hl := N.land b0 15 * 4) in *.
  destruct (s_len s <? hl) eqn:El; [reflexivity|].
  rewrite subU_eq by lia. cbn [bind].
  set (header := (fst s + 0, take hl (drop 0 (snd s)))).
  assert (Hh : s_len header = hl) by (apply s_len_sub; lia).
  assert (Hh20 : 20 <= s_len header) by lia.
  destruct (v4_accessors header Hh20) as (_ & _ & (tl & Etl)). rewrite Etl. cbn [bind].
  unfold LaxIpv4Slice.select_payload.
  assert (Hsub : forall k n, k + n <= s_len s -> bytes_ok (snd (fst s + k, take n (drop k (snd s))))).
  { intros k n _. cbn [snd]. apply bytes_ok_take. now apply bytes_ok_drop. }
  destruct (tl <? hl) eqn:Et.
  { rewrite subN_ok by lia. cbn [bind]. rewrite subU_eq by lia. cbn [bind].
    apply lax_v4_tail; auto; [apply Hsub; lia|unfold s_off; cbn [fst]; lia]. }
  destruct (s_len s <? tl) eqn:Es.
  { rewrite subN_ok by lia. cbn [bind]. rewrite subU_eq by lia. cbn [bind].
    apply lax_v4_tail; auto; [apply Hsub; lia|unfold s_off; cbn [fst]; lia]. }
  rewrite subN_ok by lia. cbn [bind]. rewrite subU_eq by lia. cbn [bind].
  apply lax_v4_tail; auto; [apply Hsub; lia|unfold s_off; cbn [fst]; lia].
Qed.

(* ---- whole packets: the bare-IP entry point, IPv4 ------------------------------------------ *)
Definition lax_ip4_packet_rel (h : res lhpacket) (s : res lax_sliced_packet) : Prop :=
  match h, s with
  | Ok r, Ok sp =>
      lh_link r = None /\ lsp_link sp = None /\ lh_exts r = [] /\ lsp_exts sp = [] /\
      lh_stop r = lsp_stop_err sp /\
      exists v, lsp_net sp = Some (LNtIpv4 v) /\
        lh_net r = Some (HnIp (IhV4 (lv4_header v) (lv4_auth v))) /\
        match lsp_transport sp with
        | Some ts =>
            exists t, lh_transport r = Some t /\
              lconv_tr (lipp_incomplete (lv4_payload v)) ts = Ok (hview_tr t, lhview_payload (lh_payload r))
        | None => lh_transport r = None /\ lh_payload r = LHpIp (lv4_payload v)
        end
  | Err e, Err e' => e = e'
  | _, _ => False
  end.

Theorem lax_from_ip4_agree bs b0 :
  bytes_ok bs -> rd bs 0 = Some b0 -> N.shiftr b0 4 = 4 -> 20 <= len bs ->
  lax_ip4_packet_rel (LaxPacketHeaders.from_ip bs) (LaxSlicedPacket.from_ip bs).
Proof.
  intros Hok Eb V4 H20.
  unfold LaxPacketHeaders.from_ip, LaxPacketHeaders.add_ip, LaxSlicedPacket.from_ip, parse_from_ip.
  set (s := mk_slice bs).
  pose proof (lax_ip4_agree s b0 Hok Eb V4 H20) as A. unfold lip4_rel in A.
  destruct (LaxIpHeaders.from_slice_lax s) as [[[ih p] st]|e|b];
    destruct (LaxIpSlice.from_slice s) as [[i st']|e'|b']; try contradiction; cbn [bind]; [|exact A].
  destruct A as (v & -> & -> & -> & -> & Hoff & Hsrc).
  cbn [LaxIpSlice.payload net_of_ip is_v4 lh_link lh_exts lh_transport lh_stop]. unfold ptr_diff. rewrite subN_ok by lia. cbn [bind].
  destruct st' as [e|]; cbn [option_map].
  - (* stopped in the authentication header *)
    unfold slice_transport, has_stop. cbn [lc_result lsp_stop_err]. rewrite Bool.orb_true_r.
    unfold lax_ip4_packet_rel, LaxPacketHeaders.with_stop.
    cbn [lh_link lh_exts lh_net lh_transport lh_payload lh_stop lsp_link lsp_exts lsp_net lsp_transport lsp_stop_err].
    repeat (split; [reflexivity|]). split.
    + unfold LaxPacketHeaders.ip_stop.
      destruct (conv_ext_stop true (fun l => l) e) as [[l|c] ly] eqn:Ec; cbn [fst snd]; [|reflexivity].
      cbn [option_map] in Hsrc. rewrite Ec in Hsrc. specialize (Hsrc l ly eq_refl). destruct l as [r ln sr y o]. cbn in Hsrc. subst sr.
      unfold le_add_offset, le_set_src. cbn. now rewrite N.add_0_r.
    + eexists. split; [reflexivity|]. repeat split.
  - rewrite N.add_0_l.
    set (self1 := mkLH None [] (Some (HnIp (IhV4 (lv4_header v) (lv4_auth v)))) None (LHpIp (lv4_payload v)) None).
    set (c := mkLaxCursor (s_off (lipp_slice (lv4_payload v)) - s_off s) LsSlice
                (mkLaxSliced None [] (Some (LNtIpv4 v)) None None)).
    pose proof (lax_transport_agree self1 (lv4_payload v) c eq_refl eq_refl) as T.
    cbn [lc_offset c] in T. unfold ltr_rel in T.
    destruct (LaxPacketHeaders.add_transport self1 (lv4_payload v) _) as [r|e|b];
      destruct (slice_transport c (lv4_payload v)) as [sp|e'|b']; try contradiction.
    destruct T as (T1 & T2 & T3 & T4 & T5 & T6 & T7).
    unfold lax_ip4_packet_rel. rewrite T1, T2, T3, T4, T5, T6.
    cbn [self1 c lc_result lh_link lh_exts lh_net lsp_link lsp_exts lsp_net].
    repeat (split; [reflexivity|]).
    destruct (lsp_transport sp) as [ts|].
    + destruct T7 as (t & E1 & E2 & E3 & E4). split; [rewrite E3, E4; reflexivity|].
      eexists. split; [reflexivity|]. split; [reflexivity|]. eexists. split; [exact E1|exact E2].
    + destruct T7 as (E1 & E2 & E3). split.
      * destruct (lsp_stop_err sp); [exact E3|rewrite E3; reflexivity].
      * eexists. split; [reflexivity|]. split; [reflexivity|]. split; [exact E1|exact E2].
Qed.
